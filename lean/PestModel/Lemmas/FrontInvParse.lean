/-
  Lemmas/FrontInvParse.lean — the grammar parser on the tokens of a *concrete* syntax tree
  (Lemmas/FrontInvCst.lean): run on any token list whose kinds and values are those of a C-tree
  (starts arbitrary), `parseTokens` succeeds exactly when `abs` of the C-tree is defined, and then
  it returns `den` of the abstraction and has consumed every token.  No validity hypothesis on the
  C-tree: every check the parser makes is a check `abs` makes.

  The structure mirrors Lemmas/FrontParseRT.lean (open recursion `RecOK` with a length bound,
  look-ahead hypotheses `TermEnd`/`Closer`/`NoBracket`, `termPart`/`exprBody_eq`, the `~`-chain),
  with conclusions stated as equations on `okPart`: "not ok" is stable under `bind`.
-/
import PestModel.Lemmas.FrontInvCst
import PestModel.Lemmas.FrontParseRT

set_option linter.unusedSimpArgs false

namespace Pest
namespace Front
namespace IP

open PRT (tokKV tokKV_cons tokKV_nil tokKV_length tokKV_cons_inv bind_eq pure_eq current_cons next_cons
  advance_cons eat_cons TermEnd Closer NoBracket IsTermDen joinSeq joinChoice termPart)

/-- the `ok` part of a parser result, the remaining tokens as kinds and values -/
def okPart {α} : PR α → Option (α × List KV)
  | .ok a rest => some (a, tokKV rest)
  | _ => none

theorem okPart_ok {α} {r : PR α} {a : α} {ts' : List Token} {K : List KV} (h : r = .ok a ts')
    (hK : tokKV ts' = K) : okPart r = some (a, K) := by
  subst h; subst hK; rfl

theorem okPart_some {α} {r : PR α} {a : α} {K : List KV} (h : okPart r = some (a, K)) :
    ∃ ts', r = .ok a ts' ∧ tokKV ts' = K := by
  cases r with
  | ok a' ts' =>
    simp only [okPart, Option.some.injEq, Prod.mk.injEq] at h
    exact ⟨ts', by rw [h.1], h.2⟩
  | err k t => simp [okPart] at h
  | exc n => simp [okPart] at h
  | oof => simp [okPart] at h

theorem okPart_none {α} {r : PR α} (h : okPart r = none) :
    (∃ k t, r = .err k t) ∨ (∃ n, r = .exc n) ∨ r = .oof := by
  cases r with
  | ok a' ts' => simp [okPart] at h
  | err k t => exact Or.inl ⟨k, t, rfl⟩
  | exc n => exact Or.inr (Or.inl ⟨n, rfl⟩)
  | oof => exact Or.inr (Or.inr rfl)

@[simp] theorem okPart_err {α} (k : EK) (t : Token) : okPart (PR.err k t : PR α) = none := rfl
@[simp] theorem okPart_exc {α} (n : String) : okPart (PR.exc n : PR α) = none := rfl
@[simp] theorem okPart_oof {α} : okPart (PR.oof : PR α) = none := rfl
@[simp] theorem okPart_ok' {α} (a : α) (ts : List Token) : okPart (PR.ok a ts) = some (a, tokKV ts) := rfl

/-! ### numbers and characters in tokens -/

theorem parseInt_spec (t : Token) (eof : Token) (ts : List Token) :
    (∃ v : Int, absInt t.value = some v ∧ parseInt t eof ts = .ok v ts) ∨
    (absInt t.value = none ∧
      ((∃ k tk, parseInt t eof ts = .err k tk) ∨ ∃ n, parseInt t eof ts = .exc n)) := by
  unfold parseInt absInt
  cases pyInt (intLiteral t.value) with
  | none => exact Or.inr ⟨rfl, Or.inr ⟨_, rfl⟩⟩
  | some o =>
    cases o with
    | none => exact Or.inr ⟨rfl, Or.inl ⟨_, _, rfl⟩⟩
    | some v => exact Or.inl ⟨v, rfl, rfl⟩

theorem parseNumber_spec (t : Token) (eof : Token) (ts : List Token) :
    (∃ v : Int, absNum t.value = some v.toNat ∧ parseNumber t eof ts = .ok v ts) ∨
    (absNum t.value = none ∧
      ((∃ k tk, parseNumber t eof ts = .err k tk) ∨ ∃ n, parseNumber t eof ts = .exc n)) := by
  unfold parseNumber absNum
  by_cases hl : (stripZeros t.value).length > 10
  · simp only [hl, if_true]
    exact Or.inr ⟨trivial, Or.inl ⟨.numberOverflow, t, rfl⟩⟩
  · simp only [hl, if_false]
    cases pyInt (stripZeros t.value) with
    | none => exact Or.inr ⟨rfl, Or.inr ⟨_, rfl⟩⟩
    | some o =>
      cases o with
      | none => exact Or.inr ⟨rfl, Or.inr ⟨_, rfl⟩⟩
      | some v =>
        by_cases hv : v > MAX_REPEAT
        · exact Or.inr ⟨by simp [hv], Or.inl ⟨.numberOverflow, t, by simp [hv, fail]⟩⟩
        · exact Or.inl ⟨v, by simp [hv], by simp [hv]⟩

/-! ### postfix operators -/

theorem itemKV'_kind (x : Option Text) : (itemKV' x).1 = .comma ∨ (itemKV' x).1 = .number := by
  cases x <;> simp [itemKV']

/-- one postfix operator: `parsePostfix` succeeds exactly when `CPost.abs` is defined -/
theorem parsePostfix_one (e : Expr) (p : CPost) (eof : Token) (ts : List Token) (K : List KV)
    (h : tokKV ts = p.kv ++ K) :
    okPart (parsePostfix e eof ts) = (p.abs).map (fun p' => (some (applyPost e p'), K)) := by
  cases p with
  | opt =>
    simp only [CPost.kv, List.cons_append, List.nil_append] at h
    obtain ⟨t1, ts1, rfl, hk1, -, h⟩ := tokKV_cons_inv h
    simp [parsePostfix, hk1, applyPost, CPost.abs, h]
  | rep =>
    simp only [CPost.kv, List.cons_append, List.nil_append] at h
    obtain ⟨t1, ts1, rfl, hk1, -, h⟩ := tokKV_cons_inv h
    simp [parsePostfix, hk1, applyPost, CPost.abs, h]
  | rep1 =>
    simp only [CPost.kv, List.cons_append, List.nil_append] at h
    obtain ⟨t1, ts1, rfl, hk1, -, h⟩ := tokKV_cons_inv h
    simp [parsePostfix, hk1, applyPost, CPost.abs, h]
  | braces items =>
    simp only [CPost.kv, List.cons_append, List.append_assoc] at h
    obtain ⟨t1, ts1, rfl, hk1, -, h'⟩ := tokKV_cons_inv h
    clear h; have h := h'; clear h'
    simp only at hk1
    cases items with
    | nil =>
      simp only [List.map_nil, List.nil_append] at h
      obtain ⟨t2, ts2, rfl, hk2, -, h'⟩ := tokKV_cons_inv h
      clear h; have h := h'; clear h'
      simp only at hk2
      simp [parsePostfix, parseRepeat, hk1, hk2, CPost.abs, fail]
    | cons x items =>
      simp only [List.map_cons, List.cons_append] at h
      obtain ⟨t2, ts2, rfl, hk2, hv2, h'⟩ := tokKV_cons_inv h
      clear h; have h := h'; clear h'
      cases x with
      | none =>
        simp only [itemKV'] at hk2
        cases items with
        | nil =>
          simp only [List.map_nil, List.nil_append] at h
          obtain ⟨t3, ts3, rfl, hk3, -, h'⟩ := tokKV_cons_inv h
          clear h; have h := h'; clear h'
          simp only at hk3
          simp [parsePostfix, parseRepeat, eat, hk1, hk2, hk3, CPost.abs]
        | cons y items =>
          simp only [List.map_cons, List.cons_append] at h
          obtain ⟨t3, ts3, rfl, hk3, hv3, h'⟩ := tokKV_cons_inv h
          clear h; have h := h'; clear h'
          cases y with
          | none =>
            simp only [itemKV'] at hk3
            simp [parsePostfix, parseRepeat, eat, hk1, hk2, hk3, CPost.abs]
          | some a =>
            simp only [itemKV'] at hk3 hv3
            cases items with
            | nil =>
              simp only [List.map_nil, List.nil_append] at h
              obtain ⟨t4, ts4, rfl, hk4, -, h'⟩ := tokKV_cons_inv h
              clear h; have h := h'; clear h'
              simp only at hk4
              rcases parseNumber_spec t3 eof ts4 with ⟨v, ha, hp⟩ | ⟨ha, ⟨k, tk, hp⟩ | ⟨n, hp⟩⟩ <;>
                rw [hv3] at ha <;>
                simp [parsePostfix, parseRepeat, eat, hk1, hk2, hk3, hk4, CPost.abs, hp, ha, h, applyPost]
            | cons z items =>
              simp only [List.map_cons, List.cons_append] at h
              obtain ⟨t4, ts4, rfl, hk4, -, h'⟩ := tokKV_cons_inv h
              clear h; have h := h'; clear h'
              have hk4' : t4.kind ≠ .rbrace := by
                rcases itemKV'_kind z with hz | hz <;> rw [hk4, hz] <;> simp
              simp [parsePostfix, parseRepeat, eat, hk1, hk2, hk3, hk4', CPost.abs]
      | some a =>
        simp only [itemKV'] at hk2 hv2
        cases items with
        | nil =>
          simp only [List.map_nil, List.nil_append] at h
          obtain ⟨t3, ts3, rfl, hk3, -, h'⟩ := tokKV_cons_inv h
          clear h; have h := h'; clear h'
          simp only at hk3
          rcases parseNumber_spec t2 eof ts3 with ⟨v, ha, hp⟩ | ⟨ha, ⟨k, tk, hp⟩ | ⟨n, hp⟩⟩ <;>
            rw [hv2] at ha <;>
            simp [parsePostfix, parseRepeat, eat, hk1, hk2, hk3, CPost.abs, hp, ha, h, applyPost]
        | cons y items =>
          simp only [List.map_cons, List.cons_append] at h
          obtain ⟨t3, ts3, rfl, hk3, hv3, h'⟩ := tokKV_cons_inv h
          clear h; have h := h'; clear h'
          cases y with
          | some c =>
            simp only [itemKV'] at hk3
            simp [parsePostfix, parseRepeat, eat, hk1, hk2, hk3, CPost.abs]
          | none =>
            simp only [itemKV'] at hk3
            cases items with
            | nil =>
              simp only [List.map_nil, List.nil_append] at h
              obtain ⟨t4, ts4, rfl, hk4, -, h'⟩ := tokKV_cons_inv h
              clear h; have h := h'; clear h'
              simp only at hk4
              rcases parseNumber_spec t2 eof ts4 with ⟨v, ha, hp⟩ | ⟨ha, ⟨k, tk, hp⟩ | ⟨n, hp⟩⟩ <;>
                rw [hv2] at ha <;>
                simp [parsePostfix, parseRepeat, eat, hk1, hk2, hk3, hk4, CPost.abs, hp, ha, h, applyPost]
            | cons z items =>
              simp only [List.map_cons, List.cons_append] at h
              obtain ⟨t4, ts4, rfl, hk4, hv4, h'⟩ := tokKV_cons_inv h
              clear h; have h := h'; clear h'
              cases z with
              | none =>
                simp only [itemKV'] at hk4
                simp [parsePostfix, parseRepeat, eat, hk1, hk2, hk3, hk4, CPost.abs]
              | some c =>
                simp only [itemKV'] at hk4 hv4
                cases items with
                | nil =>
                  simp only [List.map_nil, List.nil_append] at h
                  obtain ⟨t5, ts5, rfl, hk5, -, h'⟩ := tokKV_cons_inv h
                  clear h; have h := h'; clear h'
                  simp only at hk5
                  rcases parseNumber_spec t2 eof ts5 with ⟨v, ha, hp⟩ | ⟨ha, ⟨k, tk, hp⟩ | ⟨n, hp⟩⟩ <;>
                    rw [hv2] at ha
                  · rcases parseNumber_spec t4 eof ts5 with ⟨w, hb, hq⟩ | ⟨hb, ⟨k, tk, hq⟩ | ⟨n, hq⟩⟩ <;>
                      rw [hv4] at hb <;>
                      simp [parsePostfix, parseRepeat, eat, hk1, hk2, hk3, hk4, hk5, CPost.abs, hp, ha, hq, hb, h,
                        applyPost]
                  · simp [parsePostfix, parseRepeat, eat, hk1, hk2, hk3, hk4, hk5, CPost.abs, hp, ha]
                  · simp [parsePostfix, parseRepeat, eat, hk1, hk2, hk3, hk4, hk5, CPost.abs, hp, ha]
                | cons u items =>
                  simp only [List.map_cons, List.cons_append] at h
                  obtain ⟨t5, ts5, rfl, hk5, -, h'⟩ := tokKV_cons_inv h
                  clear h; have h := h'; clear h'
                  have hk5' : t5.kind ≠ .rbrace := by
                    rcases itemKV'_kind u with hz | hz <;> rw [hk5, hz] <;> simp
                  simp [parsePostfix, parseRepeat, eat, hk1, hk2, hk3, hk4, hk5', CPost.abs]

theorem cpost_length_pos (p : CPost) : 0 < p.kv.length := by cases p <;> simp [CPost.kv]

theorem postfixes_all : ∀ (posts : List CPost) (n : Nat) (e : Expr) (eof : Token) (ts : List Token)
    (K : List KV), posts.length < n → tokKV ts = (posts.map CPost.kv).flatten ++ K → TermEnd K →
    okPart (postfixes n e eof ts) = (absPosts posts).map (fun ps => (ps.foldl applyPost e, K)) := by
  intro posts
  induction posts with
  | nil =>
    intro n e eof ts K hn h hK
    cases n with
    | zero => simp at hn
    | succ n =>
      simp only [List.map_nil, List.flatten_nil, List.nil_append] at h
      simp [postfixes, PRT.parsePostfix_none e eof ts (h ▸ hK), absPosts, h]
  | cons p posts ih =>
    intro n e eof ts K hn h hK
    cases n with
    | zero => simp at hn
    | succ n =>
      simp only [List.map_cons, List.flatten_cons, List.append_assoc] at h
      have h1 := parsePostfix_one e p eof ts _ h
      cases hp : p.abs with
      | none =>
        rw [hp] at h1
        rcases okPart_none h1 with ⟨k, t, hr⟩ | ⟨n, hr⟩ | hr <;> simp [postfixes, hr, absPosts, hp]
      | some p' =>
        rw [hp] at h1
        obtain ⟨ts1, h1, hts1⟩ := okPart_some h1
        have h2 := ih n (applyPost e p') eof ts1 K (by simp at hn; omega) hts1 hK
        simp only [postfixes, bind_eq, h1]
        rw [h2]
        simp only [absPosts, hp]
        cases absPosts posts <;> simp

/-! ### the `~`-chain at the head of a concrete expression -/

/-- the denotations of the terms of the `~`-chain an expression starts with: defined iff each of
    these terms has an abstraction -/
def chainDens (b : List String) : CExpr → Option (List Expr)
  | .one t => (t.abs).map fun t' => [t'.den b]
  | .cons t true _ => (t.abs).map fun t' => [t'.den b]
  | .cons t false rest =>
    match t.abs, chainDens b rest with
    | some t', some l => some (t'.den b :: l)
    | _, _ => none

/-- the expression after the `|` that ends the chain -/
def ctail : CExpr → Option CExpr
  | .one _ => none
  | .cons _ true rest => some rest
  | .cons _ false rest => ctail rest

def ctailKV : Option CExpr → List KV
  | none => []
  | some e => opKV true :: e.kv

theorem chainDens_spec (b : List String) : ∀ (e : CExpr) (l : List Expr), chainDens b e = some l →
    l ≠ [] ∧ ∀ y ∈ l, IsTermDen y
  | .one t, l, h => by
    simp only [chainDens] at h
    cases ht : t.abs with
    | none => simp [ht] at h
    | some t' =>
      simp [ht] at h; subst h
      exact ⟨by simp, by simp; exact PRT.term_termDen b t'⟩
  | .cons t true rest, l, h => by
    simp only [chainDens] at h
    cases ht : t.abs with
    | none => simp [ht] at h
    | some t' =>
      simp [ht] at h; subst h
      exact ⟨by simp, by simp; exact PRT.term_termDen b t'⟩
  | .cons t false rest, l, h => by
    simp only [chainDens] at h
    cases ht : t.abs with
    | none => simp [ht] at h
    | some t' =>
      cases hr : chainDens b rest with
      | none => simp [ht, hr] at h
      | some l' =>
        simp [ht, hr] at h; subst h
        refine ⟨by simp, ?_⟩
        intro y hy
        rcases List.mem_cons.mp hy with rfl | hy
        · exact PRT.term_termDen b t'
        · exact (chainDens_spec b rest l' hr).2 y hy

theorem ctail_length : ∀ (e e' : CExpr), ctail e = some e' → e'.kv.length < e.kv.length
  | .one t, e', h => by simp [ctail] at h
  | .cons t true rest, e', h => by
    simp only [ctail, Option.some.injEq] at h
    subst h
    simp only [CExpr.kv, List.length_append, List.length_cons, List.length_nil]; omega
  | .cons t false rest, e', h => by
    simp only [ctail] at h
    have := ctail_length rest e' h
    simp only [CExpr.kv, List.length_append, List.length_cons, List.length_nil]; omega

/-- the groups of the abstraction, through the chain and the tail -/
theorem abs_groups (b : List String) : ∀ (e : CExpr),
    (e.abs).map (fun e' => e'.groups b) =
      match chainDens b e, ctail e with
      | some l, none => some [l]
      | some l, some e2 => (e2.abs).map fun e2' => l :: e2'.groups b
      | none, _ => none
  | .one t => by
    simp only [CExpr.abs, chainDens, ctail]
    cases t.abs <;> simp [SExpr.groups]
  | .cons t true rest => by
    simp only [CExpr.abs, chainDens, ctail]
    cases t.abs with
    | none => simp
    | some t' => cases hr : rest.abs <;> simp [SExpr.groups, hr]
  | .cons t false rest => by
    have ih := abs_groups b rest
    simp only [CExpr.abs, chainDens, ctail]
    cases t.abs with
    | none => simp
    | some t' =>
      cases hr : rest.abs <;> cases hc : chainDens b rest <;> cases hct : ctail rest <;>
        simp only [hr, hc, hct] at ih ⊢
      all_goals first
        | (rename_i e2; cases he2 : e2.abs <;> simp_all [SExpr.groups, consGroup])
        | simp_all [SExpr.groups, consGroup]

/-- `den` of the abstraction, through the chain and the tail -/
theorem abs_den (b : List String) (e : CExpr) (K : List KV) :
    (e.abs).map (fun e' => (e'.den b, K)) =
      (match chainDens b e, ctail e with
        | some l, none => some [l]
        | some l, some e2 => (e2.abs).map fun (e2' : SExpr) => l :: e2'.groups b
        | none, _ => none).map fun (gs : List (List Expr)) => (mkChoice (gs.map mkSeq), K) := by
  rw [← abs_groups]
  cases e.abs <;> simp [SExpr.den]

/-! ### the recursion hypothesis -/

/-- `rec p` (= `parse_expression(p)` one level down) behaves as `abs` says on every term /
    expression with fewer than `bound` tokens -/
structure RecOK (b : List String) (rec : Nat → P Expr) (bound : Nat) : Prop where
  term : ∀ (t : CTerm), t.kv.length < bound → ∀ (eof : Token) (ts : List Token) (K : List KV),
    tokKV ts = t.kv ++ K → TermEnd K →
    okPart (rec PRECEDENCE_PREFIX eof ts) = (t.abs).map fun t' => (t'.den b, K)
  chain : ∀ (e : CExpr), e.kv.length < bound → ∀ (eof : Token) (ts : List Token) (K : List KV),
    tokKV ts = e.kv ++ K → Closer K →
    okPart (rec PRECEDENCE_SEQUENCE eof ts) =
      (chainDens b e).map fun l => (mkSeq l, ctailKV (ctail e) ++ K)
  full : ∀ (p : Nat), p = PRECEDENCE_LOWEST ∨ p = PRECEDENCE_CHOICE → ∀ (bar : Bool) (e : CExpr),
    (barKV bar ++ e.kv).length < bound → ∀ (eof : Token) (ts : List Token) (K : List KV),
    tokKV ts = barKV bar ++ e.kv ++ K → Closer K →
    okPart (rec p eof ts) = (e.abs).map fun e' => (e'.den b, K)

/-! ### nodes -/

theorem parsePrimary_range (b : List String) (rec : Nat → P Expr) (tag : Option String) (eof : Token)
    (t1 t2 t3 : Token) (ts : List Token) (hk1 : t1.kind = .char) (hk2 : t2.kind = .rangeOp)
    (hk3 : t3.kind = .char) :
    okPart (parsePrimary b rec tag eof (t1 :: t2 :: t3 :: ts)) =
      (CNode.range t1.value t3.value).abs.map fun n => (n.den b tag, tokKV ts) := by
  simp only [parsePrimary, bind_eq, current_cons, hk1, parseRange, eat, next_cons, if_true, pure_eq, unescapeP,
    CNode.abs, absChar]
  cases Unescape.unescape (stripQuotes t1.value) with
  | error e => simp [fail]
  | exc n => simp [raise]
  | ok v =>
    simp only [pure_eq, next_cons, hk2, hk3, if_true]
    cases Unescape.unescape (stripQuotes t3.value) with
    | error e => rcases v with _ | ⟨a, _ | ⟨a2, l⟩⟩ <;> simp [fail]
    | exc n => rcases v with _ | ⟨a, _ | ⟨a2, l⟩⟩ <;> simp [raise]
    | ok w =>
      rcases v with _ | ⟨a, _ | ⟨a2, l⟩⟩ <;> rcases w with _ | ⟨c, _ | ⟨c2, l2⟩⟩ <;> simp [raise]
      by_cases hac : c < a <;> simp [hac, fail, SNode.den]

theorem cnode_head (node : CNode) : ∃ kv rest, node.kv = kv :: rest ∧ kv.1 ≠ .choiceOp ∧ kv.1 ≠ .tag := by
  cases node with
  | ident name =>
    refine ⟨_, _, rfl, ?_⟩
    rcases PRT.keywordKind_cases name with h | h | h | h | h | h <;> simp [h]
  | str s => exact ⟨_, _, rfl, by simp⟩
  | ci s => exact ⟨_, _, rfl, by simp⟩
  | range x y => exact ⟨_, _, rfl, by simp⟩
  | pushLit s =>
    exact ⟨(.pushLiteral, sPUSH_LITERAL), (.lparen, [40]) :: (optKV .string s ++ [(.rparen, [41])]),
      by simp [CNode.kv], by simp⟩
  | push bar e =>
    exact ⟨(.push, sPUSH), (.lparen, [40]) :: (barKV bar ++ e.kv ++ [(.rparen, [41])]), by simp [CNode.kv], by simp⟩
  | slice x y =>
    exact ⟨(.peek, sPEEK), (.lbracket, [91]) :: (optKV .integer x ++ [(.rangeOp, [46, 46])] ++ optKV .integer y ++
      [(.rbracket, [93])]), by simp [CNode.kv], by simp⟩
  | paren bar e =>
    exact ⟨(.lparen, [40]), barKV bar ++ e.kv ++ [(.rparen, [41])], by simp [CNode.kv], by simp⟩

theorem cpost_head (p : CPost) : ∃ k v rest, p.kv = (k, v) :: rest ∧ k ≠ .lbracket := by
  cases p <;> exact ⟨_, _, _, rfl, by simp⟩

theorem cposts_noBracket (posts : List CPost) {K : List KV} (hK : TermEnd K) :
    NoBracket ((posts.map CPost.kv).flatten ++ K) := by
  cases posts with
  | nil => simpa using hK.noBracket
  | cons p posts =>
    obtain ⟨k, v, rest, hp, hk⟩ := cpost_head p
    exact ⟨k, v, rest ++ ((posts.map CPost.kv).flatten ++ K), by simp [hp], hk⟩

theorem cposts_length (posts : List CPost) : posts.length ≤ ((posts.map CPost.kv).flatten).length := by
  induction posts with
  | nil => simp
  | cons p posts ih =>
    have := cpost_length_pos p
    simp only [List.map_cons, List.flatten_cons, List.length_append, List.length_cons]; omega

theorem primary_node {b : List String} {rec : Nat → P Expr} {bound : Nat} (hrec : RecOK b rec bound)
    (node : CNode) (hlen : node.kv.length ≤ bound) (tag : Option String) (eof : Token)
    (ts : List Token) (K : List KV) (h : tokKV ts = node.kv ++ K) (hK : NoBracket K) :
    okPart (parsePrimary b rec tag eof ts) = (node.abs).map fun n => (n.den b tag, K) := by
  cases node with
  | str s =>
    simp only [CNode.kv, List.cons_append, List.nil_append] at h
    obtain ⟨t1, ts1, rfl, hk1, hv1, h⟩ := tokKV_cons_inv h
    simp only at hk1 hv1
    simp [parsePrimary, hk1, hv1, SNode.den, CNode.abs, h]
  | ci s =>
    simp only [CNode.kv, List.cons_append, List.nil_append] at h
    obtain ⟨t1, ts1, rfl, hk1, hv1, h⟩ := tokKV_cons_inv h
    simp only at hk1 hv1
    simp [parsePrimary, hk1, hv1, SNode.den, CNode.abs, h]
  | range x y =>
    simp only [CNode.kv, List.cons_append, List.nil_append] at h
    obtain ⟨t1, ts1, rfl, hk1, hv1, h⟩ := tokKV_cons_inv h
    obtain ⟨t2, ts2, rfl, hk2, -, h⟩ := tokKV_cons_inv h
    obtain ⟨t3, ts3, rfl, hk3, hv3, h⟩ := tokKV_cons_inv h
    simp only at hk1 hv1 hk2 hk3 hv3
    rw [parsePrimary_range b rec tag eof t1 t2 t3 ts3 hk1 hk2 hk3, hv1, hv3, h]
  | ident name =>
    simp only [CNode.kv, List.cons_append, List.nil_append] at h
    obtain ⟨t1, ts1, rfl, hk1, hv1, h⟩ := tokKV_cons_inv h
    simp only at hk1 hv1
    simp only [CNode.abs, Option.map_some]
    refine okPart_ok (ts' := ts1) ?_ h
    rcases PRT.keywordKind_cases name with hkw | hkw | hkw | hkw | hkw | hkw
    · rw [hkw] at hk1
      simp [parsePrimary, hk1, SNode.den, identExpr, hkw, PRT.parsePeek_plain eof ts1 (h ▸ hK)]
    · rw [hkw] at hk1; simp [parsePrimary, hk1, SNode.den, identExpr, hkw]
    · rw [hkw] at hk1; simp [parsePrimary, hk1, SNode.den, identExpr, hkw]
    · rw [hkw] at hk1; simp [parsePrimary, hk1, SNode.den, identExpr, hkw]
    · rw [hkw] at hk1; simp [parsePrimary, hk1, SNode.den, identExpr, hkw]
    · rw [hkw] at hk1
      simp only [parsePrimary, bind_eq, current_cons, hk1, next_cons, hv1, SNode.den, identExpr, hkw]
      split <;> rfl
  | pushLit s =>
    simp only [CNode.kv, List.cons_append, List.nil_append, List.append_assoc] at h
    obtain ⟨t1, ts1, rfl, hk1, -, h⟩ := tokKV_cons_inv h
    obtain ⟨t2, ts2, rfl, hk2, -, h⟩ := tokKV_cons_inv h
    simp only at hk1 hk2
    cases s with
    | none =>
      simp only [optKV, List.nil_append, List.cons_append] at h
      obtain ⟨t3, ts3, rfl, hk3, -, h⟩ := tokKV_cons_inv h
      simp only at hk3
      simp [parsePrimary, eat, hk1, hk2, hk3, CNode.abs]
    | some s =>
      simp only [optKV, List.nil_append, List.cons_append] at h
      obtain ⟨t3, ts3, rfl, hk3, hv3, h⟩ := tokKV_cons_inv h
      obtain ⟨t4, ts4, rfl, hk4, -, h⟩ := tokKV_cons_inv h
      simp only at hk3 hv3 hk4
      simp [parsePrimary, eat, hk1, hk2, hk3, hv3, hk4, SNode.den, CNode.abs, h]
  | push bar e =>
    simp only [CNode.kv, List.cons_append, List.nil_append, List.append_assoc] at h hlen
    obtain ⟨t1, ts1, rfl, hk1, -, h⟩ := tokKV_cons_inv h
    obtain ⟨t2, ts2, rfl, hk2, -, h⟩ := tokKV_cons_inv h
    simp only at hk1 hk2
    have hlen' : (barKV bar ++ e.kv).length < bound := by
      simp only [List.length_cons, List.length_append, List.length_nil] at hlen ⊢; omega
    have h3 := hrec.full PRECEDENCE_LOWEST (Or.inl rfl) bar e hlen'
      eof ts2 ((TK.rparen, [41]) :: K) (by simpa [List.append_assoc] using h) ⟨_, _, _, rfl, Or.inr rfl⟩
    cases he : e.abs with
    | none =>
      rw [he] at h3
      rcases okPart_none h3 with ⟨k, t, hr⟩ | ⟨n, hr⟩ | hr <;>
        simp [parsePrimary, eat, hk1, hk2, hr, CNode.abs, he]
    | some e' =>
      rw [he] at h3
      obtain ⟨ts3, h3, hts3⟩ := okPart_some h3
      obtain ⟨t4, ts4, rfl, hk4, -, h⟩ := tokKV_cons_inv hts3
      simp only at hk4
      simp [parsePrimary, eat, hk1, hk2, h3, hk4, SNode.den, CNode.abs, he, h]
  | paren bar e =>
    simp only [CNode.kv, List.cons_append, List.nil_append, List.append_assoc] at h hlen
    obtain ⟨t1, ts1, rfl, hk1, -, h⟩ := tokKV_cons_inv h
    simp only at hk1
    have hlen' : (barKV bar ++ e.kv).length < bound := by
      simp only [List.length_cons, List.length_append, List.length_nil] at hlen ⊢; omega
    have h3 := hrec.full PRECEDENCE_LOWEST (Or.inl rfl) bar e hlen'
      eof ts1 ((TK.rparen, [41]) :: K) (by simpa [List.append_assoc] using h) ⟨_, _, _, rfl, Or.inr rfl⟩
    cases he : e.abs with
    | none =>
      rw [he] at h3
      rcases okPart_none h3 with ⟨k, t, hr⟩ | ⟨n, hr⟩ | hr <;>
        simp [parsePrimary, eat, hk1, hr, CNode.abs, he]
    | some e' =>
      rw [he] at h3
      obtain ⟨ts3, h3, hts3⟩ := okPart_some h3
      obtain ⟨t4, ts4, rfl, hk4, -, h⟩ := tokKV_cons_inv hts3
      simp only at hk4
      simp [parsePrimary, eat, hk1, h3, hk4, SNode.den, CNode.abs, he, h]
  | slice x y =>
    simp only [CNode.kv, List.cons_append, List.nil_append, List.append_assoc] at h
    obtain ⟨t1, ts1, rfl, hk1, -, h⟩ := tokKV_cons_inv h
    obtain ⟨t2, ts2, rfl, hk2, -, h⟩ := tokKV_cons_inv h
    simp only at hk1 hk2
    cases x with
    | none =>
      simp only [optKV, List.nil_append] at h
      obtain ⟨t3, ts3, rfl, hk3, -, h⟩ := tokKV_cons_inv h
      simp only at hk3
      cases y with
      | none =>
        simp only [optKV, List.nil_append] at h
        obtain ⟨t4, ts4, rfl, hk4, -, h⟩ := tokKV_cons_inv h
        simp only at hk4
        simp [parsePrimary, parsePeek, eat, hk1, hk2, hk3, hk4, SNode.den, CNode.abs, absOptInt, h]
      | some j =>
        simp only [optKV, List.cons_append, List.nil_append] at h
        obtain ⟨t4, ts4, rfl, hk4, hv4, h⟩ := tokKV_cons_inv h
        obtain ⟨t5, ts5, rfl, hk5, -, h⟩ := tokKV_cons_inv h
        simp only at hk4 hv4 hk5
        rcases parseInt_spec t4 eof (t5 :: ts5) with ⟨v, ha, hp⟩ | ⟨ha, ⟨k, tk, hp⟩ | ⟨n, hp⟩⟩ <;>
          rw [hv4] at ha <;>
          simp [parsePrimary, parsePeek, eat, hk1, hk2, hk3, hk4, hk5, SNode.den, CNode.abs, absOptInt, h, hp, ha]
    | some i =>
      simp only [optKV, List.cons_append, List.nil_append] at h
      obtain ⟨t3, ts3, rfl, hk3, hv3, h⟩ := tokKV_cons_inv h
      obtain ⟨t4, ts4, rfl, hk4, -, h⟩ := tokKV_cons_inv h
      simp only at hk3 hv3 hk4
      rcases parseInt_spec t3 eof (t4 :: ts4) with ⟨v, ha, hp⟩ | ⟨ha, ⟨k, tk, hp⟩ | ⟨n, hp⟩⟩ <;>
        rw [hv3] at ha
      · cases y with
        | none =>
          simp only [optKV, List.nil_append] at h
          obtain ⟨t5, ts5, rfl, hk5, -, h⟩ := tokKV_cons_inv h
          simp only at hk5
          simp [parsePrimary, parsePeek, eat, hk1, hk2, hk3, hk4, hk5, SNode.den, CNode.abs, absOptInt, h, hp, ha]
        | some j =>
          simp only [optKV, List.cons_append, List.nil_append] at h
          obtain ⟨t5, ts5, rfl, hk5, hv5, h⟩ := tokKV_cons_inv h
          obtain ⟨t6, ts6, rfl, hk6, -, h⟩ := tokKV_cons_inv h
          simp only at hk5 hv5 hk6
          rcases parseInt_spec t5 eof (t6 :: ts6) with ⟨w, hb, hq⟩ | ⟨hb, ⟨k, tk, hq⟩ | ⟨n, hq⟩⟩ <;>
            rw [hv5] at hb <;>
            simp [parsePrimary, parsePeek, eat, hk1, hk2, hk3, hk4, hk5, hk6, SNode.den, CNode.abs, absOptInt, h,
              hp, ha, hq, hb]
      · simp [parsePrimary, parsePeek, eat, hk1, hk2, hk3, SNode.den, CNode.abs, absOptInt, hp, ha]
      · simp [parsePrimary, parsePeek, eat, hk1, hk2, hk3, SNode.den, CNode.abs, absOptInt, hp, ha]

/-! ### terms -/

theorem abs_prefix (tag : Option Text) (pre : List Bool) (node : CNode) (post : List CPost) :
    (CTerm.mk tag pre node post).abs =
      ((CTerm.mk none [] node post).abs).map fun t' =>
        match t' with | .mk _ _ n p => .mk tag pre n p := by
  simp only [CTerm.abs]
  cases node.abs <;> cases absPosts post <;> simp

theorem termPart_term {b : List String} {rec : Nat → P Expr} {bound : Nat} (hrec : RecOK b rec bound)
    (t : CTerm) (hlen : t.kv.length ≤ bound) (eof : Token) (ts : List Token) (K : List KV)
    (h : tokKV ts = t.kv ++ K) (hK : TermEnd K) :
    okPart (termPart b rec eof ts) = (t.abs).map fun t' => (t'.den b, K) := by
  cases t with
  | mk tag pre node post =>
    -- the tag
    have head : ∀ (ts0 : List Token), tokKV ts0 = tagKV tag ++ (pre.map preKV ++ node.kv ++ (post.map CPost.kv).flatten ++ K) →
        ∃ ts1, parseHead eof ts0 = .ok (tag.map nameOf) ts1 ∧
          tokKV ts1 = pre.map preKV ++ node.kv ++ (post.map CPost.kv).flatten ++ K := by
      intro ts0 h0
      have hfirst : ∃ kv rest, pre.map preKV ++ node.kv ++ (post.map CPost.kv).flatten ++ K = kv :: rest ∧
          kv.1 ≠ .choiceOp ∧ kv.1 ≠ .tag := by
        cases pre with
        | nil =>
          obtain ⟨kv, rest, hn, h1, h2⟩ := cnode_head node
          exact ⟨kv, rest ++ (post.map CPost.kv).flatten ++ K, by simp [hn], h1, h2⟩
        | cons c pre =>
          refine ⟨preKV c, pre.map preKV ++ node.kv ++ (post.map CPost.kv).flatten ++ K, by simp, ?_⟩
          cases c <;> simp [preKV]
      obtain ⟨kv, rest, hrest, hk1, hk2⟩ := hfirst
      cases tag with
      | none =>
        simp only [tagKV, List.nil_append] at h0
        rw [hrest] at h0
        obtain ⟨t1, ts1, rfl, hkd, -, -⟩ := tokKV_cons_inv h0
        refine ⟨t1 :: ts1, ?_, by rw [h0, hrest]⟩
        rw [PRT.parseHead_none (by rw [hkd]; exact hk1) (by rw [hkd]; exact hk2)]; rfl
      | some tg =>
        simp only [tagKV, List.cons_append, List.nil_append] at h0
        obtain ⟨t1, ts1, rfl, hkd1, hv1, h0⟩ := tokKV_cons_inv h0
        obtain ⟨t2, ts2, rfl, hkd2, -, h0⟩ := tokKV_cons_inv h0
        exact ⟨ts2, by rw [PRT.parseHead_tag hkd1 hv1 hkd2]; rfl, h0⟩
    simp only [CTerm.kv, List.append_assoc] at h hlen
    obtain ⟨ts1, h1, hts1⟩ := head ts (by simpa [List.append_assoc] using h)
    cases pre with
    | nil =>
      simp only [List.map_nil, List.nil_append, List.append_assoc] at hts1
      have hlen' : node.kv.length ≤ bound := by
        simp only [List.length_append] at hlen; omega
      have h2 := primary_node hrec node hlen' (tag.map nameOf) eof ts1 _ hts1 (cposts_noBracket post hK)
      simp only [CTerm.abs]
      cases hn : node.abs with
      | none =>
        rw [hn] at h2
        rcases okPart_none h2 with ⟨k, t, hr⟩ | ⟨n, hr⟩ | hr <;> simp [termPart, h1, hr]
      | some n =>
        rw [hn] at h2
        obtain ⟨ts2, h2, hts2⟩ := okPart_some h2
        have hfuel : post.length < ts2.length + 1 := by
          have := cposts_length post
          have := congrArg List.length hts2
          simp only [tokKV_length, List.length_append] at this
          omega
        have h3 := postfixes_all post (ts2.length + 1) (n.den b (tag.map nameOf)) eof ts2 K hfuel hts2 hK
        simp only [termPart, bind_eq, h1, h2]
        rw [h3]
        cases absPosts post <;> simp [STerm.den]
    | cons c pre =>
      simp only [List.map_cons, List.cons_append, List.append_assoc] at hts1
      obtain ⟨t1, ts2, rfl, hkd, -, hts2⟩ := tokKV_cons_inv hts1
      have hsublen : (CTerm.mk none pre node post).kv.length < bound := by
        simp only [CTerm.kv, tagKV, List.nil_append, List.length_append, List.length_map, List.length_cons] at hlen ⊢
        omega
      have h3 := hrec.term (CTerm.mk none pre node post) hsublen eof ts2 K
        (by simpa [CTerm.kv, tagKV, List.append_assoc] using hts2) hK
      have hprim : parsePrimary b rec (tag.map nameOf) eof (t1 :: ts2) =
          (match rec PRECEDENCE_PREFIX eof ts2 with
            | .ok e ts' => .ok (applyPre c e) ts'
            | .err k t => .err k t
            | .exc n => .exc n
            | .oof => .oof) := by
        cases c
        · have hk : t1.kind = .negPred := by simpa [preKV] using hkd
          simp only [parsePrimary, bind_eq, current_cons, hk, advance_cons, pure_eq, applyPre]
          cases rec PRECEDENCE_PREFIX eof ts2 <;> simp
        · have hk : t1.kind = .posPred := by simpa [preKV] using hkd
          simp only [parsePrimary, bind_eq, current_cons, hk, advance_cons, pure_eq, applyPre]
          cases rec PRECEDENCE_PREFIX eof ts2 <;> simp
      rw [abs_prefix tag (c :: pre)]
      rw [abs_prefix none pre] at h3
      cases hsub : (CTerm.mk none [] node post).abs with
      | none =>
        rw [hsub] at h3
        rcases okPart_none h3 with ⟨k, t, hr⟩ | ⟨n, hr⟩ | hr <;> simp [termPart, h1, hprim, hr]
      | some t' =>
        rw [hsub] at h3
        obtain ⟨ts3, h3, hts3⟩ := okPart_some h3
        cases t' with
        | mk tg0 pre0 n p =>
          simp only at h3
          have h4 := postfixes_all [] (ts3.length + 1) (applyPre c ((STerm.mk none pre n p).den b)) eof ts3 K
            (by simp) (by simpa using hts3) hK
          simp only [absPosts, Option.map_some, List.foldl_nil] at h4
          simp only [termPart, bind_eq, h1, hprim, h3]
          rw [h4]
          simp only [Option.map_some, PRT.den_prefix]

/-! ### expressions -/

theorem bind_fail {α β} {m : P α} {f : α → P β} {eof : Token} {ts : List Token}
    (h : okPart (m eof ts) = none) : okPart ((m >>= f) eof ts) = none := by
  rcases okPart_none h with ⟨k, t, hr⟩ | ⟨n, hr⟩ | hr <;> simp [hr]

theorem cterm_head (t : CTerm) : ∃ kv rest, t.kv = kv :: rest ∧ kv.1 ≠ .choiceOp := by
  cases t with
  | mk tag pre node post =>
    cases tag with
    | some tg =>
      exact ⟨(.tag, 35 :: tg), (.assignOp, [61]) :: (pre.map preKV ++ node.kv ++ (post.map CPost.kv).flatten),
        by simp [CTerm.kv, tagKV], by simp⟩
    | none =>
      cases pre with
      | cons c pre =>
        exact ⟨preKV c, pre.map preKV ++ node.kv ++ (post.map CPost.kv).flatten, by simp [CTerm.kv, tagKV],
          by cases c <;> simp [preKV]⟩
      | nil =>
        obtain ⟨kv, rest, hn, h1, -⟩ := cnode_head node
        exact ⟨kv, rest ++ (post.map CPost.kv).flatten, by simp [CTerm.kv, tagKV, hn], h1⟩

theorem cexpr_head (e : CExpr) : ∃ kv rest, e.kv = kv :: rest ∧ kv.1 ≠ .choiceOp := by
  cases e with
  | one t => simpa [CExpr.kv] using cterm_head t
  | cons t bar rest =>
    obtain ⟨kv, r, ht, hk⟩ := cterm_head t
    exact ⟨kv, r ++ [opKV bar] ++ rest.kv, by simp [CExpr.kv, ht], hk⟩

/-- `parse_expression(PRECEDENCE_PREFIX)`: one term -/
theorem exprBody_term {b : List String} {rec : Nat → P Expr} {bound : Nat} (hrec : RecOK b rec bound)
    (t : CTerm) (hlen : t.kv.length ≤ bound) (eof : Token) (ts : List Token) (K : List KV)
    (h : tokKV ts = t.kv ++ K) (hK : TermEnd K) :
    okPart (exprBody b rec PRECEDENCE_PREFIX eof ts) = (t.abs).map fun t' => (t'.den b, K) := by
  have h1o := termPart_term hrec t hlen eof ts K h hK
  rw [PRT.exprBody_eq]
  cases ht : t.abs with
  | none => rw [ht] at h1o; exact bind_fail h1o
  | some t' =>
    rw [ht] at h1o
    obtain ⟨ts1, h1, hts1⟩ := okPart_some h1o
    simp only [bind_eq, h1, Option.map_some]
    refine okPart_ok (ts' := ts1) ?_ hts1
    obtain ⟨k, v, K', rfl, hk⟩ := hK
    apply PRT.infixes_stop hts1
    rcases hk with rfl | rfl | rfl | rfl
    · exact Or.inr (Or.inr (Or.inl ⟨rfl, by decide⟩))
    · exact Or.inr (Or.inr (Or.inr ⟨rfl, by decide⟩))
    · exact Or.inl rfl
    · exact Or.inr (Or.inl rfl)

/-- `parse_expression(PRECEDENCE_SEQUENCE)`: the maximal `~`-chain -/
theorem exprBody_chain {b : List String} {rec : Nat → P Expr} {bound : Nat} (hrec : RecOK b rec bound)
    (e : CExpr) (hlen : e.kv.length ≤ bound) (eof : Token) (ts : List Token) (K : List KV)
    (h : tokKV ts = e.kv ++ K) (hK : Closer K) :
    okPart (exprBody b rec PRECEDENCE_SEQUENCE eof ts) =
      (chainDens b e).map fun l => (mkSeq l, ctailKV (ctail e) ++ K) := by
  rw [PRT.exprBody_eq]
  cases e with
  | one t =>
    simp only [CExpr.kv] at h hlen
    have h1o := termPart_term hrec t hlen eof ts K h hK.termEnd
    simp only [chainDens, ctail, ctailKV, List.nil_append]
    cases ht : t.abs with
    | none => rw [ht] at h1o; exact bind_fail h1o
    | some t' =>
      rw [ht] at h1o
      obtain ⟨ts1, h1, hts1⟩ := okPart_some h1o
      simp only [bind_eq, h1, Option.map_some, mkSeq]
      refine okPart_ok (ts' := ts1) ?_ hts1
      obtain ⟨k, v, K', rfl, hk⟩ := hK
      apply PRT.infixes_stop hts1
      rcases hk with rfl | rfl
      · exact Or.inl rfl
      · exact Or.inr (Or.inl rfl)
  | cons t bar rest =>
    simp only [CExpr.kv, List.append_assoc, List.cons_append, List.nil_append] at h hlen
    have hlen_t : t.kv.length ≤ bound := by simp only [List.length_append] at hlen; omega
    have hend : TermEnd (opKV bar :: (rest.kv ++ K)) :=
      ⟨(opKV bar).1, (opKV bar).2, rest.kv ++ K, rfl, by cases bar <;> simp [opKV]⟩
    have h1o := termPart_term hrec t hlen_t eof ts _ h hend
    cases ht : t.abs with
    | none =>
      rw [ht] at h1o
      have hf := bind_fail (f := fun left => (fun eof ts => infixes rec PRECEDENCE_SEQUENCE (ts.length + 1) left eof ts : P Expr)) h1o
      cases bar <;> simpa [chainDens, ht] using hf
    | some t' =>
      rw [ht] at h1o
      obtain ⟨ts1, h1, hts1⟩ := okPart_some h1o
      cases bar with
      | true =>
        simp only [bind_eq, h1, chainDens, ht, Option.map_some, mkSeq, ctail, ctailKV, List.cons_append]
        refine okPart_ok (ts' := ts1) ?_ hts1
        exact PRT.infixes_stop (by simpa [opKV] using hts1) (Or.inr (Or.inr (Or.inr ⟨rfl, by decide⟩)))
      | false =>
        obtain ⟨t1, ts2, rfl, hk1, -, hts2⟩ := tokKV_cons_inv hts1
        have hk1' : t1.kind = .sequenceOp := by simpa [opKV] using hk1
        have hlen_r : rest.kv.length < bound := by
          simp only [List.length_append, List.length_cons] at hlen; omega
        have h3o := hrec.chain rest hlen_r eof ts2 K hts2 hK
        have hn : ∃ m, ts2.length = m + 1 := by
          have := congrArg List.length hts2
          obtain ⟨k, v, K', rfl, -⟩ := hK
          simp only [tokKV_length, List.length_append, List.length_cons] at this
          exact ⟨ts2.length - 1, by omega⟩
        obtain ⟨m, hm⟩ := hn
        simp only [bind_eq, h1, List.length_cons, hm]
        rw [PRT.infixes_seq hk1' (by decide)]
        simp only [chainDens, ht, ctail]
        cases hc : chainDens b rest with
        | none =>
          rw [hc] at h3o
          rcases okPart_none h3o with ⟨k, t, hr⟩ | ⟨n, hr⟩ | hr <;> simp [hr]
        | some l =>
          rw [hc] at h3o
          obtain ⟨ts3, h3, hts3⟩ := okPart_some h3o
          obtain ⟨hl1, hl2⟩ := chainDens_spec b rest l hc
          simp only [h3, Option.map_some]
          rw [PRT.joinSeq_mkSeq _ _ hl1 hl2]
          refine okPart_ok (ts' := ts3) ?_ hts3
          -- what follows the chain of `rest`: its `|`, or the closer
          cases hct : ctail rest with
          | none =>
            rw [hct] at hts3
            simp only [ctailKV, List.nil_append] at hts3
            obtain ⟨k, v, K', rfl, hk⟩ := hK
            apply PRT.infixes_stop hts3
            rcases hk with rfl | rfl
            · exact Or.inl rfl
            · exact Or.inr (Or.inl rfl)
          | some e' =>
            rw [hct] at hts3
            simp only [ctailKV, List.cons_append] at hts3
            exact PRT.infixes_stop (by simpa [opKV] using hts3) (Or.inr (Or.inr (Or.inr ⟨rfl, by decide⟩)))

/-- `parse_expression(p)` for `p` = LOWEST or CHOICE: the whole expression -/
theorem exprBody_full0 {b : List String} {rec : Nat → P Expr} {bound : Nat} (hrec : RecOK b rec bound)
    (p : Nat) (hp : p = PRECEDENCE_LOWEST ∨ p = PRECEDENCE_CHOICE) (e : CExpr)
    (hlen : e.kv.length ≤ bound) (eof : Token) (ts : List Token) (K : List KV)
    (h : tokKV ts = e.kv ++ K) (hK : Closer K) :
    okPart (exprBody b rec p eof ts) = (e.abs).map fun e' => (e'.den b, K) := by
  have hp2 : p ≤ PRECEDENCE_CHOICE := by rcases hp with rfl | rfl <;> decide
  have hp3 : p ≤ PRECEDENCE_SEQUENCE := by rcases hp with rfl | rfl <;> decide
  have stop : ∀ {n : Nat} {left : Expr} {ts0 : List Token}, tokKV ts0 = K →
      infixes rec p (n + 1) left eof ts0 = .ok left ts0 := by
    intro n left ts0 h0
    obtain ⟨k, v, K', rfl, hk⟩ := hK
    apply PRT.infixes_stop h0
    rcases hk with rfl | rfl
    · exact Or.inl rfl
    · exact Or.inr (Or.inl rfl)
  have Kpos : ∀ {ts0 : List Token} {X : List KV}, tokKV ts0 = X ++ K → ∃ m, ts0.length = m + 1 := by
    intro ts0 X h0
    have := congrArg List.length h0
    obtain ⟨k, v, K', rfl, -⟩ := hK
    simp only [tokKV_length, List.length_append, List.length_cons] at this
    exact ⟨ts0.length - 1, by omega⟩
  rw [PRT.exprBody_eq]
  cases e with
  | one t =>
    simp only [CExpr.kv] at h hlen
    have h1o := termPart_term hrec t hlen eof ts K h hK.termEnd
    simp only [CExpr.abs]
    cases ht : t.abs with
    | none => rw [ht] at h1o; exact bind_fail h1o
    | some t' =>
      rw [ht] at h1o
      obtain ⟨ts1, h1, hts1⟩ := okPart_some h1o
      simp only [bind_eq, h1, Option.map_some, SExpr.den, SExpr.groups, List.map_cons, List.map_nil, mkSeq, mkChoice]
      exact okPart_ok (stop hts1) hts1
  | cons t bar rest =>
    simp only [CExpr.kv, List.append_assoc, List.cons_append, List.nil_append] at h hlen
    have hlen_t : t.kv.length ≤ bound := by simp only [List.length_append] at hlen; omega
    have hlen_r : rest.kv.length < bound := by
      simp only [List.length_append, List.length_cons] at hlen; omega
    have hend : TermEnd (opKV bar :: (rest.kv ++ K)) :=
      ⟨(opKV bar).1, (opKV bar).2, rest.kv ++ K, rfl, by cases bar <;> simp [opKV]⟩
    have h1o := termPart_term hrec t hlen_t eof ts _ h hend
    cases ht : t.abs with
    | none =>
      rw [ht] at h1o
      simpa [CExpr.abs, ht] using
        bind_fail (f := fun left => (fun eof ts => infixes rec p (ts.length + 1) left eof ts : P Expr)) h1o
    | some t' =>
      rw [ht] at h1o
      obtain ⟨ts1, h1, hts1⟩ := okPart_some h1o
      obtain ⟨t1, ts2, rfl, hk1, -, hts2⟩ := tokKV_cons_inv hts1
      obtain ⟨m, hm⟩ := Kpos hts2
      cases bar with
      | true =>
        have hk1' : t1.kind = .choiceOp := by simpa [opKV] using hk1
        have h3o := hrec.full PRECEDENCE_CHOICE (Or.inr rfl) false rest
          (by simpa [barKV] using hlen_r) eof ts2 K (by simpa [barKV] using hts2) hK
        simp only [bind_eq, h1, List.length_cons, hm]
        rw [PRT.infixes_choice hk1' hp2]
        simp only [CExpr.abs, ht]
        cases hr : rest.abs with
        | none =>
          rw [hr] at h3o
          rcases okPart_none h3o with ⟨k, t, hr'⟩ | ⟨n, hr'⟩ | hr' <;> simp [hr']
        | some r' =>
          rw [hr] at h3o
          obtain ⟨ts3, h3, hts3⟩ := okPart_some h3o
          simp only [h3, SExpr.den, Option.map_some]
          rw [PRT.joinChoice_mkChoice _ _ (by simpa using PRT.groups_ne_nil b r') (PRT.groups_mkSeq_not_choice b r')]
          simp only [SExpr.groups, List.map_cons, mkSeq]
          exact okPart_ok (stop hts3) hts3
      | false =>
        have hk1' : t1.kind = .sequenceOp := by simpa [opKV] using hk1
        have h3o := hrec.chain rest hlen_r eof ts2 K hts2 hK
        simp only [bind_eq, h1, List.length_cons, hm]
        rw [PRT.infixes_seq hk1' hp3, abs_den]
        simp only [chainDens, ht, ctail]
        cases hc : chainDens b rest with
        | none =>
          rw [hc] at h3o
          rcases okPart_none h3o with ⟨k, t, hr'⟩ | ⟨n, hr'⟩ | hr' <;> simp [hr']
        | some l =>
          rw [hc] at h3o
          obtain ⟨ts3, h3, hts3⟩ := okPart_some h3o
          obtain ⟨hl1, hl2⟩ := chainDens_spec b rest l hc
          simp only [h3]
          rw [PRT.joinSeq_mkSeq _ _ hl1 hl2]
          cases hct : ctail rest with
          | none =>
            rw [hct] at hts3
            simp only [ctailKV, List.nil_append] at hts3
            simp only [Option.map_some, List.map_cons, List.map_nil, mkChoice]
            exact okPart_ok (stop hts3) hts3
          | some e2 =>
            rw [hct] at hts3
            simp only [ctailKV, List.cons_append] at hts3
            obtain ⟨t4, ts4, rfl, hk4, -, hts4⟩ := tokKV_cons_inv hts3
            have hk4' : t4.kind = .choiceOp := by simpa [opKV] using hk4
            have hlt' := ctail_length rest e2 hct
            have h5o := hrec.full PRECEDENCE_CHOICE (Or.inr rfl) false e2
              (by simp only [barKV, Bool.false_eq_true, if_false, List.nil_append]; omega) eof ts4 K
              (by simpa [barKV] using hts4) hK
            obtain ⟨m', hm'⟩ : ∃ m', m = m' + 1 := by
              have h4 := congrArg List.length hts4
              have h2 := congrArg List.length hts2
              have hKpos : 0 < K.length := by
                obtain ⟨k, v, K', rfl, -⟩ := hK
                simp
              simp only [tokKV_length, List.length_append] at h4 h2
              exact ⟨m - 1, by omega⟩
            subst hm'
            rw [PRT.infixes_choice hk4' hp2]
            cases he2 : e2.abs with
            | none =>
              rw [he2] at h5o
              rcases okPart_none h5o with ⟨k, t, hr'⟩ | ⟨n, hr'⟩ | hr' <;> simp [hr', he2]
            | some e2' =>
              rw [he2] at h5o
              obtain ⟨ts5, h5, hts5⟩ := okPart_some h5o
              simp only [h5, SExpr.den, Option.map_some, he2]
              rw [PRT.joinChoice_mkChoice _ _ (by simpa using PRT.groups_ne_nil b e2')
                (PRT.groups_mkSeq_not_choice b e2')]
              simp only [List.map_cons]
              exact okPart_ok (stop hts5) hts5

theorem exprBody_full {b : List String} {rec : Nat → P Expr} {bound : Nat} (hrec : RecOK b rec bound)
    (p : Nat) (hp : p = PRECEDENCE_LOWEST ∨ p = PRECEDENCE_CHOICE) (bar : Bool) (e : CExpr)
    (hlen : (barKV bar ++ e.kv).length ≤ bound) (eof : Token) (ts : List Token) (K : List KV)
    (h : tokKV ts = barKV bar ++ e.kv ++ K) (hK : Closer K) :
    okPart (exprBody b rec p eof ts) = (e.abs).map fun e' => (e'.den b, K) := by
  cases bar with
  | false =>
    simp only [barKV, Bool.false_eq_true, if_false, List.nil_append] at h hlen
    exact exprBody_full0 hrec p hp e hlen eof ts K h hK
  | true =>
    simp only [barKV, if_true, List.cons_append, List.nil_append, List.length_cons] at h hlen
    obtain ⟨t0, ts0, rfl, hk0, -, h0⟩ := tokKV_cons_inv h
    simp only at hk0
    obtain ⟨kv, rest, he, hkv⟩ := cexpr_head e
    have h0' := h0
    rw [he] at h0'
    obtain ⟨t1, ts1, rfl, hk1, -, -⟩ := tokKV_cons_inv h0'
    rw [PRT.exprBody_skip_bar hk0 (by rw [hk1]; exact hkv)]
    exact exprBody_full0 hrec p hp e (by omega) eof _ K h0 hK

/-- **`parse_expression` on the tokens of a concrete term / expression** (fuel above the token
    count): it succeeds exactly when the abstraction is defined, with its denotation -/
theorem recOK (b : List String) : ∀ fuel, RecOK b (parseExpression b fuel) fuel
  | 0 => ⟨fun _ h => absurd h (Nat.not_lt_zero _), fun _ h => absurd h (Nat.not_lt_zero _),
      fun _ _ _ _ h => absurd h (Nat.not_lt_zero _)⟩
  | fuel + 1 => by
    have ih := recOK b fuel
    refine ⟨?_, ?_, ?_⟩
    · intro t hlen eof ts K h hK
      exact exprBody_term ih t (by omega) eof ts K h hK
    · intro e hlen eof ts K h hK
      exact exprBody_chain ih e (by omega) eof ts K h hK
    · intro p hp bar e hlen eof ts K h hK
      exact exprBody_full ih p hp bar e (by omega) eof ts K h hK

/-! ### rules -/

/-- one rule: if its body has an abstraction, the parser goes on with the rule added;
    otherwise it does not succeed -/
theorem parseRule_one (b : List String) (eof : Token) (r : CRule) (n : Nat)
    (acc : List FRule) (ts : List Token) (K : List KV) (h : tokKV ts = r.kv ++ K) :
    (∀ r', r.abs = some r' →
      ∃ ts', parseRules b (n + 1) acc eof ts = parseRules b n (dictSet acc (r'.den b)) eof ts' ∧ tokKV ts' = K) ∧
    (r.abs = none → okPart (parseRules b (n + 1) acc eof ts) = none) := by
  simp only [CRule.kv, CRule.headKV, List.append_assoc, List.cons_append, List.nil_append] at h
  -- the first token is not EOI
  have hfirst : ∃ t0 ts0, ts = t0 :: ts0 ∧ t0.kind ≠ .eoi := by
    cases hd : r.docs with
    | nil =>
      rw [hd] at h
      simp only [List.map_nil, List.flatten_nil, List.nil_append] at h
      obtain ⟨t1, ts1, rfl, hk1, -, -⟩ := tokKV_cons_inv h
      exact ⟨t1, ts1, rfl, by simp only at hk1; rw [hk1]; simp⟩
    | cons d ds =>
      rw [hd] at h
      simp only [List.map_cons, List.flatten_cons, docKV, List.cons_append, List.nil_append] at h
      obtain ⟨t1, ts1, rfl, hk1, -, -⟩ := tokKV_cons_inv h
      exact ⟨t1, ts1, rfl, by simp only at hk1; rw [hk1]; simp⟩
  obtain ⟨t0, ts0, rfl, hk0⟩ := hfirst
  obtain ⟨ts1, h1, hts1⟩ := PRT.docLines_all .ruleDoc sRDOC eof r.docs ((t0 :: ts0).length + 1) [] (t0 :: ts0) _
    (by
      have := congrArg List.length h
      have hle := PRT.docs_length_le .ruleDoc sRDOC r.docs
      simp only [tokKV_length, List.length_append] at this
      omega) h (by intro k v K' hK; simp at hK; rw [← hK.1.1]; simp) (by simp)
  obtain ⟨t2, ts2, rfl, hk2, hv2, h⟩ := tokKV_cons_inv hts1
  obtain ⟨t3, ts3, rfl, hk3, -, h⟩ := tokKV_cons_inv h
  simp only at hk2 hv2 hk3
  have hk2' : t2.kind ≠ .eoi := by rw [hk2]; simp
  -- the modifier
  have hmod : ∃ ts4, parseModifier eof ts3 = .ok ((r.mod.map fun c => modifierBits [c]).getD 0) ts4 ∧
      tokKV ts4 = (TK.lbrace, [123]) :: (barKV r.bar ++ (r.body.kv ++ ((TK.rbrace, [125]) :: K))) := by
    cases hm : r.mod with
    | none =>
      rw [hm] at h
      simp only [modKV, List.nil_append] at h
      obtain ⟨t4, ts4, rfl, hk4, -, h4⟩ := tokKV_cons_inv h
      exact ⟨t4 :: ts4, by rw [PRT.parseModifier_none (by simp only at hk4; rw [hk4]; simp)]; rfl, h⟩
    | some c =>
      rw [hm] at h
      simp only [modKV, List.cons_append, List.nil_append] at h
      obtain ⟨t4, ts4, rfl, hk4, hv4, h4⟩ := tokKV_cons_inv h
      exact ⟨ts4, by rw [PRT.parseModifier_some hk4 hv4]; rfl, h4⟩
  obtain ⟨ts4, h4, hts4⟩ := hmod
  obtain ⟨t5, ts5, rfl, hk5, -, h5⟩ := tokKV_cons_inv hts4
  simp only at hk5
  have hfuel : (barKV r.bar ++ r.body.kv).length < ts5.length + 1 := by
    have := congrArg List.length h5
    simp only [tokKV_length, List.length_append, List.length_cons] at this ⊢
    omega
  have h6o := (recOK b (ts5.length + 1)).full PRECEDENCE_LOWEST (Or.inl rfl) r.bar r.body
    hfuel eof ts5 ((TK.rbrace, [125]) :: K) (by simpa [List.append_assoc] using h5) ⟨_, _, _, rfl, Or.inl rfl⟩
  simp only [CRule.abs]
  cases hb : r.body.abs with
  | none =>
    rw [hb] at h6o
    refine ⟨by simp, fun _ => ?_⟩
    simp only [parseRules, bind_eq, current_cons, hk0, if_false, h1, hk2']
    rcases okPart_none h6o with ⟨k, t, hr⟩ | ⟨n, hr⟩ | hr <;> simp [eat, hk2, hk3, h4, hk5, hr]
  | some e =>
    rw [hb] at h6o
    obtain ⟨ts6, h6, hts6⟩ := okPart_some h6o
    obtain ⟨t7, ts7, rfl, hk7, -, h7⟩ := tokKV_cons_inv hts6
    simp only at hk7
    refine ⟨?_, by simp⟩
    intro r' hr'
    simp only [Option.some.injEq] at hr'
    subst hr'
    refine ⟨ts7, ?_, h7⟩
    simp only [parseRules, bind_eq, current_cons, hk0, if_false, h1, hk2']
    simp [eat, hk2, hk3, h4, hk5, h6, hk7, SRule.den, hv2]

theorem crule_kv_head (r : CRule) : ∃ k v rest, r.kv = (k, v) :: rest ∧ (k = .ruleDoc ∨ k = .identifier) := by
  cases hd : r.docs with
  | nil =>
    exact ⟨.identifier, r.name, (.assignOp, [61]) :: (modKV r.mod ++ [(.lbrace, [123])] ++ barKV r.bar ++
      r.body.kv ++ [(.rbrace, [125])]), by simp [CRule.kv, CRule.headKV, hd], Or.inr rfl⟩
  | cons d ds =>
    exact ⟨.ruleDoc, sRDOC, (.commentText, d) :: ((ds.map (docKV .ruleDoc sRDOC)).flatten ++
      [(.identifier, r.name), (.assignOp, [61])] ++ modKV r.mod ++ [(.lbrace, [123])] ++ barKV r.bar ++
      r.body.kv ++ [(.rbrace, [125])]), by simp [CRule.kv, CRule.headKV, hd, docKV], Or.inl rfl⟩

theorem crule_kv_length_pos (r : CRule) : 0 < r.kv.length := by
  obtain ⟨k, v, rest, h, -⟩ := crule_kv_head r
  simp [h]

/-- all the rules, then the trailing doc comments, then the end of the token list -/
theorem parseRules_all (b : List String) (eof : Token) (heof : eof.kind = .eoi) (trailing : List Text) :
    ∀ (rs : List CRule) (n : Nat) (acc : List FRule) (ts : List Token),
    rs.length < n →
    tokKV ts = (rs.map CRule.kv).flatten ++ (trailing.map (docKV .ruleDoc sRDOC)).flatten →
    okPart (parseRules b n acc eof ts) =
      (absRules rs).map fun rs' => (rs'.foldl (fun acc r => dictSet acc (r.den b)) acc, []) := by
  intro rs
  induction rs with
  | nil =>
    intro n acc ts hn h
    have := PRT.parseRules_all b eof heof trailing [] (by simp) n acc ts hn (by simpa using h)
    simp [this, absRules]
  | cons r rs ih =>
    intro n acc ts hn h
    cases n with
    | zero => simp at hn
    | succ n =>
      simp only [List.map_cons, List.flatten_cons, List.append_assoc] at h
      obtain ⟨hsome, hnone⟩ := parseRule_one b eof r n acc ts _ h
      simp only [absRules]
      cases hr : r.abs with
      | none => simpa using hnone hr
      | some r' =>
        obtain ⟨ts', h', hts'⟩ := hsome r' hr
        rw [h', ih n _ ts' (by simp at hn; omega) hts']
        cases absRules rs <;> simp

theorem crules_length_le (rs : List CRule) : rs.length ≤ ((rs.map CRule.kv).flatten).length := by
  induction rs with
  | nil => simp
  | cons r rs ih =>
    have := crule_kv_length_pos r
    simp only [List.map_cons, List.flatten_cons, List.length_append, List.length_cons]; omega

/-! ### the grammar -/

/-- **the grammar parser on the tokens of a concrete syntax tree**: on any token list whose kinds
    and values are those of a C-tree, `Parser(tokens, builtins).parse()` succeeds exactly when the
    abstraction of the C-tree is defined; it then returns the rule table and the grammar doc the
    abstraction denotes, and has consumed every token -/
theorem parseTokens_ctree (b : List String) (c : CGrammar) (eof : Token) (heof : eof.kind = .eoi)
    (ts : List Token) (hts : tokKV ts = c.kv) :
    okPart (parseTokens b eof ts) = (c.abs).map (fun g => (g.den b, [])) := by
  simp only [CGrammar.kv, List.append_assoc] at hts
  -- what follows the grammar docs does not start with a grammar-doc token
  have hK : ∀ k v K', (c.rules.map CRule.kv).flatten ++ (c.trailing.map (docKV .ruleDoc sRDOC)).flatten = (k, v) :: K' →
      k ≠ .grammarDoc := by
    intro k v K' hK
    cases hr : c.rules with
    | nil =>
      rw [hr] at hK
      cases ht : c.trailing with
      | nil => rw [ht] at hK; simp at hK
      | cons d ds =>
        rw [ht] at hK
        simp [docKV] at hK
        rw [← hK.1.1]; simp
    | cons r rs =>
      rw [hr] at hK
      obtain ⟨k', v', rest, hrk, hk'⟩ := crule_kv_head r
      simp [hrk] at hK
      rw [← hK.1.1]
      rcases hk' with rfl | rfl <;> simp
  obtain ⟨ts1, h1, hts1⟩ := PRT.docLines_all .grammarDoc sGDOC eof c.gdocs (ts.length + 1) [] ts _
    (by
      have := congrArg List.length hts
      have hle := PRT.docs_length_le .grammarDoc sGDOC c.gdocs
      simp only [tokKV_length, List.length_append] at this
      omega) hts hK (by intro _; rw [heof]; simp)
  have h2 := parseRules_all b eof heof c.trailing c.rules (ts1.length + 1) [] ts1
    (by
      have := congrArg List.length hts1
      have hle := crules_length_le c.rules
      simp only [tokKV_length, List.length_append] at this
      omega) hts1
  simp only [CGrammar.abs]
  cases hr : absRules c.rules with
  | none =>
    rw [hr] at h2
    rcases okPart_none h2 with ⟨k, t, hr'⟩ | ⟨n, hr'⟩ | hr' <;> simp [parseTokens, h1, hr']
  | some rs' =>
    rw [hr] at h2
    obtain ⟨ts2, h2, hts2⟩ := okPart_some h2
    simp [parseTokens, h1, h2, SGrammar.den, hts2]

theorem parse_ok_abs {b : List String} {c : CGrammar} {eof : Token} {ts : List Token} {r : Loaded}
    {rest : List Token} (hts : tokKV ts = c.kv) (heof : eof.kind = .eoi)
    (h : parseTokens b eof ts = .ok r rest) :
    ∃ g, c.abs = some g ∧ r = g.den b ∧ rest = [] := by
  have := parseTokens_ctree b c eof heof ts hts
  rw [h] at this
  cases hc : c.abs with
  | none => rw [hc] at this; simp at this
  | some g =>
    rw [hc] at this
    simp only [okPart_ok', Option.map_some, Option.some.injEq, Prod.mk.injEq] at this
    refine ⟨g, rfl, this.1, ?_⟩
    cases rest with
    | nil => rfl
    | cons t l => simp at this

theorem parse_of_abs {b : List String} {c : CGrammar} {eof : Token} {ts : List Token} {g : SGrammar}
    (hts : tokKV ts = c.kv) (heof : eof.kind = .eoi) (hc : c.abs = some g) :
    parseTokens b eof ts = .ok (g.den b) [] := by
  have := parseTokens_ctree b c eof heof ts hts
  rw [hc] at this
  obtain ⟨ts', h, hts'⟩ := okPart_some this
  cases ts' with
  | nil => exact h
  | cons t l => simp at hts'

/-! ### a concrete instance: `a = { "x"{007} ~ 'a'..'\x62' }` -/

/-- the C-tree of `a = { "x"{007} ~ 'a'..'\x62' }`: the number and the characters as spelled -/
def exC : CGrammar :=
  ⟨[], [⟨[], [97], none, false,
    .cons (.mk none [] (.str [120]) [.braces [some [48, 48, 55]]]) false
      (.one (.mk none [] (.range [39, 97, 39] [39, 92, 120, 54, 50, 39]) []))⟩], []⟩

/-- its abstraction: `{7}` and `'a'..'b'` -/
def exS : SGrammar :=
  ⟨[], [⟨[], [97], none, false,
    .cons (.mk none [] (.str [120]) [.exact 7]) false (.one (.mk none [] (.range 97 98) []))⟩], []⟩

example : exC.abs = some exS := by rfl

/-- the parser on these tokens, wherever they start -/
example (b : List String) (n s0 s1 s2 s3 s4 s5 s6 s7 s8 s9 s10 s11 : Nat) :
    parseTokens b ⟨.eoi, [], n⟩
      [⟨.identifier, [97], s0⟩, ⟨.assignOp, [61], s1⟩, ⟨.lbrace, [123], s2⟩, ⟨.string, [120], s3⟩,
        ⟨.lbrace, [123], s4⟩, ⟨.number, [48, 48, 55], s5⟩, ⟨.rbrace, [125], s6⟩, ⟨.sequenceOp, [126], s7⟩,
        ⟨.char, [39, 97, 39], s8⟩, ⟨.rangeOp, [46, 46], s9⟩, ⟨.char, [39, 92, 120, 54, 50, 39], s10⟩,
        ⟨.rbrace, [125], s11⟩] = .ok (exS.den b) [] :=
  parse_of_abs (c := exC) rfl rfl (by rfl)

/-- and what it denotes -/
example (b : List String) :
    exS.den b = ⟨[⟨nameOf [97], 0, .seq [.repExact (.str [120]) 7, .range 97 98], []⟩], []⟩ := by
  simp [exS, SGrammar.den, SRule.den, SExpr.den, SExpr.groups, STerm.den, SNode.den, consGroup, mkSeq, mkChoice,
    applyPost, dictSet]

/-- an instance where `abs` is undefined (`{1,2,3}`): the parser does not succeed -/
example (b : List String) (eof : Token) (heof : eof.kind = .eoi) (ts : List Token)
    (hts : tokKV ts = (CGrammar.mk [] [⟨[], [97], none, false,
      .one (.mk none [] (.str [120]) [.braces [some [49], none, some [50], none, some [51]]])⟩] []).kv) :
    okPart (parseTokens b eof ts) = none := by
  rw [parseTokens_ctree b _ eof heof ts hts]; rfl

end IP
end Front
end Pest
