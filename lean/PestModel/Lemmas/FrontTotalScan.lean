/-
  Lemmas/FrontTotalScan.lean — the scanner model (Front/Scan.lean) never runs out of fuel, never
  leaves through `exc`, reports its errors at positions inside the text, and emits only tokens
  whose values the grammar parser can digest (helper lemmas for Props/C11.lean).

  Method.  `Inv N s` is the state invariant (`start ≤ pos`, `pos + |rest| = N`, every emitted
  token satisfies `TokOK N`).  `SR.Sat N Q r` reads a result: `ok a s'` must satisfy `Q a s'`,
  an error must carry a start `≤ N`, `exc`/`oof` are excluded.  `Spec N m R` is the Hoare triple
  "from a state with `Inv`, `m` ends in `Sat` with `Inv` again and the remaining lengths related
  by `R`".  One lemma per regular expression (`m t = some n → n ≤ |t|`, positivity and the shape
  of the matched text where the parser depends on it), one `Spec` per scanner method, loops by
  induction on their bound under `|rest| < bound`, `accept_expression` by induction on its fuel
  under `|rest| < fuel` with an open-recursion hypothesis `RecOK`, `run` by the measure
  `3 * |rest| + rank fn`.  Nothing here depends on the text being a valid grammar.
-/
import PestModel.Front.Scan
import PestModel.Lemmas.Unescape

namespace Pest
namespace Front
open Unescape (escapeLen unescape isHexDigit)

/-! ### what the parser needs to know about token values -/

/-- `[0-9]+` -/
def IsDigits (v : Text) : Prop := v ≠ [] ∧ ∀ c ∈ v, isDigit c = true

/-- `-?[0-9]+` -/
def IsIntLit (v : Text) : Prop := IsDigits v ∨ ∃ ds, v = 45 :: ds ∧ IsDigits ds

/-- `'c'` with `c` not a backslash, or `'\e'` with `e` one complete match of `RE_ESCAPE` -/
def IsCharLit (v : Text) : Prop :=
  ∃ body, v = 39 :: (body ++ [39]) ∧
    ((∃ c, body = [c] ∧ c ≠ 92) ∨ ∃ e, body = 92 :: e ∧ escapeLen e = some e.length)

/-- the constraint on the value of a token of a given kind -/
def ValOK : TK → Text → Prop
  | .number, v => IsDigits v
  | .integer, v => IsIntLit v
  | .char, v => IsCharLit v
  | _, _ => True

/-- a token of a text of length `N` -/
structure TokOK (N : Nat) (t : Token) : Prop where
  start_le : t.start ≤ N
  val : ValOK t.kind t.value

/-- scanner state invariant, `N = len(self.grammar)` -/
structure Inv (N : Nat) (s : St) : Prop where
  start_le : s.start ≤ s.pos
  len : s.pos + s.rest.length = N
  toks : ∀ t ∈ s.toks, TokOK N t

/-- reading a result: normal results satisfy `Q`, errors point into the text, nothing else -/
def SR.Sat {α} (N : Nat) (Q : α → St → Prop) : SR α → Prop
  | .ok a s => Q a s
  | .err _ st _ => st ≤ N
  | .exc _ => False
  | .oof => False

theorem SR.Sat.mono {α} {N : Nat} {Q Q' : α → St → Prop} {r : SR α} (h : r.Sat N Q)
    (hq : ∀ a s, Q a s → Q' a s) : r.Sat N Q' := by
  cases r with
  | ok a s => exact hq a s h
  | err k st v => exact h
  | exc n => exact h
  | oof => exact h

theorem bind_def {α β} (m : M α) (f : α → M β) (s : St) :
    (m >>= f) s = match m s with
      | .ok a s' => f a s'
      | .err k st v => .err k st v
      | .exc n => .exc n
      | .oof => .oof := rfl

theorem pure_def {α} (a : α) (s : St) : (pure a : M α) s = .ok a s := rfl

theorem SR.Sat.bind {α β} {N : Nat} {m : M α} {f : α → M β} {s : St} {Q : β → St → Prop}
    (h : (m s).Sat N (fun a s' => (f a s').Sat N Q)) : ((m >>= f) s).Sat N Q := by
  rw [bind_def]
  cases hm : m s with
  | ok a s' => rw [hm] at h; exact h
  | err k st v => rw [hm] at h; exact h
  | exc n => rw [hm] at h; exact h
  | oof => rw [hm] at h; exact h

theorem SR.Sat.pure {α} {N : Nat} {a : α} {s : St} {Q : α → St → Prop} (h : Q a s) :
    ((pure a : M α) s).Sat N Q := h

/-- the Hoare triple: `Inv` is kept and the remaining lengths (after, before) satisfy `R` -/
def Spec {α} (N : Nat) (m : M α) (R : α → Nat → Nat → Prop) : Prop :=
  ∀ s, Inv N s → (m s).Sat N (fun a s' => Inv N s' ∧ R a s'.rest.length s.rest.length)

/-- nothing is given back -/
abbrev RLe {α} : α → Nat → Nat → Prop := fun _ l' l => l' ≤ l
/-- at least `k` characters are consumed -/
abbrev RGe {α} (k : Nat) : α → Nat → Nat → Prop := fun _ l' l => l' + k ≤ l
/-- at least `k` characters are consumed when the answer is `True` -/
abbrev RB (k : Nat) : Bool → Nat → Nat → Prop := fun b l' l => l' ≤ l ∧ (b = true → l' + k ≤ l)

theorem Spec.bind {α β} {N : Nat} {m : M α} {R : α → Nat → Nat → Prop} (hm : Spec N m R)
    {s : St} (hs : Inv N s) {f : α → M β} {Q : β → St → Prop}
    (h : ∀ a s', Inv N s' → R a s'.rest.length s.rest.length → (f a s').Sat N Q) :
    ((m >>= f) s).Sat N Q :=
  SR.Sat.bind ((hm s hs).mono (fun a s' h' => h a s' h'.1 h'.2))

theorem Spec.mono {α} {N : Nat} {m : M α} {R R' : α → Nat → Nat → Prop} (hm : Spec N m R)
    (h : ∀ a l' l, R a l' l → R' a l' l) : Spec N m R' :=
  fun s hs => (hm s hs).mono (fun a _ h' => ⟨h'.1, h a _ _ h'.2⟩)

/-! ### the regular expressions -/

theorem spanLen_le (p : Nat → Bool) : ∀ t, spanLen p t ≤ t.length
  | [] => Nat.le_refl _
  | c :: r => by
    have := spanLen_le p r
    simp only [spanLen, List.length_cons]
    split <;> omega

theorem spanLen_take (p : Nat → Bool) : ∀ (t : Text), ∀ c ∈ t.take (spanLen p t), p c = true
  | [] => by intro c hc; simp [spanLen] at hc
  | d :: r => by
    intro c hc
    simp only [spanLen] at hc
    by_cases hd : p d = true
    · simp only [hd, if_true, List.take_succ_cons, List.mem_cons] at hc
      rcases hc with rfl | hc
      · exact hd
      · exact spanLen_take p r c hc
    · simp [hd] at hc

theorem startsWith_length : ∀ (t lit : Text), startsWith t lit = true → lit.length ≤ t.length
  | _, [], _ => by simp
  | [], _ :: _, h => by simp [startsWith] at h
  | c :: r, d :: l, h => by
    simp only [startsWith, Bool.and_eq_true] at h
    have := startsWith_length r l h.2
    simp only [List.length_cons]; omega

theorem mLit_some {lit t : Text} {n : Nat} (h : mLit lit t = some n) :
    n = lit.length ∧ n ≤ t.length := by
  unfold mLit at h
  split at h
  · rename_i hs
    cases h
    exact ⟨rfl, startsWith_length t lit hs⟩
  · cases h

theorem mIdentifier_some {t : Text} {n : Nat} (h : mIdentifier t = some n) :
    1 ≤ n ∧ n ≤ t.length := by
  unfold mIdentifier at h
  split at h
  · cases h
  · split at h
    · rename_i c r _
      split at h
      · cases h
        have := spanLen_le isIdentChar r
        simp only [List.length_cons]; omega
      · cases h
    · cases h

theorem mTag_some {t : Text} {n : Nat} (h : mTag t = some n) : 1 ≤ n ∧ n ≤ t.length := by
  unfold mTag at h
  split at h
  · rename_i c r
    split at h
    · cases h
      have := spanLen_le isIdentChar r
      simp only [List.length_cons]; omega
    · cases h
  · cases h

theorem mNumber_some {t : Text} {n : Nat} (h : mNumber t = some n) :
    1 ≤ n ∧ n ≤ t.length ∧ IsDigits (t.take n) := by
  unfold mNumber at h
  simp only at h
  split at h
  · cases h
  · rename_i hz
    cases h
    have hle := spanLen_le isDigit t
    refine ⟨by omega, hle, ?_, spanLen_take isDigit t⟩
    intro he
    have : (t.take (spanLen isDigit t)).length = 0 := by rw [he]; rfl
    rw [List.length_take] at this
    omega

theorem isDigit_of_48 {c : Nat} (h : (c == 48) = true) : isDigit c = true := by
  have : c = 48 := by simpa using h
  subst this; decide

theorem mInteger_some {t : Text} {n : Nat} (h : mInteger t = some n) :
    1 ≤ n ∧ n ≤ t.length ∧ IsIntLit (t.take n) := by
  unfold mInteger at h
  split at h
  · rename_i k hk
    cases h
    obtain ⟨h1, h2, h3⟩ := mNumber_some hk
    exact ⟨h1, h2, .inl h3⟩
  · split at h
    · rename_i r _
      simp only at h
      split at h
      · rename_i d r' hdrop
        split at h
        · rename_i hd
          cases h
          have hz := spanLen_le (· == 48) r
          have hk := spanLen_le isDigit r'
          have hsplit : r = r.take (spanLen (· == 48) r) ++ d :: r' := by
            rw [← hdrop, List.take_append_drop]
          have hlen : r.length = spanLen (· == 48) r + (r'.length + 1) := by
            have := congrArg List.length hsplit
            simp only [List.length_append, List.length_take, List.length_cons] at this
            omega
          refine ⟨by omega, by simp only [List.length_cons]; omega, .inr ⟨r.take (spanLen (· == 48) r + 1 + spanLen isDigit r'), ?_, ?_, ?_⟩⟩
          · have : 1 + spanLen (· == 48) r + 1 + spanLen isDigit r' =
                (spanLen (· == 48) r + 1 + spanLen isDigit r') + 1 := by omega
            rw [this, List.take_succ_cons]
          · intro he
            have : (r.take (spanLen (· == 48) r + 1 + spanLen isDigit r')).length = 0 := by
              rw [he]; rfl
            rw [List.length_take] at this
            omega
          · intro c hc
            have e1 : spanLen (· == 48) r + 1 + spanLen isDigit r' =
                spanLen (· == 48) r + (spanLen isDigit r' + 1) := by omega
            rw [e1, List.take_add, hdrop, List.take_succ_cons] at hc
            rcases List.mem_append.mp hc with hc | hc
            · exact isDigit_of_48 (spanLen_take (· == 48) r c hc)
            · rcases List.mem_cons.mp hc with rfl | hc
              · simp only [Bool.and_eq_true, decide_eq_true_eq] at hd
                simp only [isDigit, Bool.and_eq_true, decide_eq_true_eq]; omega
              · exact spanLen_take isDigit r' c hc
        · cases h
      · cases h
    · cases h

theorem mModifier_some {t : Text} {n : Nat} (h : mModifier t = some n) : 1 ≤ n ∧ n ≤ t.length := by
  unfold mModifier at h
  split at h
  · split at h
    · cases h; simp
    · cases h
  · cases h

theorem wsLen_le (t : Text) : wsLen t ≤ t.length := by
  fun_induction wsLen t with
  | case1 => simp
  | case2 r ih => simp only [List.length_cons]; omega
  | case3 c r _ hc ih => simp only [List.length_cons]; omega
  | case4 c r _ hc => simp

theorem mWhitespace_some {t : Text} {n : Nat} (h : mWhitespace t = some n) :
    1 ≤ n ∧ n ≤ t.length := by
  unfold mWhitespace at h
  simp only at h
  split at h
  · cases h
  · cases h
    have := wsLen_le t
    omega

theorem mLineComment_some {t : Text} {n : Nat} (h : mLineComment t = some n) :
    1 ≤ n ∧ n ≤ t.length := by
  unfold mLineComment at h
  split at h
  · rename_i r
    split at h
    · rename_i c r'
      split at h
      · cases h
      · cases h
        have := spanLen_le (· != 10) (c :: r')
        simp only [List.length_cons] at this ⊢
        omega
    · cases h; simp
  · cases h

theorem blockBody_le (d : Nat) (t : Text) : ∀ n, blockBody d t = some n → n ≤ t.length := by
  fun_induction blockBody d t with
  | case1 => intro n h; cases h
  | case2 r => intro n h; cases h; simp
  | case3 r d ih =>
    intro n h
    cases hb : blockBody d r with
    | none => rw [hb] at h; cases h
    | some k =>
      rw [hb] at h; cases h
      have := ih k hb
      simp only [List.length_cons]; omega
  | case4 depth r ih =>
    intro n h
    cases hb : blockBody (depth + 1) r with
    | none => rw [hb] at h; cases h
    | some k =>
      rw [hb] at h; cases h
      have := ih k hb
      simp only [List.length_cons]; omega
  | case5 depth c r _ _ ih =>
    intro n h
    cases hb : blockBody depth r with
    | none => rw [hb] at h; cases h
    | some k =>
      rw [hb] at h; cases h
      have := ih k hb
      simp only [List.length_cons]; omega

theorem mBlockComment_some {t : Text} {n : Nat} (h : mBlockComment t = some n) :
    1 ≤ n ∧ n ≤ t.length := by
  unfold mBlockComment at h
  split at h
  · rename_i r
    cases hb : blockBody 0 r with
    | none => rw [hb] at h; cases h
    | some k =>
      rw [hb] at h; cases h
      have := blockBody_le 0 r k hb
      simp only [List.length_cons]; omega
  · cases h

theorem escapeLen_cons (c : Nat) (r : Text) :
    escapeLen (c :: r) =
      if c = 92 ∨ c = 34 ∨ c = 114 ∨ c = 110 ∨ c = 116 ∨ c = 48 ∨ c = 39 then some 1
      else if c = 120 then
        match r with
        | d1 :: d0 :: _ => if isHexDigit d1 && isHexDigit d0 then some 3 else none
        | _ => none
      else if c = 117 then
        match r with
        | [] => none
        | b :: r' =>
          if b = 123 then
            let k := (r'.takeWhile isHexDigit).length
            if 2 ≤ k ∧ k ≤ 6 ∧ r'[k]? = some 125 then some (k + 3) else none
          else none
      else none := rfl

/-- a match of `RE_ESCAPE` is not empty, lies inside the text, and is a match of the matched
    text alone -/
theorem escapeLen_some {t : Text} {n : Nat} (h : escapeLen t = some n) :
    1 ≤ n ∧ n ≤ t.length ∧ escapeLen (t.take n) = some n := by
  cases t with
  | nil => cases h
  | cons c r =>
    rw [escapeLen_cons] at h
    by_cases hc : c = 92 ∨ c = 34 ∨ c = 114 ∨ c = 110 ∨ c = 116 ∨ c = 48 ∨ c = 39
    · rw [if_pos hc] at h
      cases h
      refine ⟨by omega, by simp, ?_⟩
      simp only [List.take_succ_cons, List.take_zero]
      simp only [escapeLen, if_pos hc]
    · rw [if_neg hc] at h
      by_cases hx : c = 120
      · rw [if_pos hx] at h
        subst hx
        match r, h with
        | [], h => cases h
        | [_], h => cases h
        | d1 :: d0 :: r2, h =>
          simp only at h
          by_cases hd : (isHexDigit d1 && isHexDigit d0) = true
          · rw [if_pos hd] at h
            cases h
            refine ⟨by omega, by simp, ?_⟩
            simp only [List.take_succ_cons, List.take_zero]
            simp only [escapeLen, if_neg hc, if_true, hd]
          · rw [if_neg hd] at h; cases h
      · rw [if_neg hx] at h
        by_cases hu : c = 117
        · rw [if_pos hu] at h
          subst hu
          cases r with
          | nil => cases h
          | cons b r' =>
            simp only at h
            by_cases hb : b = 123
            · rw [if_pos hb] at h
              subst hb
              by_cases hk : 2 ≤ (r'.takeWhile isHexDigit).length ∧
                  (r'.takeWhile isHexDigit).length ≤ 6 ∧
                  r'[(r'.takeWhile isHexDigit).length]? = some 125
              · rw [if_pos hk] at h
                cases h
                obtain ⟨h2, h6, hget⟩ := hk
                obtain ⟨rest, hrest⟩ := Unescape.takeWhile_split isHexDigit r' 125 hget
                have hall := Unescape.takeWhile_all isHexDigit r'
                generalize r'.takeWhile isHexDigit = tw at *
                subst hrest
                have htake : (117 :: 123 :: (tw ++ 125 :: rest)).take (tw.length + 3) =
                    117 :: 123 :: (tw ++ [125]) := by
                  have : tw.length + 3 = (tw.length + 1) + 1 + 1 := by omega
                  rw [this, List.take_succ_cons, List.take_succ_cons, List.take_append,
                    List.take_of_length_le (by omega)]
                  have : tw.length + 1 - tw.length = 1 := by omega
                  rw [this]; rfl
                refine ⟨by omega, by simp only [List.length_cons, List.length_append]; omega, ?_⟩
                rw [htake]
                have htw : (tw ++ [125]).takeWhile isHexDigit = tw :=
                  Unescape.takeWhile_stop isHexDigit tw 125 [] hall (by decide)
                have hget' : (tw ++ [125])[tw.length]? = some 125 := by
                  rw [List.getElem?_append_right (Nat.le_refl _), Nat.sub_self]; rfl
                simp only [escapeLen, if_neg hc, if_neg hx, if_true, htw, hget', h2, h6, and_self]
              · rw [if_neg hk] at h; cases h
            · rw [if_neg hb] at h; cases h
        · rw [if_neg hu] at h; cases h

theorem mChar_some {t : Text} {n : Nat} (h : mChar t = some n) :
    1 ≤ n ∧ n ≤ t.length ∧ IsCharLit (t.take n) := by
  unfold mChar at h
  split at h
  · rename_i r
    split at h
    · rename_i k hk
      split at h
      · rename_i hq
        cases h
        obtain ⟨hk1, hk2, hk3⟩ := escapeLen_some hk
        obtain ⟨tl, htl⟩ : ∃ tl, r.drop k = 39 :: tl := by
          cases hd : r.drop k with
          | nil => rw [hd] at hq; cases hq
          | cons x tl =>
            rw [hd] at hq
            simp only [List.head?_cons, Option.some.injEq] at hq
            exact ⟨tl, by rw [hq]⟩
        have hlen : k + 1 ≤ r.length := by
          have := congrArg List.length htl
          simp only [List.length_drop, List.length_cons] at this
          omega
        refine ⟨by omega, by simp only [List.length_cons]; omega, 92 :: r.take k, ?_, .inr ⟨r.take k, rfl, ?_⟩⟩
        · have : k + 3 = (k + 1) + 1 + 1 := by omega
          rw [this, List.take_succ_cons, List.take_succ_cons, List.take_add, htl]
          rfl
        · rw [List.length_take, Nat.min_eq_left (by omega)]
          exact hk3
      · cases h
    · cases h
  · rename_i c r hne
    cases h
    refine ⟨by omega, by simp, [c], by simp, .inl ⟨c, rfl, ?_⟩⟩
    intro hc
    subst hc
    exact hne rfl
  · cases h

theorem findNewline_le (t : Text) : ∀ n, findNewline t = some n → n ≤ t.length := by
  fun_induction findNewline t with
  | case1 => intro n h; cases h
  | case2 r => intro n h; cases h; simp
  | case3 r => intro n h; cases h; simp
  | case4 c r _ _ ih =>
    intro n h
    cases hb : findNewline r with
    | none => rw [hb] at h; cases h
    | some k =>
      rw [hb] at h; cases h
      have := ih k hb
      simp only [List.length_cons]; omega

/-! ### state primitives -/

@[simp] theorem adv_rest_length (s : St) (n : Nat) : (s.adv n).rest.length = s.rest.length - n := by
  simp [St.adv]
@[simp] theorem adv_pos (s : St) (n : Nat) : (s.adv n).pos = s.pos + n := rfl
@[simp] theorem adv_start (s : St) (n : Nat) : (s.adv n).start = s.start := rfl
@[simp] theorem adv_toks (s : St) (n : Nat) : (s.adv n).toks = s.toks := rfl
@[simp] theorem emit_rest (s : St) (k : TK) (v : Text) : (s.emit k v).rest = s.rest := rfl
@[simp] theorem emit_pos (s : St) (k : TK) (v : Text) : (s.emit k v).pos = s.pos := rfl
@[simp] theorem emit_start (s : St) (k : TK) (v : Text) : (s.emit k v).start = s.pos := rfl

theorem Inv.adv {N : Nat} {s : St} (hs : Inv N s) {n : Nat} (hn : n ≤ s.rest.length) :
    Inv N (s.adv n) := by
  refine ⟨?_, ?_, hs.toks⟩
  · have := hs.start_le; simp only [adv_start, adv_pos]; omega
  · have := hs.len; simp only [adv_pos, adv_rest_length]; omega

theorem Inv.emit {N : Nat} {s : St} (hs : Inv N s) {k : TK} {v : Text} (hv : ValOK k v) :
    Inv N (s.emit k v) := by
  refine ⟨Nat.le_refl _, hs.len, ?_⟩
  intro t ht
  simp only [St.emit, List.mem_cons] at ht
  rcases ht with rfl | ht
  · exact ⟨by have := hs.start_le; have := hs.len; simp only; omega, hv⟩
  · exact hs.toks t ht

theorem Inv.setStart {N : Nat} {s : St} (hs : Inv N s) : Inv N { s with start := s.pos } :=
  ⟨Nat.le_refl _, hs.len, hs.toks⟩

theorem peek_some {s : St} {c : Nat} (h : s.peek = some c) : 1 ≤ s.rest.length := by
  unfold St.peek at h
  cases hr : s.rest with
  | nil => rw [hr] at h; cases h
  | cons x r => simp

theorem error_sat {α} {N : Nat} {s : St} (hs : Inv N s) (k : EK) (Q : α → St → Prop) :
    ((error k : M α) s).Sat N Q := by
  have := hs.start_le; have := hs.len
  show s.start ≤ N
  omega

/-! ### `skip_trivia` -/

/-- what a pattern handed to `skip` must satisfy -/
def MatchOK (m : Text → Option Nat) : Prop := ∀ t n, m t = some n → 1 ≤ n ∧ n ≤ t.length

theorem skip_false {m : Text → Option Nat} {s : St} (h : (skip m s).1 = false) : (skip m s).2 = s := by
  unfold skip at h ⊢
  cases hm : m s.rest with
  | none => rfl
  | some n => rw [hm] at h; cases h

theorem skip_len {m : Text → Option Nat} (hm : MatchOK m) (s : St) :
    (skip m s).2.rest.length ≤ s.rest.length ∧
      ((skip m s).1 = true → (skip m s).2.rest.length < s.rest.length) := by
  unfold skip
  cases h : m s.rest with
  | none => simp
  | some n =>
    have := hm _ _ h
    simp only [adv_rest_length]
    exact ⟨by omega, fun _ => by omega⟩

theorem skip_inv {m : Text → Option Nat} (hm : MatchOK m) {N : Nat} {s : St} (hs : Inv N s) :
    Inv N (skip m s).2 := by
  unfold skip
  cases h : m s.rest with
  | none => exact hs
  | some n => exact (hs.adv (hm _ _ h).2).setStart

theorem matchOK_ws : MatchOK mWhitespace := fun _ _ h => mWhitespace_some h
theorem matchOK_lc : MatchOK mLineComment := fun _ _ h => mLineComment_some h
theorem matchOK_bc : MatchOK mBlockComment := fun _ _ h => mBlockComment_some h

theorem triviaRound_fst (s : St) :
    (triviaRound s).1 =
      ((skip mWhitespace s).1 || (skip mLineComment (skip mWhitespace s).2).1 ||
          (skip mBlockComment (skip mLineComment (skip mWhitespace s).2).2).1) := rfl

theorem triviaRound_snd (s : St) :
    (triviaRound s).2 = (skip mBlockComment (skip mLineComment (skip mWhitespace s).2).2).2 := rfl

theorem triviaRound_len (s : St) :
    (triviaRound s).2.rest.length ≤ s.rest.length ∧
      ((triviaRound s).1 = true → (triviaRound s).2.rest.length < s.rest.length) := by
  rw [triviaRound_fst, triviaRound_snd]
  have h1 := skip_len matchOK_ws s
  have h2 := skip_len matchOK_lc (skip mWhitespace s).2
  have h3 := skip_len matchOK_bc (skip mLineComment (skip mWhitespace s).2).2
  refine ⟨by omega, fun h => ?_⟩
  simp only [Bool.or_eq_true] at h
  rcases h with (h | h) | h
  · have := h1.2 h; omega
  · have := h2.2 h; omega
  · have := h3.2 h; omega

theorem triviaRound_inv {N : Nat} {s : St} (hs : Inv N s) : Inv N (triviaRound s).2 := by
  rw [triviaRound_snd]
  exact skip_inv matchOK_bc (skip_inv matchOK_lc (skip_inv matchOK_ws hs))

theorem triviaRound_false {s : St} (h : (triviaRound s).1 = false) : (triviaRound s).2 = s := by
  rw [triviaRound_fst] at h
  simp only [Bool.or_eq_false_iff] at h
  obtain ⟨⟨h1, h2⟩, h3⟩ := h
  have e1 := skip_false h1
  rw [e1] at h2 h3
  have e2 := skip_false h2
  rw [e2] at h3
  have e3 := skip_false h3
  rw [triviaRound_snd, e1, e2, e3]

theorem skipTriviaN_succ (n : Nat) (s : St) :
    skipTriviaN (n + 1) s =
      if (triviaRound s).1 = true then skipTriviaN n (triviaRound s).2 else (triviaRound s).2 := rfl

theorem skipTriviaN_spec : ∀ (n : Nat) (s : St), s.rest.length < n →
    (skipTriviaN n s).rest.length ≤ s.rest.length ∧ (triviaRound (skipTriviaN n s)).1 = false ∧
      ∀ N, Inv N s → Inv N (skipTriviaN n s)
  | 0, s, h => by omega
  | n + 1, s, h => by
    have hl := triviaRound_len s
    rw [skipTriviaN_succ]
    cases ha : (triviaRound s).1 with
    | true =>
      have hlt := hl.2 ha
      obtain ⟨i1, i2, i3⟩ := skipTriviaN_spec n (triviaRound s).2 (by omega)
      rw [if_pos rfl]
      exact ⟨by omega, i2, fun N hs => i3 N (triviaRound_inv hs)⟩
    | false =>
      rw [if_neg (by decide)]
      refine ⟨hl.1, ?_, fun N hs => triviaRound_inv hs⟩
      rw [triviaRound_false ha]; exact ha

/-- the bound of `skip_trivia` suffices: it stops because no pattern matches any more -/
theorem skipTrivia_done (s : St) : (triviaRound (skipTrivia s)).1 = false :=
  (skipTriviaN_spec _ s (Nat.lt_succ_self _)).2.1

theorem skipTrivia_len (s : St) : (skipTrivia s).rest.length ≤ s.rest.length :=
  (skipTriviaN_spec _ s (Nat.lt_succ_self _)).1

theorem skipTrivia_inv {N : Nat} {s : St} (hs : Inv N s) : Inv N (skipTrivia s) :=
  (skipTriviaN_spec _ s (Nat.lt_succ_self _)).2.2 N hs

/-! ### the small scanner methods -/

theorem triv_spec (N : Nat) : Spec N triv RLe :=
  fun s hs => ⟨skipTrivia_inv hs, skipTrivia_len s⟩

/-- what a pattern handed to `scan` must satisfy to emit tokens of kind `kind`, consuming at
    least `k` characters -/
def ScanOK (m : Text → Option Nat) (kind : TK) (k : Nat) : Prop :=
  ∀ t n, m t = some n → k ≤ n ∧ n ≤ t.length ∧ ValOK kind (t.take n)

theorem scanEmit_spec {m : Text → Option Nat} {kind : TK} {k : Nat} (hm : ScanOK m kind k)
    (N : Nat) : Spec N (scanEmit m kind) (RB k) := by
  intro s hs
  unfold scanEmit
  cases h : m s.rest with
  | none => exact ⟨hs, Nat.le_refl _, fun h => by cases h⟩
  | some n =>
    obtain ⟨h1, h2, h3⟩ := hm _ _ h
    refine ⟨(hs.adv h2).emit h3, ?_, fun _ => ?_⟩
    · simp only [emit_rest, adv_rest_length]; omega
    · simp only [emit_rest, adv_rest_length]; omega

theorem expect_spec (N : Nat) (c : Nat) (kind : TK) (k : EK) (hv : ValOK kind [c]) :
    Spec N (expect c kind k) (RGe 1) := by
  intro s hs
  unfold expect
  by_cases hp : s.peek = some c
  · rw [if_pos hp]
    have := peek_some hp
    refine ⟨(hs.adv this).emit hv, ?_⟩
    simp only [emit_rest, adv_rest_length]; omega
  · rw [if_neg hp]; exact error_sat hs k _

theorem optChar_spec (N : Nat) (c : Nat) (kind : TK) (hv : ValOK kind [c]) :
    Spec N (optChar c kind) (RB 1) := by
  intro s hs
  unfold optChar
  by_cases hp : s.peek = some c
  · rw [if_pos hp]
    have := peek_some hp
    refine ⟨(hs.adv this).emit hv, ?_, fun _ => ?_⟩
    · simp only [emit_rest, adv_rest_length]; omega
    · simp only [emit_rest, adv_rest_length]; omega
  · rw [if_neg hp]; exact ⟨hs, Nat.le_refl _, fun h => by cases h⟩

theorem pure_spec {α} (N : Nat) (a : α) : Spec N (pure a : M α) RLe :=
  fun _ hs => ⟨hs, Nat.le_refl _⟩

theorem SR.Sat.bind' {α β} {N : Nat} {m : M α} {f : α → M β} {s : St} {P : α → St → Prop}
    {Q : β → St → Prop} (hm : (m s).Sat N P) (h : ∀ a s', P a s' → (f a s').Sat N Q) :
    ((m >>= f) s).Sat N Q :=
  SR.Sat.bind (hm.mono h)

/-- last step of a block: the lengths chain up -/
theorem Spec.final {α} {N : Nat} {m : M α} (hm : Spec N m RLe) {s1 : St} (hs1 : Inv N s1)
    {L : Nat} (hl : s1.rest.length ≤ L) :
    (m s1).Sat N (fun _ s' => Inv N s' ∧ s'.rest.length ≤ L) :=
  (hm s1 hs1).mono (fun _ _ h' => ⟨h'.1, Nat.le_trans h'.2 hl⟩)

theorem Spec.toLe {α} {N : Nat} {m : M α} {k : Nat} (hm : Spec N m (RGe k)) : Spec N m RLe :=
  hm.mono (fun _ l' l (h : l' + k ≤ l) => (by omega : l' ≤ l))

theorem Spec.toLeB {N : Nat} {m : M Bool} {k : Nat} (hm : Spec N m (RB k)) : Spec N m RLe :=
  hm.mono (fun _ _ _ h => h.1)

macro "ite_clean" : tactic =>
  `(tactic| simp only [Bool.false_eq_true, if_true, if_false, ↓reduceIte])

theorem scanOK_lit (lit : Text) (kind : TK) (hv : ∀ v, ValOK kind v) {k : Nat}
    (hk : k ≤ lit.length) : ScanOK (mLit lit) kind k := by
  intro t n h
  obtain ⟨h1, h2⟩ := mLit_some h
  exact ⟨by omega, h2, hv _⟩

theorem scanOK_identifier : ScanOK mIdentifier .identifier 1 :=
  fun _ _ h => ⟨(mIdentifier_some h).1, (mIdentifier_some h).2, trivial⟩
theorem scanOK_tag : ScanOK mTag .tag 1 :=
  fun _ _ h => ⟨(mTag_some h).1, (mTag_some h).2, trivial⟩
theorem scanOK_modifier : ScanOK mModifier .modifier 1 :=
  fun _ _ h => ⟨(mModifier_some h).1, (mModifier_some h).2, trivial⟩
theorem scanOK_integer : ScanOK mInteger .integer 1 :=
  fun _ _ h => ⟨(mInteger_some h).1, (mInteger_some h).2.1, (mInteger_some h).2.2⟩
theorem scanOK_char : ScanOK mChar .char 1 :=
  fun _ _ h => ⟨(mChar_some h).1, (mChar_some h).2.1, (mChar_some h).2.2⟩

/-! ### strings -/

theorem unescape_no_exc (v : Text) (n : String) : unescape v ≠ .exc n := by
  intro h
  cases hs : Unescape.specUnescape v with
  | some a => rw [Unescape.unescape_of_spec hs] at h; cases h
  | none =>
    obtain ⟨e, he⟩ := Unescape.unescape_of_spec_none hs
    rw [he] at h; cases h

theorem stringLoop_sat (kind : TK) (hk : ∀ v, ValOK kind v) (N : Nat) :
    ∀ (n : Nat) (body : Text) (esc : Bool) (s : St), Inv N s → s.rest.length < n →
      (stringLoop kind n body esc s).Sat N (fun _ s' => Inv N s' ∧ s'.rest.length ≤ s.rest.length)
  | 0, _, _, _, _, h => by omega
  | n + 1, body, esc, s, hs, h => by
    rw [stringLoop]
    dsimp only
    split
    · have := hs.start_le; have := hs.len
      show s.start ≤ N
      omega
    · rename_i r heq
      have hl : s.rest.length = r.length + 1 := by rw [heq]; rfl
      have hs1 : Inv N (s.adv 1) := hs.adv (by omega)
      split
      · rename_i k hk'
        obtain ⟨k1, k2, _⟩ := escapeLen_some hk'
        have hs2 : Inv N ((s.adv 1).adv k) := hs1.adv (by simp only [adv_rest_length]; omega)
        refine (stringLoop_sat kind hk N n _ true _ hs2 (by simp only [adv_rest_length]; omega)).mono
          (fun _ s' h' => ⟨h'.1, ?_⟩)
        have := h'.2
        simp only [adv_rest_length] at this
        omega
      · exact error_sat hs1 _ _
    · rename_i r heq
      have hl : s.rest.length = r.length + 1 := by rw [heq]; rfl
      have hs1 : Inv N (s.adv 1) := hs.adv (by omega)
      split
      · cases hu : unescape body.reverse with
        | ok v =>
          refine ⟨hs1.emit (hk _), ?_⟩
          simp only [emit_rest, adv_rest_length]; omega
        | error e =>
          have := hs.start_le; have := hs.len
          show s.start ≤ N
          omega
        | exc nm => exact absurd hu (unescape_no_exc _ _)
      · refine ⟨hs1.emit (hk _), ?_⟩
        simp only [emit_rest, adv_rest_length]; omega
    · rename_i c r _ _ heq
      have hl : s.rest.length = r.length + 1 := by rw [heq]; rfl
      have hs1 : Inv N (s.adv 1) := hs.adv (by omega)
      refine (stringLoop_sat kind hk N n _ esc _ hs1 (by simp only [adv_rest_length]; omega)).mono
        (fun _ s' h' => ⟨h'.1, ?_⟩)
      have := h'.2
      simp only [adv_rest_length] at this
      omega

theorem acceptString_spec (N : Nat) : Spec N acceptString RLe := by
  intro s hs
  unfold acceptString
  by_cases hp : s.peek = some 34
  · rw [if_pos hp]
    have := peek_some hp
    have hs1 : Inv N { s.adv 1 with start := (s.adv 1).pos } := (hs.adv this).setStart
    refine (stringLoop_sat .string (fun _ => trivial) N _ [] false _ hs1 (Nat.lt_succ_self _)).mono
      (fun _ s' h' => ⟨h'.1, ?_⟩)
    have h2 := h'.2
    simp only [adv_rest_length] at h2
    show s'.rest.length ≤ s.rest.length
    omega
  · rw [if_neg hp]; exact ⟨hs, Nat.le_refl _⟩

theorem acceptCIString_spec (N : Nat) : Spec N acceptCIString RLe := by
  intro s hs
  unfold acceptCIString
  by_cases hp : s.peek = some 94
  · rw [if_pos hp]
    have := peek_some hp
    have hs1 : Inv N { s.adv 1 with start := (s.adv 1).pos } := (hs.adv this).setStart
    have hs2 := skipTrivia_inv hs1
    have hl2 := skipTrivia_len { s.adv 1 with start := (s.adv 1).pos }
    simp only [adv_rest_length] at hl2
    simp only
    generalize skipTrivia { s.adv 1 with start := (s.adv 1).pos } = s2 at hs2 hl2 ⊢
    by_cases hq : s2.peek = some 34
    · rw [if_pos hq]
      have := peek_some hq
      have hs3 : Inv N { s2.adv 1 with start := (s2.adv 1).pos } := (hs2.adv this).setStart
      refine (stringLoop_sat .stringCI (fun _ => trivial) N _ [] false _ hs3
        (Nat.lt_succ_self _)).mono (fun _ s' h' => ⟨h'.1, ?_⟩)
      have h2 := h'.2
      simp only [adv_rest_length] at h2
      show s'.rest.length ≤ s.rest.length
      omega
    · rw [if_neg hq]; exact error_sat hs2 _ _
  · rw [if_neg hp]; exact ⟨hs, Nat.le_refl _⟩

/-! ### postfix operators -/

theorem boundsLoop_sat (N : Nat) : ∀ (n : Nat) (s : St), Inv N s → s.rest.length < n →
    (boundsLoop n s).Sat N (fun _ s' => Inv N s' ∧ s'.rest.length ≤ s.rest.length)
  | 0, _, _, h => by omega
  | n + 1, s0, hs0, h => by
    rw [boundsLoop]
    have hs := skipTrivia_inv hs0
    have hl := skipTrivia_len s0
    simp only
    generalize skipTrivia s0 = s at hs hl ⊢
    by_cases hp : s.peek = some 44
    · rw [if_pos hp]
      have := peek_some hp
      have hs1 : Inv N ((s.adv 1).emit .comma [44]) := (hs.adv this).emit trivial
      refine (boundsLoop_sat N n _ hs1 (by simp only [emit_rest, adv_rest_length]; omega)).mono
        (fun _ s' h' => ⟨h'.1, ?_⟩)
      have h2 := h'.2
      simp only [emit_rest, adv_rest_length] at h2
      omega
    · rw [if_neg hp]
      cases hm : mNumber s.rest with
      | none => exact ⟨hs, hl⟩
      | some k =>
        obtain ⟨k1, k2, k3⟩ := mNumber_some hm
        have hs1 : Inv N ((s.adv k).emit .number (s.rest.take k)) := (hs.adv k2).emit k3
        refine (boundsLoop_sat N n _ hs1 (by simp only [emit_rest, adv_rest_length]; omega)).mono
          (fun _ s' h' => ⟨h'.1, ?_⟩)
        have h2 := h'.2
        simp only [emit_rest, adv_rest_length] at h2
        omega

theorem acceptPostfixOp_spec (N : Nat) : Spec N acceptPostfixOp (RB 1) := by
  intro s0 hs0
  unfold acceptPostfixOp
  have hs := skipTrivia_inv hs0
  have hl := skipTrivia_len s0
  simp only
  generalize skipTrivia s0 = s at hs hl ⊢
  have one : ∀ (c : Nat) (kind : TK), ValOK kind [c] → s.peek = some c →
      Inv N ((s.adv 1).emit kind [c]) ∧
        RB 1 true ((s.adv 1).emit kind [c]).rest.length s0.rest.length := by
    intro c kind hv hp
    have := peek_some hp
    refine ⟨(hs.adv this).emit hv, ?_, fun _ => ?_⟩
    · simp only [emit_rest, adv_rest_length]; omega
    · simp only [emit_rest, adv_rest_length]; omega
  by_cases h1 : s.peek = some 63
  · rw [if_pos h1]; exact one 63 .optionOp trivial h1
  · rw [if_neg h1]
    by_cases h2 : s.peek = some 42
    · rw [if_pos h2]; exact one 42 .repeatOp trivial h2
    · rw [if_neg h2]
      by_cases h3 : s.peek = some 43
      · rw [if_pos h3]; exact one 43 .repeatOnceOp trivial h3
      · rw [if_neg h3]
        by_cases h4 : s.peek = some 123
        · rw [if_pos h4]
          obtain ⟨hs1, hl1, hp1⟩ := one 123 .lbrace trivial h4
          have hp1 := hp1 rfl
          generalize (s.adv 1).emit .lbrace [123] = s1 at hs1 hl1 hp1 ⊢
          refine SR.Sat.bind' (boundsLoop_sat N _ s1 hs1 (Nat.lt_succ_self _))
            (fun _ s2 ⟨hs2, hl2⟩ => ?_)
          refine (triv_spec N).bind hs2 (fun _ s3 hs3 (hl3 : s3.rest.length ≤ s2.rest.length) => ?_)
          refine (expect_spec N 125 .rbrace .expectedRBrace trivial).bind hs3
            (fun _ s4 hs4 (hl4 : s4.rest.length + 1 ≤ s3.rest.length) => ?_)
          exact ⟨hs4, by omega, fun _ => by omega⟩
        · rw [if_neg h4]
          exact ⟨hs, hl, fun h => by cases h⟩

theorem postfixLoop_sat (N : Nat) : ∀ (n : Nat) (s : St), Inv N s → s.rest.length < n →
    (postfixLoop n s).Sat N (fun _ s' => Inv N s' ∧ s'.rest.length ≤ s.rest.length)
  | 0, _, _, h => by omega
  | n + 1, s, hs, h => by
    rw [postfixLoop]
    refine (acceptPostfixOp_spec N).bind hs (fun b s1 hs1 ⟨hl1, hp1⟩ => ?_)
    cases b
    · ite_clean; exact ⟨hs1, hl1⟩
    · ite_clean
      have := hp1 rfl
      exact (postfixLoop_sat N n s1 hs1 (by omega)).mono (fun _ s' h' => ⟨h'.1, by have := h'.2; omega⟩)

theorem acceptPostfixOps_spec (N : Nat) : Spec N acceptPostfixOps RLe :=
  fun s hs => postfixLoop_sat N _ s hs (Nat.lt_succ_self _)

/-! ### terminals -/

theorem keywordKind_ok (v w : Text) : ValOK (keywordKind v) w := by
  unfold keywordKind
  repeat' split
  all_goals trivial

theorem scanIdent_spec (N : Nat) : Spec N scanIdent RLe := by
  intro s hs
  unfold scanIdent
  cases h : mIdentifier s.rest with
  | none => exact ⟨hs, Nat.le_refl _⟩
  | some n =>
    obtain ⟨_, h2⟩ := mIdentifier_some h
    refine ⟨(hs.adv h2).emit (keywordKind_ok _ _), ?_⟩
    show ((s.adv n).emit _ _).rest.length ≤ s.rest.length
    simp only [emit_rest, adv_rest_length]; omega

theorem optInteger_spec (N : Nat) : Spec N optInteger RLe := by
  intro s hs
  unfold optInteger
  refine (scanEmit_spec scanOK_integer N).bind hs (fun b s1 hs1 ⟨hl1, _⟩ => ?_)
  cases b
  · ite_clean; exact ⟨hs1, hl1⟩
  · ite_clean; exact (triv_spec N).final hs1 hl1

theorem scanOrError_spec {m : Text → Option Nat} {kind : TK} {k : Nat} (hm : ScanOK m kind k)
    (N : Nat) (e : EK) : Spec N (scanOrError m kind e) RLe := by
  intro s hs
  unfold scanOrError
  refine (scanEmit_spec hm N).bind hs (fun b s1 hs1 ⟨hl1, _⟩ => ?_)
  cases b
  · ite_clean; exact error_sat hs1 _ _
  · ite_clean; exact ⟨hs1, hl1⟩

theorem scanOK_dots (kind : TK) (hv : ∀ v, ValOK kind v) : ScanOK (mLit sDOTS) kind 1 :=
  scanOK_lit sDOTS kind hv (by decide)

theorem peekTail_spec (N : Nat) : Spec N peekTail RLe := by
  intro s hs
  unfold peekTail
  refine (triv_spec N).bind hs (fun _ s1 hs1 (hl1 : s1.rest.length ≤ s.rest.length) => ?_)
  refine (optChar_spec N 91 .lbracket trivial).bind hs1 (fun b s2 hs2 ⟨hl2, _⟩ => ?_)
  cases b
  · ite_clean; exact ⟨hs2, by show s2.rest.length ≤ s.rest.length; omega⟩
  · ite_clean
    refine (triv_spec N).bind hs2 (fun _ s3 hs3 (hl3 : s3.rest.length ≤ s2.rest.length) => ?_)
    refine (optInteger_spec N).bind hs3 (fun _ s4 hs4 (hl4 : s4.rest.length ≤ s3.rest.length) => ?_)
    refine (scanOrError_spec (scanOK_dots .rangeOp (fun _ => trivial)) N _).bind hs4
      (fun _ s5 hs5 (hl5 : s5.rest.length ≤ s4.rest.length) => ?_)
    refine (triv_spec N).bind hs5 (fun _ s6 hs6 (hl6 : s6.rest.length ≤ s5.rest.length) => ?_)
    refine (optInteger_spec N).bind hs6 (fun _ s7 hs7 (hl7 : s7.rest.length ≤ s6.rest.length) => ?_)
    refine (expect_spec N 93 .rbracket _ trivial).bind hs7
      (fun _ s8 hs8 (hl8 : s8.rest.length + 1 ≤ s7.rest.length) => ?_)
    exact ⟨hs8, by show s8.rest.length ≤ s.rest.length; omega⟩

theorem charRange_spec (N : Nat) : Spec N charRange RLe := by
  intro s hs
  unfold charRange
  refine (scanEmit_spec scanOK_char N).bind hs (fun b s1 hs1 ⟨hl1, _⟩ => ?_)
  cases b
  · ite_clean; exact ⟨hs1, hl1⟩
  · ite_clean
    refine (triv_spec N).bind hs1 (fun _ s2 hs2 (hl2 : s2.rest.length ≤ s1.rest.length) => ?_)
    refine (scanOrError_spec (scanOK_dots .rangeOp (fun _ => trivial)) N _).bind hs2
      (fun _ s3 hs3 (hl3 : s3.rest.length ≤ s2.rest.length) => ?_)
    refine (triv_spec N).bind hs3 (fun _ s4 hs4 (hl4 : s4.rest.length ≤ s3.rest.length) => ?_)
    refine (scanOrError_spec scanOK_char N _).bind hs4
      (fun _ s5 hs5 (hl5 : s5.rest.length ≤ s4.rest.length) => ?_)
    exact ⟨hs5, by show s5.rest.length ≤ s.rest.length; omega⟩

/-- the hypothesis on the recursive call `self.accept_expression`: it behaves on every state
    with fewer than `L` characters left -/
def RecOK (N L : Nat) (rec : M Unit) : Prop :=
  ∀ s, Inv N s → s.rest.length < L →
    (rec s).Sat N (fun _ s' => Inv N s' ∧ s'.rest.length ≤ s.rest.length)

theorem acceptTerminal_sat {N L : Nat} {rec : M Unit} (hrec : RecOK N L rec) {s : St}
    (hs : Inv N s) (hL : s.rest.length ≤ L) :
    (acceptTerminal rec s).Sat N (fun _ s' => Inv N s' ∧ s'.rest.length ≤ s.rest.length) := by
  unfold acceptTerminal
  refine (scanEmit_spec (scanOK_lit sPUSH_LITERAL .pushLiteral (fun _ => trivial)
    (k := 1) (by decide)) N).bind hs (fun b s1 hs1 ⟨hl1, _⟩ => ?_)
  cases b
  · ite_clean
    refine (scanEmit_spec (scanOK_lit sPUSH .push (fun _ => trivial) (k := 1) (by decide)) N).bind
      hs1 (fun b s2 hs2 ⟨hl2, hp2⟩ => ?_)
    cases b
    · ite_clean
      refine (scanIdent_spec N).bind hs2 (fun k s3 hs3 (hl3 : s3.rest.length ≤ s2.rest.length) => ?_)
      cases k with
      | some kind =>
        dsimp only
        by_cases hk : kind = .peek
        · rw [if_pos hk]; exact (peekTail_spec N).final hs3 (by omega)
        · rw [if_neg hk]; exact ⟨hs3, by omega⟩
      | none =>
        dsimp only
        refine (acceptString_spec N).bind hs3
          (fun b s4 hs4 (hl4 : s4.rest.length ≤ s3.rest.length) => ?_)
        cases b
        · ite_clean
          refine (acceptCIString_spec N).bind hs4
            (fun b s5 hs5 (hl5 : s5.rest.length ≤ s4.rest.length) => ?_)
          cases b
          · ite_clean; exact (charRange_spec N).final hs5 (by omega)
          · ite_clean; exact ⟨hs5, by omega⟩
        · ite_clean; exact ⟨hs4, by omega⟩
    · ite_clean
      have hp2 := hp2 rfl
      refine (triv_spec N).bind hs2 (fun _ s3 hs3 (hl3 : s3.rest.length ≤ s2.rest.length) => ?_)
      refine (expect_spec N 40 .lparen _ trivial).bind hs3
        (fun _ s4 hs4 (hl4 : s4.rest.length + 1 ≤ s3.rest.length) => ?_)
      refine (triv_spec N).bind hs4 (fun _ s5 hs5 (hl5 : s5.rest.length ≤ s4.rest.length) => ?_)
      refine SR.Sat.bind' (hrec s5 hs5 (by omega)) (fun _ s6 ⟨hs6, hl6⟩ => ?_)
      refine (triv_spec N).bind hs6 (fun _ s7 hs7 (hl7 : s7.rest.length ≤ s6.rest.length) => ?_)
      refine (expect_spec N 41 .rparen _ trivial).bind hs7
        (fun _ s8 hs8 (hl8 : s8.rest.length + 1 ≤ s7.rest.length) => ?_)
      exact ⟨hs8, by omega⟩
  · ite_clean
    refine (triv_spec N).bind hs1 (fun _ s3 hs3 (hl3 : s3.rest.length ≤ s1.rest.length) => ?_)
    refine (expect_spec N 40 .lparen _ trivial).bind hs3
      (fun _ s4 hs4 (hl4 : s4.rest.length + 1 ≤ s3.rest.length) => ?_)
    refine (triv_spec N).bind hs4 (fun _ s5 hs5 (hl5 : s5.rest.length ≤ s4.rest.length) => ?_)
    refine (acceptString_spec N).bind hs5 (fun _ s6 hs6 (hl6 : s6.rest.length ≤ s5.rest.length) => ?_)
    refine (triv_spec N).bind hs6 (fun _ s7 hs7 (hl7 : s7.rest.length ≤ s6.rest.length) => ?_)
    refine (expect_spec N 41 .rparen _ trivial).bind hs7
      (fun _ s8 hs8 (hl8 : s8.rest.length + 1 ≤ s7.rest.length) => ?_)
    exact ⟨hs8, by omega⟩

/-! ### terms and expressions -/

theorem acceptTag_spec (N : Nat) : Spec N acceptTag RLe := by
  intro s hs
  unfold acceptTag
  refine (scanEmit_spec scanOK_tag N).bind hs (fun b s1 hs1 ⟨hl1, _⟩ => ?_)
  cases b
  · ite_clean; exact ⟨hs1, hl1⟩
  · ite_clean
    refine (triv_spec N).bind hs1 (fun _ s2 hs2 (hl2 : s2.rest.length ≤ s1.rest.length) => ?_)
    refine (expect_spec N 61 .assignOp _ trivial).bind hs2
      (fun _ s3 hs3 (hl3 : s3.rest.length + 1 ≤ s2.rest.length) => ?_)
    exact (triv_spec N).final hs3 (by omega)

theorem prefixLoop_sat (N : Nat) : ∀ (n : Nat) (s : St), Inv N s → s.rest.length < n →
    (prefixLoop n s).Sat N (fun _ s' => Inv N s' ∧ s'.rest.length ≤ s.rest.length)
  | 0, _, _, h => by omega
  | n + 1, s, hs, h => by
    rw [prefixLoop]
    dsimp only
    have one : ∀ (c : Nat) (kind : TK), ValOK kind [c] → s.peek = some c →
        (prefixLoop n (skipTrivia ((s.adv 1).emit kind [c]))).Sat N
          (fun _ s' => Inv N s' ∧ s'.rest.length ≤ s.rest.length) := by
      intro c kind hv hp
      have := peek_some hp
      have hs1 : Inv N ((s.adv 1).emit kind [c]) := (hs.adv this).emit hv
      have hs2 := skipTrivia_inv hs1
      have hl2 := skipTrivia_len ((s.adv 1).emit kind [c])
      simp only [emit_rest, adv_rest_length] at hl2
      refine (prefixLoop_sat N n _ hs2 (by omega)).mono (fun _ s' h' => ⟨h'.1, ?_⟩)
      have := h'.2
      omega
    by_cases h1 : s.peek = some 38
    · rw [if_pos h1]; exact one 38 .posPred trivial h1
    · rw [if_neg h1]
      by_cases h2 : s.peek = some 33
      · rw [if_pos h2]; exact one 33 .negPred trivial h2
      · rw [if_neg h2]; exact ⟨hs, Nat.le_refl _⟩

theorem prefixLoopTop_spec (N : Nat) : Spec N (fun s => prefixLoop (s.rest.length + 1) s) RLe :=
  fun s hs => prefixLoop_sat N _ s hs (Nat.lt_succ_self _)

theorem acceptTerm_sat {N L : Nat} {rec : M Unit} (hrec : RecOK N L rec) {s : St}
    (hs : Inv N s) (hL : s.rest.length ≤ L) :
    (acceptTerm rec s).Sat N (fun _ s' => Inv N s' ∧ s'.rest.length ≤ s.rest.length) := by
  unfold acceptTerm
  refine (acceptTag_spec N).bind hs (fun _ s1 hs1 (hl1 : s1.rest.length ≤ s.rest.length) => ?_)
  refine (prefixLoopTop_spec N).bind hs1 (fun _ s2 hs2 (hl2 : s2.rest.length ≤ s1.rest.length) => ?_)
  refine SR.Sat.bind' (acceptTerminal_sat hrec hs2 (by omega)) (fun b s3 ⟨hs3, hl3⟩ => ?_)
  cases b
  · ite_clean
    refine (expect_spec N 40 .lparen _ trivial).bind hs3
      (fun _ s4 hs4 (hl4 : s4.rest.length + 1 ≤ s3.rest.length) => ?_)
    refine (triv_spec N).bind hs4 (fun _ s5 hs5 (hl5 : s5.rest.length ≤ s4.rest.length) => ?_)
    refine SR.Sat.bind' (hrec s5 hs5 (by omega)) (fun _ s6 ⟨hs6, hl6⟩ => ?_)
    refine (triv_spec N).bind hs6 (fun _ s7 hs7 (hl7 : s7.rest.length ≤ s6.rest.length) => ?_)
    refine (expect_spec N 41 .rparen _ trivial).bind hs7
      (fun _ s8 hs8 (hl8 : s8.rest.length + 1 ≤ s7.rest.length) => ?_)
    exact (acceptPostfixOps_spec N).final hs8 (by omega)
  · ite_clean
    exact (acceptPostfixOps_spec N).final hs3 (by omega)

theorem exprLoop_sat {N L : Nat} {rec : M Unit} (hrec : RecOK N L rec) :
    ∀ (n : Nat) (s : St), Inv N s → s.rest.length ≤ L → s.rest.length < n →
      (exprLoop rec n s).Sat N (fun _ s' => Inv N s' ∧ s'.rest.length ≤ s.rest.length)
  | 0, _, _, _, h => by omega
  | n + 1, s, hs, hL, h => by
    rw [exprLoop]
    refine (triv_spec N).bind hs (fun _ s1 hs1 (hl1 : s1.rest.length ≤ s.rest.length) => ?_)
    have cont : ∀ s2, Inv N s2 → s2.rest.length + 1 ≤ s1.rest.length →
        ((do triv; acceptTerm rec; exprLoop rec n : M Unit) s2).Sat N
          (fun _ s' => Inv N s' ∧ s'.rest.length ≤ s.rest.length) := by
      intro s2 hs2 hl2
      refine (triv_spec N).bind hs2 (fun _ s3 hs3 (hl3 : s3.rest.length ≤ s2.rest.length) => ?_)
      refine SR.Sat.bind' (acceptTerm_sat hrec hs3 (by omega)) (fun _ s4 ⟨hs4, hl4⟩ => ?_)
      exact (exprLoop_sat hrec n s4 hs4 (by omega) (by omega)).mono
        (fun _ s' h' => ⟨h'.1, by have := h'.2; omega⟩)
    refine (optChar_spec N 126 .sequenceOp trivial).bind hs1 (fun b s2 hs2 ⟨hl2, hp2⟩ => ?_)
    cases b
    · ite_clean
      refine (optChar_spec N 124 .choiceOp trivial).bind hs2 (fun b s3 hs3 ⟨hl3, hp3⟩ => ?_)
      cases b
      · ite_clean; exact ⟨hs3, by show s3.rest.length ≤ s.rest.length; omega⟩
      · ite_clean
        have := hp3 rfl
        exact cont s3 hs3 (by omega)
    · ite_clean
      have := hp2 rfl
      exact cont s2 hs2 (by omega)

theorem leadingChoice_spec (N : Nat) : Spec N leadingChoice RLe := by
  intro s hs
  unfold leadingChoice
  refine (optChar_spec N 124 .choiceOp trivial).bind hs (fun b s1 hs1 ⟨hl1, _⟩ => ?_)
  cases b
  · ite_clean; exact ⟨hs1, hl1⟩
  · ite_clean; exact (triv_spec N).final hs1 hl1

theorem exprStep_sat {N L : Nat} {rec : M Unit} (hrec : RecOK N L rec) {s : St}
    (hs : Inv N s) (hL : s.rest.length ≤ L) :
    (exprStep rec s).Sat N (fun _ s' => Inv N s' ∧ s'.rest.length ≤ s.rest.length) := by
  unfold exprStep
  refine (triv_spec N).bind hs (fun _ s1 hs1 (hl1 : s1.rest.length ≤ s.rest.length) => ?_)
  refine (leadingChoice_spec N).bind hs1 (fun _ s2 hs2 (hl2 : s2.rest.length ≤ s1.rest.length) => ?_)
  refine SR.Sat.bind' (acceptTerm_sat hrec hs2 (by omega)) (fun _ s3 ⟨hs3, hl3⟩ => ?_)
  exact (exprLoop_sat hrec _ s3 hs3 (by omega) (Nat.lt_succ_self _)).mono
    (fun _ s' h' => ⟨h'.1, by have := h'.2; omega⟩)

/-- the depth fuel of `accept_expression` suffices: every nested call happens after at least
    one more character was consumed -/
theorem acceptExpression_ok (N : Nat) : ∀ fuel, RecOK N fuel (acceptExpression fuel)
  | 0 => fun _ _ h => by omega
  | fuel + 1 => fun _ hs h =>
    exprStep_sat (acceptExpression_ok N fuel) hs (by omega)

theorem acceptExpressionTop_spec (N : Nat) :
    Spec N (fun s => acceptExpression (s.rest.length + 1) s) RLe :=
  fun s hs => acceptExpression_ok N _ s hs (Nat.lt_succ_self _)

/-! ### the state functions -/

theorem docInner_aux {N : Nat} {s : St} (hs : Inv N s) (sp : Nat) (hsp : sp ≤ s.rest.length) :
    (SR.ok () ((s.adv (sp + (findNewline (s.rest.drop sp)).getD (s.rest.drop sp).length)).emit
      .commentText (s.rest.take (sp + (findNewline (s.rest.drop sp)).getD
        (s.rest.drop sp).length)))).Sat N
      (fun a s' => Inv N s' ∧ RLe a s'.rest.length s.rest.length) := by
  have hn : (findNewline (s.rest.drop sp)).getD (s.rest.drop sp).length ≤ s.rest.length - sp := by
    cases hf : findNewline (s.rest.drop sp) with
    | none => simp
    | some n =>
      have := findNewline_le _ n hf
      simp only [List.length_drop] at this
      simpa using this
  generalize (findNewline (s.rest.drop sp)).getD (s.rest.drop sp).length = n at hn
  refine ⟨(hs.adv (by omega)).emit trivial, ?_⟩
  show ((s.adv (sp + n)).emit _ _).rest.length ≤ s.rest.length
  simp only [emit_rest, adv_rest_length]; omega

theorem docBlank_inv {N : Nat} {s : St} (hs : Inv N s) :
    Inv N (docBlank s) ∧ (docBlank s).rest.length ≤ s.rest.length := by
  unfold docBlank
  cases hr : s.rest with
  | nil => simp only; exact ⟨hs, by rw [hr]; simp⟩
  | cons c r =>
    simp only
    split
    · refine ⟨(hs.adv (by rw [hr]; simp)).setStart, ?_⟩
      show (s.adv 1).rest.length ≤ _
      simp only [adv_rest_length, hr, List.length_cons]; omega
    · exact ⟨hs, by rw [hr]; simp⟩

theorem docInner_spec (N : Nat) : Spec N docInner RLe := by
  intro s hs
  unfold docInner
  dsimp only
  obtain ⟨h1, h2⟩ := docBlank_inv hs
  have := docInner_aux h1 0 (Nat.zero_le _)
  simp only [Nat.zero_add, List.drop_zero] at this
  obtain ⟨i1, i2⟩ := this
  exact ⟨i1, Nat.le_trans i2 h2⟩

theorem optModifier_spec (N : Nat) : Spec N optModifier RLe := by
  intro s hs
  unfold optModifier
  refine (scanEmit_spec scanOK_modifier N).bind hs (fun b s1 hs1 ⟨hl1, _⟩ => ?_)
  cases b
  · ite_clean; exact ⟨hs1, hl1⟩
  · ite_clean; exact (triv_spec N).final hs1 hl1

/-- `scan_grammar_rule` either stops (`None`) or has consumed the rule's identifier -/
theorem ruleTail_sat {N : Nat} {s : St} (hs : Inv N s) :
    (ruleTail s).Sat N (fun next s' => Inv N s' ∧ s'.rest.length ≤ s.rest.length ∧
      ∀ fn', next = some fn' → fn' = .grammarRule ∧ s'.rest.length + 1 ≤ s.rest.length) := by
  unfold ruleTail
  refine (triv_spec N).bind hs (fun _ s1 hs1 (hl1 : s1.rest.length ≤ s.rest.length) => ?_)
  refine (scanEmit_spec scanOK_identifier N).bind hs1 (fun b s2 hs2 ⟨hl2, hp2⟩ => ?_)
  cases b
  · ite_clean
    by_cases he : s2.rest.isEmpty = true
    · rw [if_pos he]; exact ⟨hs2, by omega, fun _ h => by cases h⟩
    · rw [if_neg he]; exact error_sat hs2 _ _
  · ite_clean
    have := hp2 rfl
    refine (triv_spec N).bind hs2 (fun _ s3 hs3 (hl3 : s3.rest.length ≤ s2.rest.length) => ?_)
    refine (expect_spec N 61 .assignOp _ trivial).bind hs3
      (fun _ s4 hs4 (hl4 : s4.rest.length + 1 ≤ s3.rest.length) => ?_)
    refine (triv_spec N).bind hs4 (fun _ s5 hs5 (hl5 : s5.rest.length ≤ s4.rest.length) => ?_)
    refine (optModifier_spec N).bind hs5 (fun _ s6 hs6 (hl6 : s6.rest.length ≤ s5.rest.length) => ?_)
    refine (expect_spec N 123 .lbrace _ trivial).bind hs6
      (fun _ s7 hs7 (hl7 : s7.rest.length + 1 ≤ s6.rest.length) => ?_)
    refine (acceptExpressionTop_spec N).bind hs7
      (fun _ s8 hs8 (hl8 : s8.rest.length ≤ s7.rest.length) => ?_)
    refine (expect_spec N 125 .rbrace _ trivial).bind hs8
      (fun _ s9 hs9 (hl9 : s9.rest.length + 1 ≤ s8.rest.length) => ?_)
    exact ⟨hs9, by omega, fun _ h => by cases h; exact ⟨rfl, by omega⟩⟩

/-- the rank of a state function: a call either consumes a character or continues with a
    state function of lower rank -/
def rank : Fn → Nat
  | .grammarDocInner => 2
  | .grammar => 1
  | .ruleDocInner => 1
  | .grammarRule => 0

theorem stateFn_sat {N : Nat} (fn : Fn) {s : St} (hs : Inv N s) :
    (stateFn fn s).Sat N (fun next s' => Inv N s' ∧
      ∀ fn', next = some fn' → 3 * s'.rest.length + rank fn' < 3 * s.rest.length + rank fn) := by
  cases fn with
  | grammar =>
    unfold stateFn
    refine (triv_spec N).bind hs (fun _ s1 hs1 (hl1 : s1.rest.length ≤ s.rest.length) => ?_)
    refine (scanEmit_spec (scanOK_lit sGDOC .grammarDoc (fun _ => trivial) (k := 3)
      (by decide)) N).bind hs1 (fun b s2 hs2 ⟨hl2, hp2⟩ => ?_)
    cases b
    · ite_clean
      refine ⟨hs2, fun fn' h => ?_⟩
      cases h; simp only [rank]; omega
    · ite_clean
      have := hp2 rfl
      refine ⟨hs2, fun fn' h => ?_⟩
      cases h; simp only [rank]; omega
  | grammarDocInner =>
    unfold stateFn
    refine (docInner_spec N).bind hs (fun _ s1 hs1 (hl1 : s1.rest.length ≤ s.rest.length) => ?_)
    refine ⟨hs1, fun fn' h => ?_⟩
    cases h; simp only [rank]; omega
  | grammarRule =>
    unfold stateFn
    refine (triv_spec N).bind hs (fun _ s1 hs1 (hl1 : s1.rest.length ≤ s.rest.length) => ?_)
    refine (scanEmit_spec (scanOK_lit sRDOC .ruleDoc (fun _ => trivial) (k := 3)
      (by decide)) N).bind hs1 (fun b s2 hs2 ⟨hl2, hp2⟩ => ?_)
    cases b
    · ite_clean
      refine (ruleTail_sat hs2).mono (fun next s3 ⟨hs3, hl3, hp3⟩ => ⟨hs3, fun fn' h => ?_⟩)
      obtain ⟨rfl, _⟩ := hp3 fn' h
      simp only [rank]; omega
    · ite_clean
      have := hp2 rfl
      refine ⟨hs2, fun fn' h => ?_⟩
      cases h; simp only [rank]; omega
  | ruleDocInner =>
    unfold stateFn
    refine (docInner_spec N).bind hs (fun _ s1 hs1 (hl1 : s1.rest.length ≤ s.rest.length) => ?_)
    refine ⟨hs1, fun fn' h => ?_⟩
    cases h; simp only [rank]; omega

/-- the bound on state-function calls suffices -/
theorem run_sat (N : Nat) : ∀ (n : Nat) (fn : Fn) (s : St), Inv N s →
    3 * s.rest.length + rank fn < n → (run n fn s).Sat N (fun _ s' => Inv N s')
  | 0, _, _, _, h => by omega
  | n + 1, fn, s, hs, h => by
    rw [run]
    refine SR.Sat.bind' (stateFn_sat fn hs) (fun next s1 ⟨hs1, hr1⟩ => ?_)
    cases next with
    | none => exact hs1
    | some fn' =>
      have := hr1 fn' rfl
      exact run_sat N n fn' s1 hs1 (by omega)

theorem init_inv (text : Text) : Inv text.length (St.init text) :=
  ⟨Nat.le_refl _, by simp [St.init], fun _ h => by simp [St.init] at h⟩

/-- **the scanner is total**: `tokenize` returns tokens the parser can digest, or raises a
    `PestGrammarSyntaxError` whose token starts inside the text -/
theorem scan_sat (text : Text) :
    match scan text with
    | .ok toks => ∀ t ∈ toks, TokOK text.length t
    | .err _ st _ => st ≤ text.length
    | .exc _ => False
    | .oof => False := by
  have h := run_sat text.length (3 * text.length + 3) .grammar (St.init text) (init_inv text)
    (by simp only [St.init, rank]; omega)
  unfold scan
  cases hr : run (3 * text.length + 3) .grammar (St.init text) with
  | ok a s =>
    rw [hr] at h
    intro t ht
    exact h.toks t (List.mem_reverse.mp ht)
  | err k st v => rw [hr] at h; exact h
  | exc n => rw [hr] at h; exact h
  | oof => rw [hr] at h; exact h

end Front
end Pest
