/-
  Lemmas/FrontInvScan.lean — scanner INVERSION (the reject half of C10, scanner part):

    scan_inv : scan t = .ok toks → ∃ c : CGrammar, c.Valid ∧ kvOf toks = c.kv ∧ CGrammarText c t

  whatever text the scanner accepts is a layout (Lemmas/FrontInvCst.lean: `CGrammarText`) of a
  concrete syntax tree whose tokens are the ones emitted: leading trivia, `//!` lines, rules with
  their `///` lines, trailing `///` lines; after every token any trivia; a line comment without
  line break only at the very end.

  Method.  A successful run of a scanner method from `s` to `s'` is summarised by
  `Stp s s' K`: the tokens `K` were appended and `Lay K s.rest s'.rest` — the consumed text is
  the tokens `K` as spelled, with trivia anywhere between, before and behind them.  One inversion
  lemma per method (`…_inv`), composed with `Stp.trans`; loops by induction on their bound;
  `accept_expression` by induction on its fuel with the open-recursion hypothesis `RecInv`.
  `skip_trivia` may also swallow a line comment that lacks its line break, but then nothing is
  left, so every inversion lemma for a method *inside* a rule carries the hypothesis
  `s'.rest ≠ []` (a closing brace is still to come) and only the driver loop sees `EndC`.
-/
import PestModel.Lemmas.FrontInvCst
import PestModel.Lemmas.FrontScanTrivia

namespace Pest
namespace Front
namespace IS
open RT TRT

/-! ### the monad -/

theorem bind_inv {α β} {m : M α} {f : α → M β} {s s' : St} {b : β} (h : (m >>= f) s = .ok b s') :
    ∃ a s1, m s = .ok a s1 ∧ f a s1 = .ok b s' := by
  rw [bind_apply] at h
  cases hm : m s with
  | ok a s1 => rw [hm] at h; exact ⟨a, s1, rfl, h⟩
  | err k st v => rw [hm] at h; cases h
  | exc n => rw [hm] at h; cases h
  | oof => rw [hm] at h; cases h

theorem pure_inv {α} {a b : α} {s s' : St} (h : (pure a : M α) s = .ok b s') : b = a ∧ s' = s := by
  rw [pure_apply] at h; cases h; exact ⟨rfl, rfl⟩

/-! ### the flat layout -/

/-- `t` is the tokens `kvs` as spelled, trivia anywhere, and then `tl` -/
inductive Lay : List KV → Text → Text → Prop
  | nil (tl : Text) : Lay [] tl tl
  | triv {kvs : List KV} {ws t tl : Text} : IsTrivia ws → Lay kvs t tl → Lay kvs (ws ++ t) tl
  | tok (kv : KV) {kvs : List KV} {w t tl : Text} : SpellsA kv w → Lay kvs t tl →
      Lay (kv :: kvs) (w ++ t) tl

theorem Lay.trans {K1 K2 : List KV} {t m tl : Text} (h1 : Lay K1 t m) (h2 : Lay K2 m tl) :
    Lay (K1 ++ K2) t tl := by
  induction h1 with
  | nil _ => simpa using h2
  | triv hw _ ih => exact .triv hw (ih h2)
  | tok kv hs _ ih => exact .tok kv hs (ih h2)

theorem Lay.suffix {K : List KV} {t tl : Text} (h : Lay K t tl) : ∃ w, t = w ++ tl := by
  induction h with
  | nil tl => exact ⟨[], rfl⟩
  | @triv _ ws _ _ _ _ ih => obtain ⟨w, rfl⟩ := ih; exact ⟨ws ++ w, by simp⟩
  | @tok _ _ w0 _ _ _ _ ih => obtain ⟨w, rfl⟩ := ih; exact ⟨w0 ++ w, by simp⟩

theorem Lay.ne {K : List KV} {t tl : Text} (h : Lay K t tl) (hne : tl ≠ []) : t ≠ [] := by
  obtain ⟨w, rfl⟩ := h.suffix
  simp [hne]

theorem Lay.of_tr {t tl : Text} (h : Tr t tl) : Lay [] t tl := by
  obtain ⟨ws, hw, rfl⟩ := h
  exact .triv hw (.nil tl)

theorem spellsA_verb {k : TK} (v : Text) (h1 : k ≠ .string) (h2 : k ≠ .stringCI) : SpellsA (k, v) v := by
  cases k <;> first | exact absurd rfl h1 | exact absurd rfl h2 | simp [SpellsA]

theorem Lay.one {k : TK} (v tl : Text) (h1 : k ≠ .string) (h2 : k ≠ .stringCI) :
    Lay [(k, v)] (v ++ tl) tl :=
  .tok _ (spellsA_verb v h1 h2) (.nil tl)

/-- tokens each followed by trivia, after leading trivia -/
theorem Lay.toScA {K : List KV} {t tl : Text} (h : Lay K t tl) :
    ∃ ws t', IsTrivia ws ∧ t = ws ++ t' ∧ ScA K t' tl := by
  induction h with
  | nil tl => exact ⟨[], tl, .nil, rfl, .nil tl⟩
  | @triv _ ws0 _ _ hw _ ih =>
    obtain ⟨ws, t', hws, rfl, hsc⟩ := ih
    exact ⟨ws0 ++ ws, t', isTrivia_append hw hws, by simp, hsc⟩
  | @tok kv _ w _ _ hs _ ih =>
    obtain ⟨ws, t', hws, rfl, hsc⟩ := ih
    exact ⟨[], w ++ (ws ++ t'), .nil, rfl, .cons kv hs hws hsc⟩

theorem scA_absorb : ∀ {K : List KV} {t tl ws : Text}, ScA K t (ws ++ tl) → IsTrivia ws → K ≠ [] →
    ScA K t tl := by
  intro K t tl ws h
  generalize hm : ws ++ tl = m at h
  induction h with
  | nil _ => intro _ hne; exact absurd rfl hne
  | @cons kv kvs w ws0 t0 tl0 hs hw0 hrest ih =>
    intro hw _
    subst hm
    cases kvs with
    | nil =>
      cases hrest
      have : w ++ (ws0 ++ (ws ++ tl)) = w ++ ((ws0 ++ ws) ++ tl) := by simp
      rw [this]
      exact .cons kv hs (isTrivia_append hw0 hw) (.nil tl)
    | cons kv' kvs' => exact .cons kv hs hw0 (ih rfl hw (by simp))

/-! ### steps -/

/-- a successful run from `s` to `s'` appended the tokens `K` and consumed a layout of them -/
def Stp (s s' : St) (K : List KV) : Prop := out s' = out s ++ K ∧ Lay K s.rest s'.rest

theorem Stp.refl (s : St) : Stp s s [] := ⟨by simp, .nil _⟩

theorem Stp.trans {s s1 s2 : St} {K1 K2 : List KV} (h1 : Stp s s1 K1) (h2 : Stp s1 s2 K2) :
    Stp s s2 (K1 ++ K2) :=
  ⟨by rw [h2.1, h1.1, List.append_assoc], h1.2.trans h2.2⟩

theorem Stp.ne {s s' : St} {K : List KV} (h : Stp s s' K) (hne : s'.rest ≠ []) : s.rest ≠ [] :=
  h.2.ne hne

theorem Stp.cast {s s' : St} {K K' : List KV} (h : Stp s s' K) (hk : K' = K := by simp) : Stp s s' K' := by
  subst hk; exact h

/-! ### trivia -/

theorem isTrivia_ws : ∀ t : Text, IsTrivia (t.take (wsLen t)) := by
  intro t
  fun_induction wsLen t with
  | case1 => exact .nil
  | case2 r ih => exact .crlf ih
  | case3 c r _ hc ih =>
    simp only [List.take_succ_cons]
    have : (c = 32 ∨ c = 9) ∨ c = 10 := by simpa using hc
    rcases this with (rfl | rfl) | rfl
    · exact .sp ih
    · exact .tab ih
    · exact .lf ih
  | case4 c r _ hc => exact .nil

theorem spanLen_drop (p : Nat → Bool) : ∀ t : Text,
    t.drop (spanLen p t) = [] ∨ ∃ c u, t.drop (spanLen p t) = c :: u ∧ p c = false
  | [] => .inl rfl
  | c :: r => by
    simp only [spanLen]
    by_cases hc : p c = true
    · simp only [hc, if_true, List.drop_succ_cons]
      exact spanLen_drop p r
    · simp only [hc]
      exact .inr ⟨c, r, rfl, by simpa using hc⟩

/-- what `RE_LINE_COMMENT` matches: `//`, a text without line feed that does not start with `/`
    or `!`; behind it the text ends or a line feed follows -/
theorem mLineComment_inv {t : Text} {n : Nat} (h : mLineComment t = some n) :
    ∃ r, t.take n = 47 :: 47 :: r ∧ (∀ c ∈ r, c ≠ 10) ∧ r.head? ≠ some 47 ∧ r.head? ≠ some 33 ∧
      (t.drop n = [] ∨ ∃ u, t.drop n = 10 :: u) := by
  unfold mLineComment at h
  split at h
  · rename_i r
    split at h
    · rename_i c r'
      split at h
      · cases h
      · rename_i hc
        cases h
        have hc47 : c ≠ 47 := fun e => hc (by simp [e])
        have hc33 : c ≠ 33 := fun e => hc (by simp [e])
        refine ⟨(c :: r').take (spanLen (· != 10) (c :: r')), ?_, ?_, ?_, ?_, ?_⟩
        · have : 2 + spanLen (· != 10) (c :: r') = spanLen (· != 10) (c :: r') + 1 + 1 := by omega
          rw [this, List.take_succ_cons, List.take_succ_cons]
        · intro x hx
          have := spanLen_take (· != 10) (c :: r') x hx
          simpa using this
        · cases hsp : spanLen (· != 10) (c :: r') with
          | zero => simp
          | succ k => simp [hc47]
        · cases hsp : spanLen (· != 10) (c :: r') with
          | zero => simp
          | succ k => simp [hc33]
        · have : 2 + spanLen (· != 10) (c :: r') = spanLen (· != 10) (c :: r') + 1 + 1 := by omega
          rw [this, List.drop_succ_cons, List.drop_succ_cons]
          rcases spanLen_drop (· != 10) (c :: r') with h0 | ⟨x, u, h0, hx⟩
          · exact .inl h0
          · have : x = 10 := by simpa using hx
            subst this
            exact .inr ⟨u, h0⟩
    · cases h
      exact ⟨[], rfl, by simp, by simp, by simp, .inl rfl⟩
  · cases h

theorem blockBody_ge : ∀ (d : Nat) (t : Text) (k : Nat), blockBody d t = some k → 2 ≤ k := by
  intro d t
  fun_induction blockBody d t with
  | case1 => intro k h; cases h
  | case2 r => intro k h; cases h; omega
  | case3 r d ih =>
    intro k h
    cases hb : blockBody d r with
    | none => rw [hb] at h; cases h
    | some k' => rw [hb] at h; simp only [Option.map_some, Option.some.injEq] at h; omega
  | case4 depth r ih =>
    intro k h
    cases hb : blockBody (depth + 1) r with
    | none => rw [hb] at h; cases h
    | some k' => rw [hb] at h; simp only [Option.map_some, Option.some.injEq] at h; omega
  | case5 depth c r _ _ ih =>
    intro k h
    cases hb : blockBody depth r with
    | none => rw [hb] at h; cases h
    | some k' =>
      rw [hb] at h; simp only [Option.map_some, Option.some.injEq] at h
      have := ih k' hb; omega

theorem bb_of_blockBody : ∀ (d : Nat) (t : Text) (k : Nat), blockBody d t = some k → BB d (t.take k) := by
  intro d t
  fun_induction blockBody d t with
  | case1 => intro k h; cases h
  | case2 r => intro k h; cases h; exact .close
  | case3 r d ih =>
    intro k h
    cases hb : blockBody d r with
    | none => rw [hb] at h; cases h
    | some k' =>
      rw [hb] at h; cases h
      exact .closeS (ih k' hb)
  | case4 depth r ih =>
    intro k h
    cases hb : blockBody (depth + 1) r with
    | none => rw [hb] at h; cases h
    | some k' =>
      rw [hb] at h; cases h
      exact .opn (ih k' hb)
  | case5 depth c r h1 h2 ih =>
    intro k h
    cases hb : blockBody depth r with
    | none => rw [hb] at h; cases h
    | some k' =>
      rw [hb] at h; cases h
      have hk := blockBody_ge depth r k' hb
      have hbb := ih k' hb
      simp only [List.take_succ_cons] at *
      obtain ⟨x, r', rfl⟩ : ∃ x r', r = x :: r' := by
        cases r with
        | nil => simp [blockBody] at hb
        | cons x r' => exact ⟨x, r', rfl⟩
      obtain ⟨j, rfl⟩ : ∃ j, k' = j + 1 := ⟨k' - 1, by omega⟩
      refine .chr c ?_ ?_ hbb
      · rintro ⟨rfl, hh⟩
        simp only [List.take_succ_cons, List.head?_cons, Option.some.injEq] at hh
        subst hh
        exact h1 r' rfl rfl
      · rintro ⟨rfl, hh⟩
        simp only [List.take_succ_cons, List.head?_cons, Option.some.injEq] at hh
        subst hh
        exact h2 r' rfl rfl

theorem mBlockComment_inv {t : Text} {n : Nat} (h : mBlockComment t = some n) : IsBlock (t.take n) := by
  unfold mBlockComment at h
  split at h
  · rename_i r
    cases hb : blockBody 0 r with
    | none => rw [hb] at h; cases h
    | some k =>
      rw [hb] at h; cases h
      have := bb_of_blockBody 0 r k hb
      have e : (47 :: 42 :: r).take (k + 2) = 47 :: 42 :: r.take k := by
        simp [List.take_succ_cons]
      rw [e]
      exact isBlock_of_BB this
  · cases h

/-! ### `skip_trivia` -/

/-- trivia as the rounds of `skip_trivia` see it: a line comment stops before its line feed, or
    at the end of the text -/
inductive TrL : Text → Text → Prop
  | nil (tl : Text) : TrL tl tl
  | triv {ws t tl : Text} : IsTrivia ws → TrL t tl → TrL (ws ++ t) tl
  | line (r : Text) {t tl : Text} : (∀ c ∈ r, c ≠ 10) → r.head? ≠ some 47 → r.head? ≠ some 33 →
      (t = [] ∨ ∃ u, t = 10 :: u) → TrL t tl → TrL (47 :: 47 :: (r ++ t)) tl

theorem TrL.suffix {t tl : Text} (h : TrL t tl) : ∃ w, t = w ++ tl := by
  induction h with
  | nil tl => exact ⟨[], rfl⟩
  | @triv ws _ _ _ _ ih => obtain ⟨w, rfl⟩ := ih; exact ⟨ws ++ w, by simp⟩
  | @line r _ _ _ _ _ _ _ ih => obtain ⟨w, rfl⟩ := ih; exact ⟨47 :: 47 :: (r ++ w), by simp⟩

theorem TrL.trans {t m tl : Text} (h1 : TrL t m) (h2 : TrL m tl) : TrL t tl := by
  induction h1 with
  | nil _ => exact h2
  | triv hw _ ih => exact .triv hw (ih h2)
  | line r p1 p2 p3 p4 _ ih => exact .line r p1 p2 p3 p4 (ih h2)

/-- the consumed text is trivia, or nothing is left and it is trivia followed by a line comment
    without its line break -/
def TrE (t tl : Text) : Prop := Tr t tl ∨ (tl = [] ∧ ∃ ws e, IsTrivia ws ∧ t = ws ++ e ∧ EndC e)

theorem isTrivia_lf_inv {w : Text} (h : IsTrivia (10 :: w)) : IsTrivia w := by
  generalize hx : 10 :: w = x at h
  cases h with
  | nil => cases hx
  | sp _ => cases hx
  | tab _ => cases hx
  | lf h' => cases hx; exact h'
  | crlf _ => cases hx
  | line r _ _ _ _ => cases hx
  | block hc _ =>
    obtain ⟨body, rfl, _⟩ := hc
    cases hx

theorem endC_not_lf {u : Text} : ¬ EndC (10 :: u) := by
  rintro (h | ⟨r, h, _⟩) <;> cases h

theorem TrL.toTrE {t tl : Text} (h : TrL t tl) (hws : mWhitespace tl = none) : TrE t tl := by
  induction h with
  | nil tl => exact .inl (Tr.refl tl)
  | @triv ws t tl hw _ ih =>
    rcases ih hws with ⟨ws', hw', rfl⟩ | ⟨rfl, ws', e, hw', rfl, he⟩
    · exact .inl ⟨ws ++ ws', isTrivia_append hw hw', by simp⟩
    · exact .inr ⟨rfl, ws ++ ws', e, isTrivia_append hw hw', by simp, he⟩
  | @line r t tl h1 h2 h3 hnext hrest ih =>
    rcases hnext with rfl | ⟨u, rfl⟩
    · obtain ⟨w, hw⟩ := hrest.suffix
      have htl : tl = [] := by
        cases w with
        | nil => simpa using hw.symm
        | cons x w' => simp at hw
      subst htl
      exact .inr ⟨rfl, [], 47 :: 47 :: r, .nil, by simp, .inr ⟨r, rfl, h1, h2, h3⟩⟩
    · rcases ih hws with ⟨ws', hw', e1⟩ | ⟨rfl, ws', e, hw', e1, he⟩
      · cases ws' with
        | nil =>
          simp only [List.nil_append] at e1
          subst e1
          simp [mWhitespace, wsLen] at hws
        | cons x ws'' =>
          simp only [List.cons_append, List.cons.injEq] at e1
          obtain ⟨rfl, rfl⟩ := e1
          refine .inl ⟨47 :: 47 :: (r ++ 10 :: ws''), .line r h1 h2 h3 (isTrivia_lf_inv hw'), by simp⟩
      · cases ws' with
        | nil =>
          simp only [List.nil_append] at e1
          subst e1
          exact absurd he endC_not_lf
        | cons x ws'' =>
          simp only [List.cons_append, List.cons.injEq] at e1
          obtain ⟨rfl, rfl⟩ := e1
          exact .inr ⟨rfl, 47 :: 47 :: (r ++ 10 :: ws''), e, .line r h1 h2 h3 (isTrivia_lf_inv hw'),
            by simp, he⟩

theorem skip_cases (m : Text → Option Nat) (s : St) :
    (skip m s).2.toks = s.toks ∧
      ((m s.rest = none ∧ (skip m s).2 = s) ∨
        ∃ n, m s.rest = some n ∧ (skip m s).2.rest = s.rest.drop n) := by
  unfold skip
  cases hm : m s.rest with
  | none => exact ⟨rfl, .inl ⟨rfl, rfl⟩⟩
  | some n => exact ⟨rfl, .inr ⟨n, rfl, rfl⟩⟩

theorem triviaRound_trl (s : St) :
    (triviaRound s).2.toks = s.toks ∧ TrL s.rest (triviaRound s).2.rest := by
  rw [triviaRound_snd]
  obtain ⟨t1, c1⟩ := skip_cases mWhitespace s
  generalize (skip mWhitespace s).2 = s1 at t1 c1 ⊢
  obtain ⟨t2, c2⟩ := skip_cases mLineComment s1
  generalize (skip mLineComment s1).2 = s2 at t2 c2 ⊢
  obtain ⟨t3, c3⟩ := skip_cases mBlockComment s2
  generalize (skip mBlockComment s2).2 = s3 at t3 c3 ⊢
  refine ⟨by rw [t3, t2, t1], ?_⟩
  have h3 : TrL s2.rest s3.rest := by
    rcases c3 with ⟨_, rfl⟩ | ⟨n, hm, hr⟩
    · exact .nil _
    · have hb := IsTrivia.block (mBlockComment_inv hm) .nil
      rw [List.append_nil] at hb
      have := TrL.triv hb (.nil (s2.rest.drop n))
      rwa [List.take_append_drop, ← hr] at this
  have h2 : TrL s1.rest s3.rest := by
    rcases c2 with ⟨_, rfl⟩ | ⟨n, hm, hr⟩
    · exact h3
    · obtain ⟨r, e1, p1, p2, p3, p4⟩ := mLineComment_inv hm
      rw [← hr] at p4
      have := TrL.line r p1 p2 p3 p4 h3
      have e : s1.rest = 47 :: 47 :: (r ++ s2.rest) := by
        rw [hr]
        have := List.take_append_drop n s1.rest
        rw [e1] at this
        simpa using this.symm
      rwa [← e] at this
  rcases c1 with ⟨_, rfl⟩ | ⟨n, hm, hr⟩
  · exact h2
  · have hn : n = wsLen s.rest := by
      unfold mWhitespace at hm
      simp only at hm
      split at hm
      · cases hm
      · cases hm; rfl
    have := TrL.triv (isTrivia_ws s.rest) (hr ▸ h2 : TrL (s.rest.drop n) s3.rest)
    rwa [← hn, List.take_append_drop] at this

theorem skipTriviaN_trl : ∀ (n : Nat) (s : St),
    (skipTriviaN n s).toks = s.toks ∧ TrL s.rest (skipTriviaN n s).rest
  | 0, s => ⟨rfl, .nil _⟩
  | n + 1, s => by
    obtain ⟨t1, h1⟩ := triviaRound_trl s
    rw [Front.skipTriviaN_succ]
    by_cases ha : (triviaRound s).1 = true
    · rw [if_pos ha]
      obtain ⟨t2, h2⟩ := skipTriviaN_trl n (triviaRound s).2
      exact ⟨by rw [t2, t1], h1.trans h2⟩
    · rw [if_neg ha]; exact ⟨t1, h1⟩

theorem skipTrivia_toks (s : St) : (skipTrivia s).toks = s.toks := (skipTriviaN_trl _ s).1

@[simp] theorem out_skipTrivia (s : St) : out (skipTrivia s) = out s := by
  simp [out, skipTrivia_toks]

theorem skipTrivia_ws_none (s : St) : mWhitespace (skipTrivia s).rest = none := by
  have h := skipTrivia_done s
  rw [triviaRound_fst] at h
  simp only [Bool.or_eq_false_iff] at h
  have h1 := h.1.1
  unfold skip at h1
  cases hm : mWhitespace (skipTrivia s).rest with
  | none => rfl
  | some n => rw [hm] at h1; cases h1

theorem skipTrivia_tre (s : St) : TrE s.rest (skipTrivia s).rest :=
  (skipTriviaN_trl _ s).2.toTrE (skipTrivia_ws_none s)

theorem skipTrivia_tr (s : St) (hne : (skipTrivia s).rest ≠ []) : Tr s.rest (skipTrivia s).rest := by
  rcases skipTrivia_tre s with h | ⟨h, _⟩
  · exact h
  · exact absurd h hne

theorem skipTrivia_stp (s : St) (hne : (skipTrivia s).rest ≠ []) : Stp s (skipTrivia s) [] :=
  ⟨by simp, .of_tr (skipTrivia_tr s hne)⟩

theorem triv_inv {s s' : St} (h : triv s = .ok () s') : s' = skipTrivia s := by
  unfold triv at h; cases h; rfl

theorem triv_stp {s s' : St} (h : triv s = .ok () s') (hne : s'.rest ≠ []) : Stp s s' [] := by
  cases triv_inv h; exact skipTrivia_stp s hne

/-! ### the generic scanner steps -/

theorem stp_emit (s : St) (n : Nat) (kind : TK) (h1 : kind ≠ .string) (h2 : kind ≠ .stringCI) :
    Stp s ((s.adv n).emit kind (s.rest.take n)) [(kind, s.rest.take n)] := by
  refine ⟨by simp, ?_⟩
  have := Lay.one (k := kind) (s.rest.take n) (s.rest.drop n) h1 h2
  rw [List.take_append_drop] at this
  simpa using this

theorem scanEmit_inv {m : Text → Option Nat} {kind : TK} {b : Bool} {s s' : St}
    (h : scanEmit m kind s = .ok b s') :
    (b = false ∧ m s.rest = none ∧ s' = s) ∨
      (b = true ∧ ∃ n, m s.rest = some n ∧ s' = (s.adv n).emit kind (s.rest.take n)) := by
  unfold scanEmit at h
  cases hm : m s.rest with
  | none => rw [hm] at h; cases h; exact .inl ⟨rfl, rfl, rfl⟩
  | some n => rw [hm] at h; cases h; exact .inr ⟨rfl, n, rfl, rfl⟩

theorem peek_inv {s : St} {c : Nat} (h : s.peek = some c) : ∃ r, s.rest = c :: r := by
  unfold St.peek at h
  cases hr : s.rest with
  | nil => rw [hr] at h; cases h
  | cons x r => rw [hr] at h; cases h; exact ⟨r, rfl⟩

theorem stp_char (s : St) (c : Nat) (r : Text) (kind : TK) (hr : s.rest = c :: r)
    (h1 : kind ≠ .string) (h2 : kind ≠ .stringCI) : Stp s ((s.adv 1).emit kind [c]) [(kind, [c])] := by
  have := stp_emit s 1 kind h1 h2
  rw [hr] at this
  simpa using this

theorem expect_inv {c : Nat} {kind : TK} {k : EK} {s s' : St} (h : expect c kind k s = .ok () s')
    (h1 : kind ≠ .string) (h2 : kind ≠ .stringCI) : Stp s s' [(kind, [c])] := by
  unfold expect at h
  by_cases hp : s.peek = some c
  · rw [if_pos hp] at h
    cases h
    obtain ⟨r, hr⟩ := peek_inv hp
    exact stp_char s c r kind hr h1 h2
  · rw [if_neg hp] at h
    cases h

theorem optChar_inv {c : Nat} {kind : TK} {b : Bool} {s s' : St} (h : optChar c kind s = .ok b s')
    (h1 : kind ≠ .string) (h2 : kind ≠ .stringCI) :
    (b = false ∧ s' = s) ∨ (b = true ∧ Stp s s' [(kind, [c])]) := by
  unfold optChar at h
  by_cases hp : s.peek = some c
  · rw [if_pos hp] at h
    cases h
    obtain ⟨r, hr⟩ := peek_inv hp
    exact .inr ⟨rfl, stp_char s c r kind hr h1 h2⟩
  · rw [if_neg hp] at h
    cases h
    exact .inl ⟨rfl, rfl⟩

theorem scanOrError_inv {m : Text → Option Nat} {kind : TK} {k : EK} {s s' : St}
    (h : scanOrError m kind k s = .ok () s') :
    ∃ n, m s.rest = some n ∧ s' = (s.adv n).emit kind (s.rest.take n) := by
  unfold scanOrError at h
  obtain ⟨b, s1, h1, h2⟩ := bind_inv h
  rcases scanEmit_inv h1 with ⟨rfl, _, rfl⟩ | ⟨rfl, n, hm, rfl⟩
  · simp only [Bool.false_eq_true, ↓reduceIte] at h2
    unfold error at h2
    cases h2
  · simp only [↓reduceIte] at h2
    cases (pure_inv h2).2
    exact ⟨n, hm, rfl⟩

/-! ### what the regular expressions match -/

theorem startsWith_take : ∀ (t lit : Text) (n : Nat), startsWith (t.take n) lit = true →
    startsWith t lit = true
  | _, [], _, _ => by simp [startsWith]
  | [], _ :: _, n, h => by simp [startsWith] at h
  | c :: r, d :: l, 0, h => by simp [startsWith] at h
  | c :: r, d :: l, n + 1, h => by
    simp only [List.take_succ_cons, startsWith, Bool.and_eq_true] at h ⊢
    exact ⟨h.1, startsWith_take r l n h.2⟩

theorem all_take_span (p : Nat → Bool) (t : Text) : (t.take (spanLen p t)).all p = true := by
  rw [List.all_eq_true]
  exact spanLen_take p t

theorem mIdentifier_inv {t : Text} {n : Nat} (h : mIdentifier t = some n) : IsIdent (t.take n) := by
  unfold mIdentifier at h
  split at h
  · cases h
  · rename_i hp
    split at h
    · rename_i c r
      split at h
      · rename_i hc
        cases h
        rw [isIdent_iff]
        refine ⟨c, r.take (spanLen isIdentChar r), by simp [List.take_succ_cons], hc,
          all_take_span _ r, ?_⟩
        cases hs : startsWith (List.take (spanLen isIdentChar r + 1) (c :: r)) sPUSH with
        | false => rfl
        | true => exact absurd (startsWith_take _ _ _ hs) hp
      · cases h
    · cases h

theorem mTag_inv {t : Text} {n : Nat} (h : mTag t = some n) :
    ∃ name, t.take n = 35 :: name ∧ IsTagName name := by
  unfold mTag at h
  split at h
  · rename_i c r
    split at h
    · rename_i hc
      cases h
      refine ⟨c :: r.take (spanLen isIdentChar r), by simp [List.take_succ_cons], hc, all_take_span _ r⟩
    · cases h
  · cases h

theorem mModifier_inv {t : Text} {n : Nat} (h : mModifier t = some n) :
    ∃ c, t.take n = [c] ∧ (c = 95 ∨ c = 64 ∨ c = 36 ∨ c = 33) := by
  unfold mModifier at h
  split at h
  · rename_i c r
    split at h
    · rename_i hc
      cases h
      refine ⟨c, by simp, ?_⟩
      simpa [or_assoc] using hc
    · cases h
  · cases h

theorem mLit_inv {lit t : Text} {n : Nat} (h : mLit lit t = some n) : t.take n = lit := by
  unfold mLit at h
  split at h
  · rename_i hs
    cases h
    induction lit generalizing t with
    | nil => simp
    | cons d l ih =>
      cases t with
      | nil => simp [startsWith] at hs
      | cons c r =>
        simp only [startsWith, Bool.and_eq_true, beq_iff_eq] at hs
        simp [List.take_succ_cons, hs.1, ih hs.2]
  · cases h

theorem take_span_drop (p : Nat → Bool) (t : Text) :
    t = t.take (spanLen p t) ++ t.drop (spanLen p t) := (List.take_append_drop _ _).symm

theorem mInteger_inv {t : Text} {n : Nat} (h : mInteger t = some n) : IsIntTok (t.take n) := by
  unfold mInteger at h
  split at h
  · rename_i k hk
    cases h
    exact .inl (mNumber_some hk).2.2
  · split at h
    · rename_i r hnum
      simp only at h
      split at h
      · rename_i d r' hd
        split at h
        · rename_i hr
          cases h
          simp only [Bool.and_eq_true, decide_eq_true_eq] at hr
          refine .inr ⟨r.take (spanLen (· == 48) r), d, r'.take (spanLen isDigit r'), ?_, ?_, hr.1, hr.2,
            spanLen_take isDigit r'⟩
          · have e : 1 + spanLen (· == 48) r + 1 + spanLen isDigit r' =
                (spanLen (· == 48) r + (spanLen isDigit r' + 1)) + 1 := by omega
            rw [e, List.take_succ_cons]
            congr 1
            rw [List.take_add, hd, List.take_succ_cons]
          · intro z hz
            have := spanLen_take (· == 48) r z hz
            simpa using this
        · cases h
      · cases h
    · cases h

/-! ### strings -/

/-- a body as the scanner's string loop accepts it: characters other than `"` and `\`, and
    backslashes followed by a match of `RE_ESCAPE`; the flag says whether there is an escape -/
inductive SBody : Text → Bool → Prop
  | nil : SBody [] false
  | char (c : Nat) {r : Text} {e : Bool} : c ≠ 92 → c ≠ 34 → SBody r e → SBody (c :: r) e
  | esc {x r : Text} {e : Bool} : Unescape.escapeLen x = some x.length → SBody r e →
      SBody (92 :: (x ++ r)) true

theorem stringLoop_inv (kind : TK) : ∀ (n : Nat) (body : Text) (esc : Bool) (s s' : St) (b : Bool),
    stringLoop kind n body esc s = .ok b s' →
    b = true ∧ ∃ more e v, SBody more e ∧ s.rest = more ++ 34 :: s'.rest ∧ out s' = out s ++ [(kind, v)] ∧
      (if (esc || e) = true then Unescape.unescape (body.reverse ++ more) = .ok v
        else v = body.reverse ++ more)
  | 0, _, _, _, _, _, h => by simp [stringLoop] at h
  | n + 1, body, esc, s, s', b, h => by
    cases hr : s.rest with
    | nil => simp [stringLoop, hr] at h
    | cons c r =>
      by_cases h92 : c = 92
      · subst h92
        cases hk : mEscape r with
        | none => simp [stringLoop, hr, hk, error] at h
        | some k =>
          rw [stringLoop_esc kind n body esc s r k hr hk] at h
          obtain ⟨hb, more, e, v, hsb, hrest, hout, hv⟩ := stringLoop_inv kind n _ _ _ _ _ h
          obtain ⟨_, hk2, hk3⟩ := escapeLen_some hk
          have hlen : (r.take k).length = k := by simp [List.length_take]; omega
          refine ⟨hb, 92 :: (r.take k ++ more), true, v, .esc (by rw [hlen]; exact hk3) hsb, ?_, ?_, ?_⟩
          · simp only [adv_rest, hr, List.drop_succ_cons, List.drop_zero] at hrest
            rw [List.cons_append, List.append_assoc, ← hrest, List.take_append_drop]
          · simpa using hout
          · simp only [Bool.true_or, ↓reduceIte, List.reverse_append, List.reverse_cons,
              List.reverse_reverse, List.append_assoc, List.cons_append, List.nil_append,
              Bool.or_true] at hv ⊢
            exact hv
      · by_cases h34 : c = 34
        · subst h34
          refine ⟨?_, [], false, ?_⟩
          · simp only [stringLoop, hr] at h
            split at h
            · split at h
              · cases h; rfl
              · cases h
              · cases h
            · cases h; rfl
          · cases esc with
            | false =>
              rw [stringLoop_close_raw kind n body s r hr] at h
              cases h
              exact ⟨body.reverse, .nil, by simp [hr], by simp, by simp⟩
            | true =>
              cases hu : Unescape.unescape body.reverse with
              | ok v =>
                rw [stringLoop_close_esc kind n body s r v hr hu] at h
                cases h
                exact ⟨v, .nil, by simp [hr], by simp, by simpa using hu⟩
              | error e => simp [stringLoop, hr, hu] at h
              | exc nm => simp [stringLoop, hr, hu] at h
        · rw [stringLoop_plain kind n body esc s c r hr h92 h34] at h
          obtain ⟨hb, more, e, v, hsb, hrest, hout, hv⟩ := stringLoop_inv kind n _ _ _ _ _ h
          refine ⟨hb, c :: more, e, v, .char c h92 h34 hsb, ?_, by simpa using hout, ?_⟩
          · simp only [adv_rest, hr, List.drop_succ_cons, List.drop_zero] at hrest
            rw [hrest]; rfl
          · simpa using hv

/-- a scanned body with its decoded value is a `StrBody` -/
theorem strBody_of_spec : ∀ {body : Text} {e : Bool}, SBody body e → ∀ v,
    Unescape.specUnescape body = some v → StrBody body v := by
  intro body e h
  induction h with
  | nil =>
    intro v hv
    rw [Unescape.specUnescape_nil] at hv
    cases hv
    exact .nil
  | @char c r e h92 h34 _ ih =>
    intro v hv
    rw [Unescape.specUnescape_cons_char r h92] at hv
    cases hs : Unescape.specUnescape r with
    | none => rw [hs] at hv; cases hv
    | some v' =>
      rw [hs] at hv; cases hv
      exact .char c h92 h34 (ih v' hs)
  | @esc x r e hx _ ih =>
    intro v hv
    obtain ⟨ov, hsp⟩ := Unescape.specEscape_of_escapeLen hx
    have hsp' := Unescape.specEscape_append r hsp
    cases ov with
    | none => rw [Unescape.specUnescape_esc_range hsp'] at hv; cases hv
    | some cp =>
      rw [Unescape.specUnescape_esc_some hsp', List.drop_left] at hv
      cases hs : Unescape.specUnescape r with
      | none => rw [hs] at hv; cases hv
      | some v' =>
        rw [hs] at hv; cases hv
        obtain ⟨e', rest, he, hl, hesc⟩ := Unescape.escape_of_specEscape hsp
        have : e' = x := by
          have h1 : e' = x.take e'.length := by rw [he]; simp
          rw [h1, hl, List.take_length]
        subst this
        exact .esc hesc (ih v' hs)

theorem strBody_plain : ∀ {body : Text}, SBody body false → StrBody body body := by
  intro body h
  generalize hf : false = f at h
  induction h with
  | nil => exact .nil
  | char c h92 h34 _ ih => exact .char c h92 h34 (ih hf)
  | esc _ _ _ => cases hf

theorem strBody_of_loop {more v : Text} {e : Bool} (hsb : SBody more e)
    (hv : if (false || e) = true then Unescape.unescape ([] ++ more) = .ok v else v = [] ++ more) :
    StrBody more v := by
  cases e with
  | false =>
    simp only [Bool.or_self, Bool.false_eq_true, ↓reduceIte, List.nil_append] at hv
    subst hv
    exact strBody_plain hsb
  | true =>
    simp only [Bool.or_true, ↓reduceIte, List.nil_append] at hv
    exact strBody_of_spec hsb v (Unescape.spec_of_unescape hv)

theorem acceptString_inv {s s' : St} {b : Bool} (h : acceptString s = .ok b s') :
    (b = false ∧ s' = s) ∨ (b = true ∧ ∃ v, Stp s s' [(.string, v)]) := by
  unfold acceptString at h
  by_cases hp : s.peek = some 34
  · rw [if_pos hp] at h
    obtain ⟨r, hr⟩ := peek_inv hp
    obtain ⟨hb, more, e, v, hsb, hrest, hout, hv⟩ := stringLoop_inv _ _ _ _ _ _ _ h
    refine .inr ⟨hb, v, by rw [hout]; rfl, ?_⟩
    simp only [adv_rest, hr, List.drop_succ_cons, List.drop_zero] at hrest
    rw [hr, hrest]
    have : 34 :: (more ++ 34 :: s'.rest) = (34 :: (more ++ [34])) ++ s'.rest := by simp
    rw [this]
    exact .tok _ ⟨more, rfl, strBody_of_loop hsb hv⟩ (.nil _)
  · rw [if_neg hp] at h
    cases h
    exact .inl ⟨rfl, rfl⟩

theorem acceptCIString_inv {s s' : St} {b : Bool} (h : acceptCIString s = .ok b s') :
    (b = false ∧ s' = s) ∨ (b = true ∧ ∃ v, Stp s s' [(.stringCI, v)]) := by
  unfold acceptCIString at h
  by_cases hp : s.peek = some 94
  · rw [if_pos hp] at h
    obtain ⟨r, hr⟩ := peek_inv hp
    simp only at h
    generalize hs2 : skipTrivia { s.adv 1 with start := (s.adv 1).pos } = s2 at h
    by_cases hq : s2.peek = some 34
    · rw [if_pos hq] at h
      obtain ⟨r2, hr2⟩ := peek_inv hq
      obtain ⟨hb, more, e, v, hsb, hrest, hout, hv⟩ := stringLoop_inv _ _ _ _ _ _ _ h
      have htr := skipTrivia_tr { s.adv 1 with start := (s.adv 1).pos } (by rw [hs2, hr2]; simp)
      rw [hs2] at htr
      obtain ⟨ws, hws, hw⟩ := htr
      simp only [adv_rest, hr, List.drop_succ_cons, List.drop_zero] at hw
      refine .inr ⟨hb, v, ?_, ?_⟩
      · have : out s2 = out s := by rw [← hs2, out_skipTrivia]; rfl
        rw [hout, ← this]; rfl
      · simp only [adv_rest, hr2, List.drop_succ_cons, List.drop_zero] at hrest
        rw [hr, hw, hr2, hrest]
        have : 94 :: (ws ++ 34 :: (more ++ 34 :: s'.rest)) =
            (94 :: (ws ++ 34 :: (more ++ [34]))) ++ s'.rest := by simp
        rw [this]
        exact .tok _ ⟨ws, more, hws, rfl, strBody_of_loop hsb hv⟩ (.nil _)
    · rw [if_neg hq] at h
      unfold error at h
      cases h
  · rw [if_neg hp] at h
    cases h
    exact .inl ⟨rfl, rfl⟩

/-! ### postfix operators -/

theorem peek_ne {s : St} {c : Nat} (h : s.peek = some c) : s.rest ≠ [] := by
  obtain ⟨r, hr⟩ := peek_inv h
  simp [hr]

theorem stp_peek_char (s : St) (c : Nat) (kind : TK) (hp : s.peek = some c)
    (h1 : kind ≠ .string) (h2 : kind ≠ .stringCI) : Stp s ((s.adv 1).emit kind [c]) [(kind, [c])] := by
  obtain ⟨r, hr⟩ := peek_inv hp
  exact stp_char s c r kind hr h1 h2

theorem boundsLoop_inv : ∀ (n : Nat) (s0 s' : St), boundsLoop n s0 = .ok () s' → s'.rest ≠ [] →
    ∃ items : List (Option Text), (∀ w, some w ∈ items → IsDigits w) ∧ Stp s0 s' (items.map itemKV')
  | 0, _, _, h, _ => by simp [boundsLoop] at h
  | n + 1, s0, s', h, hne => by
    simp only [boundsLoop] at h
    by_cases hp : (skipTrivia s0).peek = some 44
    · rw [if_pos hp] at h
      obtain ⟨items, hv, hst⟩ := boundsLoop_inv n _ _ h hne
      refine ⟨none :: items, ?_, ?_⟩
      · intro w hw
        simp only [List.mem_cons, reduceCtorEq, false_or] at hw
        exact hv w hw
      · exact ((skipTrivia_stp s0 (peek_ne hp)).trans
          ((stp_peek_char _ 44 .comma hp (by decide) (by decide)).trans hst)).cast (by simp [itemKV'])
    · rw [if_neg hp] at h
      cases hm : mNumber (skipTrivia s0).rest with
      | none =>
        rw [hm] at h
        cases h
        exact ⟨[], by simp, (skipTrivia_stp s0 hne).cast (by simp)⟩
      | some k =>
        rw [hm] at h
        simp only at h
        obtain ⟨items, hv, hst⟩ := boundsLoop_inv n _ _ h hne
        obtain ⟨k1, k2, k3⟩ := mNumber_some hm
        refine ⟨some ((skipTrivia s0).rest.take k) :: items, ?_, ?_⟩
        · intro w hw
          simp only [List.mem_cons, Option.some.injEq] at hw
          rcases hw with rfl | hw
          · exact k3
          · exact hv w hw
        · have hne0 : (skipTrivia s0).rest ≠ [] := by
            intro e; rw [e] at k2; simp at k2; omega
          exact ((skipTrivia_stp s0 hne0).trans
            ((stp_emit _ k .number (by decide) (by decide)).trans hst)).cast (by simp [itemKV'])

theorem acceptPostfixOp_inv {s0 s' : St} {b : Bool} (h : acceptPostfixOp s0 = .ok b s')
    (hne : s'.rest ≠ []) :
    (b = false ∧ Stp s0 s' []) ∨ (b = true ∧ ∃ p : CPost, p.Valid ∧ Stp s0 s' p.kv) := by
  unfold acceptPostfixOp at h
  simp only at h
  by_cases h63 : (skipTrivia s0).peek = some 63
  · rw [if_pos h63] at h
    cases h
    exact .inr ⟨rfl, .opt, trivial, (skipTrivia_stp s0 (peek_ne h63)).trans
      (stp_peek_char _ 63 .optionOp h63 (by decide) (by decide))⟩
  · rw [if_neg h63] at h
    by_cases h42 : (skipTrivia s0).peek = some 42
    · rw [if_pos h42] at h
      cases h
      exact .inr ⟨rfl, .rep, trivial, (skipTrivia_stp s0 (peek_ne h42)).trans
        (stp_peek_char _ 42 .repeatOp h42 (by decide) (by decide))⟩
    · rw [if_neg h42] at h
      by_cases h43 : (skipTrivia s0).peek = some 43
      · rw [if_pos h43] at h
        cases h
        exact .inr ⟨rfl, .rep1, trivial, (skipTrivia_stp s0 (peek_ne h43)).trans
          (stp_peek_char _ 43 .repeatOnceOp h43 (by decide) (by decide))⟩
      · rw [if_neg h43] at h
        by_cases h123 : (skipTrivia s0).peek = some 123
        · rw [if_pos h123] at h
          replace h := bind_inv h; obtain ⟨_, s2, hb, h⟩ := h
          replace h := bind_inv h; obtain ⟨_, s3, ht, h⟩ := h
          replace h := bind_inv h; obtain ⟨_, s4, he, h⟩ := h
          obtain ⟨rfl, rfl⟩ := pure_inv h
          have st4 := expect_inv he (by decide) (by decide)
          have hne3 := st4.ne hne
          have st3 := triv_stp ht hne3
          have hne2 := st3.ne hne3
          obtain ⟨items, hv, st2⟩ := boundsLoop_inv _ _ _ hb hne2
          refine .inr ⟨rfl, .braces items, hv, ?_⟩
          exact ((skipTrivia_stp s0 (peek_ne h123)).trans
            ((stp_peek_char _ 123 .lbrace h123 (by decide) (by decide)).trans
              (st2.trans (st3.trans st4)))).cast (by simp [CPost.kv])
        · rw [if_neg h123] at h
          cases h
          exact .inl ⟨rfl, skipTrivia_stp s0 hne⟩

theorem postfixLoop_inv : ∀ (n : Nat) (s s' : St), postfixLoop n s = .ok () s' → s'.rest ≠ [] →
    ∃ posts : List CPost, (∀ p ∈ posts, p.Valid) ∧ Stp s s' (posts.map CPost.kv).flatten
  | 0, _, _, h, _ => by simp [postfixLoop] at h
  | n + 1, s, s', h, hne => by
    simp only [postfixLoop] at h
    obtain ⟨b, s1, h1, h2⟩ := bind_inv h
    cases b with
    | false =>
      simp only [Bool.false_eq_true, ↓reduceIte] at h2
      obtain ⟨_, rfl⟩ := pure_inv h2
      rcases acceptPostfixOp_inv h1 hne with ⟨_, st⟩ | ⟨hb, _⟩
      · exact ⟨[], by simp, st.cast (by simp)⟩
      · cases hb
    | true =>
      simp only [↓reduceIte] at h2
      obtain ⟨posts, hv, st2⟩ := postfixLoop_inv n _ _ h2 hne
      rcases acceptPostfixOp_inv h1 (st2.ne hne) with ⟨hb, _⟩ | ⟨_, p, hp, st⟩
      · cases hb
      · refine ⟨p :: posts, ?_, (st.trans st2).cast (by simp)⟩
        intro q hq
        simp only [List.mem_cons] at hq
        rcases hq with rfl | hq
        · exact hp
        · exact hv q hq

theorem acceptPostfixOps_inv {s s' : St} (h : acceptPostfixOps s = .ok () s') (hne : s'.rest ≠ []) :
    ∃ posts : List CPost, (∀ p ∈ posts, p.Valid) ∧ Stp s s' (posts.map CPost.kv).flatten :=
  postfixLoop_inv _ _ _ h hne

/-! ### terminals -/

theorem mMatch_ne {m : Text → Option Nat} {t : Text} {n : Nat} (_h : m t = some n) (h1 : 1 ≤ n)
    (h2 : n ≤ t.length) : t ≠ [] := by
  intro e; rw [e] at h2; simp at h2; omega

theorem scanIdent_inv {s s' : St} {k : Option TK} (h : scanIdent s = .ok k s') :
    (k = none ∧ s' = s) ∨
      ∃ name, IsIdent name ∧ k = some (keywordKind name) ∧ Stp s s' [(keywordKind name, name)] := by
  unfold scanIdent at h
  cases hm : mIdentifier s.rest with
  | none => rw [hm] at h; cases h; exact .inl ⟨rfl, rfl⟩
  | some n =>
    rw [hm] at h
    cases h
    exact .inr ⟨s.rest.take n, mIdentifier_inv hm, rfl,
      stp_emit s n _ (keywordKind_ne _).1 (keywordKind_ne _).2⟩

theorem optInteger_inv {s s' : St} (h : optInteger s = .ok () s') (hne : s'.rest ≠ []) :
    ∃ a : Option Text, (∀ w, a = some w → IsIntTok w) ∧ Stp s s' (optKV .integer a) := by
  unfold optInteger at h
  obtain ⟨b, s1, h1, h2⟩ := bind_inv h
  rcases scanEmit_inv h1 with ⟨rfl, _, rfl⟩ | ⟨rfl, n, hm, rfl⟩
  · simp only [Bool.false_eq_true, ↓reduceIte] at h2
    obtain ⟨_, rfl⟩ := pure_inv h2
    exact ⟨none, by simp, (Stp.refl _).cast (by simp [optKV])⟩
  · simp only [↓reduceIte] at h2
    refine ⟨some (s.rest.take n), ?_, ?_⟩
    · intro w hw; cases hw; exact mInteger_inv hm
    · exact ((stp_emit s n .integer (by decide) (by decide)).trans (triv_stp h2 hne)).cast (by simp [optKV])

/-- the tokens of `[a..b]` -/
def sliceTailKV (a b : Option Text) : List KV :=
  [(.lbracket, [91])] ++ optKV .integer a ++ [(.rangeOp, [46, 46])] ++ optKV .integer b ++ [(.rbracket, [93])]

theorem stp_lit {lit : Text} {kind : TK} {k : EK} {s s' : St}
    (h : scanOrError (mLit lit) kind k s = .ok () s') (h1 : kind ≠ .string) (h2 : kind ≠ .stringCI) :
    Stp s s' [(kind, lit)] := by
  obtain ⟨n, hm, rfl⟩ := scanOrError_inv h
  have e := mLit_inv hm
  have := stp_emit s n kind h1 h2
  rw [e] at this ⊢
  exact this

theorem stp_emit_lit {lit : Text} {kind : TK} {s : St} {n : Nat} (hm : mLit lit s.rest = some n)
    (h1 : kind ≠ .string) (h2 : kind ≠ .stringCI) :
    Stp s ((s.adv n).emit kind (s.rest.take n)) [(kind, lit)] := by
  have e := mLit_inv hm
  have := stp_emit s n kind h1 h2
  rw [e] at this ⊢
  exact this

theorem peekTail_inv {s s' : St} {b : Bool} (h : peekTail s = .ok b s') (hne : s'.rest ≠ []) :
    b = true ∧ (Stp s s' [] ∨
      ∃ a c : Option Text, (∀ w, a = some w → IsIntTok w) ∧ (∀ w, c = some w → IsIntTok w) ∧
        Stp s s' (sliceTailKV a c)) := by
  unfold peekTail at h
  replace h := bind_inv h; obtain ⟨_, s1, h1, h⟩ := h
  replace h := bind_inv h; obtain ⟨b1, s2, h2, h⟩ := h
  rcases optChar_inv h2 (by decide) (by decide) with ⟨rfl, rfl⟩ | ⟨rfl, st2⟩
  · simp only [Bool.false_eq_true, ↓reduceIte] at h
    obtain ⟨rfl, rfl⟩ := pure_inv h
    exact ⟨rfl, .inl (triv_stp h1 hne)⟩
  · simp only [↓reduceIte] at h
    replace h := bind_inv h; obtain ⟨_, s3, h3, h⟩ := h
    replace h := bind_inv h; obtain ⟨_, s4, h4, h⟩ := h
    replace h := bind_inv h; obtain ⟨_, s5, h5, h⟩ := h
    replace h := bind_inv h; obtain ⟨_, s6, h6, h⟩ := h
    replace h := bind_inv h; obtain ⟨_, s7, h7, h⟩ := h
    replace h := bind_inv h; obtain ⟨_, s8, h8, h⟩ := h
    obtain ⟨rfl, rfl⟩ := pure_inv h
    have st8 := expect_inv h8 (by decide) (by decide)
    have n7 := st8.ne hne
    obtain ⟨c, hc, st7⟩ := optInteger_inv h7 n7
    have n6 := st7.ne n7
    have st6 := triv_stp h6 n6
    have n5 := st6.ne n6
    have st5 := stp_lit h5 (by decide) (by decide)
    have n4 := st5.ne n5
    obtain ⟨a, ha, st4⟩ := optInteger_inv h4 n4
    have n3 := st4.ne n4
    have st3 := triv_stp h3 n3
    have n2 := st3.ne n3
    have n1 := st2.ne n2
    have st1 := triv_stp h1 n1
    refine ⟨rfl, .inr ⟨a, c, ha, hc, ?_⟩⟩
    exact (st1.trans (st2.trans (st3.trans (st4.trans (st5.trans (st6.trans (st7.trans st8))))))).cast
      (by simp [sliceTailKV, sDOTS])

theorem charRange_inv {s s' : St} {b : Bool} (h : charRange s = .ok b s') :
    (b = false ∧ s' = s) ∨
      (b = true ∧ ∃ a c, IsCharLit a ∧ IsCharLit c ∧
        Stp s s' [(.char, a), (.rangeOp, [46, 46]), (.char, c)]) := by
  unfold charRange at h
  replace h := bind_inv h; obtain ⟨b1, s1, h1, h⟩ := h
  rcases scanEmit_inv h1 with ⟨rfl, _, rfl⟩ | ⟨rfl, n, hm, rfl⟩
  · simp only [Bool.false_eq_true, ↓reduceIte] at h
    obtain ⟨rfl, rfl⟩ := pure_inv h
    exact .inl ⟨rfl, rfl⟩
  · simp only [↓reduceIte] at h
    replace h := bind_inv h; obtain ⟨_, s2, h2, h⟩ := h
    replace h := bind_inv h; obtain ⟨_, s3, h3, h⟩ := h
    replace h := bind_inv h; obtain ⟨_, s4, h4, h⟩ := h
    replace h := bind_inv h; obtain ⟨_, s5, h5, h⟩ := h
    obtain ⟨rfl, rfl⟩ := pure_inv h
    obtain ⟨n5, hm5, rfl⟩ := scanOrError_inv h5
    obtain ⟨k1, k2, k3⟩ := mChar_some hm5
    have n4 : s4.rest ≠ [] := mMatch_ne hm5 k1 k2
    have st5 := stp_emit s4 n5 .char (by decide) (by decide)
    have st4 := triv_stp h4 n4
    have n3 := st4.ne n4
    have st3 := stp_lit h3 (by decide) (by decide)
    have n2 := st3.ne n3
    have st2 := triv_stp h2 n2
    have st1 := stp_emit s n .char (by decide) (by decide)
    exact .inr ⟨rfl, _, _, (mChar_some hm).2.2, k3,
      (st1.trans (st2.trans (st3.trans (st4.trans st5)))).cast (by simp [sDOTS])⟩

/-- what the recursive call `accept_expression` has to deliver -/
def RecInv (rec : M Unit) : Prop := ∀ s s', rec s = .ok () s' → s'.rest ≠ [] →
  ∃ (bar : Bool) (e : CExpr), e.Valid ∧ Stp s s' (barKV bar ++ e.kv)

theorem acceptTerminal_inv {rec : M Unit} (hrec : RecInv rec) {s s' : St} {b : Bool}
    (h : acceptTerminal rec s = .ok b s') (hne : s'.rest ≠ []) :
    (b = false ∧ s' = s) ∨ (b = true ∧ ∃ nd : CNode, nd.Valid ∧ Stp s s' nd.kv) := by
  unfold acceptTerminal at h
  replace h := bind_inv h; obtain ⟨b1, s1, h1, h⟩ := h
  rcases scanEmit_inv h1 with ⟨rfl, _, rfl⟩ | ⟨rfl, n, hm, rfl⟩
  · simp only [Bool.false_eq_true, ↓reduceIte] at h
    replace h := bind_inv h; obtain ⟨b2, s2, h2, h⟩ := h
    rcases scanEmit_inv h2 with ⟨rfl, _, rfl⟩ | ⟨rfl, n, hm, rfl⟩
    · simp only [Bool.false_eq_true, ↓reduceIte] at h
      replace h := bind_inv h; obtain ⟨k, s3, h3, h⟩ := h
      rcases scanIdent_inv h3 with ⟨rfl, rfl⟩ | ⟨name, hid, rfl, st3⟩
      · simp only at h
        replace h := bind_inv h; obtain ⟨b4, s4, h4, h⟩ := h
        rcases acceptString_inv h4 with ⟨rfl, rfl⟩ | ⟨rfl, v, st4⟩
        · simp only [Bool.false_eq_true, ↓reduceIte] at h
          replace h := bind_inv h; obtain ⟨b5, s5, h5, h⟩ := h
          rcases acceptCIString_inv h5 with ⟨rfl, rfl⟩ | ⟨rfl, v, st5⟩
          · simp only [Bool.false_eq_true, ↓reduceIte] at h
            rcases charRange_inv h with ⟨rfl, rfl⟩ | ⟨rfl, a, c, ha, hc, st⟩
            · exact .inl ⟨rfl, rfl⟩
            · exact .inr ⟨rfl, .range a c, ⟨ha, hc⟩, st⟩
          · simp only [↓reduceIte] at h
            obtain ⟨rfl, rfl⟩ := pure_inv h
            exact .inr ⟨rfl, .ci v, trivial, st5⟩
        · simp only [↓reduceIte] at h
          obtain ⟨rfl, rfl⟩ := pure_inv h
          exact .inr ⟨rfl, .str v, trivial, st4⟩
      · simp only at h
        by_cases hk : keywordKind name = .peek
        · rw [if_pos hk] at h
          have hname := keywordKind_peek.1 hk
          subst hname
          obtain ⟨rfl, hcase⟩ := peekTail_inv h hne
          rcases hcase with st | ⟨a, c, ha, hc, st⟩
          · exact .inr ⟨rfl, .ident sPEEK, hid, (st3.trans st).cast (by simp [CNode.kv])⟩
          · refine .inr ⟨rfl, .slice a c, ⟨ha, hc⟩, (st3.trans st).cast ?_⟩
            rw [hk]
            simp [CNode.kv, sliceTailKV]
        · rw [if_neg hk] at h
          obtain ⟨rfl, rfl⟩ := pure_inv h
          exact .inr ⟨rfl, .ident name, hid, st3⟩
    · simp only [↓reduceIte] at h
      replace h := bind_inv h; obtain ⟨_, s3, h3, h⟩ := h
      replace h := bind_inv h; obtain ⟨_, s4, h4, h⟩ := h
      replace h := bind_inv h; obtain ⟨_, s5, h5, h⟩ := h
      replace h := bind_inv h; obtain ⟨_, s6, h6, h⟩ := h
      replace h := bind_inv h; obtain ⟨_, s7, h7, h⟩ := h
      replace h := bind_inv h; obtain ⟨_, s8, h8, h⟩ := h
      obtain ⟨rfl, rfl⟩ := pure_inv h
      have st8 := expect_inv h8 (by decide) (by decide)
      have n7 := st8.ne hne
      have st7 := triv_stp h7 n7
      have n6 := st7.ne n7
      obtain ⟨bar, e, he, st6⟩ := hrec _ _ h6 n6
      have n5 := st6.ne n6
      have st5 := triv_stp h5 n5
      have n4 := st5.ne n5
      have st4 := expect_inv h4 (by decide) (by decide)
      have n3 := st4.ne n4
      have st3 := triv_stp h3 n3
      have st2 := stp_emit_lit (kind := .push) hm (by decide) (by decide)
      exact .inr ⟨rfl, .push bar e, he,
        (st2.trans (st3.trans (st4.trans (st5.trans (st6.trans (st7.trans st8)))))).cast
          (by simp [CNode.kv])⟩
  · simp only [↓reduceIte] at h
    replace h := bind_inv h; obtain ⟨_, s3, h3, h⟩ := h
    replace h := bind_inv h; obtain ⟨_, s4, h4, h⟩ := h
    replace h := bind_inv h; obtain ⟨_, s5, h5, h⟩ := h
    replace h := bind_inv h; obtain ⟨b6, s6, h6, h⟩ := h
    replace h := bind_inv h; obtain ⟨_, s7, h7, h⟩ := h
    replace h := bind_inv h; obtain ⟨_, s8, h8, h⟩ := h
    obtain ⟨rfl, rfl⟩ := pure_inv h
    have st8 := expect_inv h8 (by decide) (by decide)
    have n7 := st8.ne hne
    have st7 := triv_stp h7 n7
    have n6 := st7.ne n7
    have st2 := stp_emit_lit (kind := .pushLiteral) hm (by decide) (by decide)
    obtain ⟨str, st6⟩ : ∃ str : Option Text, Stp s5 s6 (optKV .string str) := by
      rcases acceptString_inv h6 with ⟨_, rfl⟩ | ⟨_, v, st⟩
      · exact ⟨none, (Stp.refl _).cast (by simp [optKV])⟩
      · exact ⟨some v, st.cast (by simp [optKV])⟩
    have n5 := st6.ne n6
    have st5 := triv_stp h5 n5
    have n4 := st5.ne n5
    have st4 := expect_inv h4 (by decide) (by decide)
    have n3 := st4.ne n4
    have st3 := triv_stp h3 n3
    exact .inr ⟨rfl, .pushLit str, trivial,
      (st2.trans (st3.trans (st4.trans (st5.trans (st6.trans (st7.trans st8)))))).cast
        (by simp [CNode.kv])⟩

/-! ### terms -/

theorem acceptTag_inv {s s' : St} (h : acceptTag s = .ok () s') (hne : s'.rest ≠ []) :
    ∃ tag : Option Text, (match tag with | some t => IsTagName t | none => True) ∧
      Stp s s' (tagKV tag) := by
  unfold acceptTag at h
  replace h := bind_inv h; obtain ⟨b, s1, h1, h⟩ := h
  rcases scanEmit_inv h1 with ⟨rfl, _, rfl⟩ | ⟨rfl, n, hm, rfl⟩
  · simp only [Bool.false_eq_true, ↓reduceIte] at h
    obtain ⟨_, rfl⟩ := pure_inv h
    exact ⟨none, trivial, (Stp.refl _).cast (by simp [tagKV])⟩
  · simp only [↓reduceIte] at h
    replace h := bind_inv h; obtain ⟨_, s2, h2, h⟩ := h
    replace h := bind_inv h; obtain ⟨_, s3, h3, h⟩ := h
    have st4 := triv_stp h hne
    have n3 := st4.ne hne
    have st3 := expect_inv h3 (by decide) (by decide)
    have n2 := st3.ne n3
    have st2 := triv_stp h2 n2
    obtain ⟨name, hn, htag⟩ := mTag_inv hm
    have st1 := stp_emit s n .tag (by decide) (by decide)
    rw [hn] at st1 st2
    exact ⟨some name, htag, (st1.trans (st2.trans (st3.trans st4))).cast (by simp [tagKV])⟩

theorem prefixLoop_inv : ∀ (n : Nat) (s s' : St), prefixLoop n s = .ok () s' → s'.rest ≠ [] →
    ∃ pre : List Bool, Stp s s' (pre.map preKV)
  | 0, _, _, h, _ => by simp [prefixLoop] at h
  | n + 1, s, s', h, hne => by
    simp only [prefixLoop] at h
    by_cases h38 : s.peek = some 38
    · rw [if_pos h38] at h
      obtain ⟨pre, st⟩ := prefixLoop_inv n _ _ h hne
      have st1 := stp_peek_char s 38 .posPred h38 (by decide) (by decide)
      have st2 := skipTrivia_stp ((s.adv 1).emit .posPred [38]) (st.ne hne)
      exact ⟨true :: pre, (st1.trans (st2.trans st)).cast (by simp [preKV])⟩
    · rw [if_neg h38] at h
      by_cases h33 : s.peek = some 33
      · rw [if_pos h33] at h
        obtain ⟨pre, st⟩ := prefixLoop_inv n _ _ h hne
        have st1 := stp_peek_char s 33 .negPred h33 (by decide) (by decide)
        have st2 := skipTrivia_stp ((s.adv 1).emit .negPred [33]) (st.ne hne)
        exact ⟨false :: pre, (st1.trans (st2.trans st)).cast (by simp [preKV])⟩
      · rw [if_neg h33] at h
        cases h
        exact ⟨[], (Stp.refl _).cast (by simp)⟩

theorem acceptTerm_inv {rec : M Unit} (hrec : RecInv rec) {s s' : St}
    (h : acceptTerm rec s = .ok () s') (hne : s'.rest ≠ []) :
    ∃ ct : CTerm, ct.Valid ∧ Stp s s' ct.kv := by
  unfold acceptTerm at h
  replace h := bind_inv h; obtain ⟨_, s1, h1, h⟩ := h
  replace h := bind_inv h; obtain ⟨_, s2, h2, h⟩ := h
  replace h := bind_inv h; obtain ⟨b, s3, h3, h⟩ := h
  cases b with
  | true =>
    simp only [↓reduceIte] at h
    obtain ⟨posts, hp, st4⟩ := acceptPostfixOps_inv h hne
    have n3 := st4.ne hne
    rcases acceptTerminal_inv hrec h3 n3 with ⟨hb, _⟩ | ⟨_, nd, hnd, st3⟩
    · cases hb
    · have n2 := st3.ne n3
      obtain ⟨pre, st2⟩ := prefixLoop_inv _ _ _ h2 n2
      have n1 := st2.ne n2
      obtain ⟨tag, htag, st1⟩ := acceptTag_inv h1 n1
      exact ⟨.mk tag pre nd posts, ⟨htag, hnd, hp⟩,
        (st1.trans (st2.trans (st3.trans st4))).cast (by simp [CTerm.kv])⟩
  | false =>
    simp only [Bool.false_eq_true, ↓reduceIte] at h
    replace h := bind_inv h; obtain ⟨_, s4, h4, h⟩ := h
    replace h := bind_inv h; obtain ⟨_, s5, h5, h⟩ := h
    replace h := bind_inv h; obtain ⟨_, s6, h6, h⟩ := h
    replace h := bind_inv h; obtain ⟨_, s7, h7, h⟩ := h
    replace h := bind_inv h; obtain ⟨_, s8, h8, h⟩ := h
    obtain ⟨posts, hp, st9⟩ := acceptPostfixOps_inv h hne
    have n8 := st9.ne hne
    have st8 := expect_inv h8 (by decide) (by decide)
    have n7 := st8.ne n8
    have st7 := triv_stp h7 n7
    have n6 := st7.ne n7
    obtain ⟨bar, e, he, st6⟩ := hrec _ _ h6 n6
    have n5 := st6.ne n6
    have st5 := triv_stp h5 n5
    have n4 := st5.ne n5
    have st4 := expect_inv h4 (by decide) (by decide)
    have n3 := st4.ne n4
    rcases acceptTerminal_inv hrec h3 n3 with ⟨_, rfl⟩ | ⟨hb, _⟩
    · have n2 := n3
      obtain ⟨pre, st2⟩ := prefixLoop_inv _ _ _ h2 n2
      have n1 := st2.ne n2
      obtain ⟨tag, htag, st1⟩ := acceptTag_inv h1 n1
      exact ⟨.mk tag pre (.paren bar e) posts, ⟨htag, he, hp⟩,
        (st1.trans (st2.trans (st4.trans (st5.trans (st6.trans (st7.trans (st8.trans st9))))))).cast
          (by simp [CTerm.kv, CNode.kv])⟩
    · cases hb

/-! ### expressions -/

/-- an expression from its first term and the `(operator, term)` pairs behind it -/
def mkCExpr : CTerm → List (Bool × CTerm) → CExpr
  | t, [] => .one t
  | t, (b, t') :: r => .cons t b (mkCExpr t' r)

def tailKV' (tl : List (Bool × CTerm)) : List KV := (tl.map fun x => opKV x.1 :: x.2.kv).flatten

theorem mkCExpr_kv : ∀ (t : CTerm) (tl : List (Bool × CTerm)), (mkCExpr t tl).kv = t.kv ++ tailKV' tl
  | t, [] => by simp [mkCExpr, CExpr.kv, tailKV']
  | t, (b, t') :: r => by
    simp only [mkCExpr, CExpr.kv, mkCExpr_kv t' r, tailKV', List.map_cons, List.flatten_cons]
    simp

theorem mkCExpr_valid : ∀ (t : CTerm) (tl : List (Bool × CTerm)), t.Valid → (∀ x ∈ tl, x.2.Valid) →
    (mkCExpr t tl).Valid
  | t, [], ht, _ => by simpa [mkCExpr, CExpr.Valid] using ht
  | t, (b, t') :: r, ht, hr => by
    simp only [mkCExpr, CExpr.Valid]
    exact ⟨ht, mkCExpr_valid t' r (hr (b, t') (by simp)) (fun x hx => hr x (by simp [hx]))⟩

theorem exprLoop_inv {rec : M Unit} (hrec : RecInv rec) : ∀ (n : Nat) (s s' : St),
    exprLoop rec n s = .ok () s' → s'.rest ≠ [] →
    ∃ tl : List (Bool × CTerm), (∀ x ∈ tl, x.2.Valid) ∧ Stp s s' (tailKV' tl)
  | 0, _, _, h, _ => by simp [exprLoop] at h
  | n + 1, s, s', h, hne => by
    simp only [exprLoop] at h
    replace h := bind_inv h; obtain ⟨_, s1, h1, h⟩ := h
    replace h := bind_inv h; obtain ⟨b2, s2, h2, h⟩ := h
    rcases optChar_inv h2 (by decide) (by decide) with ⟨rfl, rfl⟩ | ⟨rfl, st2⟩
    · simp only [Bool.false_eq_true, ↓reduceIte] at h
      replace h := bind_inv h; obtain ⟨b3, s3, h3, h⟩ := h
      rcases optChar_inv h3 (by decide) (by decide) with ⟨rfl, rfl⟩ | ⟨rfl, st3⟩
      · simp only [Bool.false_eq_true, ↓reduceIte] at h
        obtain ⟨_, rfl⟩ := pure_inv h
        exact ⟨[], by simp, (triv_stp h1 hne).cast (by simp [tailKV'])⟩
      · simp only [↓reduceIte] at h
        replace h := bind_inv h; obtain ⟨_, s4, h4, h⟩ := h
        replace h := bind_inv h; obtain ⟨_, s5, h5, h⟩ := h
        obtain ⟨tl, htl, st6⟩ := exprLoop_inv hrec n _ _ h hne
        have n5 := st6.ne hne
        obtain ⟨ct, hct, st5⟩ := acceptTerm_inv hrec h5 n5
        have n4 := st5.ne n5
        have st4 := triv_stp h4 n4
        have n3 := st4.ne n4
        have n2 := st3.ne n3
        have st1 := triv_stp h1 n2
        refine ⟨(true, ct) :: tl, ?_, (st1.trans (st3.trans (st4.trans (st5.trans st6)))).cast
          (by simp [tailKV', opKV])⟩
        intro x hx
        simp only [List.mem_cons] at hx
        rcases hx with rfl | hx
        · exact hct
        · exact htl x hx
    · simp only [↓reduceIte] at h
      replace h := bind_inv h; obtain ⟨_, s4, h4, h⟩ := h
      replace h := bind_inv h; obtain ⟨_, s5, h5, h⟩ := h
      obtain ⟨tl, htl, st6⟩ := exprLoop_inv hrec n _ _ h hne
      have n5 := st6.ne hne
      obtain ⟨ct, hct, st5⟩ := acceptTerm_inv hrec h5 n5
      have n4 := st5.ne n5
      have st4 := triv_stp h4 n4
      have n3 := st4.ne n4
      have n2 := st2.ne n3
      have st1 := triv_stp h1 n2
      refine ⟨(false, ct) :: tl, ?_, (st1.trans (st2.trans (st4.trans (st5.trans st6)))).cast
        (by simp [tailKV', opKV])⟩
      intro x hx
      simp only [List.mem_cons] at hx
      rcases hx with rfl | hx
      · exact hct
      · exact htl x hx

theorem leadingChoice_inv {s s' : St} (h : leadingChoice s = .ok () s') (hne : s'.rest ≠ []) :
    ∃ bar : Bool, Stp s s' (barKV bar) := by
  unfold leadingChoice at h
  replace h := bind_inv h; obtain ⟨b, s1, h1, h⟩ := h
  rcases optChar_inv h1 (by decide) (by decide) with ⟨rfl, rfl⟩ | ⟨rfl, st1⟩
  · simp only [Bool.false_eq_true, ↓reduceIte] at h
    obtain ⟨_, rfl⟩ := pure_inv h
    exact ⟨false, (Stp.refl _).cast (by simp [barKV])⟩
  · simp only [↓reduceIte] at h
    exact ⟨true, (st1.trans (triv_stp h hne)).cast (by simp [barKV])⟩

theorem exprStep_inv {rec : M Unit} (hrec : RecInv rec) : RecInv (exprStep rec) := by
  intro s s' h hne
  unfold exprStep at h
  replace h := bind_inv h; obtain ⟨_, s1, h1, h⟩ := h
  replace h := bind_inv h; obtain ⟨_, s2, h2, h⟩ := h
  replace h := bind_inv h; obtain ⟨_, s3, h3, h⟩ := h
  obtain ⟨tl, htl, st4⟩ := exprLoop_inv hrec _ _ _ h hne
  have n3 := st4.ne hne
  obtain ⟨ct, hct, st3⟩ := acceptTerm_inv hrec h3 n3
  have n2 := st3.ne n3
  obtain ⟨bar, st2⟩ := leadingChoice_inv h2 n2
  have n1 := st2.ne n2
  have st1 := triv_stp h1 n1
  exact ⟨bar, mkCExpr ct tl, mkCExpr_valid ct tl hct htl,
    (st1.trans (st2.trans (st3.trans st4))).cast (by simp [mkCExpr_kv])⟩

theorem acceptExpression_inv : ∀ fuel : Nat, RecInv (acceptExpression fuel)
  | 0 => by intro s s' h _; simp [acceptExpression] at h
  | fuel + 1 => exprStep_inv (acceptExpression_inv fuel)

/-! ### doc lines -/

theorem findNewline_none_inv : ∀ t : Text, findNewline t = none → ∀ c ∈ t, c ≠ 10 := by
  intro t
  fun_induction findNewline t with
  | case1 => intro _ c hc; cases hc
  | case2 r => intro h; cases h
  | case3 r => intro h; cases h
  | case4 c r h1 h2 ih =>
    intro h x hx
    cases hf : findNewline r with
    | some k => rw [hf] at h; cases h
    | none =>
      simp only [List.mem_cons] at hx
      rcases hx with rfl | hx
      · exact h1
      · exact ih hf x hx

theorem findNewline_some_inv : ∀ (t : Text) (n : Nat), findNewline t = some n →
    (∀ c ∈ t.take n, c ≠ 10) ∧
      ((∃ u, t.drop n = 10 :: u ∧ (t.take n).getLast? ≠ some 13) ∨ ∃ u, t.drop n = 13 :: 10 :: u) := by
  intro t
  fun_induction findNewline t with
  | case1 => intro n h; cases h
  | case2 r => intro n h; cases h; exact ⟨by simp, .inl ⟨r, rfl, by simp⟩⟩
  | case3 r => intro n h; cases h; exact ⟨by simp, .inr ⟨r, rfl⟩⟩
  | case4 c r h1 h2 ih =>
    intro n h
    cases hf : findNewline r with
    | none => rw [hf] at h; cases h
    | some k =>
      rw [hf] at h
      simp only [Option.map_some, Option.some.injEq] at h
      subst h
      obtain ⟨i1, i2⟩ := ih k hf
      have hc10 : c ≠ 10 := h1
      refine ⟨?_, ?_⟩
      · intro x hx
        simp only [List.take_succ_cons, List.mem_cons] at hx
        rcases hx with rfl | hx
        · exact hc10
        · exact i1 x hx
      · rcases i2 with ⟨u, hu, hl⟩ | ⟨u, hu⟩
        · refine .inl ⟨u, by simpa using hu, ?_⟩
          simp only [List.take_succ_cons]
          cases hk : r.take k with
          | nil =>
            simp only [List.getLast?_singleton, ne_eq, Option.some.injEq]
            intro e
            subst e
            have hk0 : k = 0 ∨ r = [] := by
              cases k with
              | zero => exact .inl rfl
              | succ j =>
                cases r with
                | nil => exact .inr rfl
                | cons y r' => simp at hk
            rcases hk0 with rfl | rfl
            · simp only [List.drop_zero] at hu
              exact h2 u rfl hu
            · simp at hu
          | cons y l =>
            rw [List.getLast?_cons_cons, ← hk]
            exact hl
        · exact .inr ⟨u, by simpa using hu⟩

theorem noLF_of_take {t : Text} (h : ∀ c ∈ t, c ≠ 10) : NoLF t := h

/-- the optional blank behind a doc marker: what `docBlank` skips -/
theorem docBlank_inv (s : St) :
    ∃ sp, s.rest = sp ++ (docBlank s).rest ∧ out (docBlank s) = out s ∧
      (sp = [32] ∨ sp = [9] ∨ (sp = [] ∧ s.rest.head? ≠ some 32 ∧ s.rest.head? ≠ some 9)) := by
  unfold docBlank
  cases hr : s.rest with
  | nil => exact ⟨[], by simp [hr], rfl, .inr (.inr ⟨rfl, by simp, by simp⟩)⟩
  | cons c r =>
    simp only
    by_cases hc : (c == 32 || c == 9) = true
    · rw [if_pos hc]
      have : c = 32 ∨ c = 9 := by simpa using hc
      refine ⟨[c], by simp [St.adv, hr], rfl, ?_⟩
      rcases this with rfl | rfl
      · exact .inl rfl
      · exact .inr (.inl rfl)
    · rw [if_neg hc]
      have : ¬ (c = 32 ∨ c = 9) := by simpa using hc
      exact ⟨[], by simp [hr], rfl, .inr (.inr ⟨rfl, by simp; omega, by simp; omega⟩)⟩

theorem docInner_inv {s s' : St} (h : docInner s = .ok () s') :
    ∃ sp l, DocSp sp l ∧ NoLF l ∧ s.rest = sp ++ (l ++ s'.rest) ∧ DocEnd l s'.rest ∧
      out s' = out s ++ [(.commentText, l)] := by
  unfold docInner at h
  simp only at h
  cases h
  obtain ⟨sp, hrest, hout, hsp⟩ := docBlank_inv s
  generalize docBlank s = s1 at hrest hout ⊢
  refine ⟨sp, s1.rest.take ((findNewline s1.rest).getD s1.rest.length), ?_, ?_, ?_, ?_, by simp [hout]⟩
  · -- the blank
    rcases hsp with rfl | rfl | ⟨rfl, h1, h2⟩
    · exact .inl rfl
    · exact .inr (.inl rfl)
    · refine .inr (.inr ⟨rfl, ?_, ?_⟩)
      · simp only [List.nil_append] at hrest
        rw [hrest] at h1
        intro e
        cases hr : s1.rest with
        | nil => rw [hr] at e; simp at e
        | cons c r =>
          rw [hr] at e h1
          cases hn : (findNewline (c :: r)).getD (c :: r).length with
          | zero => rw [hn] at e; simp at e
          | succ k => rw [hn] at e; simp at e; exact h1 (by simp [e])
      · simp only [List.nil_append] at hrest
        rw [hrest] at h2
        intro e
        cases hr : s1.rest with
        | nil => rw [hr] at e; simp at e
        | cons c r =>
          rw [hr] at e h2
          cases hn : (findNewline (c :: r)).getD (c :: r).length with
          | zero => rw [hn] at e; simp at e
          | succ k => rw [hn] at e; simp at e; exact h2 (by simp [e])
  · -- no line feed
    intro x hx
    cases hf : findNewline s1.rest with
    | none =>
      rw [hf] at hx
      simp only [Option.getD_none, List.take_length] at hx
      exact findNewline_none_inv _ hf x hx
    | some k =>
      rw [hf] at hx
      simp only [Option.getD_some] at hx
      exact (findNewline_some_inv _ k hf).1 x hx
  · rw [hrest]; simp
  · simp only [emit_rest, adv_rest]
    cases hf : findNewline s1.rest with
    | none =>
      refine .inl ?_
      simp only [Option.getD_none, List.drop_length]
    | some k =>
      simp only [Option.getD_some]
      rcases (findNewline_some_inv _ k hf).2 with ⟨u, hu, hl⟩ | ⟨u, hu⟩
      · exact .inr (.inl ⟨u, hu, hl⟩)
      · exact .inr (.inr ⟨u, hu⟩)

theorem optModifier_inv {s s' : St} (h : optModifier s = .ok () s') (hne : s'.rest ≠ []) :
    ∃ m : Option Nat, (match m with | some c => c = 95 ∨ c = 64 ∨ c = 36 ∨ c = 33 | none => True) ∧
      Stp s s' (modKV m) := by
  unfold optModifier at h
  replace h := bind_inv h; obtain ⟨b, s1, h1, h⟩ := h
  rcases scanEmit_inv h1 with ⟨rfl, _, rfl⟩ | ⟨rfl, n, hm, rfl⟩
  · simp only [Bool.false_eq_true, ↓reduceIte] at h
    obtain ⟨_, rfl⟩ := pure_inv h
    exact ⟨none, trivial, (Stp.refl _).cast (by simp [modKV])⟩
  · simp only [↓reduceIte] at h
    obtain ⟨c, hc, hcond⟩ := mModifier_inv hm
    have st1 := stp_emit s n .modifier (by decide) (by decide)
    have st2 := triv_stp h hne
    rw [hc] at st1 st2
    exact ⟨some c, hcond, (st1.trans st2).cast (by simp [modKV])⟩

theorem expect_ne {c : Nat} {kind : TK} {k : EK} {s s' : St} (h : expect c kind k s = .ok () s') :
    s.rest ≠ [] := by
  unfold expect at h
  by_cases hp : s.peek = some c
  · exact peek_ne hp
  · rw [if_neg hp] at h; cases h

/-! ### rules -/

theorem ruleTail_inv {s s' : St} {fn : Option Fn} (h : ruleTail s = .ok fn s') :
    (fn = none ∧ s' = skipTrivia s ∧ s'.rest = []) ∨
      (fn = some .grammarRule ∧ (skipTrivia s).rest ≠ [] ∧
        ∃ r : CRule, r.docs = [] ∧ r.Valid ∧ Stp s s' r.headKV) := by
  unfold ruleTail at h
  replace h := bind_inv h; obtain ⟨_, s1, h1, h⟩ := h
  replace h := bind_inv h; obtain ⟨b, s2, h2, h⟩ := h
  rcases scanEmit_inv h2 with ⟨rfl, _, rfl⟩ | ⟨rfl, n, hm, rfl⟩
  · simp only [Bool.false_eq_true, ↓reduceIte] at h
    by_cases he : s2.rest.isEmpty = true
    · rw [if_pos he] at h
      cases h
      exact .inl ⟨rfl, triv_inv h1, by simpa using he⟩
    · rw [if_neg he] at h
      unfold error at h
      cases h
  · simp only [↓reduceIte] at h
    replace h := bind_inv h; obtain ⟨_, s3, h3, h⟩ := h
    replace h := bind_inv h; obtain ⟨_, s4, h4, h⟩ := h
    replace h := bind_inv h; obtain ⟨_, s5, h5, h⟩ := h
    replace h := bind_inv h; obtain ⟨_, s6, h6, h⟩ := h
    replace h := bind_inv h; obtain ⟨_, s7, h7, h⟩ := h
    replace h := bind_inv h; obtain ⟨_, s8, h8, h⟩ := h
    replace h := bind_inv h; obtain ⟨_, s9, h9, h⟩ := h
    obtain ⟨rfl, rfl⟩ := pure_inv h
    have st9 := expect_inv h9 (by decide) (by decide)
    have n8 := expect_ne h9
    obtain ⟨bar, e, he, st8⟩ := acceptExpression_inv _ _ _ h8 n8
    have n7 := st8.ne n8
    have st7 := expect_inv h7 (by decide) (by decide)
    have n6 := st7.ne n7
    obtain ⟨m, hmod, st6⟩ := optModifier_inv h6 n6
    have n5 := st6.ne n6
    have st5 := triv_stp h5 n5
    have n4 := st5.ne n5
    have st4 := expect_inv h4 (by decide) (by decide)
    have n3 := st4.ne n4
    have st3 := triv_stp h3 n3
    have st2 := stp_emit s1 n .identifier (by decide) (by decide)
    obtain ⟨k1, k2⟩ := mIdentifier_some hm
    have st1 := triv_stp h1 (mMatch_ne hm k1 k2)
    refine .inr ⟨rfl, by rw [← triv_inv h1]; exact mMatch_ne hm k1 k2,
      ⟨[], s1.rest.take n, m, bar, e⟩, rfl, ⟨by simp, mIdentifier_inv hm, hmod, he⟩, ?_⟩
    exact (st1.trans (st2.trans (st3.trans (st4.trans (st5.trans (st6.trans (st7.trans
      (st8.trans st9)))))))).cast (by simp [CRule.headKV])

/-! ### the driver loop -/

theorem TrE.refl (t : Text) : TrE t t := .inl (Tr.refl t)

theorem TrE.tr {a b : Text} (h : TrE a b) (hne : b ≠ []) : Tr a b := by
  rcases h with h | ⟨h, _⟩
  · exact h
  · exact absurd h hne

theorem TrE.endc {a : Text} (h : TrE a []) : ∃ ws e, IsTrivia ws ∧ a = ws ++ e ∧ EndC e := by
  rcases h with ⟨ws, hws, rfl⟩ | ⟨_, h⟩
  · exact ⟨ws, [], hws, rfl, .inl rfl⟩
  · exact h

theorem TrE.trans {a b c : Text} (h1 : TrE a b) (h2 : TrE b c) : TrE a c := by
  rcases h1 with ⟨ws, hws, rfl⟩ | ⟨rfl, h1⟩
  · rcases h2 with ⟨ws', hws', rfl⟩ | ⟨rfl, ws', e, hws', rfl, he⟩
    · exact .inl ⟨ws ++ ws', isTrivia_append hws hws', by simp⟩
    · exact .inr ⟨rfl, ws ++ ws', e, isTrivia_append hws hws', by simp, he⟩
  · have hc : c = [] := by
      rcases h2 with ⟨ws', _, h⟩ | ⟨h, _⟩
      · cases ws' with
        | nil => simpa using h.symm
        | cons x w => simp at h
      · exact h
    subst hc
    exact .inr ⟨rfl, h1⟩

def docsKV (k : TK) (m : Text) (docs : List Text) : List KV := (docs.map (docKV k m)).flatten

@[simp] theorem docsKV_nil (k : TK) (m : Text) : docsKV k m [] = [] := rfl

@[simp] theorem docsKV_cons (k : TK) (m l : Text) (ls : List Text) :
    docsKV k m (l :: ls) = (k, m) :: (.commentText, l) :: docsKV k m ls := by
  simp [docsKV, docKV]

/-- from the state `grammar_rule`: trivia, rules with their doc lines, trailing doc lines, the end -/
def RulesFrom (rules : List CRule) (trailing : List Text) (t : Text) : Prop :=
  ∃ ws t1 t2 e, IsTrivia ws ∧ t = ws ++ t1 ∧ CRulesText rules t1 t2 ∧
    DocsText' sRDOC trailing t2 e ∧ EndC e

/-- a doc line in front of what follows: it belongs to the next rule, or to the trailing lines -/
def consDoc (l : Text) : List CRule → List Text → List CRule × List Text
  | r :: rs, tr => ({ r with docs := l :: r.docs } :: rs, tr)
  | [], tr => ([], l :: tr)

def rulesKV (rules : List CRule) : List KV := (rules.map CRule.kv).flatten

theorem consDoc_kv (l : Text) (rules : List CRule) (trailing : List Text) :
    rulesKV (consDoc l rules trailing).1 ++ docsKV .ruleDoc sRDOC (consDoc l rules trailing).2 =
      (.ruleDoc, sRDOC) :: (.commentText, l) :: (rulesKV rules ++ docsKV .ruleDoc sRDOC trailing) := by
  cases rules with
  | nil => simp [consDoc, rulesKV]
  | cons r rs => simp [consDoc, rulesKV, CRule.kv, CRule.headKV, docKV]

theorem consDoc_valid (l : Text) (hl : NoLF l) (rules : List CRule) (trailing : List Text)
    (h1 : ∀ r ∈ rules, r.Valid) (h2 : ∀ x ∈ trailing, NoLF x) :
    (∀ r ∈ (consDoc l rules trailing).1, r.Valid) ∧ ∀ x ∈ (consDoc l rules trailing).2, NoLF x := by
  cases rules with
  | nil =>
    refine ⟨by simp [consDoc], ?_⟩
    intro x hx
    simp only [consDoc, List.mem_cons] at hx
    rcases hx with rfl | hx
    · exact hl
    · exact h2 x hx
  | cons r rs =>
    refine ⟨?_, h2⟩
    intro q hq
    simp only [consDoc, List.mem_cons] at hq
    rcases hq with rfl | hq
    · obtain ⟨v1, v2, v3, v4⟩ := h1 r (by simp)
      refine ⟨?_, v2, v3, v4⟩
      intro x hx
      simp only [List.mem_cons] at hx
      rcases hx with rfl | hx
      · exact hl
      · exact v1 x hx
    · exact h1 q (by simp [hq])

theorem consDoc_text {sp l ws rest : Text} {rules : List CRule} {trailing : List Text}
    (hsp : DocSp sp l) (hws : IsTrivia ws) (hd : DocEnd l rest) (h : RulesFrom rules trailing rest) :
    RulesFrom (consDoc l rules trailing).1 (consDoc l rules trailing).2
      (ws ++ (sRDOC ++ (sp ++ (l ++ rest)))) := by
  obtain ⟨ws', t1, t2, e, hws', rfl, hr, ht, he⟩ := h
  cases rules with
  | nil =>
    have : t1 = t2 := hr
    subst this
    exact ⟨ws, _, _, e, hws, rfl, rfl, ⟨sp, ws', t1, hsp, hws', rfl, hd, ht⟩, he⟩
  | cons r rs =>
    obtain ⟨u1, u2, hdoc, hsc, hrs⟩ := hr
    exact ⟨ws, _, t2, e, hws, rfl, ⟨u1, u2, ⟨sp, ws', t1, hsp, hws', rfl, hd, hdoc⟩, hsc, hrs⟩, ht, he⟩

theorem run_succ_inv {n : Nat} {fn : Fn} {s s' : St} (h : run (n + 1) fn s = .ok () s') :
    ∃ next s1, stateFn fn s = .ok next s1 ∧
      ((next = none ∧ s' = s1) ∨ ∃ fn', next = some fn' ∧ run n fn' s1 = .ok () s') := by
  simp only [run] at h
  replace h := bind_inv h; obtain ⟨next, s1, h1, h⟩ := h
  refine ⟨next, s1, h1, ?_⟩
  cases next with
  | none => simp only at h; exact .inl ⟨rfl, (pure_inv h).2⟩
  | some fn' => exact .inr ⟨fn', rfl, h⟩

def RuleOut (s s' : St) (rules : List CRule) (trailing : List Text) : Prop :=
  (∀ r ∈ rules, r.Valid) ∧ (∀ l ∈ trailing, NoLF l) ∧
    out s' = out s ++ (rulesKV rules ++ docsKV .ruleDoc sRDOC trailing)

theorem run_rules : ∀ n : Nat,
    (∀ s s', run n .grammarRule s = .ok () s' → ∃ rules trailing, RuleOut s s' rules trailing ∧
      ∀ t0, TrE t0 s.rest → RulesFrom rules trailing t0) ∧
    (∀ s s', run n .ruleDocInner s = .ok () s' → ∃ sp l rest rules trailing, DocSp sp l ∧ NoLF l ∧
      s.rest = sp ++ (l ++ rest) ∧ DocEnd l rest ∧ (∀ r ∈ rules, r.Valid) ∧ (∀ x ∈ trailing, NoLF x) ∧
      out s' = out s ++ ((.commentText, l) :: (rulesKV rules ++ docsKV .ruleDoc sRDOC trailing)) ∧
      RulesFrom rules trailing rest)
  | 0 => ⟨fun s s' h => by simp [run] at h, fun s s' h => by simp [run] at h⟩
  | n + 1 => by
    obtain ⟨ihR, ihD⟩ := run_rules n
    refine ⟨?_, ?_⟩
    · intro s s' h
      obtain ⟨next, s1, hst, hnext⟩ := run_succ_inv h
      simp only [stateFn] at hst
      replace hst := bind_inv hst; obtain ⟨_, sa, ha, hst⟩ := hst
      cases triv_inv ha
      replace hst := bind_inv hst; obtain ⟨b, sb, hb, hst⟩ := hst
      have hsa := skipTrivia_tre s
      rcases scanEmit_inv hb with ⟨rfl, _, rfl⟩ | ⟨rfl, k, hm, rfl⟩
      · simp only [Bool.false_eq_true, ↓reduceIte] at hst
        rcases ruleTail_inv hst with ⟨rfl, rfl, hnil⟩ | ⟨rfl, hne, r, hdocs, hr, st⟩
        · -- the end of the text
          rcases hnext with ⟨_, rfl⟩ | ⟨fn', hc, _⟩
          · refine ⟨[], [], ⟨by simp, by simp, by simp [rulesKV]⟩, ?_⟩
            intro t0 ht0
            have h2 := skipTrivia_tre (skipTrivia s)
            rw [hnil] at h2
            obtain ⟨ws, e, hws, rfl, he⟩ := ((ht0.trans hsa).trans h2).endc
            exact ⟨ws, e, e, e, hws, rfl, rfl, rfl, he⟩
          · cases hc
        · -- a rule
          rcases hnext with ⟨hc, _⟩ | ⟨fn', hc, hrun⟩
          · cases hc
          · cases hc
            obtain ⟨rules, trailing, ⟨v1, v2, ho⟩, htext⟩ := ihR _ _ hrun
            refine ⟨r :: rules, trailing, ⟨?_, v2, ?_⟩, ?_⟩
            · intro q hq
              simp only [List.mem_cons] at hq
              rcases hq with rfl | hq
              · exact hr
              · exact v1 q hq
            · rw [ho, st.1]
              simp [rulesKV, CRule.kv, hdocs]
            · intro t0 ht0
              have hne' : (skipTrivia s).rest ≠ [] := by
                intro e
                apply hne
                have := skipTrivia_len (skipTrivia s)
                rw [e] at this
                simpa using this
              obtain ⟨ws0, hws0, rfl⟩ := (ht0.trans hsa).tr hne'
              obtain ⟨ws1, u, hws1, hu, hsc⟩ := st.2.toScA
              obtain ⟨ws2, t1, t2, e, hws2, ht1, hrs, htr, he⟩ := htext _ (TrE.refl _)
              rw [ht1] at hsc
              have hsc' := scA_absorb hsc hws2 (by simp [CRule.headKV])
              refine ⟨ws0 ++ ws1, u, t2, e, isTrivia_append hws0 hws1, by rw [hu]; simp, ?_, htr, he⟩
              exact ⟨u, t1, by rw [hdocs]; rfl, hsc', hrs⟩
      · -- a doc line
        simp only [↓reduceIte] at hst
        obtain ⟨rfl, rfl⟩ := pure_inv hst
        rcases hnext with ⟨hc, _⟩ | ⟨fn', hc, hrun⟩
        · cases hc
        · cases hc
          obtain ⟨sp, l, rest, rules, trailing, hsp, hl, hrest, hd, v1, v2, ho, htext⟩ := ihD _ _ hrun
          obtain ⟨w1, w2⟩ := consDoc_valid l hl rules trailing v1 v2
          refine ⟨(consDoc l rules trailing).1, (consDoc l rules trailing).2, ⟨w1, w2, ?_⟩, ?_⟩
          · rw [ho, consDoc_kv, (stp_emit_lit (kind := .ruleDoc) hm (by decide) (by decide)).1]
            simp
          · intro t0 ht0
            have hk := mLit_inv hm
            have hne : (skipTrivia s).rest ≠ [] := by
              intro e
              rw [e] at hk
              simp [sRDOC] at hk
            obtain ⟨ws0, hws0, rfl⟩ := (ht0.trans hsa).tr hne
            have : (skipTrivia s).rest = sRDOC ++ (sp ++ (l ++ rest)) := by
              rw [← hrest, ← hk]
              simp
            rw [this]
            exact consDoc_text hsp hws0 hd htext
    · intro s s' h
      obtain ⟨next, s1, hst, hnext⟩ := run_succ_inv h
      simp only [stateFn] at hst
      replace hst := bind_inv hst; obtain ⟨_, sa, ha, hst⟩ := hst
      obtain ⟨rfl, rfl⟩ := pure_inv hst
      rcases hnext with ⟨hc, _⟩ | ⟨fn', hc, hrun⟩
      · cases hc
      · cases hc
        obtain ⟨sp, l, hsp, hl, hrest, hd, ho⟩ := docInner_inv ha
        obtain ⟨rules, trailing, ⟨v1, v2, ho2⟩, htext⟩ := ihR _ _ hrun
        exact ⟨sp, l, _, rules, trailing, hsp, hl, hrest, hd, v1, v2, by rw [ho2, ho]; simp,
          htext _ (TrE.refl _)⟩

theorem run_grammar : ∀ n : Nat,
    (∀ s s', run n .grammar s = .ok () s' → ∃ c : CGrammar, c.Valid ∧ out s' = out s ++ c.kv ∧
      ∀ t0, TrE t0 s.rest → CGrammarText c t0) ∧
    (∀ s s', run n .grammarDocInner s = .ok () s' → ∃ sp l rest, ∃ c : CGrammar, DocSp sp l ∧ NoLF l ∧
      s.rest = sp ++ (l ++ rest) ∧ DocEnd l rest ∧ c.Valid ∧ out s' = out s ++ ((.commentText, l) :: c.kv) ∧
      CGrammarText c rest)
  | 0 => ⟨fun s s' h => by simp [run] at h, fun s s' h => by simp [run] at h⟩
  | n + 1 => by
    obtain ⟨ihG, ihD⟩ := run_grammar n
    refine ⟨?_, ?_⟩
    · intro s s' h
      obtain ⟨next, s1, hst, hnext⟩ := run_succ_inv h
      simp only [stateFn] at hst
      replace hst := bind_inv hst; obtain ⟨_, sa, ha, hst⟩ := hst
      cases triv_inv ha
      replace hst := bind_inv hst; obtain ⟨b, sb, hb, hst⟩ := hst
      have hsa := skipTrivia_tre s
      rcases scanEmit_inv hb with ⟨rfl, _, rfl⟩ | ⟨rfl, k, hm, rfl⟩
      · simp only [Bool.false_eq_true, ↓reduceIte] at hst
        obtain ⟨rfl, rfl⟩ := pure_inv hst
        rcases hnext with ⟨hc, _⟩ | ⟨fn', hc, hrun⟩
        · cases hc
        · cases hc
          obtain ⟨rules, trailing, ⟨v1, v2, ho⟩, htext⟩ := (run_rules n).1 _ _ hrun
          refine ⟨⟨[], rules, trailing⟩, ⟨by simp, v1, v2⟩, ?_, ?_⟩
          · rw [ho]; simp [CGrammar.kv, rulesKV, docsKV]
          · intro t0 ht0
            obtain ⟨ws, t1, t2, e, hws, rfl, hrs, htr, he⟩ := htext t0 (ht0.trans hsa)
            exact ⟨ws, t1, t1, t2, e, hws, rfl, rfl, hrs, htr, he⟩
      · simp only [↓reduceIte] at hst
        obtain ⟨rfl, rfl⟩ := pure_inv hst
        rcases hnext with ⟨hc, _⟩ | ⟨fn', hc, hrun⟩
        · cases hc
        · cases hc
          obtain ⟨sp, l, rest, c, hsp, hl, hrest, hd, ⟨v1, v2, v3⟩, ho, htext⟩ := ihD _ _ hrun
          refine ⟨⟨l :: c.gdocs, c.rules, c.trailing⟩, ⟨?_, v2, v3⟩, ?_, ?_⟩
          · intro x hx
            simp only [List.mem_cons] at hx
            rcases hx with rfl | hx
            · exact hl
            · exact v1 x hx
          · rw [ho, (stp_emit_lit (kind := .grammarDoc) hm (by decide) (by decide)).1]
            simp [CGrammar.kv, docKV]
          · intro t0 ht0
            have hk := mLit_inv hm
            have hne : (skipTrivia s).rest ≠ [] := by
              intro e
              rw [e] at hk
              simp [sGDOC] at hk
            obtain ⟨ws0, hws0, rfl⟩ := (ht0.trans hsa).tr hne
            have : (skipTrivia s).rest = sGDOC ++ (sp ++ (l ++ rest)) := by
              rw [← hrest, ← hk]
              simp
            rw [this]
            obtain ⟨lead, u0, u1, u2, e, hlead, rfl, hg, hrs, htr, he⟩ := htext
            exact ⟨ws0, _, u1, u2, e, hws0, rfl, ⟨sp, lead, u0, hsp, hlead, rfl, hd, hg⟩, hrs, htr, he⟩
    · intro s s' h
      obtain ⟨next, s1, hst, hnext⟩ := run_succ_inv h
      simp only [stateFn] at hst
      replace hst := bind_inv hst; obtain ⟨_, sa, ha, hst⟩ := hst
      obtain ⟨rfl, rfl⟩ := pure_inv hst
      rcases hnext with ⟨hc, _⟩ | ⟨fn', hc, hrun⟩
      · cases hc
      · cases hc
        obtain ⟨sp, l, hsp, hl, hrest, hd, ho⟩ := docInner_inv ha
        obtain ⟨c, hv, ho2, htext⟩ := ihG _ _ hrun
        exact ⟨sp, l, _, c, hsp, hl, hrest, hd, hv, by rw [ho2, ho]; simp, htext _ (TrE.refl _)⟩

/-- **Scanner inversion.**  Whatever the scanner accepts is a layout of a concrete syntax tree
    whose tokens (kinds and values) are the ones emitted. -/
theorem scan_inv {t : Text} {toks : List Token} (h : scan t = .ok toks) :
    ∃ c : CGrammar, c.Valid ∧ kvOf toks = c.kv ∧ CGrammarText c t := by
  unfold scan at h
  cases hr : run (3 * t.length + 3) .grammar (St.init t) with
  | ok u s' =>
    rw [hr] at h
    cases h
    obtain ⟨c, hv, ho, htext⟩ := (run_grammar _).1 _ _ hr
    refine ⟨c, hv, ?_, htext t (TrE.refl _)⟩
    simpa [out, St.init, kvOf] using ho
  | err k st v => rw [hr] at h; cases h
  | exc n => rw [hr] at h; cases h
  | oof => rw [hr] at h; cases h

end IS
end Front
end Pest
