/-
  Lemmas/Calc.lean — helper lemmas for the calculator half of C17 (statements of the
  property are in Props/C17.lean).

    1. the climbing loop of prec_climber.py *is* the Pratt loop of src/pest/pratt.py on the
       same table (`climbExpr_eq`): structural, for every configuration and `min_prec`
    2. the grammar-encoded nesting, walked, is a tree over the tokens that is `Good` for
       every calculator-shaped table whose levels are in the documented order
       (`encodedTree_spec`), level by level
    3. `build` only looks at the parentheses that occur in the tree (`build_congr`) and
       succeeds on trees of the right shape (`build_total`)
-/
import PestModel.Calc
import PestModel.Lemmas.Pratt

namespace Pest
namespace Calc
open Pratt

/-! ### 1. climbing = Pratt on the same table -/

theorem wf_rest_of_ok {tbl : Table Tok} {f : Nat} {ts : List Tok} {mp : Nat} {t : T} {rest : List Tok}
    (h : expr tbl f ts mp = .ok t rest) : wf tbl false rest = wf tbl true ts := by
  have hp := expr_post tbl f ts mp t rest h
  rw [← hp.yield, wf_flatten t rest hp.lex]

theorem climbLoop_eq (C : ClimbCfg) (rec1 : List Tok → Nat → CRes) (rec2 : List Tok → Nat → Res Tok)
    (hrec : ∀ ts p, wf C.table true ts = true → rec1 ts p = CRes.ofPratt (rec2 ts p))
    (hok : ∀ ts p t rest, rec2 ts p = .ok t rest → wf C.table false rest = wf C.table true ts) :
    ∀ (g : Nat) (prec : Nat) (left : T) (ts : List Tok), wf C.table false ts = true →
      climbLoop C rec1 prec g left ts = CRes.ofPratt (loop C.table rec2 prec g left ts) := by
  intro g
  induction g with
  | zero => intro prec left ts _; rfl
  | succ g ih =>
    intro prec left ts hw
    cases ts with
    | nil => rfl
    | cons tok ts' =>
      simp only [climbLoop, loop]
      by_cases hpo : C.isPostfix tok = true
      · have hpost : C.table.post tok = some (C.precOf tok) := by simp [ClimbCfg.table, hpo]
        simp only [hpost, hpo, Bool.or_true, if_true]
        by_cases hlt : C.precOf tok < prec
        · simp [hlt, CRes.ofPratt]
        · simp only [hlt, if_false]
          apply ih
          simpa [wf, hpost] using hw
      · have hpost : C.table.post tok = none := by simp [ClimbCfg.table, hpo]
        simp only [hpost]
        by_cases hin : C.isInfix tok = true
        · have hinf : C.table.inf tok = some (C.precOf tok, C.isRight tok) := by simp [ClimbCfg.table, hin]
          simp only [hinf, hin, Bool.true_or, if_true]
          have hw' : wf C.table true ts' = true := by simpa [wf, hpost, hinf] using hw
          by_cases hlt : C.precOf tok < prec
          · simp [hlt, CRes.ofPratt]
          · simp only [hlt, if_false, hpo, Bool.false_eq_true]
            have harg : (if C.isRight tok = true then C.precOf tok else C.precOf tok + 1)
                = C.precOf tok + (if C.isRight tok = true then 0 else 1) := by
              cases C.isRight tok <;> simp
            rw [harg, hrec _ _ hw']
            cases hr : rec2 ts' (C.precOf tok + if C.isRight tok = true then 0 else 1) with
            | ok rhs ts'' =>
              simp only [CRes.ofPratt]
              apply ih
              rw [hok _ _ _ _ hr]; exact hw'
            | eof => rfl
            | fuel => rfl
        · have hinf : C.table.inf tok = none := by simp [ClimbCfg.table, hin]
          simp [wf, hpost, hinf] at hw

theorem climbExpr_eq (C : ClimbCfg) :
    ∀ (f : Nat) (ts : List Tok) (p : Nat), wf C.table true ts = true →
      climbExpr C f ts p = CRes.ofPratt (expr C.table f ts p) := by
  intro f
  induction f with
  | zero => intro ts p _; rfl
  | succ f ih =>
    intro ts p hw
    cases ts with
    | nil => rfl
    | cons tok ts' =>
      simp only [climbExpr, expr, climbStep, exprStep]
      have hok : ∀ ts p t rest, expr C.table f ts p = .ok t rest →
          wf C.table false rest = wf C.table true ts := fun ts p t rest h => wf_rest_of_ok h
      by_cases hpr : C.isPrefix tok = true
      · have hpre : C.table.pre tok = some C.pre := by simp [ClimbCfg.table, hpr]
        have hw' : wf C.table true ts' = true := by simpa [wf, hpre] using hw
        simp only [hpre, hpr, if_true]
        rw [ih _ _ hw']
        cases hr : expr C.table f ts' C.pre with
        | ok rhs ts'' =>
          simp only [CRes.ofPratt]
          apply climbLoop_eq C _ _ ih hok
          rw [hok _ _ _ _ hr]; exact hw'
        | eof => rfl
        | fuel => rfl
      · have hpre : C.table.pre tok = none := by simp [ClimbCfg.table, hpr]
        simp only [hpre, hpr, if_false, Bool.false_eq_true]
        apply climbLoop_eq C _ _ ih hok
        simpa [wf, hpre] using hw

/-! ### 2. the grammar-encoded tree is the tree every documented table demands -/

def Tok.isNeg : Tok → Bool | .neg => true | _ => false
def Tok.isFac : Tok → Bool | .fac => true | _ => false

/-- every token of the tree is used in its calculator role -/
def Shape : T → Prop
  | .leaf n => n.isPrimary = true
  | .pre o r => o.isNeg = true ∧ Shape r
  | .post l o => o.isFac = true ∧ Shape l
  | .bin l o r => o.isInfix = true ∧ Shape l ∧ Shape r

theorem shape_lex (L : Levels) : ∀ t : T, Shape t → Lex L.table t
  | .leaf n, h => by cases n <;> simp_all [Shape, Lex, Levels.table, Tok.isPrimary]
  | .pre o r, h => by
    obtain ⟨h1, h2⟩ := h
    exact ⟨by cases o <;> simp_all [Levels.table, Tok.isNeg], shape_lex L r h2⟩
  | .post l o, h => by
    obtain ⟨h1, h2⟩ := h
    exact ⟨by cases o <;> simp_all [Levels.table, Tok.isFac], shape_lex L l h2⟩
  | .bin l o r, h => by
    obtain ⟨h1, h2, h3⟩ := h
    exact ⟨by cases o <;> simp_all [Levels.table, Tok.isInfix],
      by cases o <;> simp_all [Levels.table, Tok.isInfix], shape_lex L l h2, shape_lex L r h3⟩

/-- a tree of a precedence level: right shape, `Good`, and every operator exposed on either
    edge has power at least `m` -/
structure Lvl (L : Levels) (m : Nat) (t : T) : Prop where
  shape : Shape t
  good : Good L.table t
  le : ∀ x ∈ ledge L.table t, m ≤ x
  re : ∀ x ∈ redge L.table t, m ≤ x

theorem Lvl.weaken {L : Levels} {m m' : Nat} {t : T} (h : Lvl L m t) (hm : m' ≤ m) : Lvl L m' t :=
  ⟨h.shape, h.good, fun x hx => Nat.le_trans hm (h.le x hx), fun x hx => Nat.le_trans hm (h.re x hx)⟩

/-- rank of an operator token: the stream position after a level `k` unit never stands at a
    token of rank `≥ k` -/
def opRank : Tok → Nat
  | .fac => 4 | .pow => 3 | .mul => 2 | .div => 2 | .add => 1 | .sub => 1 | _ => 0

def stopAt (k : Nat) : List Tok → Prop
  | [] => True
  | t :: _ => opRank t < k

theorem stop_nil_of_wf : ∀ r : List Tok, cwf false r = true → stopAt 1 r → r = []
  | [], _, _ => rfl
  | t :: r, hw, hs => by cases t <;> simp_all [cwf, stopAt, opRank, Tok.isInfix]

section powers
variable (L : Levels)
@[simp] theorem preR_neg : L.table.preR .neg = 2 * L.neg := rfl
@[simp] theorem postL_fac : L.table.postL .fac = 2 * L.fac + 1 := rfl
@[simp] theorem infL_add : L.table.infL .add = 2 * L.add + 1 := rfl
@[simp] theorem infL_sub : L.table.infL .sub = 2 * L.add + 1 := rfl
@[simp] theorem infL_mul : L.table.infL .mul = 2 * L.mul + 1 := rfl
@[simp] theorem infL_div : L.table.infL .div = 2 * L.mul + 1 := rfl
@[simp] theorem infL_pow : L.table.infL .pow = 2 * L.pow + 1 := rfl
@[simp] theorem infR_add : L.table.infR .add = 2 * L.add + 2 := rfl
@[simp] theorem infR_sub : L.table.infR .sub = 2 * L.add + 2 := rfl
@[simp] theorem infR_mul : L.table.infR .mul = 2 * L.mul + 2 := rfl
@[simp] theorem infR_div : L.table.infR .div = 2 * L.mul + 2 := rfl
@[simp] theorem infR_pow : L.table.infR .pow = 2 * L.pow := rfl
end powers

/-! #### postfix level: `primary ~ fac*` -/

theorem nFacs_fac (r : List Tok) : nFacs (.fac :: r) = (.tok .fac :: (nFacs r).1, (nFacs r).2) := rfl

theorem nFacs_other (t : Tok) (r : List Tok) (h : t.isFac = false) : nFacs (t :: r) = ([], t :: r) := by
  cases t <;> first | rfl | simp [Tok.isFac] at h

theorem facs_spec (L : Levels) :
    ∀ (ts : List Tok) (acc : T), Lvl L (2 * L.fac + 1) acc → redge L.table acc = [] →
      ∃ t, wPostfixInner acc (nFacs ts).1 = some t ∧ t.flatten ++ (nFacs ts).2 = acc.flatten ++ ts ∧
        Lvl L (2 * L.fac + 1) t ∧ redge L.table t = [] ∧
        (cwf false ts = true → cwf false (nFacs ts).2 = true) ∧ stopAt 4 (nFacs ts).2 ∧
        (nFacs ts).2.length ≤ ts.length := by
  intro ts
  induction ts with
  | nil => intro acc ha hre; exact ⟨acc, rfl, rfl, ha, hre, id, trivial, Nat.le_refl _⟩
  | cons tok r ih =>
    intro acc ha hre
    by_cases hf : tok.isFac = true
    · have htok : tok = .fac := by cases tok <;> simp_all [Tok.isFac]
      subst htok
      have hacc' : Lvl L (2 * L.fac + 1) (.post acc .fac) :=
        ⟨⟨rfl, ha.shape⟩, ⟨ha.good, by simp [hre]⟩,
          by intro x hx; simp [ledge] at hx; rcases hx with rfl | hx; exact Nat.le_refl _; exact ha.le x hx,
          by simp [redge]⟩
      obtain ⟨t, h1, h2, h3, h4, h5, h6, h7⟩ := ih (.post acc .fac) hacc' rfl
      refine ⟨t, ?_, ?_, h3, h4, ?_, ?_, ?_⟩
      · rw [nFacs_fac]; exact h1
      · rw [nFacs_fac]; simpa [Tree.flatten] using h2
      · intro hw; rw [nFacs_fac]; exact h5 (by simpa [cwf] using hw)
      · rw [nFacs_fac]; exact h6
      · rw [nFacs_fac]; simp only [List.length_cons]; omega
    · have hf' : tok.isFac = false := by simpa using hf
      rw [nFacs_other tok r hf']
      refine ⟨acc, rfl, rfl, ha, hre, id, ?_, Nat.le_refl _⟩
      cases tok <;> simp_all [stopAt, opRank, Tok.isFac]

theorem postfix_spec (L : Levels) (p : Tok) (r : List Tok) (hp : p.isPrimary = true) :
    ∃ ch r' t, nPostfix (p :: r) = some (.node .postfixR ch, r') ∧ wPostfix (.node .postfixR ch) = some t ∧
      t.flatten ++ r' = p :: r ∧ Lvl L (2 * L.fac + 1) t ∧ redge L.table t = [] ∧
      (cwf false r = true → cwf false r' = true) ∧ stopAt 4 r' ∧ r'.length ≤ r.length := by
  have hleaf : Lvl L (2 * L.fac + 1) (.leaf p) :=
    ⟨hp, trivial, by simp [ledge], by simp [redge]⟩
  obtain ⟨t, h1, h2, h3, h4, h5, h6, h7⟩ := facs_spec L r (.leaf p) hleaf rfl
  refine ⟨.tok p :: (nFacs r).1, (nFacs r).2, t, ?_, ?_, by simpa [Tree.flatten] using h2, h3, h4, h5, h6, h7⟩
  · simp [nPostfix, hp]
  · have : wPrimary (.tok p) = some (.leaf p) := by cases p <;> first | rfl | simp [Tok.isPrimary] at hp
    simp [wPostfix, this, h1]

/-! #### prefix level: `neg* ~ postfix` -/

theorem nNegs_neg (r : List Tok) : nNegs (.neg :: r) = (.tok .neg :: (nNegs r).1, (nNegs r).2) := rfl

theorem nNegs_other (t : Tok) (r : List Tok) (h : t.isNeg = false) : nNegs (t :: r) = ([], t :: r) := by
  cases t <;> first | rfl | simp [Tok.isNeg] at h

theorem wPrefixInner_single (ch : List EP) :
    wPrefixInner [.node .postfixR ch] = wPostfix (.node .postfixR ch) := rfl

theorem wPrefixInner_neg (rest : List EP) :
    wPrefixInner (.tok .neg :: rest) = (wPrefixInner rest).map (.pre .neg) := by
  cases rest <;> rfl

theorem negs_spec (L : Levels) (hL : L.Ordered) :
    ∀ ts : List Tok, cwf true ts = true →
      ∃ ch r t, nPostfix (nNegs ts).2 = some (.node .postfixR ch, r) ∧
        wPrefixInner ((nNegs ts).1 ++ [.node .postfixR ch]) = some t ∧
        ((nNegs ts).1 = [] ∨ ∃ ns, (nNegs ts).1 = .tok .neg :: ns) ∧
        t.flatten ++ r = ts ∧ Lvl L (2 * L.neg) t ∧ cwf false r = true ∧ stopAt 4 r ∧
        r.length < ts.length := by
  intro ts
  obtain ⟨_, _, _, hnf⟩ := hL
  induction ts with
  | nil => intro h; simp [cwf] at h
  | cons tok r ih =>
    intro hw
    by_cases hn : tok.isNeg = true
    · have htok : tok = .neg := by cases tok <;> simp_all [Tok.isNeg]
      subst htok
      obtain ⟨ch, r', t, h1, h2, h3, h4, h5, h6, h7, h8⟩ := ih (by simpa [cwf] using hw)
      refine ⟨ch, r', .pre .neg t, ?_, ?_, ?_, ?_, ?_, h6, h7, ?_⟩
      · rw [nNegs_neg]; exact h1
      · rw [nNegs_neg]; simp only [List.cons_append]; rw [wPrefixInner_neg, h2]; rfl
      · rw [nNegs_neg]; exact Or.inr ⟨_, rfl⟩
      · simpa [Tree.flatten] using h4
      · exact ⟨⟨rfl, h5.shape⟩, ⟨h5.good, fun x hx => by simpa using h5.le x hx⟩, by simp [ledge],
          by intro x hx; simp [redge] at hx; rcases hx with rfl | hx; exact Nat.le_refl _; exact h5.re x hx⟩
      · simp only [List.length_cons]; omega
    · have hn' : tok.isNeg = false := by simpa using hn
      have hp : tok.isPrimary = true ∧ cwf false r = true := by
        cases tok <;> simp_all [cwf, Tok.isNeg, Tok.isPrimary]
      rw [nNegs_other tok r hn']
      obtain ⟨ch, r', t, h1, h2, h3, h4, h5, h6, h7, h8⟩ := postfix_spec L tok r hp.1
      refine ⟨ch, r', t, h1, ?_, Or.inl rfl, h3, h4.weaken (by omega), h6 hp.2, h7, ?_⟩
      · simpa [wPrefixInner_single] using h2
      · simp only [List.length_cons]; omega

theorem wPrefix_eq_inner (ns : List EP) (ch : List EP) (h : ns = [] ∨ ∃ ns', ns = .tok .neg :: ns') :
    wPrefix (.node .prefixR (ns ++ [.node .postfixR ch])) = wPrefixInner (ns ++ [.node .postfixR ch]) := by
  rcases h with rfl | ⟨ns', rfl⟩
  · rfl
  · simp only [List.cons_append]
    rw [wPrefixInner_neg]
    cases ns' <;> rfl

theorem prefix_spec (L : Levels) (hL : L.Ordered) (ts : List Tok) (hw : cwf true ts = true) :
    ∃ ch r t, nPrefix ts = some (.node .prefixR ch, r) ∧ wPrefix (.node .prefixR ch) = some t ∧
      t.flatten ++ r = ts ∧ Lvl L (2 * L.neg) t ∧ cwf false r = true ∧ stopAt 4 r ∧
      r.length < ts.length := by
  obtain ⟨ch, r, t, h1, h2, h3, h4, h5, h6, h7, h8⟩ := negs_spec L hL ts hw
  refine ⟨(nNegs ts).1 ++ [.node .postfixR ch], r, t, ?_, ?_, h4, h5, h6, h7, h8⟩
  · simp [nPrefix, h1]
  · rw [wPrefix_eq_inner _ _ h3]; exact h2

/-! #### `pow_expr = prefix ~ (pow ~ pow_expr)?` -/

def Tok.isPow : Tok → Bool | .pow => true | _ => false

theorem pow_spec (L : Levels) (hL : L.Ordered) :
    ∀ (f : Nat) (ts : List Tok), ts.length < f → cwf true ts = true →
      ∃ ch r t, nPow f ts = some (.node .powExpr ch, r) ∧
        (∀ f', ts.length < f' → wPow f' (.node .powExpr ch) = some t) ∧
        t.flatten ++ r = ts ∧ Lvl L (2 * L.pow) t ∧ cwf false r = true ∧ stopAt 3 r ∧
        r.length < ts.length := by
  intro f
  have hpn : L.pow < L.neg := hL.2.2.1
  induction f with
  | zero => intro ts h; omega
  | succ f ih =>
    intro ts hlen hw
    obtain ⟨chp, r1, l, h1, h2, h3, h4, h5, h6, h7⟩ := prefix_spec L hL ts hw
    cases r1 with
    | nil =>
      refine ⟨[.node .prefixR chp], [], l, by simp [nPow, h1], ?_, h3, h4.weaken (by omega), h5, trivial, h7⟩
      intro f' hf'
      cases f' with
      | zero => omega
      | succ f'' => simpa [wPow] using h2
    | cons tk r2 =>
      by_cases hp : tk.isPow = true
      · have htk : tk = .pow := by cases tk <;> simp_all [Tok.isPow]
        subst htk
        have hw2 : cwf true r2 = true := by simpa [cwf, Tok.isInfix] using h5
        have hlen2 : r2.length < f := by simp only [List.length_cons] at h7; omega
        obtain ⟨chq, r3, tr, g1, g2, g3, g4, g5, g6, g7⟩ := ih r2 hlen2 hw2
        refine ⟨[.node .prefixR chp, .tok .pow, .node .powExpr chq], r3, .bin l .pow tr, ?_, ?_, ?_, ?_, g5, g6, ?_⟩
        · simp [nPow, h1, g1]
        · intro f' hf'
          cases f' with
          | zero => omega
          | succ f'' =>
            have hq := g2 f'' (by simp only [List.length_cons] at h7; omega)
            simp [wPow, h2, wPowInner, hq]
        · rw [← h3, ← g3]; simp [Tree.flatten]
        · refine ⟨⟨rfl, h4.shape, g4.shape⟩, ⟨h4.good, g4.good, ?_, ?_⟩, ?_, ?_⟩
          · intro x hx; have := h4.re x hx; simp only [infL_pow]; omega
          · intro x hx; have := g4.le x hx; simp only [infR_pow]; omega
          · intro x hx
            simp only [ledge, infL_pow, List.mem_cons] at hx
            rcases hx with rfl | hx
            · omega
            · have := h4.le x hx; omega
          · intro x hx
            simp only [redge, infR_pow, List.mem_cons] at hx
            rcases hx with rfl | hx
            · omega
            · exact g4.re x hx
        · simp only [List.length_cons] at h7; omega
      · have hp' : tk.isPow = false := by simpa using hp
        refine ⟨[.node .prefixR chp], tk :: r2, l, ?_, ?_, h3, h4.weaken (by omega), h5, ?_, h7⟩
        · cases tk <;> first | (simp [Tok.isPow] at hp'; done) | simp [nPow, h1]
        · intro f' hf'
          cases f' with
          | zero => omega
          | succ f'' => simpa [wPow] using h2
        · cases tk <;> simp_all [stopAt, opRank, Tok.isPow]

/-! #### a left-associative level: `lower ~ (op ~ lower)*` -/

/-- invariant of the accumulator of `parse_…_inner` at a level of precedence `p` -/
structure AccInv (L : Levels) (p : Nat) (t : T) : Prop where
  shape : Shape t
  good : Good L.table t
  le : ∀ x ∈ ledge L.table t, 2 * p + 1 ≤ x
  re : ∀ x ∈ redge L.table t, 2 * p + 2 ≤ x

theorem chainRest_spec (L : Levels) (p kHere N : Nat)
    (nl : List Tok → Option (EP × List Tok)) (wl : EP → Option T) (isOp : Tok → Bool) (opOf : EP → Tok)
    (hop : ∀ o, isOp o = true → o.isInfix = true ∧ opOf (.tok o) = o ∧ L.table.infL o = 2 * p + 1 ∧
      L.table.infR o = 2 * p + 2)
    (hnop : ∀ o, isOp o = false → opRank o < kHere + 1 → opRank o < kHere)
    (hlow : ∀ ts, ts.length < N → cwf true ts = true →
      ∃ ep r t, nl ts = some (ep, r) ∧ wl ep = some t ∧ t.flatten ++ r = ts ∧ Lvl L (2 * p + 2) t ∧
        cwf false r = true ∧ stopAt (kHere + 1) r ∧ r.length < ts.length) :
    ∀ (f : Nat) (ts : List Tok) (acc : T), ts.length < f → ts.length ≤ N → cwf false ts = true →
      stopAt (kHere + 1) ts → AccInv L p acc →
      ∃ t, wChainInner wl opOf acc (nChainRest nl isOp f ts).1 = some t ∧
        t.flatten ++ (nChainRest nl isOp f ts).2 = acc.flatten ++ ts ∧ Lvl L (2 * p + 1) t ∧
        cwf false (nChainRest nl isOp f ts).2 = true ∧ stopAt kHere (nChainRest nl isOp f ts).2 ∧
        (nChainRest nl isOp f ts).2.length ≤ ts.length := by
  intro f
  induction f with
  | zero => intro ts acc h; omega
  | succ f ih =>
    intro ts acc hlen hN hw hs ha
    have hfin : Lvl L (2 * p + 1) acc :=
      ⟨ha.shape, ha.good, ha.le, fun x hx => by have := ha.re x hx; omega⟩
    cases ts with
    | nil => exact ⟨acc, rfl, rfl, hfin, rfl, trivial, Nat.le_refl _⟩
    | cons o r =>
      by_cases ho : isOp o = true
      · obtain ⟨ho1, ho2, ho3, ho4⟩ := hop o ho
        have hwr : cwf true r = true := by cases o <;> simp_all [cwf, Tok.isInfix]
        simp only [List.length_cons] at hlen hN
        obtain ⟨ep, r', item, l1, l2, l3, l4, l5, l6, l7⟩ := hlow r (by omega) hwr
        have hacc' : AccInv L p (.bin acc o item) := by
          refine ⟨⟨ho1, ha.shape, l4.shape⟩, ⟨ha.good, l4.good, ?_, ?_⟩, ?_, ?_⟩
          · intro x hx; have := ha.re x hx; omega
          · intro x hx; have := l4.le x hx; omega
          · intro x hx
            simp only [ledge, List.mem_cons] at hx
            rcases hx with rfl | hx
            · omega
            · exact ha.le x hx
          · intro x hx
            simp only [redge, List.mem_cons] at hx
            rcases hx with rfl | hx
            · omega
            · exact l4.re x hx
        obtain ⟨t, g1, g2, g3, g4, g5, g6⟩ := ih r' (.bin acc o item) (by omega) (by omega) l5 l6 hacc'
        have hstep : nChainRest nl isOp (f + 1) (o :: r)
            = (.tok o :: ep :: (nChainRest nl isOp f r').1, (nChainRest nl isOp f r').2) := by
          simp [nChainRest, ho, l1]
        rw [hstep]
        refine ⟨t, ?_, ?_, g3, g4, g5, ?_⟩
        · simp [wChainInner, l2, ho2, g1]
        · rw [g2, ← l3]; simp [Tree.flatten]
        · simp only [List.length_cons]; omega
      · have ho' : isOp o = false := by simpa using ho
        have hstep : nChainRest nl isOp (f + 1) (o :: r) = ([], o :: r) := by simp [nChainRest, ho']
        rw [hstep]
        exact ⟨acc, rfl, rfl, hfin, hw, hnop o ho' hs, Nat.le_refl _⟩

theorem chain_spec (L : Levels) (p kHere N : Nat) (rule : ERule)
    (nl : List Tok → Option (EP × List Tok)) (wl : EP → Option T) (isOp : Tok → Bool) (opOf : EP → Tok)
    (hop : ∀ o, isOp o = true → o.isInfix = true ∧ opOf (.tok o) = o ∧ L.table.infL o = 2 * p + 1 ∧
      L.table.infR o = 2 * p + 2)
    (hnop : ∀ o, isOp o = false → opRank o < kHere + 1 → opRank o < kHere)
    (hlow : ∀ ts, ts.length < N → cwf true ts = true →
      ∃ ep r t, nl ts = some (ep, r) ∧ wl ep = some t ∧ t.flatten ++ r = ts ∧ Lvl L (2 * p + 2) t ∧
        cwf false r = true ∧ stopAt (kHere + 1) r ∧ r.length < ts.length)
    (f : Nat) (ts : List Tok) (hf : ts.length ≤ f) (hN : ts.length < N) (hw : cwf true ts = true) :
    ∃ ep r t, nChain rule nl isOp f ts = some (ep, r) ∧ wChain rule wl opOf ep = some t ∧
      t.flatten ++ r = ts ∧ Lvl L (2 * p + 1) t ∧ cwf false r = true ∧ stopAt kHere r ∧
      r.length < ts.length := by
  obtain ⟨ep, r, item, l1, l2, l3, l4, l5, l6, l7⟩ := hlow ts hN hw
  have hacc : AccInv L p item :=
    ⟨l4.shape, l4.good, fun x hx => by have := l4.le x hx; omega, l4.re⟩
  obtain ⟨t, g1, g2, g3, g4, g5, g6⟩ :=
    chainRest_spec L p kHere N nl wl isOp opOf hop hnop hlow f r item (by omega) (by omega) l5 l6 hacc
  refine ⟨.node rule (ep :: (nChainRest nl isOp f r).1), (nChainRest nl isOp f r).2, t, ?_, ?_, ?_, g3, g4, g5,
    by omega⟩
  · simp [nChain, l1]
  · simp [wChain, l2, g1]
  · rw [g2, l3]

theorem mulDiv_spec (L : Levels) (hL : L.Ordered) (F F' : Nat) (hFF : F ≤ F') (ts : List Tok)
    (hlen : ts.length < F) (hw : cwf true ts = true) :
    ∃ ep r t, nMulDiv F ts = some (ep, r) ∧ wMulDiv F' ep = some t ∧ t.flatten ++ r = ts ∧
      Lvl L (2 * L.mul + 1) t ∧ cwf false r = true ∧ stopAt 2 r ∧ r.length < ts.length := by
  have hmp : L.mul < L.pow := hL.2.1
  apply chain_spec L L.mul 2 F .mulDiv (nPow F) (wPow F') isMulOp mulOpOf
  · intro o ho; cases o <;> simp_all [isMulOp, Tok.isInfix, mulOpOf]
  · intro o ho hr; cases o <;> simp_all [isMulOp, opRank]
  · intro ts' hl' hw'
    obtain ⟨ch, r, t, h1, h2, h3, h4, h5, h6, h7⟩ := pow_spec L hL F ts' hl' hw'
    exact ⟨_, r, t, h1, h2 F' (by omega), h3, h4.weaken (by omega), h5, h6, h7⟩
  · omega
  · exact hlen
  · exact hw

theorem addSub_spec (L : Levels) (hL : L.Ordered) (F F' : Nat) (hFF : F ≤ F') (ts : List Tok)
    (hlen : ts.length < F) (hw : cwf true ts = true) :
    ∃ ep r t, nAddSub F ts = some (ep, r) ∧ wAddSub F' ep = some t ∧ t.flatten ++ r = ts ∧
      Lvl L (2 * L.add + 1) t ∧ cwf false r = true ∧ stopAt 1 r ∧ r.length < ts.length := by
  have ham : L.add < L.mul := hL.1
  apply chain_spec L L.add 1 F .addSub (nMulDiv F) (wMulDiv F') isAddOp addOpOf
  · intro o ho; cases o <;> simp_all [isAddOp, Tok.isInfix, addOpOf]
  · intro o ho hr; cases o <;> simp_all [isAddOp, opRank]
  · intro ts' hl' hw'
    obtain ⟨ep, r, t, h1, h2, h3, h4, h5, h6, h7⟩ := mulDiv_spec L hL F F' hFF ts' hl' hw'
    exact ⟨ep, r, t, h1, h2, h3, h4.weaken (by omega), h5, h6, h7⟩
  · omega
  · exact hlen
  · exact hw

/-- **The grammar-encoded tree.**  On a well-formed token list, nesting by the grammar and
    walking the pairs succeeds, and the result is a tree over exactly these tokens that has
    the calculator shape and is `Good` for *every* calculator-shaped table whose levels are
    in the documented order. -/
theorem encodedTree_spec (L : Levels) (hL : L.Ordered) (ts : List Tok) (hw : cwf true ts = true) :
    ∃ t, encodedTree ts = some t ∧ t.flatten = ts ∧ Lvl L (2 * L.add + 1) t := by
  obtain ⟨ep, r, t, h1, h2, h3, h4, h5, h6, _⟩ :=
    addSub_spec L hL (ts.length + 1) (ts.length + 1) (Nat.le_refl _) ts (Nat.lt_succ_self _) hw
  have hr : r = [] := stop_nil_of_wf r h5 h6
  subst hr
  refine ⟨t, ?_, by simpa using h3, h4⟩
  simp [encodedTree, nest, h1, wExpr, h2]

/-! ### 3. `build` -/

theorem build_congr (s1 s2 : List Tok → Option AST) :
    ∀ t : T, (∀ c, Tok.paren c ∈ t.flatten → s1 c = s2 c) → build s1 t = build s2 t
  | .leaf n, h => by
    cases n <;> first | rfl | (simp only [build]; exact h _ (by simp [Tree.flatten]))
  | .pre o r, h => by
    have ih := build_congr s1 s2 r (fun c hc => h c (by simp [Tree.flatten, hc]))
    cases o <;> simp [build, ih]
  | .post l o, h => by
    have ih := build_congr s1 s2 l (fun c hc => h c (by simp [Tree.flatten, hc]))
    cases o <;> simp [build, ih]
  | .bin l o r, h => by
    have ih1 := build_congr s1 s2 l (fun c hc => h c (by simp [Tree.flatten, hc]))
    have ih2 := build_congr s1 s2 r (fun c hc => h c (by simp [Tree.flatten, hc]))
    simp [build, ih1, ih2]

theorem build_total (s : List Tok → Option AST) :
    ∀ t : T, Shape t → (∀ c, Tok.paren c ∈ t.flatten → ∃ a, s c = some a) → ∃ a, build s t = some a
  | .leaf n, hs, h => by
    cases n <;> first
      | exact ⟨_, rfl⟩
      | (simp only [build]; exact h _ (by simp [Tree.flatten]))
      | simp [Shape, Tok.isPrimary] at hs
  | .pre o r, hs, h => by
    obtain ⟨a, ha⟩ := build_total s r hs.2 (fun c hc => h c (by simp [Tree.flatten, hc]))
    have := hs.1
    cases o <;> first | (simp [Tok.isNeg] at this; done) | simp [build, ha]
  | .post l o, hs, h => by
    obtain ⟨a, ha⟩ := build_total s l hs.2 (fun c hc => h c (by simp [Tree.flatten, hc]))
    have := hs.1
    cases o <;> first | (simp [Tok.isFac] at this; done) | simp [build, ha]
  | .bin l o r, hs, h => by
    obtain ⟨a, ha⟩ := build_total s l hs.2.1 (fun c hc => h c (by simp [Tree.flatten, hc]))
    obtain ⟨b, hb⟩ := build_total s r hs.2.2 (fun c hc => h c (by simp [Tree.flatten, hc]))
    have := hs.1
    cases o <;> first | (simp [Tok.isInfix] at this; done) | simp [build, ha, hb, binOp]

/-! parentheses of a deeply well-formed list -/

theorem deepWf_mem : ∀ (ts : List Tok) (c : List Tok), deepWfL ts = true → Tok.paren c ∈ ts →
    cwf true c = true ∧ deepWfL c = true
  | [], _, _, h => by simp at h
  | t :: ts, c, hd, h => by
    simp only [deepWfL, Bool.and_eq_true] at hd
    rcases List.mem_cons.mp h with rfl | h
    · simpa [Tok.deepWf] using hd.1
    · exact deepWf_mem ts c hd.2 h

theorem depth_mem : ∀ (ts : List Tok) (c : List Tok), Tok.paren c ∈ ts → depthL c + 1 ≤ depthL ts
  | [], _, h => by simp at h
  | t :: ts, c, h => by
    simp only [depthL]
    rcases List.mem_cons.mp h with rfl | h
    · simp only [Tok.depth]; omega
    · have := depth_mem ts c h; omega

end Calc
end Pest
