/-
  Lemmas/FrontInvCst.lean — the *concrete* syntax tree of a grammar text: the shape the scanner
  (Front/Scan.lean) accepts, with every lexeme as the scanner emits it.  It is the pivot of the
  exactness proof of Props/C10Exact.lean:

      scanner  ⟷  C-tree + layout            (Lemmas/FrontInvScan.lean: inversion)
      parser   ⟷  `abs : C-tree → Option AST` (Lemmas/FrontInvParse.lean: the parser on the
                                               tokens of a C-tree succeeds iff `abs` is defined,
                                               and then returns `den` of it)

  The C-tree differs from the source-level AST (Front/Ast.lean) exactly where the scanner is
  more liberal than the grammar parser, or keeps the spelling:
    * `{ … }` holds any sequence of commas and numbers          (`CPost.braces`)
    * `PUSH_LITERAL( )` may lack its string                     (`CNode.pushLit none`)
    * numbers, integers and character literals are lexemes      (`Text`, not `Nat`/`Int`)
  `abs` checks what the parser checks (shape of the bounds, `int()` and the u32 limit, the
  decoded range ends and their order) and computes the AST.
-/
import PestModel.Front.AstText2
import PestModel.Lemmas.FrontTotalScan

namespace Pest
namespace Front

/-- a postfix operator as scanned: `{` (`,` | number)* `}` is not checked by the scanner;
    `none` = a comma, `some w` = the number lexeme `w` -/
inductive CPost
  | opt | rep | rep1 | braces (items : List (Option Text))
deriving Repr

mutual
inductive CNode
  | str (s : Text)                      -- value of the STRING token (decoded)
  | ci (s : Text)
  | range (a b : Text)                  -- the two CHAR lexemes, quotes included
  | ident (name : Text)
  | pushLit (s : Option Text)
  | push (bar : Bool) (e : CExpr)
  | slice (a b : Option Text)           -- the INTEGER lexemes
  | paren (bar : Bool) (e : CExpr)
inductive CTerm
  | mk (tag : Option Text) (pre : List Bool) (node : CNode) (post : List CPost)
inductive CExpr
  | one (t : CTerm)
  | cons (t : CTerm) (bar : Bool) (rest : CExpr)
end

structure CRule where
  docs : List Text
  name : Text
  mod : Option Nat
  bar : Bool
  body : CExpr

structure CGrammar where
  gdocs : List Text
  rules : List CRule
  trailing : List Text

/-! ### tokens -/

def itemKV' : Option Text → KV
  | none => (.comma, [44])
  | some w => (.number, w)

def CPost.kv : CPost → List KV
  | .opt => [(.optionOp, [63])]
  | .rep => [(.repeatOp, [42])]
  | .rep1 => [(.repeatOnceOp, [43])]
  | .braces items => (.lbrace, [123]) :: (items.map itemKV' ++ [(.rbrace, [125])])

def optKV (k : TK) : Option Text → List KV
  | none => []
  | some w => [(k, w)]

mutual
def CNode.kv : CNode → List KV
  | .str s => [(.string, s)]
  | .ci s => [(.stringCI, s)]
  | .range a b => [(.char, a), (.rangeOp, [46, 46]), (.char, b)]
  | .ident name => [(keywordKind name, name)]
  | .pushLit s => [(.pushLiteral, sPUSH_LITERAL), (.lparen, [40])] ++ optKV .string s ++ [(.rparen, [41])]
  | .push bar e => [(.push, sPUSH), (.lparen, [40])] ++ barKV bar ++ e.kv ++ [(.rparen, [41])]
  | .slice a b =>
    [(.peek, sPEEK), (.lbracket, [91])] ++ optKV .integer a ++ [(.rangeOp, [46, 46])] ++ optKV .integer b ++
      [(.rbracket, [93])]
  | .paren bar e => [(.lparen, [40])] ++ barKV bar ++ e.kv ++ [(.rparen, [41])]
def CTerm.kv : CTerm → List KV
  | .mk tag pre node post => tagKV tag ++ pre.map preKV ++ node.kv ++ (post.map CPost.kv).flatten
def CExpr.kv : CExpr → List KV
  | .one t => t.kv
  | .cons t bar rest => t.kv ++ [opKV bar] ++ rest.kv
end

/-- the tokens of a rule without its doc comments -/
def CRule.headKV (r : CRule) : List KV :=
  [(.identifier, r.name), (.assignOp, [61])] ++ modKV r.mod ++ [(.lbrace, [123])] ++ barKV r.bar ++
    r.body.kv ++ [(.rbrace, [125])]

def CRule.kv (r : CRule) : List KV := (r.docs.map (docKV .ruleDoc sRDOC)).flatten ++ r.headKV

def CGrammar.kv (g : CGrammar) : List KV :=
  (g.gdocs.map (docKV .grammarDoc sGDOC)).flatten ++ (g.rules.map CRule.kv).flatten ++
    (g.trailing.map (docKV .ruleDoc sRDOC)).flatten

/-! ### abstraction: what the grammar parser checks and computes -/

/-- `parse_number` on a NUMBER lexeme: defined iff it has at most ten significant digits and the
    value fits u32 -/
def absNum (w : Text) : Option Nat :=
  if (stripZeros w).length > 10 then none
  else match pyInt (stripZeros w) with
    | some (some v) => if v > MAX_REPEAT then none else some v.toNat
    | _ => none

/-- `parse_int` on an INTEGER lexeme: defined iff `int()` accepts the sign and the significant
    digits -/
def absInt (w : Text) : Option Int :=
  match pyInt (intLiteral w) with
  | some (some v) => some v
  | _ => none

/-- the end of a range: the CHAR lexeme without its quotes decodes to one code point -/
def absChar (w : Text) : Option Nat :=
  match Unescape.unescape (stripQuotes w) with
  | .ok [a] => some a
  | _ => none

def CPost.abs : CPost → Option Post
  | .opt => some .opt
  | .rep => some .rep
  | .rep1 => some .rep1
  | .braces [some a] => (absNum a).map .exact
  | .braces [some a, none] => (absNum a).map .min
  | .braces [none, some a] => (absNum a).map .max
  | .braces [some a, none, some b] =>
    match absNum a, absNum b with
    | some m, some n => some (.minmax m n)
    | _, _ => none
  | .braces _ => none

def absPosts : List CPost → Option (List Post)
  | [] => some []
  | p :: ps =>
    match p.abs, absPosts ps with
    | some p', some ps' => some (p' :: ps')
    | _, _ => none

def absOptInt : Option Text → Option (Option Int)
  | none => some none
  | some w => (absInt w).map some

mutual
def CNode.abs : CNode → Option SNode
  | .str s => some (.str s)
  | .ci s => some (.ci s)
  | .range a b =>
    match absChar a, absChar b with
    | some x, some y => if x > y then none else some (.range x y)
    | _, _ => none
  | .ident name => some (.ident name)
  | .pushLit (some s) => some (.pushLit s)
  | .pushLit none => none
  | .push bar e =>
    match e.abs with
    | some e' => some (.push bar e')
    | none => none
  | .slice a b =>
    match absOptInt a, absOptInt b with
    | some x, some y => some (.slice x y)
    | _, _ => none
  | .paren bar e =>
    match e.abs with
    | some e' => some (.paren bar e')
    | none => none
def CTerm.abs : CTerm → Option STerm
  | .mk tag pre node post =>
    match node.abs, absPosts post with
    | some n, some p => some (.mk tag pre n p)
    | _, _ => none
def CExpr.abs : CExpr → Option SExpr
  | .one t =>
    match t.abs with
    | some t' => some (.one t')
    | none => none
  | .cons t bar rest =>
    match t.abs, rest.abs with
    | some t', some r' => some (.cons t' bar r')
    | _, _ => none
end

def CRule.abs (r : CRule) : Option SRule :=
  match r.body.abs with
  | some e => some ⟨r.docs, r.name, r.mod, r.bar, e⟩
  | none => none

def absRules : List CRule → Option (List SRule)
  | [] => some []
  | r :: rs =>
    match r.abs, absRules rs with
    | some r', some rs' => some (r' :: rs')
    | _, _ => none

def CGrammar.abs (g : CGrammar) : Option SGrammar :=
  match absRules g.rules with
  | some rs => some ⟨g.gdocs, rs, g.trailing⟩
  | none => none

/-! ### what the scanner guarantees about the lexemes -/

/-- the shape of an INTEGER lexeme: `[0-9]+|-0*[1-9][0-9]*` -/
def IsIntTok (w : Text) : Prop :=
  IsDigits w ∨ ∃ zs d ds, w = 45 :: (zs ++ d :: ds) ∧ (∀ z ∈ zs, z = 48) ∧ 49 ≤ d ∧ d ≤ 57 ∧
    ∀ c ∈ ds, isDigit c = true

def CPost.Valid : CPost → Prop
  | .braces items => ∀ w, some w ∈ items → IsDigits w
  | _ => True

mutual
def CNode.Valid : CNode → Prop
  | .range a b => IsCharLit a ∧ IsCharLit b
  | .ident name => IsIdent name
  | .push _ e => e.Valid
  | .paren _ e => e.Valid
  | .slice a b => (∀ w, a = some w → IsIntTok w) ∧ (∀ w, b = some w → IsIntTok w)
  | _ => True
def CTerm.Valid : CTerm → Prop
  | .mk tag _ node post =>
    (match tag with | some t => IsTagName t | none => True) ∧ node.Valid ∧ ∀ p ∈ post, p.Valid
def CExpr.Valid : CExpr → Prop
  | .one t => t.Valid
  | .cons t _ rest => t.Valid ∧ rest.Valid
end

def CRule.Valid (r : CRule) : Prop :=
  (∀ l ∈ r.docs, NoLF l) ∧ IsIdent r.name ∧
    (match r.mod with | some c => c = 95 ∨ c = 64 ∨ c = 36 ∨ c = 33 | none => True) ∧ r.body.Valid

def CGrammar.Valid (g : CGrammar) : Prop :=
  (∀ l ∈ g.gdocs, NoLF l) ∧ (∀ r ∈ g.rules, r.Valid) ∧ (∀ l ∈ g.trailing, NoLF l)

/-! ### the layout of a C-tree: as `GrammarText'`, with the lexemes verbatim -/

/-- how an emitted token (kind, value) is spelled: strings by any body that denotes the value,
    everything else verbatim -/
def SpellsA : KV → Text → Prop
  | (.string, s), w => ∃ body, w = 34 :: (body ++ [34]) ∧ StrBody body s
  | (.stringCI, s), w =>
    ∃ ws body, IsTrivia ws ∧ w = 94 :: (ws ++ 34 :: (body ++ [34])) ∧ StrBody body s
  | (_, v), w => w = v

/-- `t` is the tokens `kvs` as spelled (`SpellsA`), each followed by some trivia, and then `tl` -/
inductive ScA : List KV → Text → Text → Prop
  | nil (tl : Text) : ScA [] tl tl
  | cons (kv : KV) {kvs : List KV} {w ws t tl : Text} : SpellsA kv w → IsTrivia ws → ScA kvs t tl →
      ScA (kv :: kvs) (w ++ (ws ++ t)) tl

def CRulesText : List CRule → Text → Text → Prop
  | [], t, tl => t = tl
  | r :: rs, t, tl => ∃ t1 t2, DocsText' sRDOC r.docs t t1 ∧ ScA r.headKV t1 t2 ∧ CRulesText rs t2 tl

def CGrammarText (g : CGrammar) (t : Text) : Prop :=
  ∃ lead t0 t1 t2 e, IsTrivia lead ∧ t = lead ++ t0 ∧ DocsText' sGDOC g.gdocs t0 t1 ∧
    CRulesText g.rules t1 t2 ∧ DocsText' sRDOC g.trailing t2 e ∧ EndC e

end Front
end Pest
