/-
  Lemmas/FrontTotalParse.lean — the grammar-parser model (Front/Parse.lean) never runs out of
  fuel and never leaves through `exc` on token lists the scanner can produce, and the token of
  every error it reports comes from the list or is `eof` (helper lemmas for Props/C11.lean).

  Method (as in Lemmas/FrontTotalScan.lean).  `AllOK N S ts`: every token starts inside the text,
  its value has the shape its kind promises (`TokOK`) and it satisfies `S` — a free predicate,
  instantiated with "is a token of the original list or `eof`" to trace where error tokens come
  from.  `PR.Sat N S Q r` reads a result: `ok` satisfies `Q`, the token of an error starts
  inside the text and satisfies `S`, no `exc`, no `oof`.  The
  four primitives `current`/`next`/`advance`/`eat` are handled by continuation lemmas
  (`current_bind`, …) that hand the token (`= ts.headD eof`, `TokS`) and the new state
  (`Adv N S ts ts'`: `ts' = ts.tail`) to the rest of the block.  Loops by induction on their
  bound under `|ts| < bound`; `parse_expression` by induction on its fuel under `|ts| < fuel`
  with the open-recursion hypothesis `RecOKP` — every recursive call happens after a token was
  consumed (`advance` after a kind test that excludes `eof`, or `next` under the loop test
  `kind != EOI`).
-/
import PestModel.Front.Parse
import PestModel.Lemmas.FrontTotalScan
import PestModel.Lemmas.FrontStrip

namespace Pest
namespace Front
open Unescape (escapeLen unescape)

/-- a token of a text of length `N` that moreover satisfies `S` (used with
    `S t := t ∈ tokens ∨ t = eof` to trace where error tokens come from) -/
structure TokS (N : Nat) (S : Token → Prop) (t : Token) : Prop extends TokOK N t where
  inS : S t

/-- what `PR.Sat` asks of an error token -/
theorem TokS.err {N : Nat} {S : Token → Prop} {t : Token} (h : TokS N S t) : t.start ≤ N ∧ S t :=
  ⟨h.start_le, h.inS⟩

/-- every token of the list is a token of a text of length `N` (and satisfies `S`) -/
def AllOK (N : Nat) (S : Token → Prop) (ts : List Token) : Prop := ∀ t ∈ ts, TokS N S t

/-- `self.eof` -/
structure EofOK (N : Nat) (S : Token → Prop) (eof : Token) : Prop where
  kind : eof.kind = .eoi
  start : eof.start ≤ N
  inS : S eof

theorem EofOK.tok {N : Nat} {S : Token → Prop} {eof : Token} (h : EofOK N S eof) : TokS N S eof :=
  ⟨⟨h.start, by rw [h.kind]; trivial⟩, h.inS⟩

/-- reading a result: normal results satisfy `Q`, the token of an error starts inside the
    text, nothing else -/
def PR.Sat {α} (N : Nat) (S : Token → Prop) (Q : α → List Token → Prop) : PR α → Prop
  | .ok a ts => Q a ts
  | .err _ t => t.start ≤ N ∧ S t
  | .exc _ => False
  | .oof => False

theorem PR.Sat.mono {α} {N : Nat} {S : Token → Prop} {Q Q' : α → List Token → Prop} {r : PR α} (h : r.Sat N S Q)
    (hq : ∀ a ts, Q a ts → Q' a ts) : r.Sat N S Q' := by
  cases r with
  | ok a ts => exact hq a ts h
  | err k t => exact h
  | exc n => exact h
  | oof => exact h

theorem pbind_def {α β} (m : P α) (f : α → P β) (eof : Token) (ts : List Token) :
    (m >>= f) eof ts = match m eof ts with
      | .ok a ts' => f a eof ts'
      | .err k t => .err k t
      | .exc n => .exc n
      | .oof => .oof := rfl

theorem PR.Sat.bind {α β} {N : Nat} {S : Token → Prop} {m : P α} {f : α → P β} {eof : Token} {ts : List Token}
    {Q : β → List Token → Prop}
    (h : (m eof ts).Sat N S (fun a ts' => (f a eof ts').Sat N S Q)) : ((m >>= f) eof ts).Sat N S Q := by
  rw [pbind_def]
  cases hm : m eof ts with
  | ok a ts' => rw [hm] at h; exact h
  | err k t => rw [hm] at h; exact h
  | exc n => rw [hm] at h; exact h
  | oof => rw [hm] at h; exact h

theorem PR.Sat.bind' {α β} {N : Nat} {S : Token → Prop} {m : P α} {f : α → P β} {eof : Token} {ts : List Token}
    {P' : α → List Token → Prop} {Q : β → List Token → Prop} (hm : (m eof ts).Sat N S P')
    (h : ∀ a ts', P' a ts' → (f a eof ts').Sat N S Q) : ((m >>= f) eof ts).Sat N S Q :=
  PR.Sat.bind (hm.mono h)

/-! ### the primitives -/

/-- `ts'` is `ts` after `self.pos += 1` -/
structure Adv (N : Nat) (S : Token → Prop) (ts ts' : List Token) : Prop where
  ok : AllOK N S ts'
  eq : ts' = ts.tail

theorem Adv.le {N : Nat} {S : Token → Prop} {ts ts' : List Token} (h : Adv N S ts ts') : ts'.length ≤ ts.length := by
  rw [h.eq]; simp

theorem Adv.lt {N : Nat} {S : Token → Prop} {ts ts' : List Token} (h : Adv N S ts ts') (hne : ts ≠ []) :
    ts'.length + 1 ≤ ts.length := by
  rw [h.eq]
  cases ts with
  | nil => exact absurd rfl hne
  | cons t r => simp

theorem adv_tail {N : Nat} {S : Token → Prop} {ts : List Token} (h : AllOK N S ts) : Adv N S ts ts.tail :=
  ⟨fun t ht => h t (List.mem_of_mem_tail ht), rfl⟩

theorem headD_ok {N : Nat} {S : Token → Prop} {eof : Token} {ts : List Token} (he : EofOK N S eof) (h : AllOK N S ts) :
    TokS N S (ts.headD eof) := by
  cases ts with
  | nil => exact he.tok
  | cons t r => exact h t (by simp)

/-- a current token that is not `EOI` is a token of the list -/
theorem ne_nil_of_kind {N : Nat} {S : Token → Prop} {eof t : Token} {ts : List Token} (he : EofOK N S eof)
    (ht : t = ts.headD eof) (hk : t.kind ≠ .eoi) : ts ≠ [] := by
  intro h
  subst h
  exact hk (by rw [ht]; exact he.kind)

section prims
variable {N : Nat} {S : Token → Prop} {eof : Token} {ts : List Token} {β : Type} {Q : β → List Token → Prop}

theorem current_bind (he : EofOK N S eof) (hts : AllOK N S ts) {f : Token → P β}
    (h : ∀ t, TokS N S t → t = ts.headD eof → (f t eof ts).Sat N S Q) :
    ((current >>= f) eof ts).Sat N S Q :=
  h _ (headD_ok he hts) rfl

theorem next_eq (eof : Token) (ts : List Token) : next eof ts = .ok (ts.headD eof) ts.tail := by
  cases ts <;> rfl

theorem next_bind (he : EofOK N S eof) (hts : AllOK N S ts) {f : Token → P β}
    (h : ∀ t ts', TokS N S t → t = ts.headD eof → Adv N S ts ts' → (f t eof ts').Sat N S Q) :
    ((next >>= f) eof ts).Sat N S Q := by
  rw [pbind_def, next_eq]
  exact h _ _ (headD_ok he hts) rfl (adv_tail hts)

theorem advance_bind (hts : AllOK N S ts) {f : Unit → P β}
    (h : ∀ ts', Adv N S ts ts' → (f () eof ts').Sat N S Q) :
    ((advance >>= f) eof ts).Sat N S Q :=
  h _ (adv_tail hts)

theorem eat_bind (he : EofOK N S eof) (hts : AllOK N S ts) (kind : TK) {f : Token → P β}
    (h : ∀ t ts', TokS N S t → t.kind = kind → t = ts.headD eof → Adv N S ts ts' →
      (f t eof ts').Sat N S Q) :
    ((eat kind >>= f) eof ts).Sat N S Q := by
  unfold eat
  refine PR.Sat.bind ?_
  refine next_bind he hts (fun t ts' ht hh hadv => ?_)
  by_cases hk : t.kind = kind
  · rw [if_pos hk]; exact h t ts' ht hk hh hadv
  · rw [if_neg hk]; exact ht.err

theorem ite_sat {α} {c : Prop} [Decidable c] {a b : P α} {Q' : α → List Token → Prop}
    (ha : c → (a eof ts).Sat N S Q') (hb : ¬c → (b eof ts).Sat N S Q') :
    ((if c then a else b) eof ts).Sat N S Q' := by
  by_cases h : c
  · rw [if_pos h]; exact ha h
  · rw [if_neg h]; exact hb h

theorem fail_sat {α} {t : Token} (ht : TokS N S t) (k : EK) (Q : α → List Token → Prop) :
    ((fail k t : P α) eof ts).Sat N S Q := ht.err

end prims

/-! ### `int()` and `unescape_string` on scanned values -/

theorem pyInt_digits {v : Text} (h : IsDigits v) : pyInt v ≠ none := by
  obtain ⟨hne, hall⟩ := h
  cases v with
  | nil => exact absurd rfl hne
  | cons c r =>
    have hc : c ≠ 45 := by
      intro e
      have := hall c (by simp)
      rw [e] at this
      revert this; decide
    have hall' : (c :: r).all isDigit = true := List.all_eq_true.mpr hall
    unfold pyInt
    split
    · rename_i neg ds heq
      split at heq
      · rename_i r' heq'
        cases heq'
        exact absurd rfl hc
      · cases heq
        simp only [List.isEmpty_cons, hall', Bool.not_true, Bool.or_self, Bool.false_eq_true, if_false]
        split <;> simp

theorem pyInt_neg {ds : Text} (h : IsDigits ds) : pyInt (45 :: ds) ≠ none := by
  obtain ⟨hne, hall⟩ := h
  have hall' : ds.all isDigit = true := List.all_eq_true.mpr hall
  have he : ds.isEmpty = false := by
    cases ds with
    | nil => exact absurd rfl hne
    | cons c r => rfl
  unfold pyInt
  simp only [he, hall', Bool.not_true, Bool.or_self, Bool.false_eq_true, if_false]
  split <;> simp

theorem pyInt_intLit {v : Text} (h : IsIntLit v) : pyInt v ≠ none := by
  rcases h with h | ⟨ds, rfl, h⟩
  · exact pyInt_digits h
  · exact pyInt_neg h

theorem pyInt_tok {N : Nat} {t : Token} (ht : TokOK N t)
    (hk : t.kind = .number ∨ t.kind = .integer) : pyInt t.value ≠ none := by
  have hv := ht.val
  rcases hk with hk | hk
  · rw [hk] at hv; exact pyInt_digits hv
  · rw [hk] at hv; exact pyInt_intLit hv

section funs
variable {N : Nat} {S : Token → Prop} {eof : Token} {ts : List Token}

theorem isDigits_stripZeros {v : Text} (h : ∀ c ∈ v, isDigit c = true) : IsDigits (stripZeros v) :=
  ⟨stripZeros_ne_nil v, stripZeros_all h⟩

/-- the literal `parse_int` hands to `int()` is in `int()`'s domain -/
theorem pyInt_intLiteral {v : Text} (h : IsIntLit v) : pyInt (intLiteral v) ≠ none := by
  rcases h with h | ⟨ds, rfl, h⟩
  · rw [intLiteral_pos (head_ne_minus_of_digits h.2)]
    exact pyInt_digits (isDigits_stripZeros h.2)
  · rw [intLiteral_neg]
    exact pyInt_neg (isDigits_stripZeros h.2)

theorem intLit_tok {N : Nat} {t : Token} (ht : TokOK N t)
    (hk : t.kind = .number ∨ t.kind = .integer) : IsIntLit t.value := by
  have hv := ht.val
  rcases hk with hk | hk
  · rw [hk] at hv; exact .inl hv
  · rw [hk] at hv; exact hv

theorem parseInt_sat {t : Token} (ht : TokS N S t) (hk : t.kind = .number ∨ t.kind = .integer) :
    (parseInt t eof ts).Sat N S (fun _ ts' => ts' = ts) := by
  unfold parseInt
  have := pyInt_intLiteral (intLit_tok ht.toTokOK hk)
  cases hp : pyInt (intLiteral t.value) with
  | none => exact absurd hp this
  | some o =>
    cases o with
    | none => exact ht.err
    | some v => exact rfl

/-- at most ten digits never hit `int()`'s digit limit -/
theorem pyInt_short {ds : Text} (h : IsDigits ds) (hl : ds.length ≤ 10) : ∃ v, pyInt ds = some (some v) := by
  obtain ⟨hne, hall⟩ := h
  cases ds with
  | nil => exact absurd rfl hne
  | cons c r =>
    have hc : c ≠ 45 := by
      intro e
      have := hall c (by simp)
      rw [e] at this
      revert this; decide
    have hall' : (c :: r).all isDigit = true := List.all_eq_true.mpr hall
    unfold pyInt
    split
    · rename_i neg ds heq
      split at heq
      · rename_i r' heq'
        cases heq'
        exact absurd rfl hc
      · cases heq
        simp only [List.isEmpty_cons, hall', Bool.not_true, Bool.or_self, Bool.false_eq_true, if_false]
        rw [if_neg (by omega)]
        exact ⟨_, rfl⟩

theorem parseNumber_sat {t : Token} (ht : TokS N S t) (hk : t.kind = .number) :
    (parseNumber t eof ts).Sat N S (fun _ ts' => ts' = ts) := by
  unfold parseNumber
  have hv := ht.toTokOK.val
  rw [hk] at hv
  split
  · exact ht.err
  · rename_i hl
    obtain ⟨v, hp⟩ := pyInt_short (isDigits_stripZeros hv.2) (by omega)
    rw [hp]
    simp only
    split
    · exact ht.err
    · exact rfl

theorem stripQuotes_lit (body : Text) : stripQuotes (39 :: (body ++ [39])) = body := by
  simp [stripQuotes]

theorem unescapeP_sat {v : Text} (hv : IsCharLit v) {t : Token} (ht : TokS N S t) :
    (unescapeP (stripQuotes v) t eof ts).Sat N S (fun r ts' => ts' = ts ∧ ∃ c, r = [c]) := by
  obtain ⟨body, rfl, hb⟩ := hv
  rw [stripQuotes_lit]
  unfold unescapeP
  rcases hb with ⟨c, rfl, hc⟩ | ⟨e, rfl, he⟩
  · rw [Unescape.unescape_cons_char [] hc, Unescape.unescape_nil]
    exact ⟨rfl, c, rfl⟩
  · rcases Unescape.unescape_one_escape he with ⟨c, hc⟩ | hr
    · rw [hc]; exact ⟨rfl, c, rfl⟩
    · rw [hr]; exact ht.err

end funs

/-! ### postfix operators -/

section funs2
variable {N : Nat} {S : Token → Prop} {eof : Token}

/-- postcondition "the remaining tokens are fine and none was given back" -/
abbrev Le (N : Nat) (S : Token → Prop) (ts : List Token) {α} : α → List Token → Prop :=
  fun _ ts' => AllOK N S ts' ∧ ts'.length ≤ ts.length

theorem parseRepeat_sat (he : EofOK N S eof) (e : Expr) {ts : List Token} (hts : AllOK N S ts) :
    (parseRepeat e eof ts).Sat N S (Le N S ts) := by
  unfold parseRepeat
  refine next_bind he hts (fun token ts1 htok _ a1 => ?_)
  have l1 := a1.le
  by_cases hk : token.kind = .number
  · rw [if_pos hk]
    refine current_bind he a1.ok (fun c hc _ => ?_)
    by_cases hr : c.kind = .rbrace
    · rw [if_pos hr]
      refine advance_bind a1.ok (fun ts2 a2 => ?_)
      have l2 := a2.le
      refine PR.Sat.bind' (parseNumber_sat htok hk) (fun n ts3 h3 => ?_)
      subst h3
      exact ⟨a2.ok, by omega⟩
    · rw [if_neg hr]
      refine eat_bind he a1.ok .comma (fun _ ts2 _ _ _ a2 => ?_)
      have l2 := a2.le
      refine current_bind he a2.ok (fun c2 hc2 _ => ?_)
      by_cases hr2 : c2.kind = .rbrace
      · rw [if_pos hr2]
        refine advance_bind a2.ok (fun ts3 a3 => ?_)
        have l3 := a3.le
        refine PR.Sat.bind' (parseNumber_sat htok hk) (fun n ts4 h4 => ?_)
        subst h4
        exact ⟨a3.ok, by omega⟩
      · rw [if_neg hr2]
        refine eat_bind he a2.ok .number (fun stop ts3 hstop hsk _ a3 => ?_)
        have l3 := a3.le
        refine eat_bind he a3.ok .rbrace (fun _ ts4 _ _ _ a4 => ?_)
        have l4 := a4.le
        refine PR.Sat.bind' (parseNumber_sat htok hk) (fun m ts5 h5 => ?_)
        subst h5
        refine PR.Sat.bind' (parseNumber_sat hstop hsk) (fun n ts6 h6 => ?_)
        subst h6
        exact ⟨a4.ok, by omega⟩
  · rw [if_neg hk]
    by_cases hc : token.kind = .comma
    · rw [if_pos hc]
      refine eat_bind he a1.ok .number (fun number ts2 hnum hnk _ a2 => ?_)
      have l2 := a2.le
      refine eat_bind he a2.ok .rbrace (fun _ ts3 _ _ _ a3 => ?_)
      have l3 := a3.le
      refine PR.Sat.bind' (parseNumber_sat hnum hnk) (fun n ts4 h4 => ?_)
      subst h4
      exact ⟨a3.ok, by omega⟩
    · rw [if_neg hc]
      exact fail_sat htok _ _

theorem parsePostfix_sat (he : EofOK N S eof) (e : Expr) {ts : List Token} (hts : AllOK N S ts) :
    (parsePostfix e eof ts).Sat N S (fun r ts' => AllOK N S ts' ∧ ts'.length ≤ ts.length ∧
      (r ≠ none → ts'.length + 1 ≤ ts.length)) := by
  unfold parsePostfix
  refine current_bind he hts (fun c hc hh => ?_)
  have one : ∀ (x : Expr), c.kind ≠ .eoi →
      ((do advance; pure (some x) : P (Option Expr)) eof ts).Sat N S
        (fun r ts' => AllOK N S ts' ∧ ts'.length ≤ ts.length ∧
          (r ≠ none → ts'.length + 1 ≤ ts.length)) := by
    intro x hk
    refine advance_bind hts (fun ts1 a1 => ?_)
    have := a1.lt (ne_nil_of_kind he hh hk)
    exact ⟨a1.ok, by omega, fun _ => by omega⟩
  by_cases h1 : c.kind = .optionOp
  · rw [if_pos h1]; exact one _ (by rw [h1]; decide)
  · rw [if_neg h1]
    by_cases h2 : c.kind = .repeatOp
    · rw [if_pos h2]; exact one _ (by rw [h2]; decide)
    · rw [if_neg h2]
      by_cases h3 : c.kind = .repeatOnceOp
      · rw [if_pos h3]; exact one _ (by rw [h3]; decide)
      · rw [if_neg h3]
        by_cases h4 : c.kind = .lbrace
        · rw [if_pos h4]
          refine advance_bind hts (fun ts1 a1 => ?_)
          have := a1.lt (ne_nil_of_kind he hh (by rw [h4]; decide))
          refine PR.Sat.bind' (parseRepeat_sat he e a1.ok) (fun r ts2 ⟨h2a, h2b⟩ => ?_)
          exact ⟨h2a, by omega, fun _ => by omega⟩
        · rw [if_neg h4]
          exact ⟨hts, Nat.le_refl _, fun h => absurd rfl h⟩

theorem postfixes_sat (he : EofOK N S eof) : ∀ (n : Nat) (left : Expr) (ts : List Token),
    AllOK N S ts → ts.length < n → (postfixes n left eof ts).Sat N S (Le N S ts)
  | 0, _, _, _, h => by omega
  | n + 1, left, ts, hts, h => by
    rw [postfixes]
    refine PR.Sat.bind' (parsePostfix_sat he left hts) (fun r ts1 ⟨h1, h2, h3⟩ => ?_)
    cases r with
    | none => exact ⟨h1, h2⟩
    | some e =>
      have := h3 (by simp)
      exact (postfixes_sat he n e ts1 h1 (by omega)).mono
        (fun _ ts' h' => ⟨h'.1, by have := h'.2; omega⟩)

theorem postfixesTop_sat (he : EofOK N S eof) (left : Expr) {ts : List Token} (hts : AllOK N S ts) :
    ((fun eof ts => postfixes (ts.length + 1) left eof ts : P Expr) eof ts).Sat N S (Le N S ts) :=
  postfixes_sat he _ left ts hts (Nat.lt_succ_self _)

/-! ### primaries -/

/-- the optional `INTEGER` of `parse_peek_expression` -/
theorem optInt_sat (he : EofOK N S eof) {ts : List Token} (hts : AllOK N S ts) :
    ((do
      if (← current).kind = .integer then do
        let t ← next
        let v ← parseInt t
        pure (some v)
      else pure none : P (Option Int)) eof ts).Sat N S (Le N S ts) := by
  refine current_bind he hts (fun c hc hh => ?_)
  by_cases hk : c.kind = .integer
  · rw [if_pos hk]
    refine next_bind he hts (fun t ts1 ht hh' a1 => ?_)
    have hk' : t.kind = .integer := by rw [hh', ← hh]; exact hk
    refine PR.Sat.bind' (parseInt_sat ht (.inr hk')) (fun v ts2 h2 => ?_)
    subst h2
    exact ⟨a1.ok, a1.le⟩
  · rw [if_neg hk]
    exact ⟨hts, Nat.le_refl _⟩

theorem parsePeek_sat (he : EofOK N S eof) {ts : List Token} (hts : AllOK N S ts) :
    (parsePeek eof ts).Sat N S (Le N S ts) := by
  unfold parsePeek
  refine current_bind he hts (fun c hc hh => ?_)
  by_cases hk : c.kind ≠ .lbracket
  · rw [if_pos hk]; exact ⟨hts, Nat.le_refl _⟩
  · rw [if_neg hk]
    refine eat_bind he hts .lbracket (fun _ ts1 _ _ _ a1 => ?_)
    have l1 := a1.le
    refine PR.Sat.bind' (optInt_sat he a1.ok) (fun start ts2 ⟨h2, l2⟩ => ?_)
    refine eat_bind he h2 .rangeOp (fun _ ts3 _ _ _ a3 => ?_)
    have l3 := a3.le
    refine PR.Sat.bind' (optInt_sat he a3.ok) (fun stop ts4 ⟨h4, l4⟩ => ?_)
    refine eat_bind he h4 .rbracket (fun _ ts5 _ _ _ a5 => ?_)
    have l5 := a5.le
    exact ⟨a5.ok, by omega⟩

theorem parseRange_sat (he : EofOK N S eof) {token : Token} (htok : TokS N S token)
    {ts : List Token} (hts : AllOK N S ts) :
    (parseRange token eof ts).Sat N S (Le N S ts) := by
  unfold parseRange
  refine eat_bind he hts .char (fun first ts1 hfirst hfk _ a1 => ?_)
  have l1 := a1.le
  have hv1 : IsCharLit first.value := by have := hfirst.val; rw [hfk] at this; exact this
  refine PR.Sat.bind' (unescapeP_sat hv1 htok) (fun start ts2 ⟨h2, a, ha⟩ => ?_)
  subst h2 ha
  refine eat_bind he a1.ok .rangeOp (fun _ ts3 _ _ _ a3 => ?_)
  have l3 := a3.le
  refine eat_bind he a3.ok .char (fun stopToken ts4 hstop hsk _ a4 => ?_)
  have l4 := a4.le
  have hv2 : IsCharLit stopToken.value := by have := hstop.val; rw [hsk] at this; exact this
  refine PR.Sat.bind' (unescapeP_sat hv2 hstop) (fun stop ts5 ⟨h5, b, hb⟩ => ?_)
  subst h5 hb
  dsimp only
  split
  · exact fail_sat htok _ _
  · exact ⟨a4.ok, by omega⟩

end funs2

/-! ### expressions -/

section exprs
variable {N : Nat} {S : Token → Prop} {eof : Token}

/-- the hypothesis on the recursive call `self.parse_expression`: it behaves on every token
    list shorter than `L` -/
def RecOKP (N : Nat) (S : Token → Prop) (eof : Token) (L : Nat) (rec : Nat → P Expr) : Prop :=
  ∀ p ts, AllOK N S ts → ts.length < L → (rec p eof ts).Sat N S (Le N S ts)

theorem parsePrimary_sat (he : EofOK N S eof) (builtins : List String) {L : Nat}
    {rec : Nat → P Expr} (hrec : RecOKP N S eof L rec) (tag : Option String) {ts : List Token}
    (hts : AllOK N S ts) (hL : ts.length ≤ L) :
    (parsePrimary builtins rec tag eof ts).Sat N S (Le N S ts) := by
  unfold parsePrimary
  refine current_bind he hts (fun token htok hh => ?_)
  have recur : ∀ (p : Nat) (f : Expr → P Expr),
      token.kind ≠ .eoi →
      (∀ e ts', AllOK N S ts' → ts'.length + 1 ≤ ts.length → (f e eof ts').Sat N S (Le N S ts)) →
      ((do advance; let e ← rec p; f e : P Expr) eof ts).Sat N S (Le N S ts) := by
    intro p f hk hf
    refine advance_bind hts (fun ts1 a1 => ?_)
    have := a1.lt (ne_nil_of_kind he hh hk)
    refine PR.Sat.bind' (hrec p ts1 a1.ok (by omega)) (fun e ts2 ⟨h2, l2⟩ => ?_)
    exact hf e ts2 h2 (by omega)
  have adv1 : ∀ (x : Expr), ((do advance; pure x : P Expr) eof ts).Sat N S (Le N S ts) := by
    intro x
    refine advance_bind hts (fun ts1 a1 => ?_)
    exact ⟨a1.ok, a1.le⟩
  cases hk : token.kind
  case string =>
    refine next_bind he hts (fun t ts1 _ _ a1 => ?_)
    exact ⟨a1.ok, a1.le⟩
  case stringCI =>
    refine next_bind he hts (fun t ts1 _ _ a1 => ?_)
    exact ⟨a1.ok, a1.le⟩
  case lparen =>
    refine recur _ _ (by rw [hk]; decide) (fun e ts2 h2 l2 => ?_)
    refine eat_bind he h2 .rparen (fun _ ts3 _ _ _ a3 => ?_)
    have := a3.le
    exact ⟨a3.ok, by omega⟩
  case identifier =>
    refine next_bind he hts (fun t ts1 _ _ a1 => ?_)
    exact ite_sat (fun _ => ⟨a1.ok, a1.le⟩) (fun _ => ⟨a1.ok, a1.le⟩)
  case pushLiteral =>
    refine advance_bind hts (fun ts1 a1 => ?_)
    have l1 := a1.le
    refine eat_bind he a1.ok .lparen (fun _ ts2 _ _ _ a2 => ?_)
    have l2 := a2.le
    refine eat_bind he a2.ok .string (fun _ ts3 _ _ _ a3 => ?_)
    have l3 := a3.le
    refine eat_bind he a3.ok .rparen (fun _ ts4 _ _ _ a4 => ?_)
    have l4 := a4.le
    exact ⟨a4.ok, by omega⟩
  case push =>
    refine advance_bind hts (fun ts1 a1 => ?_)
    have := a1.lt (ne_nil_of_kind he hh (by rw [hk]; decide))
    refine eat_bind he a1.ok .lparen (fun _ ts2 _ _ _ a2 => ?_)
    have l2 := a2.le
    refine PR.Sat.bind' (hrec _ ts2 a2.ok (by omega)) (fun e ts3 ⟨h3, l3⟩ => ?_)
    refine eat_bind he h3 .rparen (fun _ ts4 _ _ _ a4 => ?_)
    have l4 := a4.le
    exact ⟨a4.ok, by omega⟩
  case peek =>
    refine advance_bind hts (fun ts1 a1 => ?_)
    have l1 := a1.le
    exact (parsePeek_sat he a1.ok).mono (fun _ ts' h' => ⟨h'.1, by have := h'.2; omega⟩)
  case peekAll => exact adv1 _
  case pop => exact adv1 _
  case drop => exact adv1 _
  case popAll => exact adv1 _
  case char => exact parseRange_sat he htok hts
  case posPred =>
    exact recur _ _ (by rw [hk]; decide) (fun e ts2 h2 l2 => ⟨h2, by omega⟩)
  case negPred =>
    exact recur _ _ (by rw [hk]; decide) (fun e ts2 h2 l2 => ⟨h2, by omega⟩)
  all_goals exact fail_sat htok _ _

/-- `parse_infix_expression` is only called with an operator token at hand -/
theorem parseInfix_sat (he : EofOK N S eof) {L : Nat} {rec : Nat → P Expr}
    (hrec : RecOKP N S eof L rec) (left : Expr) {ts : List Token} (hts : AllOK N S ts)
    (hne : ts ≠ []) (hL : ts.length ≤ L) :
    (parseInfix rec left eof ts).Sat N S
      (fun _ ts' => AllOK N S ts' ∧ ts'.length + 1 ≤ ts.length) := by
  unfold parseInfix
  refine next_bind he hts (fun token ts1 htok _ a1 => ?_)
  have := a1.lt hne
  refine PR.Sat.bind' (hrec _ ts1 a1.ok (by omega)) (fun right ts2 ⟨h2, l2⟩ => ?_)
  cases hk : token.kind
  case choiceOp =>
    dsimp only
    split
    · exact ⟨h2, by omega⟩
    · exact ⟨h2, by omega⟩
  case sequenceOp =>
    dsimp only
    split
    · exact ⟨h2, by omega⟩
    · exact ⟨h2, by omega⟩
  all_goals exact fail_sat htok _ _

theorem infixes_sat (he : EofOK N S eof) {L : Nat} {rec : Nat → P Expr}
    (hrec : RecOKP N S eof L rec) (precedence : Nat) :
    ∀ (n : Nat) (left : Expr) (ts : List Token), AllOK N S ts → ts.length ≤ L → ts.length < n →
      (infixes rec precedence n left eof ts).Sat N S (Le N S ts)
  | 0, _, _, _, _, h => by omega
  | n + 1, left, ts, hts, hL, h => by
    rw [infixes]
    refine current_bind he hts (fun c hc hh => ?_)
    refine ite_sat (fun _ => ⟨hts, Nat.le_refl _⟩) (fun hcond => ?_)
    · have hk : c.kind ≠ .eoi := by
        intro hk
        apply hcond
        rw [hk]
        rfl
      refine PR.Sat.bind' (parseInfix_sat he hrec left hts (ne_nil_of_kind he hh hk) hL)
        (fun e ts1 ⟨h1, l1⟩ => ?_)
      exact (infixes_sat he hrec precedence n e ts1 h1 (by omega) (by omega)).mono
        (fun _ ts' h' => ⟨h'.1, by have := h'.2; omega⟩)

theorem parseHead_sat (he : EofOK N S eof) {ts : List Token} (hts : AllOK N S ts) :
    (parseHead eof ts).Sat N S (Le N S ts) := by
  unfold parseHead
  refine PR.Sat.bind' (P' := Le N S ts) ?_ (fun _ ts1 ⟨h1, l1⟩ => ?_)
  · refine current_bind he hts (fun c hc hh => ?_)
    exact ite_sat (fun _ => ⟨(adv_tail hts).ok, (adv_tail hts).le⟩) (fun _ => ⟨hts, Nat.le_refl _⟩)
  · refine current_bind he h1 (fun c hc hh => ?_)
    refine ite_sat (fun _ => ?_) (fun _ => ?_)
    · refine next_bind he h1 (fun t ts2 _ _ a2 => ?_)
      have l2 := a2.le
      refine eat_bind he a2.ok .assignOp (fun _ ts3 _ _ _ a3 => ?_)
      have l3 := a3.le
      exact ⟨a3.ok, by omega⟩
    · exact ⟨h1, l1⟩

theorem exprBody_sat (he : EofOK N S eof) (builtins : List String) {L : Nat}
    {rec : Nat → P Expr} (hrec : RecOKP N S eof L rec) (precedence : Nat) {ts : List Token}
    (hts : AllOK N S ts) (hL : ts.length ≤ L) :
    (exprBody builtins rec precedence eof ts).Sat N S (Le N S ts) := by
  unfold exprBody
  refine PR.Sat.bind' (parseHead_sat he hts) (fun tag ts1 ⟨h1, l1⟩ => ?_)
  refine PR.Sat.bind' (parsePrimary_sat he builtins hrec tag h1 (by omega))
    (fun left ts2 ⟨h2, l2⟩ => ?_)
  refine PR.Sat.bind' (postfixesTop_sat he left h2) (fun left' ts3 ⟨h3, l3⟩ => ?_)
  exact (infixes_sat he hrec precedence _ left' ts3 h3 (by omega) (Nat.lt_succ_self _)).mono
    (fun _ ts' h' => ⟨h'.1, by have := h'.2; omega⟩)

/-- the depth fuel of `parse_expression` suffices: every nested call happens after at least
    one more token was consumed -/
theorem parseExpression_ok (he : EofOK N S eof) (builtins : List String) :
    ∀ fuel, RecOKP N S eof fuel (parseExpression builtins fuel)
  | 0 => fun _ _ _ h => by omega
  | fuel + 1 => fun p _ hts h =>
    exprBody_sat he builtins (parseExpression_ok he builtins fuel) p hts (by omega)

/-! ### rules -/

theorem docLines_sat (he : EofOK N S eof) (kind : TK) (hkind : kind ≠ .eoi) :
    ∀ (n : Nat) (acc : List Text) (ts : List Token), AllOK N S ts → ts.length < n →
      (docLines kind n acc eof ts).Sat N S (Le N S ts)
  | 0, _, _, _, h => by omega
  | n + 1, acc, ts, hts, h => by
    rw [docLines]
    refine current_bind he hts (fun c hc hh => ?_)
    refine ite_sat (fun hk => ?_) (fun _ => ?_)
    · refine advance_bind hts (fun ts1 a1 => ?_)
      have := a1.lt (ne_nil_of_kind he hh (by rw [hk]; exact hkind))
      refine eat_bind he a1.ok .commentText (fun t ts2 _ _ _ a2 => ?_)
      have := a2.le
      exact (docLines_sat he kind hkind n _ ts2 a2.ok (by omega)).mono
        (fun _ ts' h' => ⟨h'.1, by have := h'.2; omega⟩)
    · exact ⟨hts, Nat.le_refl _⟩

theorem parseModifier_sat (he : EofOK N S eof) {ts : List Token} (hts : AllOK N S ts) :
    (parseModifier eof ts).Sat N S (Le N S ts) := by
  unfold parseModifier
  refine current_bind he hts (fun c hc hh => ?_)
  refine ite_sat (fun _ => ?_) (fun _ => ?_)
  · refine next_bind he hts (fun t ts1 _ _ a1 => ?_)
    exact ⟨a1.ok, a1.le⟩
  · exact ⟨hts, Nat.le_refl _⟩

theorem parseRules_sat (he : EofOK N S eof) (builtins : List String) :
    ∀ (n : Nat) (rules : List FRule) (ts : List Token), AllOK N S ts → ts.length < n →
      (parseRules builtins n rules eof ts).Sat N S (fun _ _ => True)
  | 0, _, _, _, h => by omega
  | n + 1, rules, ts, hts, h => by
    rw [parseRules]
    refine current_bind he hts (fun c hc hh => ?_)
    refine ite_sat (fun _ => trivial) (fun _ => ?_)
    · refine PR.Sat.bind' (docLines_sat he .ruleDoc (by decide) _ [] ts hts (Nat.lt_succ_self _))
        (fun doc ts1 ⟨h1, l1⟩ => ?_)
      refine current_bind he h1 (fun c1 hc1 hh1 => ?_)
      refine ite_sat (fun _ => trivial) (fun hk1 => ?_)
      · refine eat_bind he h1 .identifier (fun ident ts2 _ _ _ a2 => ?_)
        have := a2.lt (ne_nil_of_kind he hh1 hk1)
        refine eat_bind he a2.ok .assignOp (fun _ ts3 _ _ _ a3 => ?_)
        have := a3.le
        refine PR.Sat.bind' (parseModifier_sat he a3.ok) (fun modifier ts4 ⟨h4, l4⟩ => ?_)
        refine eat_bind he h4 .lbrace (fun _ ts5 _ _ _ a5 => ?_)
        have := a5.le
        refine PR.Sat.bind' (parseExpression_ok he builtins _ PRECEDENCE_LOWEST ts5 a5.ok
          (Nat.lt_succ_self _)) (fun e ts6 ⟨h6, l6⟩ => ?_)
        refine eat_bind he h6 .rbrace (fun _ ts7 _ _ _ a7 => ?_)
        have := a7.le
        exact parseRules_sat he builtins n _ ts7 a7.ok (by omega)

/-- **the grammar parser is total** on token lists the scanner can produce -/
theorem parseTokens_sat (he : EofOK N S eof) (builtins : List String) {ts : List Token}
    (hts : AllOK N S ts) : (parseTokens builtins eof ts).Sat N S (fun _ _ => True) := by
  unfold parseTokens
  refine PR.Sat.bind' (docLines_sat he .grammarDoc (by decide) _ [] ts hts (Nat.lt_succ_self _))
    (fun gdoc ts1 ⟨h1, l1⟩ => ?_)
  refine PR.Sat.bind' (parseRules_sat he builtins _ [] ts1 h1 (Nat.lt_succ_self _))
    (fun rules ts2 _ => ?_)
  trivial

end exprs

end Front
end Pest
