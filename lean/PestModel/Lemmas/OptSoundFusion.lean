/-
  Lemmas/OptSoundFusion.lean — `_optimize_skip_rule`: adding the fused `SKIP` rule does not change
  the meaning of any expression that does not mention `SKIP`.

  * `ext_equiv`: the generic statement, for a table `g0` that agrees with `g` on every name but
    `SKIP`, given that implicit trivia is simulated in both directions.
  * `skipC_fwd` / `skipC_bwd`: the COMMENT case, `SKIP = Repeat(COMMENT.expression)`.
-/
import PestModel.Lemmas.OptSoundRun

set_option linter.unusedVariables false

namespace Pest
namespace OptS

open L0

variable (inp : Input)

/-- no reference to `SKIP` -/
def NSK : Expr → Prop
  | .ident n _ => n ≠ "SKIP"
  | _ => True

/-- expressions that do not mention `SKIP` (every expression of the un-optimized grammar) -/
abbrev NSR (e : Expr) : Prop := AllN NSK e

section ext

variable {g g0 : Grammar}

/-- reflexive congruence, for well-formed expressions -/
theorem cong_refl {R : Bool → Expr → Expr → Prop}
    (hR : ∀ x a, NSR x → R a x x)
    (hlook : ∀ n, n ≠ "SKIP" → g0.lookup n = g.lookup n)
    (hbodies : ∀ n r, g.lookup n = some r → NSR r.body)
    (e : Expr) (he : NSR e) (a : Bool) : CongO g g0 R a e e := by
  cases e with
  | ident n t =>
    refine .ident ?_
    have hn : n ≠ "SKIP" := he
    rw [hlook n hn]
    cases hl : g.lookup n with
    | none => trivial
    | some r => exact ⟨rfl, rfl, hR _ _ (hbodies n r hl)⟩
  | rule n m sm b => exact .rule (hR _ _ he.2)
  | seq es =>
    exact .seqlike rfl rfl (All2.of_index _ _ rfl fun i h1 _ => hR _ _ (AllNL.index he.2 i h1))
  | choice es =>
    exact .choice (All2.of_index _ _ rfl fun i h1 _ => hR _ _ (AllNL.index he.2 i h1))
  | opt e => exact .opt (hR _ _ he.2)
  | rep e => exact .rep (hR _ _ he.2)
  | rep1 e =>
    exact .seqlike rfl rfl (.cons (hR _ _ he.2) (.cons (hR _ _ (show NSR (.rep e) from ⟨trivial, he.2⟩)) .nil))
  | repExact e n => exact .seqlike rfl rfl (All2.replicate (hR _ _ he.2) _)
  | repMin e n =>
    exact .seqlike rfl rfl ((All2.replicate (hR _ _ he.2) _).append
      (.cons (hR _ _ (show NSR (.rep e) from ⟨trivial, he.2⟩)) .nil))
  | repMax e n =>
    exact .seqlike rfl rfl (All2.replicate (hR _ _ (show NSR (.opt e) from ⟨trivial, he.2⟩)) _)
  | repMinMax e m n =>
    exact .seqlike rfl rfl ((All2.replicate (hR _ _ he.2) _).append
      (All2.replicate (hR _ _ (show NSR (.opt e) from ⟨trivial, he.2⟩)) _))
  | andP e => exact .andP (hR _ _ he.2)
  | notP e => exact .notP (hR _ _ he.2)
  | group e t => exact .group (hR _ _ he.2)
  | push e => exact .push (hR _ _ he.2)
  | _ => exact .term rfl

theorem ext_fwd (hu : g0.usets = g.usets)
    (hlook : ∀ n, n ≠ "SKIP" → g0.lookup n = g.lookup n)
    (hbodies : ∀ n r, g.lookup n = some r → NSR r.body)
    (hsk : ∀ n, (∀ e a, NSR e → SimAt inp g0 (run g inp n) a e e) → SkipSim g inp g0 (run g inp n) n) :
    ∀ n e a, NSR e → SimAt inp g0 (run g inp n) a e e := by
  intro n
  induction n with
  | zero => intro e a _ s _ _ hne; exact absurd rfl hne
  | succ n ih =>
    intro e a he s ha hp hne
    exact cong_sim g inp g0 (run_AP g inp n) (run_PB g inp n) n (hsk n ih) hu
      (cong_refl (fun x a hx => ih x a hx) hlook hbodies e he a) s ha hp hne

theorem ext_bwd (hu : g0.usets = g.usets)
    (hlook : ∀ n, n ≠ "SKIP" → g0.lookup n = g.lookup n)
    (hbodies : ∀ n r, g.lookup n = some r → NSR r.body)
    (hsk : ∀ n, (∀ e a, NSR e → SimAt inp g (run g0 inp n) a e e) → SkipSim g0 inp g (run g0 inp n) n) :
    ∀ n e a, NSR e → SimAt inp g (run g0 inp n) a e e := by
  intro n
  induction n with
  | zero => intro e a _ s _ _ hne; exact absurd rfl hne
  | succ n ih =>
    intro e a he s ha hp hne
    have hc : CongO g0 g (SimAt inp g (run g0 inp n)) a e e := by
      have := cong_refl (g := g) (g0 := g0) (R := fun a x y => SimAt inp g (run g0 inp n) a y x)
        (fun x a hx => ih x a hx) hlook hbodies e he a
      -- swap the two grammars in the congruence
      cases this with
      | term ht => exact .term ht
      | @ident n t t' hl =>
        refine .ident ?_
        revert hl
        cases g.lookup n <;> cases g0.lookup n <;> simp only [] <;> intro hl
        · trivial
        · exact hl
        · exact hl
        · refine ⟨hl.1.symm, hl.2.1.symm, ?_⟩
          rw [hl.1, hl.2.1]; exact hl.2.2
      | rule h => exact .rule h
      | seqlike h1 h2 h3 =>
        rw [h1] at h2; cases h2
        refine .seqlike h1 h1 ?_
        exact All2.of_index _ _ rfl fun i hi _ => by
          have := h3.index i hi hi
          exact this
      | choice h3 =>
        refine .choice ?_
        exact All2.of_index _ _ rfl fun i hi _ => h3.index i hi hi
      | opt h => exact .opt h
      | rep h => exact .rep h
      | andP h => exact .andP h
      | notP h => exact .notP h
      | group h => exact .group h
      | push h => exact .push h
    exact cong_sim g0 inp g (run_AP g0 inp n) (run_PB g0 inp n) n (hsk n ih) hu.symm hc s ha hp hne

/-- adding an unreferenced `SKIP` entry whose effect on implicit trivia is the same -/
theorem ext_equiv (hu : g0.usets = g.usets)
    (hlook : ∀ n, n ≠ "SKIP" → g0.lookup n = g.lookup n)
    (hbodies : ∀ n r, g.lookup n = some r → NSR r.body)
    (hf : ∀ inp n, (∀ e a, NSR e → SimAt inp g0 (run g inp n) a e e) → SkipSim g inp g0 (run g inp n) n)
    (hb : ∀ inp n, (∀ e a, NSR e → SimAt inp g (run g0 inp n) a e e) → SkipSim g0 inp g (run g0 inp n) n)
    (inp : Input) (e : Expr) (he : NSR e) (s : S0) (r : R0) (hp : s.pos ≤ inp.size) :
    Conv g inp e s r ↔ Conv g0 inp e s r := by
  constructor
  · rintro ⟨n, hn, hr⟩
    have := ext_fwd inp hu hlook hbodies (hf inp) n e s.atomic he s rfl hp (by rw [hn]; exact hr)
    rw [hn] at this
    exact Tgt.conv inp g0 this hr
  · rintro ⟨n, hn, hr⟩
    have := ext_bwd inp hu hlook hbodies (hb inp) n e s.atomic he s rfl hp (by rw [hn]; exact hr)
    rw [hn] at this
    exact Tgt.conv inp g this hr

end ext

/-! ### the COMMENT case: `SKIP = Repeat(COMMENT.expression)` -/

/-- leaving the fused rule (or a silent trivia rule) from a non-atomic caller -/
def unAtomic : R0 → R0
  | .ok s ps => .ok { s with atomic := false } ps
  | r => r

theorem S0.atomic_true_eta {st : S0} (h : st.atomic = true) : (⟨st.pos, st.stk, true⟩ : S0) = st := by
  cases st; simp_all

theorem skip_atomic_id (G : Grammar) (rec : Sem0) (k : Nat) {st : S0} (h : st.atomic = true) :
    skip G rec k st = .ok st [] := by
  simp [skip, h]

section comment

variable {g g0 : Grammar} {c : Rule}

theorem ruleAtomic_comment (hcn : c.name = "COMMENT") (b : Bool) : ruleAtomic c.name c.mod b = true := by
  simp [ruleAtomic, hcn, L1.isTriviaName]

theorem ruleApply_comment (hcn : c.name = "COMMENT") (hcs : hasBit c.mod SILENT = true) (rec : Sem0)
    {st : S0} (hst : st.atomic = true) :
    ruleApply rec c.name c.mod c.body { st with atomic := false } = unAtomic (rec c.body st) := by
  unfold ruleApply
  simp only [ruleAtomic_comment hcn, S0.atomic_true_eta hst]
  cases rec c.body st with
  | ok s' ps => simp [ruleWrap, hcs, unAtomic]
  | fail => rfl
  | oof => rfl
  | stuck => rfl

theorem trySkip_comment (hcn : c.name = "COMMENT") (hcs : hasBit c.mod SILENT = true) (rec : Sem0)
    {st : S0} (hst : st.atomic = true) :
    trySkip rec (some c) { st with atomic := false } =
      (match rec c.body st with
       | .ok s' ps => .matched { s' with atomic := false } ps
       | .fail => .no
       | r => .stop r) := by
  unfold trySkip
  simp only [ruleApply_comment hcn hcs rec hst]
  cases rec c.body st <;> rfl

theorem skip_fused_rep (hg0 : g0.fusedSkip = some ⟨"SKIP", SILENT + ATOMIC, .rep c.body, .grammar⟩)
    (rec : Sem0) (k : Nat) {st : S0} (hst : st.atomic = true) :
    skip g0 rec k { st with atomic := false } = unAtomic (rec (.rep c.body) st) := by
  unfold skip
  simp only [Bool.false_eq_true, ↓reduceIte, hg0]
  unfold ruleApply
  have : ruleAtomic "SKIP" (SILENT + ATOMIC) false = true := by decide
  simp only [this, S0.atomic_true_eta hst]
  cases rec (.rep c.body) st with
  | ok s' ps =>
    have : hasBit (SILENT + ATOMIC) SILENT = true := by decide
    simp [ruleWrap, this, unAtomic]
  | fail => rfl
  | oof => rfl
  | stuck => rfl

theorem skip_comment_loop (hgf : g.fusedSkip = none) (hgw : g.lookup "WHITESPACE" = none)
    (hgc : g.lookup "COMMENT" = some c) (rec : Sem0) (k : Nat) (s : S0) (hs : s.atomic = false) :
    skip g rec k s = skipLoop rec none (some c) k s [] := by
  unfold skip
  simp [hs, hgf, hgw, hgc]

theorem loopC_fwd (hcn : c.name = "COMMENT") (hcs : hasBit c.mod SILENT = true)
    {rec : Sem0} (hap : AP rec) (hpb : PB inp rec) (hb : SimAt inp g0 rec true c.body c.body) :
    ∀ (k : Nat) (st : S0) (acc : List Pair), st.atomic = true → st.pos ≤ inp.size →
      skipLoop rec none (some c) k { st with atomic := false } acc ≠ .oof →
      Evt2 (fun m k' => ∀ first, unAtomic (repLoop g0 (run g0 inp m) c.body k' m first st acc)
        = skipLoop rec none (some c) k { st with atomic := false } acc) := by
  intro k
  induction k with
  | zero => intro st acc _ _ hne; exact absurd rfl hne
  | succ k ih =>
    intro st acc hst hp hne
    have e0 : trySkip rec none { st with atomic := false } = .no := rfl
    simp only [skipLoop, e0, trySkip_comment hcn hcs rec hst] at hne ⊢
    have h1 : rec c.body st ≠ .oof := by intro x; rw [x] at hne; exact hne rfl
    obtain ⟨N1, e1⟩ := hb st hst hp h1
    have hsk : ∀ m (first : Bool), (if first = true then R0.ok st [] else skip g0 (run g0 inp m) m st)
        = R0.ok st [] := by
      intro m first; cases first <;> simp [skip_atomic_id g0 _ _ hst]
    cases hr : rec c.body st with
    | oof => exact absurd hr h1
    | fail =>
      rw [hr] at e1
      refine ⟨N1 + 1, fun m k' hm hk first => ?_⟩
      obtain ⟨k'', rfl⟩ : ∃ x, k' = x + 1 := ⟨k' - 1, by omega⟩
      simp only [repLoop, hsk, e1 m (by omega), unAtomic]
    | stuck =>
      rw [hr] at e1
      refine ⟨N1 + 1, fun m k' hm hk first => ?_⟩
      obtain ⟨k'', rfl⟩ : ∃ x, k' = x + 1 := ⟨k' - 1, by omega⟩
      simp only [repLoop, hsk, e1 m (by omega), unAtomic]
    | ok s2 ps =>
      rw [hr] at e1 hne
      simp only [] at hne
      have hs2 : s2.atomic = true := by rw [hap _ _ _ _ hr, hst]
      obtain ⟨N2, e2⟩ := ih s2 (acc ++ ps) hs2 (hpb _ _ _ _ hp hr) hne
      refine ⟨N1 + N2 + 1, fun m k' hm hk first => ?_⟩
      obtain ⟨k'', rfl⟩ : ∃ x, k' = x + 1 := ⟨k' - 1, by omega⟩
      simp only [repLoop, hsk, e1 m (by omega), List.append_nil]
      exact e2 m k'' (by omega) (by omega) false

theorem skipC_fwd (hcn : c.name = "COMMENT") (hcs : hasBit c.mod SILENT = true)
    (hgf : g.fusedSkip = none) (hgw : g.lookup "WHITESPACE" = none) (hgc : g.lookup "COMMENT" = some c)
    (hg0 : g0.fusedSkip = some ⟨"SKIP", SILENT + ATOMIC, .rep c.body, .grammar⟩)
    {rec : Sem0} (hap : AP rec) (hpb : PB inp rec) (k : Nat) (hb : SimAt inp g0 rec true c.body c.body) :
    SkipSim g inp g0 rec k := by
  intro s hp hne
  by_cases ha : s.atomic = true
  · rw [skip_atomic_id g rec k ha]
    exact ⟨0, fun m _ => skip_atomic_id g0 _ _ ha⟩
  · have ha' : s.atomic = false := by simpa using ha
    have hst : ({ s with atomic := true } : S0).atomic = true := rfl
    have hs : s = { ({ s with atomic := true } : S0) with atomic := false } := by cases s; simp_all
    rw [skip_comment_loop hgf hgw hgc rec k s ha'] at hne ⊢
    rw [hs] at hne ⊢
    obtain ⟨N, hN⟩ := loopC_fwd inp hcn hcs hap hpb hb k _ [] hst hp hne
    refine ⟨N + 1, fun m hm => ?_⟩
    obtain ⟨m', rfl⟩ : ∃ x, m = x + 1 := ⟨m - 1, by omega⟩
    rw [skip_fused_rep hg0 _ _ hst]
    exact hN m' m' (by omega) (by omega) true

theorem loopC_bwd (hcn : c.name = "COMMENT") (hcs : hasBit c.mod SILENT = true)
    {rec0 : Sem0} (hap : AP rec0) (hpb : PB inp rec0) (kk : Nat) (hb : SimAt inp g rec0 true c.body c.body) :
    ∀ (k' : Nat) (first : Bool) (st : S0) (acc : List Pair), st.atomic = true → st.pos ≤ inp.size →
      repLoop g0 rec0 c.body k' kk first st acc ≠ .oof →
      Evt2 (fun n k => skipLoop (run g inp n) none (some c) k { st with atomic := false } acc
        = unAtomic (repLoop g0 rec0 c.body k' kk first st acc)) := by
  intro k'
  induction k' with
  | zero => intro first st acc _ _ hne; exact absurd rfl hne
  | succ k' ih =>
    intro first st acc hst hp hne
    have hsk : (if first = true then R0.ok st [] else skip g0 rec0 kk st) = R0.ok st [] := by
      cases first <;> simp [skip_atomic_id g0 _ _ hst]
    simp only [repLoop, hsk] at hne ⊢
    have h1 : rec0 c.body st ≠ .oof := by intro x; rw [x] at hne; exact hne rfl
    obtain ⟨N1, e1⟩ := hb st hst hp h1
    have e0 : ∀ rec, trySkip rec none { st with atomic := false } = .no := fun _ => rfl
    cases hr : rec0 c.body st with
    | oof => exact absurd hr h1
    | fail =>
      rw [hr] at e1
      refine ⟨N1 + 1, fun n k hn hk => ?_⟩
      obtain ⟨k'', rfl⟩ : ∃ x, k = x + 1 := ⟨k - 1, by omega⟩
      simp only [skipLoop, e0, trySkip_comment hcn hcs _ hst, e1 n (by omega), unAtomic]
    | stuck =>
      rw [hr] at e1
      refine ⟨N1 + 1, fun n k hn hk => ?_⟩
      obtain ⟨k'', rfl⟩ : ∃ x, k = x + 1 := ⟨k - 1, by omega⟩
      simp only [skipLoop, e0, trySkip_comment hcn hcs _ hst, e1 n (by omega), unAtomic]
    | ok s2 ps =>
      rw [hr] at e1 hne
      simp only [List.append_nil] at hne ⊢
      have hs2 : s2.atomic = true := by rw [hap _ _ _ _ hr, hst]
      obtain ⟨N2, e2⟩ := ih false s2 (acc ++ ps) hs2 (hpb _ _ _ _ hp hr) hne
      refine ⟨N1 + N2 + 1, fun n k hn hk => ?_⟩
      obtain ⟨k'', rfl⟩ : ∃ x, k = x + 1 := ⟨k - 1, by omega⟩
      simp only [skipLoop, e0, trySkip_comment hcn hcs _ hst, e1 n (by omega)]
      exact e2 n k'' (by omega) (by omega)

theorem SimAt.of_succ {G G' : Grammar} {m : Nat} {a : Bool} {e e' : Expr}
    (h : SimAt inp G (run G' inp (m + 1)) a e e') : SimAt inp G (run G' inp m) a e e' := by
  intro s ha hp hne
  have := run_mono G' inp (Nat.le_succ m) e s hne
  rw [← this]
  exact h s ha hp (by rw [this]; exact hne)

theorem skipC_bwd (hcn : c.name = "COMMENT") (hcs : hasBit c.mod SILENT = true)
    (hgf : g.fusedSkip = none) (hgw : g.lookup "WHITESPACE" = none) (hgc : g.lookup "COMMENT" = some c)
    (hg0 : g0.fusedSkip = some ⟨"SKIP", SILENT + ATOMIC, .rep c.body, .grammar⟩)
    (m : Nat) (hb : SimAt inp g (run g0 inp m) true c.body c.body) :
    SkipSim g0 inp g (run g0 inp m) m := by
  intro s hp hne
  by_cases ha : s.atomic = true
  · rw [skip_atomic_id g0 _ m ha]
    exact ⟨0, fun n _ => skip_atomic_id g _ _ ha⟩
  · have ha' : s.atomic = false := by simpa using ha
    have hst : ({ s with atomic := true } : S0).atomic = true := rfl
    have hs : s = { ({ s with atomic := true } : S0) with atomic := false } := by cases s; simp_all
    rw [hs, skip_fused_rep hg0 _ _ hst] at hne ⊢
    cases m with
    | zero => exact absurd rfl hne
    | succ m' =>
      have hne' : repLoop g0 (run g0 inp m') c.body m' m' true { s with atomic := true } [] ≠ .oof := by
        intro x
        apply hne
        show unAtomic (repLoop g0 (run g0 inp m') c.body m' m' true { s with atomic := true } []) = .oof
        rw [x]; rfl
      obtain ⟨N, hN⟩ := loopC_bwd inp hcn hcs (run_AP g0 inp m') (run_PB g0 inp m') m' (SimAt.of_succ inp hb)
        m' true _ [] hst hp hne'
      refine ⟨N, fun n hn => ?_⟩
      show skip g (run g inp n) n { ({ s with atomic := true } : S0) with atomic := false } = _
      rw [skip_comment_loop hgf hgw hgc (run g inp n) n _ rfl]
      exact hN n n hn hn

end comment

end OptS
end Pest
