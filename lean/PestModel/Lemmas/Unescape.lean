/-
  Lemmas/Unescape.lean — helper lemmas for Props/C12Escapes.lean (model and specification in
  Unescape.lean).

  Plan of the proof:
    1. `_parse_hex_digits`: one iteration read through `hexVal` (`parseFrom_cons`; the shift/or
       is `16 * acc + h`), hence `parse_allHex` / `parse_notHex`.
    2. relocation: `_decode_escape_sequence(value, i)` only looks at `value[i:]`
       (`decode_drop`), so it can be evaluated at index 0 of a list whose head is known.
    3. the loop: its state at `index` with `unescaped = acc` is `acc` followed by the function's
       result on `value[index:]`, whatever fuel is left (`loop_eq`); hence `unescape` unfolds
       along the list (`unescape_cons_char`, `unescape_cons_esc`) and the fuel never runs out.
    4. model vs specification on what follows a backslash (`decode_agrees`): same value and
       length where `specEscape` reads an escape, the `range` error where it reads one beyond
       U+10FFFF, an error other than `range` where it reads none.
    5. `unescape_rel` (the model is the specification), `unescape_append` (compositional law),
       `escapeLen_spec` (RE_ESCAPE = the specification's escape syntax), spelling lemmas.
-/
import PestModel.Unescape
namespace Pest
namespace Unescape

/-! ### hex digits -/

theorem hexVal_lt {c h : Nat} (hc : hexVal c = some h) : h < 16 := by
  unfold hexVal at hc
  split at hc
  · cases hc; omega
  · split at hc
    · cases hc; omega
    · split at hc
      · cases hc; omega
      · cases hc

theorem isHexDigit_eq (c : Nat) : isHexDigit c = (hexVal c).isSome := by
  unfold isHexDigit hexVal
  by_cases h1 : 48 ≤ c ∧ c ≤ 57
  · rw [if_pos h1]; simp [h1.1, h1.2]
  · rw [if_neg h1]
    by_cases h2 : 97 ≤ c ∧ c ≤ 102
    · rw [if_pos h2]; simp [h2.1, h2.2]
    · rw [if_neg h2]
      by_cases h3 : 65 ≤ c ∧ c ≤ 70
      · rw [if_pos h3]; simp [h3.1, h3.2]
      · rw [if_neg h3]
        simp only [Option.isSome_none, Bool.or_eq_false_iff, Bool.and_eq_false_iff,
          decide_eq_false_iff_not]
        omega

theorem shl_or (acc h : Nat) (hh : h < 16) : (acc <<< 4) ||| h = 16 * acc + h := by
  rw [← Nat.shiftLeft_add_eq_or_of_lt (i := 4) (by omega) acc, Nat.shiftLeft_eq]
  omega

/-- one iteration of `_parse_hex_digits`, read through `hexVal` -/
theorem parseFrom_cons (acc d : Nat) (ds : List Nat) :
    parseHexDigitsFrom acc (d :: ds) =
      match hexVal d with
      | some h => parseHexDigitsFrom (16 * acc + h) ds
      | none => .error .hex := by
  unfold hexVal
  rw [parseHexDigitsFrom]
  by_cases h1 : 48 ≤ d ∧ d ≤ 57
  · simp only [h1, and_self, if_true]
    rw [shl_or _ _ (by omega)]
  · by_cases h2 : 65 ≤ d ∧ d ≤ 70
    · have h3 : ¬ (97 ≤ d ∧ d ≤ 102) := by omega
      simp only [h1, h2, h3, and_self, if_true, if_false]
      rw [shl_or _ _ (by omega)]
      have : d - 65 + 10 = d - 55 := by omega
      rw [this]
    · by_cases h3 : 97 ≤ d ∧ d ≤ 102
      · simp only [h1, h2, h3, and_self, if_true, if_false]
        rw [shl_or _ _ (by omega)]
        have : d - 97 + 10 = d - 87 := by omega
        rw [this]
      · simp only [h1, h2, h3, if_false]

def AllHex (ds : List Nat) : Prop := ∀ d ∈ ds, (hexVal d).isSome = true

instance (ds : List Nat) : Decidable (AllHex ds) := by unfold AllHex; infer_instance

theorem foldl_hex_cons (acc d : Nat) (ds : List Nat) :
    (d :: ds).foldl (fun acc d => 16 * acc + (hexVal d).getD 0) acc =
      ds.foldl (fun acc d => 16 * acc + (hexVal d).getD 0) (16 * acc + (hexVal d).getD 0) := rfl

theorem parseFrom_allHex (ds : List Nat) : ∀ acc, AllHex ds →
    parseHexDigitsFrom acc ds = .ok (ds.foldl (fun acc d => 16 * acc + (hexVal d).getD 0) acc) := by
  induction ds with
  | nil => intro acc _; rfl
  | cons d ds ih =>
    intro acc h
    rw [parseFrom_cons]
    have hd := h d (by simp)
    obtain ⟨v, hv⟩ := Option.isSome_iff_exists.mp hd
    simp only [hv, foldl_hex_cons, Option.getD_some]
    exact ih _ (fun x hx => h x (by simp [hx]))

theorem parse_allHex {ds : List Nat} (h : AllHex ds) : parseHexDigits ds = .ok (hexValue ds) :=
  parseFrom_allHex ds 0 h

theorem parseFrom_notHex (ds : List Nat) : ∀ acc, ¬ AllHex ds →
    parseHexDigitsFrom acc ds = .error .hex := by
  induction ds with
  | nil => intro acc h; exact absurd (fun d hd => by cases hd) h
  | cons d ds ih =>
    intro acc h
    rw [parseFrom_cons]
    cases hv : hexVal d with
    | none => rfl
    | some v =>
      simp only
      apply ih
      intro hall
      apply h
      intro x hx
      rcases List.mem_cons.mp hx with rfl | hx
      · simp [hv]
      · exact hall x hx

theorem parse_notHex {ds : List Nat} (h : ¬ AllHex ds) : parseHexDigits ds = .error .hex :=
  parseFrom_notHex ds 0 h

/-! ### relocation: the decoders only look at `value[index:]` -/

/-- move a returned index by `i` -/
def Py.shift (i : Nat) : Py (Nat × Nat) → Py (Nat × Nat)
  | .ok (c, j) => .ok (c, i + j)
  | r => r

theorem scanFor_shift (c : Nat) (l : List Nat) (i : Nat) : ∀ k,
    scanFor c l (i + k) = (scanFor c l k).map (i + ·) := by
  induction l with
  | nil => intro k; rfl
  | cons x xs ih =>
    intro k
    simp only [scanFor]
    by_cases h : x = c
    · simp [h]
    · simp only [h, if_false]
      exact ih (k + 1)

theorem pyFind_drop (value : List Nat) (c i k : Nat) :
    pyFind value c (i + k) = (pyFind (value.drop i) c k).map (i + ·) := by
  unfold pyFind
  rw [List.drop_drop, scanFor_shift]

theorem slice_drop (value : List Nat) (i a b : Nat) :
    slice value (i + a) (i + b) = slice (value.drop i) a b := by
  unfold slice
  rw [List.drop_drop]
  have : i + b - (i + a) = b - a := by omega
  rw [this]

theorem slice_drop' {value : List Nat} {i a b a' b' : Nat} (ha : a' = i + a) (hb : b' = i + b) :
    slice value a' b' = slice (value.drop i) a b := by
  subst ha hb; exact slice_drop value i a b

theorem pyFind_drop' {value : List Nat} {c i k k' : Nat} (hk : k' = i + k) :
    pyFind value c k' = (pyFind (value.drop i) c k).map (i + ·) := by
  subst hk; exact pyFind_drop value c i k

theorem decodeHexChar_drop (value : List Nat) (i : Nat) :
    decodeHexChar value i = (decodeHexChar (value.drop i) 0).shift i := by
  unfold decodeHexChar
  simp only [Nat.zero_add]
  rw [slice_drop' (value := value) (i := i) (a := 1) (b := 1 + 1) rfl (by omega),
    pyFind_drop' (value := value) (i := i) (k := 1 + 1) (by omega)]
  by_cases hb : slice (value.drop i) 1 (1 + 1) ≠ [123]
  · simp only [if_pos hb, Py.shift]
  · simp only [if_neg hb]
    cases hf : pyFind (value.drop i) 125 (1 + 1) with
    | none => simp only [Option.map_none, Py.shift]
    | some cl =>
      simp only [Option.map_some]
      have e3 : i + cl - (i + 1 + 1) = cl - (1 + 1) := by omega
      rw [e3]
      by_cases hd : ¬ (2 ≤ cl - (1 + 1) ∧ cl - (1 + 1) ≤ 6)
      · simp only [if_pos hd, Py.shift]
      · simp only [if_neg hd]
        rw [slice_drop' (value := value) (i := i) (a := 1 + 1) (b := 1 + 1 + (cl - (1 + 1)))
          (by omega) (by omega)]
        cases parseHexDigits (slice (value.drop i) (1 + 1) (1 + 1 + (cl - (1 + 1)))) with
        | ok v => simp only [Py.shift]; congr 2; omega
        | error e => simp only [Py.shift]
        | exc n => simp only [Py.shift]

theorem decode_drop (value : List Nat) (i : Nat) :
    decodeEscapeSequence value i = (decodeEscapeSequence (value.drop i) 0).shift i := by
  unfold decodeEscapeSequence
  have e0 : (value.drop i)[0]? = value[i]? := by rw [List.getElem?_drop]; rfl
  rw [e0]
  cases value[i]? with
  | none => rfl
  | some ch =>
    simp only
    rw [slice_drop' (value := value) (i := i) (a := 0 + 1) (b := 0 + 3) (by omega) (by omega),
      decodeHexChar_drop value i]
    by_cases h1 : ch = 34 ∨ ch = 39
    · simp only [if_pos h1, Py.shift, Nat.add_zero]
    · simp only [if_neg h1]
      by_cases h2 : ch = 92
      · simp only [if_pos h2, Py.shift, Nat.add_zero]
      · simp only [if_neg h2]
        by_cases h3 : ch = 110
        · simp only [if_pos h3, Py.shift, Nat.add_zero]
        · simp only [if_neg h3]
          by_cases h4 : ch = 114
          · simp only [if_pos h4, Py.shift, Nat.add_zero]
          · simp only [if_neg h4]
            by_cases h5 : ch = 116
            · simp only [if_pos h5, Py.shift, Nat.add_zero]
            · simp only [if_neg h5]
              by_cases h6 : ch = 48
              · simp only [if_pos h6, Py.shift, Nat.add_zero]
              · simp only [if_neg h6]
                by_cases h7 : ch = 120
                · simp only [if_pos h7]
                  by_cases hl : (slice (value.drop i) (0 + 1) (0 + 3)).length ≠ 2
                  · simp only [if_pos hl, Py.shift]
                  · simp only [if_neg hl]
                    cases parseHexDigits (slice (value.drop i) (0 + 1) (0 + 3)) with
                    | ok v =>
                      simp only
                      cases pyChr v with
                      | ok c => simp only [Py.shift, Nat.zero_add]
                      | error e => simp only [Py.shift]
                      | exc n => simp only [Py.shift]
                    | error e => simp only [Py.shift]
                    | exc n => simp only [Py.shift]
                · simp only [if_neg h7]
                  by_cases h8 : ch = 117
                  · simp only [if_pos h8]
                    cases decodeHexChar (value.drop i) 0 with
                    | ok p =>
                      obtain ⟨cp, j⟩ := p
                      simp only [Py.shift]
                      by_cases hr : cp > 0x10FFFF
                      · simp only [if_pos hr]
                      · simp only [if_neg hr]
                        cases pyChr cp with
                        | ok c => simp only
                        | error e => simp only
                        | exc n => simp only
                    | error e => simp only [Py.shift]
                    | exc n => simp only [Py.shift]
                  · simp only [if_neg h8, Py.shift]

/-! ### the loop: `unescape` unfolds along the list -/

theorem prepend_prepend (a b : List Nat) (r : Res) :
    (r.prepend b).prepend a = r.prepend (a ++ b) := by
  cases r <;> simp [Res.prepend]

theorem prepend_nil (r : Res) : r.prepend [] = r := by
  cases r <;> simp [Res.prepend]

theorem loop_done {value : List Nat} {index : Nat} (fuel : Nat) (acc : List Nat)
    (h : ¬ index < value.length) : loop value (fuel + 1) index acc = .ok acc := by
  rw [loop, if_neg h]

theorem loop_char {value : List Nat} {index ch : Nat} (fuel : Nat) (acc : List Nat)
    (hget : value[index]? = some ch) (hc : ch ≠ 92) :
    loop value (fuel + 1) index acc = loop value fuel (index + 1) (acc ++ [ch]) := by
  have hlt : index < value.length := by
    rcases Nat.lt_or_ge index value.length with h | h
    · exact h
    · rw [List.getElem?_eq_none h] at hget; cases hget
  rw [loop, if_pos hlt, hget]
  simp only [if_neg hc]

theorem loop_esc {value : List Nat} {index : Nat} (fuel : Nat) (acc : List Nat)
    (hget : value[index]? = some 92) :
    loop value (fuel + 1) index acc =
      match decodeEscapeSequence value (index + 1) with
      | .ok (c, index') => loop value fuel (index' + 1) (acc ++ [c])
      | .error e => .error e
      | .exc n => .exc n := by
  have hlt : index < value.length := by
    rcases Nat.lt_or_ge index value.length with h | h
    · exact h
    · rw [List.getElem?_eq_none h] at hget; cases hget
  rw [loop, if_pos hlt, hget]
  simp only [if_true]
  rfl

theorem unescape_nil : unescape [] = .ok [] := rfl

theorem unescape_cons_def (c : Nat) (r : List Nat) :
    unescape (c :: r) = loop (c :: r) (r.length + 1 + 1) 0 [] := rfl

/-- the state of the loop at `index` with `unescaped = acc` is `acc` followed by what the
    function returns for `value[index:]`, whatever fuel is left (as long as it exceeds the
    number of characters left) -/
theorem loop_eq : ∀ (n : Nat) (value : List Nat) (fuel index : Nat) (acc : List Nat),
    value.length - index ≤ n → value.length - index < fuel →
    loop value fuel index acc = (unescape (value.drop index)).prepend acc := by
  intro n
  induction n with
  | zero =>
    intro value fuel index acc hn hf
    obtain ⟨f, rfl⟩ : ∃ f, fuel = f + 1 := ⟨fuel - 1, by omega⟩
    have hge : value.length ≤ index := by omega
    rw [loop_done f acc (by omega), List.drop_eq_nil_of_le hge, unescape_nil]
    simp [Res.prepend]
  | succ m ih =>
    intro value fuel index acc hn hf
    obtain ⟨f, rfl⟩ : ∃ f, fuel = f + 1 := ⟨fuel - 1, by omega⟩
    by_cases hlt : index < value.length
    · have hdrop : value.drop index = value[index] :: value.drop (index + 1) :=
        List.drop_eq_getElem_cons hlt
      have hget : value[index]? = some value[index] := List.getElem?_eq_getElem hlt
      generalize value[index] = ch at hdrop hget
      generalize hsuf : value.drop (index + 1) = suf at hdrop
      have hlen : suf.length = value.length - (index + 1) := by rw [← hsuf]; simp
      rw [hdrop]
      by_cases hc : ch = 92
      · subst hc
        rw [loop_esc f acc hget, decode_drop value (index + 1), hsuf, unescape_cons_def]
        rw [loop_esc (value := 92 :: suf) (index := 0) (suf.length + 1) [] rfl,
          decode_drop (92 :: suf) (0 + 1)]
        simp only [Nat.zero_add, List.drop_succ_cons, List.drop_zero, List.nil_append]
        cases decodeEscapeSequence suf 0 with
        | ok p =>
          obtain ⟨c, j⟩ := p
          simp only [Py.shift]
          rw [ih value f (index + 1 + j + 1) (acc ++ [c]) (by omega) (by omega),
            ih (92 :: suf) (suf.length + 1) (1 + j + 1) [c] (by simp only [List.length_cons]; omega) (by simp only [List.length_cons]; omega),
            prepend_prepend]
          have e1 : (92 :: suf).drop (1 + j + 1) = suf.drop (j + 1) := by
            have : 1 + j + 1 = (j + 1) + 1 := by omega
            rw [this, List.drop_succ_cons]
          have e2 : value.drop (index + 1 + j + 1) = suf.drop (j + 1) := by
            rw [← hsuf, List.drop_drop]; congr 1
          rw [e1, e2]
        | error e => simp only [Py.shift, Res.prepend]
        | exc nm => simp only [Py.shift, Res.prepend]
      · rw [loop_char f acc hget hc, unescape_cons_def]
        rw [loop_char (value := ch :: suf) (index := 0) (suf.length + 1) [] rfl hc]
        rw [ih value f (index + 1) (acc ++ [ch]) (by omega) (by omega),
          ih (ch :: suf) (suf.length + 1) (0 + 1) ([] ++ [ch]) (by simp only [List.length_cons]; omega) (by simp only [List.length_cons]; omega),
          prepend_prepend, hsuf]
        simp only [Nat.zero_add, List.drop_succ_cons, List.drop_zero, List.nil_append]
    · rw [loop_done f acc hlt, List.drop_eq_nil_of_le (by omega), unescape_nil]
      simp [Res.prepend]

/-- a character other than the backslash is copied -/
theorem unescape_cons_char {c : Nat} (r : List Nat) (hc : c ≠ 92) :
    unescape (c :: r) = (unescape r).prepend [c] := by
  rw [unescape_cons_def, loop_char (value := c :: r) (index := 0) (r.length + 1) [] rfl hc,
    loop_eq r.length (c :: r) (r.length + 1) (0 + 1) ([] ++ [c]) (by simp) (by simp)]
  rfl

/-- a backslash: `_decode_escape_sequence` on what follows, then the rest -/
theorem unescape_cons_esc (r : List Nat) :
    unescape (92 :: r) =
      match decodeEscapeSequence r 0 with
      | .ok (c, j) => (unescape (r.drop (j + 1))).prepend [c]
      | .error e => .error e
      | .exc n => .exc n := by
  rw [unescape_cons_def, loop_esc (value := 92 :: r) (index := 0) (r.length + 1) [] rfl,
    decode_drop (92 :: r) (0 + 1)]
  simp only [Nat.zero_add, List.drop_succ_cons, List.drop_zero, List.nil_append]
  cases decodeEscapeSequence r 0 with
  | ok p =>
    obtain ⟨c, j⟩ := p
    simp only [Py.shift]
    rw [loop_eq r.length (92 :: r) (r.length + 1) (1 + j + 1) [c] (by simp only [List.length_cons]; omega) (by simp only [List.length_cons]; omega)]
    have : 1 + j + 1 = (j + 1) + 1 := by omega
    rw [this, List.drop_succ_cons]
  | error e => simp only [Py.shift]
  | exc nm => simp only [Py.shift]

/-! ### list facts: first occurrence, `takeWhile` -/

theorem scanFor_none (c : Nat) (l : List Nat) : ∀ i, c ∉ l → scanFor c l i = none := by
  induction l with
  | nil => intro i _; rfl
  | cons x xs ih =>
    intro i h
    have hx : ¬ x = c := fun e => h (by simp [e])
    simp only [scanFor, if_neg hx]
    exact ih (i + 1) (fun hm => h (by simp [hm]))

theorem scanFor_first (c : Nat) (ds rest : List Nat) : ∀ i, c ∉ ds →
    scanFor c (ds ++ c :: rest) i = some (i + ds.length) := by
  induction ds with
  | nil => intro i _; simp [scanFor]
  | cons x xs ih =>
    intro i h
    have hx : ¬ x = c := fun e => h (by simp [e])
    simp only [List.cons_append, scanFor, if_neg hx]
    rw [ih (i + 1) (fun hm => h (by simp [hm]))]
    simp only [List.length_cons]
    congr 1; omega

/-- either `c` does not occur, or the list splits at its first occurrence -/
theorem first_occurrence (c : Nat) (l : List Nat) :
    c ∉ l ∨ ∃ ds rest, l = ds ++ c :: rest ∧ c ∉ ds := by
  induction l with
  | nil => exact .inl (by simp)
  | cons x xs ih =>
    by_cases hx : x = c
    · exact .inr ⟨[], xs, by simp [hx], by simp⟩
    · rcases ih with h | ⟨ds, rest, rfl, hds⟩
      · exact .inl (by simp [h, Ne.symm hx])
      · exact .inr ⟨x :: ds, rest, rfl, by simp [hds, Ne.symm hx]⟩

theorem takeWhile_all (p : Nat → Bool) (l : List Nat) : ∀ x ∈ l.takeWhile p, p x = true := by
  induction l with
  | nil => intro x hx; cases hx
  | cons a as ih =>
    intro x hx
    rw [List.takeWhile_cons] at hx
    by_cases ha : p a = true
    · rw [if_pos ha] at hx
      rcases List.mem_cons.mp hx with rfl | hx
      · exact ha
      · exact ih x hx
    · rw [if_neg ha] at hx; cases hx

/-- the element right after the `takeWhile` prefix starts the rest -/
theorem takeWhile_split (p : Nat → Bool) (l : List Nat) (x : Nat)
    (h : l[(l.takeWhile p).length]? = some x) : ∃ rest, l = l.takeWhile p ++ x :: rest := by
  have hsplit := List.takeWhile_append_dropWhile (p := p) (l := l)
  have h' : (l.takeWhile p ++ l.dropWhile p)[(l.takeWhile p).length]? = some x := by
    rw [hsplit]; exact h
  rw [List.getElem?_append_right (Nat.le_refl _), Nat.sub_self] at h'
  cases hd : l.dropWhile p with
  | nil => rw [hd] at h'; cases h'
  | cons y ys =>
    rw [hd] at h'
    simp only [List.getElem?_cons_zero, Option.some.injEq] at h'
    subst h'
    exact ⟨ys, by rw [← hd, hsplit]⟩

theorem takeWhile_stop (p : Nat → Bool) (ds : List Nat) (x : Nat) (rest : List Nat)
    (hds : ∀ d ∈ ds, p d = true) (hx : p x = false) : (ds ++ x :: rest).takeWhile p = ds := by
  induction ds with
  | nil => simp [hx]
  | cons a as ih =>
    have ha : p a = true := hds a (by simp)
    simp only [List.cons_append, List.takeWhile_cons, if_pos ha]
    rw [ih (fun d hd => hds d (by simp [hd]))]

/-! ### `_decode_escape_sequence` at the head of a list -/

theorem simpleEscape_some {c v : Nat} (h : simpleEscape c = some v) :
    (c = 34 ∧ v = 34) ∨ (c = 92 ∧ v = 92) ∨ (c = 114 ∧ v = 13) ∨ (c = 110 ∧ v = 10) ∨
      (c = 116 ∧ v = 9) ∨ (c = 48 ∧ v = 0) ∨ (c = 39 ∧ v = 39) := by
  unfold simpleEscape at h
  repeat' split at h
  all_goals first
    | (cases h; done)
    | (cases h; omega)

theorem simpleEscape_none {c : Nat} (h : simpleEscape c = none) :
    c ≠ 34 ∧ c ≠ 92 ∧ c ≠ 114 ∧ c ≠ 110 ∧ c ≠ 116 ∧ c ≠ 48 ∧ c ≠ 39 := by
  unfold simpleEscape at h
  repeat' split at h
  all_goals first
    | (cases h; done)
    | (cases h; omega)

theorem decode_nil : decodeEscapeSequence [] 0 = .error .incomplete := rfl

theorem decode_simple {c v : Nat} (r : List Nat) (h : simpleEscape c = some v) :
    decodeEscapeSequence (c :: r) 0 = .ok (v, 0) := by
  rcases simpleEscape_some h with h | h | h | h | h | h | h <;> obtain ⟨rfl, rfl⟩ := h <;>
    simp [decodeEscapeSequence]

theorem decode_unknown {c : Nat} (r : List Nat) (h : simpleEscape c = none) (hx : c ≠ 120)
    (hu : c ≠ 117) : decodeEscapeSequence (c :: r) 0 = .error .unknown := by
  obtain ⟨h1, h2, h3, h4, h5, h6, h7⟩ := simpleEscape_none h
  simp [decodeEscapeSequence, *]

theorem decode_x_short (r : List Nat) (h : r.length < 2) :
    decodeEscapeSequence (120 :: r) 0 = .error .incomplete := by
  have : (slice (120 :: r) (0 + 1) (0 + 3)).length ≠ 2 := by
    simp [slice]; omega
  simp [decodeEscapeSequence, this]

theorem parse_two (d1 d0 : Nat) :
    parseHexDigits [d1, d0] =
      match hexVal d1, hexVal d0 with
      | some h1, some h0 => .ok (16 * h1 + h0)
      | _, _ => .error .hex := by
  unfold parseHexDigits
  rw [parseFrom_cons]
  cases hexVal d1 with
  | none => rfl
  | some h1 =>
    simp only
    rw [parseFrom_cons]
    cases hexVal d0 with
    | none => rfl
    | some h0 => simp [parseHexDigitsFrom]

theorem decode_x (d1 d0 : Nat) (r : List Nat) :
    decodeEscapeSequence (120 :: d1 :: d0 :: r) 0 =
      match hexVal d1, hexVal d0 with
      | some h1, some h0 => .ok (16 * h1 + h0, 2)
      | _, _ => .error .hex := by
  have hs : slice (120 :: d1 :: d0 :: r) (0 + 1) (0 + 3) = [d1, d0] := by simp [slice]
  unfold decodeEscapeSequence
  simp only [List.getElem?_cons_zero, hs, parse_two]
  cases h1 : hexVal d1 with
  | none => simp
  | some v1 =>
    cases h0 : hexVal d0 with
    | none => simp
    | some v0 =>
      have := hexVal_lt h1
      have := hexVal_lt h0
      have hc : ¬ (16 * v1 + v0 > 0x10FFFF) := by omega
      simp [pyChr, hc]

theorem decodeHexChar_nobrace (r : List Nat) (h : r.head? ≠ some 123) :
    decodeHexChar (117 :: r) 0 = .error .brace := by
  have : slice (117 :: r) (0 + 1) (0 + 1 + 1) ≠ [123] := by
    cases r with
    | nil => simp [slice]
    | cons b t =>
      have hb : b ≠ 123 := fun e => h (by simp [e])
      simp [slice, hb]
  unfold decodeHexChar
  simp only [if_pos this]

theorem decodeHexChar_unclosed (t : List Nat) (h : 125 ∉ t) :
    decodeHexChar (117 :: 123 :: t) 0 = .error .unclosed := by
  have hs : slice (117 :: 123 :: t) (0 + 1) (0 + 1 + 1) = [123] := by simp [slice]
  have hf : pyFind (117 :: 123 :: t) 125 (0 + 1 + 1) = none := by
    simp only [pyFind, Nat.zero_add, List.drop_succ_cons, List.drop_zero]
    exact scanFor_none 125 t _ h
  unfold decodeHexChar
  simp only [hs, hf, ne_eq, not_true_eq_false, if_false]

theorem decodeHexChar_closed (ds rest : List Nat) (h : 125 ∉ ds) :
    decodeHexChar (117 :: 123 :: (ds ++ 125 :: rest)) 0 =
      if ¬ (2 ≤ ds.length ∧ ds.length ≤ 6) then .error .digits
      else if AllHex ds then .ok (hexValue ds, 2 + ds.length) else .error .hex := by
  have hs : slice (117 :: 123 :: (ds ++ 125 :: rest)) (0 + 1) (0 + 1 + 1) = [123] := by
    simp [slice]
  have hf : pyFind (117 :: 123 :: (ds ++ 125 :: rest)) 125 (0 + 1 + 1) = some (2 + ds.length) := by
    simp only [pyFind, Nat.zero_add, List.drop_succ_cons, List.drop_zero]
    exact scanFor_first 125 ds rest _ h
  have hsl : slice (117 :: 123 :: (ds ++ 125 :: rest)) (0 + 1 + 1)
      (0 + 1 + 1 + (2 + ds.length - (0 + 1 + 1))) = ds := by
    have : 0 + 1 + 1 + (2 + ds.length - (0 + 1 + 1)) - (0 + 1 + 1) = ds.length := by omega
    simp only [slice, this, Nat.zero_add, List.drop_succ_cons, List.drop_zero]
    exact List.take_left
  have hlen : 2 + ds.length - (0 + 1 + 1) = ds.length := by omega
  unfold decodeHexChar
  simp only [hs, hf, ne_eq, not_true_eq_false, if_false, hsl]
  rw [hlen]
  by_cases hd : ¬ (2 ≤ ds.length ∧ ds.length ≤ 6)
  · rw [if_pos hd, if_pos hd]
  · rw [if_neg hd, if_neg hd]
    by_cases hh : AllHex ds
    · rw [parse_allHex hh, if_pos hh]
    · rw [parse_notHex hh, if_neg hh]

theorem decode_u (r : List Nat) :
    decodeEscapeSequence (117 :: r) 0 =
      match decodeHexChar (117 :: r) 0 with
      | .ok (cp, j) => if cp > 0x10FFFF then .error .range else .ok (cp, j)
      | .error e => .error e
      | .exc n => .exc n := by
  unfold decodeEscapeSequence
  simp only [List.getElem?_cons_zero]
  cases decodeHexChar (117 :: r) 0 with
  | ok p =>
    obtain ⟨cp, j⟩ := p
    by_cases hr : cp > 0x10FFFF
    · simp [hr]
    · simp [hr, pyChr]
  | error e => simp
  | exc n => simp

/-! ### the specification's `specEscape` on the same shapes -/

/-- the value of a `\u{…}` escape with digits `ds` (none beyond U+10FFFF) -/
def uniVal (ds : List Nat) : Option Nat :=
  if hexValue ds ≤ 0x10FFFF then some (hexValue ds) else none

theorem specEscape_simple {c v : Nat} (r : List Nat) (h : simpleEscape c = some v) :
    specEscape (c :: r) = some (some v, 1) := by
  simp only [specEscape, h]

theorem specEscape_other {c : Nat} (r : List Nat) (h : simpleEscape c = none) (hx : c ≠ 120)
    (hu : c ≠ 117) : specEscape (c :: r) = none := by
  simp only [specEscape, h, if_neg hx, if_neg hu]

theorem specEscape_x_short (r : List Nat) (h : r.length < 2) : specEscape (120 :: r) = none := by
  have hs : simpleEscape 120 = none := by decide
  match r, h with
  | [], _ => simp only [specEscape, hs, if_true]
  | [_], _ => simp only [specEscape, hs, if_true]
  | _ :: _ :: _, h => simp only [List.length_cons] at h; omega

theorem specEscape_x (d1 d0 : Nat) (r : List Nat) :
    specEscape (120 :: d1 :: d0 :: r) =
      match hexVal d1, hexVal d0 with
      | some h1, some h0 => some (some (16 * h1 + h0), 3)
      | _, _ => none := by
  have hs : simpleEscape 120 = none := by decide
  simp only [specEscape, hs, if_true]
  rfl

theorem specEscape_u_nobrace (r : List Nat) (h : r.head? ≠ some 123) :
    specEscape (117 :: r) = none := by
  have hs : simpleEscape 117 = none := by decide
  have hx : ¬ (117 = 120) := by decide
  cases r with
  | nil => simp only [specEscape, hs, if_neg hx, if_true]
  | cons b t =>
    have hb : ¬ b = 123 := fun e => h (by simp [e])
    simp only [specEscape, hs, if_neg hx, if_true, if_neg hb]

theorem specEscape_u (t : List Nat) :
    specEscape (117 :: 123 :: t) =
      if 2 ≤ (t.takeWhile (fun d => (hexVal d).isSome)).length ∧
          (t.takeWhile (fun d => (hexVal d).isSome)).length ≤ 6 ∧
          t[(t.takeWhile (fun d => (hexVal d).isSome)).length]? = some 125 then
        some (uniVal (t.takeWhile (fun d => (hexVal d).isSome)),
          (t.takeWhile (fun d => (hexVal d).isSome)).length + 3)
      else none := by
  have hs : simpleEscape 117 = none := by decide
  have hx : ¬ (117 = 120) := by decide
  simp only [specEscape, hs, if_neg hx, if_true, uniVal]

theorem specEscape_u_closed (ds rest : List Nat) (h : AllHex ds) :
    specEscape (117 :: 123 :: (ds ++ 125 :: rest)) =
      if 2 ≤ ds.length ∧ ds.length ≤ 6 then some (uniVal ds, ds.length + 3) else none := by
  have htw : (ds ++ 125 :: rest).takeWhile (fun d => (hexVal d).isSome) = ds :=
    takeWhile_stop _ ds 125 rest h (by decide)
  have hget : (ds ++ 125 :: rest)[ds.length]? = some 125 := by
    rw [List.getElem?_append_right (Nat.le_refl _), Nat.sub_self]; rfl
  rw [specEscape_u, htw, hget]
  by_cases hd : 2 ≤ ds.length ∧ ds.length ≤ 6
  · rw [if_pos hd, if_pos ⟨hd.1, hd.2, rfl⟩]
  · rw [if_neg hd, if_neg (fun h' => hd ⟨h'.1, h'.2.1⟩)]

theorem specEscape_u_inv {t : List Nat} {v : Option Nat} {n : Nat}
    (h : specEscape (117 :: 123 :: t) = some (v, n)) :
    ∃ ds rest, t = ds ++ 125 :: rest ∧ AllHex ds ∧ 2 ≤ ds.length ∧ ds.length ≤ 6 ∧
      v = uniVal ds ∧ n = ds.length + 3 := by
  rw [specEscape_u] at h
  split at h
  · rename_i hc
    obtain ⟨h2, h6, hget⟩ := hc
    obtain ⟨rest, hrest⟩ := takeWhile_split _ t 125 hget
    simp only [Option.some.injEq, Prod.mk.injEq] at h
    exact ⟨_, rest, hrest, takeWhile_all _ t, h2, h6, h.1.symm, h.2.symm⟩
  · cases h

theorem allHex_no_brace {ds : List Nat} (h : AllHex ds) : 125 ∉ ds := by
  intro hm
  have := h 125 hm
  revert this; decide

theorem first_unique (c : Nat) : ∀ (ds ds' rest rest' : List Nat),
    ds ++ c :: rest = ds' ++ c :: rest' → c ∉ ds → c ∉ ds' → ds = ds' := by
  intro ds
  induction ds with
  | nil =>
    intro ds' rest rest' he _ h'
    cases ds' with
    | nil => rfl
    | cons y ys =>
      simp only [List.nil_append, List.cons_append, List.cons.injEq] at he
      exact absurd (by simp [he.1]) h'
  | cons x xs ih =>
    intro ds' rest rest' he h h'
    cases ds' with
    | nil =>
      simp only [List.nil_append, List.cons_append, List.cons.injEq] at he
      exact absurd (by simp [he.1]) h
    | cons y ys =>
      simp only [List.cons_append, List.cons.injEq] at he
      rw [he.1, ih ys rest rest' he.2 (fun hm => h (by simp [hm])) (fun hm => h' (by simp [hm]))]

/-! ### model and specification agree on what follows a backslash -/

/-- what `_decode_escape_sequence` must do given the specification's reading -/
def Agrees (r : List Nat) : Option (Option Nat × Nat) → Prop
  | some (some cp, n) => decodeEscapeSequence r 0 = .ok (cp, n - 1)
  | some (none, _) => decodeEscapeSequence r 0 = .error .range
  | none => ∃ e, e ≠ .range ∧ decodeEscapeSequence r 0 = .error e

theorem agrees_u_closed (ds rest : List Nat) (h125 : 125 ∉ ds) :
    Agrees (117 :: 123 :: (ds ++ 125 :: rest)) (specEscape (117 :: 123 :: (ds ++ 125 :: rest))) := by
  have hm := decode_u (123 :: (ds ++ 125 :: rest))
  rw [decodeHexChar_closed ds rest h125] at hm
  by_cases hh : AllHex ds
  · rw [specEscape_u_closed ds rest hh]
    by_cases hd : 2 ≤ ds.length ∧ ds.length ≤ 6
    · rw [if_neg (not_not_intro hd), if_pos hh] at hm
      rw [if_pos hd]
      unfold uniVal
      by_cases hr : hexValue ds ≤ 0x10FFFF
      · rw [if_pos hr]
        have : ¬ hexValue ds > 0x10FFFF := by omega
        simp only [if_neg this] at hm
        simp only [Agrees, hm]
        congr 2
        omega
      · rw [if_neg hr]
        have : hexValue ds > 0x10FFFF := by omega
        simp only [if_pos this] at hm
        exact hm
    · rw [if_pos hd] at hm
      rw [if_neg hd]
      exact ⟨.digits, by decide, hm⟩
  · have hnone : specEscape (117 :: 123 :: (ds ++ 125 :: rest)) = none := by
      cases hs : specEscape (117 :: 123 :: (ds ++ 125 :: rest)) with
      | none => rfl
      | some p =>
        obtain ⟨v, n⟩ := p
        obtain ⟨ds', rest', he, hall, _⟩ := specEscape_u_inv hs
        have := first_unique 125 ds ds' rest rest' he h125 (allHex_no_brace hall)
        exact absurd (this ▸ hall) hh
    rw [hnone]
    by_cases hd : 2 ≤ ds.length ∧ ds.length ≤ 6
    · rw [if_neg (not_not_intro hd), if_neg hh] at hm
      exact ⟨.hex, by decide, hm⟩
    · rw [if_pos hd] at hm
      exact ⟨.digits, by decide, hm⟩

theorem decode_agrees (r : List Nat) : Agrees r (specEscape r) := by
  cases r with
  | nil => exact ⟨.incomplete, by decide, decode_nil⟩
  | cons c t =>
    cases hs : simpleEscape c with
    | some v =>
      rw [specEscape_simple t hs]
      exact decode_simple t hs
    | none =>
      by_cases hx : c = 120
      · subst hx
        match t with
        | [] =>
          rw [specEscape_x_short [] (by simp)]
          exact ⟨.incomplete, by decide, decode_x_short [] (by simp)⟩
        | [d] =>
          rw [specEscape_x_short [d] (by simp)]
          exact ⟨.incomplete, by decide, decode_x_short [d] (by simp)⟩
        | d1 :: d0 :: r =>
          rw [specEscape_x]
          have hm := decode_x d1 d0 r
          cases h1 : hexVal d1 with
          | none => rw [h1] at hm; exact ⟨.hex, by decide, hm⟩
          | some v1 =>
            cases h0 : hexVal d0 with
            | none => rw [h1, h0] at hm; exact ⟨.hex, by decide, hm⟩
            | some v0 => rw [h1, h0] at hm; exact hm
      · by_cases hu : c = 117
        · subst hu
          by_cases hb : t.head? = some 123
          · obtain ⟨t', rfl⟩ : ∃ t', t = 123 :: t' := by
              cases t with
              | nil => cases hb
              | cons b t' =>
                simp only [List.head?_cons, Option.some.injEq] at hb
                exact ⟨t', by rw [hb]⟩
            rcases first_occurrence 125 t' with hno | ⟨ds, rest, rfl, hds⟩
            · have hnone : specEscape (117 :: 123 :: t') = none := by
                cases hsp : specEscape (117 :: 123 :: t') with
                | none => rfl
                | some p =>
                  obtain ⟨v, n⟩ := p
                  obtain ⟨ds', rest', he, _⟩ := specEscape_u_inv hsp
                  exact absurd (by rw [he]; simp) hno
              rw [hnone]
              have hm := decode_u (123 :: t')
              rw [decodeHexChar_unclosed t' hno] at hm
              exact ⟨.unclosed, by decide, hm⟩
            · exact agrees_u_closed ds rest hds
          · rw [specEscape_u_nobrace t hb]
            have hm := decode_u t
            rw [decodeHexChar_nobrace t hb] at hm
            exact ⟨.brace, by decide, hm⟩
        · rw [specEscape_other t hs hx hu]
          exact ⟨.unknown, by decide, decode_unknown t hs hx hu⟩

/-! ### one step of `unescape`, read through the specification -/

theorem specEscape_len {r : List Nat} {v : Option Nat} {n : Nat}
    (h : specEscape r = some (v, n)) : 1 ≤ n ∧ n ≤ r.length := by
  cases r with
  | nil => cases h
  | cons c t =>
    cases hs : simpleEscape c with
    | some w =>
      rw [specEscape_simple t hs] at h
      simp only [Option.some.injEq, Prod.mk.injEq] at h
      simp only [List.length_cons]; omega
    | none =>
      by_cases hx : c = 120
      · subst hx
        match t, h with
        | [], h => rw [specEscape_x_short [] (by simp)] at h; cases h
        | [d], h => rw [specEscape_x_short [d] (by simp)] at h; cases h
        | d1 :: d0 :: r, h =>
          rw [specEscape_x] at h
          split at h
          · simp only [Option.some.injEq, Prod.mk.injEq] at h
            simp only [List.length_cons]; omega
          · cases h
      · by_cases hu : c = 117
        · subst hu
          by_cases hb : t.head? = some 123
          · obtain ⟨t', rfl⟩ : ∃ t', t = 123 :: t' := by
              cases t with
              | nil => cases hb
              | cons b t' =>
                simp only [List.head?_cons, Option.some.injEq] at hb
                exact ⟨t', by rw [hb]⟩
            obtain ⟨ds, rest, rfl, _, _, _, _, rfl⟩ := specEscape_u_inv h
            simp only [List.length_cons, List.length_append]; omega
          · rw [specEscape_u_nobrace t hb] at h; cases h
        · rw [specEscape_other t hs hx hu] at h; cases h

/-- an escape is read the same whatever follows it -/
theorem specEscape_append {r : List Nat} {v : Option Nat} {n : Nat} (post : List Nat)
    (h : specEscape r = some (v, n)) : specEscape (r ++ post) = some (v, n) := by
  cases r with
  | nil => cases h
  | cons c t =>
    cases hs : simpleEscape c with
    | some w =>
      rw [specEscape_simple t hs] at h
      rw [List.cons_append, specEscape_simple _ hs, h]
    | none =>
      by_cases hx : c = 120
      · subst hx
        match t, h with
        | [], h => rw [specEscape_x_short [] (by simp)] at h; cases h
        | [d], h => rw [specEscape_x_short [d] (by simp)] at h; cases h
        | d1 :: d0 :: r, h =>
          rw [specEscape_x] at h
          simp only [List.cons_append]
          rw [specEscape_x, h]
      · by_cases hu : c = 117
        · subst hu
          by_cases hb : t.head? = some 123
          · obtain ⟨t', rfl⟩ : ∃ t', t = 123 :: t' := by
              cases t with
              | nil => cases hb
              | cons b t' =>
                simp only [List.head?_cons, Option.some.injEq] at hb
                exact ⟨t', by rw [hb]⟩
            obtain ⟨ds, rest, rfl, hall, h2, h6, rfl, rfl⟩ := specEscape_u_inv h
            simp only [List.cons_append, List.append_assoc]
            rw [specEscape_u_closed ds (rest ++ post) hall, if_pos ⟨h2, h6⟩]
          · rw [specEscape_u_nobrace t hb] at h; cases h
        · rw [specEscape_other t hs hx hu] at h; cases h

theorem unescape_esc_some {r : List Nat} {cp n : Nat} (h : specEscape r = some (some cp, n)) :
    unescape (92 :: r) = (unescape (r.drop n)).prepend [cp] := by
  have ha := decode_agrees r
  rw [h] at ha
  have hn := (specEscape_len h).1
  rw [unescape_cons_esc, ha]
  have : n - 1 + 1 = n := by omega
  simp only [this]

theorem unescape_esc_range {r : List Nat} {n : Nat} (h : specEscape r = some (none, n)) :
    unescape (92 :: r) = .error .range := by
  have ha := decode_agrees r
  rw [h] at ha
  rw [unescape_cons_esc, ha]

theorem unescape_esc_none {r : List Nat} (h : specEscape r = none) :
    ∃ e, e ≠ .range ∧ unescape (92 :: r) = .error e := by
  have ha := decode_agrees r
  rw [h] at ha
  obtain ⟨e, hne, he⟩ := ha
  exact ⟨e, hne, by rw [unescape_cons_esc, he]⟩

theorem specUnescape_nil : specUnescape [] = some [] := specUnescape.eq_1

theorem specUnescape_cons_char {c : Nat} (r : List Nat) (hc : c ≠ 92) :
    specUnescape (c :: r) = (specUnescape r).map (c :: ·) := by
  rw [specUnescape.eq_2, if_pos hc]

theorem specUnescape_esc_some {r : List Nat} {cp n : Nat} (h : specEscape r = some (some cp, n)) :
    specUnescape (92 :: r) = (specUnescape (r.drop n)).map (cp :: ·) := by
  rw [specUnescape.eq_2, if_neg (by decide), h]

theorem specUnescape_esc_range {r : List Nat} {n : Nat} (h : specEscape r = some (none, n)) :
    specUnescape (92 :: r) = none := by
  rw [specUnescape.eq_2, if_neg (by decide), h]

theorem specUnescape_esc_none {r : List Nat} (h : specEscape r = none) :
    specUnescape (92 :: r) = none := by
  rw [specUnescape.eq_2, if_neg (by decide), h]

/-- the model returns what the specification says, and a `PestGrammarSyntaxError` where the
    specification says the text denotes nothing -/
theorem unescape_rel : ∀ (n : Nat) (s : List Nat), s.length ≤ n →
    (∀ a, specUnescape s = some a → unescape s = .ok a) ∧
    (specUnescape s = none → ∃ e, unescape s = .error e) := by
  intro n
  induction n with
  | zero =>
    intro s hs
    have : s = [] := List.eq_nil_of_length_eq_zero (by omega)
    subst this
    exact ⟨fun a ha => (by rw [specUnescape_nil] at ha; cases ha; rfl),
      fun h => by rw [specUnescape_nil] at h; cases h⟩
  | succ m ih =>
    intro s hs
    cases s with
    | nil =>
      exact ⟨fun a ha => (by rw [specUnescape_nil] at ha; cases ha; rfl),
        fun h => by rw [specUnescape_nil] at h; cases h⟩
    | cons c r =>
      have hr : r.length ≤ m := by simp only [List.length_cons] at hs; omega
      by_cases hc : c = 92
      · subst hc
        cases hsp : specEscape r with
        | none =>
          rw [specUnescape_esc_none hsp]
          obtain ⟨e, _, he⟩ := unescape_esc_none hsp
          exact ⟨fun a ha => (by cases ha), fun _ => ⟨e, he⟩⟩
        | some p =>
          obtain ⟨v, k⟩ := p
          cases v with
          | none =>
            rw [specUnescape_esc_range hsp, unescape_esc_range hsp]
            exact ⟨fun a ha => (by cases ha), fun _ => ⟨.range, rfl⟩⟩
          | some cp =>
            rw [specUnescape_esc_some hsp, unescape_esc_some hsp]
            have hd : (r.drop k).length ≤ m := by simp only [List.length_drop]; omega
            obtain ⟨ih1, ih2⟩ := ih (r.drop k) hd
            cases hrest : specUnescape (r.drop k) with
            | none =>
              obtain ⟨e, he⟩ := ih2 hrest
              rw [he]
              exact ⟨fun a ha => (by cases ha), fun _ => ⟨e, rfl⟩⟩
            | some b =>
              rw [ih1 b hrest]
              exact ⟨fun a ha => (by
                simp only [Option.map_some, Option.some.injEq] at ha
                subst ha; rfl), fun h => by cases h⟩
      · rw [specUnescape_cons_char r hc, unescape_cons_char r hc]
        obtain ⟨ih1, ih2⟩ := ih r hr
        cases hrest : specUnescape r with
        | none =>
          obtain ⟨e, he⟩ := ih2 hrest
          rw [he]
          exact ⟨fun a ha => (by cases ha), fun _ => ⟨e, rfl⟩⟩
        | some b =>
          rw [ih1 b hrest]
          exact ⟨fun a ha => (by
            simp only [Option.map_some, Option.some.injEq] at ha
            subst ha; rfl), fun h => by cases h⟩

theorem unescape_of_spec {s a : List Nat} (h : specUnescape s = some a) : unescape s = .ok a :=
  (unescape_rel s.length s (Nat.le_refl _)).1 a h

theorem unescape_of_spec_none {s : List Nat} (h : specUnescape s = none) :
    ∃ e, unescape s = .error e :=
  (unescape_rel s.length s (Nat.le_refl _)).2 h

theorem spec_of_unescape {s a : List Nat} (h : unescape s = .ok a) : specUnescape s = some a := by
  cases hs : specUnescape s with
  | none =>
    obtain ⟨e, he⟩ := unescape_of_spec_none hs
    rw [he] at h; cases h
  | some b =>
    rw [unescape_of_spec hs] at h
    cases h; rfl

/-- **the compositional law**: a complete literal body `pre` is decoded on its own, whatever
    follows (and whatever happens to what follows) -/
theorem unescape_append_aux : ∀ (n : Nat) (pre a post : List Nat), pre.length ≤ n →
    specUnescape pre = some a → unescape (pre ++ post) = (unescape post).prepend a := by
  intro n
  induction n with
  | zero =>
    intro pre a post hl h
    have : pre = [] := List.eq_nil_of_length_eq_zero (by omega)
    subst this
    rw [specUnescape_nil] at h; cases h
    rw [List.nil_append, prepend_nil]
  | succ m ih =>
    intro pre a post hl h
    cases pre with
    | nil =>
      rw [specUnescape_nil] at h; cases h
      rw [List.nil_append, prepend_nil]
    | cons c r =>
      have hr : r.length ≤ m := by simp only [List.length_cons] at hl; omega
      by_cases hc : c = 92
      · subst hc
        cases hsp : specEscape r with
        | none => rw [specUnescape_esc_none hsp] at h; cases h
        | some p =>
          obtain ⟨v, k⟩ := p
          cases v with
          | none => rw [specUnescape_esc_range hsp] at h; cases h
          | some cp =>
            rw [specUnescape_esc_some hsp] at h
            cases hrest : specUnescape (r.drop k) with
            | none => rw [hrest] at h; cases h
            | some b =>
              rw [hrest] at h
              simp only [Option.map_some, Option.some.injEq] at h
              subst h
              have hk := (specEscape_len hsp).2
              have hd : (r.drop k).length ≤ m := by simp only [List.length_drop]; omega
              rw [List.cons_append, unescape_esc_some (specEscape_append post hsp),
                List.drop_append_of_le_length hk, ih (r.drop k) b post hd hrest, prepend_prepend]
              rfl
      · rw [specUnescape_cons_char r hc] at h
        cases hrest : specUnescape r with
        | none => rw [hrest] at h; cases h
        | some b =>
          rw [hrest] at h
          simp only [Option.map_some, Option.some.injEq] at h
          subst h
          rw [List.cons_append, unescape_cons_char _ hc, ih r b post hr hrest, prepend_prepend]
          rfl

theorem unescape_append {pre a : List Nat} (post : List Nat) (h : specUnescape pre = some a) :
    unescape (pre ++ post) = (unescape post).prepend a :=
  unescape_append_aux pre.length pre a post (Nat.le_refl _) h

/-- one escape `e` (without its backslash) between a complete body and anything -/
theorem unescape_escape {pre a e : List Nat} {v : Nat} (post : List Nat)
    (hpre : specUnescape pre = some a) (he : specEscape e = some (some v, e.length)) :
    unescape (pre ++ 92 :: e ++ post) = (unescape post).prepend (a ++ [v]) := by
  rw [List.append_assoc, unescape_append _ hpre, List.cons_append,
    unescape_esc_some (specEscape_append post he), List.drop_left, prepend_prepend]

theorem unescape_escape_range {pre a e : List Nat} (post : List Nat)
    (hpre : specUnescape pre = some a) (he : specEscape e = some (none, e.length)) :
    unescape (pre ++ 92 :: e ++ post) = .error .range := by
  rw [List.append_assoc, unescape_append _ hpre, List.cons_append,
    unescape_esc_range (specEscape_append post he)]
  rfl

/-! ### `RE_ESCAPE` is the specification's escape syntax -/

theorem escapeLen_spec (e : List Nat) : escapeLen e = (specEscape e).map (·.2) := by
  cases e with
  | nil => rfl
  | cons c r =>
    cases hs : simpleEscape c with
    | some v =>
      rw [specEscape_simple r hs]
      have hc : c = 92 ∨ c = 34 ∨ c = 114 ∨ c = 110 ∨ c = 116 ∨ c = 48 ∨ c = 39 := by
        have := simpleEscape_some hs; omega
      simp only [escapeLen, if_pos hc, Option.map_some]
    | none =>
      have hc : ¬ (c = 92 ∨ c = 34 ∨ c = 114 ∨ c = 110 ∨ c = 116 ∨ c = 48 ∨ c = 39) := by
        have := simpleEscape_none hs; omega
      by_cases hx : c = 120
      · subst hx
        match r with
        | [] => rw [specEscape_x_short [] (by simp)]; simp only [escapeLen, if_neg hc, if_true, Option.map_none]
        | [d] => rw [specEscape_x_short [d] (by simp)]; simp only [escapeLen, if_neg hc, if_true, Option.map_none]
        | d1 :: d0 :: r' =>
          rw [specEscape_x]
          simp only [escapeLen, if_neg hc, if_true, isHexDigit_eq]
          cases hexVal d1 <;> cases hexVal d0 <;> simp
      · by_cases hu : c = 117
        · subst hu
          cases r with
          | nil =>
            rw [specEscape_u_nobrace [] (by simp)]
            simp only [escapeLen, if_neg hc, if_neg hx, if_true, Option.map_none]
          | cons b t =>
            by_cases hb : b = 123
            · subst hb
              have hfun : isHexDigit = fun d => (hexVal d).isSome := funext isHexDigit_eq
              rw [specEscape_u]
              simp only [escapeLen, if_neg hc, if_neg hx, if_true, hfun]
              split <;> simp
            · rw [specEscape_u_nobrace (b :: t) (by simp [hb])]
              simp only [escapeLen, if_neg hc, if_neg hx, if_true, if_neg hb, Option.map_none]
        · rw [specEscape_other r hs hx hu]
          simp only [escapeLen, if_neg hc, if_neg hx, if_neg hu, Option.map_none]

theorem specEscape_of_escapeLen {e : List Nat} {n : Nat} (h : escapeLen e = some n) :
    ∃ v, specEscape e = some (v, n) := by
  rw [escapeLen_spec] at h
  cases hs : specEscape e with
  | none => rw [hs] at h; cases h
  | some p =>
    obtain ⟨v, k⟩ := p
    rw [hs] at h
    simp only [Option.map_some, Option.some.injEq] at h
    exact ⟨v, by rw [h]⟩

/-- a scanned literal body decodes, or holds a `\u{…}` beyond U+10FFFF -/
theorem unescape_validBody {s : List Nat} (h : ValidBody s) :
    (∃ r, unescape s = .ok r) ∨ unescape s = .error .range := by
  induction h with
  | nil => exact .inl ⟨[], rfl⟩
  | char c r hc _ ih =>
    rw [unescape_cons_char r hc]
    rcases ih with ⟨a, ha⟩ | ha
    · exact .inl ⟨[c] ++ a, by rw [ha]; rfl⟩
    · exact .inr (by rw [ha]; rfl)
  | esc e r he _ ih =>
    obtain ⟨v, hv⟩ := specEscape_of_escapeLen he
    cases v with
    | none => exact .inr (unescape_esc_range (specEscape_append r hv))
    | some cp =>
      rw [unescape_esc_some (specEscape_append r hv), List.drop_left]
      rcases ih with ⟨a, ha⟩ | ha
      · exact .inl ⟨[cp] ++ a, by rw [ha]; rfl⟩
      · exact .inr (by rw [ha]; rfl)

theorem unescape_one_escape {e : List Nat} (h : escapeLen e = some e.length) :
    (∃ c, unescape (92 :: e) = .ok [c]) ∨ unescape (92 :: e) = .error .range := by
  obtain ⟨v, hv⟩ := specEscape_of_escapeLen h
  cases v with
  | none => exact .inr (unescape_esc_range hv)
  | some cp =>
    refine .inl ⟨cp, ?_⟩
    rw [unescape_esc_some hv, List.drop_length, unescape_nil]
    rfl

theorem specUnescape_plain : ∀ (s : List Nat), (∀ c ∈ s, c ≠ 92) → specUnescape s = some s := by
  intro s
  induction s with
  | nil => intro _; exact specUnescape_nil
  | cons c r ih =>
    intro h
    rw [specUnescape_cons_char r (h c (by simp)), ih (fun x hx => h x (by simp [hx]))]
    rfl

/-! ### spelling -/

theorem hexVal_hexChar {n : Nat} (h : n < 16) : hexVal (hexChar n) = some n := by
  unfold hexChar hexVal
  by_cases h10 : n < 10
  · rw [if_pos h10, if_pos (by omega)]; congr 1; omega
  · rw [if_neg h10, if_neg (by omega), if_neg (by omega), if_pos (by omega)]; congr 1; omega

theorem hexVal_hexCharLower {n : Nat} (h : n < 16) : hexVal (hexCharLower n) = some n := by
  unfold hexCharLower hexVal
  by_cases h10 : n < 10
  · rw [if_pos h10, if_pos (by omega)]; congr 1; omega
  · rw [if_neg h10, if_neg (by omega), if_pos (by omega)]; congr 1; omega

theorem hexValue_snoc (ds : List Nat) (d : Nat) :
    hexValue (ds ++ [d]) = 16 * hexValue ds + (hexVal d).getD 0 := by
  simp [hexValue, List.foldl_append]

theorem length_hexN : ∀ (k v : Nat), (hexN k v).length = k := by
  intro k
  induction k with
  | zero => intro v; rfl
  | succ k ih => intro v; simp [hexN, ih]

theorem allHex_hexN : ∀ (k v : Nat), AllHex (hexN k v) := by
  intro k
  induction k with
  | zero => intro v d hd; cases hd
  | succ k ih =>
    intro v d hd
    simp only [hexN, List.mem_append, List.mem_singleton] at hd
    rcases hd with hd | rfl
    · exact ih _ d hd
    · rw [hexVal_hexChar (Nat.mod_lt _ (by omega))]; rfl

theorem hexValue_hexN : ∀ (k v : Nat), v < 16 ^ k → hexValue (hexN k v) = v := by
  intro k
  induction k with
  | zero => intro v hv; simp only [Nat.pow_zero] at hv; simp [hexN, hexValue]; omega
  | succ k ih =>
    intro v hv
    have hdiv : v / 16 < 16 ^ k := by
      rw [Nat.pow_succ] at hv
      exact Nat.div_lt_of_lt_mul (by rw [Nat.mul_comm]; exact hv)
    rw [hexN, hexValue_snoc, ih _ hdiv, hexVal_hexChar (Nat.mod_lt _ (by omega))]
    simp only [Option.getD_some]
    omega

/-! ### the relational reading of the specification -/

theorem specEscape_of_escape {e : List Nat} {v : Nat} (h : Escape e v) :
    specEscape e = some (some v, e.length) := by
  cases h with
  | simple c v hs => exact specEscape_simple [] hs
  | code d1 d0 h1 h0 e1 e0 => rw [specEscape_x, e1, e0]; rfl
  | unicode ds h2 h6 hall hr =>
    have : [117, 123] ++ ds ++ [125] = 117 :: 123 :: (ds ++ 125 :: []) := by simp
    rw [this, specEscape_u_closed ds [] hall, if_pos ⟨h2, h6⟩, uniVal, if_pos hr]
    simp only [List.length_cons, List.length_append, List.length_nil]

theorem escape_of_specEscape {r : List Nat} {cp n : Nat} (h : specEscape r = some (some cp, n)) :
    ∃ e rest, r = e ++ rest ∧ e.length = n ∧ Escape e cp := by
  cases r with
  | nil => cases h
  | cons c t =>
    cases hs : simpleEscape c with
    | some w =>
      rw [specEscape_simple t hs] at h
      simp only [Option.some.injEq, Prod.mk.injEq] at h
      obtain ⟨rfl, rfl⟩ := h
      exact ⟨[c], t, rfl, rfl, .simple c w hs⟩
    | none =>
      by_cases hx : c = 120
      · subst hx
        match t, h with
        | [], h => rw [specEscape_x_short [] (by simp)] at h; cases h
        | [d], h => rw [specEscape_x_short [d] (by simp)] at h; cases h
        | d1 :: d0 :: r, h =>
          rw [specEscape_x] at h
          split at h
          · rename_i h1 h0 e1 e0
            simp only [Option.some.injEq, Prod.mk.injEq] at h
            obtain ⟨rfl, rfl⟩ := h
            exact ⟨[120, d1, d0], r, rfl, rfl, .code d1 d0 h1 h0 e1 e0⟩
          · cases h
      · by_cases hu : c = 117
        · subst hu
          by_cases hb : t.head? = some 123
          · obtain ⟨t', rfl⟩ : ∃ t', t = 123 :: t' := by
              cases t with
              | nil => cases hb
              | cons b t' =>
                simp only [List.head?_cons, Option.some.injEq] at hb
                exact ⟨t', by rw [hb]⟩
            obtain ⟨ds, rest, rfl, hall, h2, h6, hv, rfl⟩ := specEscape_u_inv h
            unfold uniVal at hv
            by_cases hr : hexValue ds ≤ 0x10FFFF
            · rw [if_pos hr] at hv
              simp only [Option.some.injEq] at hv
              subst hv
              exact ⟨[117, 123] ++ ds ++ [125], rest, by simp, by simp,
                .unicode ds h2 h6 hall hr⟩
            · rw [if_neg hr] at hv; cases hv
          · rw [specEscape_u_nobrace t hb] at h; cases h
        · rw [specEscape_other t hs hx hu] at h; cases h

theorem spec_of_denotes {s r : List Nat} (h : Denotes s r) : specUnescape s = some r := by
  induction h with
  | nil => exact specUnescape_nil
  | char c s r hc _ ih => rw [specUnescape_cons_char s hc, ih]; rfl
  | esc e s v r he _ ih =>
    rw [specUnescape_esc_some (specEscape_append s (specEscape_of_escape he)), List.drop_left, ih]
    rfl

theorem denotes_of_spec : ∀ (n : Nat) (s r : List Nat), s.length ≤ n →
    specUnescape s = some r → Denotes s r := by
  intro n
  induction n with
  | zero =>
    intro s r hl h
    have : s = [] := List.eq_nil_of_length_eq_zero (by omega)
    subst this
    rw [specUnescape_nil] at h; cases h
    exact .nil
  | succ m ih =>
    intro s r hl h
    cases s with
    | nil => rw [specUnescape_nil] at h; cases h; exact .nil
    | cons c t =>
      have ht : t.length ≤ m := by simp only [List.length_cons] at hl; omega
      by_cases hc : c = 92
      · subst hc
        cases hsp : specEscape t with
        | none => rw [specUnescape_esc_none hsp] at h; cases h
        | some p =>
          obtain ⟨v, k⟩ := p
          cases v with
          | none => rw [specUnescape_esc_range hsp] at h; cases h
          | some cp =>
            rw [specUnescape_esc_some hsp] at h
            cases hrest : specUnescape (t.drop k) with
            | none => rw [hrest] at h; cases h
            | some b =>
              rw [hrest] at h
              simp only [Option.map_some, Option.some.injEq] at h
              subst h
              obtain ⟨e, rest, rfl, rfl, hesc⟩ := escape_of_specEscape hsp
              rw [List.drop_left] at hrest
              have hd : rest.length ≤ m := by
                simp only [List.length_append] at ht; omega
              exact .esc e rest cp b hesc (ih rest b hd hrest)
      · rw [specUnescape_cons_char t hc] at h
        cases hrest : specUnescape t with
        | none => rw [hrest] at h; cases h
        | some b =>
          rw [hrest] at h
          simp only [Option.map_some, Option.some.injEq] at h
          subst h
          exact .char c t b hc (ih t b ht hrest)

end Unescape
end Pest
