/-
  Lemmas/FrontTotal.lean — `Front.load` (scanner + grammar parser) is total, and
  `PestGrammarError._error_context` (Front/ErrorContext.lean) finds a line and a column that
  exist (helper lemmas for Props/C11.lean).

    * `load_sat`: scanner totality (Lemmas/FrontTotalScan.lean) and parser totality
      (Lemmas/FrontTotalParse.lean) put together;
    * `splitRaw_flatten`: `str.splitlines(keepends=True)` loses nothing, for the full set of
      line boundaries (by induction, both values of the `\r\n` flag);
    * `findLine_found` / `findLine_none`: what the shared loop knows when it breaks / runs to
      its end, over an arbitrary list of lines;
    * `gec_exists`: the exits of `_error_context` for `0 ≤ index ≤ len(text)`.
-/
import PestModel.Front.ErrorContext
import PestModel.Lemmas.LineCol
import PestModel.Lemmas.FrontTotalScan
import PestModel.Lemmas.FrontTotalParse

namespace Pest
namespace Front
open LineCol

/-! ### `load` -/

/-- tokens of the scanner as input of the parser, with their origin recorded -/
theorem allOK_of_scan {N : Nat} {toks : List Token} (h : ∀ t ∈ toks, TokOK N t) (eof : Token) :
    AllOK N (fun t => t ∈ toks ∨ t = eof) toks :=
  fun t ht => ⟨h t ht, .inl ht⟩

theorem eofOK_of (N : Nat) (toks : List Token) :
    EofOK N (fun t => t ∈ toks ∨ t = (⟨.eoi, [], N⟩ : Token)) ⟨.eoi, [], N⟩ :=
  ⟨rfl, Nat.le_refl _, .inr rfl⟩

/-- the parser on tokens satisfying the token facts: no `oof`, no `exc`, and the token of an
    error is one of the list or `eof` (hence starts inside the text) -/
theorem parseTokens_top (builtins : List String) (N : Nat) {toks : List Token}
    (h : ∀ t ∈ toks, TokOK N t) :
    match parseTokens builtins ⟨.eoi, [], N⟩ toks with
    | .ok _ _ => True
    | .err _ t => t.start ≤ N ∧ (t ∈ toks ∨ t = ⟨.eoi, [], N⟩)
    | .exc _ => False
    | .oof => False := by
  have hp := parseTokens_sat (eofOK_of N toks) builtins (allOK_of_scan h _)
  cases hr : parseTokens builtins ⟨.eoi, [], N⟩ toks with
  | ok g rest => trivial
  | err k t => rw [hr] at hp; exact hp
  | exc n => rw [hr] at hp; exact hp
  | oof => rw [hr] at hp; exact hp

theorem load_sat (builtins : List String) (text : Text) :
    match load builtins text with
    | .ok _ => True
    | .error e => e.start ≤ text.length
    | .exc _ => False
    | .oof => False := by
  have hscan := scan_sat text
  unfold load
  cases hs : scan text with
  | err k st v => rw [hs] at hscan; exact hscan
  | exc n => rw [hs] at hscan; exact hscan
  | oof => rw [hs] at hscan; exact hscan
  | ok toks =>
    rw [hs] at hscan
    have hp := parseTokens_top builtins text.length hscan
    dsimp only
    cases hr : parseTokens builtins ⟨.eoi, [], text.length⟩ toks with
    | ok g rest => trivial
    | err k t => rw [hr] at hp; exact hp.1
    | exc n => rw [hr] at hp; exact hp
    | oof => rw [hr] at hp; exact hp

/-! ### `splitlines(keepends=True)` keeps every character -/

theorem splitRaw_flatten : ∀ (t : LineCol.Text) (b : Bool),
    ((splitRaw t b).map keep).flatten = if b = true then t.tail else t
  | [], b => by cases b <;> simp [splitRaw]
  | c :: rest, true => by
    have ih := splitRaw_flatten rest false
    simp only [splitRaw, ih, if_true, List.tail_cons]
    simp
  | c :: rest, false => by
    have ih := splitRaw_flatten rest false
    have iht := splitRaw_flatten rest true
    simp only [Bool.false_eq_true, if_false, if_true] at ih iht ⊢
    simp only [splitRaw]
    by_cases hb : isBreak c = true
    · rw [if_pos hb]
      by_cases hcr : c = 13 ∧ rest.head? = some 10
      · rw [if_pos hcr]
        obtain ⟨rfl, h10⟩ := hcr
        cases rest with
        | nil => cases h10
        | cons x xs =>
          simp only [List.head?_cons, Option.some.injEq] at h10
          subst h10
          simp only [List.map_cons, List.flatten_cons, iht, keep, List.tail_cons]
          rfl
      · rw [if_neg hcr]
        simp only [List.map_cons, List.flatten_cons, ih, keep]
        rfl
    · rw [if_neg hb]
      cases hs : splitRaw rest false with
      | nil =>
        rw [hs] at ih
        simp only [List.map_nil, List.flatten_nil] at ih
        subst ih
        rfl
      | cons x more =>
        obtain ⟨b, e⟩ := x
        rw [hs] at ih
        simp only [List.map_cons, List.flatten_cons, keep] at ih ⊢
        rw [← ih]
        simp

theorem splitlines_flatten (t : LineCol.Text) : (splitlines true t).flatten = t := by
  rw [splitlines_true]
  have := splitRaw_flatten t false
  simpa using this

theorem ecLines_flatten (t : LineCol.Text) (b : Bool) : (ecLines t b).flatten = t := by
  unfold ecLines
  cases b <;> simp [splitlines_flatten]

theorem gecLines_eq {t : LineCol.Text} {b : Bool}
    (he : endsOnNewLine t (splitlines true t) = some b) : gecLines t = some (ecLines t b) := by
  unfold gecLines ecLines
  simp only [he, Option.bind_eq_bind, Option.bind_some, Option.pure_def]

/-! ### the loop over an arbitrary list of lines -/

theorem findLine_found (pos : Int) : ∀ (ls : List LineCol.Text) (i cum j c : Nat),
    (cum : Int) ≤ pos → findLine pos ls i cum = (some j, c) →
      ∃ l, ls[j - i]? = some l ∧ l.length ≤ c ∧ ((c - l.length : Nat) : Int) ≤ pos ∧ pos < (c : Int)
  | [], i, cum, j, c, _, h => by simp [findLine] at h
  | l :: ls, i, cum, j, c, hc, h => by
    simp only [findLine] at h
    by_cases hlt : pos < ((cum + l.length : Nat) : Int)
    · rw [if_pos hlt] at h
      simp only [Prod.mk.injEq, Option.some.injEq] at h
      obtain ⟨rfl, rfl⟩ := h
      refine ⟨l, by simp, by omega, ?_, hlt⟩
      have : cum + l.length - l.length = cum := by omega
      rw [this]; exact hc
    · rw [if_neg hlt] at h
      have hge := (findLine_lt pos ls (i + 1) (cum + l.length) j c h).1
      obtain ⟨l', h1, h2, h3, h4⟩ :=
        findLine_found pos ls (i + 1) (cum + l.length) j c (by omega) h
      refine ⟨l', ?_, h2, h3, h4⟩
      have : j - i = (j - (i + 1)) + 1 := by omega
      rw [this, List.getElem?_cons_succ]
      exact h1

theorem findLine_none (pos : Int) : ∀ (ls : List LineCol.Text) (i cum c : Nat),
    (cum : Int) ≤ pos → findLine pos ls i cum = (none, c) →
      c = cum + ls.flatten.length ∧ (c : Int) ≤ pos
  | [], i, cum, c, hc, h => by
    simp only [findLine, Prod.mk.injEq, true_and] at h
    subst h
    exact ⟨by simp, hc⟩
  | l :: ls, i, cum, c, hc, h => by
    simp only [findLine] at h
    by_cases hlt : pos < ((cum + l.length : Nat) : Int)
    · rw [if_pos hlt] at h; cases h
    · rw [if_neg hlt] at h
      obtain ⟨h1, h2⟩ := findLine_none pos ls (i + 1) (cum + l.length) c (by omega) h
      refine ⟨?_, h2⟩
      simp only [List.flatten_cons, List.length_append]
      omega

theorem length_le_flatten : ∀ (ls : List LineCol.Text) (k : Nat) (l : LineCol.Text),
    ls[k]? = some l → l.length ≤ ls.flatten.length
  | [], k, l, h => by simp at h
  | x :: xs, 0, l, h => by
    simp only [List.getElem?_cons_zero, Option.some.injEq] at h
    subst h
    simp
  | x :: xs, k + 1, l, h => by
    simp only [List.getElem?_cons_succ] at h
    have := length_le_flatten xs k l h
    simp only [List.flatten_cons, List.length_append]
    omega

/-! ### `_error_context` -/

/-- the exit of `_error_context` once the target line is known to exist -/
theorem gec_exit {t : LineCol.Text} {index : Nat} {b : Bool} {found : Option Nat} {cum : Nat}
    {l : LineCol.Text} (he : endsOnNewLine t (splitlines true t) = some b)
    (hf : findLine (index : Int) (ecLines t b) 0 0 = (found, cum))
    (hlt : found.getD ((ecLines t b).length - 1) < (ecLines t b).length)
    (hl : (ecLines t b)[found.getD ((ecLines t b).length - 1)]? = some l) :
    grammarErrorContext t index = some (found.getD ((ecLines t b).length - 1) + 1,
      (index : Int) - ((cum : Int) - (l.length : Int)), rstrip l) := by
  unfold grammarErrorContext
  simp only [gecLines_eq he, Option.bind_eq_bind, Option.bind_some, hf, hl, Option.pure_def]
  generalize found.getD ((ecLines t b).length - 1) = target at hlt hl
  have e1 : target > 0 → ∃ p, (ecLines t b)[target - 1]? = some p :=
    fun _ => ⟨_, List.getElem?_eq_getElem (by omega)⟩
  have e2 : target < (ecLines t b).length - 1 → ∃ q, (ecLines t b)[target + 1]? = some q :=
    fun _ => ⟨_, List.getElem?_eq_getElem (by omega)⟩
  by_cases h1 : target > 0 <;> by_cases h2 : target < (ecLines t b).length - 1
  · obtain ⟨p, hp⟩ := e1 h1
    obtain ⟨q, hq⟩ := e2 h2
    simp only [if_pos h1, if_pos h2, hp, hq, Option.bind_some]
  · obtain ⟨p, hp⟩ := e1 h1
    simp only [if_pos h1, if_neg h2, hp, Option.bind_some]
  · obtain ⟨q, hq⟩ := e2 h2
    simp only [if_neg h1, if_pos h2, hq, Option.bind_some]
  · simp only [if_neg h1, if_neg h2]

theorem ecLines_pos (t : LineCol.Text) {b : Bool}
    (hne : b = false → splitlines true t ≠ []) : 0 < (ecLines t b).length := by
  unfold ecLines
  cases b with
  | true => simp
  | false => simpa using List.length_pos_iff.mpr (hne rfl)

theorem gec_total (t : LineCol.Text) (index : Nat) :
    (grammarErrorContext t index).isSome = true := by
  obtain ⟨b, hb, hne⟩ := endsOnNewLine_total t
  have hpos := ecLines_pos t hne
  cases hf : findLine (index : Int) (ecLines t b) 0 0 with
  | mk found cum =>
    have hi : found.getD ((ecLines t b).length - 1) < (ecLines t b).length := by
      cases found with
      | some i => have := (findLine_lt _ _ _ _ _ _ hf).2; simp; omega
      | none => simp; omega
    rw [gec_exit hb hf hi (List.getElem?_eq_getElem hi)]; rfl

/-- **the reported position exists**: for `0 ≤ index ≤ len(text)` the reported line is one of
    the lines the function works on, the column lies within it, and it reaches the length of
    the line only when `index` is the end of the text -/
theorem gec_exists (t : LineCol.Text) {index : Nat} (hi : index ≤ t.length) :
    ∃ lines line col cur l, gecLines t = some lines ∧
      grammarErrorContext t index = some (line, col, cur) ∧ 1 ≤ line ∧ line ≤ lines.length ∧
      lines[line - 1]? = some l ∧ 0 ≤ col ∧ col ≤ l.length ∧ cur = rstrip l ∧
      (col = l.length → index = t.length) := by
  obtain ⟨b, hb, hne⟩ := endsOnNewLine_total t
  have hpos := ecLines_pos t hne
  have hflat := ecLines_flatten t b
  cases hf : findLine (index : Int) (ecLines t b) 0 0 with
  | mk found cum =>
    cases found with
    | some j =>
      have hj := (findLine_lt _ _ _ _ _ _ hf).2
      obtain ⟨l, h1, h2, h3, h4⟩ := findLine_found _ _ 0 0 j cum (by simp) hf
      simp only [Nat.sub_zero] at h1
      have hlt : (some j).getD ((ecLines t b).length - 1) < (ecLines t b).length := by
        simp; omega
      refine ⟨ecLines t b, j + 1, (index : Int) - ((cum : Int) - (l.length : Int)), rstrip l, l,
        gecLines_eq hb, ?_, by omega, by omega, by simpa using h1, by omega, by omega, rfl,
        by omega⟩
      exact gec_exit hb hf hlt (by simpa using h1)
    | none =>
      obtain ⟨h1, h2⟩ := findLine_none _ _ 0 0 cum (by simp) hf
      rw [hflat] at h1
      have hlt : (none : Option Nat).getD ((ecLines t b).length - 1) < (ecLines t b).length := by
        simp; omega
      have hl := List.getElem?_eq_getElem hlt
      generalize (ecLines t b)[(none : Option Nat).getD ((ecLines t b).length - 1)] = l at hl
      have hle := length_le_flatten _ _ _ hl
      rw [hflat] at hle
      refine ⟨ecLines t b, (ecLines t b).length - 1 + 1,
        (index : Int) - ((cum : Int) - (l.length : Int)), rstrip l, l,
        gecLines_eq hb, ?_, by omega, by omega, by simpa using hl, by omega, by omega, rfl,
        fun _ => by omega⟩
      exact gec_exit hb hf hlt hl

end Front
end Pest
