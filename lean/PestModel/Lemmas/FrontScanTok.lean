/-
  Lemmas/FrontScanTok.lean — the token level of the scanner half of the C10 round trip
  (Lemmas/FrontScanRT.lean holds the recursive part and the theorem `scan_roundtrip`).

  Everything the scanner does on a *successful* run depends on the remaining text only (the
  counters `pos`/`start` only feed token starts and error reports), so all statements are
  triples over the remaining text:

    Sp m inp a tl kvs  :  from any state whose remaining text is `inp`, `m` returns `a`,
                          leaves `tl`, and has appended the tokens `kvs` (kinds and values)

  composed by `Sp.bind`.  The canonical text puts one blank after every token; a scanner method
  may or may not have eaten the blank behind its last token (`Bl t tl`: `t` is `tl`, possibly
  after one blank), and every method that begins with `skip_trivia` accepts both.

  Contents: the monad (`bind_ok`, `Sp.*`), trivia on canonical text (`Stop`, `skipTrivia_ws`,
  `sp_triv*`), first characters (`Hd`), the matchers on a spelling followed by a blank
  (`mIdentifier_ident`, `mTag_tag`, `mNumber_digits`, `mInteger_int`, `mChar_charLit`, …), the
  decimal printer (`natDigits_*`), strings (`unescape_escapeBody`, `sp_stringLoop`,
  `sp_acceptString`, `sp_acceptCIString`), `{m,n}` (`sp_boundsLoop`), postfix operators
  (`sp_postfixLoop`), prefix operators (`sp_prefixLoop`), tags (`sp_acceptTag_*`), slices
  (`sp_peekTail_*`), character ranges (`sp_charRange`), doc lines (`sp_docInner`).
-/
import PestModel.Front.Ast
import PestModel.Lemmas.Unescape

namespace Pest
namespace Front

/-- kinds and values of a token list -/
def kvOf (toks : List Token) : List KV := toks.map fun t => (t.kind, t.value)

namespace RT

/-- the tokens emitted so far, oldest first, as kinds and values -/
def out (s : St) : List KV := kvOf s.toks.reverse

/-! ### the monad -/

theorem bind_apply {α β} (m : M α) (f : α → M β) (s : St) :
    (m >>= f) s = match m s with
      | .ok a s' => f a s'
      | .err k st v => .err k st v
      | .exc n => .exc n
      | .oof => .oof := rfl

theorem pure_apply {α} (a : α) (s : St) : (pure a : M α) s = .ok a s := rfl

theorem bind_ok {α β} {m : M α} {f : α → M β} {s s1 : St} {a : α} (h : m s = .ok a s1) :
    (m >>= f) s = f a s1 := by
  rw [bind_apply, h]

/-- from any state with remaining text `inp`, `m` returns `a`, leaves `tl`, emits `kvs` -/
def Sp {α} (m : M α) (inp : Text) (a : α) (tl : Text) (kvs : List KV) : Prop :=
  ∀ s : St, s.rest = inp → ∃ s', m s = .ok a s' ∧ s'.rest = tl ∧ out s' = out s ++ kvs

theorem Sp.bind {α β} {m : M α} {f : α → M β} {inp t1 t2 : Text} {a : α} {b : β}
    {k1 k2 k : List KV} (h1 : Sp m inp a t1 k1) (h2 : Sp (f a) t1 b t2 k2)
    (hk : k = k1 ++ k2 := by simp) : Sp (m >>= f) inp b t2 k := by
  intro s hs
  obtain ⟨s1, e1, r1, o1⟩ := h1 s hs
  obtain ⟨s2, e2, r2, o2⟩ := h2 s1 r1
  exact ⟨s2, by rw [bind_ok e1, e2], r2, by rw [o2, o1, hk, List.append_assoc]⟩

theorem Sp.pure {α} (a : α) (t : Text) : Sp (pure a : M α) t a t [] :=
  fun s hs => ⟨s, rfl, hs, by simp⟩

theorem Sp.cast {α} {m : M α} {inp inp' tl tl' : Text} {a : α} {k k' : List KV}
    (h : Sp m inp a tl k) (hi : inp' = inp := by simp) (ht : tl' = tl := by simp)
    (hk : k' = k := by simp) : Sp m inp' a tl' k' := by
  subst hi ht hk; exact h

/-- a loop started with the bound `remaining length + 1` -/
theorem Sp.lenFuel {α} {g : Nat → M α} {inp tl : Text} {a : α} {k : List KV} (N : Nat)
    (hN : N ≤ inp.length) (h : ∀ n, N < n → Sp (g n) inp a tl k) :
    Sp (fun s => g (s.rest.length + 1) s) inp a tl k := by
  intro s hs
  exact h (s.rest.length + 1) (by rw [hs]; omega) s hs

/-- run `m` from a derived state -/
theorem Sp.from {α} {m : M α} {inp tl : Text} {a : α} {k k0 kk : List KV}
    (h : Sp m inp a tl k) (s0 s : St) (hr : s.rest = inp) (ho : out s = out s0 ++ k0)
    (hk : kk = k0 ++ k := by simp) :
    ∃ s', m s = .ok a s' ∧ s'.rest = tl ∧ out s' = out s0 ++ kk := by
  obtain ⟨s', e, r, o⟩ := h s hr
  exact ⟨s', e, r, by rw [o, ho, hk, List.append_assoc]⟩

/-! ### state updates -/

@[simp] theorem adv_rest (s : St) (n : Nat) : (s.adv n).rest = s.rest.drop n := rfl
@[simp] theorem emit_rest (s : St) (k : TK) (v : Text) : (s.emit k v).rest = s.rest := rfl
@[simp] theorem out_adv (s : St) (n : Nat) : out (s.adv n) = out s := rfl
@[simp] theorem out_emit (s : St) (k : TK) (v : Text) : out (s.emit k v) = out s ++ [(k, v)] := by
  simp [out, kvOf, St.emit]
@[simp] theorem out_setStart (s : St) (n : Nat) : out { s with start := n } = out s := rfl
@[simp] theorem rest_setStart (s : St) (n : Nat) : ({ s with start := n } : St).rest = s.rest := rfl

theorem peek_cons {s : St} {c : Nat} {r : Text} (h : s.rest = c :: r) : s.peek = some c := by
  simp [St.peek, h]

/-! ### first characters -/

/-- the text is not empty and its first character satisfies `p` -/
def Hd (p : Nat → Bool) : Text → Prop
  | c :: _ => p c = true
  | [] => False

@[simp] theorem hd_cons (p : Nat → Bool) (c : Nat) (r : Text) : Hd p (c :: r) ↔ p c = true := Iff.rfl
@[simp] theorem hd_nil (p : Nat → Bool) : Hd p [] ↔ False := Iff.rfl

theorem Hd.mono {p q : Nat → Bool} {t : Text} (h : Hd p t) (hpq : ∀ c, p c = true → q c = true) :
    Hd q t := by
  cases t with
  | nil => exact h
  | cons c r => exact hpq c h

theorem Hd.dest {p : Nat → Bool} {t : Text} (h : Hd p t) : ∃ c r, t = c :: r ∧ p c = true := by
  cases t with
  | nil => exact False.elim h
  | cons c r => exact ⟨c, r, rfl, h⟩

/-- a character no trivia starts with -/
def tokc (c : Nat) : Bool := !(c == 32 || c == 9 || c == 10 || c == 13 || c == 47)

/-- what may follow a term: `~ | ) }` -/
def afterTerm (c : Nat) : Bool := c == 126 || c == 124 || c == 41 || c == 125
/-- what may follow a node: a postfix operator or what follows a term -/
def afterNode (c : Nat) : Bool := c == 63 || c == 42 || c == 43 || c == 123 || afterTerm c
/-- what ends an expression: `) }` -/
def closer (c : Nat) : Bool := c == 41 || c == 125
/-- first characters of a node -/
def nodeStart (c : Nat) : Bool := c == 34 || c == 94 || c == 39 || c == 40 || isIdentStart c
/-- first characters of a term: `#`, `&`, `!`, or a node -/
def termStart (c : Nat) : Bool := c == 35 || c == 38 || c == 33 || nodeStart c

theorem isIdentStart_cases {c : Nat} (h : isIdentStart c = true) :
    c = 95 ∨ (65 ≤ c ∧ c ≤ 90) ∨ (97 ≤ c ∧ c ≤ 122) := by
  simp [isIdentStart, isAlpha] at h; omega

theorem isDigit_cases {c : Nat} (h : isDigit c = true) : 48 ≤ c ∧ c ≤ 57 := by
  simp [isDigit] at h; omega

theorem tokc_of_ne {c : Nat} (h : c ≠ 32 ∧ c ≠ 9 ∧ c ≠ 10 ∧ c ≠ 13 ∧ c ≠ 47) : tokc c = true := by
  simp [tokc]; omega

theorem tokc_identStart {c : Nat} (h : isIdentStart c = true) : tokc c = true := by
  have := isIdentStart_cases h; apply tokc_of_ne; omega

theorem tokc_digit {c : Nat} (h : isDigit c = true) : tokc c = true := by
  have := isDigit_cases h; apply tokc_of_ne; omega

theorem nodeStart_cases {c : Nat} (h : nodeStart c = true) :
    c = 34 ∨ c = 94 ∨ c = 39 ∨ c = 40 ∨ isIdentStart c = true := by
  simpa [nodeStart, or_assoc] using h

theorem tokc_nodeStart {c : Nat} (h : nodeStart c = true) : tokc c = true := by
  rcases nodeStart_cases h with h | h | h | h | h
  · subst h; decide
  · subst h; decide
  · subst h; decide
  · subst h; decide
  · exact tokc_identStart h

theorem termStart_cases {c : Nat} (h : termStart c = true) :
    c = 35 ∨ c = 38 ∨ c = 33 ∨ nodeStart c = true := by
  simpa [termStart, or_assoc] using h

theorem tokc_termStart {c : Nat} (h : termStart c = true) : tokc c = true := by
  rcases termStart_cases h with h | h | h | h
  · subst h; decide
  · subst h; decide
  · subst h; decide
  · exact tokc_nodeStart h

theorem afterTerm_cases {c : Nat} (h : afterTerm c = true) : c = 126 ∨ c = 124 ∨ c = 41 ∨ c = 125 := by
  simpa [afterTerm, or_assoc] using h

theorem afterNode_cases {c : Nat} (h : afterNode c = true) :
    c = 63 ∨ c = 42 ∨ c = 43 ∨ c = 123 ∨ c = 126 ∨ c = 124 ∨ c = 41 ∨ c = 125 := by
  simpa [afterNode, afterTerm, or_assoc] using h

theorem closer_cases {c : Nat} (h : closer c = true) : c = 41 ∨ c = 125 := by
  simpa [closer] using h

theorem tokc_afterNode {c : Nat} (h : afterNode c = true) : tokc c = true := by
  have := afterNode_cases h; apply tokc_of_ne; omega

theorem afterNode_of_afterTerm {c : Nat} (h : afterTerm c = true) : afterNode c = true := by
  simp [afterNode, h]

theorem afterTerm_of_closer {c : Nat} (h : closer c = true) : afterTerm c = true := by
  have := closer_cases h; simp [afterTerm]; omega

theorem tokc_afterTerm {c : Nat} (h : afterTerm c = true) : tokc c = true :=
  tokc_afterNode (afterNode_of_afterTerm h)

/-! ### trivia on canonical text -/

/-- no trivia starts here -/
def Stop (t : Text) : Prop := mWhitespace t = none ∧ mLineComment t = none ∧ mBlockComment t = none

theorem stop_nil : Stop [] := ⟨rfl, rfl, rfl⟩

theorem wsLen_tokc {c : Nat} (r : Text) (h : tokc c = true) : wsLen (c :: r) = 0 := by
  simp [tokc] at h
  have h13 : c ≠ 13 := by omega
  have : (c == 32 || c == 9 || c == 10) = false := by simp; omega
  simp [wsLen, h13, this]

theorem stop_tokc {c : Nat} (r : Text) (h : tokc c = true) : Stop (c :: r) := by
  refine ⟨?_, ?_, ?_⟩
  · simp [mWhitespace, wsLen_tokc r h]
  · simp [tokc] at h
    have h47 : c ≠ 47 := by omega
    simp [mLineComment, h47]
  · simp [tokc] at h
    have h47 : c ≠ 47 := by omega
    simp [mBlockComment, h47]

theorem Hd.stop {p : Nat → Bool} {t : Text} (h : Hd p t) (hp : ∀ c, p c = true → tokc c = true) :
    Stop t := by
  obtain ⟨c, r, rfl, hc⟩ := h.dest
  exact stop_tokc r (hp c hc)

/-- a doc-comment marker is no trivia -/
theorem stop_doc (r : Text) : Stop (47 :: 47 :: 47 :: r) ∧ Stop (47 :: 47 :: 33 :: r) := by
  refine ⟨⟨?_, ?_, ?_⟩, ⟨?_, ?_, ?_⟩⟩ <;> simp [mWhitespace, wsLen, mLineComment, mBlockComment]

/-- blanks and line feeds -/
def Blank (ws : Text) : Prop := ∀ c ∈ ws, c = 32 ∨ c = 10

theorem blank_nil : Blank [] := fun _ h => by cases h
theorem blank_one : Blank [32] := fun c h => by simp at h; exact Or.inl h
theorem blank_lf : Blank [10] := fun c h => by simp at h; exact Or.inr h
theorem blank_end : Blank [32, 10] := fun c h => by simp at h; omega

theorem wsLen_blank : ∀ (ws : Text) (tl : Text), Blank ws → wsLen tl = 0 →
    wsLen (ws ++ tl) = ws.length := by
  intro ws
  induction ws with
  | nil => intro tl _ h; simpa using h
  | cons c r ih =>
    intro tl hb h
    have hc : c = 32 ∨ c = 10 := hb c (by simp)
    have ih' := ih tl (fun d hd => hb d (by simp [hd])) h
    have h13 : c ≠ 13 := by omega
    have : (c == 32 || c == 9 || c == 10) = true := by simp; omega
    simp [wsLen, h13, this, ih']

theorem triviaRound_stop {s : St} (h : Stop s.rest) : triviaRound s = (false, s) := by
  obtain ⟨h1, h2, h3⟩ := h
  simp [triviaRound, skip, h1, h2, h3]

theorem skipTriviaN_stop (n : Nat) {s : St} (h : Stop s.rest) : skipTriviaN n s = s := by
  cases n with
  | zero => rfl
  | succ n => simp [skipTriviaN, triviaRound_stop h]

theorem skipTrivia_stop {s : St} (h : Stop s.rest) : skipTrivia s = s := skipTriviaN_stop _ h

theorem triviaRound_ws {s : St} {n : Nat} (h1 : mWhitespace s.rest = some n)
    (h2 : mLineComment (s.rest.drop n) = none) (h3 : mBlockComment (s.rest.drop n) = none) :
    triviaRound s = (true, { (s.adv n) with start := (s.adv n).pos }) := by
  have e1 : skip mWhitespace s = (true, { (s.adv n) with start := (s.adv n).pos }) := by
    simp [skip, h1]
  have e2 : skip mLineComment { (s.adv n) with start := (s.adv n).pos } =
      (false, { (s.adv n) with start := (s.adv n).pos }) := by
    simp [skip, St.adv, h2]
  have e3 : skip mBlockComment { (s.adv n) with start := (s.adv n).pos } =
      (false, { (s.adv n) with start := (s.adv n).pos }) := by
    simp [skip, St.adv, h3]
  simp only [triviaRound, e1, e2, e3]
  rfl

/-- `skip_trivia` on blanks followed by something that is no trivia: the blanks go, no token is
    emitted -/
theorem skipTrivia_ws {s : St} {ws tl : Text} (hs : s.rest = ws ++ tl) (hb : Blank ws)
    (ht : Stop tl) : (skipTrivia s).rest = tl ∧ out (skipTrivia s) = out s := by
  cases ws with
  | nil =>
    have : Stop s.rest := by rw [hs]; exact ht
    rw [skipTrivia_stop this]; exact ⟨by simpa using hs, rfl⟩
  | cons c r =>
    obtain ⟨h1, h2, h3⟩ := ht
    have hw0 : wsLen tl = 0 := by
      unfold mWhitespace at h1
      by_cases h0 : wsLen tl = 0
      · exact h0
      · simp [h0] at h1
    have hw : wsLen (c :: (r ++ tl)) = r.length + 1 := by
      have := wsLen_blank (c :: r) tl hb hw0
      simpa using this
    have hmw : mWhitespace s.rest = some (r.length + 1) := by
      simp [mWhitespace, hs, hw]
    have hdrop : s.rest.drop (r.length + 1) = tl := by
      simp [hs]
    have hround := triviaRound_ws hmw (by rw [hdrop]; exact h2) (by rw [hdrop]; exact h3)
    unfold skipTrivia
    rw [skipTriviaN, hround]
    simp only [↓reduceIte]
    have hst : Stop ({ (s.adv (r.length + 1)) with start := (s.adv (r.length + 1)).pos } : St).rest := by
      simp only [adv_rest, hdrop]; exact ⟨h1, h2, h3⟩
    rw [skipTriviaN_stop _ hst]
    exact ⟨by simp only [adv_rest, hdrop], rfl⟩

/-- `t` is `tl`, possibly after one blank -/
def Bl (t tl : Text) : Prop := t = tl ∨ t = 32 :: tl

theorem Bl.refl (tl : Text) : Bl tl tl := Or.inl rfl
theorem Bl.one (tl : Text) : Bl (32 :: tl) tl := Or.inr rfl

theorem Bl.split {t tl : Text} (h : Bl t tl) : ∃ ws, Blank ws ∧ t = ws ++ tl := by
  rcases h with h | h
  · exact ⟨[], blank_nil, by simpa using h⟩
  · exact ⟨[32], blank_one, by simpa using h⟩

theorem Bl.length_le {t tl : Text} (h : Bl t tl) : tl.length ≤ t.length := by
  rcases h with h | h <;> subst h <;> simp

theorem skipTrivia_bl {s : St} {tl : Text} (hs : Bl s.rest tl) (ht : Stop tl) :
    (skipTrivia s).rest = tl ∧ out (skipTrivia s) = out s := by
  obtain ⟨ws, hb, e⟩ := hs.split
  exact skipTrivia_ws e hb ht

theorem sp_triv_ws {ws tl : Text} (hb : Blank ws) (ht : Stop tl) : Sp triv (ws ++ tl) () tl [] := by
  intro s hs
  obtain ⟨h1, h2⟩ := skipTrivia_ws hs hb ht
  exact ⟨skipTrivia s, rfl, h1, by simp [h2]⟩

theorem sp_triv_bl {t tl : Text} (hb : Bl t tl) (ht : Stop tl) : Sp triv t () tl [] := by
  obtain ⟨ws, hw, rfl⟩ := hb.split
  exact sp_triv_ws hw ht

/-- the blank behind a token -/
theorem sp_triv {tl : Text} (ht : Stop tl) : Sp triv (32 :: tl) () tl [] :=
  sp_triv_bl (Bl.one tl) ht

/-- at a token: nothing to skip -/
theorem sp_triv_id {tl : Text} (ht : Stop tl) : Sp triv tl () tl [] :=
  sp_triv_bl (Bl.refl tl) ht

/-! ### the generic scanner steps -/

theorem sp_scanEmit {m : Text → Option Nat} {w tl : Text} (kind : TK)
    (h : m (w ++ tl) = some w.length) : Sp (scanEmit m kind) (w ++ tl) true tl [(kind, w)] := by
  intro s hs
  refine ⟨(s.adv w.length).emit kind w, ?_, ?_, ?_⟩
  · simp [scanEmit, hs, h]
  · simp [hs]
  · simp

theorem sp_scanEmit_none {m : Text → Option Nat} {t : Text} (kind : TK) (h : m t = none) :
    Sp (scanEmit m kind) t false t [] := by
  intro s hs
  exact ⟨s, by simp [scanEmit, hs, h], hs, by simp⟩

theorem sp_expect (c : Nat) (kind : TK) (k : EK) (tl : Text) :
    Sp (expect c kind k) (c :: tl) () tl [(kind, [c])] := by
  intro s hs
  exact ⟨(s.adv 1).emit kind [c], by simp [expect, peek_cons hs], by simp [hs], by simp⟩

theorem sp_optChar (c : Nat) (kind : TK) (tl : Text) :
    Sp (optChar c kind) (c :: tl) true tl [(kind, [c])] := by
  intro s hs
  exact ⟨(s.adv 1).emit kind [c], by simp [optChar, peek_cons hs], by simp [hs], by simp⟩

theorem sp_optChar_no (c : Nat) (kind : TK) {t : Text} (h : t.head? ≠ some c) :
    Sp (optChar c kind) t false t [] := by
  intro s hs
  exact ⟨s, by simp [optChar, St.peek, hs, h], hs, by simp⟩

theorem head_ne_of_hd {p : Nat → Bool} {t : Text} {c : Nat} (h : Hd p t) (hc : p c = false) :
    t.head? ≠ some c := by
  obtain ⟨d, r, rfl, hd⟩ := h.dest
  intro e
  simp at e
  subst e
  rw [hc] at hd
  cases hd

theorem sp_scanOrError {m : Text → Option Nat} {w tl : Text} (kind : TK) (k : EK)
    (h : m (w ++ tl) = some w.length) : Sp (scanOrError m kind k) (w ++ tl) () tl [(kind, w)] := by
  unfold scanOrError
  exact Sp.bind (sp_scanEmit kind h) (Sp.pure () tl)

/-! ### spans and fixed strings -/

theorem spanLen_append (p : Nat → Bool) : ∀ (w : Text) (x : Nat) (tl : Text),
    w.all p = true → p x = false → spanLen p (w ++ x :: tl) = w.length := by
  intro w
  induction w with
  | nil => intro x tl _ hx; simp [spanLen, hx]
  | cons c r ih =>
    intro x tl hw hx
    simp only [List.all_cons, Bool.and_eq_true] at hw
    simp [spanLen, hw.1, ih x tl hw.2 hx]

theorem spanLen_all (p : Nat → Bool) : ∀ (w : Text), spanLen p w = w.length → w.all p = true := by
  intro w
  induction w with
  | nil => intro _; rfl
  | cons c r ih =>
    intro h
    by_cases hc : p c = true
    · simp [spanLen, hc] at h
      simp [hc, ih h]
    · simp [spanLen, hc] at h

theorem spanLen_of_all (p : Nat → Bool) : ∀ (w : Text), w.all p = true → spanLen p w = w.length := by
  intro w
  induction w with
  | nil => intro _; rfl
  | cons c r ih =>
    intro h
    simp only [List.all_cons, Bool.and_eq_true] at h
    simp [spanLen, h.1, ih h.2]

theorem startsWith_self_append : ∀ (lit tl : Text), startsWith (lit ++ tl) lit = true := by
  intro lit
  induction lit with
  | nil => intro tl; cases tl <;> rfl
  | cons c r ih => intro tl; simp [startsWith, ih tl]

/-- a word that is followed by a character outside `lit` starts with `lit` iff the word does -/
theorem startsWith_append_ne : ∀ (w lit : Text) (x : Nat) (tl : Text), (∀ c ∈ lit, c ≠ x) →
    startsWith (w ++ x :: tl) lit = startsWith w lit := by
  intro w
  induction w with
  | nil =>
    intro lit x tl h
    cases lit with
    | nil => rfl
    | cons d l =>
      have : (x == d) = false := by
        have := h d (by simp)
        simp; omega
      simp [startsWith, this]
  | cons c r ih =>
    intro lit x tl h
    cases lit with
    | nil => rfl
    | cons d l =>
      simp only [List.cons_append, startsWith]
      rw [ih l x tl (fun e he => h e (by simp [he]))]

theorem startsWith_prefix : ∀ (t a b : Text), startsWith t (a ++ b) = true → startsWith t a = true := by
  intro t a
  induction a generalizing t with
  | nil => intro b _; cases t <;> rfl
  | cons c r ih =>
    intro b h
    cases t with
    | nil => simp [startsWith] at h
    | cons d t' =>
      simp only [List.cons_append, startsWith, Bool.and_eq_true] at h ⊢
      exact ⟨h.1, ih t' b h.2⟩

theorem mLit_self (lit tl : Text) : mLit lit (lit ++ tl) = some lit.length := by
  simp [mLit, startsWith_self_append]

theorem mLit_ne {d : Nat} {l : Text} {c : Nat} (r : Text) (h : c ≠ d) :
    mLit (d :: l) (c :: r) = none := by
  have : (c == d) = false := by simp; omega
  simp [mLit, startsWith, this]

/-! ### identifiers and tags -/

theorem isIdent_iff (name : Text) :
    IsIdent name ↔ ∃ c r, name = c :: r ∧ isIdentStart c = true ∧ r.all isIdentChar = true ∧
      startsWith name sPUSH = false := by
  unfold IsIdent mIdentifier
  constructor
  · intro h
    by_cases hp : startsWith name sPUSH = true
    · simp [hp] at h
    · simp only [hp] at h
      cases name with
      | nil => simp at h
      | cons c r =>
        by_cases hc : isIdentStart c = true
        · simp [hc] at h
          exact ⟨c, r, rfl, hc, spanLen_all _ r h, by simpa using hp⟩
        · simp [hc] at h
  · rintro ⟨c, r, rfl, hc, hr, hp⟩
    simp [hp, hc, spanLen_of_all _ r hr]

theorem isIdent_dest {name : Text} (h : IsIdent name) :
    ∃ c r, name = c :: r ∧ isIdentStart c = true ∧ r.all isIdentChar = true ∧
      startsWith name sPUSH = false := (isIdent_iff name).1 h

theorem mIdentifier_ident {name : Text} (h : IsIdent name) (tl : Text) :
    mIdentifier (name ++ 32 :: tl) = some name.length := by
  obtain ⟨c, r, rfl, hc, hr, hp⟩ := isIdent_dest h
  have h1 : startsWith ((c :: r) ++ 32 :: tl) sPUSH = false := by
    rw [startsWith_append_ne (c :: r) sPUSH 32 tl (by decide)]; exact hp
  have h2 := spanLen_append isIdentChar r 32 tl hr (by decide)
  unfold mIdentifier
  rw [h1]
  simp [hc, h2]

theorem mIdentifier_none {c : Nat} (r : Text) (h : isIdentStart c = false) :
    mIdentifier (c :: r) = none := by
  unfold mIdentifier
  split <;> simp [h]

theorem mLit_push_ident {name : Text} (h : IsIdent name) (tl : Text) :
    mLit sPUSH (name ++ 32 :: tl) = none := by
  obtain ⟨c, r, rfl, _, _, hp⟩ := isIdent_dest h
  have h1 : startsWith (c :: (r ++ 32 :: tl)) sPUSH = false := by
    have := startsWith_append_ne (c :: r) sPUSH 32 tl (by decide)
    simp only [List.cons_append] at this
    rw [this]; exact hp
  simp [mLit, h1]

theorem mLit_pushLit_of_push {t : Text} (h : mLit sPUSH t = none) : mLit sPUSH_LITERAL t = none := by
  unfold mLit at h ⊢
  by_cases h1 : startsWith t sPUSH_LITERAL = true
  · have : startsWith t sPUSH = true :=
      startsWith_prefix t sPUSH [95, 76, 73, 84, 69, 82, 65, 76] h1
    simp [this] at h
  · simp [h1]

theorem keywordKind_ne (v : Text) : keywordKind v ≠ .string ∧ keywordKind v ≠ .stringCI := by
  unfold keywordKind
  repeat' split
  all_goals exact ⟨nofun, nofun⟩

theorem spell_keyword (n v : Text) : spell (keywordKind n, v) = v := by
  have := keywordKind_ne n
  generalize keywordKind n = k at this
  cases k <;> first | rfl | exact absurd rfl this.1 | exact absurd rfl this.2

theorem keywordKind_peek {v : Text} : keywordKind v = .peek ↔ v = sPEEK := by
  unfold keywordKind
  constructor
  · intro h
    by_cases h1 : v = sPEEK
    · exact h1
    · simp only [h1, ↓reduceIte] at h
      repeat' split at h
      all_goals cases h
  · intro h; simp [h]

theorem isIdent_PEEK : IsIdent sPEEK := by unfold IsIdent; decide

theorem isTagName_dest {t : Text} (h : IsTagName t) :
    ∃ c r, t = c :: r ∧ isIdentStart c = true ∧ r.all isIdentChar = true := by
  cases t with
  | nil => exact False.elim h
  | cons c r => exact ⟨c, r, rfl, h.1, h.2⟩

theorem mTag_tag {t : Text} (h : IsTagName t) (tl : Text) :
    mTag ((35 :: t) ++ 32 :: tl) = some (35 :: t).length := by
  obtain ⟨c, r, rfl, hc, hr⟩ := isTagName_dest h
  have h2 := spanLen_append isIdentChar r 32 tl hr (by decide)
  simp [mTag, hc, h2]

theorem mTag_none {c : Nat} (r : Text) (h : c ≠ 35) : mTag (c :: r) = none := by
  simp [mTag, h]

/-! ### decimal numbers -/

theorem natDigitsAux_digits : ∀ (fuel n : Nat) (acc : List Nat), acc.all isDigit = true →
    (natDigitsAux fuel n acc).all isDigit = true := by
  intro fuel
  induction fuel with
  | zero => intro n acc h; exact h
  | succ f ih =>
    intro n acc h
    unfold natDigitsAux
    split
    · rename_i hn
      have : isDigit (48 + n) = true := by simp [isDigit]; omega
      simp only [List.all_cons, this, h, Bool.and_self]
    · apply ih
      have : isDigit (48 + n % 10) = true := by simp [isDigit]; omega
      simp only [List.all_cons, this, h, Bool.and_self]

theorem natDigitsAux_ne_nil : ∀ (fuel n : Nat) (acc : List Nat), acc ≠ [] →
    natDigitsAux fuel n acc ≠ [] := by
  intro fuel
  induction fuel with
  | zero => intro n acc h; exact h
  | succ f ih =>
    intro n acc h
    unfold natDigitsAux
    split
    · simp
    · exact ih _ _ (by simp)

theorem natDigits_digits (n : Nat) : (natDigits n).all isDigit = true :=
  natDigitsAux_digits _ _ _ rfl

theorem natDigits_ne_nil (n : Nat) : natDigits n ≠ [] := by
  unfold natDigits natDigitsAux
  split
  · simp
  · exact natDigitsAux_ne_nil _ _ _ (by simp)

/-- the first digit of a positive number is not `0` -/
theorem natDigitsAux_head : ∀ (fuel n : Nat) (acc : List Nat), 0 < n → n < fuel →
    ∃ d ds, natDigitsAux fuel n acc = d :: ds ∧ 49 ≤ d ∧ d ≤ 57 := by
  intro fuel
  induction fuel with
  | zero => intro n acc _ h; omega
  | succ f ih =>
    intro n acc h0 hf
    unfold natDigitsAux
    split
    · exact ⟨48 + n, acc, rfl, by omega, by omega⟩
    · exact ih _ _ (by omega) (by omega)

theorem natDigits_pos {n : Nat} (h : 0 < n) :
    ∃ d ds, natDigits n = d :: ds ∧ 49 ≤ d ∧ d ≤ 57 ∧ ds.all isDigit = true := by
  obtain ⟨d, ds, e, h1, h2⟩ := natDigitsAux_head (n + 1) n [] h (by omega)
  have := natDigits_digits n
  unfold natDigits at this ⊢
  rw [e] at this
  simp only [List.all_cons, Bool.and_eq_true] at this
  exact ⟨d, ds, e, h1, h2, this.2⟩

theorem natDigits_cons (n : Nat) :
    ∃ d ds, natDigits n = d :: ds ∧ isDigit d = true ∧ ds.all isDigit = true := by
  have h1 := natDigits_ne_nil n
  have h2 := natDigits_digits n
  cases h : natDigits n with
  | nil => exact absurd h h1
  | cons d ds =>
    rw [h] at h2
    simp only [List.all_cons, Bool.and_eq_true] at h2
    exact ⟨d, ds, rfl, h2.1, h2.2⟩

theorem mNumber_digits {w : Text} (hw : w.all isDigit = true) (hne : w ≠ []) (tl : Text) :
    mNumber (w ++ 32 :: tl) = some w.length := by
  have h := spanLen_append isDigit w 32 tl hw (by decide)
  have : w.length ≠ 0 := by
    cases w with
    | nil => exact absurd rfl hne
    | cons _ _ => simp
  simp [mNumber, h, this]

theorem mNumber_none {c : Nat} (r : Text) (h : isDigit c = false) : mNumber (c :: r) = none := by
  simp [mNumber, spanLen, h]

theorem mNumber_natDigits (n : Nat) (tl : Text) :
    mNumber (natDigits n ++ 32 :: tl) = some (natDigits n).length :=
  mNumber_digits (natDigits_digits n) (natDigits_ne_nil n) tl

theorem mInteger_int (i : Int) (tl : Text) :
    mInteger (intDigits i ++ 32 :: tl) = some (intDigits i).length := by
  unfold intDigits
  by_cases hi : i < 0
  · simp only [hi, ↓reduceIte]
    have hpos : 0 < i.natAbs := by omega
    obtain ⟨d, ds, e, h1, h2, h3⟩ := natDigits_pos hpos
    rw [e]
    have hn : mNumber (45 :: d :: (ds ++ 32 :: tl)) = none := mNumber_none _ (by decide)
    have hz : spanLen (· == 48) (d :: (ds ++ 32 :: tl)) = 0 := by
      have : (d == 48) = false := by simp; omega
      simp [spanLen, this]
    have hd : (decide (49 ≤ d) && decide (d ≤ 57)) = true := by simp; omega
    have hs := spanLen_append isDigit ds 32 tl h3 (by decide)
    simp only [mInteger, hn, List.cons_append, hz, List.drop_zero, hd, ↓reduceIte, hs,
      List.length_cons]
    congr 1; omega
  · simp only [hi, ↓reduceIte]
    simp only [mInteger, mNumber_natDigits]

theorem mInteger_none {c : Nat} (r : Text) (h : isDigit c = false) (h' : c ≠ 45) :
    mInteger (c :: r) = none := by
  simp [mInteger, mNumber_none r h, h']

theorem intDigits_hd (i : Int) (tl : Text) :
    Hd (fun c => isDigit c || c == 45) (intDigits i ++ tl) := by
  unfold intDigits
  split
  · simp
  · obtain ⟨d, ds, e, h1, _⟩ := natDigits_cons i.toNat
    rw [e]; simp [h1]

/-! ### character literals -/

theorem mChar_charLit (c : Nat) (tl : Text) : mChar (charLit c ++ tl) = some (charLit c).length := by
  unfold charLit
  by_cases h : c = 92
  · subst h
    simp [mChar, mEscape, Unescape.escapeLen]
  · simp [mChar, h]

theorem mChar_none {c : Nat} (r : Text) (h : c ≠ 39) : mChar (c :: r) = none := by
  simp [mChar, h]

theorem charLit_cons (c : Nat) : ∃ r, charLit c = 39 :: r := by
  unfold charLit; split <;> exact ⟨_, rfl⟩

/-! ### strings -/

open Unescape in
theorem specUnescape_escapeBody : ∀ s : Text, specUnescape (escapeBody s) = some s := by
  intro s
  induction s with
  | nil => exact specUnescape_nil
  | cons c r ih =>
    unfold escapeBody
    by_cases h : c = 34 ∨ c = 92
    · simp only [h, ↓reduceIte]
      have hs : simpleEscape c = some c := by
        rcases h with h | h <;> subst h <;> rfl
      rw [specUnescape_esc_some (specEscape_simple (escapeBody r) hs)]
      simp [ih]
    · simp only [h, ↓reduceIte]
      rw [specUnescape_cons_char _ (by omega), ih]; rfl

/-- decoding the canonical body of a literal gives the string back -/
theorem unescape_escapeBody (s : Text) : Unescape.unescape (escapeBody s) = .ok s :=
  Unescape.unescape_of_spec (specUnescape_escapeBody s)

/-- some character of the string is spelled as an escape -/
def needsEsc (s : Text) : Bool := s.any fun c => c == 34 || c == 92

theorem escapeBody_plain : ∀ s : Text, needsEsc s = false → escapeBody s = s := by
  intro s
  induction s with
  | nil => intro _; rfl
  | cons c r ih =>
    intro h
    simp only [needsEsc, List.any_cons, Bool.or_eq_false_iff] at h
    have hc : ¬ (c = 34 ∨ c = 92) := by
      have := h.1; simp at this; omega
    simp only [escapeBody, hc, ↓reduceIte]
    rw [ih h.2]

theorem stringLoop_plain (kind : TK) (n : Nat) (body : Text) (esc : Bool) (s : St) (c : Nat)
    (r : Text) (hs : s.rest = c :: r) (h1 : c ≠ 92) (h2 : c ≠ 34) :
    stringLoop kind (n + 1) body esc s = stringLoop kind n (c :: body) esc (s.adv 1) := by
  simp only [stringLoop]
  split
  · rename_i heq; rw [hs] at heq; cases heq
  · rename_i heq; rw [hs] at heq; cases heq; omega
  · rename_i heq; rw [hs] at heq; cases heq; omega
  · rename_i heq; rw [hs] at heq; cases heq; rfl

theorem stringLoop_esc (kind : TK) (n : Nat) (body : Text) (esc : Bool) (s : St) (r : Text)
    (k : Nat) (hs : s.rest = 92 :: r) (hk : mEscape r = some k) :
    stringLoop kind (n + 1) body esc s =
      stringLoop kind n ((r.take k).reverse ++ 92 :: body) true ((s.adv 1).adv k) := by
  simp only [stringLoop, hs, hk]

theorem stringLoop_close_raw (kind : TK) (n : Nat) (body : Text) (s : St) (r : Text)
    (hs : s.rest = 34 :: r) :
    stringLoop kind (n + 1) body false s = .ok true ((s.adv 1).emit kind body.reverse) := by
  simp [stringLoop, hs]

theorem stringLoop_close_esc (kind : TK) (n : Nat) (body : Text) (s : St) (r v : Text)
    (hs : s.rest = 34 :: r) (hv : Unescape.unescape body.reverse = .ok v) :
    stringLoop kind (n + 1) body true s = .ok true ((s.adv 1).emit kind v) := by
  simp [stringLoop, hs, hv]

/-- the loop of `accept_string` over the canonical body of `str`, from any accumulator -/
theorem sp_stringLoop (kind : TK) : ∀ (str : Text) (n : Nat) (body : Text) (esc : Bool)
    (v tl : Text), (escapeBody str).length < n →
    (if (esc || needsEsc str) = true
      then Unescape.unescape (body.reverse ++ escapeBody str) = .ok v
      else body.reverse ++ escapeBody str = v) →
    Sp (stringLoop kind n body esc) (escapeBody str ++ 34 :: tl) true tl [(kind, v)] := by
  intro str
  induction str with
  | nil =>
    intro n body esc v tl hn hv s hs
    cases n with
    | zero => omega
    | succ n =>
      simp only [escapeBody, List.nil_append] at hs
      simp only [escapeBody, needsEsc, List.any_nil, Bool.or_false, List.append_nil] at hv
      cases esc with
      | true =>
        simp only [↓reduceIte] at hv
        rw [stringLoop_close_esc kind n body s tl v hs hv]
        exact ⟨_, rfl, by simp [hs], by simp⟩
      | false =>
        simp only [Bool.false_eq_true, ↓reduceIte] at hv
        rw [stringLoop_close_raw kind n body s tl hs, hv]
        exact ⟨_, rfl, by simp [hs], by simp⟩
  | cons c r ih =>
    intro n body esc v tl hn hv s hs
    cases n with
    | zero => omega
    | succ n =>
      by_cases hc : c = 34 ∨ c = 92
      · have he : escapeBody (c :: r) = 92 :: c :: escapeBody r := by simp [escapeBody, hc]
        have hne : needsEsc (c :: r) = true := by
          rcases hc with h | h <;> subst h <;> simp [needsEsc]
        rw [he] at hs hn hv
        have hk : mEscape (c :: (escapeBody r ++ 34 :: tl)) = some 1 := by
          rcases hc with h | h <;> subst h <;> simp [mEscape, Unescape.escapeLen]
        rw [stringLoop_esc kind n body esc s _ 1 (by simpa using hs) hk]
        simp only [hne, Bool.or_true, ↓reduceIte] at hv
        have hv' : (if (true || needsEsc r) = true
            then Unescape.unescape ((c :: 92 :: body).reverse ++ escapeBody r) = .ok v
            else (c :: 92 :: body).reverse ++ escapeBody r = v) := by
          simp only [Bool.true_or, ↓reduceIte]
          simpa using hv
        have hn' : (escapeBody r).length < n := by simp at hn; omega
        obtain ⟨s', e, r', o⟩ := ih n (c :: 92 :: body) true v tl hn' hv' ((s.adv 1).adv 1)
          (by simp [hs])
        exact ⟨s', by simpa using e, r', by simpa using o⟩
      · have he : escapeBody (c :: r) = c :: escapeBody r := by simp [escapeBody, hc]
        have hne : needsEsc (c :: r) = needsEsc r := by
          have : (c == 34 || c == 92) = false := by simp; omega
          simp [needsEsc, this]
        rw [he] at hs hn hv
        rw [stringLoop_plain kind n body esc s c _ (by simpa using hs) (by omega) (by omega)]
        have hv' : (if (esc || needsEsc r) = true
            then Unescape.unescape ((c :: body).reverse ++ escapeBody r) = .ok v
            else (c :: body).reverse ++ escapeBody r = v) := by
          rw [hne] at hv
          simpa using hv
        have hn' : (escapeBody r).length < n := by simp at hn; omega
        obtain ⟨s', e, r', o⟩ := ih n (c :: body) esc v tl hn' hv' (s.adv 1) (by simp [hs])
        exact ⟨s', e, r', by simpa using o⟩

theorem sp_stringLoop_start (kind : TK) (str tl : Text) (n : Nat) (hn : (escapeBody str).length < n) :
    Sp (stringLoop kind n [] false) (escapeBody str ++ 34 :: tl) true tl [(kind, str)] := by
  apply sp_stringLoop kind str n [] false str tl hn
  by_cases h : needsEsc str = true
  · simp [h, unescape_escapeBody]
  · simp only [Bool.not_eq_true] at h
    simp [h, escapeBody_plain str h]

theorem sp_acceptString (str tl : Text) :
    Sp acceptString (34 :: (escapeBody str ++ 34 :: tl)) true tl [(.string, str)] := by
  intro s hs
  unfold acceptString
  simp only [peek_cons hs, ↓reduceIte]
  have := sp_stringLoop_start .string str tl ((s.adv 1).rest.length + 1) (by simp [hs]; omega)
  exact this.from s _ (by simp [hs]) (k0 := []) (by simp only [List.append_nil]; rfl)

theorem sp_acceptString_no {t : Text} (h : t.head? ≠ some 34) : Sp acceptString t false t [] := by
  intro s hs
  exact ⟨s, by simp [acceptString, St.peek, hs, h], hs, by simp⟩

theorem sp_acceptCIString (str tl : Text) :
    Sp acceptCIString (94 :: 34 :: (escapeBody str ++ 34 :: tl)) true tl [(.stringCI, str)] := by
  intro s hs
  unfold acceptCIString
  simp only [peek_cons hs, ↓reduceIte]
  have hst : Stop ({ (s.adv 1) with start := (s.adv 1).pos } : St).rest := by
    simp only [adv_rest, hs, List.drop_succ_cons, List.drop_zero]
    exact stop_tokc _ (by decide)
  rw [skipTrivia_stop hst]
  have hp : ({ (s.adv 1) with start := (s.adv 1).pos } : St).peek = some 34 :=
    peek_cons (r := escapeBody str ++ 34 :: tl) (by simp [hs])
  simp only [hp, ↓reduceIte]
  have := sp_stringLoop_start .stringCI str tl
    ((({ (s.adv 1) with start := (s.adv 1).pos } : St).adv 1).rest.length + 1) (by simp [hs]; omega)
  exact this.from s _ (by simp [hs]) (k0 := []) (by simp only [List.append_nil]; rfl)

theorem sp_acceptCIString_no {t : Text} (h : t.head? ≠ some 94) : Sp acceptCIString t false t [] := by
  intro s hs
  exact ⟨s, by simp [acceptCIString, St.peek, hs, h], hs, by simp⟩

/-! ### sequencing steps in tactic proofs

`sp_begin` makes the emitted tokens a metavariable, `sp_step h` peels one `>>=` off with the
triple `h`, the final equation between the token lists is closed at the end. -/

theorem Sp.bind' {α β} {m : M α} {f : α → M β} {inp t1 t2 : Text} {a : α} {b : β}
    {k1 k2 : List KV} (h1 : Sp m inp a t1 k1) (h2 : Sp (f a) t1 b t2 k2) :
    Sp (m >>= f) inp b t2 (k1 ++ k2) := Sp.bind h1 h2 rfl

theorem Sp.start {α} {m : M α} {inp inp' tl : Text} {a : α} {k k' : List KV}
    (h : Sp m inp a tl k) (hi : inp' = inp) (hk : k' = k) : Sp m inp' a tl k' := by
  subst hi hk; exact h

macro "sp_begin" : tactic => `(tactic| apply Sp.start)
macro "sp_step " h:term : tactic =>
  `(tactic| (apply Sp.bind' $h; try simp only [↓reduceIte, Bool.false_eq_true]))

/-! ### the canonical text of a token list -/

@[simp] theorem spellAll_nil : spellAll [] = [] := rfl

theorem spellAll_cons (kv : KV) (r : List KV) : spellAll (kv :: r) = spell kv ++ 32 :: spellAll r := by
  simp [spellAll]

theorem spellAll_append (a b : List KV) : spellAll (a ++ b) = spellAll a ++ spellAll b := by
  simp [spellAll]

theorem length_le_spellAll : ∀ kvs : List KV, kvs.length ≤ (spellAll kvs).length := by
  intro kvs
  induction kvs with
  | nil => simp
  | cons kv r ih => rw [spellAll_cons]; simp; omega

/-! ### tags -/

theorem sp_acceptTag_some {t : Text} (h : IsTagName t) {tl : Text} (ht : Stop tl) :
    Sp acceptTag (spellAll (tagKV (some t)) ++ tl) () tl (tagKV (some t)) := by
  unfold acceptTag
  sp_begin
  sp_step (sp_scanEmit .tag (mTag_tag h (61 :: 32 :: tl)))
  sp_step (sp_triv (stop_tokc _ (by decide)))
  sp_step (sp_expect 61 .assignOp .expectedAssign _)
  exact sp_triv ht
  case hi => simp [tagKV, spellAll_cons, spell]
  case hk => simp [tagKV]

theorem sp_acceptTag_none {t : Text} (h : Hd (fun c => c != 35) t) : Sp acceptTag t () t [] := by
  obtain ⟨c, r, rfl, hc⟩ := h.dest
  unfold acceptTag
  sp_begin
  sp_step (sp_scanEmit_none .tag (mTag_none r (by simpa using hc)))
  exact Sp.pure () _
  case hi => rfl
  case hk => simp

/-! ### prefix operators -/

theorem hd_pre (pre : List Bool) {tl : Text} (h : Hd nodeStart tl) :
    Hd termStart (spellAll (pre.map preKV) ++ tl) := by
  cases pre with
  | nil => exact h.mono (fun c hc => by simp [termStart, hc])
  | cons b r => cases b <;> simp [spellAll_cons, preKV, spell, termStart]

theorem sp_prefixLoop : ∀ (pre : List Bool) (n : Nat) (tl : Text), pre.length < n →
    Hd nodeStart tl → Sp (prefixLoop n) (spellAll (pre.map preKV) ++ tl) () tl (pre.map preKV) := by
  intro pre
  induction pre with
  | nil =>
    intro n tl hn htl s hs
    cases n with
    | zero => omega
    | succ n =>
      obtain ⟨c, r, rfl, hc⟩ := htl.dest
      simp only [List.map_nil, spellAll_nil, List.nil_append] at hs
      have h38 : c ≠ 38 := by
        rcases nodeStart_cases hc with h | h | h | h | h <;> try omega
        have := isIdentStart_cases h; omega
      have h33 : c ≠ 33 := by
        rcases nodeStart_cases hc with h | h | h | h | h <;> try omega
        have := isIdentStart_cases h; omega
      refine ⟨s, ?_, hs, by simp⟩
      simp [prefixLoop, peek_cons hs, h38, h33]
  | cons b pre ih =>
    intro n tl hn htl s hs
    cases n with
    | zero => omega
    | succ n =>
      have hst : Stop (spellAll (pre.map preKV) ++ tl) := (hd_pre pre htl).stop @tokc_termStart
      have hn' : pre.length < n := by simp at hn; omega
      cases b with
      | true =>
        have hs' : s.rest = 38 :: 32 :: (spellAll (pre.map preKV) ++ tl) := by
          simpa [spellAll_cons, preKV, spell] using hs
        obtain ⟨h1, h2⟩ := skipTrivia_ws (s := (s.adv 1).emit .posPred [38]) (ws := [32])
          (by simp [hs']) blank_one hst
        have := (ih n tl hn' htl).from s _ h1 (k0 := [(.posPred, [38])]) (by simp [h2])
          (kk := (true :: pre).map preKV) (by simp [preKV])
        simpa [prefixLoop, peek_cons hs'] using this
      | false =>
        have hs' : s.rest = 33 :: 32 :: (spellAll (pre.map preKV) ++ tl) := by
          simpa [spellAll_cons, preKV, spell] using hs
        obtain ⟨h1, h2⟩ := skipTrivia_ws (s := (s.adv 1).emit .negPred [33]) (ws := [32])
          (by simp [hs']) blank_one hst
        have := (ih n tl hn' htl).from s _ h1 (k0 := [(.negPred, [33])]) (by simp [h2])
          (kk := (false :: pre).map preKV) (by simp [preKV])
        simpa [prefixLoop, peek_cons hs'] using this

/-! ### `{m,n}` -/

/-- what stands between the braces: a comma or a number -/
def itemKV : Option Nat → KV
  | none => (.comma, [44])
  | some n => (.number, natDigits n)

theorem hd_items (items : List (Option Nat)) {tl : Text} (h : Hd (· == 125) tl) :
    Hd (fun c => c == 125 || c == 44 || isDigit c) (spellAll (items.map itemKV) ++ tl) := by
  cases items with
  | nil => exact h.mono (fun c hc => by simp at hc; simp [hc])
  | cons i r =>
    cases i with
    | none => simp [spellAll_cons, itemKV, spell]
    | some n =>
      obtain ⟨d, ds, e, hd, _⟩ := natDigits_cons n
      simp [spellAll_cons, itemKV, spell, e, hd]

theorem tokc_item {c : Nat} (h : (c == 125 || c == 44 || isDigit c) = true) : tokc c = true := by
  simp only [Bool.or_eq_true, beq_iff_eq] at h
  rcases h with (h | h) | h
  · subst h; decide
  · subst h; decide
  · exact tokc_digit h

theorem sp_boundsLoop : ∀ (items : List (Option Nat)) (n : Nat) (t tl : Text), items.length < n →
    Hd (· == 125) tl → Bl t (spellAll (items.map itemKV) ++ tl) →
    Sp (boundsLoop n) t () tl (items.map itemKV) := by
  intro items
  induction items with
  | nil =>
    intro n t tl hn htl hbl s0 hs0
    cases n with
    | zero => omega
    | succ n =>
      obtain ⟨c, r, rfl, hc⟩ := htl.dest
      have hc' : c = 125 := by simpa using hc
      subst hc'
      obtain ⟨hr, ho⟩ := skipTrivia_bl (s := s0) (by rw [hs0]; simpa using hbl)
        (stop_tokc r (by decide))
      refine ⟨skipTrivia s0, ?_, hr, by simp [ho]⟩
      simp only [boundsLoop]
      generalize skipTrivia s0 = s at hr ho
      simp [peek_cons hr, hr, mNumber_none r (c := 125) (by decide)]
  | cons i items ih =>
    intro n t tl hn htl hbl s0 hs0
    cases n with
    | zero => omega
    | succ n =>
      have hn' : items.length < n := by simp at hn; omega
      have hst : Stop (spellAll ((i :: items).map itemKV) ++ tl) :=
        (hd_items (i :: items) htl).stop @tokc_item
      obtain ⟨hr, ho⟩ := skipTrivia_bl (s := s0) (by rw [hs0]; exact hbl) hst
      simp only [boundsLoop]
      generalize skipTrivia s0 = s at hr ho
      cases i with
      | none =>
        have hr' : s.rest = 44 :: 32 :: (spellAll (items.map itemKV) ++ tl) := by
          simpa [spellAll_cons, itemKV, spell] using hr
        have := (ih n (32 :: (spellAll (items.map itemKV) ++ tl)) tl hn' htl (Bl.one _)).from s0
          ((s.adv 1).emit .comma [44]) (by simp [hr']) (k0 := [(.comma, [44])]) (by simp [ho])
          (kk := (none :: items).map itemKV) (by simp [itemKV])
        simpa [peek_cons hr'] using this
      | some k =>
        obtain ⟨d, ds, e, hd, hds⟩ := natDigits_cons k
        have hr' : s.rest = natDigits k ++ 32 :: (spellAll (items.map itemKV) ++ tl) := by
          simpa [spellAll_cons, itemKV, spell] using hr
        have hpk : s.peek ≠ some 44 := by
          have : s.rest = d :: (ds ++ 32 :: (spellAll (items.map itemKV) ++ tl)) := by
            rw [hr', e]; rfl
          rw [peek_cons this]
          have := isDigit_cases hd
          simp; omega
        have hm := mNumber_natDigits k (spellAll (items.map itemKV) ++ tl)
        have := (ih n (32 :: (spellAll (items.map itemKV) ++ tl)) tl hn' htl (Bl.one _)).from s0
          ((s.adv (natDigits k).length).emit .number (s.rest.take (natDigits k).length))
          (by simp [hr']) (k0 := [(.number, natDigits k)]) (by simp [ho, hr'])
          (kk := (some k :: items).map itemKV) (by simp [itemKV])
        rw [← hr'] at hm
        simpa [hpk, hm] using this

/-! ### postfix operators -/

/-- the items between the braces of a postfix operator -/
def postItems : Post → Option (List (Option Nat))
  | .opt | .rep | .rep1 => none
  | .exact n => some [some n]
  | .min n => some [some n, none]
  | .max n => some [none, some n]
  | .minmax m n => some [some m, none, some n]

theorem postKV_items {p : Post} {items : List (Option Nat)} (h : postItems p = some items) :
    postKV p = (.lbrace, [123]) :: (items.map itemKV ++ [(.rbrace, [125])]) := by
  cases p <;> simp [postItems] at h <;> subst h <;> rfl

theorem postKV_length (p : Post) : 1 ≤ (postKV p).length := by
  cases p <;> simp [postKV]

/-- the sub-scanner behind `{` -/
theorem sp_braces (items : List (Option Nat)) (N : Nat) (hN : items.length < N) (tl : Text) :
    Sp (do boundsLoop N; triv; expect 125 .rbrace .expectedRBrace; pure true : M Bool)
      (32 :: (spellAll (items.map itemKV) ++ 125 :: 32 :: tl)) true (32 :: tl)
      (items.map itemKV ++ [(.rbrace, [125])]) := by
  sp_begin
  sp_step (sp_boundsLoop items N _ (125 :: 32 :: tl) hN (by simp) (Bl.one _))
  sp_step (sp_triv_id (stop_tokc _ (by decide)))
  sp_step (sp_expect 125 .rbrace .expectedRBrace _)
  exact Sp.pure true _
  case hi => rfl
  case hk => simp

theorem hd_postKV (p : Post) (tl : Text) : Hd afterNode (spellAll (postKV p) ++ tl) := by
  cases p <;> simp [postKV, spellAll_cons, spell, afterNode]

theorem sp_postfixOp (p : Post) {t tl : Text} (h : Bl t (spellAll (postKV p) ++ tl)) :
    Sp acceptPostfixOp t true (32 :: tl) (postKV p) := by
  intro s0 hs0
  have hst : Stop (spellAll (postKV p) ++ tl) := (hd_postKV p tl).stop @tokc_afterNode
  obtain ⟨hr, ho⟩ := skipTrivia_bl (s := s0) (by rw [hs0]; exact h) hst
  simp only [acceptPostfixOp]
  generalize skipTrivia s0 = s at hr ho
  cases hp : postItems p with
  | none =>
    cases p with
    | opt =>
      have hr' : s.rest = 63 :: 32 :: tl := by simpa [postKV, spellAll_cons, spell] using hr
      exact ⟨(s.adv 1).emit .optionOp [63], by simp [peek_cons hr'], by simp [hr'], by simp [ho, postKV]⟩
    | rep =>
      have hr' : s.rest = 42 :: 32 :: tl := by simpa [postKV, spellAll_cons, spell] using hr
      exact ⟨(s.adv 1).emit .repeatOp [42], by simp [peek_cons hr'], by simp [hr'], by simp [ho, postKV]⟩
    | rep1 =>
      have hr' : s.rest = 43 :: 32 :: tl := by simpa [postKV, spellAll_cons, spell] using hr
      exact ⟨(s.adv 1).emit .repeatOnceOp [43], by simp [peek_cons hr'], by simp [hr'], by simp [ho, postKV]⟩
    | exact n => simp [postItems] at hp
    | min n => simp [postItems] at hp
    | max n => simp [postItems] at hp
    | minmax m n => simp [postItems] at hp
  | some items =>
    have hkv := postKV_items hp
    have hr' : s.rest = 123 :: 32 :: (spellAll (items.map itemKV) ++ 125 :: 32 :: tl) := by
      rw [hr, hkv]
      simp [spellAll_cons, spellAll_append, spell]
    have hN : items.length < ((s.adv 1).emit .lbrace [123]).rest.length + 1 := by
      have := length_le_spellAll (items.map itemKV)
      simp [hr'] at this ⊢; omega
    have := (sp_braces items _ hN tl).from s0 ((s.adv 1).emit .lbrace [123]) (by simp [hr'])
      (k0 := [(.lbrace, [123])]) (by simp [ho]) (kk := postKV p) (by rw [hkv]; simp)
    simpa [peek_cons hr'] using this

theorem sp_postfixOp_no {t tl : Text} (h : Bl t tl) (htl : Hd afterTerm tl) :
    Sp acceptPostfixOp t false tl [] := by
  intro s0 hs0
  obtain ⟨hr, ho⟩ := skipTrivia_bl (s := s0) (by rw [hs0]; exact h) (htl.stop @tokc_afterTerm)
  obtain ⟨c, r, rfl, hc⟩ := htl.dest
  refine ⟨skipTrivia s0, ?_, hr, by simp [ho]⟩
  simp only [acceptPostfixOp]
  generalize skipTrivia s0 = s at hr ho
  have := afterTerm_cases hc
  have h1 : c ≠ 63 := by omega
  have h2 : c ≠ 42 := by omega
  have h3 : c ≠ 43 := by omega
  have h4 : c ≠ 123 := by omega
  simp [peek_cons hr, h1, h2, h3, h4]

theorem sp_postfixLoop : ∀ (posts : List Post) (n : Nat) (t tl : Text), posts.length < n →
    Hd afterTerm tl → Bl t (spellAll (posts.map postKV).flatten ++ tl) →
    Sp (postfixLoop n) t () tl (posts.map postKV).flatten := by
  intro posts
  induction posts with
  | nil =>
    intro n t tl hn htl hbl
    cases n with
    | zero => omega
    | succ n =>
      unfold postfixLoop
      sp_begin
      sp_step (sp_postfixOp_no (by simpa using hbl) htl)
      exact Sp.pure () _
      case hi => rfl
      case hk => simp
  | cons p posts ih =>
    intro n t tl hn htl hbl
    cases n with
    | zero => omega
    | succ n =>
      have hn' : posts.length < n := by simp at hn; omega
      unfold postfixLoop
      sp_begin
      sp_step (sp_postfixOp p (t := t) (tl := spellAll (posts.map postKV).flatten ++ tl)
        (by simpa [spellAll_append] using hbl))
      exact ih n _ tl hn' htl (Bl.one _)
      case hi => rfl
      case hk => simp

theorem posts_length_le (posts : List Post) : posts.length ≤ (posts.map postKV).flatten.length := by
  induction posts with
  | nil => simp
  | cons p r ih =>
    have := postKV_length p
    simp only [List.map_cons, List.flatten_cons, List.length_append, List.length_cons]; omega

/-- `accept_postfix_ops` behind a node -/
theorem sp_acceptPostfixOps (posts : List Post) {t tl : Text} (htl : Hd afterTerm tl)
    (hbl : Bl t (spellAll (posts.map postKV).flatten ++ tl)) :
    Sp acceptPostfixOps t () tl (posts.map postKV).flatten := by
  unfold acceptPostfixOps
  apply Sp.lenFuel posts.length
  · have h1 := posts_length_le posts
    have h2 := length_le_spellAll (posts.map postKV).flatten
    have h3 := hbl.length_le
    simp at h3; omega
  · intro n hn
    exact sp_postfixLoop posts n t tl hn htl hbl

theorem hd_posts (posts : List Post) {tl : Text} (h : Hd afterTerm tl) :
    Hd afterNode (spellAll (posts.map postKV).flatten ++ tl) := by
  cases posts with
  | nil => exact h.mono @afterNode_of_afterTerm
  | cons p r =>
    have := hd_postKV p (spellAll (r.map postKV).flatten ++ tl)
    simpa [spellAll_append] using this

/-! ### `PEEK[a..b]` -/

theorem sp_optInteger (a : Option Int) {tl : Text} (h : Hd (fun c => c == 46 || c == 93) tl) :
    Sp optInteger (spellAll (optIntKV a) ++ tl) () tl (optIntKV a) := by
  have hst : Stop tl := h.stop (fun c hc => by
    simp only [Bool.or_eq_true, beq_iff_eq] at hc
    rcases hc with hc | hc <;> subst hc <;> decide)
  unfold optInteger
  cases a with
  | none =>
    obtain ⟨c, r, rfl, hc⟩ := h.dest
    have hc' : c = 46 ∨ c = 93 := by simpa using hc
    sp_begin
    sp_step (sp_scanEmit_none .integer (mInteger_none r (c := c)
      (by rcases hc' with h | h <;> subst h <;> decide) (by omega)))
    exact Sp.pure () _
    case hi => simp [optIntKV]
    case hk => simp [optIntKV]
  | some i =>
    sp_begin
    sp_step (sp_scanEmit .integer (mInteger_int i tl))
    exact sp_triv hst
    case hi => simp [optIntKV, spellAll_cons, spell]
    case hk => simp [optIntKV]

theorem mLit_dots (tl : Text) : mLit sDOTS (sDOTS ++ tl) = some sDOTS.length := mLit_self sDOTS tl

/-- the kinds and values of `[a..b]` -/
def sliceKV (a b : Option Int) : List KV :=
  [(.lbracket, [91])] ++ optIntKV a ++ [(.rangeOp, [46, 46])] ++ optIntKV b ++ [(.rbracket, [93])]

theorem hd_optInt (a : Option Int) {p : Nat → Bool} {tl : Text} (h : Hd p tl) :
    Hd (fun c => p c || isDigit c || c == 45) (spellAll (optIntKV a) ++ tl) := by
  cases a with
  | none => exact h.mono (fun c hc => by simp [hc])
  | some i =>
    have := intDigits_hd i (32 :: tl)
    simp only [optIntKV, spellAll_cons, spell, spellAll_nil, List.append_assoc, List.cons_append,
      List.nil_append]
    exact this.mono (fun c hc => by
      simp only [Bool.or_eq_true] at hc ⊢
      rcases hc with hc | hc
      · exact Or.inl (Or.inr hc)
      · exact Or.inr hc)

/-- `PEEK` followed by a slice -/
theorem sp_peekTail_slice (a b : Option Int) (tl : Text) :
    Sp peekTail (32 :: (spellAll (sliceKV a b) ++ tl)) true (32 :: tl) (sliceKV a b) := by
  have hdB : Hd (fun c => c == 46 || c == 93) (93 :: 32 :: tl) := by simp
  have hdA : Hd (fun c => c == 46 || c == 93) (sDOTS ++ 32 :: (spellAll (optIntKV b) ++ 93 :: 32 :: tl)) := by
    simp [sDOTS]
  have tk : ∀ c, ((c == 46 || c == 93) || isDigit c || c == 45) = true → tokc c = true := by
    intro c hc
    simp only [Bool.or_eq_true, beq_iff_eq] at hc
    rcases hc with ((hc | hc) | hc) | hc
    · subst hc; decide
    · subst hc; decide
    · exact tokc_digit hc
    · subst hc; decide
  unfold peekTail
  sp_begin
  sp_step (sp_triv (tl := 91 :: 32 :: (spellAll (optIntKV a) ++ (sDOTS ++ 32 ::
    (spellAll (optIntKV b) ++ 93 :: 32 :: tl)))) (stop_tokc _ (by decide)))
  sp_step (sp_optChar 91 .lbracket _)
  sp_step (sp_triv ((hd_optInt a hdA).stop tk))
  sp_step (sp_optInteger a hdA)
  sp_step (sp_scanOrError .rangeOp .expectedRangeOp (mLit_dots _))
  sp_step (sp_triv ((hd_optInt b hdB).stop tk))
  sp_step (sp_optInteger b hdB)
  sp_step (sp_expect 93 .rbracket .expectedRParen _)
  exact Sp.pure true _
  case hi => simp [sliceKV, spellAll_cons, spellAll_append, spell, sDOTS]
  case hk => simp [sliceKV, sDOTS]

/-- `PEEK` as a plain identifier: the blank behind it may be eaten -/
theorem sp_peekTail_no {t tl : Text} (h : Bl t tl) (htl : Hd afterNode tl) :
    Sp peekTail t true tl [] := by
  unfold peekTail
  sp_begin
  sp_step (sp_triv_bl h (htl.stop @tokc_afterNode))
  sp_step (sp_optChar_no 91 .lbracket (head_ne_of_hd htl (by decide)))
  exact Sp.pure true _
  case hi => rfl
  case hk => simp

/-! ### character ranges -/

theorem sp_charRange (a b : Nat) (tl : Text) :
    Sp charRange (spellAll [(.char, charLit a), (.rangeOp, [46, 46]), (.char, charLit b)] ++ tl)
      true (32 :: tl) [(.char, charLit a), (.rangeOp, [46, 46]), (.char, charLit b)] := by
  obtain ⟨rb, hb⟩ := charLit_cons b
  unfold charRange
  sp_begin
  sp_step (sp_scanEmit .char (mChar_charLit a (32 :: (sDOTS ++ 32 :: (charLit b ++ 32 :: tl)))))
  sp_step (sp_triv (stop_tokc _ (by decide)))
  sp_step (sp_scanOrError .rangeOp .expectedRangeOp (mLit_dots _))
  sp_step (sp_triv (by rw [hb]; exact stop_tokc _ (by decide)))
  sp_step (sp_scanOrError .char .expectedChar (mChar_charLit b (32 :: tl)))
  exact Sp.pure true _
  case hi => simp [spellAll_cons, spell, sDOTS]
  case hk => simp [sDOTS]

theorem sp_charRange_no {c : Nat} (r : Text) (h : c ≠ 39) : Sp charRange (c :: r) false (c :: r) [] := by
  unfold charRange
  sp_begin
  sp_step (sp_scanEmit_none .char (mChar_none r h))
  exact Sp.pure false _
  case hi => rfl
  case hk => simp

/-! ### doc lines -/

theorem findNewline_cons {c : Nat} {t : Text} (h10 : c ≠ 10) (h13 : c = 13 → t.head? ≠ some 10) :
    findNewline (c :: t) = (findNewline t).map (· + 1) := by
  by_cases hc : c = 13
  · subst hc
    cases t with
    | nil => simp [findNewline]
    | cons d t' =>
      have hd : d ≠ 10 := by simpa using h13 rfl
      simp [findNewline, hd]
  · simp [findNewline, hc]

theorem findNewline_cons_inv {c : Nat} {t : Text} {n : Nat}
    (h : findNewline (c :: t) = some (n + 1)) : c ≠ 10 ∧ (c = 13 → t.head? ≠ some 10) := by
  constructor
  · intro hc; subst hc; simp [findNewline] at h
  · intro hc; subst hc
    cases t with
    | nil => simp
    | cons d t' =>
      intro hd
      simp at hd; subst hd
      simp [findNewline] at h

theorem head?_append_one (r : Text) (x : Nat) (a : Text) :
    (r ++ x :: a).head? = (r ++ [x]).head? := by
  cases r <;> rfl

/-- the line ends at the line feed that follows it, whatever comes behind -/
theorem findNewline_doc : ∀ (l : Text) (more : Text), IsDocLine l →
    findNewline (l ++ 10 :: more) = some l.length := by
  intro l
  induction l with
  | nil => intro more _; simp [findNewline]
  | cons c r ih =>
    intro more h
    unfold IsDocLine at h
    simp only [List.cons_append, List.length_cons] at h ⊢
    obtain ⟨h10, h13⟩ := findNewline_cons_inv h
    rw [findNewline_cons h10 h13] at h
    rw [findNewline_cons h10 (by rw [head?_append_one]; exact h13)]
    have hr : IsDocLine r := by
      unfold IsDocLine
      cases hf : findNewline (r ++ [10]) with
      | none => simp [hf] at h
      | some k => simp [hf] at h; rw [h]
    rw [ih more hr]; rfl

theorem isDocLine_tail {c : Nat} {r : Text} (h : IsDocLine (c :: r)) : IsDocLine r := by
  unfold IsDocLine at h ⊢
  simp only [List.cons_append, List.length_cons] at h
  obtain ⟨h10, h13⟩ := findNewline_cons_inv h
  rw [findNewline_cons h10 h13] at h
  cases hf : findNewline (r ++ [10]) with
  | none => simp [hf] at h
  | some k => simp [hf] at h; rw [h]

/-- the optional blank behind the marker is skipped, and nothing else: what follows is the line
    `l` (which does not start with a blank if there was none to skip) and then `X` -/
theorem docBlank_sp {sp l X : Text} {s : St} (hsp : DocSp sp l)
    (hX : X.head? ≠ some 32 ∧ X.head? ≠ some 9) (hs : s.rest = sp ++ (l ++ X)) :
    (docBlank s).rest = l ++ X ∧ out (docBlank s) = out s := by
  unfold docBlank
  rcases hsp with rfl | rfl | ⟨rfl, h1, h2⟩
  · simp only [List.cons_append, List.nil_append] at hs
    simp [hs, out, St.adv]
  · simp only [List.cons_append, List.nil_append] at hs
    simp [hs, out, St.adv]
  · simp only [List.nil_append] at hs
    cases hr : s.rest with
    | nil => simp only; exact ⟨by rw [← hs, hr], trivial⟩
    | cons c r =>
      simp only
      have hc : (c == 32 || c == 9) = false := by
        have hh : (l ++ X).head? = some c := by rw [← hs, hr]; rfl
        cases l with
        | nil =>
          simp only [List.nil_append] at hh
          have a := hX.1; have b := hX.2
          rw [hh] at a b
          simp only [ne_eq, Option.some.injEq] at a b
          simp [a, b]
        | cons d l' =>
          simp only [List.cons_append, List.head?_cons, Option.some.injEq] at hh
          subst hh
          simp only [List.head?_cons, ne_eq, Option.some.injEq] at h1 h2
          simp [h1, h2]
      rw [hc]
      simp only [Bool.false_eq_true, if_false]
      exact ⟨by rw [← hs, hr], trivial⟩

/-- `scan_grammar_doc_inner` / `scan_rule_doc_inner` on a doc line: the marker's blank is
    dropped, the line is the token -/
theorem sp_docInner {sp l : Text} (hsp : DocSp sp l) (h : IsDocLine l) (more : Text) :
    Sp docInner (sp ++ (l ++ 10 :: more)) () (10 :: more) [(.commentText, l)] := by
  intro s hs
  obtain ⟨hr, ho⟩ := docBlank_sp hsp (X := 10 :: more) (by simp) hs
  have hf := findNewline_doc l more h
  refine ⟨((docBlank s).adv l.length).emit .commentText ((docBlank s).rest.take l.length), ?_, ?_, ?_⟩
  · unfold docInner
    simp only [hr, hf, Option.getD_some]
  · simp [hr]
  · simp [hr, ho]

/-- the printer's blank is a legal separator for every line -/
theorem docSp_blank (l : Text) : DocSp [32] l := .inl rfl

/-! ### modifiers -/

theorem sp_optModifier (m : Option Nat)
    (hm : match m with | some c => c = 95 ∨ c = 64 ∨ c = 36 ∨ c = 33 | none => True) (tl : Text) :
    Sp optModifier (spellAll (modKV m) ++ 123 :: tl) () (123 :: tl) (modKV m) := by
  unfold optModifier
  cases m with
  | none =>
    sp_begin
    sp_step (sp_scanEmit_none .modifier (t := 123 :: tl) (by simp [mModifier]))
    exact Sp.pure () _
    case hi => simp [modKV]
    case hk => simp [modKV]
  | some c =>
    simp only at hm
    sp_begin
    sp_step (sp_scanEmit .modifier (w := [c]) (tl := 32 :: 123 :: tl)
      (by rcases hm with h | h | h | h <;> subst h <;> simp [mModifier]))
    exact sp_triv (stop_tokc _ (by decide))
    case hi => simp [modKV, spellAll_cons, spell]
    case hk => simp [modKV]
