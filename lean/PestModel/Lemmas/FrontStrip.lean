/-
  Lemmas/FrontStrip.lean — `lstrip("0") or "0"` (Front/Parse.lean `lstrip0`, `stripZeros`,
  `splitSign`, `intLiteral`): what `parse_int` / `parse_number` hand to `int()` since the `fix:`
  commit 6f76b47.  Basic facts shared by the totality lemmas (Lemmas/FrontTotalParse.lean) and
  the round-trip lemmas (Lemmas/FrontParseRT.lean, Lemmas/FrontInvGlue.lean).
-/
import PestModel.Front.Parse

namespace Pest
namespace Front

theorem lstrip0_cons_zero (r : Text) : lstrip0 (48 :: r) = lstrip0 r := by
  simp [lstrip0]

theorem lstrip0_cons_ne {c : Nat} (r : Text) (h : c ≠ 48) : lstrip0 (c :: r) = c :: r := by
  unfold lstrip0
  split
  · rename_i heq; cases heq; exact absurd rfl h
  · rfl

theorem lstrip0_nil : lstrip0 [] = [] := by
  unfold lstrip0
  rfl

theorem lstrip0_mem : ∀ (v : Text), ∀ c ∈ lstrip0 v, c ∈ v
  | [], c, h => by rw [lstrip0_nil] at h; exact h
  | d :: r, c, h => by
    by_cases hd : d = 48
    · subst hd
      rw [lstrip0_cons_zero] at h
      exact List.mem_cons_of_mem _ (lstrip0_mem r c h)
    · rw [lstrip0_cons_ne r hd] at h; exact h

/-- what is left does not start with `0` -/
theorem lstrip0_head : ∀ (v : Text), (lstrip0 v).head? ≠ some 48
  | [] => by rw [lstrip0_nil]; simp
  | d :: r => by
    by_cases hd : d = 48
    · subst hd; rw [lstrip0_cons_zero]; exact lstrip0_head r
    · rw [lstrip0_cons_ne r hd]; simpa using hd

theorem digitsVal_cons_zero (r : Text) : digitsVal (48 :: r) = digitsVal r := by
  simp [digitsVal]

theorem digitsVal_lstrip0 : ∀ (v : Text), digitsVal (lstrip0 v) = digitsVal v
  | [] => by rw [lstrip0_nil]
  | d :: r => by
    by_cases hd : d = 48
    · subst hd; rw [lstrip0_cons_zero, digitsVal_cons_zero]; exact digitsVal_lstrip0 r
    · rw [lstrip0_cons_ne r hd]

theorem stripZeros_ne_nil (v : Text) : stripZeros v ≠ [] := by
  unfold stripZeros
  simp only
  split
  · simp
  · rename_i h; intro e; rw [e] at h; simp at h

theorem digitsVal_stripZeros (v : Text) : digitsVal (stripZeros v) = digitsVal v := by
  unfold stripZeros
  simp only
  split
  · rename_i h
    have : lstrip0 v = [] := by simpa using h
    rw [← digitsVal_lstrip0 v, this]; rfl
  · exact digitsVal_lstrip0 v

theorem stripZeros_mem (v : Text) : ∀ c ∈ stripZeros v, c = 48 ∨ c ∈ v := by
  intro c hc
  unfold stripZeros at hc
  simp only at hc
  split at hc
  · simp at hc; exact .inl hc
  · exact .inr (lstrip0_mem v c hc)

theorem stripZeros_all {v : Text} (h : ∀ c ∈ v, isDigit c = true) : ∀ c ∈ stripZeros v, isDigit c = true := by
  intro c hc
  rcases stripZeros_mem v c hc with rfl | hc
  · decide
  · exact h c hc

/-- a decimal numeral without superfluous zeros: `0`, or starting with `1`–`9` -/
def Canonical (ds : Text) : Prop :=
  ds = [48] ∨ ∃ d r, ds = d :: r ∧ 49 ≤ d ∧ d ≤ 57 ∧ ∀ c ∈ r, isDigit c = true

theorem isDigit_iff (c : Nat) : isDigit c = true ↔ 48 ≤ c ∧ c ≤ 57 := by
  simp [isDigit]

theorem stripZeros_canonical {v : Text} (h : ∀ c ∈ v, isDigit c = true) : Canonical (stripZeros v) := by
  unfold stripZeros
  simp only
  split
  · exact .inl rfl
  · rename_i hne
    cases hl : lstrip0 v with
    | nil => rw [hl] at hne; simp at hne
    | cons d r =>
      have hd : d ≠ 48 := by
        have := lstrip0_head v
        rw [hl] at this
        simpa using this
      have hdig : ∀ c ∈ d :: r, isDigit c = true := fun c hc => h c (lstrip0_mem v c (hl ▸ hc))
      have := (isDigit_iff d).1 (hdig d (by simp))
      exact .inr ⟨d, r, rfl, by omega, this.2, fun c hc => hdig c (by simp [hc])⟩

/-- a canonical numeral is its own significant part -/
theorem stripZeros_of_canonical {ds : Text} (h : Canonical ds) : stripZeros ds = ds := by
  rcases h with rfl | ⟨d, r, rfl, h1, _, _⟩
  · simp [stripZeros, lstrip0_cons_zero, lstrip0_nil]
  · unfold stripZeros
    rw [lstrip0_cons_ne r (by omega)]
    simp

/-! ### the sign -/

theorem splitSign_neg (r : Text) : splitSign (45 :: r) = ([45], r) := rfl

theorem splitSign_pos {v : Text} (h : v.head? ≠ some 45) : splitSign v = ([], v) := by
  unfold splitSign
  split
  · rename_i heq; simp at h
  · rfl

theorem intLiteral_neg (r : Text) : intLiteral (45 :: r) = 45 :: stripZeros r := by
  simp [intLiteral, splitSign_neg]

theorem intLiteral_pos {v : Text} (h : v.head? ≠ some 45) : intLiteral v = stripZeros v := by
  simp [intLiteral, splitSign_pos h]

theorem head_ne_minus_of_digits {v : Text} (h : ∀ c ∈ v, isDigit c = true) : v.head? ≠ some 45 := by
  cases v with
  | nil => simp
  | cons c r =>
    have := h c (by simp)
    simp only [List.head?_cons, ne_eq, Option.some.injEq]
    intro e; subst e; revert this; decide

end Front
end Pest
