/-
  Lemmas/OptSoundTR.lean — the syntactic rewrite relation `TR` of the optimizer passes.

  `TR F G a e e'`: `e'` is obtained from `e` (an expression of a rule body of the *current* rule
  table `G`) by rewriting some nodes the way the passes do, each rewrite carrying the side
  condition under which it is sound; `a` is the atomicity flag of the states in which `e` runs
  (it changes only across embedded rule nodes); `F` switches the `squash` / `skip` rewrites on.
-/
import PestModel.Lemmas.OptSoundBase

set_option linter.unusedVariables false

namespace Pest
namespace OptS

open L0

/-- silent and neither atomic, compound-atomic nor non-atomic: a rule that changes nothing but
    the grouping of pairs (it has none) -/
def plainSilent (m : Nat) : Prop :=
  hasBit m SILENT = true ∧ hasBit m ATOMIC = false ∧ hasBit m COMPOUND = false ∧ hasBit m NONATOMIC = false

instance (m : Nat) : Decidable (plainSilent m) := by unfold plainSilent; exact inferInstance

theorem plain_ruleAtomic {n : String} {m : Nat} (hm : plainSilent m) (hn : L1.isTriviaName n = false)
    (b : Bool) : ruleAtomic n m b = b := by
  obtain ⟨_, h2, h3, h4⟩ := hm
  simp [ruleAtomic, h2, h3, h4, hn]

/-- which of the two "terminal matcher" rewrites may be used -/
structure Feat where
  squash : Bool
  skip : Bool

/-! ### every node of a tree -/

mutual
/-- `P` holds of every node of `e` (bodies of embedded rule nodes included) -/
def AllN (P : Expr → Prop) : Expr → Prop
  | .rule n m sm b => P (.rule n m sm b) ∧ AllN P b
  | .seq es => P (.seq es) ∧ AllNL P es
  | .choice es => P (.choice es) ∧ AllNL P es
  | .opt e => P (.opt e) ∧ AllN P e
  | .rep e => P (.rep e) ∧ AllN P e
  | .rep1 e => P (.rep1 e) ∧ AllN P e
  | .repExact e n => P (.repExact e n) ∧ AllN P e
  | .repMin e n => P (.repMin e n) ∧ AllN P e
  | .repMax e n => P (.repMax e n) ∧ AllN P e
  | .repMinMax e m n => P (.repMinMax e m n) ∧ AllN P e
  | .andP e => P (.andP e) ∧ AllN P e
  | .notP e => P (.notP e) ∧ AllN P e
  | .group e t => P (.group e t) ∧ AllN P e
  | .push e => P (.push e) ∧ AllN P e
  | e => P e
def AllNL (P : Expr → Prop) : List Expr → Prop
  | [] => True
  | e :: es => AllN P e ∧ AllNL P es
end

theorem AllN.root {P : Expr → Prop} {e : Expr} (h : AllN P e) : P e := by
  cases e <;> first | exact h.1 | exact h

theorem AllNL.index {P : Expr → Prop} : ∀ {es : List Expr}, AllNL P es →
    ∀ i (h : i < es.length), AllN P es[i]
  | [], _, i, h => by simp at h
  | e :: es, hh, i, h => by
    cases i with
    | zero => exact hh.1
    | succ i => simpa using AllNL.index hh.2 i (by simpa using h)

theorem AllNL.of_index {P : Expr → Prop} : ∀ {es : List Expr},
    (∀ i (h : i < es.length), AllN P es[i]) → AllNL P es
  | [], _ => trivial
  | e :: es, hh => ⟨hh 0 (by simp), AllNL.of_index fun i h => by
      have := hh (i + 1) (by simp; omega)
      simpa using this⟩

mutual
theorem AllN.imp2 {P Q : Expr → Prop} (h : ∀ x, AllN P x → Q x) : ∀ (e : Expr), AllN P e → AllN Q e
  | .rule n m sm b, he => ⟨h _ he, AllN.imp2 h b he.2⟩
  | .seq es, he => ⟨h _ he, AllNL.imp2 h es he.2⟩
  | .choice es, he => ⟨h _ he, AllNL.imp2 h es he.2⟩
  | .opt e, he => ⟨h _ he, AllN.imp2 h e he.2⟩
  | .rep e, he => ⟨h _ he, AllN.imp2 h e he.2⟩
  | .rep1 e, he => ⟨h _ he, AllN.imp2 h e he.2⟩
  | .repExact e n, he => ⟨h _ he, AllN.imp2 h e he.2⟩
  | .repMin e n, he => ⟨h _ he, AllN.imp2 h e he.2⟩
  | .repMax e n, he => ⟨h _ he, AllN.imp2 h e he.2⟩
  | .repMinMax e m n, he => ⟨h _ he, AllN.imp2 h e he.2⟩
  | .andP e, he => ⟨h _ he, AllN.imp2 h e he.2⟩
  | .notP e, he => ⟨h _ he, AllN.imp2 h e he.2⟩
  | .group e t, he => ⟨h _ he, AllN.imp2 h e he.2⟩
  | .push e, he => ⟨h _ he, AllN.imp2 h e he.2⟩
  | .ident n t, he => h _ he
  | .str _, he => h _ he
  | .ci _, he => h _ he
  | .range _ _, he => h _ he
  | .pushLit _, he => h _ he
  | .peek, he => h _ he
  | .pop, he => h _ he
  | .drop, he => h _ he
  | .peekAll, he => h _ he
  | .popAll, he => h _ he
  | .peekSlice _ _, he => h _ he
  | .anyB, he => h _ he
  | .soiB, he => h _ he
  | .eoiB, he => h _ he
  | .uprop _, he => h _ he
  | .skipUntil _, he => h _ he
  | .optChoice _ _, he => h _ he
theorem AllNL.imp2 {P Q : Expr → Prop} (h : ∀ x, AllN P x → Q x) : ∀ (es : List Expr), AllNL P es → AllNL Q es
  | [], _ => trivial
  | e :: es, he => ⟨AllN.imp2 h e he.1, AllNL.imp2 h es he.2⟩
end

mutual
theorem AllN.imp3 {P Q R : Expr → Prop} (h : ∀ x, AllN P x → AllN Q x → R x) :
    ∀ (e : Expr), AllN P e → AllN Q e → AllN R e
  | .rule n m sm b, h1, h2 => ⟨h _ h1 h2, AllN.imp3 h b h1.2 h2.2⟩
  | .opt e, h1, h2 => ⟨h _ h1 h2, AllN.imp3 h e h1.2 h2.2⟩
  | .rep e, h1, h2 => ⟨h _ h1 h2, AllN.imp3 h e h1.2 h2.2⟩
  | .rep1 e, h1, h2 => ⟨h _ h1 h2, AllN.imp3 h e h1.2 h2.2⟩
  | .repExact e n, h1, h2 => ⟨h _ h1 h2, AllN.imp3 h e h1.2 h2.2⟩
  | .repMin e n, h1, h2 => ⟨h _ h1 h2, AllN.imp3 h e h1.2 h2.2⟩
  | .repMax e n, h1, h2 => ⟨h _ h1 h2, AllN.imp3 h e h1.2 h2.2⟩
  | .repMinMax e m n, h1, h2 => ⟨h _ h1 h2, AllN.imp3 h e h1.2 h2.2⟩
  | .andP e, h1, h2 => ⟨h _ h1 h2, AllN.imp3 h e h1.2 h2.2⟩
  | .notP e, h1, h2 => ⟨h _ h1 h2, AllN.imp3 h e h1.2 h2.2⟩
  | .group e t, h1, h2 => ⟨h _ h1 h2, AllN.imp3 h e h1.2 h2.2⟩
  | .push e, h1, h2 => ⟨h _ h1 h2, AllN.imp3 h e h1.2 h2.2⟩
  | .seq es, h1, h2 => ⟨h _ h1 h2, AllNL.imp3 h es h1.2 h2.2⟩
  | .choice es, h1, h2 => ⟨h _ h1 h2, AllNL.imp3 h es h1.2 h2.2⟩
  | .ident n t, h1, h2 => h _ h1 h2
  | .str _, h1, h2 => h _ h1 h2
  | .ci _, h1, h2 => h _ h1 h2
  | .range _ _, h1, h2 => h _ h1 h2
  | .pushLit _, h1, h2 => h _ h1 h2
  | .peek, h1, h2 => h _ h1 h2
  | .pop, h1, h2 => h _ h1 h2
  | .drop, h1, h2 => h _ h1 h2
  | .peekAll, h1, h2 => h _ h1 h2
  | .popAll, h1, h2 => h _ h1 h2
  | .peekSlice _ _, h1, h2 => h _ h1 h2
  | .anyB, h1, h2 => h _ h1 h2
  | .soiB, h1, h2 => h _ h1 h2
  | .eoiB, h1, h2 => h _ h1 h2
  | .uprop _, h1, h2 => h _ h1 h2
  | .skipUntil _, h1, h2 => h _ h1 h2
  | .optChoice _ _, h1, h2 => h _ h1 h2
theorem AllNL.imp3 {P Q R : Expr → Prop} (h : ∀ x, AllN P x → AllN Q x → R x) :
    ∀ (es : List Expr), AllNL P es → AllNL Q es → AllNL R es
  | [], _, _ => trivial
  | e :: es, h1, h2 => ⟨AllN.imp3 h e h1.1 h2.1, AllNL.imp3 h es h1.2 h2.2⟩
end

theorem AllN.imp {P Q : Expr → Prop} (h : ∀ x, P x → Q x) {e : Expr} (he : AllN P e) : AllN Q e :=
  AllN.imp2 (fun x hx => h x hx.root) e he

def NoTrivia (G : Grammar) : Prop :=
  G.fusedSkip = none ∧ G.lookup "WHITESPACE" = none ∧ G.lookup "COMMENT" = none

/-- the `Rep-NegPred-Any` shape that `skip` rewrites, with what the rewrite needs to be sound -/
def SkipPat (G : Grammar) (a : Bool) (e : Expr) (subs : List Str) : Prop :=
  ∃ inner anyN t x k,
    e = .rep (.group (.seq [.notP inner, anyN]) t) ∧
    (∃ m sm, anyN = .rule "ANY" m sm .anyB ∧ hasBit m SILENT = true) ∧
    (x = inner ∨ ∃ n m sm, inner = .rule n m sm x) ∧
    Opt.skipCollect G.rules k x [] = some subs ∧
    (a = true ∨ NoTrivia G)

/-- ranges are not reversed -/
def AltOK : Alt → Prop
  | .range lo hi => lo ≤ hi
  | _ => True

/-- what `squash` needs of the nodes it flattens: embedded rule nodes are silent and a Unicode
    property rule carries its own name; a nested `OptimizedChoice` is not the repeating kind and
    not empty; a range is not reversed (`re.compile("[z-a]")` raises, so no loadable grammar has one) -/
def SqOK : Expr → Prop
  | .rule n m _ b => (∀ pn, b = .uprop pn → pn = n ∧ hasBit m SILENT = true) ∧
      (∀ es, b = .choice es → hasBit m SILENT = true)
  | .choice es => es ≠ []
  | .optChoice alts star => star = false ∧ alts ≠ [] ∧ ∀ a ∈ alts, AltOK a
  | .range a b => a ≤ b
  | _ => True

/-- a `Choice` whose (already rewritten) alternatives `squash` turns into `alts` -/
def SqPat (G : Grammar) (es' : List Expr) (alts : List Alt) : Prop :=
  ∃ k, Opt.squash k es' [] = some alts ∧ alts ≠ [] ∧ Opt.isOrderPreserving G alts = true ∧
    AllNL SqOK es'

theorem squash_altOK : ∀ (k : Nat) (es : List Expr) (acc alts : List Alt),
    Opt.squash k es acc = some alts → AllNL SqOK es → (∀ a ∈ acc, AltOK a) → ∀ a ∈ alts, AltOK a := by
  intro k
  induction k with
  | zero => intro es acc alts h; simp [Opt.squash] at h
  | succ k ih =>
    intro es acc alts h hes hacc
    cases es with
    | nil => simp only [Opt.squash, Option.some.injEq] at h; subst h; exact hacc
    | cons e rest =>
      simp only [Opt.squash] at h
      split at h
      · exact absurd h (by simp)
      · rename_i acc' hone
        refine ih rest acc' alts h hes.2 ?_
        have hsnoc : ∀ (x : Alt), AltOK x → ∀ a ∈ acc ++ [x], AltOK a := by
          intro x hx a ha
          rcases List.mem_append.1 ha with h1 | h1
          · exact hacc a h1
          · simp only [List.mem_singleton] at h1; subst h1; exact hx
        cases e with
        | str x => simp only [Option.some.injEq] at hone; subst hone; exact hsnoc _ trivial
        | ci x => simp only [Option.some.injEq] at hone; subst hone; exact hsnoc _ trivial
        | range lo hi =>
          simp only [Option.some.injEq] at hone; subst hone
          exact hsnoc _ (show lo ≤ hi from hes.1)
        | optChoice al st =>
          simp only [Option.some.injEq] at hone; subst hone
          intro a ha
          rcases List.mem_append.1 ha with h1 | h1
          · exact hacc a h1
          · exact (show SqOK (.optChoice al st) from hes.1).2.2 a h1
        | choice es1 => simp only [] at hone; exact ih es1 acc acc' hone hes.1.2 hacc
        | rule n m sm b =>
          cases b with
          | uprop pn => simp only [Option.some.injEq] at hone; subst hone; exact hsnoc _ trivial
          | choice es1 => simp only [] at hone; exact ih es1 acc acc' hone hes.1.2.2 hacc
          | _ => simp at hone
        | _ => simp at hone

/-! ### the relation -/

inductive TR (F : Feat) (G : Grammar) : Bool → Expr → Expr → Prop
  -- congruence
  | term {a e} : isTerm e = true → TR F G a e e
  | ident {a n t} : TR F G a (.ident n t) (.ident n t)
  | rule {a n m sm b} : TR F G a (.rule n m sm b) (.rule n m sm b)
  | ruleC {a n m sm b b'} : ruleAtomic n m a = a → TR F G a b b' → TR F G a (.rule n m sm b) (.rule n m sm b')
  | seq {a es es'} : es.length = es'.length →
      (∀ i (h1 : i < es.length) (h2 : i < es'.length), TR F G a es[i] es'[i]) → TR F G a (.seq es) (.seq es')
  | choice {a es es'} : es.length = es'.length →
      (∀ i (h1 : i < es.length) (h2 : i < es'.length), TR F G a es[i] es'[i]) →
      TR F G a (.choice es) (.choice es')
  | opt {a e e'} : TR F G a e e' → TR F G a (.opt e) (.opt e')
  | rep {a e e'} : TR F G a e e' → TR F G a (.rep e) (.rep e')
  | rep1 {a e e'} : TR F G a e e' → TR F G a (.rep1 e) (.rep1 e')
  | repExact {a e e' n} : TR F G a e e' → TR F G a (.repExact e n) (.repExact e' n)
  | repMin {a e e' n} : TR F G a e e' → TR F G a (.repMin e n) (.repMin e' n)
  | repMax {a e e' n} : TR F G a e e' → TR F G a (.repMax e n) (.repMax e' n)
  | repMinMax {a e e' m n} : TR F G a e e' → TR F G a (.repMinMax e m n) (.repMinMax e' m n)
  | andP {a e e'} : TR F G a e e' → TR F G a (.andP e) (.andP e')
  | notP {a e e'} : TR F G a e e' → TR F G a (.notP e) (.notP e')
  | group {a e e' t} : TR F G a e e' → TR F G a (.group e t) (.group e' t)
  | push {a e e'} : TR F G a e e' → TR F G a (.push e) (.push e')
  -- unroll (applied after the children)
  | unroll1 {a e e'} : TR F G a e e' → TR F G a (.rep1 e) (.seq [e', .rep e'])
  | unroll1g {a e x'} : TR F G a e (.group x' none) → TR F G a (.rep1 e) (.seq [x', .rep (.group x' none)])
  | unrollExact {a e e' n} : TR F G a e e' → TR F G a (.repExact e n) (.seq (List.replicate n e'))
  | unrollMin {a e e' n} : TR F G a e e' → TR F G a (.repMin e n) (.seq (List.replicate n e' ++ [.rep e']))
  | unrollMax {a e e' n} : TR F G a e e' → TR F G a (.repMax e n) (.seq (List.replicate n (.opt e')))
  | unrollMinMax {a e e' m n} : TR F G a e e' →
      TR F G a (.repMinMax e m n) (.seq (List.replicate m e' ++ List.replicate (n - m) (.opt e')))
  -- inline_builtin (applied before the children of the result)
  | inlB {a n m sm b b'} : plainSilent m → L1.isTriviaName n = false → TR F G a b b' →
      TR F G a (.rule n m sm b) b'
  -- inline_silent_rules
  | inlS {a n r b'} : G.lookup n = some r → hasBit r.mod SILENT = true → ruleAtomic r.name r.mod a = a →
      TR F G a r.body b' → TR F G a (.ident n none) b'
  -- squash_choice (applied after the children)
  | squash {a es es' alts} : F.squash = true → es.length = es'.length →
      (∀ i (h1 : i < es.length) (h2 : i < es'.length), TR F G a es[i] es'[i]) →
      SqPat G es' alts → TR F G a (.choice es) (.optChoice alts false)
  -- skip
  | skip {a e subs} : F.skip = true → SkipPat G a e subs → TR F G a e (.skipUntil subs)

mutual
theorem TR.refl (F : Feat) (G : Grammar) : ∀ (e : Expr) (a : Bool), TR F G a e e
  | .rule n m sm b, a => .rule
  | .seq es, a => .seq rfl (fun i h1 _ => TR.reflL F G es a i h1)
  | .choice es, a => .choice rfl (fun i h1 _ => TR.reflL F G es a i h1)
  | .opt e, a => .opt (TR.refl F G e a)
  | .rep e, a => .rep (TR.refl F G e a)
  | .rep1 e, a => .rep1 (TR.refl F G e a)
  | .repExact e n, a => .repExact (TR.refl F G e a)
  | .repMin e n, a => .repMin (TR.refl F G e a)
  | .repMax e n, a => .repMax (TR.refl F G e a)
  | .repMinMax e m n, a => .repMinMax (TR.refl F G e a)
  | .andP e, a => .andP (TR.refl F G e a)
  | .notP e, a => .notP (TR.refl F G e a)
  | .group e t, a => .group (TR.refl F G e a)
  | .push e, a => .push (TR.refl F G e a)
  | .ident n t, a => .ident
  | .str _, _ => .term rfl
  | .ci _, _ => .term rfl
  | .range _ _, _ => .term rfl
  | .pushLit _, _ => .term rfl
  | .peek, _ => .term rfl
  | .pop, _ => .term rfl
  | .drop, _ => .term rfl
  | .peekAll, _ => .term rfl
  | .popAll, _ => .term rfl
  | .peekSlice _ _, _ => .term rfl
  | .anyB, _ => .term rfl
  | .soiB, _ => .term rfl
  | .eoiB, _ => .term rfl
  | .uprop _, _ => .term rfl
  | .skipUntil _, _ => .term rfl
  | .optChoice _ _, _ => .term rfl
theorem TR.reflL (F : Feat) (G : Grammar) : ∀ (es : List Expr) (a : Bool) (i : Nat) (h : i < es.length),
    TR F G a es[i] es[i]
  | [], _, i, h => by simp at h
  | e :: es, a, 0, _ => TR.refl F G e a
  | e :: es, a, i + 1, h => by simpa using TR.reflL F G es a i (by simpa using h)
end

end OptS
end Pest
