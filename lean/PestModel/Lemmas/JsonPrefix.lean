/-
  Lemmas/JsonPrefix.lean — stage 4 of C17's JSON half (prefix rejection), generic part.

  The input is a *proper prefix* of a rendered document: it ends somewhere inside the text
  the acceptance lemmas (Lemmas/JsonDoc.lean) expect.  `RestAt inp p rem` says that the input
  from `p` on is `rem` *and then ends*; `rem <+: expected` says where it was cut.

    * prefixes of concatenations, literals and whitespace on a truncated input
    * `ItemOut`: the three ways an item (a `value`, or a `pair`) can come out when the input
      may end inside or after it: it fails, it succeeds on a shorter text and is followed by
      junk (a truncated number), or it is complete
    * the loop `("," ~ item)*` and the sequence `open ~ item ~ ("," ~ item)* ~ close` on a
      truncated list of items: the loop stops where neither a comma nor the closing bracket
      can follow, so the sequence fails (`chain_fail`) — for arrays and objects of both
      grammars at once (an item is described by its text only)
    * a small totality calculus (`TotA`) for rules that cannot get stuck in an atomic context:
      used for `number`, whose exact behaviour on a truncated number is irrelevant — it fails
      or it stops somewhere inside the truncated text
-/
import PestModel.Lemmas.JsonDoc

namespace Pest
namespace Json
open L0

variable {g : Grammar} {inp : Input}

/-! ### prefixes -/

theorem prefix_append_cases {α : Type} : ∀ {a p b : List α}, p <+: a ++ b →
    (p <+: a ∧ p.length < a.length) ∨ ∃ p', p = a ++ p' ∧ p' <+: b
  | [], p, b, h => Or.inr ⟨p, rfl, by simpa using h⟩
  | x :: a, [], b, _ => Or.inl ⟨List.nil_prefix, by simp⟩
  | x :: a, y :: p, b, h => by
    have h' : y :: p <+: x :: (a ++ b) := h
    obtain ⟨hxy, hp⟩ := List.cons_prefix_cons.mp h'
    subst hxy
    rcases prefix_append_cases hp with ⟨h1, h2⟩ | ⟨p', h1, h2⟩
    · exact Or.inl ⟨List.cons_prefix_cons.mpr ⟨rfl, h1⟩, by simpa using h2⟩
    · exact Or.inr ⟨p', by simp [h1], h2⟩

/-- a proper prefix of `a ++ [x]` is a prefix of `a` -/
theorem prefix_of_proper_snoc {α : Type} {a p : List α} {x : α} (h : p <+: a ++ [x]) (hne : p ≠ a ++ [x]) :
    p <+: a := by
  rcases prefix_append_cases h with ⟨h1, _⟩ | ⟨p', h1, h2⟩
  · exact h1
  · cases p' with
    | nil => simp [h1]
    | cons y p'' =>
      obtain ⟨hy, hp⟩ := List.cons_prefix_cons.mp h2
      have : p'' = [] := List.prefix_nil.mp hp
      subst this; subst hy
      exact absurd h1 hne

theorem proper_prefix_length {α : Type} {p x : List α} (h : p <+: x) (hne : p ≠ x) : p.length < x.length := by
  have := h.length_le
  by_cases he : p.length = x.length
  · exact absurd (h.eq_of_length he) hne
  · omega

theorem headIs_of_prefix {P : CP → Prop} {p T : Str} (h : p <+: T) (hT : HeadIs P T) : HeadIs P p := by
  cases p with
  | nil => trivial
  | cons c p' =>
    cases T with
    | nil => simp at h
    | cons d T' =>
      obtain ⟨hcd, _⟩ := List.cons_prefix_cons.mp h
      subst hcd; exact hT

theorem headIs_cons_prefix {P : CP → Prop} {p : Str} {c : CP} {T : Str} (h : p <+: c :: T) (hc : P c) :
    HeadIs P p :=
  headIs_of_prefix h hc

theorem wsText_prefix {p : Str} {w : Ws} (h : p <+: wsText w) : ∃ w' : Ws, p = wsText w' ∧ w'.length ≤ w.length := by
  refine ⟨w.take p.length, ?_, by simp; omega⟩
  have := List.prefix_iff_eq_take.mp h
  rw [this]
  simp [wsText, List.map_take]

/-! ### the end of the input -/

theorem ev_any_fail {s : S0} (h : RestAt inp s.pos []) : Ev g inp .anyB s .fail :=
  ev_of_step 0 fun n _ => by
    have hn : ¬ s.pos < inp.size := by
      intro hlt
      have := h.get_nil
      simp [Array.getElem?_eq_getElem hlt] at this
    simp [L0.step, hn]

theorem ev_lit_fail_nil {s : S0} {d : CP} {x : Str} (h : RestAt inp s.pos []) :
    Ev g inp (.str (d :: x)) s .fail :=
  ev_str_fail (startsWithAt_nil_rest h)

/-- a literal whose first character is not what stands in the input (or the input has ended) -/
theorem ev_lit_fail_head {s : S0} {d : CP} {x r : Str} (h : RestAt inp s.pos r) (hh : HeadIs (fun c => c ≠ d) r) :
    Ev g inp (.str (d :: x)) s .fail := by
  cases r with
  | nil => exact ev_lit_fail_nil h
  | cons c r => exact ev_lit_fail h hh

theorem startsWithAt_prefix : ∀ (x : Str) (p : Nat) (rest : Str), startsWithAt inp x p = true →
    RestAt inp p rest → x <+: rest
  | [], _, _, _, _ => List.nil_prefix
  | c :: x, p, rest, h, hr => by
    cases rest with
    | nil => simp [startsWithAt, hr.get_nil] at h
    | cons d rest' =>
      simp only [startsWithAt, hr.get, Bool.and_eq_true, beq_iff_eq] at h
      obtain ⟨h1, h2⟩ := h
      subst h1
      exact List.cons_prefix_cons.mpr ⟨rfl, startsWithAt_prefix x (p + 1) rest' h2 hr.tail⟩

/-- a literal on an input that ends inside it -/
theorem ev_lit_short {s : S0} {x p : Str} (h : RestAt inp s.pos p) (hp : p <+: x) (hne : p ≠ x) :
    Ev g inp (.str x) s .fail := by
  apply ev_str_fail
  cases hb : startsWithAt inp x s.pos with
  | false => rfl
  | true =>
    have h1 := startsWithAt_prefix x s.pos p hb h
    have := proper_prefix_length hp hne
    have := h1.length_le
    omega

/-! ### whitespace on a truncated input -/

/-- implicit whitespace when the input may end inside it: all the whitespace there is gets
    skipped, and what follows is a prefix of what was expected to follow -/
theorem skip_prefix (hg : WsRules g) {s : S0} (hna : s.atomic = false) (w : Ws) {T rem : Str}
    (hT : HeadIs (fun c => ¬ IsWs c) T) (hr : RestAt inp s.pos rem) (hp : rem <+: wsText w ++ T) :
    ∃ k rem', k ≤ w.length ∧ EvSkip g inp s (adv s k) [] ∧ RestAt inp (s.pos + k) rem' ∧ rem' <+: T ∧
      (rem' ≠ [] → k = w.length) ∧ rem.length = k + rem'.length := by
  rcases prefix_append_cases hp with ⟨h1, _⟩ | ⟨rem', h1, h2⟩
  · obtain ⟨w', hw', hlen⟩ := wsText_prefix h1
    subst hw'
    have hsk := evSkip_ws hg hna w' (r := []) (by simpa using hr) trivial
    refine ⟨w'.length, [], hlen, hsk, ?_, List.nil_prefix, fun h => absurd rfl h, by simp⟩
    have := (show RestAt inp s.pos (wsText w' ++ []) by simpa using hr).advance
    simpa using this
  · subst h1
    have hsk := evSkip_ws hg hna w hr (headIs_of_prefix h2 hT)
    refine ⟨w.length, rem', Nat.le_refl _, hsk, ?_, h2, fun _ => rfl, by simp⟩
    simpa using hr.advance

/-! ### what can follow an item, and junk -/

/-- after a truncated number: something that is neither whitespace nor a comma nor a closing
    bracket (or the end of the input) -/
def JunkCh (c : CP) : Prop := ¬ IsWs c ∧ c ≠ 44 ∧ c ≠ 93 ∧ c ≠ 125

def JunkAt (inp : Input) (s : S0) : Prop := ∃ L, RestAt inp s.pos L ∧ HeadIs JunkCh L

/-- after skipping whitespace, the closing bracket `c` does not follow -/
def Blocked (g : Grammar) (inp : Input) (c : CP) (s : S0) : Prop :=
  ∃ s2, EvSkip g inp s s2 [] ∧ Ev g inp (.str [c]) s2 .fail

theorem JunkAt.skip (hg : WsRules g) {s : S0} (hna : s.atomic = false) (h : JunkAt inp s) : EvSkip g inp s s [] := by
  obtain ⟨L, hL, hh⟩ := h
  have := evSkip_ws hg hna [] (r := L) (by simpa [wsText] using hL) (hh.mono fun _ h => h.1)
  simpa [adv_zero] using this

theorem JunkAt.lit_fail {s : S0} (h : JunkAt inp s) {c : CP} (hc : c = 44 ∨ c = 93 ∨ c = 125) :
    Ev g inp (.str [c]) s .fail := by
  obtain ⟨L, hL, hh⟩ := h
  apply ev_lit_fail_head hL
  apply hh.mono
  intro d hd e
  rcases hc with rfl | rfl | rfl
  · exact hd.2.1 e
  · exact hd.2.2.1 e
  · exact hd.2.2.2 e

theorem JunkAt.blocked (hg : WsRules g) {s : S0} (hna : s.atomic = false) (h : JunkAt inp s) {c : CP}
    (hc : c = 93 ∨ c = 125) : Blocked g inp c s :=
  ⟨s, h.skip hg hna, h.lit_fail (by rcases hc with h | h <;> simp [h])⟩

/-! ### items -/

/-- an item of a container, as far as truncation is concerned: whitespace, its text, whitespace -/
abbrev Item := Ws × Str × Ws

/-- the text after an item's own text: its trailing whitespace and, if more items follow, a
    comma and them -/
def tailText (wprev : Ws) : List Item → Str
  | [] => wsText wprev
  | (w1, X, w2) :: rest => wsText wprev ++ 44 :: (wsText w1 ++ (X ++ tailText w2 rest))

/-- **the three outcomes of an item on a possibly truncated input**: `e` (`value` or `pair`) is
    run where the text `X` of the item is expected, followed by `T`; the input ends somewhere
    in `X ++ T`.  It fails; or it succeeds on less than `X` and junk follows (a truncated
    number); or `X` is all there and it is matched exactly. -/
def ItemOut (g : Grammar) (inp : Input) (e : Expr) (X : Str) : Prop :=
  ∀ (s : S0) (rem T : Str), s.atomic = false → HeadIs ValFollow T → RestAt inp s.pos rem → rem <+: X ++ T →
    Ev g inp e s .fail
    ∨ (∃ s2 ps, Ev g inp e s (.ok s2 ps) ∧ s2.atomic = false ∧ JunkAt inp s2)
    ∨ (∃ ps rem', Ev g inp e s (.ok (adv s X.length) ps) ∧ RestAt inp (s.pos + X.length) rem' ∧ rem' <+: T ∧
        rem.length = X.length + rem'.length)

/-- an item whose outcomes are known and whose text starts with something that is not whitespace -/
def GoodItem (g : Grammar) (inp : Input) (e : Expr) (it : Item) : Prop :=
  ItemOut g inp e it.2.1 ∧ ∃ c t, it.2.1 = c :: t ∧ ¬ IsWs c

def commaOf (e : Expr) : Expr := .group (.seq [(.str [44]), e]) none

theorem ev_commaOf_fail_head {e : Expr} {s : S0} {r : Str} (h : RestAt inp s.pos r)
    (hh : HeadIs (fun c => c ≠ 44) r) : Ev g inp (commaOf e) s .fail :=
  ev_group (ev_seq (evSeq_fail (ev_lit_fail_head h hh)))

theorem tailText_head (wprev : Ws) (items : List Item) : HeadIs ValFollow (tailText wprev items) := by
  cases items with
  | nil => exact (wsText_head wprev).mono fun _ h => Or.inl h
  | cons it rest =>
    obtain ⟨w1, X, w2⟩ := it
    exact follow_ws_then (Or.inl rfl)

theorem not_ws_44 : ¬ IsWs 44 := not_ws_struct (Or.inl rfl)

/-- whitespace, then an item, on a truncated input -/
theorem item_step (hg : WsRules g) {e : Expr} {w1 : Ws} {X : Str} {w2 : Ws} (hX : GoodItem g inp e (w1, X, w2))
    {s : S0} (hna : s.atomic = false) {rem T : Str} (hT : HeadIs ValFollow T)
    (hr : RestAt inp s.pos rem) (hp : rem <+: wsText w1 ++ (X ++ T)) :
    ∃ s1, EvSkip g inp s s1 [] ∧ s1.atomic = false ∧
      (Ev g inp e s1 .fail
       ∨ (∃ s2 ps, Ev g inp e s1 (.ok s2 ps) ∧ s2.atomic = false ∧ JunkAt inp s2)
       ∨ (∃ ps rem', Ev g inp e s1 (.ok (adv s1 X.length) ps) ∧ RestAt inp (s1.pos + X.length) rem' ∧ rem' <+: T)) := by
  obtain ⟨hout, c, t, hXc, hcws⟩ := hX
  have hXc' : X = c :: t := hXc
  obtain ⟨k, rem1, _, hsk, hr1, hp1, _, _⟩ :=
    skip_prefix hg hna w1 (T := X ++ T) (by rw [hXc']; exact hcws) hr hp
  refine ⟨adv s k, hsk, by simpa using hna, ?_⟩
  rcases hout (adv s k) rem1 T (by simpa using hna) hT hr1 hp1 with h | h | ⟨ps, rem', h1, h2, h3, _⟩
  · exact Or.inl h
  · exact Or.inr (Or.inl h)
  · exact Or.inr (Or.inr ⟨ps, rem', h1, by simpa using h2, h3⟩)

/-- entering the loop: the whitespace before the comma is skipped unless this is the first
    iteration (where there is none) -/
theorem rep_enter {e : Expr} {first : Bool} {s s' : S0} {k : Nat} {acc ps : List Pair} {res : R0}
    (hk : first = true → k = 0) (hsk : EvSkip g inp s (adv s k) [])
    (hit : Ev g inp e (adv s k) (.ok s' ps)) (hrest : EvRep g inp e false s' (acc ++ ps) res) :
    EvRep g inp e first s acc res := by
  cases first with
  | false => exact evRep_more hsk hit (by simpa using hrest)
  | true =>
    have := hk rfl
    subst this
    exact evRep_first_more (by simpa [adv_zero] using hit) hrest

theorem rep_halt {e : Expr} {first : Bool} {s : S0} {k : Nat} {acc : List Pair}
    (hk : first = true → k = 0) (hsk : EvSkip g inp s (adv s k) [])
    (hfail : Ev g inp e (adv s k) .fail) : EvRep g inp e first s acc (.ok s acc) := by
  cases first with
  | false => exact evRep_stop hsk hfail
  | true =>
    have := hk rfl
    subst this
    exact evRep_first_stop (by simpa [adv_zero] using hfail)

/-- **the loop `("," ~ item)*` on a truncated input.**  Entered at the comma (`first`) or right
    after the previous item (`wprev` before the comma); the input ends somewhere in what is
    expected to follow.  The loop succeeds and stops in a state from which the closing bracket
    `c` does not follow. -/
theorem rep_trunc (hg : WsRules g) (e : Expr) (c : CP) (hc : c = 93 ∨ c = 125) :
    ∀ (items : List Item), (∀ it ∈ items, GoodItem g inp e it) →
      ∀ (first : Bool) (s : S0) (wprev : Ws) (acc : List Pair) (rem : Str),
        s.atomic = false → (first = true → wprev = []) → RestAt inp s.pos rem →
        rem <+: tailText wprev items →
        ∃ s_end ps, EvRep g inp (commaOf e) first s acc (.ok s_end ps) ∧ s_end.atomic = false ∧
          Blocked g inp c s_end := by
  intro items
  induction items with
  | nil =>
    intro _ first s wprev acc rem hna hfirst hr hp
    obtain ⟨k, rem', hk, hsk, hr', hp', _, _⟩ :=
      skip_prefix hg hna wprev (T := []) trivial hr (by simpa [tailText] using hp)
    have hnil : rem' = [] := List.prefix_nil.mp hp'
    subst hnil
    have hfail : Ev g inp (commaOf e) (adv s k) .fail := ev_commaOf_fail_head (r := []) hr' trivial
    have hk0 : first = true → k = 0 := fun hf => by have := hfirst hf; subst this; simpa using hk
    exact ⟨s, acc, rep_halt hk0 hsk hfail, hna, ⟨adv s k, hsk, ev_lit_fail_nil hr'⟩⟩
  | cons it rest ih =>
    intro hitems first s wprev acc rem hna hfirst hr hp
    obtain ⟨w1, X, w2⟩ := it
    have hX : GoodItem g inp e (w1, X, w2) := hitems (w1, X, w2) (by simp)
    have hrest : ∀ it ∈ rest, GoodItem g inp e it := fun it hit => hitems it (by simp [hit])
    obtain ⟨k, rem1, hk, hsk, hr1, hp1, hkfull, _⟩ :=
      skip_prefix hg hna wprev (T := 44 :: (wsText w1 ++ (X ++ tailText w2 rest))) not_ws_44 hr
        (by simpa [tailText] using hp)
    have hk0 : first = true → k = 0 := fun hf => by have := hfirst hf; subst this; simpa using hk
    have c44 : (44 : CP) ≠ c := by rcases hc with h | h <;> subst h <;> decide
    -- when this iteration fails the loop stops in `s`; the bracket does not follow
    have stop_here : Ev g inp (commaOf e) (adv s k) .fail → HeadIs (fun d => d ≠ c) rem1 →
        ∃ s_end ps, EvRep g inp (commaOf e) first s acc (.ok s_end ps) ∧ s_end.atomic = false ∧
          Blocked g inp c s_end := fun hfail hcl =>
      ⟨s, acc, rep_halt hk0 hsk hfail, hna, ⟨adv s k, hsk, ev_lit_fail_head hr1 hcl⟩⟩
    cases rem1 with
    | nil => exact stop_here (ev_commaOf_fail_head (r := []) hr1 trivial) trivial
    | cons d rem2 =>
      obtain ⟨hd, hp2⟩ := List.cons_prefix_cons.mp hp1
      subst hd
      have hcomma := ev_str1_ok (g := g) (s := adv s k) hr1
      obtain ⟨s1, hsk2, hna1, hout⟩ :=
        item_step hg hX (s := adv (adv s k) 1) (by simpa using hna) (tailText_head w2 rest)
          (by simpa using hr1.tail) hp2
      rcases hout with hF | ⟨s2, ps, hS, hna2, hJ⟩ | ⟨ps, rem', hC, hr', hp'⟩
      · exact stop_here (ev_group (ev_seq (evSeq_cons hcomma hsk2 (evSeq_fail hF)))) c44
      · have hit : Ev g inp (commaOf e) (adv s k) (.ok s2 ([] ++ [] ++ [] ++ ps)) :=
          ev_group (ev_seq (evSeq_cons hcomma hsk2 (evSeq_last hS)))
        have hstop : EvRep g inp (commaOf e) false s2 (acc ++ ([] ++ [] ++ [] ++ ps))
            (.ok s2 (acc ++ ([] ++ [] ++ [] ++ ps))) :=
          evRep_stop (hJ.skip hg hna2) (ev_group (ev_seq (evSeq_fail (hJ.lit_fail (Or.inl rfl)))))
        exact ⟨s2, _, rep_enter hk0 hsk hit hstop, hna2, hJ.blocked hg hna2 hc⟩
      · have hit : Ev g inp (commaOf e) (adv s k) (.ok (adv s1 X.length) ([] ++ [] ++ [] ++ ps)) :=
          ev_group (ev_seq (evSeq_cons hcomma hsk2 (evSeq_last hC)))
        obtain ⟨s_end, ps', h1, h2, h3⟩ :=
          ih hrest false (adv s1 X.length) w2 (acc ++ ([] ++ [] ++ [] ++ ps)) rem'
            (by simpa using hna1) (by simp) hr' hp'
        exact ⟨s_end, ps', rep_enter hk0 hsk hit h1, h2, h3⟩

/-- **`open ~ item ~ ("," ~ item)* ~ close` fails when the closing bracket is missing**: the
    input ends somewhere in the items. -/
theorem chain_fail (hg : WsRules g) (e : Expr) (o c : CP) (hc : c = 93 ∨ c = 125)
    (w1 : Ws) (X : Str) (w2 : Ws) (rest : List Item)
    (hitems : ∀ it ∈ (w1, X, w2) :: rest, GoodItem g inp e it)
    {s : S0} (hna : s.atomic = false) {rem : Str} (hr : RestAt inp s.pos (o :: rem))
    (hp : rem <+: wsText w1 ++ (X ++ tailText w2 rest)) :
    Ev g inp (.seq [(.str [o]), e, (.rep (commaOf e)), (.str [c])]) s .fail := by
  have hX : GoodItem g inp e (w1, X, w2) := hitems (w1, X, w2) (by simp)
  have hrest : ∀ it ∈ rest, GoodItem g inp e it := fun it hit => hitems it (by simp [hit])
  have hopen := ev_str1_ok (g := g) hr
  obtain ⟨s1, hsk1, hna1, hout⟩ :=
    item_step hg hX (s := adv s 1) (by simpa using hna) (tailText_head w2 rest) (by simpa using hr.tail) hp
  apply ev_seq
  rcases hout with hF | ⟨s2, ps, hS, hna2, hJ⟩ | ⟨ps, rem', hC, hr', hp'⟩
  · exact evSeq_cons hopen hsk1 (evSeq_fail hF)
  · -- a truncated number: no comma, no bracket
    have hrep : Ev g inp (.rep (commaOf e)) s2 (.ok s2 []) :=
      ev_rep (evRep_first_stop (ev_group (ev_seq (evSeq_fail (hJ.lit_fail (Or.inl rfl))))))
    exact evSeq_cons hopen hsk1 (evSeq_cons hS (hJ.skip hg hna2) (evSeq_cons hrep (hJ.skip hg hna2)
      (evSeq_fail (hJ.lit_fail (by rcases hc with h | h <;> simp [h])))))
  · -- the first item is complete: whitespace, then the loop, then no bracket
    obtain ⟨T', hT', _⟩ : ∃ T', tailText w2 rest = wsText w2 ++ T' ∧ HeadIs (fun c => ¬ IsWs c) T' := by
      cases rest with
      | nil => exact ⟨[], by simp [tailText], trivial⟩
      | cons it rest' =>
        obtain ⟨a, b, d⟩ := it
        exact ⟨_, rfl, not_ws_44⟩
    obtain ⟨k, rem2, _, hsk2, hr2, hp2, _, _⟩ :=
      skip_prefix hg (s := adv s1 X.length) (by simpa using hna1) w2 (T := T') ‹_› hr' (by rw [← hT']; exact hp')
    have hp2' : rem2 <+: tailText [] rest := by
      cases rest with
      | nil =>
        simp [tailText] at hT'; subst hT'
        have : rem2 = [] := List.prefix_nil.mp hp2
        subst this; exact List.nil_prefix
      | cons it rest' =>
        obtain ⟨a, b, d⟩ := it
        simp only [tailText] at hT'
        have : T' = 44 :: (wsText a ++ (b ++ tailText d rest')) := by
          have := List.append_cancel_left hT'
          exact this.symm
        subst this
        simpa [tailText, wsText] using hp2
    obtain ⟨s_end, ps', h1, h2, ⟨s3, hsk3, hcl⟩⟩ :=
      rep_trunc hg e c hc rest hrest true (adv (adv s1 X.length) k) [] [] rem2 (by simpa using hna1)
        (fun _ => rfl) (by simpa using hr2) hp2'
    exact evSeq_cons hopen hsk1 (evSeq_cons hC hsk2 (evSeq_cons (ev_rep h1) hsk3 (evSeq_fail hcl)))

/-- the empty alternative `open ~ close` fails when the bracket is not what follows the
    whitespace (or the input has ended) -/
theorem empty_alt_fail (hg : WsRules g) (o c : CP) (w : Ws) {T : Str} (hT : HeadIs (fun d => ¬ IsWs d ∧ d ≠ c) T)
    {s : S0} (hna : s.atomic = false) {rem : Str} (hr : RestAt inp s.pos (o :: rem))
    (hp : rem <+: wsText w ++ T) : Ev g inp (.seq [(.str [o]), (.str [c])]) s .fail := by
  have hopen := ev_str1_ok (g := g) hr
  obtain ⟨k, rem1, _, hsk, hr1, hp1, _, _⟩ :=
    skip_prefix hg (s := adv s 1) (by simpa using hna) w (T := T) (hT.mono fun _ h => h.1) (by simpa using hr.tail) hp
  exact ev_seq (evSeq_cons hopen hsk (evSeq_fail
    (ev_lit_fail_head hr1 (headIs_of_prefix hp1 (hT.mono fun _ h => h.2)))))

end Json
end Pest
