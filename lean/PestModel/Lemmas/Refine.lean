/-
  Lemmas/Refine.lean — the interpreter mirror L1 refines the specification L0, with equal
  fuel: `Good (L1.run g inp n) (L0.run g inp n)` for every `n`.

  `Rel c r1 r0` relates the L1 result of a call started in `c` with the L0 result of the
  same expression started in `abs0 c`:
    out of fuel ↔ out of fuel;  KeyError ↔ stuck (undefined rule), no other exception;
    success ↔ success with the same position / stack / atomicity and the same pairs up to
    tags, and the frame is intact;
    failure ↔ failure, no pairs, and the frame is intact (so every catcher's `restore`
    gives back exactly the state L0 simply re-uses).
-/
import PestModel.Hyps
import PestModel.Lemmas.Frame

namespace Pest
open DStack

/-! ### tags and visibility -/

theorem eraseTagsL_append (a b : List Pair) : eraseTagsL (a ++ b) = eraseTagsL a ++ eraseTagsL b := by
  induction a with
  | nil => simp [eraseTagsL]
  | cons p ps ih => simp [eraseTagsL, ih]

mutual
theorem visible_erase : ∀ p : Pair, visibleList (eraseTagsL [p]) = eraseTagsL p.visible
  | .mk n m s e ch t => by
    by_cases h : (hasBit m COMPOUND || hasBit m NONATOMIC) = true
    · simp [eraseTagsL, Pair.eraseTags, visibleList, Pair.visible, h]
    · simp only [eraseTagsL, Pair.eraseTags, visibleList, Pair.visible, h, List.append_nil]
      exact visibleList_erase ch
theorem visibleList_erase : ∀ ps : List Pair, visibleList (eraseTagsL ps) = eraseTagsL (visibleList ps)
  | [] => by simp [eraseTagsL, visibleList]
  | p :: ps => by
    have h1 := visible_erase p
    have h2 := visibleList_erase ps
    simp only [eraseTagsL, visibleList, List.append_nil] at h1
    simp only [eraseTagsL, visibleList, eraseTagsL_append, h1, h2]
end

/-! ### the relation -/

def Rel (c : PState) : R1 → R0 → Prop
  | .oof, r0 => r0 = .oof
  | .exc k, r0 => k = .keyError ∧ r0 = .stuck
  | .done true c' ps, r0 => r0 = .ok (abs0 c') (eraseTagsL ps) ∧ Frame c c'
  | .done false c' ps, r0 => r0 = .fail ∧ ps = [] ∧ Frame c c'

/-- for `parse_trivia`, whose Boolean result nobody reads: it always "succeeds" -/
def RelT (c : PState) : R1 → R0 → Prop
  | .oof, r0 => r0 = .oof
  | .exc k, r0 => k = .keyError ∧ r0 = .stuck
  | .done _ c' ps, r0 => r0 = .ok (abs0 c') (eraseTagsL ps) ∧ Frame c c'

structure Good (r1 : Sem1) (r0 : Sem0) : Prop where
  rel : ∀ e c, Pre c → Rel c (r1 e c) (r0 e (abs0 c))
  tot : ∀ e c c' ps, totalBody e = true → r1 e c ≠ .done false c' ps

/-- the fused trivia rule, if there is one, has a body that cannot fail (true of what
    `_optimize_skip_rule` builds: `Repeat(…)` or an `OptimizedChoiceRepeat`) -/
def SkipTotal (g : Grammar) : Prop := ∀ r, g.fusedSkip = some r → totalBody r.body = true

theorem Rel.mono_start {c d : PState} {r1 : R1} {r0 : R0} (f : Frame c d) (h : Rel d r1 r0) :
    Rel c r1 r0 := by
  cases r1 with
  | oof => exact h
  | exc k => exact h
  | done m c' ps =>
    cases m with
    | true => exact ⟨h.1, f.trans h.2⟩
    | false => exact ⟨h.1, h.2.1, f.trans h.2.2⟩

theorem RelT.mono_start {c d : PState} {r1 : R1} {r0 : R0} (f : Frame c d) (h : RelT d r1 r0) :
    RelT c r1 r0 := by
  cases r1 with
  | oof => exact h
  | exc k => exact h
  | done m c' ps => exact ⟨h.1, f.trans h.2⟩

variable (g : Grammar) (inp : Input)

/-! ### terminals that fail through `state.fail` -/

theorem failT_rel {c : PState} (p : Pre c) : Rel c (L1.failT c) .fail := by
  obtain ⟨c', hc⟩ := fail_isSome p.rne none false
  unfold L1.failT
  rw [hc]
  exact ⟨rfl, rfl, (fail_frame p hc).1⟩

/-! ### Rule.parse -/

/-- facts about the state in which a rule body runs -/
structure Entered (name : String) (mod : Nat) (c en : PState) : Prop where
  pre : Pre en
  abs : abs0 en = { abs0 c with atomic := L0.ruleAtomic name mod (abs0 c).atomic }
  ph : en.posHist = c.posHist
  us : en.ustack = c.ustack
  nd : en.negDepth = c.negDepth
  rs : en.rstack = c.rstack.push name
  scope : if L1.ruleScoped name mod then en.adepth.snaps = c.adepth.val :: c.adepth.snaps
          else en.adepth = c.adepth

theorem rule_enter (name : String) (mod : Nat) (c : PState) (p : PreW c) :
    Entered name mod c (L1.ruleEnter name mod { c with rstack := c.rstack.push name }) := by
  have pr : Inv (c.rstack.push name) := inv_push _ _ p.ir
  have an := p.anon
  unfold L1.ruleEnter
  by_cases hA : (hasBit mod ATOMIC || hasBit mod COMPOUND || L1.isTriviaName name) = true
  · simp only [hA, ↓reduceIte]
    refine ⟨⟨p.iu, pr, by simp [push_items], ?_⟩, ?_, rfl, rfl, rfl, rfl, ?_⟩
    · simp [SnapInt.add, SnapInt.snapshot]; omega
    · simp [abs0, L0.ruleAtomic, hA, SnapInt.add, SnapInt.snapshot]; omega
    · simp [L1.ruleScoped, hA, SnapInt.add, SnapInt.snapshot]
  · by_cases hN : hasBit mod NONATOMIC = true
    · simp only [hA, hN, Bool.false_eq_true, ↓reduceIte]
      refine ⟨⟨p.iu, pr, by simp [push_items], ?_⟩, ?_, rfl, rfl, rfl, rfl, ?_⟩
      · simp [SnapInt.zero, SnapInt.snapshot]
      · simp [abs0, L0.ruleAtomic, hA, hN, SnapInt.zero, SnapInt.snapshot]
      · simp [L1.ruleScoped, hN, SnapInt.zero, SnapInt.snapshot]
    · simp only [hA, hN, Bool.false_eq_true, ↓reduceIte]
      refine ⟨⟨p.iu, pr, by simp [push_items], an⟩, ?_, rfl, rfl, rfl, rfl, ?_⟩
      · simp [abs0, L0.ruleAtomic, hA, hN]
      · simp [L1.ruleScoped, hA, hN]

/-- leaving a rule: whatever the body did inside its frame, the rule stack and the atomic
    depth are back, and the result is what L0's `ruleWrap` says -/
theorem rule_exit (name : String) (mod : Nat) (c en c2 : PState) (p : PreW c)
    (he : Entered name mod c en) (fr : Frame en c2) (matched : Bool) (children : List Pair) :
    match L1.ruleExit name mod c.pos matched c2 children with
    | .done m c' ps =>
      m = matched ∧ Frame c c' ∧
      (matched = true →
        L0.ruleWrap name mod (abs0 c) (abs0 c2) (eraseTagsL children) = .ok (abs0 c') (eraseTagsL ps)) ∧
      (matched = false → ps = [])
    | _ => False := by
  unfold L1.ruleExit
  -- the atomic depth after the `with` block
  generalize hc3 : (if L1.ruleScoped name mod then ({ c2 with adepth := c2.adepth.restore } : PState) else c2) = c3
  have h3 : c3.adepth.val = c.adepth.val ∧ c3.adepth.snaps = c.adepth.snaps ∧ c3.pos = c2.pos ∧
      c3.ustack = c2.ustack ∧ c3.rstack = c2.rstack ∧ c3.posHist = c2.posHist ∧
      c3.negDepth = c2.negDepth ∧ c3.tagStack = c2.tagStack := by
    have hs := he.scope
    by_cases hsc : L1.ruleScoped name mod = true
    · simp only [hsc, ↓reduceIte] at hs hc3
      have : c2.adepth.snaps = c.adepth.val :: c.adepth.snaps := by rw [fr.as, hs]
      subst hc3; simp [SnapInt.restore, this]
    · simp only [hsc, Bool.false_eq_true, ↓reduceIte] at hs hc3
      subst hc3
      exact ⟨by rw [fr.av, hs], by rw [fr.as, hs], rfl, rfl, rfl, rfl, rfl, rfl⟩
  obtain ⟨h3v, h3s, h3p, h3u, h3r, h3h, h3n, h3t⟩ := h3
  have hri : c2.rstack.items = name :: c.rstack.items := by
    rw [fr.ri, he.rs]; simp [push_items]
  obtain ⟨rs, hpop, hrsI, hrsS, hrsInv⟩ :
      ∃ rs, c3.rstack.pop = some (name, rs) ∧ rs.items = c.rstack.items ∧
        snapsOf rs = snapsOf c.rstack ∧ Inv rs := by
    rw [h3r]
    cases hp : c2.rstack.pop with
    | none =>
      have := abs_pop c2.rstack fr.ir
      rw [hp] at this
      simp [DStack.abs, RStack.pop, hri] at this
    | some q =>
      obtain ⟨x, rs⟩ := q
      have h1 := snapsOf_pop _ fr.ir x rs hp
      have h2 := abs_pop c2.rstack fr.ir
      rw [hp] at h2
      simp only [Option.map_some, DStack.abs, RStack.pop, hri, Option.some.injEq,
        Prod.mk.injEq] at h2
      refine ⟨rs, by rw [h2.1], by rw [h1.2, hri]; rfl, ?_, inv_pop _ fr.ir x rs hp⟩
      rw [h1.1, fr.rs, he.rs, snapsOf_push _ _ p.ir]
  simp only [hpop]
  have f4 : Frame c ({ c3 with rstack := rs } : PState) :=
    ⟨by simp [h3h, fr.ph, he.ph], by simp [h3u, fr.us, he.us], by simp [hrsS], by simp [h3s],
      by simp [h3v], by simp [hrsI], by simp [h3u]; exact fr.iu,
      by simp; exact hrsInv⟩
  have a4 : abs0 ({ c3 with rstack := rs } : PState) = { abs0 c2 with atomic := (abs0 c).atomic } := by
    simp [abs0, h3p, h3u, h3v]
  cases matched with
  | false => simp [f4]
  | true =>
    simp only [Bool.not_true, Bool.false_eq_true, ↓reduceIte]
    by_cases hS : hasBit mod SILENT = true
    · simp [hS, f4, L0.ruleWrap, a4]
    · simp only [hS, Bool.false_eq_true, ↓reduceIte]
      cases ht : c3.tagStack with
      | nil =>
        simp only []
        refine ⟨trivial, f4.setTag [], ?_, by simp⟩
        intro _
        by_cases hat : hasBit mod ATOMIC = true <;>
          simp [L0.ruleWrap, hS, hat, eraseTagsL, Pair.eraseTags, abs0, h3p, h3u, h3v, visibleList_erase]
      | cons t ts =>
        simp only []
        refine ⟨trivial, f4.setTag ts, ?_, by simp⟩
        intro _
        by_cases hat : hasBit mod ATOMIC = true <;>
          simp [L0.ruleWrap, hS, hat, eraseTagsL, Pair.eraseTags, abs0, h3p, h3u, h3v, visibleList_erase]

theorem ruleParse_relW {r1 : Sem1} {r0 : Sem0} (h : Good r1 r0) (name : String) (mod : Nat)
    (body : Expr) (c : PState) (p : PreW c) :
    Rel c (L1.ruleParse r1 name mod body c) (L0.ruleApply r0 name mod body (abs0 c)) := by
  unfold L1.ruleParse L0.ruleApply
  have he := rule_enter name mod c p
  generalize L1.ruleEnter name mod { c with rstack := c.rstack.push name } = en at he
  have hb := h.rel body en he.pre
  rw [he.abs] at hb
  cases hr : r1 body en with
  | oof => rw [hr] at hb; simp only [Rel] at hb; simp [hb, Rel]
  | exc k => rw [hr] at hb; simp only [Rel] at hb; simp [hb.2, Rel, hb.1]
  | done matched c2 children =>
    rw [hr] at hb
    cases matched with
    | false =>
      simp only [Rel] at hb
      have hx := rule_exit name mod c en c2 p he hb.2.2 false children
      simp only [hb.1]
      revert hx
      cases L1.ruleExit name mod c.pos false c2 children with
      | oof => simp
      | exc k => simp
      | done m c' ps =>
        intro hx
        obtain ⟨hm, hf, _, hps⟩ := hx
        subst hm
        exact ⟨rfl, hps rfl, hf⟩
    | true =>
      simp only [Rel] at hb
      have hx := rule_exit name mod c en c2 p he hb.2 true children
      simp only [hb.1]
      revert hx
      cases L1.ruleExit name mod c.pos true c2 children with
      | oof => simp
      | exc k => simp
      | done m c' ps =>
        intro hx
        obtain ⟨hm, hf, hw, _⟩ := hx
        subst hm
        exact ⟨hw rfl, hf⟩

theorem ruleParse_rel {r1 : Sem1} {r0 : Sem0} (h : Good r1 r0) (name : String) (mod : Nat)
    (body : Expr) (c : PState) (p : Pre c) :
    Rel c (L1.ruleParse r1 name mod body c) (L0.ruleApply r0 name mod body (abs0 c)) :=
  ruleParse_relW h name mod body c p.weak

/-! ### tags -/

theorem withTag_rel (tag : Option String) (c : PState) (p : Pre c) (body : PState → R1) (r0 : R0)
    (hbody : ∀ d, Pre d → abs0 d = abs0 c → Frame c d → Rel d (body d) r0) :
    Rel c (L1.withTag tag c body) r0 := by
  unfold L1.withTag
  cases tag with
  | none => exact hbody c p rfl (Frame.refl p)
  | some t =>
    simp only []
    have fd : Frame c { c with tagStack := t :: c.tagStack } := (Frame.refl p).setTag _
    have hb := hbody { c with tagStack := t :: c.tagStack } (fd.pre p) rfl fd
    revert hb
    cases body { c with tagStack := t :: c.tagStack } with
    | oof => exact id
    | exc k => exact id
    | done m c' ps =>
      intro hb
      cases m with
      | true => exact ⟨by rw [hb.1]; rfl, fd.trans (hb.2.setTag _)⟩
      | false => exact ⟨hb.1, hb.2.1, fd.trans (hb.2.2.setTag _)⟩

theorem callRule_rel {r1 : Sem1} {r0 : Sem0} (h : Good r1 r0) (name : String) (c : PState)
    (p : Pre c) : Rel c (L1.callRule g r1 name c) (L0.callRule g r0 name (abs0 c)) := by
  unfold L1.callRule L0.callRule
  cases g.lookup name with
  | none => exact ⟨rfl, rfl⟩
  | some r => exact ruleParse_rel h r.name r.mod r.body c p

/-! ### implicit trivia -/

/-- how a non-result (out of fuel, undefined rule) shows on both sides -/
def StopRel (r : R1) (r0 : R0) : Prop :=
  (r = .oof ∧ r0 = .oof) ∨ (r = .exc .keyError ∧ r0 = .stuck)

def TryRel (c : PState) : L1.TryR → L0.Try0 → Prop
  | .matched c' ps, t0 => t0 = .matched (abs0 c') (eraseTagsL ps) ∧ Frame c c'
  | .no c1, t0 => t0 = .no ∧ Frame c c1 ∧ abs0 c1 = abs0 c
  | .stop r, t0 => ∃ r0, t0 = .stop r0 ∧ StopRel r r0

theorem tryTrivia_rel {r1 : Sem1} {r0 : Sem0} (h : Good r1 r0) (r : Option Rule) (c : PState)
    (p : Pre c) : TryRel c (L1.tryTrivia r1 r c) (L0.trySkip r0 r (abs0 c)) := by
  unfold L1.tryTrivia L0.trySkip
  cases r with
  | none => exact ⟨rfl, Frame.refl p, rfl⟩
  | some r =>
    simp only []
    have hb := ruleParse_rel h r.name r.mod r.body c.checkpoint (pre_checkpoint p)
    rw [abs0_checkpoint] at hb
    revert hb
    cases L1.ruleParse r1 r.name r.mod r.body c.checkpoint with
    | oof => intro hb; simp only [Rel] at hb; simp [hb, TryRel, StopRel]
    | exc k => intro hb; simp only [Rel] at hb; simp [hb.1, hb.2, TryRel, StopRel]
    | done m c' ps =>
      intro hb
      cases m with
      | true =>
        obtain ⟨h0, f⟩ := hb
        obtain ⟨f', a'⟩ := ok_after f
        simp [h0, TryRel, f', a']
      | false =>
        obtain ⟨h0, _, f⟩ := hb
        obtain ⟨f', a'⟩ := restore_after f
        simp [h0, TryRel, f', a']

theorem triviaLoop_rel {r1 : Sem1} {r0 : Sem0} (h : Good r1 r0) (ws cm : Option Rule) :
    ∀ (k : Nat) (c : PState) (acc : List Pair), Pre c →
      RelT c (L1.triviaLoop r1 ws cm k c acc) (L0.skipLoop r0 ws cm k (abs0 c) (eraseTagsL acc)) := by
  intro k
  induction k with
  | zero => intro c acc _; simp [L1.triviaLoop, L0.skipLoop, RelT]
  | succ k ih =>
    intro c acc p
    simp only [L1.triviaLoop, L0.skipLoop]
    have h1 := tryTrivia_rel h ws c p
    revert h1
    cases L1.tryTrivia r1 ws c with
    | matched c' ps =>
      intro h1
      obtain ⟨e1, f1⟩ := h1
      simp only [e1]
      have := ih c' (acc ++ ps) (f1.pre p)
      rw [eraseTagsL_append] at this
      exact this.mono_start f1
    | stop r =>
      intro h1
      obtain ⟨r0', e1, hs⟩ := h1
      simp only [e1]
      rcases hs with ⟨rfl, rfl⟩ | ⟨rfl, rfl⟩ <;> simp [RelT]
    | no c1 =>
      intro h1
      obtain ⟨e1, f1, a1⟩ := h1
      simp only [e1]
      have h2 := tryTrivia_rel h cm c1 (f1.pre p)
      rw [a1] at h2
      revert h2
      cases L1.tryTrivia r1 cm c1 with
      | matched c' ps =>
        intro h2
        obtain ⟨e2, f2⟩ := h2
        simp only [e2]
        have := ih c' (acc ++ ps) (f2.pre (f1.pre p))
        rw [eraseTagsL_append] at this
        exact this.mono_start (f1.trans f2)
      | stop r =>
        intro h2
        obtain ⟨r0', e2, hs⟩ := h2
        simp only [e2]
        rcases hs with ⟨rfl, rfl⟩ | ⟨rfl, rfl⟩ <;> simp [RelT]
      | no c2 =>
        intro h2
        obtain ⟨e2, f2, a2⟩ := h2
        simp only [e2]
        exact ⟨by rw [a2, a1], f1.trans f2⟩

/-- a rule whose body cannot fail does not fail -/
theorem ruleParse_total {r1 : Sem1} {r0 : Sem0} (h : Good r1 r0) (name : String) (mod : Nat)
    (body : Expr) (c : PState) (p : Pre c) (ht : totalBody body = true) (c' : PState) (ps : List Pair) :
    L1.ruleParse r1 name mod body c ≠ .done false c' ps := by
  unfold L1.ruleParse
  have he := rule_enter name mod c p.weak
  generalize L1.ruleEnter name mod { c with rstack := c.rstack.push name } = en at he
  have hb := h.rel body en he.pre
  cases hr : r1 body en with
  | oof => simp
  | exc k => simp
  | done matched c2 children =>
    cases matched with
    | false => exact absurd hr (h.tot body en c2 children ht)
    | true =>
      rw [hr] at hb
      have hx := rule_exit name mod c en c2 p.weak he hb.2 true children
      simp only []
      revert hx
      cases L1.ruleExit name mod c.pos true c2 children with
      | oof => simp
      | exc k => simp
      | done m c'' ps'' => intro hx; obtain ⟨hm, _⟩ := hx; subst hm; simp

theorem parseTrivia_rel {r1 : Sem1} {r0 : Sem0} (h : Good r1 r0) (hs : SkipTotal g) (k : Nat)
    (c : PState) (p : Pre c) : RelT c (L1.parseTrivia g r1 k c) (L0.skip g r0 k (abs0 c)) := by
  unfold L1.parseTrivia L0.skip
  by_cases ha : c.adepth.val > 0
  · simp [ha, abs0, RelT, Frame.refl p, eraseTagsL]
  · have : (abs0 c).atomic = false := by simp [abs0, ha]
    simp only [ha, ↓reduceIte, this, Bool.false_eq_true]
    cases hsk : g.fusedSkip with
    | some skip =>
      simp only []
      have hb := ruleParse_rel h skip.name skip.mod skip.body c p
      have ht := ruleParse_total h skip.name skip.mod skip.body c p (hs skip hsk)
      revert hb ht
      cases L1.ruleParse r1 skip.name skip.mod skip.body c with
      | oof => intro hb _; exact hb
      | exc k => intro hb _; exact hb
      | done m c' ps =>
        intro hb ht
        cases m with
        | true => exact hb
        | false => exact absurd rfl (ht c' ps)
    | none =>
      simp only []
      by_cases hn : ((g.lookup "WHITESPACE").isNone && (g.lookup "COMMENT").isNone) = true
      · simp [hn, RelT, Frame.refl p, eraseTagsL]
      · simp only [hn, Bool.false_eq_true, ↓reduceIte]
        have pc : Pre { c with suppress := true } := ⟨p.iu, p.ir, p.rne, p.anon⟩
        have fc : Frame c { c with suppress := true } := Frame.of_same p rfl rfl rfl rfl
        have hl := triviaLoop_rel h (g.lookup "WHITESPACE") (g.lookup "COMMENT") k
          { c with suppress := true } [] pc
        have ea : abs0 { c with suppress := true } = abs0 c := rfl
        rw [ea] at hl
        simp only [eraseTagsL] at hl
        revert hl
        cases L1.triviaLoop r1 (g.lookup "WHITESPACE") (g.lookup "COMMENT") k { c with suppress := true } [] with
        | oof => exact id
        | exc k => exact id
        | done m c' ps =>
          intro hl
          exact ⟨by rw [hl.1]; rfl, fc.trans (Frame.trans hl.2 (Frame.of_same (hl.2.pre pc) rfl rfl rfl rfl))⟩

/-! ### Sequence, Choice, Repeat -/

theorem seqParse_rel {r1 : Sem1} {r0 : Sem0} (h : Good r1 r0) (hs : SkipTotal g) (k : Nat) :
    ∀ (es : List Expr) (c : PState) (acc : List Pair), Pre c →
      Rel c (L1.seqParse g r1 k es c acc) (L0.seqL g r0 k es (abs0 c) (eraseTagsL acc)) := by
  intro es
  induction es with
  | nil => intro c acc p; exact ⟨rfl, Frame.refl p⟩
  | cons e rest ih =>
    intro c acc p
    simp only [L1.seqParse, L0.seqL]
    have he := h.rel e c p
    revert he
    cases r1 e c with
    | oof => intro he; simp only [Rel] at he; simp [he, Rel]
    | exc kk => intro he; simp only [Rel] at he; simp [he.1, he.2, Rel]
    | done m c1 ps =>
      intro he
      cases m with
      | false => obtain ⟨h0, _, f⟩ := he; simp [h0, Rel, f]
      | true =>
        obtain ⟨h0, f⟩ := he
        simp only [h0]
        by_cases hr : rest.isEmpty = true
        · simp [hr, Rel, f, eraseTagsL_append]
        · simp only [hr, Bool.false_eq_true, ↓reduceIte]
          have ht := parseTrivia_rel g h hs k c1 (f.pre p)
          revert ht
          cases L1.parseTrivia g r1 k c1 with
          | oof => intro ht; simp only [RelT] at ht; simp [ht, Rel]
          | exc kk => intro ht; simp only [RelT] at ht; simp [ht.1, ht.2, Rel]
          | done m2 c2 tps =>
            intro ht
            obtain ⟨t0, f2⟩ := ht
            simp only [t0]
            have := ih c2 (acc ++ ps ++ tps) (f2.pre (f.pre p))
            rw [eraseTagsL_append, eraseTagsL_append] at this
            exact this.mono_start (f.trans f2)

theorem choiceParse_rel {r1 : Sem1} {r0 : Sem0} (h : Good r1 r0) :
    ∀ (es : List Expr) (c : PState), Pre c →
      Rel c (L1.choiceParse r1 es c) (L0.choiceL r0 es (abs0 c)) := by
  intro es
  induction es with
  | nil => intro c p; exact ⟨rfl, rfl, Frame.refl p⟩
  | cons e rest ih =>
    intro c p
    simp only [L1.choiceParse, L0.choiceL]
    have he := h.rel e c.checkpoint (pre_checkpoint p)
    rw [abs0_checkpoint] at he
    revert he
    cases r1 e c.checkpoint with
    | oof => intro he; simp only [Rel] at he; simp [he, Rel]
    | exc kk => intro he; simp only [Rel] at he; simp [he.1, he.2, Rel]
    | done m c1 ps =>
      intro he
      cases m with
      | true =>
        obtain ⟨h0, f⟩ := he
        obtain ⟨f', a'⟩ := ok_after f
        simp [h0, Rel, f', a']
      | false =>
        obtain ⟨h0, _, f⟩ := he
        obtain ⟨f', a'⟩ := restore_after f
        simp only [h0]
        have := ih c1.restore (f'.pre p)
        rw [a'] at this
        exact this.mono_start f'

theorem repLoop_rel {r1 : Sem1} {r0 : Sem0} (h : Good r1 r0) (hs : SkipTotal g) (e : Expr) (kk : Nat) :
    ∀ (k : Nat) (first : Bool) (c : PState) (acc : List Pair), Pre c →
      Rel c (L1.repLoop g r1 e k kk first c acc) (L0.repLoop g r0 e k kk first (abs0 c) (eraseTagsL acc)) ∧
      ∀ c' ps, L1.repLoop g r1 e k kk first c acc ≠ .done false c' ps := by
  intro k
  induction k with
  | zero => intro first c acc _; simp [L1.repLoop, L0.repLoop, Rel]
  | succ k ih =>
    intro first c acc p
    simp only [L1.repLoop, L0.repLoop]
    have pc := pre_checkpoint p
    -- state after the optional trivia
    have hT : RelT c.checkpoint
        (if first = true then R1.done true c.checkpoint [] else L1.parseTrivia g r1 kk c.checkpoint)
        (if first = true then R0.ok (abs0 c) [] else L0.skip g r0 kk (abs0 c)) := by
      by_cases hf : first = true
      · simp [hf, RelT, Frame.refl pc, abs0_checkpoint, eraseTagsL]
      · simp only [hf, Bool.false_eq_true, ↓reduceIte]
        have := parseTrivia_rel g h hs kk c.checkpoint pc
        rwa [abs0_checkpoint] at this
    revert hT
    cases (if first = true then R1.done true c.checkpoint [] else L1.parseTrivia g r1 kk c.checkpoint) with
    | oof => intro hT; simp only [RelT] at hT; simp [hT, Rel]
    | exc kx => intro hT; simp only [RelT] at hT; simp [hT.1, hT.2, Rel]
    | done m c1 tps =>
      intro hT
      obtain ⟨t0, f1⟩ := hT
      simp only [t0]
      have he := h.rel e c1 (f1.pre pc)
      revert he
      cases r1 e c1 with
      | oof => intro he; simp only [Rel] at he; simp [he, Rel]
      | exc kx => intro he; simp only [Rel] at he; simp [he.1, he.2, Rel]
      | done m2 c2 ps =>
        intro he
        cases m2 with
        | true =>
          obtain ⟨h0, f2⟩ := he
          obtain ⟨f', a'⟩ := ok_after (f1.trans f2)
          simp only [h0]
          have := ih false c2.ok (acc ++ tps ++ ps) (f'.pre p)
          rw [a', eraseTagsL_append, eraseTagsL_append] at this
          exact ⟨this.1.mono_start f', this.2⟩
        | false =>
          obtain ⟨h0, _, f2⟩ := he
          obtain ⟨f', a'⟩ := restore_after (f1.trans f2)
          simp only [h0]
          exact ⟨⟨by rw [a'], f'⟩, by simp⟩

theorem repLoop_never_false (r1 : Sem1) (e : Expr) (kk : Nat) :
    ∀ (k : Nat) (first : Bool) (c : PState) (acc : List Pair) (c' : PState) (ps : List Pair),
      L1.repLoop g r1 e k kk first c acc ≠ .done false c' ps := by
  intro k
  induction k with
  | zero => intro first c acc c' ps; simp [L1.repLoop]
  | succ k ih =>
    intro first c acc c' ps
    simp only [L1.repLoop]
    cases (if first = true then R1.done true c.checkpoint [] else L1.parseTrivia g r1 kk c.checkpoint) with
    | oof => simp
    | exc kx => simp
    | done m c1 tps =>
      simp only []
      cases r1 e c1 with
      | oof => simp
      | exc kx => simp
      | done m2 c2 ps2 =>
        cases m2 with
        | true => exact ih false c2.ok _ c' ps
        | false => simp

/-! ### POP_ALL -/

theorem pop_none_items {α} {d : DStack α} (h : d.pop = none) : d.items = [] := by
  rcases d with ⟨items, popped, lengths⟩
  cases items with
  | nil => rfl
  | cons y rest =>
    cases lengths with
    | nil => simp [DStack.pop] at h
    | cons q ls => obtain ⟨ic, rc⟩ := q; by_cases hq : rest.length + 1 = rc <;> simp [DStack.pop, hq] at h

theorem pop_some_items {α} {d d' : DStack α} {x : α} (h : d.pop = some (x, d')) :
    d.items = x :: d'.items := by
  rcases d with ⟨items, popped, lengths⟩
  cases items with
  | nil => simp [DStack.pop] at h
  | cons y rest =>
    cases lengths with
    | nil =>
      simp only [DStack.pop, Option.some.injEq, Prod.mk.injEq] at h
      obtain ⟨rfl, rfl⟩ := h; rfl
    | cons q ls =>
      obtain ⟨ic, rc⟩ := q
      by_cases hq : rest.length + 1 = rc
      · simp only [DStack.pop, List.length_cons, hq, ↓reduceIte, Option.some.injEq, Prod.mk.injEq] at h
        obtain ⟨rfl, rfl⟩ := h; rfl
      · simp only [DStack.pop, List.length_cons, hq, ↓reduceIte, Option.some.injEq, Prod.mk.injEq] at h
        obtain ⟨rfl, rfl⟩ := h; rfl

theorem popAllLoop_rel (c : PState) (p : Pre c) :
    ∀ (k : Nat) (d : PState) (pos : Nat), Frame c.checkpoint d → d.ustack.items.length < k →
      match L1.popAllLoop inp k d pos with
      | .done true c' ps =>
        L1.matchAll inp d.ustack.items pos = some c'.pos ∧ c'.ustack.items = [] ∧ ps = [] ∧ Frame c c'
      | .done false c' ps =>
        L1.matchAll inp d.ustack.items pos = none ∧ ps = [] ∧ Frame c c' ∧ abs0 c' = abs0 c
      | _ => False := by
  intro k
  induction k with
  | zero => intro d pos _ hl; omega
  | succ k ih =>
    intro d pos f hl
    simp only [L1.popAllLoop]
    cases hp : d.ustack.pop with
    | none =>
      have hi := pop_none_items hp
      obtain ⟨f', _⟩ := ok_after f
      have f2 : Frame c { d.ok with pos := pos } := f'.trans (Frame.of_same (f'.pre p) rfl rfl rfl rfl)
      have hu : ({ d.ok with pos := pos } : PState).ustack.items = [] := by
        simp [PState.ok, dropSnap_items, hi]
      simp only [hi, L1.matchAll]
      exact ⟨trivial, hu, trivial, f2⟩
    | some q =>
      obtain ⟨lit, us⟩ := q
      simp only []
      obtain ⟨s1, _⟩ := snapsOf_pop _ f.iu lit us hp
      have hitems : d.ustack.items = lit :: us.items := pop_some_items hp
      have f1 : Frame c.checkpoint { d with ustack := us } :=
        ⟨f.ph, by simp [s1, f.us], f.rs, f.as, f.av, f.ri, inv_pop _ f.iu lit us hp, f.ir⟩
      by_cases hm : startsWithAt inp lit pos = true
      · simp only [hm, ↓reduceIte]
        have hl' : ({ d with ustack := us } : PState).ustack.items.length < k := by
          simp only; rw [hitems] at hl; simp at hl; omega
        have := ih { d with ustack := us } (pos + lit.length) f1 hl'
        simp only [hitems, L1.matchAll, hm, ↓reduceIte]
        exact this
      · simp only [hm, Bool.false_eq_true, ↓reduceIte]
        obtain ⟨f', a'⟩ := restore_after f1
        obtain ⟨c3, h3⟩ := fail_isSome (f'.pre p).rne none false
        obtain ⟨f3, a3⟩ := fail_frame (f'.pre p) h3
        simp only [L1.failT, h3, hitems, L1.matchAll, hm, Bool.false_eq_true, ↓reduceIte]
        exact ⟨trivial, trivial, f'.trans f3, by rw [a3, a']⟩

/-! ### one node -/

theorem step_good {r1 : Sem1} {r0 : Sem0} (hs : SkipTotal g) (k : Nat) (h : Good r1 r0) :
    Good (L1.step g inp k r1) (L0.step g inp k r0) := by
  constructor
  · intro e c p
    cases e with
    | str s =>
      simp only [L1.step, L0.step]
      by_cases hm : startsWithAt inp s c.pos = true
      · simp only [hm, ↓reduceIte, abs0]
        exact ⟨by simp [abs0, L0.adv, eraseTagsL], Frame.of_same p rfl rfl rfl rfl⟩
      · simp only [hm, Bool.false_eq_true, ↓reduceIte, abs0]; exact failT_rel p
    | ci s =>
      simp only [L1.step, L0.step]
      by_cases hm : startsWithAtCI inp s c.pos = true
      · simp only [hm, ↓reduceIte, abs0]
        exact ⟨by simp [abs0, L0.adv, eraseTagsL], Frame.of_same p rfl rfl rfl rfl⟩
      · simp only [hm, Bool.false_eq_true, ↓reduceIte, abs0]; exact failT_rel p
    | range a b =>
      simp only [L1.step, L0.step, abs0]
      cases inp[c.pos]? with
      | none => exact failT_rel p
      | some x =>
        simp only [L1.inRange]
        by_cases hm : (decide (a ≤ x) && decide (x ≤ b)) = true
        · simp only [hm, ↓reduceIte]
          exact ⟨by simp [abs0, L0.adv, eraseTagsL], Frame.of_same p rfl rfl rfl rfl⟩
        · simp only [hm, Bool.false_eq_true, ↓reduceIte]; exact failT_rel p
    | ident name tag =>
      simp only [L1.step, L0.step]
      apply withTag_rel tag c p
      intro d pd ad fd
      rw [← ad]
      exact callRule_rel g h name d pd
    | rule name mod sm body => exact ruleParse_rel h name mod body c p
    | seq es => exact seqParse_rel g h hs k es c [] p
    | choice es => exact choiceParse_rel h es c p
    | opt e =>
      simp only [L1.step, L0.step]
      have he := h.rel e c.checkpoint (pre_checkpoint p)
      rw [abs0_checkpoint] at he
      revert he
      cases r1 e c.checkpoint with
      | oof => intro he; simp only [Rel] at he; simp [he, Rel]
      | exc kk => intro he; simp only [Rel] at he; simp [he.1, he.2, Rel]
      | done m c1 ps =>
        intro he
        cases m with
        | true =>
          obtain ⟨h0, f⟩ := he
          obtain ⟨f', a'⟩ := ok_after f
          simp [h0, Rel, f', a']
        | false =>
          obtain ⟨h0, _, f⟩ := he
          obtain ⟨f', a'⟩ := restore_after f
          simp [h0, Rel, f', a', eraseTagsL]
    | rep e => exact (repLoop_rel g h hs e k k true c [] p).1
    | rep1 e => exact seqParse_rel g h hs k _ c [] p
    | repExact e n => exact seqParse_rel g h hs k _ c [] p
    | repMin e n => exact seqParse_rel g h hs k _ c [] p
    | repMax e n => exact seqParse_rel g h hs k _ c [] p
    | repMinMax e m n => exact seqParse_rel g h hs k _ c [] p
    | andP e =>
      simp only [L1.step, L0.step]
      have he := h.rel e c.checkpoint (pre_checkpoint p)
      rw [abs0_checkpoint] at he
      revert he
      cases r1 e c.checkpoint with
      | oof => intro he; simp only [Rel] at he; simp [he, Rel]
      | exc kk => intro he; simp only [Rel] at he; simp [he.1, he.2, Rel]
      | done m c1 ps =>
        intro he
        cases m with
        | true =>
          obtain ⟨h0, f⟩ := he
          obtain ⟨f', a'⟩ := restore_after f
          simp [h0, Rel, f', a', eraseTagsL]
        | false =>
          obtain ⟨h0, _, f⟩ := he
          obtain ⟨f', a'⟩ := restore_after f
          simp [h0, Rel, f']
    | notP e =>
      simp only [L1.step, L0.step]
      have pc := pre_checkpoint p
      have pn : Pre { c.checkpoint with negDepth := c.checkpoint.negDepth + 1 } :=
        ⟨pc.iu, pc.ir, pc.rne, pc.anon⟩
      have he := h.rel e _ pn
      have ea : abs0 { c.checkpoint with negDepth := c.checkpoint.negDepth + 1 } = abs0 c := rfl
      rw [ea] at he
      revert he
      cases r1 e { c.checkpoint with negDepth := c.checkpoint.negDepth + 1 } with
      | oof => intro he; simp only [Rel] at he; simp [he, Rel]
      | exc kk => intro he; simp only [Rel] at he; simp [he.1, he.2, Rel]
      | done m c1 ps =>
        intro he
        have fr : Frame c.checkpoint c1 := by
          have f0 : Frame c.checkpoint { c.checkpoint with negDepth := c.checkpoint.negDepth + 1 } :=
            ⟨rfl, rfl, rfl, rfl, rfl, rfl, pc.iu, pc.ir⟩
          cases m with
          | true => exact f0.trans he.2
          | false => exact f0.trans he.2.2
        obtain ⟨f', a'⟩ := restore_after fr
        cases m with
        | false =>
          simp only [Bool.false_eq_true, ↓reduceIte, he.1]
          exact ⟨by rw [← a']; simp [abs0, eraseTagsL], f'.trans (Frame.of_same (f'.pre p) rfl rfl rfl rfl)⟩
        | true =>
          simp only [↓reduceIte, he.1]
          have hall : ∀ fn, ∃ c3, c1.restore.fail fn true = some c3 :=
            fun fn => fail_isSome (f'.pre p).rne fn true
          split
          · rename_i c3 h3
            obtain ⟨f3, _⟩ := fail_frame (f'.pre p) h3
            exact ⟨rfl, rfl, f'.trans (f3.trans (Frame.of_same (f3.pre (f'.pre p)) rfl rfl rfl rfl))⟩
          · rename_i h3
            obtain ⟨c3, h'⟩ := hall _
            rw [h'] at h3
            cases h3
    | group e tag =>
      simp only [L1.step, L0.step]
      apply withTag_rel tag c p
      intro d pd ad fd
      rw [← ad]
      exact h.rel e d pd
    | push e =>
      simp only [L1.step, L0.step]
      have he := h.rel e c p
      revert he
      cases r1 e c with
      | oof => intro he; simp only [Rel] at he; simp [he, Rel]
      | exc kk => intro he; simp only [Rel] at he; simp [he.1, he.2, Rel]
      | done m c1 ps =>
        intro he
        cases m with
        | false => obtain ⟨h0, _, f⟩ := he; simp [h0, Rel, f]
        | true =>
          obtain ⟨h0, f⟩ := he
          simp only [h0]
          refine ⟨by simp [abs0, push_items], ?_⟩
          exact ⟨f.ph, by simp [snapsOf_push _ _ f.iu, f.us], f.rs, f.as, f.av, f.ri,
            inv_push _ _ f.iu, f.ir⟩
    | pushLit s =>
      simp only [L1.step, L0.step]
      refine ⟨by simp [abs0, push_items, eraseTagsL], ?_⟩
      exact ⟨rfl, by simp [snapsOf_push _ _ p.iu], rfl, rfl, rfl, rfl, inv_push _ _ p.iu, p.ir⟩
    | peekSlice a b =>
      simp only [L1.step, L0.step, L0.matchLits, abs0]
      cases L1.matchAll inp (pySlice c.ustack.items.reverse a b) c.pos with
      | none => exact failT_rel p
      | some q => exact ⟨by simp [abs0, eraseTagsL], Frame.of_same p rfl rfl rfl rfl⟩
    | peek =>
      simp only [L1.step, L0.step, DStack.peek, abs0]
      cases hi : c.ustack.items with
      | nil => exact ⟨rfl, rfl, Frame.refl p⟩
      | cons v rest =>
        simp only [List.head?_cons]
        by_cases hm : startsWithAt inp v c.pos = true
        · simp only [hm, ↓reduceIte]
          exact ⟨by simp [abs0, L0.adv, hi, eraseTagsL], Frame.of_same p rfl rfl rfl rfl⟩
        · simp only [hm, Bool.false_eq_true, ↓reduceIte]; exact failT_rel p
    | peekAll =>
      simp only [L1.step, L0.step, L0.matchLits, abs0]
      cases L1.matchAll inp c.ustack.items c.pos with
      | none => exact failT_rel p
      | some q => exact ⟨by simp [abs0, eraseTagsL], Frame.of_same p rfl rfl rfl rfl⟩
    | pop =>
      simp only [L1.step, L0.step, DStack.peek, abs0]
      cases hi : c.ustack.items with
      | nil => exact ⟨rfl, rfl, Frame.refl p⟩
      | cons v rest =>
        simp only [List.head?_cons]
        by_cases hm : startsWithAt inp v c.pos = true
        · simp only [hm, ↓reduceIte]
          cases hp : c.ustack.pop with
          | none => have := pop_none_items hp; rw [hi] at this; cases this
          | some q =>
            obtain ⟨x, us⟩ := q
            have h1 := pop_some_items hp
            rw [hi] at h1
            simp only [List.cons.injEq] at h1
            obtain ⟨s1, _⟩ := snapsOf_pop _ p.iu x us hp
            simp only []
            refine ⟨by simp [abs0, L0.adv, h1.2, eraseTagsL], ?_⟩
            exact ⟨rfl, by simp [s1], rfl, rfl, rfl, rfl, inv_pop _ p.iu x us hp, p.ir⟩
        · simp only [hm, Bool.false_eq_true, ↓reduceIte]; exact failT_rel p
    | popAll =>
      simp only [L1.step, L0.step, L0.matchLits, abs0]
      have := popAllLoop_rel inp c p (c.ustack.items.length + 1) c.checkpoint c.pos
        (Frame.refl (pre_checkpoint p)) (by simp [PState.checkpoint, snapshot_items])
      revert this
      have hci : c.checkpoint.ustack.items = c.ustack.items := rfl
      rw [hci]
      cases L1.popAllLoop inp (c.ustack.items.length + 1) c.checkpoint c.pos with
      | oof => simp
      | exc kx => simp
      | done m c' ps =>
        intro hx
        cases m with
        | true =>
          obtain ⟨hm, hu, hps, f⟩ := hx
          simp only [hm]
          exact ⟨by simp [abs0, hu, hps, eraseTagsL, f.av], f⟩
        | false =>
          obtain ⟨hm, hps, f, _⟩ := hx
          simp only [hm]
          exact ⟨rfl, hps, f⟩
    | drop =>
      simp only [L1.step, L0.step, abs0]
      cases hp : c.ustack.pop with
      | none =>
        have := pop_none_items hp
        simp only [this]
        exact failT_rel p
      | some q =>
        obtain ⟨x, us⟩ := q
        have h1 := pop_some_items hp
        obtain ⟨s1, _⟩ := snapsOf_pop _ p.iu x us hp
        simp only [h1]
        refine ⟨by simp [abs0, eraseTagsL], ?_⟩
        exact ⟨rfl, by simp [s1], rfl, rfl, rfl, rfl, inv_pop _ p.iu x us hp, p.ir⟩
    | anyB =>
      simp only [L1.step, L0.step, abs0]
      by_cases hm : c.pos < inp.size
      · simp only [hm, ↓reduceIte]
        exact ⟨by simp [abs0, L0.adv, eraseTagsL], Frame.of_same p rfl rfl rfl rfl⟩
      · simp only [hm, ↓reduceIte]; exact ⟨rfl, rfl, Frame.refl p⟩
    | soiB =>
      simp only [L1.step, L0.step, abs0]
      by_cases hm : (c.pos == 0) = true
      · simp only [hm, ↓reduceIte]; exact ⟨by simp [abs0, eraseTagsL], Frame.refl p⟩
      · simp only [hm, Bool.false_eq_true, ↓reduceIte]; exact ⟨rfl, rfl, Frame.refl p⟩
    | eoiB =>
      simp only [L1.step, L0.step, abs0]
      by_cases hm : (c.pos == inp.size) = true
      · simp only [hm, ↓reduceIte]; exact ⟨by simp [abs0, eraseTagsL], Frame.refl p⟩
      · simp only [hm, Bool.false_eq_true, ↓reduceIte]; exact ⟨rfl, rfl, Frame.refl p⟩
    | uprop n =>
      simp only [L1.step, L0.step, abs0]
      cases inp[c.pos]? with
      | none => exact ⟨rfl, rfl, Frame.refl p⟩
      | some x =>
        by_cases hm : g.uprop n x = true
        · simp only [hm, ↓reduceIte]
          exact ⟨by simp [abs0, L0.adv, eraseTagsL], Frame.of_same p rfl rfl rfl rfl⟩
        · simp only [hm, Bool.false_eq_true, ↓reduceIte]; exact ⟨rfl, rfl, Frame.refl p⟩
    | skipUntil subs =>
      simp only [L1.step, L0.step, abs0]
      exact ⟨by simp [abs0, eraseTagsL], Frame.of_same p rfl rfl rfl rfl⟩
    | optChoice alts star =>
      simp only [L1.step, L0.step, abs0]
      cases L1.optMatch g inp alts star c.pos with
      | none => exact ⟨rfl, rfl, Frame.refl p⟩
      | some q => exact ⟨by simp [abs0, eraseTagsL], Frame.of_same p rfl rfl rfl rfl⟩
  · -- total bodies cannot fail
    intro e c c' ps ht
    cases e with
    | rep e =>
      simp only [L1.step]
      exact repLoop_never_false g r1 e k k true c [] c' ps
    | optChoice alts star =>
      cases star with
      | false => simp [totalBody] at ht
      | true =>
        simp only [L1.step, L1.optMatch]
        by_cases hemp : alts.isEmpty = true <;> simp [hemp]
    | skipUntil subs => simp [L1.step]
    | _ => simp [totalBody] at ht

/-! ### all fuel -/

theorem run_good (hs : SkipTotal g) : ∀ n, Good (L1.run g inp n) (L0.run g inp n) := by
  intro n
  induction n with
  | zero => exact ⟨fun _ _ _ => rfl, fun _ _ _ _ _ => by simp [L1.run]⟩
  | succ n ih => exact step_good g inp hs n ih

end Pest
