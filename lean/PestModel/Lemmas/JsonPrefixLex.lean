/-
  Lemmas/JsonPrefixLex.lean — stage 4 of C17's JSON half, the tokens on a truncated input.

    * `TotA` / `TotP`: a small totality calculus for expressions in an atomic context — the
      expression fails or succeeds consuming `k` characters that are there.  `number` of either
      grammar is such an expression; on a truncated number it therefore fails or stops
      somewhere inside the truncated text, and what is left consists of number characters
      (`num_trunc`): neither whitespace nor a comma nor a closing bracket can follow.
    * `string` of either grammar fails on a proper prefix of a string (`ex_string_trunc`,
      `t_string_trunc`): the character loop stops at the end of the input or at the backslash
      of an incomplete escape, where no closing quote stands.
-/
import PestModel.Lemmas.JsonPrefix

namespace Pest
namespace Json
open L0

variable {g : Grammar} {inp : Input}

/-! ### totality in an atomic context -/

/-- failure, or success on `k` characters that are there -/
def Nice (inp : Input) (s : S0) (r : R0) : Prop :=
  r = .fail ∨ ∃ k ps, r = .ok (adv s k) ps ∧ s.pos + k ≤ inp.size

/-- … on at least one character -/
def NiceP (inp : Input) (s : S0) (r : R0) : Prop :=
  r = .fail ∨ ∃ k ps, r = .ok (adv s k) ps ∧ 0 < k ∧ s.pos + k ≤ inp.size

def TotA (g : Grammar) (inp : Input) (e : Expr) : Prop :=
  ∀ s : S0, s.atomic = true → s.pos ≤ inp.size → ∃ r, Ev g inp e s r ∧ Nice inp s r

def TotP (g : Grammar) (inp : Input) (e : Expr) : Prop :=
  ∀ s : S0, s.atomic = true → s.pos ≤ inp.size → ∃ r, Ev g inp e s r ∧ NiceP inp s r

theorem NiceP.nice {s : S0} {r : R0} (h : NiceP inp s r) : Nice inp s r := by
  rcases h with h | ⟨k, ps, h1, _, h3⟩
  · exact Or.inl h
  · exact Or.inr ⟨k, ps, h1, h3⟩

theorem TotP.totA {e : Expr} (h : TotP g inp e) : TotA g inp e := fun s ha hs => by
  obtain ⟨r, h1, h2⟩ := h s ha hs
  exact ⟨r, h1, h2.nice⟩

theorem startsWithAt_size : ∀ (x : Str) (p : Nat), startsWithAt inp x p = true → p + x.length ≤ inp.size
  | [], p, h => by simpa [startsWithAt] using h
  | c :: x, p, h => by
    simp only [startsWithAt, Bool.and_eq_true] at h
    have := startsWithAt_size x (p + 1) h.2
    simp only [List.length_cons]; omega

theorem startsWithAtCI_size : ∀ (x : Str) (p : Nat), startsWithAtCI inp x p = true → p + x.length ≤ inp.size
  | [], p, h => by simpa [startsWithAtCI] using h
  | c :: x, p, h => by
    simp only [startsWithAtCI, Bool.and_eq_true] at h
    have := startsWithAtCI_size x (p + 1) h.2
    simp only [List.length_cons]; omega

theorem totP_str (c : CP) (x : Str) : TotP g inp (.str (c :: x)) := fun s _ _ => by
  cases hb : startsWithAt inp (c :: x) s.pos with
  | false => exact ⟨.fail, ev_str_fail hb, Or.inl rfl⟩
  | true =>
    exact ⟨_, ev_str_ok hb, Or.inr ⟨_, _, rfl, by simp, startsWithAt_size _ _ hb⟩⟩

theorem totP_ci (c : CP) (x : Str) : TotP g inp (.ci (c :: x)) := fun s _ _ => by
  cases hb : startsWithAtCI inp (c :: x) s.pos with
  | false => exact ⟨.fail, ev_ci_fail hb, Or.inl rfl⟩
  | true =>
    exact ⟨_, ev_ci_ok hb, Or.inr ⟨_, _, rfl, by simp, startsWithAtCI_size _ _ hb⟩⟩

/-- a silent built-in rule around a one-character range -/
theorem totP_range_rule (name : String) (hn : L1.isTriviaName name = false) (a b : CP) :
    TotP g inp (.rule name 2 true (.range a b)) := fun s _ _ => by
  cases hr : inp.toList.drop s.pos with
  | nil => exact ⟨.fail, ev_silent_range_fail (r := []) hr trivial, Or.inl rfl⟩
  | cons c r =>
    have hr' : RestAt inp s.pos (c :: r) := hr
    by_cases hc : a ≤ c ∧ c ≤ b
    · exact ⟨_, ev_silent_range_ok hn hr' hc, Or.inr ⟨1, [], rfl, by decide, hr'.lt⟩⟩
    · exact ⟨.fail, ev_silent_range_fail hr' hc, Or.inl rfl⟩

theorem totA_group {e : Expr} {t : Option String} (h : TotA g inp e) : TotA g inp (.group e t) :=
  fun s ha hs => by
    obtain ⟨r, h1, h2⟩ := h s ha hs
    exact ⟨r, ev_group h1, h2⟩

theorem totP_group {e : Expr} {t : Option String} (h : TotP g inp e) : TotP g inp (.group e t) :=
  fun s ha hs => by
    obtain ⟨r, h1, h2⟩ := h s ha hs
    exact ⟨r, ev_group h1, h2⟩

theorem totA_opt {e : Expr} (h : TotA g inp e) : TotA g inp (.opt e) := fun s ha hs => by
  obtain ⟨r, h1, h2⟩ := h s ha hs
  rcases h2 with rfl | ⟨k, ps, rfl, hk⟩
  · exact ⟨_, ev_opt_none h1, Or.inr ⟨0, [], by simp [adv_zero], by simpa using hs⟩⟩
  · exact ⟨_, ev_opt_ok h1, Or.inr ⟨k, ps, rfl, hk⟩⟩

theorem totA_choice : ∀ es : List Expr, (∀ e ∈ es, TotA g inp e) → TotA g inp (.choice es)
  | [], _ => fun s _ _ => ⟨.fail, ev_choice_nil, Or.inl rfl⟩
  | e :: es, h => fun s ha hs => by
    obtain ⟨r, h1, h2⟩ := h e (by simp) s ha hs
    rcases h2 with rfl | ⟨k, ps, rfl, hk⟩
    · obtain ⟨r', h1', h2'⟩ := totA_choice es (fun e' he' => h e' (by simp [he'])) s ha hs
      exact ⟨r', ev_choice_next h1 h1', h2'⟩
    · exact ⟨_, ev_choice_ok h1, Or.inr ⟨k, ps, rfl, hk⟩⟩

theorem totP_choice : ∀ es : List Expr, (∀ e ∈ es, TotP g inp e) → TotP g inp (.choice es)
  | [], _ => fun s _ _ => ⟨.fail, ev_choice_nil, Or.inl rfl⟩
  | e :: es, h => fun s ha hs => by
    obtain ⟨r, h1, h2⟩ := h e (by simp) s ha hs
    rcases h2 with rfl | ⟨k, ps, rfl, hk⟩
    · obtain ⟨r', h1', h2'⟩ := totP_choice es (fun e' he' => h e' (by simp [he'])) s ha hs
      exact ⟨r', ev_choice_next h1 h1', h2'⟩
    · exact ⟨_, ev_choice_ok h1, Or.inr ⟨k, ps, rfl, hk⟩⟩

/-- sequences in an atomic context (no trivia between the elements) -/
theorem evSeq_total : ∀ es : List Expr, (∀ e ∈ es, TotA g inp e) →
    ∀ (s : S0) (acc : List Pair), s.atomic = true → s.pos ≤ inp.size →
      ∃ r, EvSeq g inp es s acc r ∧ Nice inp s r
  | [], _, s, acc, _, hs => ⟨_, evSeq_nil, Or.inr ⟨0, acc, by simp [adv_zero], by simpa using hs⟩⟩
  | [e], h, s, acc, ha, hs => by
    obtain ⟨r, h1, h2⟩ := h e (by simp) s ha hs
    rcases h2 with rfl | ⟨k, ps, rfl, hk⟩
    · exact ⟨.fail, evSeq_fail h1, Or.inl rfl⟩
    · exact ⟨_, evSeq_last h1, Or.inr ⟨k, _, rfl, hk⟩⟩
  | e :: e2 :: es, h, s, acc, ha, hs => by
    obtain ⟨r, h1, h2⟩ := h e (by simp) s ha hs
    rcases h2 with rfl | ⟨k, ps, rfl, hk⟩
    · exact ⟨.fail, evSeq_fail h1, Or.inl rfl⟩
    · obtain ⟨r', h1', h2'⟩ := evSeq_total (e2 :: es) (fun e' he' => h e' (by simp [he']))
        (adv s k) (acc ++ ps ++ []) (by simpa using ha) (by simpa using hk)
      refine ⟨r', evSeq_cons h1 (evSkip_atomic (by simpa using ha)) h1', ?_⟩
      rcases h2' with rfl | ⟨k', ps', rfl, hk'⟩
      · exact Or.inl rfl
      · exact Or.inr ⟨k + k', ps', by rw [adv_adv], by simp at hk'; omega⟩

theorem totA_seq (es : List Expr) (h : ∀ e ∈ es, TotA g inp e) : TotA g inp (.seq es) := fun s ha hs => by
  obtain ⟨r, h1, h2⟩ := evSeq_total es h s [] ha hs
  exact ⟨r, ev_seq h1, h2⟩

/-- a sequence whose first element makes progress -/
theorem totP_seq (e : Expr) (es : List Expr) (he : TotP g inp e) (h : ∀ e' ∈ es, TotA g inp e') :
    TotP g inp (.seq (e :: es)) := fun s ha hs => by
  obtain ⟨r, h1, h2⟩ := he s ha hs
  rcases h2 with rfl | ⟨k, ps, rfl, hk0, hk⟩
  · exact ⟨.fail, ev_seq (evSeq_fail h1), Or.inl rfl⟩
  · cases es with
    | nil => exact ⟨_, ev_seq (evSeq_last h1), Or.inr ⟨k, _, rfl, hk0, hk⟩⟩
    | cons e2 es' =>
      obtain ⟨r', h1', h2'⟩ := evSeq_total (e2 :: es') h (adv s k) ([] ++ ps ++ []) (by simpa using ha)
        (by simpa using hk)
      refine ⟨r', ev_seq (evSeq_cons h1 (evSkip_atomic (by simpa using ha)) h1'), ?_⟩
      rcases h2' with rfl | ⟨k', ps', rfl, hk'⟩
      · exact Or.inl rfl
      · exact Or.inr ⟨k + k', ps', by rw [adv_adv], by omega, by simp at hk'; omega⟩

/-- `e*` where every successful `e` consumes something -/
theorem evRep_total {e : Expr} (he : TotP g inp e) :
    ∀ (m : Nat) (s : S0) (first : Bool) (acc : List Pair), inp.size - s.pos ≤ m → s.atomic = true →
      s.pos ≤ inp.size → ∃ k ps, EvRep g inp e first s acc (.ok (adv s k) ps) ∧ s.pos + k ≤ inp.size := by
  intro m
  induction m with
  | zero =>
    intro s first acc hm ha hs
    obtain ⟨r, h1, h2⟩ := he s ha hs
    rcases h2 with rfl | ⟨k, ps, rfl, hk0, hk⟩
    · refine ⟨0, acc, ?_, by simpa using hs⟩
      rw [adv_zero]
      cases first with
      | true => exact evRep_first_stop h1
      | false => exact evRep_stop (evSkip_atomic ha) h1
    · omega
  | succ m ih =>
    intro s first acc hm ha hs
    obtain ⟨r, h1, h2⟩ := he s ha hs
    rcases h2 with rfl | ⟨k, ps, rfl, hk0, hk⟩
    · refine ⟨0, acc, ?_, by simpa using hs⟩
      rw [adv_zero]
      cases first with
      | true => exact evRep_first_stop h1
      | false => exact evRep_stop (evSkip_atomic ha) h1
    · obtain ⟨k', ps', h1', hk'⟩ := ih (adv s k) false (acc ++ ps) (by simp; omega) (by simpa using ha)
        (by simpa using hk)
      refine ⟨k + k', ps', ?_, by simp at hk'; omega⟩
      rw [← adv_adv]
      cases first with
      | true => exact evRep_first_more h1 h1'
      | false => exact evRep_more (evSkip_atomic ha) h1 (by simpa using h1')

theorem totA_rep {e : Expr} (he : TotP g inp e) : TotA g inp (.rep e) := fun s ha hs => by
  obtain ⟨k, ps, h1, hk⟩ := evRep_total he (inp.size - s.pos) s true [] (Nat.le_refl _) ha hs
  exact ⟨_, ev_rep h1, Or.inr ⟨k, ps, rfl, hk⟩⟩

theorem totP_rep1 {e : Expr} (he : TotP g inp e) : TotP g inp (.rep1 e) := fun s ha hs => by
  obtain ⟨r, h1, h2⟩ := totP_seq e [.rep e] he (fun e' he' => by
    have : e' = .rep e := by simpa using he'
    subst this; exact totA_rep he) s ha hs
  obtain ⟨N, h⟩ := h1.step
  exact ⟨r, ev_of_step N fun n hn => by have := h n hn; simpa [L0.step] using this, h2⟩

/-- a call of an atomic rule (`@`), from any context -/
theorem tot_atomic_rule {name : String} {body : Expr} {k : RuleKind}
    (hl : g.lookup name = some { name := name, mod := 4, body := body, kind := k })
    (hb : TotA g inp body) (s : S0) (hs : s.pos ≤ inp.size) :
    ∃ r, Ev g inp (.ident name none) s r ∧
      (r = .fail ∨ ∃ k p, r = .ok (adv s k) [p] ∧ s.pos + k ≤ inp.size) := by
  obtain ⟨r, h1, h2⟩ := hb { s with atomic := true } rfl hs
  rcases h2 with rfl | ⟨k, ps, rfl, hk⟩
  · exact ⟨.fail, ev_ident_fail (tag := none) hl (by simpa [atomic_enter] using h1), Or.inl rfl⟩
  · have := ev_ident_ok (tag := none) (s := s) hl (by simpa [atomic_enter] using h1)
    refine ⟨_, this, Or.inr ⟨k, .mk name 4 s.pos (s.pos + k) (visibleList ps) none, ?_, hk⟩⟩
    simp [ruleWrap, hasBit, SILENT, ATOMIC, adv]

/-- a call of an atomic rule from an atomic context, as an expression of the calculus -/
theorem totA_atomic_ident {name : String} {body : Expr} {k : RuleKind}
    (hl : g.lookup name = some { name := name, mod := 4, body := body, kind := k })
    (hb : TotA g inp body) : TotA g inp (.ident name none) := fun s _ hs => by
  obtain ⟨r, h1, h2⟩ := tot_atomic_rule hl hb s hs
  refine ⟨r, h1, ?_⟩
  rcases h2 with h | ⟨k, p, h, hk⟩
  · exact Or.inl h
  · exact Or.inr ⟨k, [p], h, hk⟩

/-! ### `number` cannot get stuck -/

theorem totP_digit : TotP g inp DIGIT := totP_range_rule _ (by decide) _ _
theorem totP_nzdigit : TotP g inp NZDIGIT := totP_range_rule _ (by decide) _ _

theorem totA_exSign : TotA g inp exSignExpr :=
  totA_opt (totA_group (totA_choice _ (by
    intro e he
    simp only [List.mem_cons, List.not_mem_nil, or_false] at he
    rcases he with rfl | rfl <;> exact (totP_str _ _).totA)))

theorem totP_intChoice : TotP g inp tIntBody :=
  totP_choice _ (by
    intro e he
    simp only [List.mem_cons, List.not_mem_nil, or_false] at he
    rcases he with rfl | rfl
    · exact totP_str _ _
    · exact totP_seq _ _ totP_nzdigit (by
        intro e' he'
        have : e' = .rep DIGIT := by simpa using he'
        subst this; exact totA_rep totP_digit))

theorem totA_exNumberBody : TotA g inp exNumberBody := by
  apply totA_seq
  intro e he
  simp only [List.mem_cons, List.not_mem_nil, or_false] at he
  rcases he with rfl | rfl | rfl | rfl
  · exact totA_opt (totP_str _ _).totA
  · exact totA_group totP_intChoice.totA
  · exact totA_opt (totA_group (totP_seq _ _ (totP_str _ _) (by
      intro e' he'
      have : e' = .rep DIGIT := by simpa using he'
      subst this; exact totA_rep totP_digit)).totA)
  · exact totA_opt (totA_group (totP_seq _ _ (totP_ci _ _) (by
      intro e' he'
      simp only [List.mem_cons, List.not_mem_nil, or_false] at he'
      rcases he' with rfl | rfl
      · exact totA_exSign
      · exact (totP_rep1 totP_digit).totA)).totA)

theorem totA_tExpBody : TotA g inp tExpBody :=
  (totP_seq _ _ (totP_group (totP_choice _ (by
      intro e he
      simp only [List.mem_cons, List.not_mem_nil, or_false] at he
      rcases he with rfl | rfl <;> exact totP_str _ _))) (by
    intro e' he'
    simp only [List.mem_cons, List.not_mem_nil, or_false] at he'
    rcases he' with rfl | rfl
    · exact totA_exSign
    · exact (totP_rep1 totP_digit).totA)).totA

theorem totA_tNumberBody (hg : TNumberRules g) : TotA g inp tNumberBody := by
  obtain ⟨k1, hli⟩ := hg.int
  obtain ⟨k2, hle⟩ := hg.exp
  have hexp : TotA g inp (.ident "exp" none) := totA_atomic_ident hle totA_tExpBody
  apply totA_seq
  intro e he
  simp only [List.mem_cons, List.not_mem_nil, or_false] at he
  rcases he with rfl | rfl | rfl
  · exact totA_opt (totP_str _ _).totA
  · exact totA_atomic_ident hli totP_intChoice.totA
  · refine totA_opt (totA_group (totA_choice _ ?_))
    intro e' he'
    simp only [List.mem_cons, List.not_mem_nil, or_false] at he'
    rcases he' with rfl | rfl
    · exact (totP_seq _ _ (totP_str _ _) (by
        intro e'' he''
        simp only [List.mem_cons, List.not_mem_nil, or_false] at he''
        rcases he'' with rfl | rfl
        · exact (totP_rep1 totP_digit).totA
        · exact totA_opt hexp)).totA
    · exact hexp

/-- what a call of `number` can do, whatever the input -/
def NumTotal (g : Grammar) (inp : Input) : Prop :=
  ∀ s : S0, s.pos ≤ inp.size → ∃ r, Ev g inp (.ident "number" none) s r ∧
    (r = .fail ∨ ∃ k p, r = .ok (adv s k) [p] ∧ s.pos + k ≤ inp.size)

theorem ex_numTotal {k : RuleKind}
    (hl : g.lookup "number" = some { name := "number", mod := 4, body := exNumberBody, kind := k }) :
    NumTotal g inp := fun s hs => tot_atomic_rule hl totA_exNumberBody s hs

theorem t_numTotal (hg : TNumberRules g) : NumTotal g inp := fun s hs => by
  obtain ⟨k, hl⟩ := hg.number
  exact tot_atomic_rule hl (totA_tNumberBody hg) s hs

/-! ### the characters of a number -/

def NumCh (c : CP) : Prop := IsDigit c ∨ c = 45 ∨ c = 43 ∨ c = 46 ∨ c = 101 ∨ c = 69

theorem NumCh.junk {c : CP} (h : NumCh c) : JunkCh c := by
  unfold NumCh IsDigit at h
  unfold JunkCh IsWs
  rcases h with h | h | h | h | h | h <;> refine ⟨?_, ?_, ?_, ?_⟩ <;> cp_omega

theorem digitsText_numCh (ds : List Digit) : ∀ c ∈ digitsText ds, NumCh c := by
  intro c hc
  simp only [digitsText, List.mem_map] at hc
  obtain ⟨d, _, rfl⟩ := hc
  have := d.isLt
  exact Or.inl (by unfold IsDigit Digit.cp; cp_omega)

theorem numText_numCh (n : Num) : ∀ c ∈ numText n, NumCh c := by
  intro c hc
  rw [numText_eq] at hc
  simp only [List.mem_append] at hc
  rcases hc with hc | hc | hc | hc
  · unfold signText at hc
    cases hneg : n.neg <;> rw [hneg] at hc <;> simp at hc
    exact Or.inr (Or.inl hc)
  · cases hi : n.int with
    | zero => rw [hi] at hc; simp [intText] at hc; subst hc; exact Or.inl (by unfold IsDigit; decide)
    | nonzero d ds =>
      rw [hi] at hc
      simp only [intText, List.mem_cons] at hc
      rcases hc with rfl | hc
      · have := d.isLt; exact Or.inl (by unfold IsDigit; cp_omega)
      · exact digitsText_numCh ds c hc
  · cases hf : n.frac with
    | none => rw [hf] at hc; simp [fracText] at hc
    | some f =>
      obtain ⟨d, ds⟩ := f
      rw [hf] at hc
      simp only [fracText, List.mem_cons] at hc
      rcases hc with rfl | hc
      · exact Or.inr (Or.inr (Or.inr (Or.inl rfl)))
      · exact digitsText_numCh (d :: ds) c (by simpa [digitsText] using hc)
  · cases he : n.exp with
    | none => rw [he] at hc; simp [expOptText] at hc
    | some e =>
      rw [he] at hc
      simp only [expOptText, expText_eq, List.mem_cons, List.mem_append] at hc
      rcases hc with rfl | hc | hc
      · cases e.upper <;> simp [NumCh]
      · cases hs : e.sign <;> rw [hs] at hc <;> simp [expSignText] at hc <;> subst hc <;> simp [NumCh]
      · exact digitsText_numCh (e.d :: e.ds) c hc

theorem RestAt.size_eq {p : Nat} {rem : Str} (h : RestAt inp p rem) (hp : p ≤ inp.size) :
    inp.size = p + rem.length := by
  unfold RestAt at h
  have := congrArg List.length h
  simp at this
  omega

/-- **`number` on a truncated number**: it fails, or it stops somewhere in the truncated text
    and what is left (number characters, or nothing) is junk -/
theorem num_trunc (hn : NumTotal g inp) (n : Num) {s : S0} {rem : Str} (hr : RestAt inp s.pos rem)
    (hne : rem ≠ []) (hp : rem <+: numText n) :
    Ev g inp (.ident "number" none) s .fail
    ∨ ∃ k p, Ev g inp (.ident "number" none) s (.ok (adv s k) [p]) ∧ JunkAt inp (adv s k) := by
  have hs := hr.le hne
  obtain ⟨r, h1, h2⟩ := hn s hs
  rcases h2 with rfl | ⟨k, p, rfl, hk⟩
  · exact Or.inl h1
  · refine Or.inr ⟨k, p, h1, rem.drop k, ?_, ?_⟩
    · have hsz := hr.size_eq hs
      have : RestAt inp s.pos (rem.take k ++ rem.drop k) := by rw [List.take_append_drop]; exact hr
      have := this.advance
      have hl : (rem.take k).length = k := by simp; omega
      simpa [hl] using this
    · cases hd : rem.drop k with
      | nil => trivial
      | cons c L =>
        have hc : c ∈ rem := List.mem_of_mem_drop (by rw [hd]; simp)
        exact (numText_numCh n c (hp.subset hc)).junk

/-! ### hexadecimal digits that are not all there -/

theorem ev_any_rule_fail {s : S0} (h : RestAt inp s.pos []) : Ev g inp ANY s .fail :=
  ev_rule_fail (ev_any_fail (s := { s with atomic := _ }) h)

theorem ev_hex_fail_nil {s : S0} (h : RestAt inp s.pos []) : Ev g inp HEX s .fail := by
  apply ev_rule_fail
  have hf : ∀ a b : CP, Ev g inp (.range a b) { s with atomic := ruleAtomic "ASCII_HEX_DIGIT" 2 s.atomic } .fail :=
    fun a b => ev_range_fail fun c hc => by simp [RestAt.get_nil h] at hc
  exact ev_choice_next (hf _ _) (ev_choice_next (hf _ _) (ev_choice_next (hf _ _) ev_choice_nil))

/-- `ASCII_HEX_DIGIT{m}` on fewer than `m` hexadecimal digits, then the end of the input -/
theorem hexSeq_fail : ∀ (xs : List Hex) (m : Nat) (s : S0) (acc : List Pair), xs.length < m → s.atomic = true →
    RestAt inp s.pos (xs.map Hex.cp) → EvSeq g inp (List.replicate m HEX) s acc .fail
  | [], m + 1, s, acc, _, _, h => by
    rw [List.replicate_succ]
    exact evSeq_fail (ev_hex_fail_nil (by simpa using h))
  | x :: xs, m + 1, s, acc, hm, ha, h => by
    have hm' : xs.length < m := by simpa using hm
    obtain ⟨m', rfl⟩ : ∃ m', m = m' + 1 := ⟨m - 1, by omega⟩
    have h' : RestAt inp s.pos (x.cp :: xs.map Hex.cp) := by simpa using h
    have hx := ev_hex (g := g) x h'
    have := hexSeq_fail xs (m' + 1) (adv s 1) (acc ++ [] ++ []) hm' (by simpa using ha) (by simpa using h'.tail)
    rw [List.replicate_succ] at this
    rw [List.replicate_succ, List.replicate_succ]
    exact evSeq_cons hx (evSkip_atomic ha) this

theorem hexes_prefix {p : Str} {xs : List Hex} (h : p <+: xs.map Hex.cp) :
    ∃ ys : List Hex, p = ys.map Hex.cp ∧ ys.length = p.length := by
  refine ⟨xs.take p.length, ?_, ?_⟩
  · have := List.prefix_iff_eq_take.mp h
    rw [this]; simp [List.map_take]
  · have := h.length_le
    simp at this ⊢; omega

/-- the tail of an escape after its backslash: a proper prefix of it, at the end of the input -/
inductive EscCut : Str → Prop where
  | nil : EscCut []
  | u (ys : List Hex) (h : ys.length < 4) : EscCut (117 :: ys.map Hex.cp)

theorem escCut_of_prefix (c : SChar) (hc : c.isRaw = false) {p : Str} (hp : p <+: c.text) (hne : p ≠ c.text)
    (hp0 : p ≠ []) : ∃ p', p = 92 :: p' ∧ EscCut p' := by
  cases c with
  | raw c h => simp [SChar.isRaw] at hc
  | esc e =>
    cases p with
    | nil => exact absurd rfl hp0
    | cons a p' =>
      obtain ⟨ha, hp'⟩ := List.cons_prefix_cons.mp (show a :: p' <+: 92 :: [e.cp] from hp)
      subst ha
      refine ⟨p', rfl, ?_⟩
      cases p' with
      | nil => exact .nil
      | cons b p'' =>
        obtain ⟨hb, hp''⟩ := List.cons_prefix_cons.mp hp'
        have : p'' = [] := List.prefix_nil.mp hp''
        subst this; subst hb
        exact absurd rfl hne
  | u a b c d =>
    cases p with
    | nil => exact absurd rfl hp0
    | cons x p' =>
      obtain ⟨hx, hp'⟩ := List.cons_prefix_cons.mp
        (show x :: p' <+: 92 :: (117 :: [a, b, c, d].map Hex.cp) from hp)
      subst hx
      refine ⟨p', rfl, ?_⟩
      cases p' with
      | nil => exact .nil
      | cons y p'' =>
        obtain ⟨hy, hp''⟩ := List.cons_prefix_cons.mp hp'
        subst hy
        obtain ⟨ys, hys, hlen⟩ := hexes_prefix hp''
        subst hys
        have hle := hp''.length_le
        have : ys.length < 4 := by
          by_cases h4 : ys.length = 4
          · exfalso
            apply hne
            have := hp''.eq_of_length (by simp [h4])
            show 92 :: 117 :: List.map Hex.cp ys = 92 :: 117 :: [a, b, c, d].map Hex.cp
            rw [this]
          · simp at hle hlen; omega
        exact .u ys this

/-! ### `string` of examples/json/json.pest on a truncated string -/

theorem ev_exChar_nil_fail (hg : ExStringRules g) {s : S0} (hat : s.atomic = true) (h : RestAt inp s.pos []) :
    Ev g inp (.ident "char" none) s .fail := by
  obtain ⟨k, hl⟩ := hg.char
  apply ev_ident_fail (tag := none) hl
  have hra : ruleAtomic "char" 0 s.atomic = s.atomic := by
    simp [ruleAtomic, hasBit, ATOMIC, COMPOUND, NONATOMIC, L1.isTriviaName]
  rw [hra]
  have hn : Ev g inp (.choice (strs1 [34, 92])) s .fail := ev_choice_strs_fail h [34, 92] trivial
  have h1 := ev_not_ok (ev_group (t := none) hn)
  have hq : Ev g inp (.str [92]) s .fail := ev_lit_fail_nil h
  exact ev_choice_next (ev_seq (evSeq_cons h1 (evSkip_atomic hat) (evSeq_fail (ev_any_rule_fail h))))
    (ev_choice_next (ev_seq (evSeq_fail hq)) (ev_choice_next (ev_seq (evSeq_fail hq)) ev_choice_nil))

/-- a backslash and then less than an escape, at the end of the input: no `char` -/
theorem ev_exChar_cut_fail (hg : ExStringRules g) {s : S0} (hat : s.atomic = true) {p' : Str} (hcut : EscCut p')
    (h : RestAt inp s.pos (92 :: p')) : Ev g inp (.ident "char" none) s .fail := by
  obtain ⟨k, hl⟩ := hg.char
  apply ev_ident_fail (tag := none) hl
  have hra : ruleAtomic "char" 0 s.atomic = s.atomic := by
    simp [ruleAtomic, hasBit, ATOMIC, COMPOUND, NONATOMIC, L1.isTriviaName]
  rw [hra]
  have a1 := ev_exChar_alt1_fail (g := g) h (Or.inr rfl)
  have hb := ev_str1_ok (g := g) h
  have hsk : EvSkip g inp (adv s 1) (adv s 1) [] := evSkip_atomic (by simpa using hat)
  have t1 : RestAt inp (adv s 1).pos p' := by simpa using h.tail
  cases hcut with
  | nil =>
    have a2 : Ev g inp (.choice (strs1 escChars)) (adv s 1) .fail := ev_choice_strs_fail t1 escChars trivial
    have a3 : Ev g inp (.str [117]) (adv s 1) .fail := ev_lit_fail_nil t1
    exact ev_choice_next a1 (ev_choice_next (ev_seq (evSeq_cons hb hsk (evSeq_fail (ev_group (t := none) a2))))
      (ev_choice_next (ev_seq (evSeq_cons hb hsk (evSeq_fail (ev_group (t := none) (ev_seq (evSeq_fail a3))))))
        ev_choice_nil))
  | u ys hlen =>
    have a2 : Ev g inp (.choice (strs1 escChars)) (adv s 1) .fail :=
      ev_choice_strs_fail t1 escChars (by show (117 : CP) ∉ escChars; decide)
    have hu := ev_str1_ok (g := g) (s := adv s 1) t1
    have hx : Ev g inp (.repExact HEX 4) (adv (adv s 1) 1) .fail :=
      ev_repExact (hexSeq_fail ys 4 _ [] hlen (by simpa using hat) (by simpa using t1.tail))
    have a3 : Ev g inp (.group (.seq [(.str [117]), (.repExact HEX 4)]) none) (adv s 1) .fail :=
      ev_group (ev_seq (evSeq_cons hu (evSkip_atomic (by simpa using hat)) (evSeq_fail hx)))
    exact ev_choice_next a1 (ev_choice_next (ev_seq (evSeq_cons hb hsk (evSeq_fail (ev_group (t := none) a2))))
      (ev_choice_next (ev_seq (evSeq_cons hb hsk (evSeq_fail a3))) ev_choice_nil))

theorem nonraw_of_short {c : SChar} {p : Str} (hp0 : p ≠ []) (hlt : p.length < c.text.length) : c.isRaw = false := by
  cases c with
  | raw c h =>
    exfalso
    have h1 : p.length < 1 := hlt
    exact hp0 (List.eq_nil_of_length_eq_zero (by omega))
  | esc e => rfl
  | u a b c d => rfl

/-- the loop `char*` on a truncated string body: it stops at the end of the input or at the
    backslash of an incomplete escape -/
theorem exChars_trunc (hg : ExStringRules g) :
    ∀ (cs : SStr) (first : Bool) (s : S0) (acc : List Pair) (p : Str), s.atomic = true →
      p <+: sstrText cs → RestAt inp s.pos p →
      ∃ k ps L, EvRep g inp (.ident "char" none) first s acc (.ok (adv s k) ps) ∧
        RestAt inp (s.pos + k) L ∧ HeadIs (fun c => c = 92) L
  | [], first, s, acc, p, hat, hp, hr => by
    have : p = [] := List.prefix_nil.mp (by simpa [sstrText] using hp)
    subst this
    refine ⟨0, acc, [], ?_, by simpa using hr, trivial⟩
    rw [adv_zero]
    exact rep_halt (k := 0) (fun _ => rfl) (by simpa [adv_zero] using evSkip_atomic (g := g) (inp := inp) hat)
      (by simpa [adv_zero] using ev_exChar_nil_fail hg hat hr)
  | c :: cs, first, s, acc, p, hat, hp, hr => by
    have hsk0 : EvSkip g inp s (adv s 0) [] := by simpa [adv_zero] using evSkip_atomic (g := g) (inp := inp) hat
    rcases prefix_append_cases (show p <+: c.text ++ sstrText cs by simpa [sstrText] using hp) with
      ⟨h1, h2⟩ | ⟨p2, h1, h2⟩
    · -- the input ends inside this character
      have hfail : Ev g inp (.ident "char" none) s .fail ∧ HeadIs (fun c => c = 92) p := by
        by_cases hp0 : p = []
        · subst hp0; exact ⟨ev_exChar_nil_fail hg hat hr, trivial⟩
        · have hnr := nonraw_of_short hp0 h2
          obtain ⟨p', hp', hcut⟩ := escCut_of_prefix c hnr h1 (fun e => by rw [e] at h2; omega) hp0
          subst hp'
          exact ⟨ev_exChar_cut_fail hg hat hcut hr, rfl⟩
      refine ⟨0, acc, p, ?_, by simpa using hr, hfail.2⟩
      rw [adv_zero]
      exact rep_halt (k := 0) (fun _ => rfl) hsk0 (by simpa [adv_zero] using hfail.1)
    · subst h1
      have hc := ev_exChar hg hat c hr
      obtain ⟨k, ps, L, hrep, hL, hh⟩ := exChars_trunc hg cs false (adv s c.text.length)
        (acc ++ [.mk "char" 0 s.pos (s.pos + c.text.length) [] none]) p2 (by simpa using hat) h2
        (by simpa using hr.advance)
      refine ⟨c.text.length + k, ps, L, ?_, by simpa [Nat.add_assoc] using hL, hh⟩
      rw [← adv_adv]
      exact rep_enter (k := 0) (fun _ => rfl) hsk0 (by simpa [adv_zero] using hc) hrep

/-- **`string` of examples/json/json.pest fails on a proper prefix of a string** -/
theorem ex_string_trunc (hg : ExStringRules g) (cs : SStr) {s : S0} {p : Str} (hp : p <+: strText cs)
    (hne : p ≠ strText cs) (hr : RestAt inp s.pos p) : Ev g inp (.ident "string" none) s .fail := by
  obtain ⟨k1, hls⟩ := hg.string
  obtain ⟨k2, hli⟩ := hg.inner
  apply ev_ident_fail (tag := none) hls
  have hra : ruleAtomic "string" 8 s.atomic = true := by simp [ruleAtomic, hasBit, ATOMIC, COMPOUND]
  rw [hra]
  let sa : S0 := { s with atomic := true }
  show Ev g inp exStringBody sa .fail
  cases p with
  | nil => exact ev_seq (evSeq_fail (ev_lit_fail_nil (s := sa) hr))
  | cons a p1 =>
    obtain ⟨ha, hp1⟩ := List.cons_prefix_cons.mp (show a :: p1 <+: 34 :: (sstrText cs ++ [34]) from hp)
    subst ha
    have hp1' : p1 <+: sstrText cs :=
      prefix_of_proper_snoc hp1 (fun e => hne (by rw [e]; rfl))
    have hr' : RestAt inp sa.pos (34 :: p1) := hr
    have hq1 := ev_str1_ok (g := g) hr'
    obtain ⟨k, ps, L, hrep, hL, hh⟩ := exChars_trunc hg cs true (adv sa 1) [] p1 rfl hp1' (by simpa using hr'.tail)
    have hin := ev_ident_ok (tag := none) (s := adv sa 1) hli
      (by simpa [ruleAtomic, hasBit, ATOMIC, sa, adv, exInnerBody] using ev_rep hrep)
    have hq2 : Ev g inp (.str [34]) (adv (adv sa 1) k) .fail :=
      ev_lit_fail_head (by simpa [Nat.add_assoc] using hL) (hh.mono fun c hc => by subst hc; decide)
    have hsk : ∀ t : S0, t.atomic = true → EvSkip g inp t t [] := fun t ht => evSkip_atomic ht
    have hin' : Ev g inp (.ident "inner" none) (adv sa 1)
        (.ok (adv (adv sa 1) k) [.mk "inner" 4 (adv sa 1).pos (adv (adv sa 1) k).pos (visibleList ps) none]) := by
      simpa [ruleWrap, hasBit, SILENT, ATOMIC, sa, adv] using hin
    exact ev_seq (evSeq_cons hq1 (hsk _ rfl) (evSeq_cons hin' (hsk _ rfl) (evSeq_fail hq2)))

/-! ### `string` of tests/grammars/json.pest on a truncated string -/

theorem ev_tRaw_fail_nil {s : S0} (hat : s.atomic = true) (h : RestAt inp s.pos []) :
    Ev g inp tRawExpr s .fail := by
  have hn : Ev g inp (.choice (strs1 [34, 92])) s .fail := ev_choice_strs_fail h [34, 92] trivial
  have h1 := ev_not_ok (ev_group (t := none) hn)
  exact ev_group (ev_seq (evSeq_cons h1 (evSkip_atomic hat) (evSeq_fail (ev_any_rule_fail h))))

/-- the loop over raw characters, on any run of raw characters followed by a quote, a backslash
    or the end of the input -/
theorem tRaws_loop : ∀ (rs : List CP), (∀ c ∈ rs, Unescaped c) →
    ∀ (first : Bool) (s : S0) (acc : List Pair) (T : Str), s.atomic = true →
      RestAt inp s.pos (rs ++ T) → HeadIs (fun c => c = 34 ∨ c = 92) T →
      EvRep g inp tRawExpr first s acc (.ok (adv s rs.length) acc)
  | [], _, first, s, acc, T, hat, hr, hT => by
    have hsk0 : EvSkip g inp s (adv s 0) [] := by simpa [adv_zero] using evSkip_atomic (g := g) (inp := inp) hat
    have hfail : Ev g inp tRawExpr s .fail := by
      cases T with
      | nil => exact ev_tRaw_fail_nil hat (by simpa using hr)
      | cons c T' => exact ev_tRaw_fail (by simpa using hr) hT
    simpa [adv_zero] using rep_halt (first := first) (acc := acc) (k := 0) (fun _ => rfl) hsk0
      (by simpa [adv_zero] using hfail)
  | c :: rs, hall, first, s, acc, T, hat, hr, hT => by
    have hsk0 : EvSkip g inp s (adv s 0) [] := by simpa [adv_zero] using evSkip_atomic (g := g) (inp := inp) hat
    have hr' : RestAt inp s.pos (c :: (rs ++ T)) := by simpa using hr
    have h1 := ev_tRaw_ok (g := g) hat (hall c (by simp)) hr'
    have ih := tRaws_loop rs (fun d hd => hall d (by simp [hd])) false (adv s 1) acc T (by simpa using hat)
      (by simpa using hr'.tail) hT
    have e : (c :: rs).length = 1 + rs.length := by simp [Nat.add_comm]
    rw [e, ← adv_adv]
    exact rep_enter (k := 0) (fun _ => rfl) hsk0 (by simpa [adv_zero] using h1) (by simpa using ih)

/-- the code points of the leading raw characters -/
def rawHead : SStr → List CP
  | .raw c _ :: cs => c :: rawHead cs
  | _ => []

theorem rawHead_spec : ∀ cs : SStr, sstrText cs = rawHead cs ++ sstrText (spanRaw cs).2 ∧
    (∀ c ∈ rawHead cs, Unescaped c)
  | [] => ⟨rfl, by simp [rawHead]⟩
  | .raw c h :: cs => by
    obtain ⟨h1, h2⟩ := rawHead_spec cs
    refine ⟨by simp [sstrText, SChar.text, rawHead, spanRaw, h1], ?_⟩
    intro d hd
    simp only [rawHead, List.mem_cons] at hd
    rcases hd with rfl | hd
    · exact h
    · exact h2 d hd
  | .esc e :: cs => ⟨by simp [rawHead, spanRaw], by simp [rawHead]⟩
  | .u a b c d :: cs => ⟨by simp [rawHead, spanRaw], by simp [rawHead]⟩

theorem sstrText_nonraw_head (c : SChar) (cs : SStr) (hc : c.isRaw = false) :
    ∃ t, sstrText (c :: cs) = 92 :: t := by
  obtain ⟨t, ht⟩ := nonraw_text_head c hc
  exact ⟨t ++ sstrText cs, by simp [sstrText, ht]⟩

theorem ev_tEscape_fail_nil (hg : TStringRules g) {s : S0} (h : RestAt inp s.pos []) :
    Ev g inp (.ident "escape" none) s .fail := by
  obtain ⟨k, hl⟩ := hg.escape
  exact ev_ident_fail (tag := none) hl (ev_seq (evSeq_fail (ev_lit_fail_nil (s := { s with atomic := _ }) h)))

theorem ev_tUnicode_fail_nil (hg : TStringRules g) {s : S0} (h : RestAt inp s.pos []) :
    Ev g inp (.ident "unicode" none) s .fail := by
  obtain ⟨k, hl⟩ := hg.unicode
  exact ev_ident_fail (tag := none) hl (ev_seq (evSeq_fail (ev_lit_fail_nil (s := { s with atomic := _ }) h)))

/-- a backslash and then less than an escape, at the end of the input: no `escape` -/
theorem ev_tEscape_cut_fail (hg : TStringRules g) {s : S0} (hat : s.atomic = true) {p' : Str} (hcut : EscCut p')
    (h : RestAt inp s.pos (92 :: p')) : Ev g inp (.ident "escape" none) s .fail := by
  obtain ⟨k, hl⟩ := hg.escape
  obtain ⟨ku, hlu⟩ := hg.unicode
  apply ev_ident_fail (tag := none) hl
  rw [atomic_enter]
  let sa : S0 := { s with atomic := true }
  have hs : sa = s := by cases s; simp_all [sa]
  show Ev g inp tEscapeBody sa .fail
  rw [hs]
  have hb := ev_str1_ok (g := g) h
  have hsk : EvSkip g inp (adv s 1) (adv s 1) [] := evSkip_atomic (by simpa using hat)
  have t1 : RestAt inp (adv s 1).pos p' := by simpa using h.tail
  have hch : Ev g inp (.choice (strs1 escChars ++ [.ident "unicode" none])) (adv s 1) .fail := by
    cases hcut with
    | nil =>
      exact ev_choice_strs_skip _ t1 (ev_choice_next (ev_tUnicode_fail_nil hg t1) ev_choice_nil) escChars trivial
    | u ys hlen =>
      have hu := ev_str1_ok (g := g) (s := { adv s 1 with atomic := true }) t1
      have hx : Ev g inp (.repExact HEX 4) (adv { adv s 1 with atomic := true } 1) .fail :=
        ev_repExact (hexSeq_fail ys 4 _ [] hlen rfl (by simpa using t1.tail))
      have hun : Ev g inp (.ident "unicode" none) (adv s 1) .fail :=
        ev_ident_fail (tag := none) hlu (by
          rw [atomic_enter]
          exact ev_seq (evSeq_cons hu (evSkip_atomic rfl) (evSeq_fail hx)))
      exact ev_choice_strs_skip _ t1 (ev_choice_next hun ev_choice_nil) escChars
        (by show (117 : CP) ∉ escChars; decide)
  have := ev_seq (evSeq_cons hb hsk (evSeq_fail (rest := []) (ev_group (t := none) hch)))
  simpa [tEscapeBody, escChoice_eq] using this

/-- **`inner` of tests/grammars/json.pest on a truncated string body**: it succeeds, and stops
    at the end of the input or at the backslash of an incomplete escape -/
theorem t_inner_trunc (hg : TStringRules g) :
    ∀ (n : Nat) (cs : SStr), cs.length ≤ n → ∀ (s : S0) (p : Str), s.atomic = true →
      p <+: sstrText cs → RestAt inp s.pos p →
      ∃ k a b L, Ev g inp (.ident "inner" none) s (.ok (adv s k) [.mk "inner" 4 a b [] none]) ∧
        RestAt inp (s.pos + k) L ∧ HeadIs (fun c => c = 92) L := by
  intro n
  induction n with
  | zero =>
    intro cs hn s p hat hp hr
    have : cs = [] := List.eq_nil_of_length_eq_zero (by omega)
    subst this
    have hp0 : p = [] := List.prefix_nil.mp (by simpa [sstrText] using hp)
    subst hp0
    obtain ⟨k, hl⟩ := hg.inner
    have hs : ({ s with atomic := ruleAtomic "inner" 4 s.atomic } : S0) = s := by
      rw [atomic_enter]; cases s; simp_all
    have h1 := tRaws_loop (g := g) [] (by simp) true s [] [] hat (by simpa using hr) trivial
    have hopt := ev_opt_none (ev_group (t := none) (ev_seq (evSeq_fail (rest := [.ident "inner" none])
      (ev_tEscape_fail_nil hg (s := adv s 0) (by simpa using hr)))))
    have hb := ev_seq (evSeq_cons (ev_rep h1) (evSkip_atomic (by simpa using hat)) (evSeq_last hopt))
    have := ev_ident_ok (tag := none) (s := s) hl (by rw [hs]; simpa [tInnerBody] using hb)
    rw [atomic_wrap _ _ _ _ (by simp [visibleList])] at this
    exact ⟨0, _, _, [], by simpa [adv_zero, same_atomic s 0 hat] using this, by simpa using hr, trivial⟩
  | succ n ih =>
    intro cs hn s p hat hp hr
    obtain ⟨k0, hl⟩ := hg.inner
    have hs : ({ s with atomic := ruleAtomic "inner" 4 s.atomic } : S0) = s := by
      rw [atomic_enter]; cases s; simp_all
    obtain ⟨hsplit, hraw⟩ := rawHead_spec cs
    -- finishing the rule from the state after the raw characters
    have finish : ∀ (k1 : Nat), EvRep g inp tRawExpr true s [] (.ok (adv s k1) []) →
        ∀ k2 ps L, Ev g inp (.opt (.group (.seq [(.ident "escape" none), (.ident "inner" none)]) none))
          (adv s k1) (.ok (adv (adv s k1) k2) ps) → visibleList ps = [] →
          RestAt inp (s.pos + (k1 + k2)) L → HeadIs (fun c => c = 92) L →
          ∃ k a b L, Ev g inp (.ident "inner" none) s (.ok (adv s k) [.mk "inner" 4 a b [] none]) ∧
            RestAt inp (s.pos + k) L ∧ HeadIs (fun c => c = 92) L := by
      intro k1 hrep k2 ps L hopt hv hL hh
      have hb := ev_seq (evSeq_cons (ev_rep hrep) (evSkip_atomic (by simpa using hat)) (evSeq_last hopt))
      have := ev_ident_ok (tag := none) (s := s) hl (by rw [hs]; simpa [tInnerBody] using hb)
      rw [atomic_wrap _ _ _ _ (by simpa using hv)] at this
      exact ⟨k1 + k2, _, _, L, by simpa [adv, Nat.add_assoc] using this, hL, hh⟩
    rw [hsplit] at hp
    rcases prefix_append_cases hp with ⟨h1, _⟩ | ⟨p2, h1, h2⟩
    · -- the input ends among the raw characters
      have hall : ∀ c ∈ p, Unescaped c := fun c hc => hraw c (h1.subset hc)
      have hrep := tRaws_loop (g := g) p hall true s [] [] hat (by simpa using hr) trivial
      have hend : RestAt inp (adv s p.length).pos [] := by
        have := (show RestAt inp s.pos (p ++ []) by simpa using hr).advance
        simpa using this
      have hopt := ev_opt_none (ev_group (t := none) (ev_seq (evSeq_fail (rest := [.ident "inner" none])
        (ev_tEscape_fail_nil hg hend))))
      exact finish p.length hrep 0 [] [] (by simpa [adv_zero] using hopt) rfl (by simpa using hend) trivial
    · subst h1
      have hT : HeadIs (fun c => c = 34 ∨ c = 92) p2 := by
        cases hrest : (spanRaw cs).2 with
        | nil =>
          rw [hrest] at h2
          have : p2 = [] := List.prefix_nil.mp (by simpa [sstrText] using h2)
          subst this; trivial
        | cons c rest =>
          rw [hrest] at h2
          obtain ⟨t, ht⟩ := sstrText_nonraw_head c rest (spanRaw_head cs c rest hrest)
          rw [ht] at h2
          exact headIs_cons_prefix h2 (Or.inr rfl)
      have hrep := tRaws_loop (g := g) (rawHead cs) hraw true s [] p2 hat hr hT
      have hr2 : RestAt inp (adv s (rawHead cs).length).pos p2 := by simpa using hr.advance
      have hat2 : (adv s (rawHead cs).length).atomic = true := by simpa using hat
      cases hrest : (spanRaw cs).2 with
      | nil =>
        rw [hrest] at h2
        have : p2 = [] := List.prefix_nil.mp (by simpa [sstrText] using h2)
        subst this
        have hopt := ev_opt_none (ev_group (t := none) (ev_seq (evSeq_fail (rest := [.ident "inner" none])
          (ev_tEscape_fail_nil hg hr2))))
        exact finish _ hrep 0 [] [] (by simpa [adv_zero] using hopt) rfl (by simpa using hr2) trivial
      | cons c rest =>
        rw [hrest] at h2
        have hc := spanRaw_head cs c rest hrest
        have hrl : rest.length ≤ n := by
          have := spanRaw_length cs
          rw [hrest] at this
          simp only [List.length_cons] at this; omega
        rcases prefix_append_cases (show p2 <+: c.text ++ sstrText rest by simpa [sstrText] using h2) with
          ⟨g1, g2⟩ | ⟨p3, g1, g2⟩
        · -- the input ends inside the escape
          have hfail : Ev g inp (.ident "escape" none) (adv s (rawHead cs).length) .fail ∧
              HeadIs (fun c => c = 92) p2 := by
            by_cases hp0 : p2 = []
            · subst hp0; exact ⟨ev_tEscape_fail_nil hg hr2, trivial⟩
            · obtain ⟨p', hp', hcut⟩ := escCut_of_prefix c hc g1 (fun e => by rw [e] at g2; omega) hp0
              subst hp'
              exact ⟨ev_tEscape_cut_fail hg hat2 hcut hr2, rfl⟩
          have hopt := ev_opt_none (ev_group (t := none) (ev_seq (evSeq_fail (rest := [.ident "inner" none])
            hfail.1)))
          exact finish _ hrep 0 [] p2 (by simpa [adv_zero] using hopt) rfl (by simpa using hr2) hfail.2
        · subst g1
          have he := ev_tEscape hg hat2 c hc hr2
          obtain ⟨k, a, b, L, hi, hL, hh⟩ := ih rest hrl (adv (adv s (rawHead cs).length) c.text.length) p3
            (by simpa using hat) g2 (by simpa using hr2.advance)
          have hopt := ev_opt_ok (ev_group (t := none) (ev_seq
            (evSeq_cons he (evSkip_atomic (by simpa using hat)) (evSeq_last hi))))
          exact finish _ hrep (c.text.length + k) _ L (by simpa [adv_adv, Nat.add_assoc] using hopt)
            (by simp [visibleList]) (by simpa [Nat.add_assoc] using hL) hh

/-- **`string` of tests/grammars/json.pest fails on a proper prefix of a string** -/
theorem t_string_trunc (hg : TStringRules g) (cs : SStr) {s : S0} {p : Str} (hp : p <+: strText cs)
    (hne : p ≠ strText cs) (hr : RestAt inp s.pos p) : Ev g inp (.ident "string" none) s .fail := by
  obtain ⟨k1, hls⟩ := hg.string
  apply ev_ident_fail (tag := none) hls
  rw [atomic_enter]
  let sa : S0 := { s with atomic := true }
  show Ev g inp tStringBody sa .fail
  cases p with
  | nil => exact ev_seq (evSeq_fail (ev_lit_fail_nil (s := sa) hr))
  | cons a p1 =>
    obtain ⟨ha, hp1⟩ := List.cons_prefix_cons.mp (show a :: p1 <+: 34 :: (sstrText cs ++ [34]) from hp)
    subst ha
    have hp1' : p1 <+: sstrText cs := prefix_of_proper_snoc hp1 (fun e => hne (by rw [e]; rfl))
    have hr' : RestAt inp sa.pos (34 :: p1) := hr
    have hq1 := ev_str1_ok (g := g) hr'
    obtain ⟨k, a, b, L, hin, hL, hh⟩ :=
      t_inner_trunc hg cs.length cs (Nat.le_refl _) (adv sa 1) p1 rfl hp1' (by simpa using hr'.tail)
    have hq2 : Ev g inp (.str [34]) (adv (adv sa 1) k) .fail :=
      ev_lit_fail_head (by simpa [Nat.add_assoc] using hL) (hh.mono fun c hc => by subst hc; decide)
    have hsk : ∀ t : S0, t.atomic = true → EvSkip g inp t t [] := fun t ht => evSkip_atomic ht
    exact ev_seq (evSeq_cons hq1 (hsk _ rfl) (evSeq_cons hin (hsk _ rfl) (evSeq_fail hq2)))

end Json
end Pest
