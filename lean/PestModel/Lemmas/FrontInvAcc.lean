/-
  Lemmas/FrontInvAcc.lean — the scanner ACCEPT half for the generalised layout relation:

    scan_accept_text' : g.WF' → GrammarText' g t → ∃ toks, scan t = .ok toks ∧ Act g.kv (kvOf toks)

  `GrammarText' g t` (Front/AstText2.lean): `t` spells the items of `g` in *any* spelling pest
  allows — arbitrary trivia, escapes in string and character literals, trivia behind `^`, leading
  zeros in numbers and slice indices, doc lines ended by LF, CR LF or the end of the text, an
  unterminated line comment at the end.  The scanner accepts every such text, and the tokens it
  emits are the items of `g` (`Act`: same kinds; same values, except that numbers, integers and
  character literals carry their spelling).

  Same architecture as Lemmas/FrontScanTrivia.lean (open recursion, induction on the fuel only);
  `Sc` becomes `Sc'`, every triple `Sp m inp a tl K` about items `K` of the AST becomes
  `Sp' m inp a tl K` (= `∃ K', Act K K' ∧ Sp m inp a tl K'`), `WF` becomes `WF'`.  Token level:
  Lemmas/FrontInvAccTok.lean.
-/
import PestModel.Lemmas.FrontInvAccTok

namespace Pest
namespace Front
namespace IA
open RT TRT

/-! ### well-formedness, first characters of the canonical text (as in FrontScanRT, for `WF'`) -/

theorem terms_wf' : ∀ (e : SExpr), e.WF' → ∀ t ∈ terms e, t.WF'
  | .one t, h, t', ht' => by
    simp [terms] at ht'; subst ht'; simpa [SExpr.WF'] using h
  | .cons t b r, h, t', ht' => by
    simp only [SExpr.WF'] at h
    simp only [terms, List.mem_cons] at ht'
    rcases ht' with e | e
    · subst e; exact h.1
    · exact terms_wf' r h.2 t' e

theorem node_wf'_of_term {tag : Option Text} {pre : List Bool} {nd : SNode} {post : List Post}
    (h : (STerm.mk tag pre nd post).WF') : nd.WF' := by
  simp only [STerm.WF'] at h; exact h.2.1

theorem hd_node' {nd : SNode} (h : nd.WF') (X : Text) : Hd nodeStart (spellAll nd.kv ++ X) := by
  cases nd with
  | str s => simp [SNode.kv, spellAll_cons, spell, nodeStart]
  | ci s => simp [SNode.kv, spellAll_cons, spell, nodeStart]
  | range a b =>
    obtain ⟨r, hr⟩ := charLit_cons a
    simp [SNode.kv, spellAll_cons, spell, hr, nodeStart]
  | ident name =>
    have hid : IsIdent name := by simpa [SNode.WF'] using h
    obtain ⟨c, r, rfl, hc, _, _⟩ := isIdent_dest hid
    simp [SNode.kv, spellAll_cons, spell_keyword, nodeStart, hc]
  | pushLit s => simp [SNode.kv, spellAll_cons, spell, sPUSH_LITERAL, nodeStart_80]
  | push b e => simp [SNode.kv, spellAll_cons, spell, sPUSH, nodeStart_80]
  | slice a b => simp [SNode.kv, spellAll_cons, spell, sPEEK, nodeStart_80]
  | paren b e => simp [SNode.kv, spellAll_cons, spell, nodeStart]

theorem hd_term' {t : STerm} (h : t.WF') (X : Text) : Hd termStart (spellAll t.kv ++ X) := by
  cases t with
  | mk tag pre nd post =>
    have hn := hd_node' (node_wf'_of_term h) (spellAll (post.map postKV).flatten ++ X)
    cases tag with
    | some tg => simp [STerm.kv, tagKV, spellAll_cons, spell, termStart]
    | none =>
      have := hd_pre pre hn
      simpa [STerm.kv, tagKV, spellAll_append] using this

theorem hd_expr' {e : SExpr} (h : e.WF') (X : Text) : Hd termStart (spellAll e.kv ++ X) := by
  have := hd_term' (terms_wf' e h _ (firstTerm_mem e)) (spellAll (tailKV e) ++ X)
  rw [kv_first_tail]
  simpa [spellAll_append] using this

theorem hd_barExpr' (bar : Bool) {e : SExpr} (h : e.WF') (X : Text) :
    Hd exprStart (spellAll (barKV bar ++ e.kv) ++ X) := by
  cases bar with
  | true => simp [barKV, spellAll_cons, spell, exprStart]
  | false =>
    have := hd_expr' h X
    simpa [barKV] using this.mono (fun c hc => by simp [exprStart, hc])

/-! ### what the recursion has to deliver -/

def ExprOK' (rec : M Unit) (e : SExpr) : Prop :=
  ∀ (bar : Bool) (F t tl : Text), Hd closer tl → Sc' (barKV bar ++ e.kv) t tl → Tr F t →
    Sp' rec F () tl (barKV bar ++ e.kv)

def TermOK' (rec : M Unit) (t : STerm) : Prop :=
  ∀ inp tl : Text, Hd afterTerm tl → Sc' t.kv inp tl → Sp' (acceptTerm rec) inp () tl t.kv

def SubOK' (rec : M Unit) : SNode → Prop
  | .push _ e => ExprOK' rec e
  | .paren _ e => ExprOK' rec e
  | _ => True

/-! ### terminals -/

theorem sp_terminal_str' (rec : M Unit) (s : Text) {t tl : Text}
    (hs : Sc' (SNode.str s).kv t tl) :
    ∃ F', Tr F' tl ∧ Sp' (acceptTerminal rec) t true F' (SNode.str s).kv := by
  simp only [SNode.kv] at hs ⊢
  obtain ⟨w, ws, m, hsp, hw, rfl, h1⟩ := sc'_cons_inv hs
  have := sc'_nil_inv h1; subst this
  obtain ⟨body, rfl, hb⟩ := hsp
  refine ⟨ws ++ m, Tr.mk hw m, up ?_⟩
  unfold acceptTerminal
  sp_begin
  sp_step (sp_scanEmit_none .pushLiteral
    (mLit_pushLit_ne (c := 34) (body ++ 34 :: (ws ++ m)) (by decide)))
  sp_step (sp_scanEmit_none .push (mLit_push_ne _ (by decide)))
  sp_step (sp_scanIdent_none _ (by decide))
  sp_step (sp_acceptString' hb (ws ++ m))
  exact Sp.pure true _
  case hi => simp
  case hk => simp

theorem sp_terminal_ci' (rec : M Unit) (s : Text) {t tl : Text} (hs : Sc' (SNode.ci s).kv t tl) :
    ∃ F', Tr F' tl ∧ Sp' (acceptTerminal rec) t true F' (SNode.ci s).kv := by
  simp only [SNode.kv] at hs ⊢
  obtain ⟨w, ws, m, hsp, hw, rfl, h1⟩ := sc'_cons_inv hs
  have := sc'_nil_inv h1; subst this
  obtain ⟨ws0, body, hws0, rfl, hb⟩ := hsp
  refine ⟨ws ++ m, Tr.mk hw m, up ?_⟩
  unfold acceptTerminal
  sp_begin
  sp_step (sp_scanEmit_none .pushLiteral
    (mLit_pushLit_ne (c := 94) (ws0 ++ 34 :: (body ++ 34 :: (ws ++ m))) (by decide)))
  sp_step (sp_scanEmit_none .push (mLit_push_ne _ (by decide)))
  sp_step (sp_scanIdent_none _ (by decide))
  sp_step (sp_acceptString_no (by simp))
  sp_step (sp_acceptCIString' hb hws0 (ws ++ m))
  exact Sp.pure true _
  case hi => simp
  case hk => simp

theorem sp_terminal_range' (rec : M Unit) (a b : Nat) {t tl : Text}
    (hs : Sc' (SNode.range a b).kv t tl) :
    ∃ F', Tr F' tl ∧ Sp' (acceptTerminal rec) t true F' (SNode.range a b).kv := by
  simp only [SNode.kv] at hs ⊢
  obtain ⟨F', hF', hcr⟩ := sp_charRange' a b hs
  obtain ⟨wa, w1, m1, hspa, _, e, _⟩ := sc'_cons_inv hs
  obtain ⟨a', _, hca⟩ := hspa
  obtain ⟨ra, hra⟩ := charSpell_cons hca
  have e' : t = 39 :: (ra ++ (w1 ++ m1)) := by rw [e, hra]; rfl
  refine ⟨F', hF', ?_⟩
  rw [e'] at hcr ⊢
  unfold acceptTerminal
  sp'_begin
  sp'_step (up (sp_scanEmit_none .pushLiteral
    (mLit_pushLit_ne (c := 39) (ra ++ (w1 ++ m1)) (by decide))))
  sp'_step (up (sp_scanEmit_none .push (mLit_push_ne _ (by decide))))
  sp'_step (up (sp_scanIdent_none _ (by decide)))
  sp'_step (up (sp_acceptString_no (by simp)))
  sp'_step (up (sp_acceptCIString_no (by simp)))
  exact hcr
  case hi => rfl
  case hk => simp

theorem sp_terminal_ident' (rec : M Unit) {name : Text} (h : IsIdent name) {t tl : Text}
    (hs : Sc' (SNode.ident name).kv t tl) (htl : Hd afterNode tl) :
    ∃ F', Tr F' tl ∧ Sp' (acceptTerminal rec) t true F' (SNode.ident name).kv := by
  have hv : ∀ kv ∈ (SNode.ident name).kv, Verb kv.1 := by
    intro kv hkv
    simp only [SNode.kv, List.mem_singleton] at hkv
    subst hkv
    exact verb_keyword name
  obtain ⟨F', hF', hsp⟩ := sp_terminal_ident_g rec h (sc_of_sc' hs hv) htl
  exact ⟨F', hF', upv hsp hv⟩

theorem sp_terminal_slice' (rec : M Unit) (a b : Option Int) {t tl : Text}
    (hs : Sc' (SNode.slice a b).kv t tl) :
    ∃ F', Tr F' tl ∧ Sp' (acceptTerminal rec) t true F' (SNode.slice a b).kv := by
  rw [slice_kv] at hs ⊢
  obtain ⟨w, t1, hw, rfl, h1⟩ := sc'_cons_v hs
  have h91 : Hd (· == 91) t1 := by
    have h1' : Sc' ((.lbracket, [91]) :: (optIntKV a ++ ((.rangeOp, [46, 46]) ::
        (optIntKV b ++ [(.rbracket, [93])])))) t1 tl := by simpa [sliceKV] using h1
    obtain ⟨_, _, _, e, _⟩ := sc'_cons_v h1'
    rw [e]; simp
  have hF : Hd nic (w ++ t1) :=
    hd_nic (fun c hc => by simp at hc; subst hc; decide) (Tr.mk hw t1) h91
  have hp := mLit_push_ident_g isIdent_PEEK hF
  have hpl := mLit_pushLit_of_push hp
  have hk : keywordKind sPEEK = .peek := by decide
  obtain ⟨F', hF', hpt⟩ := sp_peekTail_slice' a b h1 (Tr.mk hw t1)
  refine ⟨F', hF', ?_⟩
  unfold acceptTerminal
  sp'_begin
  sp'_step (up (sp_scanEmit_none .pushLiteral hpl))
  sp'_step (up (sp_scanEmit_none .push hp))
  sp'_step (upv (sp_scanIdent_g isIdent_PEEK hF) (by simp [hk]; decide))
  simp only [hk, ↓reduceIte]
  exact hpt
  case hi => rfl
  case hk => simp [hk]

theorem sp_terminal_pushLit' (rec : M Unit) (s : Text) {t tl : Text}
    (hs : Sc' (SNode.pushLit s).kv t tl) :
    ∃ F', Tr F' tl ∧ Sp' (acceptTerminal rec) t true F' (SNode.pushLit s).kv := by
  simp only [SNode.kv] at hs ⊢
  obtain ⟨w1, m1, hw1, rfl, h1⟩ := sc'_cons_v hs
  obtain ⟨w2, m2, hw2, rfl, h2⟩ := sc'_cons_v h1
  obtain ⟨w, w3, m3, hsp, hw3, rfl, h3⟩ := sc'_cons_inv h2
  obtain ⟨w4, m4, hw4, rfl, h4⟩ := sc'_cons_v h3
  have := sc'_nil_inv h4; subst this
  obtain ⟨body, rfl, hb⟩ := hsp
  refine ⟨w4 ++ m4, Tr.mk hw4 m4, up ?_⟩
  unfold acceptTerminal
  sp_begin
  sp_step (sp_scanEmit .pushLiteral (mLit_self sPUSH_LITERAL
    (w1 ++ 40 :: (w2 ++ 34 :: (body ++ 34 :: (w3 ++ 41 :: (w4 ++ m4)))))))
  sp_step (sp_triv_w hw1 (stop_tokc _ (by decide)))
  sp_step (sp_expect 40 .lparen .expectedLParen _)
  sp_step (sp_triv_w hw2 (stop_tokc _ (by decide)))
  sp_step (sp_acceptString' hb (w3 ++ 41 :: (w4 ++ m4)))
  sp_step (sp_triv_w hw3 (stop_tokc _ (by decide)))
  sp_step (sp_expect 41 .rparen .expectedRParen _)
  exact Sp.pure true _
  case hi => simp
  case hk => simp

theorem sp_terminal_push' (rec : M Unit) (bar : Bool) {e : SExpr} (hwf : e.WF')
    (hrec : ExprOK' rec e) {t tl : Text} (hs : Sc' (SNode.push bar e).kv t tl) :
    ∃ F', Tr F' tl ∧ Sp' (acceptTerminal rec) t true F' (SNode.push bar e).kv := by
  rw [push_kv] at hs ⊢
  obtain ⟨w1, m1, hw1, rfl, h1⟩ := sc'_cons_v hs
  obtain ⟨w2, t1, hw2, rfl, h2⟩ := sc'_cons_v h1
  obtain ⟨t2, hE, h3⟩ := sc'_append _ h2
  obtain ⟨w3, m3, hw3, rfl, h4⟩ := sc'_cons_v h3
  have := sc'_nil_inv h4; subst this
  have hE' : Sc' (barKV bar ++ e.kv) t1 (41 :: (w3 ++ m3)) := by simpa using hE
  have hno : mLit sPUSH_LITERAL (sPUSH ++ (w1 ++ 40 :: (w2 ++ t1))) = none :=
    mLit_pushLit_push (isTrivia_hd (fun c hc => by
      have h' : c = 32 ∨ c = 9 ∨ c = 10 ∨ c = 13 ∨ c = 47 := by simp [tokc] at hc; omega
      rcases h' with h | h | h | h | h <;> subst h <;> decide) hw1 (hd_lit _ (by decide)))
  have hst : Stop t1 :=
    (sc'_hd hE' (hd_barExpr' bar hwf _) exprStart_32 digU_exprStart).stop @tokc_exprStart
  refine ⟨w3 ++ m3, Tr.mk hw3 m3, ?_⟩
  unfold acceptTerminal
  sp'_begin
  sp'_step (up (sp_scanEmit_none .pushLiteral hno))
  sp'_step (up (sp_scanEmit .push (mLit_self sPUSH _)))
  sp'_step (up (sp_triv_w hw1 (stop_tokc _ (by decide))))
  sp'_step (up (sp_expect 40 .lparen .expectedLParen _))
  sp'_step (up (sp_triv_w hw2 hst))
  sp'_step (hrec bar t1 t1 (41 :: (w3 ++ m3)) (by simp [closer]) hE' (Tr.refl _))
  sp'_step (up (sp_triv_id (stop_tokc _ (by decide))))
  sp'_step (up (sp_expect 41 .rparen .expectedRParen _))
  exact Sp'.pure true _
  case hi => simp
  case hk => simp

/-- every node but a parenthesis -/
theorem sp_terminal' (rec : M Unit) {nd : SNode} (hwf : nd.WF') (hsub : SubOK' rec nd)
    (hnp : ∀ b e, nd ≠ .paren b e) {t tl : Text} (hs : Sc' nd.kv t tl) (htl : Hd afterNode tl) :
    ∃ F', Tr F' tl ∧ Sp' (acceptTerminal rec) t true F' nd.kv := by
  cases nd with
  | str s => exact sp_terminal_str' rec s hs
  | ci s => exact sp_terminal_ci' rec s hs
  | range a b => exact sp_terminal_range' rec a b hs
  | ident name => exact sp_terminal_ident' rec (by simpa [SNode.WF'] using hwf) hs htl
  | pushLit s => exact sp_terminal_pushLit' rec s hs
  | push b e => exact sp_terminal_push' rec b (by simpa [SNode.WF'] using hwf) hsub hs
  | slice a b => exact sp_terminal_slice' rec a b hs
  | paren b e => exact absurd rfl (hnp b e)

/-! ### terms -/

theorem termOK' (rec : M Unit) {t : STerm} (hwf : t.WF')
    (hsub : match t with | .mk _ _ nd _ => SubOK' rec nd) : TermOK' rec t := by
  intro inp tl htl hs
  cases t with
  | mk tag pre nd post =>
    simp only at hsub
    have hnd : nd.WF' := node_wf'_of_term hwf
    have htag : ∀ tg, tag = some tg → IsTagName tg := by
      intro tg e; subst e; simp only [STerm.WF'] at hwf; exact hwf.1
    have hs' : Sc' (tagKV tag ++ (pre.map preKV ++ (nd.kv ++ postsKV post))) inp tl := by
      simpa [STerm.kv, postsKV] using hs
    obtain ⟨Q, hsT, h1⟩ := sc'_append _ hs'
    obtain ⟨N, hsQ, h2⟩ := sc'_append _ h1
    obtain ⟨P, hsN, hsP⟩ := sc'_append _ h2
    have hP : Hd afterNode P := sc'_hd hsP (hd_posts post htl) afterNode_32 digU_afterNode
    have hN : Hd nodeStart N := sc'_hd hsN (hd_node' hnd P) nodeStart_32 digU_nodeStart
    have hQ : Hd termStart Q := sc'_hd hsQ (hd_pre pre hN) termStart_32 digU_termStart
    have hQ' : Hd preStart Q := sc'_hd hsQ (hd_pre' pre hN) (by decide) digU_preStart
    have htagStep : Sp' acceptTag inp () Q (tagKV tag) := by
      cases tag with
      | some tg => exact sp_acceptTag_some' (htag tg rfl) hsT (hQ.stop @tokc_termStart)
      | none =>
        have := sc'_nil_inv (by simpa [tagKV] using hsT); subst this
        exact up (sp_acceptTag_none (hQ'.mono @preStart_ne35)) .nil
    have hpreStep : Sp' (fun s => prefixLoop (s.rest.length + 1) s) Q () N (pre.map preKV) := by
      refine upv ?_ (verb_preKV _)
      apply Sp.lenFuel pre.length
      · have := pre_length_le' pre hsQ; omega
      · intro n hn
        exact sp_prefixLoop_g pre n Q N hn (sc_of_sc' hsQ (verb_preKV _)) hN
    unfold acceptTerm
    by_cases hp : ∃ b e, nd = .paren b e
    · obtain ⟨b, e, rfl⟩ := hp
      have he : e.WF' := by simpa [SNode.WF'] using hnd
      have hrec : ExprOK' rec e := hsub
      rw [paren_kv] at hsN
      obtain ⟨w1, t1, hw1, rfl, h3⟩ := sc'_cons_v hsN
      obtain ⟨t2, hE, h4⟩ := sc'_append _ h3
      obtain ⟨w2, m2, hw2, rfl, h5⟩ := sc'_cons_v h4
      have := sc'_nil_inv h5; subst this
      have hE' : Sc' (barKV b ++ e.kv) t1 (41 :: (w2 ++ m2)) := by simpa using hE
      have hst : Stop t1 :=
        (sc'_hd hE' (hd_barExpr' b he _) exprStart_32 digU_exprStart).stop @tokc_exprStart
      sp'_begin
      sp'_step htagStep
      sp'_step hpreStep
      sp'_step (up (sp_terminal_paren rec (w1 ++ t1)))
      sp'_step (up (sp_expect 40 .lparen .expectedLParen _))
      sp'_step (up (sp_triv_w hw1 hst))
      sp'_step (hrec b t1 t1 (41 :: (w2 ++ m2)) (by simp [closer]) hE' (Tr.refl _))
      sp'_step (up (sp_triv_id (stop_tokc _ (by decide))))
      sp'_step (up (sp_expect 41 .rparen .expectedRParen _))
      exact sp_acceptPostfixOps' post htl hsP (Tr.mk hw2 m2)
      case hi => rfl
      case hk => simp [STerm.kv, SNode.kv, postsKV]
    · have hnp : ∀ b e, nd ≠ .paren b e := fun b e h => hp ⟨b, e, h⟩
      obtain ⟨F', hF', hterm⟩ := sp_terminal' rec hnd hsub hnp hsN hP
      sp'_begin
      sp'_step htagStep
      sp'_step hpreStep
      sp'_step hterm
      exact sp_acceptPostfixOps' post htl hsP hF'
      case hi => rfl
      case hk => simp [STerm.kv, postsKV]

/-! ### expressions -/

theorem sc'_cons_op {b : Bool} {K : List KV} {t tl : Text} (h : Sc' (opKV b :: K) t tl) :
    ∃ c ws m, IsTrivia ws ∧ t = c :: (ws ++ m) ∧ Sc' K m tl := by
  cases b <;> simp only [opKV] at h <;> obtain ⟨ws, m, hw, rfl, hr⟩ := sc'_cons_v h <;>
    exact ⟨_, ws, m, hw, rfl, hr⟩

theorem nops_le' : ∀ (e : SExpr) {t tl : Text}, Sc' (tailKV e) t tl → nops e + tl.length ≤ t.length
  | .one _, t, tl, h => by
    have := sc'_nil_inv (by simpa [tailKV] using h); subst this; simp [nops]
  | .cons _ b r, t, tl, h => by
    simp only [tailKV] at h
    obtain ⟨c, ws, m, _, rfl, h1⟩ := sc'_cons_op h
    rw [kv_first_tail r] at h1
    obtain ⟨R, h2, h3⟩ := sc'_append _ h1
    have i1 := nops_le' r h3
    have i2 := sc'_length h2
    simp [nops]; omega

theorem verb_opKV (b : Bool) : Verb (opKV b).1 := by cases b <;> decide

theorem sp_exprLoop' (rec : M Unit) : ∀ (e : SExpr), (∀ t ∈ terms e, TermOK' rec t) →
    (∀ t ∈ terms e, t.WF') → ∀ (n : Nat), nops e < n → ∀ (inp tl : Text), Hd closer tl →
    Sc' (tailKV e) inp tl → Sp' (exprLoop rec n) inp () tl (tailKV e)
  | .one t, _, _, n, hn, inp, tl, htl, hs => by
    have := sc'_nil_inv (by simpa [tailKV] using hs); subst this
    cases n with
    | zero => omega
    | succ n =>
      have hat : Hd afterTerm inp := htl.mono @afterTerm_of_closer
      unfold exprLoop
      sp'_begin
      sp'_step (up (sp_triv_id (hat.stop @tokc_afterTerm)))
      sp'_step (up (sp_optChar_no 126 .sequenceOp (head_ne_of_hd htl (by decide))))
      sp'_step (up (sp_optChar_no 124 .choiceOp (head_ne_of_hd htl (by decide))))
      exact Sp'.pure () _
      case hi => rfl
      case hk => simp [tailKV]
  | .cons t b r, hT, hW, n, hn, inp, tl, htl, hs => by
    cases n with
    | zero => omega
    | succ n =>
      have hT' : ∀ t ∈ terms r, TermOK' rec t := fun t ht => hT t (by simp [terms, ht])
      have hW' : ∀ t ∈ terms r, t.WF' := fun t ht => hW t (by simp [terms, ht])
      have hf := firstTerm_mem r
      have hn' : nops r < n := by simp only [nops] at hn; omega
      simp only [tailKV] at hs
      cases b with
      | false =>
        simp only [opKV] at hs
        obtain ⟨w, m, hw, rfl, h1⟩ := sc'_cons_v hs
        rw [kv_first_tail r] at h1
        obtain ⟨R, hFst, hTail⟩ := sc'_append _ h1
        have hR : Hd afterTerm R := sc'_hd hTail (hd_tail r htl) afterTerm_32 digU_afterTerm
        have hfirst := hT' _ hf m R hR hFst
        have hm : Hd termStart m :=
          sc'_hd hFst (hd_term' (hW' _ hf) R) termStart_32 digU_termStart
        have ih := sp_exprLoop' rec r hT' hW' n hn' R tl htl hTail
        unfold exprLoop
        sp'_begin
        sp'_step (up (sp_triv_id (tl := 126 :: (w ++ m)) (stop_tokc _ (by decide))))
        sp'_step (up (sp_optChar 126 .sequenceOp _))
        sp'_step (up (sp_triv_w hw (hm.stop @tokc_termStart)))
        sp'_step hfirst
        exact ih
        case hi => simp
        case hk => simp [tailKV, opKV, kv_first_tail r]
      | true =>
        simp only [opKV] at hs
        obtain ⟨w, m, hw, rfl, h1⟩ := sc'_cons_v hs
        rw [kv_first_tail r] at h1
        obtain ⟨R, hFst, hTail⟩ := sc'_append _ h1
        have hR : Hd afterTerm R := sc'_hd hTail (hd_tail r htl) afterTerm_32 digU_afterTerm
        have hfirst := hT' _ hf m R hR hFst
        have hm : Hd termStart m :=
          sc'_hd hFst (hd_term' (hW' _ hf) R) termStart_32 digU_termStart
        have ih := sp_exprLoop' rec r hT' hW' n hn' R tl htl hTail
        unfold exprLoop
        sp'_begin
        sp'_step (up (sp_triv_id (tl := 124 :: (w ++ m)) (stop_tokc _ (by decide))))
        sp'_step (up (sp_optChar_no 126 .sequenceOp (by simp)))
        sp'_step (up (sp_optChar 124 .choiceOp _))
        sp'_step (up (sp_triv_w hw (hm.stop @tokc_termStart)))
        sp'_step hfirst
        exact ih
        case hi => simp
        case hk => simp [tailKV, opKV, kv_first_tail r]

theorem exprStep_ok' (rec : M Unit) {e : SExpr} (hT : ∀ t ∈ terms e, TermOK' rec t)
    (hwf : e.WF') : ExprOK' (exprStep rec) e := by
  intro bar F t tl htl hs hF
  have hW := terms_wf' e hwf
  have hst : Stop t :=
    (sc'_hd hs (hd_barExpr' bar hwf tl) exprStart_32 digU_exprStart).stop @tokc_exprStart
  obtain ⟨t1, hBar, h1⟩ := sc'_append _ hs
  rw [kv_first_tail e] at h1
  obtain ⟨R, hFst, hTail⟩ := sc'_append _ h1
  have hR : Hd afterTerm R := sc'_hd hTail (hd_tail e htl) afterTerm_32 digU_afterTerm
  have ht1 : Hd termStart t1 :=
    sc'_hd hFst (hd_term' (hW _ (firstTerm_mem e)) R) termStart_32 digU_termStart
  unfold exprStep
  sp'_begin
  sp'_step (up (sp_triv_tr hF hst))
  sp'_step (sp_leadingChoice' bar hBar ht1)
  sp'_step (hT _ (firstTerm_mem e) t1 R hR hFst)
  · apply Sp'.lenFuel (nops e)
    · have := nops_le' e hTail; omega
    · intro n hn
      exact sp_exprLoop' rec e hT hW n hn R tl htl hTail
  case hi => rfl
  case hk => rw [kv_first_tail e]; simp

theorem acceptExpression_ok' : ∀ (fuel : Nat) (e : SExpr), e.WF' → exprDepth e < fuel →
    ExprOK' (acceptExpression fuel) e := by
  intro fuel
  induction fuel with
  | zero => intro e _ h; omega
  | succ f ih =>
    intro e hwf hd
    rw [acceptExpression_succ]
    apply exprStep_ok' _ _ hwf
    intro t ht
    have htw := terms_wf' e hwf t ht
    have htd := terms_depth e t ht
    apply termOK' _ htw
    cases t with
    | mk tag pre nd post =>
      simp only
      have hnd : nd.WF' := node_wf'_of_term htw
      cases nd with
      | push b e' =>
        exact ih e' (by simpa [SNode.WF'] using hnd) (by simp [termDepth, nodeDepth] at htd; omega)
      | paren b e' =>
        exact ih e' (by simpa [SNode.WF'] using hnd) (by simp [termDepth, nodeDepth] at htd; omega)
      | _ => trivial

/-! ### the depth is below the length of the text: count the `(` -/

theorem sc'_lp {kvs : List KV} {t tl : Text} (h : Sc' kvs t tl) :
    lp kvs + tl.length ≤ t.length := by
  induction h with
  | nil _ => simp [lp]
  | cons kv hsp _ _ ih =>
    rw [lp_cons]
    split
    · rename_i hkv
      have : kv = (.lparen, [40]) := by simpa using hkv
      subst this
      have := (spells_verb (by decide)).1 hsp
      subst this
      simp; omega
    · simp; omega

/-! ### rules -/

theorem sp_ruleTail' {r : SRule} (hwf : r.WF') {t more : Text} (hs : Sc' (ruleKV r) t more) :
    ∃ F', Tr F' more ∧ Sp' ruleTail t (some .grammarRule) F' (ruleKV r) := by
  obtain ⟨_, hname, hmod, hbody⟩ := hwf
  obtain ⟨c, rn, hc, hcs, _, _⟩ := isIdent_dest hname
  rw [ruleKV_cons] at hs
  obtain ⟨w1, m1, hw1, rfl, h1⟩ := sc'_cons_v hs
  obtain ⟨w2, t1, hw2, rfl, h2⟩ := sc'_cons_v h1
  obtain ⟨t2, hM, h3⟩ := sc'_append _ h2
  obtain ⟨w3, t3, hw3, rfl, h4⟩ := sc'_cons_v h3
  obtain ⟨t4, hE, h5⟩ := sc'_append _ h4
  obtain ⟨w4, m4, hw4, rfl, h6⟩ := sc'_cons_v h5
  have := sc'_nil_inv h6; subst this
  have hM' : Sc' (modKV r.mod) t1 (123 :: (w3 ++ t3)) := by simpa using hM
  have hE' : Sc' (barKV r.bar ++ r.body.kv) t3 (125 :: (w4 ++ m4)) := by simpa using hE
  have hstart : Stop (r.name ++ (w1 ++ 61 :: (w2 ++ t1))) := by
    rw [hc]; exact stop_tokc _ (tokc_identStart hcs)
  refine ⟨w4 ++ m4, Tr.mk hw4 m4, ?_⟩
  unfold ruleTail
  sp'_begin
  sp'_step (up (sp_triv_id hstart))
  sp'_step (up (sp_scanEmit .identifier (mIdentifier_ident_g hname (hd_nic_w hw1 _ (by decide)))))
  sp'_step (up (sp_triv_w hw1 (stop_tokc _ (by decide))))
  sp'_step (up (sp_expect 61 .assignOp .expectedAssign _))
  sp'_step (up (sp_triv_w hw2 (stop_mod' r.mod hmod hM')))
  sp'_step (sp_optModifier' r.mod hmod hM')
  sp'_step (up (sp_expect 123 .lbrace .expectedLBrace _))
  · apply Sp'.bind' (m := fun s => acceptExpression (s.rest.length + 1) s)
      (k1 := barKV r.bar ++ r.body.kv) (t1 := 125 :: (w4 ++ m4))
    · apply Sp'.lenFuel (exprDepth r.body)
      · have i1 := exprDepth_lp r.body
        have i2 := sc'_lp hE'
        rw [lp_append] at i2
        simp; omega
      · intro n hn
        exact acceptExpression_ok' n r.body hbody hn r.bar _ _ _ (by simp [closer]) hE'
          (Tr.mk hw3 t3)
    · sp'_step (up (sp_expect 125 .rbrace .expectedRBrace _))
      exact Sp'.pure _ _
  case hi => simp
  case hk => simp [ruleKV]

/-! ### the state functions -/

theorem ruleText_hd' {r : SRule} (hwf : r.WF') {t more : Text} (hs : Sc' (ruleKV r) t more) :
    Hd isIdentStart t := by
  obtain ⟨c, rn, hc, hcs, _, _⟩ := isIdent_dest hwf.2.1
  rw [ruleKV_cons] at hs
  obtain ⟨w1, m1, _, rfl, _⟩ := sc'_cons_v hs
  simp [hc, hcs]

theorem sp_stateFn_rule' {F t more : Text} (hF : Tr F t) {r : SRule} (hwf : r.WF')
    (hs : Sc' (ruleKV r) t more) :
    ∃ F', Tr F' more ∧ Sp' (stateFn .grammarRule) F (some .grammarRule) F' (ruleKV r) := by
  have hd := ruleText_hd' hwf hs
  obtain ⟨c, Y, hY, hcs⟩ := hd.dest
  have hst : Stop t := hd.stop @tokc_identStart
  have hnd : mLit sRDOC t = none := by
    rw [hY]
    have := isIdentStart_cases hcs
    exact mLit_ne Y (by omega)
  obtain ⟨F', hF', htail⟩ := sp_ruleTail' hwf hs
  refine ⟨F', hF', ?_⟩
  unfold stateFn
  sp'_begin
  sp'_step (up (sp_triv_tr hF hst))
  sp'_step (up (sp_scanEmit_none .ruleDoc hnd))
  exact htail
  case hi => rfl
  case hk => simp

/-- the end of the text at the rule level: trivia, possibly an unterminated line comment -/
theorem sp_stateFn_end' {F : Text} (hF : TrE F) : Sp (stateFn .grammarRule) F none [] [] := by
  have hlast : Sp (fun s : St => if s.rest.isEmpty then SR.ok (none : Option Fn) s
      else error .expectedRule s) [] none [] [] := by
    intro s hs
    exact ⟨s, by simp [hs], hs, by simp⟩
  unfold stateFn ruleTail
  sp_begin
  sp_step (sp_triv_end hF)
  sp_step (sp_scanEmit_none .ruleDoc (t := []) rfl)
  sp_step (sp_triv_id stop_nil)
  sp_step (sp_scanEmit_none .identifier (t := []) rfl)
  exact hlast
  case hi => rfl
  case hk => simp

/-- the end of the text at the grammar level (no rule, no `///` line) -/
theorem sp_stateFn_grammar_end {F : Text} (hF : TrE F) :
    Sp (stateFn .grammar) F (some .grammarRule) [] [] := by
  unfold stateFn
  sp_begin
  sp_step (sp_triv_end hF)
  sp_step (sp_scanEmit_none .grammarDoc (t := []) rfl)
  exact Sp.pure _ _
  case hi => rfl
  case hk => simp

theorem sp_stateFn_gdocInner' {sp l rest : Text} (hsp : DocSp sp l) (h : NoLF l) (hd : DocEnd l rest) :
    Sp (stateFn .grammarDocInner) (sp ++ (l ++ rest)) (some .grammar) rest [(.commentText, l)] := by
  unfold stateFn
  sp_begin
  sp_step (sp_docInner' hsp h hd)
  exact Sp.pure _ _
  case hi => rfl
  case hk => simp

theorem sp_stateFn_rdocInner' {sp l rest : Text} (hsp : DocSp sp l) (h : NoLF l) (hd : DocEnd l rest) :
    Sp (stateFn .ruleDocInner) (sp ++ (l ++ rest)) (some .grammarRule) rest [(.commentText, l)] := by
  unfold stateFn
  sp_begin
  sp_step (sp_docInner' hsp h hd)
  exact Sp.pure _ _
  case hi => rfl
  case hk => simp

/-! ### the driver loop -/

/-- `run n fn` scans `inp` to the end emitting tokens for the items `K` -/
def RunOK' (n : Nat) (fn : Fn) (inp : Text) (K : List KV) : Prop := Sp' (run n fn) inp () [] K

theorem RunOK'.step {n : Nat} {fn fn' : Fn} {inp t1 : Text} {k1 k2 K : List KV}
    (h1 : Sp' (stateFn fn) inp (some fn') t1 k1) (h2 : RunOK' n fn' t1 k2) (hK : K = k1 ++ k2) :
    RunOK' (n + 1) fn inp K := by
  obtain ⟨k1', a1, s1⟩ := h1
  obtain ⟨k2', a2, s2⟩ := h2
  subst hK
  exact ⟨k1' ++ k2', a1.append a2, RunOK.step s1 s2 rfl⟩

theorem RunOK'.last {n : Nat} {fn : Fn} {inp : Text} {K : List KV}
    (h1 : Sp' (stateFn fn) inp none [] K) : RunOK' (n + 1) fn inp K := by
  obtain ⟨K', a1, s1⟩ := h1
  exact ⟨K', a1, RunOK.last s1⟩

theorem RunOK'.mono {n m : Nat} {fn : Fn} {inp : Text} {K : List KV} (h : RunOK' n fn inp K)
    (hnm : n ≤ m) : RunOK' m fn inp K := by
  obtain ⟨K', a1, s1⟩ := h
  exact ⟨K', a1, RunOK.mono s1 hnm⟩

theorem run_docs' (outer inner : Fn) (marker : TK) (m : Text) (hmv : Verb marker)
    (hO : ∀ F X, Tr F (m ++ X) → Sp (stateFn outer) F (some inner) X [(marker, m)])
    (hI : ∀ sp l rest, DocSp sp l → NoLF l → DocEnd l rest →
      Sp (stateFn inner) (sp ++ (l ++ rest)) (some outer) rest [(.commentText, l)]) :
    ∀ (docs : List Text), (∀ l ∈ docs, NoLF l) → ∀ (n : Nat) (F t tl : Text) (K : List KV),
    DocsText' m docs t tl → Tr F t → (∀ F', Tr F' tl → RunOK' n outer F' K) →
    RunOK' (n + 2 * docs.length) outer F ((docs.map (docKV marker m)).flatten ++ K) := by
  intro docs
  induction docs with
  | nil =>
    intro _ n F t tl K hd hF hk
    have : t = tl := hd
    subst this
    simpa using hk F hF
  | cons l docs ih =>
    intro hd n F t tl K hdt hF hk
    have hl : NoLF l := hd l (by simp)
    obtain ⟨sp, ws, t', hsp, hws, rfl, hde, hrest⟩ := hdt
    have ih' := ih (fun l' h' => hd l' (by simp [h'])) n (ws ++ t') t' tl K hrest
      (Tr.mk hws t') hk
    have e : n + 2 * (l :: docs).length = (n + 2 * docs.length) + 1 + 1 := by simp; omega
    rw [e]
    exact RunOK'.step (up (hO F _ hF) (.cons (actKV_verb hmv) .nil))
      (RunOK'.step (up (hI sp l _ hsp hl hde)) ih' rfl) (by simp [docKV])

theorem run_rdocs' : ∀ (docs : List Text), (∀ l ∈ docs, NoLF l) →
    ∀ (n : Nat) (F t tl : Text) (K : List KV),
    DocsText' sRDOC docs t tl → Tr F t → (∀ F', Tr F' tl → RunOK' n .grammarRule F' K) →
    RunOK' (n + 2 * docs.length) .grammarRule F
      ((docs.map (docKV .ruleDoc sRDOC)).flatten ++ K) :=
  run_docs' .grammarRule .ruleDocInner .ruleDoc sRDOC (by decide)
    (fun _ _ hF => sp_stateFn_rdoc_g hF) (fun _ _ _ hsp h hd => sp_stateFn_rdocInner' hsp h hd)

theorem run_gdocs' : ∀ (docs : List Text), (∀ l ∈ docs, NoLF l) →
    ∀ (n : Nat) (F t tl : Text) (K : List KV),
    DocsText' sGDOC docs t tl → Tr F t → (∀ F', Tr F' tl → RunOK' n .grammar F' K) →
    RunOK' (n + 2 * docs.length) .grammar F
      ((docs.map (docKV .grammarDoc sGDOC)).flatten ++ K) :=
  run_docs' .grammar .grammarDocInner .grammarDoc sGDOC (by decide)
    (fun _ _ hF => sp_stateFn_gdoc_g hF) (fun _ _ _ hsp h hd => sp_stateFn_gdocInner' hsp h hd)

theorem run_rules' : ∀ (rules : List SRule), (∀ r ∈ rules, r.WF') →
    ∀ (n : Nat) (F t tl : Text) (K : List KV), RulesText' rules t tl → Tr F t →
    (∀ F', Tr F' tl → RunOK' n .grammarRule F' K) →
    RunOK' (n + ruleCalls rules) .grammarRule F ((rules.map SRule.kv).flatten ++ K) := by
  intro rules
  induction rules with
  | nil =>
    intro _ n F t tl K hrt hF hk
    have : t = tl := hrt
    subst this
    simpa [ruleCalls] using hk F hF
  | cons r rules ih =>
    intro hwf n F t tl K hrt hF hk
    have hr : r.WF' := hwf r (by simp)
    obtain ⟨t1, t2, hdocs, hsc, hrest⟩ := hrt
    rw [headKV_eq] at hsc
    have hrule : ∀ F', Tr F' t1 → RunOK' (n + ruleCalls rules + 1) .grammarRule F'
        (ruleKV r ++ ((rules.map SRule.kv).flatten ++ K)) := by
      intro F' hF'
      obtain ⟨F'', hF'', hstep⟩ := sp_stateFn_rule' hF' hr hsc
      exact RunOK'.step hstep
        (ih (fun r' h' => hwf r' (by simp [h'])) n F'' t2 tl K hrest hF'' hk) rfl
    have := run_rdocs' r.docs hr.1 (n + ruleCalls rules + 1) F t t1 _ hdocs hF hrule
    have e : n + ruleCalls (r :: rules) = n + ruleCalls rules + 1 + 2 * r.docs.length := by
      simp [ruleCalls]; omega
    rw [e]
    simpa [srule_kv] using this

/-! ### the whole grammar -/

/-- where the rules begin: nothing is left but the end of the text, or a rule name or a `///`
    line follows -/
theorem ruleStart' : ∀ (rules : List SRule), (∀ r ∈ rules, r.WF') → ∀ (trailing : List Text)
    {t1 t2 e : Text}, RulesText' rules t1 t2 → DocsText' sRDOC trailing t2 e →
    (rules = [] ∧ trailing = [] ∧ t1 = e) ∨ RuleStart t1 := by
  intro rules hwf trailing t1 t2 e hr ht
  have docStart : ∀ (l : Text) (ls : List Text) {t tl : Text}, DocsText' sRDOC (l :: ls) t tl →
      RuleStart t := by
    intro l ls t tl h
    obtain ⟨sp, ws, t', _, _, rfl, _, _⟩ := h
    exact Or.inr (Or.inr ⟨_, by simp [sRDOC]; rfl⟩)
  cases rules with
  | nil =>
    have : t1 = t2 := hr
    subst this
    cases trailing with
    | nil => exact Or.inl ⟨rfl, rfl, ht⟩
    | cons l ls => exact Or.inr (docStart l ls ht)
  | cons r rs =>
    right
    have hrw : r.WF' := hwf r (by simp)
    obtain ⟨u1, u2, hdocs, hsc, _⟩ := hr
    cases hd : r.docs with
    | nil =>
      rw [hd] at hdocs
      have : t1 = u1 := hdocs
      subst this
      exact Or.inr (Or.inl (ruleText_hd' hrw hsc))
    | cons l ls => rw [hd] at hdocs; exact docStart l ls hdocs

theorem run_grammar' (g : SGrammar) (h : g.WF') {t : Text} (ht : GrammarText' g t) :
    RunOK' (calls g) .grammar t g.kv := by
  obtain ⟨hg, hr, htr⟩ := h
  obtain ⟨lead, t0, t1, t2, e, hlead, rfl, hgd, hrt, htd, he⟩ := ht
  have hEnd : ∀ F', Tr F' e → RunOK' 1 .grammarRule F' [] := fun F' hF' =>
    RunOK'.last (n := 0) (up (sp_stateFn_end' (TrE.of_tr hF' he)))
  have hTr := fun F' hF' => run_rdocs' g.trailing htr 1 F' t2 e [] htd hF' hEnd
  have hRules := fun F' hF' => run_rules' g.rules hr _ F' t1 t2 _ hrt hF' hTr
  have hG : ∀ F', Tr F' t1 → RunOK' (1 + 2 * g.trailing.length + ruleCalls g.rules + 1) .grammar F'
      ((g.rules.map SRule.kv).flatten ++ ((g.trailing.map (docKV .ruleDoc sRDOC)).flatten ++ [])) := by
    intro F' hF'
    rcases ruleStart' g.rules hr g.trailing hrt htd with ⟨h1, h2, h3⟩ | hRS
    · subst h3
      rw [h1, h2]
      exact RunOK'.step (n := 1) (up (sp_stateFn_grammar_end (TrE.of_tr hF' he)))
        (RunOK'.last (n := 0) (up (sp_stateFn_end' (TrE.mk .nil endC_nil)))) rfl
    · exact RunOK'.step (up (sp_stateFn_grammar_rules_g hF' hRS)) (hRules t1 (Tr.refl t1)) rfl
  have := run_gdocs' g.gdocs hg _ (lead ++ t0) t0 t1 _ hgd (Tr.mk hlead t0) hG
  simpa [calls, SGrammar.kv] using this

theorem docsText'_length {m : Text} (hm : 2 ≤ m.length) : ∀ (docs : List Text) {t tl : Text},
    DocsText' m docs t tl → 2 * docs.length + tl.length ≤ t.length := by
  intro docs
  induction docs with
  | nil => intro t tl h; have : t = tl := h; subst this; simp
  | cons l ls ih =>
    intro t tl h
    obtain ⟨sp, ws, t', _, _, rfl, _, hrest⟩ := h
    have := ih hrest
    simp; omega

theorem rulesText'_length : ∀ (rules : List SRule) {t tl : Text}, RulesText' rules t tl →
    ruleCalls rules + tl.length ≤ t.length := by
  intro rules
  induction rules with
  | nil => intro t tl h; have : t = tl := h; subst this; simp [ruleCalls]
  | cons r rs ih =>
    intro t tl h
    obtain ⟨t1, t2, hdocs, hsc, hrest⟩ := h
    have i1 := ih hrest
    have i2 := docsText'_length (m := sRDOC) (by decide) r.docs hdocs
    have i3 : 1 + t2.length ≤ t1.length := by
      rw [headKV_eq, ruleKV_cons] at hsc
      obtain ⟨_, m1, _, rfl, h1⟩ := sc'_cons_v hsc
      obtain ⟨_, m2, _, rfl, h2⟩ := sc'_cons_v h1
      have := sc'_length h2
      simp; omega
    simp only [ruleCalls]; omega

theorem calls_le' (g : SGrammar) {t : Text} (ht : GrammarText' g t) :
    calls g ≤ 3 * t.length + 3 := by
  obtain ⟨lead, t0, t1, t2, e, _, rfl, hgd, hrt, htd, _⟩ := ht
  have i1 := docsText'_length (m := sGDOC) (by decide) g.gdocs hgd
  have i2 := rulesText'_length g.rules hrt
  have i3 := docsText'_length (m := sRDOC) (by decide) g.trailing htd
  simp only [calls, List.length_append]
  omega

end IA

/-- **Scanner ACCEPT half, every spelling.**  Any text that is a layout of a well-formed
    source-level grammar in the generalised sense of Front/AstText2.lean (arbitrary trivia, any
    escapes in literals, trivia behind `^`, leading zeros, CR LF or the end of the text behind a
    doc line, an unterminated line comment at the end) is accepted by the scanner, and the
    tokens are the items of the grammar: same kinds, same values — numbers, integers and
    character literals carrying their spelling. -/
theorem scan_accept_text' (g : SGrammar) (h : g.WF') {t : Text} (ht : GrammarText' g t) :
    ∃ toks, scan t = .ok toks ∧ Act g.kv (kvOf toks) := by
  obtain ⟨K', hA, hS⟩ := (IA.run_grammar' g h ht).mono (IA.calls_le' g ht)
  obtain ⟨s', e, _, o⟩ := hS (St.init t) rfl
  refine ⟨s'.toks.reverse, ?_, ?_⟩
  · simp only [scan, e]
  · have : kvOf s'.toks.reverse = K' := by simpa [RT.out, St.init, kvOf] using o
    rw [this]; exact hA

namespace IA

/-! ### a concrete instance using the new freedoms

The text `a={"\n"{007}~^ "x"~'\x41'..'b'}//c` (no final line break): an escape in a string, leading
zeros in a bound, a blank between `^` and its string, an escape in a character literal, no trivia
between the other tokens, and an unterminated line comment at the end. -/

namespace Sample

/-- `"\n"{7} ~ ^"x" ~ 'A'..'b'` -/
def body : SExpr :=
  .cons (.mk none [] (.str [10]) [.exact 7]) false
  (.cons (.mk none [] (.ci [120]) []) false
  (.one (.mk none [] (.range 65 98) [])))

def grammar : SGrammar := ⟨[], [⟨[], [97], none, false, body⟩], []⟩

/-- `a={"\n"{007}~^ "x"~'\x41'..'b'}//c` -/
def text : Text :=
  [97, 61, 123, 34, 92, 110, 34, 123, 48, 48, 55, 125, 126, 94, 32, 34, 120, 34, 126,
   39, 92, 120, 52, 49, 39, 46, 46, 39, 98, 39, 125, 47, 47, 99]

theorem grammar_wf : grammar.WF' := by
  simp [grammar, body, SGrammar.WF', SRule.WF', SExpr.WF', STerm.WF', SNode.WF', WFPost]
  unfold IsIdent; decide

theorem grammar_kv : grammar.kv =
    [(.identifier, [97]), (.assignOp, [61]), (.lbrace, [123]), (.string, [10]), (.lbrace, [123]),
     (.number, natDigits 7), (.rbrace, [125]), (.sequenceOp, [126]), (.stringCI, [120]),
     (.sequenceOp, [126]), (.char, charLit 65), (.rangeOp, [46, 46]), (.char, charLit 98),
     (.rbrace, [125])] := by
  simp [grammar, body, SGrammar.kv, SRule.kv, SExpr.kv, STerm.kv, SNode.kv, tagKV, postKV, modKV,
    barKV, opKV]

theorem headKV_eq : (⟨[], [97], none, false, body⟩ : SRule).headKV =
    [(.identifier, [97]), (.assignOp, [61]), (.lbrace, [123]), (.string, [10]), (.lbrace, [123]),
     (.number, natDigits 7), (.rbrace, [125]), (.sequenceOp, [126]), (.stringCI, [120]),
     (.sequenceOp, [126]), (.char, charLit 65), (.rangeOp, [46, 46]), (.char, charLit 98),
     (.rbrace, [125])] := by
  simp [body, SRule.headKV, SExpr.kv, STerm.kv, SNode.kv, tagKV, postKV, modKV, barKV, opKV]

theorem text_layout : GrammarText' grammar text := by
  refine ⟨[], text, text, [47, 47, 99], [47, 47, 99], .nil, rfl, rfl, ?_, rfl,
    .inr ⟨[99], rfl, by decide, by decide, by decide⟩⟩
  refine ⟨text, [47, 47, 99], rfl, ?_, rfl⟩
  rw [headKV_eq]
  exact
    Sc'.cons (w := [97]) (ws := []) _ rfl .nil <|
    Sc'.cons (w := [61]) (ws := []) _ rfl .nil <|
    Sc'.cons (w := [123]) (ws := []) _ rfl .nil <|
    Sc'.cons (w := [34, 92, 110, 34]) (ws := []) _
      ⟨[92, 110], rfl, .esc (e := [110]) (v := 10) (.simple 110 10 rfl) .nil⟩ .nil <|
    Sc'.cons (w := [123]) (ws := []) _ rfl .nil <|
    Sc'.cons (w := [48, 48, 55]) (ws := []) _
      ⟨7, rfl, by decide, by decide, by decide⟩ .nil <|
    Sc'.cons (w := [125]) (ws := []) _ rfl .nil <|
    Sc'.cons (w := [126]) (ws := []) _ rfl .nil <|
    Sc'.cons (w := [94, 32, 34, 120, 34]) (ws := []) _
      ⟨[32], [120], .sp .nil, rfl, .char 120 (by decide) (by decide) .nil⟩ .nil <|
    Sc'.cons (w := [126]) (ws := []) _ rfl .nil <|
    Sc'.cons (w := [39, 92, 120, 52, 49, 39]) (ws := []) _
      ⟨65, rfl, .esc (e := [120, 52, 49]) (v := 65) (.code 52 49 4 1 rfl rfl)⟩ .nil <|
    Sc'.cons (w := [46, 46]) (ws := []) _ rfl .nil <|
    Sc'.cons (w := [39, 98, 39]) (ws := []) _ ⟨98, rfl, .raw 98 (by decide)⟩ .nil <|
    Sc'.cons (w := [125]) (ws := []) _ rfl .nil <|
    Sc'.nil _

example : ∃ toks, scan text = .ok toks ∧ Act grammar.kv (kvOf toks) :=
  scan_accept_text' grammar grammar_wf text_layout

end Sample

end IA
end Front
end Pest
