/-
  Lemmas/Term.lean — termination of the specification L0 on well-formed grammars
  (`WF.wellFormed`, PestModel/WF.lean).

  Part 1 (`Prog`): progress facts, by the step-preservation pattern: a successful run never moves
          the position backwards or beyond the end of the input, and if it leaves the position
          where it was, the expression is `nullable`.
  Part 2: given those facts, every expression of a well-formed grammar converges, by
          lexicographic induction on (input left, rank bound of the left-callable rules,
          expression size); loops (`repLoop`, `skipLoop`) need a budget of at most
          `input left + 1`.
-/
import PestModel.WF
import PestModel.Lemmas.Mono

namespace Pest
namespace Term
open WF

/-! ### primitive matchers stay inside the input and never move backwards -/

theorem startsWithAt_le {inp : Input} : ∀ (x : Str) (p : Nat), startsWithAt inp x p = true →
    p + x.length ≤ inp.size := by
  intro x
  induction x with
  | nil => intro p h; simpa [startsWithAt] using h
  | cons c rest ih =>
    intro p h
    simp only [startsWithAt, Bool.and_eq_true] at h
    have := ih (p + 1) h.2
    simp only [List.length_cons]; omega

theorem startsWithAtCI_le {inp : Input} : ∀ (x : Str) (p : Nat), startsWithAtCI inp x p = true →
    p + x.length ≤ inp.size := by
  intro x
  induction x with
  | nil => intro p h; simpa [startsWithAtCI] using h
  | cons c rest ih =>
    intro p h
    simp only [startsWithAtCI, Bool.and_eq_true] at h
    have := ih (p + 1) h.2
    simp only [List.length_cons]; omega

theorem getElem?_lt {inp : Input} {p : Nat} {x : CP} (h : inp[p]? = some x) : p < inp.size := by
  rcases Nat.lt_or_ge p inp.size with h1 | h1
  · exact h1
  · rw [Array.getElem?_eq_none h1] at h; cases h

theorem matchAll_le {inp : Input} : ∀ (ls : List Str) (p q : Nat), p ≤ inp.size →
    L1.matchAll inp ls p = some q → p ≤ q ∧ q ≤ inp.size := by
  intro ls
  induction ls with
  | nil => intro p q hp h; simp only [L1.matchAll, Option.some.injEq] at h; omega
  | cons l rest ih =>
    intro p q hp h
    simp only [L1.matchAll] at h
    by_cases hm : startsWithAt inp l p = true
    · simp only [hm, ↓reduceIte] at h
      have h1 := startsWithAt_le l p hm
      have := ih (p + l.length) q h1 h
      omega
    · simp only [hm, Bool.false_eq_true, ↓reduceIte] at h; cases h

theorem findFrom_go_le {inp : Input} (sub : Str) : ∀ (n p q : Nat),
    findFrom.go inp sub n p = some q → p ≤ q ∧ q ≤ inp.size := by
  intro n
  induction n with
  | zero => intro p q h; simp [findFrom.go] at h
  | succ n ih =>
    intro p q h
    simp only [findFrom.go] at h
    by_cases hm : startsWithAt inp sub p = true
    · simp only [hm, ↓reduceIte, Option.some.injEq] at h
      have := startsWithAt_le sub p hm
      omega
    · simp only [hm, Bool.false_eq_true, ↓reduceIte] at h
      have := ih (p + 1) q h
      omega

theorem findFrom_le {inp : Input} (sub : Str) (p q : Nat) (h : findFrom inp sub p = some q) :
    p ≤ q ∧ q ≤ inp.size := by
  unfold findFrom at h
  by_cases hp : p > inp.size
  · simp [hp] at h
  · simp only [hp, ↓reduceIte] at h
    exact findFrom_go_le sub _ p q h

theorem foldl_best_le {inp : Input} (p : Nat) (f : Option Nat → Str → Option Nat)
    (hf : ∀ b s, (∀ q, b = some q → p ≤ q ∧ q ≤ inp.size) → ∀ q, f b s = some q → p ≤ q ∧ q ≤ inp.size) :
    ∀ (subs : List Str) (b : Option Nat), (∀ q, b = some q → p ≤ q ∧ q ≤ inp.size) →
      ∀ q, subs.foldl f b = some q → p ≤ q ∧ q ≤ inp.size := by
  intro subs
  induction subs with
  | nil => intro b hb q h; exact hb q h
  | cons s rest ih => intro b hb q h; exact ih (f b s) (hf b s hb) q h

theorem foldl_getD_le {inp : Input} (p : Nat) (f : Option Nat → Str → Option Nat)
    (hf : ∀ b s, (∀ q, b = some q → p ≤ q ∧ q ≤ inp.size) → ∀ q, f b s = some q → p ≤ q ∧ q ≤ inp.size)
    (subs : List Str) (hp : p ≤ inp.size) :
    p ≤ (subs.foldl f none).getD inp.size ∧ (subs.foldl f none).getD inp.size ≤ inp.size := by
  have := foldl_best_le p f hf subs none (by intro q h; cases h)
  cases hb : subs.foldl f none with
  | none => simp; exact hp
  | some q => simpa using this q hb

theorem skipUntilPos_le {inp : Input} (subs : List Str) (p : Nat) (hp : p ≤ inp.size) :
    p ≤ L1.skipUntilPos inp subs p ∧ L1.skipUntilPos inp subs p ≤ inp.size := by
  unfold L1.skipUntilPos
  refine foldl_getD_le p _ ?_ subs hp
  intro b s hbb q hq
  cases hf : findFrom inp s p with
  | none => simp only [hf] at hq; exact hbb q hq
  | some r =>
    simp only [hf] at hq
    have hr := findFrom_le s p r hf
    cases b with
    | none => simp only [Option.some.injEq] at hq; omega
    | some q0 =>
      have h0 := hbb q0 rfl
      simp only [] at hq
      by_cases hlt : r < q0
      · simp only [hlt, ↓reduceIte, Option.some.injEq] at hq; omega
      · simp only [hlt, ↓reduceIte, Option.some.injEq] at hq; omega

theorem find?_mem_pred {α} {p : α → Bool} {l : List α} {a : α} (h : l.find? p = some a) : p a = true :=
  List.find?_some h

theorem optMatchOnce_le (g : Grammar) {inp : Input} (alts : List Alt) (p q : Nat)
    (h : L1.optMatchOnce g inp alts p = some q) : p ≤ q ∧ q ≤ inp.size := by
  unfold L1.optMatchOnce at h
  simp only [] at h
  split at h
  · rename_i s hs
    have h1 := find?_mem_pred hs
    have := startsWithAt_le s p h1
    simp only [Option.some.injEq] at h; omega
  · split at h
    · rename_i s hs
      have h1 := find?_mem_pred hs
      have := startsWithAtCI_le s p h1
      simp only [Option.some.injEq] at h; omega
    · cases hg : inp[p]? with
      | none => simp [hg] at h
      | some c =>
        have hlt := getElem?_lt hg
        simp only [hg] at h
        split at h
        · simp only [Option.some.injEq] at h; omega
        · split at h
          · simp only [Option.some.injEq] at h; omega
          · cases h

theorem optMatchStar_le (g : Grammar) {inp : Input} (alts : List Alt) : ∀ (n p : Nat), p ≤ inp.size →
    p ≤ L1.optMatchStar g inp alts n p ∧ L1.optMatchStar g inp alts n p ≤ inp.size := by
  intro n
  induction n with
  | zero => intro p hp; simp [L1.optMatchStar, hp]
  | succ n ih =>
    intro p hp
    simp only [L1.optMatchStar]
    cases ho : L1.optMatchOnce g inp alts p with
    | none => simp [hp]
    | some q =>
      have hq := optMatchOnce_le g alts p q ho
      simp only []
      by_cases hgt : q > p
      · simp only [hgt, ↓reduceIte]
        have := ih q hq.2
        omega
      · simp only [hgt, ↓reduceIte]; omega

theorem optMatch_le (g : Grammar) {inp : Input} (alts : List Alt) (star : Bool) (p q : Nat)
    (hp : p ≤ inp.size) (h : L1.optMatch g inp alts star p = some q) : p ≤ q ∧ q ≤ inp.size := by
  unfold L1.optMatch at h
  by_cases he : alts.isEmpty = true
  · simp only [he, ↓reduceIte, Option.some.injEq] at h; omega
  · simp only [he, Bool.false_eq_true, ↓reduceIte] at h
    by_cases hs : star = true
    · simp only [hs, ↓reduceIte, Option.some.injEq] at h
      have := optMatchStar_le g alts (inp.size + 1 - p) p hp
      omega
    · simp only [hs, Bool.false_eq_true, ↓reduceIte] at h
      exact optMatchOnce_le g alts p q h

/-! ### Part 1: progress -/

section prog
variable (g : Grammar) (inp : Input) (N : List String)

/-- a successful run moves the position forward, stays inside the input, and stays put only
    if the expression is nullable -/
def Prog (rec : Sem0) : Prop :=
  ∀ e s s' ps, s.pos ≤ inp.size → rec e s = .ok s' ps →
    s.pos ≤ s'.pos ∧ s'.pos ≤ inp.size ∧ (s'.pos = s.pos → nullable N e = true)

/-- `N` is closed: a rule with a nullable body is in `N` -/
def NClosed : Prop := ∀ r ∈ g.rules, nullable N r.body = true → N.contains r.name = true

theorem nClosed_of_check (h : nullClosed g N = true) : NClosed g N := by
  intro r hr hn
  simp only [nullClosed, List.all_eq_true, Bool.or_eq_true, Bool.not_eq_true'] at h
  rcases h r hr with h' | h'
  · rw [hn] at h'; cases h'
  · exact h'

theorem lookup_mem {n : String} {r : Rule} (h : g.lookup n = some r) : r ∈ g.rules :=
  List.mem_of_find?_eq_some h

theorem lookup_name {n : String} {r : Rule} (h : g.lookup n = some r) : r.name = n := by
  have := List.find?_some h
  simpa using this

theorem fusedSkip_lookup {r : Rule} (h : g.fusedSkip = some r) : g.lookup "SKIP" = some r := by
  unfold Grammar.fusedSkip at h
  cases hl : g.lookup "SKIP" with
  | none => rw [hl] at h; cases h
  | some q =>
    rw [hl] at h
    simp only [] at h
    split at h
    · cases h; rfl
    · cases h

variable {g inp N}

theorem ruleWrap_pos {name : String} {mod : Nat} {s s1 s' : S0} {ps1 ps : List Pair}
    (h : L0.ruleWrap name mod s s1 ps1 = .ok s' ps) : s'.pos = s1.pos := by
  unfold L0.ruleWrap at h
  by_cases hS : hasBit mod SILENT = true
  · simp only [hS, ↓reduceIte, R0.ok.injEq] at h; rw [← h.1]
  · simp only [hS, Bool.false_eq_true, ↓reduceIte, R0.ok.injEq] at h; rw [← h.1]

theorem ruleApply_prog {rec : Sem0} (h : Prog inp N rec) {name : String} {mod : Nat} {body : Expr}
    {s s' : S0} {ps : List Pair} (hs : s.pos ≤ inp.size)
    (hr : L0.ruleApply rec name mod body s = .ok s' ps) :
    s.pos ≤ s'.pos ∧ s'.pos ≤ inp.size ∧ (s'.pos = s.pos → nullable N body = true) := by
  unfold L0.ruleApply at hr
  cases hb : rec body { s with atomic := L0.ruleAtomic name mod s.atomic } with
  | ok s1 ps1 =>
    rw [hb] at hr
    have hp := ruleWrap_pos hr
    have := h body { s with atomic := L0.ruleAtomic name mod s.atomic } s1 ps1 hs hb
    rw [hp]; exact this
  | fail => rw [hb] at hr; cases hr
  | oof => rw [hb] at hr; cases hr
  | stuck => rw [hb] at hr; cases hr

theorem callRule_prog {rec : Sem0} (hN : NClosed g N) (h : Prog inp N rec) {name : String}
    {s s' : S0} {ps : List Pair} (hs : s.pos ≤ inp.size)
    (hr : L0.callRule g rec name s = .ok s' ps) :
    s.pos ≤ s'.pos ∧ s'.pos ≤ inp.size ∧ (s'.pos = s.pos → N.contains name = true) := by
  unfold L0.callRule at hr
  cases hl : g.lookup name with
  | none => rw [hl] at hr; cases hr
  | some r =>
    rw [hl] at hr
    have := ruleApply_prog h hs hr
    refine ⟨this.1, this.2.1, fun he => ?_⟩
    have := hN r (lookup_mem g hl) (this.2.2 he)
    rwa [lookup_name g hl] at this

theorem trySkip_prog {rec : Sem0} (h : Prog inp N rec) {ro : Option Rule} {s s' : S0}
    {ps : List Pair} (hs : s.pos ≤ inp.size) (hr : L0.trySkip rec ro s = .matched s' ps) :
    ∃ r, ro = some r ∧ s.pos ≤ s'.pos ∧ s'.pos ≤ inp.size ∧
      (s'.pos = s.pos → nullable N r.body = true) := by
  unfold L0.trySkip at hr
  cases ro with
  | none => cases hr
  | some r =>
    simp only [] at hr
    cases ha : L0.ruleApply rec r.name r.mod r.body s with
    | ok s1 ps1 =>
      rw [ha] at hr
      simp only [L0.Try0.matched.injEq] at hr
      obtain ⟨rfl, _⟩ := hr
      exact ⟨r, rfl, ruleApply_prog h hs ha⟩
    | fail => rw [ha] at hr; cases hr
    | oof => rw [ha] at hr; cases hr
    | stuck => rw [ha] at hr; cases hr

theorem skipLoop_prog {rec : Sem0} (h : Prog inp N rec) (ws cm : Option Rule) :
    ∀ (k : Nat) (s : S0) (acc : List Pair) (s' : S0) (ps : List Pair), s.pos ≤ inp.size →
      L0.skipLoop rec ws cm k s acc = .ok s' ps → s.pos ≤ s'.pos ∧ s'.pos ≤ inp.size := by
  intro k
  induction k with
  | zero => intro s acc s' ps _ hr; cases hr
  | succ k ih =>
    intro s acc s' ps hs hr
    simp only [L0.skipLoop] at hr
    cases h1 : L0.trySkip rec ws s with
    | matched s1 ps1 =>
      rw [h1] at hr
      obtain ⟨_, _, a, b, _⟩ := trySkip_prog h hs h1
      have := ih s1 _ s' ps b hr
      omega
    | stop r => rw [h1] at hr; simp only [] at hr; subst hr; unfold L0.trySkip at h1; cases ws with
      | none => cases h1
      | some r =>
        simp only [] at h1
        cases ha : L0.ruleApply rec r.name r.mod r.body s with
        | ok s1 ps1 => rw [ha] at h1; cases h1
        | fail => rw [ha] at h1; cases h1
        | oof => rw [ha] at h1; cases h1
        | stuck => rw [ha] at h1; cases h1
    | no =>
      rw [h1] at hr
      simp only [] at hr
      cases h2 : L0.trySkip rec cm s with
      | matched s1 ps1 =>
        rw [h2] at hr
        obtain ⟨_, _, a, b, _⟩ := trySkip_prog h hs h2
        have := ih s1 _ s' ps b hr
        omega
      | stop r => rw [h2] at hr; simp only [] at hr; subst hr; unfold L0.trySkip at h2; cases cm with
        | none => cases h2
        | some r =>
          simp only [] at h2
          cases ha : L0.ruleApply rec r.name r.mod r.body s with
          | ok s1 ps1 => rw [ha] at h2; cases h2
          | fail => rw [ha] at h2; cases h2
          | oof => rw [ha] at h2; cases h2
          | stuck => rw [ha] at h2; cases h2
      | no =>
        rw [h2] at hr
        simp only [R0.ok.injEq] at hr
        obtain ⟨rfl, _⟩ := hr
        omega

theorem skip_prog {rec : Sem0} (h : Prog inp N rec) {k : Nat} {s s' : S0} {ps : List Pair}
    (hs : s.pos ≤ inp.size) (hr : L0.skip g rec k s = .ok s' ps) :
    s.pos ≤ s'.pos ∧ s'.pos ≤ inp.size := by
  unfold L0.skip at hr
  by_cases ha : s.atomic = true
  · simp only [ha, ↓reduceIte, R0.ok.injEq] at hr; obtain ⟨rfl, _⟩ := hr; omega
  · simp only [ha, Bool.false_eq_true, ↓reduceIte] at hr
    cases hf : g.fusedSkip with
    | some r =>
      rw [hf] at hr; simp only [] at hr
      have := ruleApply_prog h hs hr
      exact ⟨this.1, this.2.1⟩
    | none =>
      rw [hf] at hr; simp only [] at hr
      by_cases hn : ((g.lookup "WHITESPACE").isNone && (g.lookup "COMMENT").isNone) = true
      · simp only [hn, ↓reduceIte, R0.ok.injEq] at hr; obtain ⟨rfl, _⟩ := hr; omega
      · simp only [hn, Bool.false_eq_true, ↓reduceIte] at hr
        exact skipLoop_prog h _ _ k s [] s' ps hs hr

theorem seqL_prog {rec : Sem0} (h : Prog inp N rec) (k : Nat) :
    ∀ (es : List Expr) (s : S0) (acc : List Pair) (s' : S0) (ps : List Pair), s.pos ≤ inp.size →
      L0.seqL g rec k es s acc = .ok s' ps →
      s.pos ≤ s'.pos ∧ s'.pos ≤ inp.size ∧ (s'.pos = s.pos → nullableAll N es = true) := by
  intro es
  induction es with
  | nil =>
    intro s acc s' ps hs hr
    simp only [L0.seqL, R0.ok.injEq] at hr
    obtain ⟨rfl, _⟩ := hr
    exact ⟨Nat.le_refl _, hs, fun _ => by simp [nullableAll]⟩
  | cons e rest ih =>
    intro s acc s' ps hs hr
    simp only [L0.seqL] at hr
    cases he : rec e s with
    | ok s1 ps1 =>
      rw [he] at hr; simp only [] at hr
      have p1 := h e s s1 ps1 hs he
      by_cases hre : rest.isEmpty = true
      · simp only [hre, ↓reduceIte, R0.ok.injEq] at hr
        obtain ⟨rfl, _⟩ := hr
        have : rest = [] := by simpa using hre
        subst this
        exact ⟨p1.1, p1.2.1, fun he' => by simp [nullableAll, p1.2.2 he']⟩
      · simp only [hre, Bool.false_eq_true, ↓reduceIte] at hr
        cases hsk : L0.skip g rec k s1 with
        | ok s2 tps =>
          rw [hsk] at hr; simp only [] at hr
          have p2 := skip_prog h p1.2.1 hsk
          have p3 := ih s2 _ s' ps p2.2 hr
          refine ⟨by omega, p3.2.1, fun he' => ?_⟩
          have e1 : s1.pos = s.pos := by omega
          have e2 : s'.pos = s2.pos := by omega
          simp [nullableAll, p1.2.2 e1, p3.2.2 e2]
        | fail =>
          rw [hsk] at hr; simp only [] at hr
          have p3 := ih s1 _ s' ps p1.2.1 hr
          refine ⟨by omega, p3.2.1, fun he' => ?_⟩
          have e1 : s1.pos = s.pos := by omega
          have e2 : s'.pos = s1.pos := by omega
          simp [nullableAll, p1.2.2 e1, p3.2.2 e2]
        | oof => rw [hsk] at hr; cases hr
        | stuck => rw [hsk] at hr; cases hr
    | fail => rw [he] at hr; cases hr
    | oof => rw [he] at hr; cases hr
    | stuck => rw [he] at hr; cases hr

theorem choiceL_prog {rec : Sem0} (h : Prog inp N rec) :
    ∀ (es : List Expr) (s : S0) (s' : S0) (ps : List Pair), s.pos ≤ inp.size →
      L0.choiceL rec es s = .ok s' ps →
      s.pos ≤ s'.pos ∧ s'.pos ≤ inp.size ∧ (s'.pos = s.pos → nullableAny N es = true) := by
  intro es
  induction es with
  | nil => intro s s' ps _ hr; cases hr
  | cons e rest ih =>
    intro s s' ps hs hr
    simp only [L0.choiceL] at hr
    cases he : rec e s with
    | ok s1 ps1 =>
      rw [he] at hr; simp only [R0.ok.injEq] at hr
      obtain ⟨rfl, _⟩ := hr
      have p1 := h e s s1 ps1 hs he
      exact ⟨p1.1, p1.2.1, fun he' => by simp [nullableAny, p1.2.2 he']⟩
    | fail =>
      rw [he] at hr; simp only [] at hr
      have p := ih s s' ps hs hr
      exact ⟨p.1, p.2.1, fun he' => by simp [nullableAny, p.2.2 he']⟩
    | oof => rw [he] at hr; cases hr
    | stuck => rw [he] at hr; cases hr

theorem repLoop_prog {rec : Sem0} (h : Prog inp N rec) (e : Expr) (kk : Nat) :
    ∀ (k : Nat) (first : Bool) (s : S0) (acc : List Pair) (s' : S0) (ps : List Pair),
      s.pos ≤ inp.size → L0.repLoop g rec e k kk first s acc = .ok s' ps →
      s.pos ≤ s'.pos ∧ s'.pos ≤ inp.size := by
  intro k
  induction k with
  | zero => intro first s acc s' ps _ hr; cases hr
  | succ k ih =>
    intro first s acc s' ps hs hr
    simp only [L0.repLoop] at hr
    have hA : ∀ s1 tps, (if first = true then R0.ok s [] else L0.skip g rec kk s) = .ok s1 tps →
        s.pos ≤ s1.pos ∧ s1.pos ≤ inp.size := by
      intro s1 tps ha
      by_cases hf : first = true
      · simp only [hf, ↓reduceIte, R0.ok.injEq] at ha; obtain ⟨rfl, _⟩ := ha; omega
      · simp only [hf, Bool.false_eq_true, ↓reduceIte] at ha; exact skip_prog h hs ha
    cases ha : (if first = true then R0.ok s [] else L0.skip g rec kk s) with
    | ok s1 tps =>
      rw [ha] at hr; simp only [] at hr
      have p1 := hA s1 tps ha
      cases he : rec e s1 with
      | ok s2 ps2 =>
        rw [he] at hr; simp only [] at hr
        have p2 := h e s1 s2 ps2 p1.2 he
        have p3 := ih false s2 _ s' ps p2.2.1 hr
        omega
      | fail => rw [he] at hr; simp only [R0.ok.injEq] at hr; obtain ⟨rfl, _⟩ := hr; omega
      | oof => rw [he] at hr; cases hr
      | stuck => rw [he] at hr; cases hr
    | fail => rw [ha] at hr; simp only [R0.ok.injEq] at hr; obtain ⟨rfl, _⟩ := hr; omega
    | oof => rw [ha] at hr; cases hr
    | stuck => rw [ha] at hr; cases hr

theorem nullableAll_append (a b : List Expr) :
    nullableAll N (a ++ b) = (nullableAll N a && nullableAll N b) := by
  induction a with
  | nil => simp [nullableAll]
  | cons x xs ih => simp [nullableAll, ih, Bool.and_assoc]

theorem nullableAll_replicate {n : Nat} {e : Expr} (h : nullableAll N (List.replicate n e) = true) :
    n = 0 ∨ nullable N e = true := by
  cases n with
  | zero => exact Or.inl rfl
  | succ n =>
    simp only [List.replicate_succ, nullableAll, Bool.and_eq_true] at h
    exact Or.inr h.1

theorem step_prog {rec : Sem0} (hN : NClosed g N) (k : Nat) (h : Prog inp N rec) :
    Prog inp N (L0.step g inp k rec) := by
  intro e s s' ps hs hr
  cases e with
  | str x =>
    simp only [L0.step] at hr
    by_cases hm : startsWithAt inp x s.pos = true
    · simp only [hm, ↓reduceIte, R0.ok.injEq] at hr
      obtain ⟨rfl, _⟩ := hr
      have := startsWithAt_le x s.pos hm
      refine ⟨by simp [L0.adv], by simp [L0.adv]; omega, fun he => ?_⟩
      simp only [L0.adv] at he
      have : x.length = 0 := by omega
      simp [nullable, List.length_eq_zero_iff.1 this]
    · simp only [hm, Bool.false_eq_true, ↓reduceIte] at hr; cases hr
  | ci x =>
    simp only [L0.step] at hr
    by_cases hm : startsWithAtCI inp x s.pos = true
    · simp only [hm, ↓reduceIte, R0.ok.injEq] at hr
      obtain ⟨rfl, _⟩ := hr
      have := startsWithAtCI_le x s.pos hm
      refine ⟨by simp [L0.adv], by simp [L0.adv]; omega, fun he => ?_⟩
      simp only [L0.adv] at he
      have : x.length = 0 := by omega
      simp [nullable, List.length_eq_zero_iff.1 this]
    · simp only [hm, Bool.false_eq_true, ↓reduceIte] at hr; cases hr
  | range a b =>
    simp only [L0.step] at hr
    cases hg : inp[s.pos]? with
    | none => rw [hg] at hr; cases hr
    | some c =>
      rw [hg] at hr; simp only [] at hr
      have := getElem?_lt hg
      by_cases hm : (decide (a ≤ c) && decide (c ≤ b)) = true
      · simp only [hm, ↓reduceIte, R0.ok.injEq] at hr
        obtain ⟨rfl, _⟩ := hr
        refine ⟨by simp [L0.adv], by simp [L0.adv]; omega, fun he => ?_⟩
        simp only [L0.adv] at he; omega
      · simp only [hm, Bool.false_eq_true, ↓reduceIte] at hr; cases hr
  | ident name tag =>
    simp only [L0.step] at hr
    have := callRule_prog hN h hs hr
    exact ⟨this.1, this.2.1, fun he => by simpa [nullable] using this.2.2 he⟩
  | rule name mod sm body =>
    simp only [L0.step] at hr
    have := ruleApply_prog h hs hr
    exact ⟨this.1, this.2.1, fun he => by simpa [nullable] using this.2.2 he⟩
  | seq es =>
    simp only [L0.step] at hr
    have := seqL_prog h k es s [] s' ps hs hr
    exact ⟨this.1, this.2.1, fun he => by simpa [nullable] using this.2.2 he⟩
  | choice es =>
    simp only [L0.step] at hr
    have := choiceL_prog h es s s' ps hs hr
    exact ⟨this.1, this.2.1, fun he => by simpa [nullable] using this.2.2 he⟩
  | opt e =>
    simp only [L0.step] at hr
    cases he : rec e s with
    | ok s1 ps1 =>
      rw [he] at hr; simp only [R0.ok.injEq] at hr; obtain ⟨rfl, _⟩ := hr
      have := h e s s1 ps1 hs he
      exact ⟨this.1, this.2.1, fun _ => by simp [nullable]⟩
    | fail =>
      rw [he] at hr; simp only [R0.ok.injEq] at hr; obtain ⟨rfl, _⟩ := hr
      exact ⟨Nat.le_refl _, hs, fun _ => by simp [nullable]⟩
    | oof => rw [he] at hr; cases hr
    | stuck => rw [he] at hr; cases hr
  | rep e =>
    simp only [L0.step] at hr
    have := repLoop_prog h e k k true s [] s' ps hs hr
    exact ⟨this.1, this.2, fun _ => by simp [nullable]⟩
  | rep1 e =>
    simp only [L0.step] at hr
    have := seqL_prog h k _ s [] s' ps hs hr
    refine ⟨this.1, this.2.1, fun he => ?_⟩
    have := this.2.2 he
    simp only [nullableAll, Bool.and_eq_true] at this
    simpa [nullable] using this.1
  | repExact e n =>
    simp only [L0.step] at hr
    have := seqL_prog h k _ s [] s' ps hs hr
    refine ⟨this.1, this.2.1, fun he => ?_⟩
    rcases nullableAll_replicate (this.2.2 he) with h0 | h0 <;> simp [nullable, h0]
  | repMin e n =>
    simp only [L0.step] at hr
    have := seqL_prog h k _ s [] s' ps hs hr
    refine ⟨this.1, this.2.1, fun he => ?_⟩
    have := this.2.2 he
    rw [nullableAll_append, Bool.and_eq_true] at this
    rcases nullableAll_replicate this.1 with h0 | h0 <;> simp [nullable, h0]
  | repMax e n =>
    simp only [L0.step] at hr
    have := seqL_prog h k _ s [] s' ps hs hr
    exact ⟨this.1, this.2.1, fun _ => by simp [nullable]⟩
  | repMinMax e m n =>
    simp only [L0.step] at hr
    have := seqL_prog h k _ s [] s' ps hs hr
    refine ⟨this.1, this.2.1, fun he => ?_⟩
    have := this.2.2 he
    rw [nullableAll_append, Bool.and_eq_true] at this
    rcases nullableAll_replicate this.1 with h0 | h0 <;> simp [nullable, h0]
  | andP e =>
    simp only [L0.step] at hr
    cases he : rec e s with
    | ok s1 ps1 =>
      rw [he] at hr; simp only [R0.ok.injEq] at hr; obtain ⟨rfl, _⟩ := hr
      exact ⟨Nat.le_refl _, hs, fun _ => by simp [nullable]⟩
    | fail => rw [he] at hr; cases hr
    | oof => rw [he] at hr; cases hr
    | stuck => rw [he] at hr; cases hr
  | notP e =>
    simp only [L0.step] at hr
    cases he : rec e s with
    | ok s1 ps1 => rw [he] at hr; cases hr
    | fail =>
      rw [he] at hr; simp only [R0.ok.injEq] at hr; obtain ⟨rfl, _⟩ := hr
      exact ⟨Nat.le_refl _, hs, fun _ => by simp [nullable]⟩
    | oof => rw [he] at hr; cases hr
    | stuck => rw [he] at hr; cases hr
  | group e tag =>
    simp only [L0.step] at hr
    have := h e s s' ps hs hr
    exact ⟨this.1, this.2.1, fun he => by simpa [nullable] using this.2.2 he⟩
  | push e =>
    simp only [L0.step] at hr
    cases he : rec e s with
    | ok s1 ps1 =>
      rw [he] at hr; simp only [R0.ok.injEq] at hr; obtain ⟨rfl, _⟩ := hr
      have := h e s s1 ps1 hs he
      exact ⟨this.1, this.2.1, fun he' => by simpa [nullable] using this.2.2 he'⟩
    | fail => rw [he] at hr; cases hr
    | oof => rw [he] at hr; cases hr
    | stuck => rw [he] at hr; cases hr
  | pushLit x =>
    simp only [L0.step, R0.ok.injEq] at hr; obtain ⟨rfl, _⟩ := hr
    exact ⟨Nat.le_refl _, hs, fun _ => by simp [nullable]⟩
  | peek =>
    simp only [L0.step] at hr
    cases hst : s.stk with
    | nil => rw [hst] at hr; cases hr
    | cons t r =>
      rw [hst] at hr; simp only [] at hr
      by_cases hm : startsWithAt inp t s.pos = true
      · simp only [hm, ↓reduceIte, R0.ok.injEq] at hr
        obtain ⟨rfl, _⟩ := hr
        have := startsWithAt_le t s.pos hm
        exact ⟨by simp [L0.adv], by simp [L0.adv]; omega, fun _ => by simp [nullable]⟩
      · simp only [hm, Bool.false_eq_true, ↓reduceIte] at hr; cases hr
  | pop =>
    simp only [L0.step] at hr
    cases hst : s.stk with
    | nil => rw [hst] at hr; cases hr
    | cons t r =>
      rw [hst] at hr; simp only [] at hr
      by_cases hm : startsWithAt inp t s.pos = true
      · simp only [hm, ↓reduceIte, R0.ok.injEq] at hr
        obtain ⟨rfl, _⟩ := hr
        have := startsWithAt_le t s.pos hm
        exact ⟨by simp [L0.adv], by simp [L0.adv]; omega, fun _ => by simp [nullable]⟩
      · simp only [hm, Bool.false_eq_true, ↓reduceIte] at hr; cases hr
  | drop =>
    simp only [L0.step] at hr
    cases hst : s.stk with
    | nil => rw [hst] at hr; cases hr
    | cons t r =>
      rw [hst] at hr; simp only [R0.ok.injEq] at hr; obtain ⟨rfl, _⟩ := hr
      exact ⟨Nat.le_refl _, hs, fun _ => by simp [nullable]⟩
  | peekAll =>
    simp only [L0.step, L0.matchLits] at hr
    cases hm : L1.matchAll inp s.stk s.pos with
    | none => rw [hm] at hr; cases hr
    | some q =>
      rw [hm] at hr; simp only [R0.ok.injEq] at hr; obtain ⟨rfl, _⟩ := hr
      have := matchAll_le _ _ _ hs hm
      exact ⟨this.1, this.2, fun _ => by simp [nullable]⟩
  | popAll =>
    simp only [L0.step, L0.matchLits] at hr
    cases hm : L1.matchAll inp s.stk s.pos with
    | none => rw [hm] at hr; cases hr
    | some q =>
      rw [hm] at hr; simp only [R0.ok.injEq] at hr; obtain ⟨rfl, _⟩ := hr
      have := matchAll_le _ _ _ hs hm
      exact ⟨this.1, this.2, fun _ => by simp [nullable]⟩
  | peekSlice a b =>
    simp only [L0.step, L0.matchLits] at hr
    cases hm : L1.matchAll inp (pySlice s.stk.reverse a b) s.pos with
    | none => rw [hm] at hr; cases hr
    | some q =>
      rw [hm] at hr; simp only [R0.ok.injEq] at hr; obtain ⟨rfl, _⟩ := hr
      have := matchAll_le _ _ _ hs hm
      exact ⟨this.1, this.2, fun _ => by simp [nullable]⟩
  | anyB =>
    simp only [L0.step] at hr
    by_cases hm : s.pos < inp.size
    · simp only [hm, ↓reduceIte, R0.ok.injEq] at hr
      obtain ⟨rfl, _⟩ := hr
      refine ⟨by simp [L0.adv], by simp [L0.adv]; omega, fun he => ?_⟩
      simp only [L0.adv] at he; omega
    · simp only [hm, ↓reduceIte] at hr; cases hr
  | soiB =>
    simp only [L0.step] at hr
    by_cases hm : (s.pos == 0) = true
    · simp only [hm, ↓reduceIte, R0.ok.injEq] at hr; obtain ⟨rfl, _⟩ := hr
      exact ⟨Nat.le_refl _, hs, fun _ => by simp [nullable]⟩
    · simp only [hm, Bool.false_eq_true, ↓reduceIte] at hr; cases hr
  | eoiB =>
    simp only [L0.step] at hr
    by_cases hm : (s.pos == inp.size) = true
    · simp only [hm, ↓reduceIte, R0.ok.injEq] at hr; obtain ⟨rfl, _⟩ := hr
      exact ⟨Nat.le_refl _, hs, fun _ => by simp [nullable]⟩
    · simp only [hm, Bool.false_eq_true, ↓reduceIte] at hr; cases hr
  | uprop n =>
    simp only [L0.step] at hr
    cases hg : inp[s.pos]? with
    | none => rw [hg] at hr; cases hr
    | some c =>
      rw [hg] at hr; simp only [] at hr
      have := getElem?_lt hg
      by_cases hm : g.uprop n c = true
      · simp only [hm, ↓reduceIte, R0.ok.injEq] at hr
        obtain ⟨rfl, _⟩ := hr
        refine ⟨by simp [L0.adv], by simp [L0.adv]; omega, fun he => ?_⟩
        simp only [L0.adv] at he; omega
      · simp only [hm, Bool.false_eq_true, ↓reduceIte] at hr; cases hr
  | skipUntil subs =>
    simp only [L0.step, R0.ok.injEq] at hr; obtain ⟨rfl, _⟩ := hr
    have := skipUntilPos_le subs s.pos hs
    exact ⟨this.1, this.2, fun _ => by simp [nullable]⟩
  | optChoice alts star =>
    simp only [L0.step] at hr
    cases hm : L1.optMatch g inp alts star s.pos with
    | none => rw [hm] at hr; cases hr
    | some q =>
      rw [hm] at hr; simp only [R0.ok.injEq] at hr; obtain ⟨rfl, _⟩ := hr
      have := optMatch_le g alts star s.pos q hs hm
      exact ⟨this.1, this.2, fun _ => by simp [nullable]⟩

theorem run_prog (hN : NClosed g N) : ∀ n, Prog inp N (L0.run g inp n) := by
  intro n
  induction n with
  | zero => intro e s s' ps _ hr; cases hr
  | succ n ih => exact step_prog hN n ih

end prog

/-! ### Part 2: convergence -/

mutual
/-- a size under which the unrolled forms of the bounded repetitions are smaller than the node -/
def esize : Expr → Nat
  | .rule _ _ _ b => esize b + 1
  | .seq es => esizeL es + 1
  | .choice es => esizeL es + 1
  | .opt e => esize e + 1
  | .rep e => esize e + 1
  | .rep1 e => esize e + 2
  | .repExact e _ => esize e + 1
  | .repMin e _ => esize e + 2
  | .repMax e _ => esize e + 2
  | .repMinMax e _ _ => esize e + 2
  | .andP e => esize e + 1
  | .notP e => esize e + 1
  | .group e _ => esize e + 1
  | .push e => esize e + 1
  | .str _ => 1
  | .ci _ => 1
  | .range _ _ => 1
  | .ident _ _ => 1
  | .pushLit _ => 1
  | .peek => 1
  | .pop => 1
  | .drop => 1
  | .peekAll => 1
  | .popAll => 1
  | .peekSlice _ _ => 1
  | .anyB => 1
  | .soiB => 1
  | .eoiB => 1
  | .uprop _ => 1
  | .skipUntil _ => 1
  | .optChoice _ _ => 1
def esizeL : List Expr → Nat
  | [] => 0
  | e :: es => esize e + esizeL es
end

theorem esize_mem {e : Expr} {es : List Expr} (h : e ∈ es) : esize e ≤ esizeL es := by
  induction es with
  | nil => cases h
  | cons x xs ih =>
    simp only [esizeL]
    rcases List.mem_cons.1 h with rfl | h'
    · omega
    · have := ih h'; omega

section conv
variable (g : Grammar) (inp : Input)

/-- `e` converges from `s`: some amount of fuel gives an answer -/
def T (e : Expr) (s : S0) : Prop := ∃ n, L0.run g inp n e s ≠ .oof

/-- `F (run M)` is eventually constant and not out-of-fuel -/
def Stable (F : Nat → R0) : Prop := ∃ n x, x ≠ R0.oof ∧ ∀ M, n ≤ M → F M = x

variable {g inp}

theorem T.stable {e : Expr} {s : S0} (h : T g inp e s) : Stable fun M => L0.run g inp M e s := by
  obtain ⟨n, hn⟩ := h
  refine ⟨n, L0.run g inp n e s, hn, fun M hM => ?_⟩
  exact L0.run_mono g inp hM e s hn

theorem T.of_step {e : Expr} {s : S0} (h : Stable fun M => L0.step g inp M (L0.run g inp M) e s) :
    T g inp e s := by
  obtain ⟨n, x, hx, hst⟩ := h
  dsimp only at hst
  refine ⟨n + 1, ?_⟩
  show L0.step g inp n (L0.run g inp n) e s ≠ .oof
  rw [hst n (Nat.le_refl _)]; exact hx

theorem ruleWrap_ne_oof (name : String) (mod : Nat) (s s1 : S0) (ps : List Pair) :
    L0.ruleWrap name mod s s1 ps ≠ .oof := by
  unfold L0.ruleWrap
  by_cases hS : hasBit mod SILENT = true <;> simp [hS]

theorem ruleApply_stable {name : String} {mod : Nat} {body : Expr} {s : S0}
    (h : T g inp body { s with atomic := L0.ruleAtomic name mod s.atomic }) :
    Stable fun M => L0.ruleApply (L0.run g inp M) name mod body s := by
  obtain ⟨n, x, hx, hst⟩ := h.stable
  dsimp only at hst
  cases x with
  | oof => exact absurd rfl hx
  | ok s1 ps1 =>
    refine ⟨n, L0.ruleWrap name mod s s1 ps1, ruleWrap_ne_oof _ _ _ _ _, fun M hM => ?_⟩
    have := hst M hM
    simp only [L0.ruleApply] at this ⊢
    rw [this]
  | fail =>
    refine ⟨n, .fail, by simp, fun M hM => ?_⟩
    have := hst M hM
    simp only [L0.ruleApply] at this ⊢
    rw [this]
  | stuck =>
    refine ⟨n, .stuck, by simp, fun M hM => ?_⟩
    have := hst M hM
    simp only [L0.ruleApply] at this ⊢
    rw [this]

/-- `trySkip` is eventually constant, and not "out of fuel" -/
theorem trySkip_stable {ro : Option Rule} {s : S0}
    (h : ∀ r, ro = some r → T g inp r.body { s with atomic := L0.ruleAtomic r.name r.mod s.atomic }) :
    ∃ n t, (∀ x, t = L0.Try0.stop x → x ≠ .oof) ∧ ∀ M, n ≤ M → L0.trySkip (L0.run g inp M) ro s = t := by
  cases ro with
  | none => exact ⟨0, .no, (by intro x hx; cases hx), fun M _ => rfl⟩
  | some r =>
    obtain ⟨n, x, hx, hst⟩ := ruleApply_stable (h r rfl)
    dsimp only at hst
    cases x with
    | oof => exact absurd rfl hx
    | ok s1 ps1 =>
      refine ⟨n, .matched s1 ps1, (by intro x hx; cases hx), fun M hM => ?_⟩
      have := hst M hM
      simp only [L0.trySkip] at this ⊢
      rw [this]
    | fail =>
      refine ⟨n, .no, (by intro x hx; cases hx), fun M hM => ?_⟩
      have := hst M hM
      simp only [L0.trySkip] at this ⊢
      rw [this]
    | stuck =>
      refine ⟨n, .stop .stuck, (by intro x hx; cases hx; simp), fun M hM => ?_⟩
      have := hst M hM
      simp only [L0.trySkip] at this ⊢
      rw [this]

theorem skipLoop_stable {N : List String} (hP : ∀ M, Prog inp N (L0.run g inp M)) (ws cm : Option Rule)
    (hws : ∀ r, ws = some r → nullable N r.body = false)
    (hcm : ∀ r, cm = some r → nullable N r.body = false) :
    ∀ (d : Nat) (s : S0) (acc : List Pair), inp.size - s.pos ≤ d → s.pos ≤ inp.size →
      (∀ r, (ws = some r ∨ cm = some r) → ∀ s' : S0, s.pos ≤ s'.pos → s'.pos ≤ inp.size →
        T g inp r.body { s' with atomic := L0.ruleAtomic r.name r.mod s'.atomic }) →
      ∃ n x, x ≠ R0.oof ∧ ∀ M, n ≤ M → ∀ k, d + 1 ≤ k →
        L0.skipLoop (L0.run g inp M) ws cm k s acc = x := by
  intro d
  induction d using Nat.strongRecOn with
  | ind d ih =>
    intro s acc hd hs hT
    -- a matched trivia rule moves forward
    have fwd : ∀ (ro : Option Rule) (hro : ∀ r, ro = some r → nullable N r.body = false) (n1 : Nat)
        (s1 : S0) (ps1 : List Pair), L0.trySkip (L0.run g inp n1) ro s = .matched s1 ps1 →
        s.pos < s1.pos ∧ s1.pos ≤ inp.size := by
      intro ro hro n1 s1 ps1 hm
      obtain ⟨r, hr, a, b, c⟩ := trySkip_prog (hP n1) hs hm
      have hnn := hro r hr
      refine ⟨?_, b⟩
      rcases Nat.lt_or_ge s.pos s1.pos with h | h
      · exact h
      · have : s1.pos = s.pos := by omega
        rw [c this] at hnn; cases hnn
    obtain ⟨n1, t1, ht1, hst1⟩ := trySkip_stable (g := g) (inp := inp) (ro := ws) (s := s)
      (fun r hr => hT r (Or.inl hr) s (Nat.le_refl _) hs)
    cases t1 with
    | matched s1 ps1 =>
      obtain ⟨hlt, hb⟩ := fwd ws hws n1 s1 ps1 (hst1 n1 (Nat.le_refl _))
      obtain ⟨n2, x, hx, hst2⟩ := ih (d - 1) (by omega) s1 (acc ++ ps1) (by omega) hb
        (fun r hr s' h1 h2 => hT r hr s' (by omega) h2)
      refine ⟨max n1 n2, x, hx, fun M hM k hk => ?_⟩
      obtain ⟨k', rfl⟩ : ∃ k', k = k' + 1 := ⟨k - 1, by omega⟩
      simp only [L0.skipLoop]
      rw [hst1 M (by omega)]
      exact hst2 M (by omega) k' (by omega)
    | stop x =>
      refine ⟨n1, x, ht1 x rfl, fun M hM k hk => ?_⟩
      obtain ⟨k', rfl⟩ : ∃ k', k = k' + 1 := ⟨k - 1, by omega⟩
      simp only [L0.skipLoop]
      rw [hst1 M hM]
    | no =>
      obtain ⟨n2, t2, ht2, hst2⟩ := trySkip_stable (g := g) (inp := inp) (ro := cm) (s := s)
        (fun r hr => hT r (Or.inr hr) s (Nat.le_refl _) hs)
      cases t2 with
      | matched s1 ps1 =>
        obtain ⟨hlt, hb⟩ := fwd cm hcm n2 s1 ps1 (hst2 n2 (Nat.le_refl _))
        obtain ⟨n3, x, hx, hst3⟩ := ih (d - 1) (by omega) s1 (acc ++ ps1) (by omega) hb
          (fun r hr s' h1 h2 => hT r hr s' (by omega) h2)
        refine ⟨max n1 (max n2 n3), x, hx, fun M hM k hk => ?_⟩
        obtain ⟨k', rfl⟩ : ∃ k', k = k' + 1 := ⟨k - 1, by omega⟩
        simp only [L0.skipLoop]
        rw [hst1 M (by omega)]
        simp only []
        rw [hst2 M (by omega)]
        exact hst3 M (by omega) k' (by omega)
      | stop x =>
        refine ⟨max n1 n2, x, ht2 x rfl, fun M hM k hk => ?_⟩
        obtain ⟨k', rfl⟩ : ∃ k', k = k' + 1 := ⟨k - 1, by omega⟩
        simp only [L0.skipLoop]
        rw [hst1 M (by omega)]
        simp only []
        rw [hst2 M (by omega)]
      | no =>
        refine ⟨max n1 n2, .ok s acc, by simp, fun M hM k hk => ?_⟩
        obtain ⟨k', rfl⟩ : ∃ k', k = k' + 1 := ⟨k - 1, by omega⟩
        simp only [L0.skipLoop]
        rw [hst1 M (by omega)]
        simp only []
        rw [hst2 M (by omega)]

end conv

section main
variable (g : Grammar) (inp : Input) (N tv : List String) (rk : String → Nat)

/-- every rule in `L` ranks below `b` -/
def Below (b : Nat) (L : List String) : Prop := ∀ m ∈ L, rk m < b

/-- what `wellFormed` certifies, as propositions -/
structure WFG : Prop where
  ncl : NClosed g N
  wf : ∀ r ∈ g.rules, wfE g N r.body = true
  trivOk : ∀ n r, (n = "WHITESPACE" ∨ n = "COMMENT") → g.lookup n = some r → nullable N r.body = false
  rank : ∀ r ∈ g.rules, ∀ m ∈ lc N tv r.body, rk m < rk r.name
  tvIn : ∀ n r, (n = "SKIP" ∨ n = "WHITESPACE" ∨ n = "COMMENT") → g.lookup n = some r → n ∈ tv

def SkipStable (s : S0) : Prop := Stable fun M => L0.skip g (L0.run g inp M) M s

variable {g inp N tv rk}

theorem skip_stable (W : WFG g N tv rk) (hP : ∀ M, Prog inp N (L0.run g inp M)) {s : S0}
    (hs : s.pos ≤ inp.size)
    (hT : ∀ r ∈ g.rules, r.name ∈ tv → ∀ s' : S0, s.pos ≤ s'.pos → s'.pos ≤ inp.size →
      T g inp r.body s') : SkipStable g inp s := by
  unfold SkipStable Stable
  by_cases ha : s.atomic = true
  · exact ⟨0, .ok s [], by simp, fun M _ => by simp [L0.skip, ha]⟩
  · cases hf : g.fusedSkip with
    | some r =>
      have hl := fusedSkip_lookup g hf
      have hname := lookup_name g hl
      obtain ⟨n, x, hx, hst⟩ := ruleApply_stable (name := r.name) (mod := r.mod) (s := s)
        (hT r (lookup_mem g hl) (by rw [hname]; exact W.tvIn "SKIP" r (Or.inl rfl) hl)
          { s with atomic := L0.ruleAtomic r.name r.mod s.atomic } (Nat.le_refl _) hs)
      dsimp only at hst
      refine ⟨n, x, hx, fun M hM => ?_⟩
      simp only [L0.skip, ha, Bool.false_eq_true, ↓reduceIte, hf]
      exact hst M hM
    | none =>
      by_cases hn : ((g.lookup "WHITESPACE").isNone && (g.lookup "COMMENT").isNone) = true
      · exact ⟨0, .ok s [], by simp, fun M _ => by simp [L0.skip, ha, hf, hn]⟩
      · obtain ⟨n, x, hx, hst⟩ := skipLoop_stable hP (g.lookup "WHITESPACE") (g.lookup "COMMENT")
          (fun r hr => W.trivOk "WHITESPACE" r (Or.inl rfl) hr)
          (fun r hr => W.trivOk "COMMENT" r (Or.inr rfl) hr)
          (inp.size - s.pos) s [] (Nat.le_refl _) hs
          (fun r hr s' h1 h2 => by
            rcases hr with hr | hr
            · exact hT r (lookup_mem g hr) (by rw [lookup_name g hr]; exact W.tvIn _ r (Or.inr (Or.inl rfl)) hr)
                { s' with atomic := L0.ruleAtomic r.name r.mod s'.atomic } h1 h2
            · exact hT r (lookup_mem g hr) (by rw [lookup_name g hr]; exact W.tvIn _ r (Or.inr (Or.inr rfl)) hr)
                { s' with atomic := L0.ruleAtomic r.name r.mod s'.atomic } h1 h2)
        refine ⟨max n (inp.size - s.pos + 1), x, hx, fun M hM => ?_⟩
        simp only [L0.skip, ha, Bool.false_eq_true, ↓reduceIte, hf, hn]
        exact hst M (by omega) M (by omega)

/-- the induction hypotheses of the main theorem, seen from a call that started at position `p0`
    with rank bound `b` and size bound `c` -/
structure Ctx (p0 b c : Nat) : Prop where
  big : ∀ e' (s' : S0), p0 < s'.pos → s'.pos ≤ inp.size → wfE g N e' = true → T g inp e' s'
  same : ∀ e' (s' : S0), s'.pos = p0 → Below rk b (lc N tv e') → esize e' < c → wfE g N e' = true →
    T g inp e' s'
  rule : ∀ r ∈ g.rules, rk r.name < b → ∀ s' : S0, s'.pos = p0 → T g inp r.body s'

theorem skipAt (W : WFG g N tv rk) (hP : ∀ M, Prog inp N (L0.run g inp M)) {p0 b c : Nat}
    (C : Ctx (g := g) (inp := inp) (N := N) (tv := tv) (rk := rk) p0 b c) {s : S0}
    (h0 : p0 ≤ s.pos) (hs : s.pos ≤ inp.size) (hb : s.pos = p0 → Below rk b tv) :
    SkipStable g inp s :=
  skip_stable W hP hs (fun r hr hn s' h1 h2 => by
    rcases Nat.lt_or_ge p0 s'.pos with h | h
    · exact C.big r.body s' h h2 (W.wf r hr)
    · have e1 : s'.pos = p0 := by omega
      have e2 : s.pos = p0 := by omega
      exact C.rule r hr (hb e2 r.name hn) s' e1)

/-- the static condition under which `seqL` may run `es` from the origin position -/
def SeqBelow (N tv : List String) (rk : String → Nat) (b : Nat) : List Expr → Prop
  | [] => True
  | e :: rest => Below rk b (lc N tv e) ∧
      (nullable N e = true → rest ≠ [] → Below rk b tv ∧ SeqBelow N tv rk b rest)

theorem seqL_stable (W : WFG g N tv rk) (hP : ∀ M, Prog inp N (L0.run g inp M)) {p0 b c : Nat}
    (C : Ctx (g := g) (inp := inp) (N := N) (tv := tv) (rk := rk) p0 b c) :
    ∀ (es : List Expr) (s : S0) (acc : List Pair), (∀ e ∈ es, wfE g N e = true ∧ esize e < c) →
      p0 ≤ s.pos → s.pos ≤ inp.size → (s.pos = p0 → SeqBelow N tv rk b es) →
      Stable fun M => L0.seqL g (L0.run g inp M) M es s acc := by
  intro es
  induction es with
  | nil => intro s acc _ _ _ _; exact ⟨0, .ok s acc, by simp, fun M _ => rfl⟩
  | cons e rest ih =>
    intro s acc hes h0 hs hsb
    have hwe := hes e (by simp)
    have hTe : T g inp e s := by
      rcases Nat.lt_or_ge p0 s.pos with h | h
      · exact C.big e s h hs hwe.1
      · have e1 : s.pos = p0 := by omega
        exact C.same e s e1 (hsb e1).1 hwe.2 hwe.1
    obtain ⟨n1, x1, hx1, hst1⟩ := hTe.stable
    dsimp only at hst1
    cases x1 with
    | oof => exact absurd rfl hx1
    | fail =>
      refine ⟨n1, .fail, by simp, fun M hM => ?_⟩
      simp only [L0.seqL]; rw [hst1 M hM]
    | stuck =>
      refine ⟨n1, .stuck, by simp, fun M hM => ?_⟩
      simp only [L0.seqL]; rw [hst1 M hM]
    | ok s1 ps1 =>
      have p1 := hP n1 e s s1 ps1 hs (hst1 n1 (Nat.le_refl _))
      by_cases hre : rest.isEmpty = true
      · refine ⟨n1, .ok s1 (acc ++ ps1), by simp, fun M hM => ?_⟩
        simp only [L0.seqL]; rw [hst1 M hM]; simp only [hre, ↓reduceIte]
      · have hne : rest ≠ [] := by intro h; rw [h] at hre; simp at hre
        have hrest : s1.pos = p0 → Below rk b tv ∧ SeqBelow N tv rk b rest := by
          intro e1
          have e0 : s.pos = p0 := by omega
          exact (hsb e0).2 (p1.2.2 (by omega)) hne
        have hsk : SkipStable g inp s1 :=
          skipAt W hP C (by omega) p1.2.1 (fun e1 => (hrest e1).1)
        obtain ⟨n2, x2, hx2, hst2⟩ := hsk
        dsimp only at hst2
        cases x2 with
        | oof => exact absurd rfl hx2
        | stuck =>
          refine ⟨max n1 n2, .stuck, by simp, fun M hM => ?_⟩
          simp only [L0.seqL]; rw [hst1 M (by omega)]
          simp only [hre, Bool.false_eq_true, ↓reduceIte]
          rw [hst2 M (by omega)]
        | ok s2 tps =>
          have p2 := skip_prog (hP n2) p1.2.1 (hst2 n2 (Nat.le_refl _))
          obtain ⟨n3, x3, hx3, hst3⟩ := ih s2 (acc ++ ps1 ++ tps)
            (fun x hx => hes x (List.mem_cons_of_mem _ hx)) (by omega) p2.2
            (fun e2 => (hrest (by omega)).2)
          dsimp only at hst3
          refine ⟨max n1 (max n2 n3), x3, hx3, fun M hM => ?_⟩
          simp only [L0.seqL]; rw [hst1 M (by omega)]
          simp only [hre, Bool.false_eq_true, ↓reduceIte]
          rw [hst2 M (by omega)]
          exact hst3 M (by omega)
        | fail =>
          obtain ⟨n3, x3, hx3, hst3⟩ := ih s1 (acc ++ ps1)
            (fun x hx => hes x (List.mem_cons_of_mem _ hx)) (by omega) p1.2.1
            (fun e2 => (hrest e2).2)
          dsimp only at hst3
          refine ⟨max n1 (max n2 n3), x3, hx3, fun M hM => ?_⟩
          simp only [L0.seqL]; rw [hst1 M (by omega)]
          simp only [hre, Bool.false_eq_true, ↓reduceIte]
          rw [hst2 M (by omega)]
          exact hst3 M (by omega)

theorem choiceL_stable : ∀ (es : List Expr) (s : S0), (∀ e ∈ es, T g inp e s) →
    Stable fun M => L0.choiceL (L0.run g inp M) es s := by
  intro es
  induction es with
  | nil => intro s _; exact ⟨0, .fail, by simp, fun M _ => rfl⟩
  | cons e rest ih =>
    intro s hT
    obtain ⟨n1, x1, hx1, hst1⟩ := (hT e (by simp)).stable
    dsimp only at hst1
    cases x1 with
    | oof => exact absurd rfl hx1
    | fail =>
      obtain ⟨n2, x2, hx2, hst2⟩ := ih s (fun x hx => hT x (List.mem_cons_of_mem _ hx))
      dsimp only at hst2
      refine ⟨max n1 n2, x2, hx2, fun M hM => ?_⟩
      simp only [L0.choiceL]; rw [hst1 M (by omega)]
      exact hst2 M (by omega)
    | stuck =>
      refine ⟨n1, .stuck, by simp, fun M hM => ?_⟩
      simp only [L0.choiceL]; rw [hst1 M hM]
    | ok s1 ps1 =>
      refine ⟨n1, .ok s1 ps1, by simp, fun M hM => ?_⟩
      simp only [L0.choiceL]; rw [hst1 M hM]

theorem repLoop_stable (hP : ∀ M, Prog inp N (L0.run g inp M)) (e : Expr)
    (hne : nullable N e = false) :
    ∀ (d : Nat) (s : S0) (first : Bool) (acc : List Pair), inp.size - s.pos ≤ d → s.pos ≤ inp.size →
      (∀ s' : S0, s.pos ≤ s'.pos → s'.pos ≤ inp.size → T g inp e s') →
      (∀ s' : S0, (first = true → s.pos < s'.pos) → s.pos ≤ s'.pos → s'.pos ≤ inp.size →
        SkipStable g inp s') →
      ∃ n x, x ≠ R0.oof ∧ ∀ M, n ≤ M → ∀ k, d + 1 ≤ k →
        L0.repLoop g (L0.run g inp M) e k M first s acc = x := by
  intro d
  induction d using Nat.strongRecOn with
  | ind d ih =>
    intro s first acc hd hs hE hSk
    -- the optional trivia
    have hA : ∃ n a, a ≠ R0.oof ∧ (∀ M, n ≤ M →
        (if first = true then R0.ok s [] else L0.skip g (L0.run g inp M) M s) = a) ∧
        ∀ s1 tps, a = .ok s1 tps → s.pos ≤ s1.pos ∧ s1.pos ≤ inp.size := by
      by_cases hf : first = true
      · refine ⟨0, .ok s [], by simp, fun M _ => by simp [hf], ?_⟩
        intro s1 tps h; simp only [R0.ok.injEq] at h; obtain ⟨rfl, _⟩ := h; omega
      · obtain ⟨n, a, ha, hst⟩ := hSk s (fun h => absurd h hf) (Nat.le_refl _) hs
        dsimp only at hst
        refine ⟨n, a, ha, fun M hM => by simp only [hf, Bool.false_eq_true, ↓reduceIte]; exact hst M hM, ?_⟩
        intro s1 tps h
        have := hst n (Nat.le_refl _)
        rw [h] at this
        exact skip_prog (hP n) hs this
    obtain ⟨n0, a, ha, hsta, hbd⟩ := hA
    cases a with
    | oof => exact absurd rfl ha
    | fail =>
      refine ⟨n0, .ok s acc, by simp, fun M hM k hk => ?_⟩
      obtain ⟨k', rfl⟩ : ∃ k', k = k' + 1 := ⟨k - 1, by omega⟩
      simp only [L0.repLoop]; rw [hsta M hM]
    | stuck =>
      refine ⟨n0, .stuck, by simp, fun M hM k hk => ?_⟩
      obtain ⟨k', rfl⟩ : ∃ k', k = k' + 1 := ⟨k - 1, by omega⟩
      simp only [L0.repLoop]; rw [hsta M hM]
    | ok s1 tps =>
      have b1 := hbd s1 tps rfl
      obtain ⟨n1, x1, hx1, hst1⟩ := (hE s1 b1.1 b1.2).stable
      dsimp only at hst1
      cases x1 with
      | oof => exact absurd rfl hx1
      | fail =>
        refine ⟨max n0 n1, .ok s acc, by simp, fun M hM k hk => ?_⟩
        obtain ⟨k', rfl⟩ : ∃ k', k = k' + 1 := ⟨k - 1, by omega⟩
        simp only [L0.repLoop]; rw [hsta M (by omega)]
        simp only []; rw [hst1 M (by omega)]
      | stuck =>
        refine ⟨max n0 n1, .stuck, by simp, fun M hM k hk => ?_⟩
        obtain ⟨k', rfl⟩ : ∃ k', k = k' + 1 := ⟨k - 1, by omega⟩
        simp only [L0.repLoop]; rw [hsta M (by omega)]
        simp only []; rw [hst1 M (by omega)]
      | ok s2 ps2 =>
        have p2 := hP n1 e s1 s2 ps2 b1.2 (hst1 n1 (Nat.le_refl _))
        have hlt : s1.pos < s2.pos := by
          rcases Nat.lt_or_ge s1.pos s2.pos with h | h
          · exact h
          · have : s2.pos = s1.pos := by omega
            rw [p2.2.2 this] at hne; cases hne
        obtain ⟨n2, x2, hx2, hst2⟩ := ih (d - 1) (by omega) s2 false (acc ++ tps ++ ps2) (by omega) p2.2.1
          (fun s' h1 h2 => hE s' (by omega) h2)
          (fun s' _ h1 h2 => hSk s' (fun _ => by omega) (by omega) h2)
        refine ⟨max n0 (max n1 n2), x2, hx2, fun M hM k hk => ?_⟩
        obtain ⟨k', rfl⟩ : ∃ k', k = k' + 1 := ⟨k - 1, by omega⟩
        simp only [L0.repLoop]; rw [hsta M (by omega)]
        simp only []; rw [hst1 M (by omega)]
        exact hst2 M (by omega) k' (by omega)

/-! #### static facts about `lc`, `wfE`, `esize` on the unrolled forms -/

theorem rk_lt_listMax (L : List String) : ∀ m ∈ L, rk m < listMax (L.map rk) + 1 := by
  induction L with
  | nil => intro m hm; cases hm
  | cons x xs ih =>
    intro m hm
    simp only [List.map_cons, listMax]
    rcases List.mem_cons.1 hm with rfl | h
    · omega
    · have := ih m h; omega

theorem Below.sub {b : Nat} {L L' : List String} (h : Below rk b L) (hs : ∀ m ∈ L', m ∈ L) :
    Below rk b L' := fun m hm => h m (hs m hm)

theorem wfEL_iff (es : List Expr) : wfEL g N es = true ↔ ∀ e ∈ es, wfE g N e = true := by
  induction es with
  | nil => simp [wfEL]
  | cons e es ih => simp [wfEL, ih]

theorem seqBelow_of_lcSeq {b : Nat} : ∀ es : List Expr, Below rk b (lcSeq N tv es) →
    SeqBelow N tv rk b es := by
  intro es
  induction es with
  | nil => intro _; trivial
  | cons e rest ih =>
    intro h
    simp only [lcSeq] at h
    refine ⟨h.sub (fun m hm => List.mem_append_left _ hm), fun hn hne => ?_⟩
    have hre : rest.isEmpty = false := by
      cases rest with
      | nil => exact absurd rfl hne
      | cons _ _ => rfl
    simp only [hn, hre, Bool.not_false, Bool.and_self, ↓reduceIte] at h
    exact ⟨h.sub (fun m hm => by simp [hm]), ih (h.sub (fun m hm => by simp [hm]))⟩

theorem seqBelow_replicate_append {b : Nat} {e : Expr} (tl : List Expr) (h1 : Below rk b (lc N tv e))
    (h2 : nullable N e = true → Below rk b tv) :
    ∀ n : Nat, (nullable N e = true ∨ n = 0 → SeqBelow N tv rk b tl) →
      SeqBelow N tv rk b (List.replicate n e ++ tl) := by
  intro n
  induction n with
  | zero => intro h3; simpa using h3 (Or.inr rfl)
  | succ n ih =>
    intro h3
    simp only [List.replicate_succ, List.cons_append]
    exact ⟨h1, fun hn _ => ⟨h2 hn, ih (fun _ => h3 (Or.inl hn))⟩⟩

theorem seqBelow_replicate {b : Nat} {e : Expr} (h1 : Below rk b (lc N tv e))
    (h2 : nullable N e = true → Below rk b tv) (n : Nat) :
    SeqBelow N tv rk b (List.replicate n e) := by
  have := seqBelow_replicate_append (rk := rk) [] h1 h2 n (fun _ => trivial)
  simpa using this

theorem lc_mem_lcAll {x : Expr} {es : List Expr} {m : String} (hx : x ∈ es) (hm : m ∈ lc N tv x) :
    m ∈ lcAll N tv es := by
  induction es with
  | nil => cases hx
  | cons y ys ih =>
    simp only [lcAll, List.mem_append]
    rcases List.mem_cons.1 hx with rfl | h
    · exact Or.inl hm
    · exact Or.inr (ih h)

theorem step_terminal {e : Expr} {s : S0} {x : R0} (hx : x ≠ .oof)
    (h : ∀ M (rec : Sem0), L0.step g inp M rec e s = x) : T g inp e s :=
  T.of_step ⟨0, x, hx, fun M _ => h M _⟩

/-! #### the main induction -/

theorem conv_all (W : WFG g N tv rk) (hP : ∀ M, Prog inp N (L0.run g inp M)) :
    ∀ (a b c : Nat) (e : Expr) (s : S0), wfE g N e = true → s.pos ≤ inp.size →
      inp.size - s.pos ≤ a → Below rk b (lc N tv e) → esize e ≤ c → T g inp e s := by
  intro a
  induction a using Nat.strongRecOn with
  | ind a iha =>
  intro b
  induction b using Nat.strongRecOn with
  | ind b ihb =>
  intro c
  induction c using Nat.strongRecOn with
  | ind c ihc =>
  intro e s hw hs ha hb hc
  have C : Ctx (g := g) (inp := inp) (N := N) (tv := tv) (rk := rk) s.pos b (esize e) :=
    { big := fun e' s' h1 h2 hw' =>
        iha (inp.size - s'.pos) (by omega) (listMax ((lc N tv e').map rk) + 1) (esize e') e' s' hw' h2
          (Nat.le_refl _) (rk_lt_listMax _) (Nat.le_refl _)
      same := fun e' s' h1 hb' hc' hw' =>
        ihc (esize e') (by omega) e' s' hw' (by omega) (by omega) hb' (Nat.le_refl _)
      rule := fun r hr hrk s' h1 =>
        ihb (rk r.name) hrk (esize r.body) r.body s' (W.wf r hr) (by omega) (by omega) (W.rank r hr)
          (Nat.le_refl _) }
  -- a sub-expression run from the same state
  have sub : ∀ e', wfE g N e' = true → (∀ m ∈ lc N tv e', m ∈ lc N tv e) → esize e' < esize e →
      T g inp e' s := fun e' hw' hl hsz => C.same e' s rfl (hb.sub hl) hsz hw'
  cases e with
  | str x =>
    by_cases hm : startsWithAt inp x s.pos = true
    · exact step_terminal (x := .ok (L0.adv s x.length) []) (by simp) (fun M rec => by simp [L0.step, hm])
    · exact step_terminal (x := .fail) (by simp) (fun M rec => by simp [L0.step, hm])
  | ci x =>
    by_cases hm : startsWithAtCI inp x s.pos = true
    · exact step_terminal (x := .ok (L0.adv s x.length) []) (by simp) (fun M rec => by simp [L0.step, hm])
    · exact step_terminal (x := .fail) (by simp) (fun M rec => by simp [L0.step, hm])
  | range lo hi =>
    refine step_terminal (x := L0.step g inp 0 (fun _ _ => .oof) (.range lo hi) s) ?_ (fun M rec => rfl)
    simp only [L0.step]
    cases inp[s.pos]? with
    | none => simp
    | some ch => by_cases hm : (decide (lo ≤ ch) && decide (ch ≤ hi)) = true <;> simp [hm]
  | ident name tag =>
    simp only [wfE] at hw
    cases hl : g.lookup name with
    | none => rw [hl] at hw; cases hw
    | some r =>
      have hname := lookup_name g hl
      have hrk : rk r.name < b := by rw [hname]; exact hb name (by simp [lc])
      obtain ⟨n, x, hx, hst⟩ := ruleApply_stable (name := r.name) (mod := r.mod) (s := s)
        (C.rule r (lookup_mem g hl) hrk { s with atomic := L0.ruleAtomic r.name r.mod s.atomic } rfl)
      dsimp only at hst
      refine T.of_step ⟨n, x, hx, fun M hM => ?_⟩
      simp only [L0.step, L0.callRule, hl]
      exact hst M hM
  | rule name mod sm body =>
    simp only [wfE] at hw
    have hT : T g inp body { s with atomic := L0.ruleAtomic name mod s.atomic } :=
      C.same body _ rfl (hb.sub (fun m hm => by simpa [lc] using hm)) (by simp [esize]) hw
    obtain ⟨n, x, hx, hst⟩ := ruleApply_stable (name := name) (mod := mod) hT
    dsimp only at hst
    exact T.of_step ⟨n, x, hx, fun M hM => by simp only [L0.step]; exact hst M hM⟩
  | seq es =>
    simp only [wfE] at hw
    have hwes := (wfEL_iff es).1 hw
    obtain ⟨n, x, hx, hst⟩ := seqL_stable W hP C es s []
      (fun x hx => ⟨hwes x hx, by have := esize_mem hx; simp only [esize]; omega⟩)
      (Nat.le_refl _) hs (fun _ => seqBelow_of_lcSeq es (by simpa [lc] using hb))
    dsimp only at hst
    exact T.of_step ⟨n, x, hx, fun M hM => by simp only [L0.step]; exact hst M hM⟩
  | choice es =>
    simp only [wfE] at hw
    have hwes := (wfEL_iff es).1 hw
    obtain ⟨n, x, hx, hst⟩ := choiceL_stable (g := g) (inp := inp) es s (fun x hx =>
      sub x (hwes x hx) (fun m hm => by simpa [lc] using lc_mem_lcAll hx hm)
        (by have := esize_mem hx; simp only [esize]; omega))
    dsimp only at hst
    exact T.of_step ⟨n, x, hx, fun M hM => by simp only [L0.step]; exact hst M hM⟩
  | opt e =>
    simp only [wfE] at hw
    obtain ⟨n, x, hx, hst⟩ := (sub e hw (fun m hm => by simpa [lc] using hm) (by simp [esize])).stable
    dsimp only at hst
    cases x with
    | oof => exact absurd rfl hx
    | fail => exact T.of_step ⟨n, .ok s [], by simp, fun M hM => by simp only [L0.step]; rw [hst M hM]⟩
    | stuck => exact T.of_step ⟨n, .stuck, by simp, fun M hM => by simp only [L0.step]; rw [hst M hM]⟩
    | ok s1 ps1 => exact T.of_step ⟨n, .ok s1 ps1, by simp, fun M hM => by simp only [L0.step]; rw [hst M hM]⟩
  | rep e =>
    simp only [wfE, Bool.and_eq_true, Bool.not_eq_true'] at hw
    obtain ⟨n, x, hx, hst⟩ := repLoop_stable (g := g) hP e hw.2 (inp.size - s.pos) s true []
      (Nat.le_refl _) hs
      (fun s' h1 h2 => by
        rcases Nat.lt_or_ge s.pos s'.pos with h | h
        · exact C.big e s' h h2 hw.1
        · exact C.same e s' (by omega) (hb.sub (fun m hm => by simpa [lc] using hm)) (by simp [esize]) hw.1)
      (fun s' hf h1 h2 => skipAt W hP C h1 h2 (fun e1 => by have := hf rfl; omega))
    refine T.of_step ⟨max n (inp.size - s.pos + 1), x, hx, fun M hM => ?_⟩
    simp only [L0.step]
    exact hst M (by omega) M (by omega)
  | rep1 e =>
    simp only [wfE, Bool.and_eq_true, Bool.not_eq_true'] at hw
    obtain ⟨n, x, hx, hst⟩ := seqL_stable W hP C [e, .rep e] s []
      (by
        intro x hx
        simp only [List.mem_cons, List.not_mem_nil, or_false] at hx
        rcases hx with rfl | rfl
        · exact ⟨hw.1, by simp [esize]⟩
        · exact ⟨by simp [wfE, hw.1, hw.2], by simp [esize]⟩)
      (Nat.le_refl _) hs
      (fun _ => ⟨hb.sub (fun m hm => by simp [lc, hm]), fun hn => by rw [hw.2] at hn; cases hn⟩)
    dsimp only at hst
    exact T.of_step ⟨n, x, hx, fun M hM => by simp only [L0.step]; exact hst M hM⟩
  | repExact e n =>
    simp only [wfE] at hw
    have hbe : Below rk b (lc N tv e) := hb.sub (fun m hm => by simp [lc, hm])
    have hbt : nullable N e = true → Below rk b tv := fun hn =>
      hb.sub (fun m hm => by simp [lc, hn, hm])
    obtain ⟨n', x, hx, hst⟩ := seqL_stable W hP C (List.replicate n e) s []
      (by intro x hx; rw [(List.mem_replicate.1 hx).2]; exact ⟨hw, by simp [esize]⟩)
      (Nat.le_refl _) hs (fun _ => seqBelow_replicate hbe hbt n)
    dsimp only at hst
    exact T.of_step ⟨n', x, hx, fun M hM => by simp only [L0.step]; exact hst M hM⟩
  | repMin e n =>
    simp only [wfE, Bool.and_eq_true, Bool.not_eq_true'] at hw
    have hbe : Below rk b (lc N tv e) := hb.sub (fun m hm => by simp [lc, hm])
    obtain ⟨n', x, hx, hst⟩ := seqL_stable W hP C (List.replicate n e ++ [.rep e]) s []
      (by
        intro x hx
        rcases List.mem_append.1 hx with hx | hx
        · rw [(List.mem_replicate.1 hx).2]; exact ⟨hw.1, by simp [esize]⟩
        · simp only [List.mem_singleton] at hx; rw [hx]
          exact ⟨by simp [wfE, hw.1, hw.2], by simp [esize]⟩)
      (Nat.le_refl _) hs
      (fun _ => seqBelow_replicate_append [.rep e] hbe (fun hn => by rw [hw.2] at hn; cases hn) n
        (fun _ => ⟨by simpa [lc] using hbe, fun _ hne => absurd rfl hne⟩))
    dsimp only at hst
    exact T.of_step ⟨n', x, hx, fun M hM => by simp only [L0.step]; exact hst M hM⟩
  | repMax e n =>
    simp only [wfE] at hw
    have hbe : Below rk b (lc N tv (.opt e)) := hb.sub (fun m hm => by simp only [lc] at hm ⊢; simp [hm])
    have hbt : Below rk b tv := hb.sub (fun m hm => by simp [lc, hm])
    obtain ⟨n', x, hx, hst⟩ := seqL_stable W hP C (List.replicate n (.opt e)) s []
      (by intro x hx; rw [(List.mem_replicate.1 hx).2]; exact ⟨by simpa [wfE] using hw, by simp [esize]⟩)
      (Nat.le_refl _) hs (fun _ => seqBelow_replicate hbe (fun _ => hbt) n)
    dsimp only at hst
    exact T.of_step ⟨n', x, hx, fun M hM => by simp only [L0.step]; exact hst M hM⟩
  | repMinMax e m n =>
    simp only [wfE] at hw
    have hbe : Below rk b (lc N tv e) := hb.sub (fun m hm => by simp [lc, hm])
    have hbo : Below rk b (lc N tv (.opt e)) := by simpa [lc] using hbe
    have hbt : nullable N e = true ∨ m = 0 → Below rk b tv := fun hn =>
      hb.sub (fun x hx => by
        rcases hn with hn | hn
        · simp [lc, hn, hx]
        · simp [lc, hn, hx])
    obtain ⟨n', x, hx, hst⟩ := seqL_stable W hP C
      (List.replicate m e ++ List.replicate (n - m) (.opt e)) s []
      (by
        intro x hx
        rcases List.mem_append.1 hx with hx | hx
        · rw [(List.mem_replicate.1 hx).2]; exact ⟨hw, by simp [esize]⟩
        · rw [(List.mem_replicate.1 hx).2]; exact ⟨by simpa [wfE] using hw, by simp [esize]⟩)
      (Nat.le_refl _) hs
      (fun _ => seqBelow_replicate_append _ hbe (fun hn => hbt (Or.inl hn)) m
        (fun hn => seqBelow_replicate hbo (fun _ => hbt hn) (n - m)))
    dsimp only at hst
    exact T.of_step ⟨n', x, hx, fun M hM => by simp only [L0.step]; exact hst M hM⟩
  | andP e =>
    simp only [wfE] at hw
    obtain ⟨n, x, hx, hst⟩ := (sub e hw (fun m hm => by simpa [lc] using hm) (by simp [esize])).stable
    dsimp only at hst
    cases x with
    | oof => exact absurd rfl hx
    | fail => exact T.of_step ⟨n, .fail, by simp, fun M hM => by simp only [L0.step]; rw [hst M hM]⟩
    | stuck => exact T.of_step ⟨n, .stuck, by simp, fun M hM => by simp only [L0.step]; rw [hst M hM]⟩
    | ok s1 ps1 => exact T.of_step ⟨n, .ok s [], by simp, fun M hM => by simp only [L0.step]; rw [hst M hM]⟩
  | notP e =>
    simp only [wfE] at hw
    obtain ⟨n, x, hx, hst⟩ := (sub e hw (fun m hm => by simpa [lc] using hm) (by simp [esize])).stable
    dsimp only at hst
    cases x with
    | oof => exact absurd rfl hx
    | fail => exact T.of_step ⟨n, .ok s [], by simp, fun M hM => by simp only [L0.step]; rw [hst M hM]⟩
    | stuck => exact T.of_step ⟨n, .stuck, by simp, fun M hM => by simp only [L0.step]; rw [hst M hM]⟩
    | ok s1 ps1 => exact T.of_step ⟨n, .fail, by simp, fun M hM => by simp only [L0.step]; rw [hst M hM]⟩
  | group e tag =>
    simp only [wfE] at hw
    obtain ⟨n, x, hx, hst⟩ := (sub e hw (fun m hm => by simpa [lc] using hm) (by simp [esize])).stable
    dsimp only at hst
    exact T.of_step ⟨n, x, hx, fun M hM => by simp only [L0.step]; exact hst M hM⟩
  | push e =>
    simp only [wfE] at hw
    obtain ⟨n, x, hx, hst⟩ := (sub e hw (fun m hm => by simpa [lc] using hm) (by simp [esize])).stable
    dsimp only at hst
    cases x with
    | oof => exact absurd rfl hx
    | fail => exact T.of_step ⟨n, .fail, by simp, fun M hM => by simp only [L0.step]; rw [hst M hM]⟩
    | stuck => exact T.of_step ⟨n, .stuck, by simp, fun M hM => by simp only [L0.step]; rw [hst M hM]⟩
    | ok s1 ps1 =>
      exact T.of_step ⟨n, .ok { s1 with stk := slice inp s.pos s1.pos :: s1.stk } ps1, by simp,
        fun M hM => by simp only [L0.step]; rw [hst M hM]⟩
  | pushLit x => exact step_terminal (x := .ok { s with stk := x :: s.stk } []) (by simp) (fun M rec => rfl)
  | peek =>
    refine step_terminal (x := L0.step g inp 0 (fun _ _ => .oof) .peek s) ?_ (fun M rec => rfl)
    simp only [L0.step]
    cases s.stk with
    | nil => simp
    | cons t r => by_cases hm : startsWithAt inp t s.pos = true <;> simp [hm]
  | pop =>
    refine step_terminal (x := L0.step g inp 0 (fun _ _ => .oof) .pop s) ?_ (fun M rec => rfl)
    simp only [L0.step]
    cases s.stk with
    | nil => simp
    | cons t r => by_cases hm : startsWithAt inp t s.pos = true <;> simp [hm]
  | drop =>
    refine step_terminal (x := L0.step g inp 0 (fun _ _ => .oof) .drop s) ?_ (fun M rec => rfl)
    simp only [L0.step]
    cases s.stk with
    | nil => simp
    | cons t r => simp
  | peekAll =>
    refine step_terminal (x := L0.step g inp 0 (fun _ _ => .oof) .peekAll s) ?_ (fun M rec => rfl)
    simp only [L0.step]
    cases L0.matchLits inp s.stk s with
    | none => simp
    | some q => simp
  | popAll =>
    refine step_terminal (x := L0.step g inp 0 (fun _ _ => .oof) .popAll s) ?_ (fun M rec => rfl)
    simp only [L0.step]
    cases L0.matchLits inp s.stk s with
    | none => simp
    | some q => simp
  | peekSlice lo hi =>
    refine step_terminal (x := L0.step g inp 0 (fun _ _ => .oof) (.peekSlice lo hi) s) ?_ (fun M rec => rfl)
    simp only [L0.step]
    cases L0.matchLits inp (pySlice s.stk.reverse lo hi) s with
    | none => simp
    | some q => simp
  | anyB =>
    refine step_terminal (x := L0.step g inp 0 (fun _ _ => .oof) .anyB s) ?_ (fun M rec => rfl)
    simp only [L0.step]
    by_cases hm : s.pos < inp.size <;> simp [hm]
  | soiB =>
    refine step_terminal (x := L0.step g inp 0 (fun _ _ => .oof) .soiB s) ?_ (fun M rec => rfl)
    simp only [L0.step]
    by_cases hm : (s.pos == 0) = true <;> simp [hm]
  | eoiB =>
    refine step_terminal (x := L0.step g inp 0 (fun _ _ => .oof) .eoiB s) ?_ (fun M rec => rfl)
    simp only [L0.step]
    by_cases hm : (s.pos == inp.size) = true <;> simp [hm]
  | uprop nm =>
    refine step_terminal (x := L0.step g inp 0 (fun _ _ => .oof) (.uprop nm) s) ?_ (fun M rec => rfl)
    simp only [L0.step]
    cases inp[s.pos]? with
    | none => simp
    | some ch => by_cases hm : g.uprop nm ch = true <;> simp [hm]
  | skipUntil subs =>
    exact step_terminal (x := .ok { s with pos := L1.skipUntilPos inp subs s.pos } []) (by simp)
      (fun M rec => rfl)
  | optChoice alts star =>
    refine step_terminal (x := L0.step g inp 0 (fun _ _ => .oof) (.optChoice alts star) s) ?_ (fun M rec => rfl)
    simp only [L0.step]
    cases L1.optMatch g inp alts star s.pos with
    | none => simp
    | some q => simp

end main

/-! ### from the check to the theorem -/

section final
variable (g : Grammar) (inp : Input)

theorem wfg_of_wellFormed (h : wellFormed g = true) :
    WFG g (nullSet g) (triv g) (rankOf (rankTable g)) := by
  simp only [wellFormed, Bool.and_eq_true] at h
  obtain ⟨⟨⟨h1, h2⟩, h3⟩, h4⟩ := h
  refine ⟨nClosed_of_check g _ h1, ?_, ?_, ?_, ?_⟩
  · intro r hr
    exact (List.all_eq_true.1 h2) r hr
  · intro n r hn hl
    simp only [triviaOk, List.all_cons, List.all_nil, Bool.and_true, Bool.and_eq_true] at h3
    rcases hn with rfl | rfl
    · have := h3.1; rw [hl] at this; simpa using this
    · have := h3.2; rw [hl] at this; simpa using this
  · intro r hr m hm
    have := (List.all_eq_true.1 ((List.all_eq_true.1 h4) r hr)) m hm
    simpa using this
  · intro n r hn hl
    simp only [triv, List.mem_filter, List.mem_cons, List.not_mem_nil, or_false]
    exact ⟨hn, by rw [hl]; rfl⟩

/-- **every expression of a well-formed grammar converges** from every state inside the input -/
theorem run_terminates (h : wellFormed g = true) (e : Expr) (he : wfE g (nullSet g) e = true)
    (s : S0) (hs : s.pos ≤ inp.size) : ∃ n, L0.run g inp n e s ≠ .oof :=
  conv_all (wfg_of_wellFormed g h) (fun M => run_prog (wfg_of_wellFormed g h).ncl M)
    (inp.size - s.pos) (listMax ((lc (nullSet g) (triv g) e).map (rankOf (rankTable g))) + 1) (esize e)
    e s he hs (Nat.le_refl _) (rk_lt_listMax _) (Nat.le_refl _)

/-- **parsing terminates**: for every start rule (an undefined one answers `stuck` at once) and
    every start position inside the input -/
theorem parse_terminates (h : wellFormed g = true) (start : String) (k : Nat) (hk : k ≤ inp.size) :
    ∃ n, L0.run g inp n (.ident start none) ⟨k, [], false⟩ ≠ .oof := by
  cases hl : g.lookup start with
  | none =>
    refine ⟨1, ?_⟩
    show L0.step g inp 0 (L0.run g inp 0) (.ident start none) ⟨k, [], false⟩ ≠ .oof
    simp [L0.step, L0.callRule, hl]
  | some r =>
    exact run_terminates g inp h (.ident start none) (by simp [wfE, hl]) ⟨k, [], false⟩ hk

/-- … and stays terminated with more fuel, with the same answer -/
theorem parse_terminates_stable (h : wellFormed g = true) (start : String) (k : Nat)
    (hk : k ≤ inp.size) :
    ∃ n x, x ≠ R0.oof ∧ ∀ fuel, n ≤ fuel → L0.parse g inp fuel start k = x := by
  have hT : T g inp (.ident start none) ⟨k, [], false⟩ := parse_terminates g inp h start k hk
  obtain ⟨n, x, hx, hst⟩ := hT.stable
  dsimp only at hst
  refine ⟨n, x, hx, fun fuel hf => ?_⟩
  have : L0.parse g inp fuel start k = L0.run g inp (fuel + 1) (.ident start none) ⟨k, [], false⟩ := rfl
  rw [this]
  exact hst (fuel + 1) (by omega)

end final

end Term
end Pest
