/-
  Lemmas/Term.lean — termination of the specification L0 on well-formed grammars
  (`WF.wellFormed`, PestModel/WF.lean).

  Part 1 (`Prog`): progress facts, by the step-preservation pattern: a successful run never moves
          the position backwards or beyond the end of the input, and if it leaves the position
          where it was, the expression is `nullable`.
  Part 2: given those facts, every expression of a well-formed grammar converges, by
          lexicographic induction on (input left, rank bound of the left-callable rules,
          expression size); loops (`repLoop`, `skipLoop`) need a budget of at most
          `input left + 1`.
-/
import PestModel.WF
import PestModel.Lemmas.Mono

namespace Pest
namespace Term
open WF

/-! ### primitive matchers stay inside the input and never move backwards -/

theorem startsWithAt_le {inp : Input} : ∀ (x : Str) (p : Nat), startsWithAt inp x p = true →
    p + x.length ≤ inp.size := by
  intro x
  induction x with
  | nil => intro p h; simpa [startsWithAt] using h
  | cons c rest ih =>
    intro p h
    simp only [startsWithAt, Bool.and_eq_true] at h
    have := ih (p + 1) h.2
    simp only [List.length_cons]; omega

theorem startsWithAtCI_le {inp : Input} : ∀ (x : Str) (p : Nat), startsWithAtCI inp x p = true →
    p + x.length ≤ inp.size := by
  intro x
  induction x with
  | nil => intro p h; simpa [startsWithAtCI] using h
  | cons c rest ih =>
    intro p h
    simp only [startsWithAtCI, Bool.and_eq_true] at h
    have := ih (p + 1) h.2
    simp only [List.length_cons]; omega

theorem getElem?_lt {inp : Input} {p : Nat} {x : CP} (h : inp[p]? = some x) : p < inp.size := by
  rcases Nat.lt_or_ge p inp.size with h1 | h1
  · exact h1
  · rw [Array.getElem?_eq_none h1] at h; cases h

theorem matchAll_le {inp : Input} : ∀ (ls : List Str) (p q : Nat), p ≤ inp.size →
    L1.matchAll inp ls p = some q → p ≤ q ∧ q ≤ inp.size := by
  intro ls
  induction ls with
  | nil => intro p q hp h; simp only [L1.matchAll, Option.some.injEq] at h; omega
  | cons l rest ih =>
    intro p q hp h
    simp only [L1.matchAll] at h
    by_cases hm : startsWithAt inp l p = true
    · simp only [hm, ↓reduceIte] at h
      have h1 := startsWithAt_le l p hm
      have := ih (p + l.length) q h1 h
      omega
    · simp only [hm, Bool.false_eq_true, ↓reduceIte] at h; cases h

theorem findFrom_go_le {inp : Input} (sub : Str) : ∀ (n p q : Nat),
    findFrom.go inp sub n p = some q → p ≤ q ∧ q ≤ inp.size := by
  intro n
  induction n with
  | zero => intro p q h; simp [findFrom.go] at h
  | succ n ih =>
    intro p q h
    simp only [findFrom.go] at h
    by_cases hm : startsWithAt inp sub p = true
    · simp only [hm, ↓reduceIte, Option.some.injEq] at h
      have := startsWithAt_le sub p hm
      omega
    · simp only [hm, Bool.false_eq_true, ↓reduceIte] at h
      have := ih (p + 1) q h
      omega

theorem findFrom_le {inp : Input} (sub : Str) (p q : Nat) (h : findFrom inp sub p = some q) :
    p ≤ q ∧ q ≤ inp.size := by
  unfold findFrom at h
  by_cases hp : p > inp.size
  · simp [hp] at h
  · simp only [hp, ↓reduceIte] at h
    exact findFrom_go_le sub _ p q h

theorem foldl_best_le {inp : Input} (p : Nat) (f : Option Nat → Str → Option Nat)
    (hf : ∀ b s, (∀ q, b = some q → p ≤ q ∧ q ≤ inp.size) → ∀ q, f b s = some q → p ≤ q ∧ q ≤ inp.size) :
    ∀ (subs : List Str) (b : Option Nat), (∀ q, b = some q → p ≤ q ∧ q ≤ inp.size) →
      ∀ q, subs.foldl f b = some q → p ≤ q ∧ q ≤ inp.size := by
  intro subs
  induction subs with
  | nil => intro b hb q h; exact hb q h
  | cons s rest ih => intro b hb q h; exact ih (f b s) (hf b s hb) q h

theorem foldl_getD_le {inp : Input} (p : Nat) (f : Option Nat → Str → Option Nat)
    (hf : ∀ b s, (∀ q, b = some q → p ≤ q ∧ q ≤ inp.size) → ∀ q, f b s = some q → p ≤ q ∧ q ≤ inp.size)
    (subs : List Str) (hp : p ≤ inp.size) :
    p ≤ (subs.foldl f none).getD inp.size ∧ (subs.foldl f none).getD inp.size ≤ inp.size := by
  have := foldl_best_le p f hf subs none (by intro q h; cases h)
  cases hb : subs.foldl f none with
  | none => simp; exact hp
  | some q => simpa using this q hb

theorem skipUntilPos_le {inp : Input} (subs : List Str) (p : Nat) (hp : p ≤ inp.size) :
    p ≤ L1.skipUntilPos inp subs p ∧ L1.skipUntilPos inp subs p ≤ inp.size := by
  unfold L1.skipUntilPos
  refine foldl_getD_le p _ ?_ subs hp
  intro b s hbb q hq
  cases hf : findFrom inp s p with
  | none => simp only [hf] at hq; exact hbb q hq
  | some r =>
    simp only [hf] at hq
    have hr := findFrom_le s p r hf
    cases b with
    | none => simp only [Option.some.injEq] at hq; omega
    | some q0 =>
      have h0 := hbb q0 rfl
      simp only [] at hq
      by_cases hlt : r < q0
      · simp only [hlt, ↓reduceIte, Option.some.injEq] at hq; omega
      · simp only [hlt, ↓reduceIte, Option.some.injEq] at hq; omega

theorem find?_mem_pred {α} {p : α → Bool} {l : List α} {a : α} (h : l.find? p = some a) : p a = true :=
  List.find?_some h

theorem optMatchOnce_le (g : Grammar) {inp : Input} (alts : List Alt) (p q : Nat)
    (h : L1.optMatchOnce g inp alts p = some q) : p ≤ q ∧ q ≤ inp.size := by
  unfold L1.optMatchOnce at h
  simp only [] at h
  split at h
  · rename_i s hs
    have h1 := find?_mem_pred hs
    have := startsWithAt_le s p h1
    simp only [Option.some.injEq] at h; omega
  · split at h
    · rename_i s hs
      have h1 := find?_mem_pred hs
      have := startsWithAtCI_le s p h1
      simp only [Option.some.injEq] at h; omega
    · cases hg : inp[p]? with
      | none => simp [hg] at h
      | some c =>
        have hlt := getElem?_lt hg
        simp only [hg] at h
        split at h
        · simp only [Option.some.injEq] at h; omega
        · split at h
          · simp only [Option.some.injEq] at h; omega
          · cases h

theorem optMatchStar_le (g : Grammar) {inp : Input} (alts : List Alt) : ∀ (n p : Nat), p ≤ inp.size →
    p ≤ L1.optMatchStar g inp alts n p ∧ L1.optMatchStar g inp alts n p ≤ inp.size := by
  intro n
  induction n with
  | zero => intro p hp; simp [L1.optMatchStar, hp]
  | succ n ih =>
    intro p hp
    simp only [L1.optMatchStar]
    cases ho : L1.optMatchOnce g inp alts p with
    | none => simp [hp]
    | some q =>
      have hq := optMatchOnce_le g alts p q ho
      simp only []
      by_cases hgt : q > p
      · simp only [hgt, ↓reduceIte]
        have := ih q hq.2
        omega
      · simp only [hgt, ↓reduceIte]; omega

theorem optMatch_le (g : Grammar) {inp : Input} (alts : List Alt) (star : Bool) (p q : Nat)
    (hp : p ≤ inp.size) (h : L1.optMatch g inp alts star p = some q) : p ≤ q ∧ q ≤ inp.size := by
  unfold L1.optMatch at h
  by_cases he : alts.isEmpty = true
  · simp only [he, ↓reduceIte, Option.some.injEq] at h; omega
  · simp only [he, Bool.false_eq_true, ↓reduceIte] at h
    by_cases hs : star = true
    · simp only [hs, ↓reduceIte, Option.some.injEq] at h
      have := optMatchStar_le g alts (inp.size + 1 - p) p hp
      omega
    · simp only [hs, Bool.false_eq_true, ↓reduceIte] at h
      exact optMatchOnce_le g alts p q h

end Term
end Pest
