/-
  Lemmas/Term.lean — termination of the specification L0 on well-formed grammars
  (`WF.wellFormed`, PestModel/WF.lean).

  Part 1 (`Prog`): progress facts, by the step-preservation pattern: a successful run never moves
          the position backwards or beyond the end of the input, and if it leaves the position
          where it was, the expression is `nullable`.
  Part 2: given those facts, every expression of a well-formed grammar converges, by
          lexicographic induction on (input left, rank bound of the left-callable rules,
          expression size); loops (`repLoop`, `skipLoop`) need a budget of at most
          `input left + 1`.
-/
import PestModel.WF
import PestModel.Lemmas.Mono

namespace Pest
namespace Term
open WF

/-! ### primitive matchers stay inside the input and never move backwards -/

theorem startsWithAt_le {inp : Input} : ∀ (x : Str) (p : Nat), startsWithAt inp x p = true →
    p + x.length ≤ inp.size := by
  intro x
  induction x with
  | nil => intro p h; simpa [startsWithAt] using h
  | cons c rest ih =>
    intro p h
    simp only [startsWithAt, Bool.and_eq_true] at h
    have := ih (p + 1) h.2
    simp only [List.length_cons]; omega

theorem startsWithAtCI_le {inp : Input} : ∀ (x : Str) (p : Nat), startsWithAtCI inp x p = true →
    p + x.length ≤ inp.size := by
  intro x
  induction x with
  | nil => intro p h; simpa [startsWithAtCI] using h
  | cons c rest ih =>
    intro p h
    simp only [startsWithAtCI, Bool.and_eq_true] at h
    have := ih (p + 1) h.2
    simp only [List.length_cons]; omega

theorem getElem?_lt {inp : Input} {p : Nat} {x : CP} (h : inp[p]? = some x) : p < inp.size := by
  rcases Nat.lt_or_ge p inp.size with h1 | h1
  · exact h1
  · rw [Array.getElem?_eq_none h1] at h; cases h

theorem matchAll_le {inp : Input} : ∀ (ls : List Str) (p q : Nat), p ≤ inp.size →
    L1.matchAll inp ls p = some q → p ≤ q ∧ q ≤ inp.size := by
  intro ls
  induction ls with
  | nil => intro p q hp h; simp only [L1.matchAll, Option.some.injEq] at h; omega
  | cons l rest ih =>
    intro p q hp h
    simp only [L1.matchAll] at h
    by_cases hm : startsWithAt inp l p = true
    · simp only [hm, ↓reduceIte] at h
      have h1 := startsWithAt_le l p hm
      have := ih (p + l.length) q h1 h
      omega
    · simp only [hm, Bool.false_eq_true, ↓reduceIte] at h; cases h

theorem findFrom_go_le {inp : Input} (sub : Str) : ∀ (n p q : Nat),
    findFrom.go inp sub n p = some q → p ≤ q ∧ q ≤ inp.size := by
  intro n
  induction n with
  | zero => intro p q h; simp [findFrom.go] at h
  | succ n ih =>
    intro p q h
    simp only [findFrom.go] at h
    by_cases hm : startsWithAt inp sub p = true
    · simp only [hm, ↓reduceIte, Option.some.injEq] at h
      have := startsWithAt_le sub p hm
      omega
    · simp only [hm, Bool.false_eq_true, ↓reduceIte] at h
      have := ih (p + 1) q h
      omega

theorem findFrom_le {inp : Input} (sub : Str) (p q : Nat) (h : findFrom inp sub p = some q) :
    p ≤ q ∧ q ≤ inp.size := by
  unfold findFrom at h
  by_cases hp : p > inp.size
  · simp [hp] at h
  · simp only [hp, ↓reduceIte] at h
    exact findFrom_go_le sub _ p q h

theorem foldl_best_le {inp : Input} (p : Nat) (f : Option Nat → Str → Option Nat)
    (hf : ∀ b s, (∀ q, b = some q → p ≤ q ∧ q ≤ inp.size) → ∀ q, f b s = some q → p ≤ q ∧ q ≤ inp.size) :
    ∀ (subs : List Str) (b : Option Nat), (∀ q, b = some q → p ≤ q ∧ q ≤ inp.size) →
      ∀ q, subs.foldl f b = some q → p ≤ q ∧ q ≤ inp.size := by
  intro subs
  induction subs with
  | nil => intro b hb q h; exact hb q h
  | cons s rest ih => intro b hb q h; exact ih (f b s) (hf b s hb) q h

theorem foldl_getD_le {inp : Input} (p : Nat) (f : Option Nat → Str → Option Nat)
    (hf : ∀ b s, (∀ q, b = some q → p ≤ q ∧ q ≤ inp.size) → ∀ q, f b s = some q → p ≤ q ∧ q ≤ inp.size)
    (subs : List Str) (hp : p ≤ inp.size) :
    p ≤ (subs.foldl f none).getD inp.size ∧ (subs.foldl f none).getD inp.size ≤ inp.size := by
  have := foldl_best_le p f hf subs none (by intro q h; cases h)
  cases hb : subs.foldl f none with
  | none => simp; exact hp
  | some q => simpa using this q hb

theorem skipUntilPos_le {inp : Input} (subs : List Str) (p : Nat) (hp : p ≤ inp.size) :
    p ≤ L1.skipUntilPos inp subs p ∧ L1.skipUntilPos inp subs p ≤ inp.size := by
  unfold L1.skipUntilPos
  refine foldl_getD_le p _ ?_ subs hp
  intro b s hbb q hq
  cases hf : findFrom inp s p with
  | none => simp only [hf] at hq; exact hbb q hq
  | some r =>
    simp only [hf] at hq
    have hr := findFrom_le s p r hf
    cases b with
    | none => simp only [Option.some.injEq] at hq; omega
    | some q0 =>
      have h0 := hbb q0 rfl
      simp only [] at hq
      by_cases hlt : r < q0
      · simp only [hlt, ↓reduceIte, Option.some.injEq] at hq; omega
      · simp only [hlt, ↓reduceIte, Option.some.injEq] at hq; omega

theorem find?_mem_pred {α} {p : α → Bool} {l : List α} {a : α} (h : l.find? p = some a) : p a = true :=
  List.find?_some h

theorem optMatchOnce_le (g : Grammar) {inp : Input} (alts : List Alt) (p q : Nat)
    (h : L1.optMatchOnce g inp alts p = some q) : p ≤ q ∧ q ≤ inp.size := by
  unfold L1.optMatchOnce at h
  simp only [] at h
  split at h
  · rename_i s hs
    have h1 := find?_mem_pred hs
    have := startsWithAt_le s p h1
    simp only [Option.some.injEq] at h; omega
  · split at h
    · rename_i s hs
      have h1 := find?_mem_pred hs
      have := startsWithAtCI_le s p h1
      simp only [Option.some.injEq] at h; omega
    · cases hg : inp[p]? with
      | none => simp [hg] at h
      | some c =>
        have hlt := getElem?_lt hg
        simp only [hg] at h
        split at h
        · simp only [Option.some.injEq] at h; omega
        · split at h
          · simp only [Option.some.injEq] at h; omega
          · cases h

theorem optMatchStar_le (g : Grammar) {inp : Input} (alts : List Alt) : ∀ (n p : Nat), p ≤ inp.size →
    p ≤ L1.optMatchStar g inp alts n p ∧ L1.optMatchStar g inp alts n p ≤ inp.size := by
  intro n
  induction n with
  | zero => intro p hp; simp [L1.optMatchStar, hp]
  | succ n ih =>
    intro p hp
    simp only [L1.optMatchStar]
    cases ho : L1.optMatchOnce g inp alts p with
    | none => simp [hp]
    | some q =>
      have hq := optMatchOnce_le g alts p q ho
      simp only []
      by_cases hgt : q > p
      · simp only [hgt, ↓reduceIte]
        have := ih q hq.2
        omega
      · simp only [hgt, ↓reduceIte]; omega

theorem optMatch_le (g : Grammar) {inp : Input} (alts : List Alt) (star : Bool) (p q : Nat)
    (hp : p ≤ inp.size) (h : L1.optMatch g inp alts star p = some q) : p ≤ q ∧ q ≤ inp.size := by
  unfold L1.optMatch at h
  by_cases he : alts.isEmpty = true
  · simp only [he, ↓reduceIte, Option.some.injEq] at h; omega
  · simp only [he, Bool.false_eq_true, ↓reduceIte] at h
    by_cases hs : star = true
    · simp only [hs, ↓reduceIte, Option.some.injEq] at h
      have := optMatchStar_le g alts (inp.size + 1 - p) p hp
      omega
    · simp only [hs, Bool.false_eq_true, ↓reduceIte] at h
      exact optMatchOnce_le g alts p q h

/-! ### Part 1: progress -/

section prog
variable (g : Grammar) (inp : Input) (N : List String)

/-- a successful run moves the position forward, stays inside the input, and stays put only
    if the expression is nullable -/
def Prog (rec : Sem0) : Prop :=
  ∀ e s s' ps, s.pos ≤ inp.size → rec e s = .ok s' ps →
    s.pos ≤ s'.pos ∧ s'.pos ≤ inp.size ∧ (s'.pos = s.pos → nullable N e = true)

/-- `N` is closed: a rule with a nullable body is in `N` -/
def NClosed : Prop := ∀ r ∈ g.rules, nullable N r.body = true → N.contains r.name = true

theorem nClosed_of_check (h : nullClosed g N = true) : NClosed g N := by
  intro r hr hn
  simp only [nullClosed, List.all_eq_true, Bool.or_eq_true, Bool.not_eq_true'] at h
  rcases h r hr with h' | h'
  · rw [hn] at h'; cases h'
  · exact h'

theorem lookup_mem {n : String} {r : Rule} (h : g.lookup n = some r) : r ∈ g.rules :=
  List.mem_of_find?_eq_some h

theorem lookup_name {n : String} {r : Rule} (h : g.lookup n = some r) : r.name = n := by
  have := List.find?_some h
  simpa using this

theorem fusedSkip_lookup {r : Rule} (h : g.fusedSkip = some r) : g.lookup "SKIP" = some r := by
  unfold Grammar.fusedSkip at h
  cases hl : g.lookup "SKIP" with
  | none => rw [hl] at h; cases h
  | some q =>
    rw [hl] at h
    simp only [] at h
    split at h
    · cases h; rfl
    · cases h

variable {g inp N}

theorem ruleWrap_pos {name : String} {mod : Nat} {s s1 s' : S0} {ps1 ps : List Pair}
    (h : L0.ruleWrap name mod s s1 ps1 = .ok s' ps) : s'.pos = s1.pos := by
  unfold L0.ruleWrap at h
  by_cases hS : hasBit mod SILENT = true
  · simp only [hS, ↓reduceIte, R0.ok.injEq] at h; rw [← h.1]
  · simp only [hS, Bool.false_eq_true, ↓reduceIte, R0.ok.injEq] at h; rw [← h.1]

theorem ruleApply_prog {rec : Sem0} (h : Prog inp N rec) {name : String} {mod : Nat} {body : Expr}
    {s s' : S0} {ps : List Pair} (hs : s.pos ≤ inp.size)
    (hr : L0.ruleApply rec name mod body s = .ok s' ps) :
    s.pos ≤ s'.pos ∧ s'.pos ≤ inp.size ∧ (s'.pos = s.pos → nullable N body = true) := by
  unfold L0.ruleApply at hr
  cases hb : rec body { s with atomic := L0.ruleAtomic name mod s.atomic } with
  | ok s1 ps1 =>
    rw [hb] at hr
    have hp := ruleWrap_pos hr
    have := h body { s with atomic := L0.ruleAtomic name mod s.atomic } s1 ps1 hs hb
    rw [hp]; exact this
  | fail => rw [hb] at hr; cases hr
  | oof => rw [hb] at hr; cases hr
  | stuck => rw [hb] at hr; cases hr

theorem callRule_prog {rec : Sem0} (hN : NClosed g N) (h : Prog inp N rec) {name : String}
    {s s' : S0} {ps : List Pair} (hs : s.pos ≤ inp.size)
    (hr : L0.callRule g rec name s = .ok s' ps) :
    s.pos ≤ s'.pos ∧ s'.pos ≤ inp.size ∧ (s'.pos = s.pos → N.contains name = true) := by
  unfold L0.callRule at hr
  cases hl : g.lookup name with
  | none => rw [hl] at hr; cases hr
  | some r =>
    rw [hl] at hr
    have := ruleApply_prog h hs hr
    refine ⟨this.1, this.2.1, fun he => ?_⟩
    have := hN r (lookup_mem g hl) (this.2.2 he)
    rwa [lookup_name g hl] at this

theorem trySkip_prog {rec : Sem0} (h : Prog inp N rec) {ro : Option Rule} {s s' : S0}
    {ps : List Pair} (hs : s.pos ≤ inp.size) (hr : L0.trySkip rec ro s = .matched s' ps) :
    ∃ r, ro = some r ∧ s.pos ≤ s'.pos ∧ s'.pos ≤ inp.size ∧
      (s'.pos = s.pos → nullable N r.body = true) := by
  unfold L0.trySkip at hr
  cases ro with
  | none => cases hr
  | some r =>
    simp only [] at hr
    cases ha : L0.ruleApply rec r.name r.mod r.body s with
    | ok s1 ps1 =>
      rw [ha] at hr
      simp only [L0.Try0.matched.injEq] at hr
      obtain ⟨rfl, _⟩ := hr
      exact ⟨r, rfl, ruleApply_prog h hs ha⟩
    | fail => rw [ha] at hr; cases hr
    | oof => rw [ha] at hr; cases hr
    | stuck => rw [ha] at hr; cases hr

theorem skipLoop_prog {rec : Sem0} (h : Prog inp N rec) (ws cm : Option Rule) :
    ∀ (k : Nat) (s : S0) (acc : List Pair) (s' : S0) (ps : List Pair), s.pos ≤ inp.size →
      L0.skipLoop rec ws cm k s acc = .ok s' ps → s.pos ≤ s'.pos ∧ s'.pos ≤ inp.size := by
  intro k
  induction k with
  | zero => intro s acc s' ps _ hr; cases hr
  | succ k ih =>
    intro s acc s' ps hs hr
    simp only [L0.skipLoop] at hr
    cases h1 : L0.trySkip rec ws s with
    | matched s1 ps1 =>
      rw [h1] at hr
      obtain ⟨_, _, a, b, _⟩ := trySkip_prog h hs h1
      have := ih s1 _ s' ps b hr
      omega
    | stop r => rw [h1] at hr; simp only [] at hr; subst hr; unfold L0.trySkip at h1; cases ws with
      | none => cases h1
      | some r =>
        simp only [] at h1
        cases ha : L0.ruleApply rec r.name r.mod r.body s with
        | ok s1 ps1 => rw [ha] at h1; cases h1
        | fail => rw [ha] at h1; cases h1
        | oof => rw [ha] at h1; cases h1
        | stuck => rw [ha] at h1; cases h1
    | no =>
      rw [h1] at hr
      simp only [] at hr
      cases h2 : L0.trySkip rec cm s with
      | matched s1 ps1 =>
        rw [h2] at hr
        obtain ⟨_, _, a, b, _⟩ := trySkip_prog h hs h2
        have := ih s1 _ s' ps b hr
        omega
      | stop r => rw [h2] at hr; simp only [] at hr; subst hr; unfold L0.trySkip at h2; cases cm with
        | none => cases h2
        | some r =>
          simp only [] at h2
          cases ha : L0.ruleApply rec r.name r.mod r.body s with
          | ok s1 ps1 => rw [ha] at h2; cases h2
          | fail => rw [ha] at h2; cases h2
          | oof => rw [ha] at h2; cases h2
          | stuck => rw [ha] at h2; cases h2
      | no =>
        rw [h2] at hr
        simp only [R0.ok.injEq] at hr
        obtain ⟨rfl, _⟩ := hr
        omega

theorem skip_prog {rec : Sem0} (h : Prog inp N rec) {k : Nat} {s s' : S0} {ps : List Pair}
    (hs : s.pos ≤ inp.size) (hr : L0.skip g rec k s = .ok s' ps) :
    s.pos ≤ s'.pos ∧ s'.pos ≤ inp.size := by
  unfold L0.skip at hr
  by_cases ha : s.atomic = true
  · simp only [ha, ↓reduceIte, R0.ok.injEq] at hr; obtain ⟨rfl, _⟩ := hr; omega
  · simp only [ha, Bool.false_eq_true, ↓reduceIte] at hr
    cases hf : g.fusedSkip with
    | some r =>
      rw [hf] at hr; simp only [] at hr
      have := ruleApply_prog h hs hr
      exact ⟨this.1, this.2.1⟩
    | none =>
      rw [hf] at hr; simp only [] at hr
      by_cases hn : ((g.lookup "WHITESPACE").isNone && (g.lookup "COMMENT").isNone) = true
      · simp only [hn, ↓reduceIte, R0.ok.injEq] at hr; obtain ⟨rfl, _⟩ := hr; omega
      · simp only [hn, Bool.false_eq_true, ↓reduceIte] at hr
        exact skipLoop_prog h _ _ k s [] s' ps hs hr

theorem seqL_prog {rec : Sem0} (h : Prog inp N rec) (k : Nat) :
    ∀ (es : List Expr) (s : S0) (acc : List Pair) (s' : S0) (ps : List Pair), s.pos ≤ inp.size →
      L0.seqL g rec k es s acc = .ok s' ps →
      s.pos ≤ s'.pos ∧ s'.pos ≤ inp.size ∧ (s'.pos = s.pos → nullableAll N es = true) := by
  intro es
  induction es with
  | nil =>
    intro s acc s' ps hs hr
    simp only [L0.seqL, R0.ok.injEq] at hr
    obtain ⟨rfl, _⟩ := hr
    exact ⟨Nat.le_refl _, hs, fun _ => by simp [nullableAll]⟩
  | cons e rest ih =>
    intro s acc s' ps hs hr
    simp only [L0.seqL] at hr
    cases he : rec e s with
    | ok s1 ps1 =>
      rw [he] at hr; simp only [] at hr
      have p1 := h e s s1 ps1 hs he
      by_cases hre : rest.isEmpty = true
      · simp only [hre, ↓reduceIte, R0.ok.injEq] at hr
        obtain ⟨rfl, _⟩ := hr
        have : rest = [] := by simpa using hre
        subst this
        exact ⟨p1.1, p1.2.1, fun he' => by simp [nullableAll, p1.2.2 he']⟩
      · simp only [hre, Bool.false_eq_true, ↓reduceIte] at hr
        cases hsk : L0.skip g rec k s1 with
        | ok s2 tps =>
          rw [hsk] at hr; simp only [] at hr
          have p2 := skip_prog h p1.2.1 hsk
          have p3 := ih s2 _ s' ps p2.2 hr
          refine ⟨by omega, p3.2.1, fun he' => ?_⟩
          have e1 : s1.pos = s.pos := by omega
          have e2 : s'.pos = s2.pos := by omega
          simp [nullableAll, p1.2.2 e1, p3.2.2 e2]
        | fail =>
          rw [hsk] at hr; simp only [] at hr
          have p3 := ih s1 _ s' ps p1.2.1 hr
          refine ⟨by omega, p3.2.1, fun he' => ?_⟩
          have e1 : s1.pos = s.pos := by omega
          have e2 : s'.pos = s1.pos := by omega
          simp [nullableAll, p1.2.2 e1, p3.2.2 e2]
        | oof => rw [hsk] at hr; cases hr
        | stuck => rw [hsk] at hr; cases hr
    | fail => rw [he] at hr; cases hr
    | oof => rw [he] at hr; cases hr
    | stuck => rw [he] at hr; cases hr

theorem choiceL_prog {rec : Sem0} (h : Prog inp N rec) :
    ∀ (es : List Expr) (s : S0) (s' : S0) (ps : List Pair), s.pos ≤ inp.size →
      L0.choiceL rec es s = .ok s' ps →
      s.pos ≤ s'.pos ∧ s'.pos ≤ inp.size ∧ (s'.pos = s.pos → nullableAny N es = true) := by
  intro es
  induction es with
  | nil => intro s s' ps _ hr; cases hr
  | cons e rest ih =>
    intro s s' ps hs hr
    simp only [L0.choiceL] at hr
    cases he : rec e s with
    | ok s1 ps1 =>
      rw [he] at hr; simp only [R0.ok.injEq] at hr
      obtain ⟨rfl, _⟩ := hr
      have p1 := h e s s1 ps1 hs he
      exact ⟨p1.1, p1.2.1, fun he' => by simp [nullableAny, p1.2.2 he']⟩
    | fail =>
      rw [he] at hr; simp only [] at hr
      have p := ih s s' ps hs hr
      exact ⟨p.1, p.2.1, fun he' => by simp [nullableAny, p.2.2 he']⟩
    | oof => rw [he] at hr; cases hr
    | stuck => rw [he] at hr; cases hr

theorem repLoop_prog {rec : Sem0} (h : Prog inp N rec) (e : Expr) (kk : Nat) :
    ∀ (k : Nat) (first : Bool) (s : S0) (acc : List Pair) (s' : S0) (ps : List Pair),
      s.pos ≤ inp.size → L0.repLoop g rec e k kk first s acc = .ok s' ps →
      s.pos ≤ s'.pos ∧ s'.pos ≤ inp.size := by
  intro k
  induction k with
  | zero => intro first s acc s' ps _ hr; cases hr
  | succ k ih =>
    intro first s acc s' ps hs hr
    simp only [L0.repLoop] at hr
    have hA : ∀ s1 tps, (if first = true then R0.ok s [] else L0.skip g rec kk s) = .ok s1 tps →
        s.pos ≤ s1.pos ∧ s1.pos ≤ inp.size := by
      intro s1 tps ha
      by_cases hf : first = true
      · simp only [hf, ↓reduceIte, R0.ok.injEq] at ha; obtain ⟨rfl, _⟩ := ha; omega
      · simp only [hf, Bool.false_eq_true, ↓reduceIte] at ha; exact skip_prog h hs ha
    cases ha : (if first = true then R0.ok s [] else L0.skip g rec kk s) with
    | ok s1 tps =>
      rw [ha] at hr; simp only [] at hr
      have p1 := hA s1 tps ha
      cases he : rec e s1 with
      | ok s2 ps2 =>
        rw [he] at hr; simp only [] at hr
        have p2 := h e s1 s2 ps2 p1.2 he
        have p3 := ih false s2 _ s' ps p2.2.1 hr
        omega
      | fail => rw [he] at hr; simp only [R0.ok.injEq] at hr; obtain ⟨rfl, _⟩ := hr; omega
      | oof => rw [he] at hr; cases hr
      | stuck => rw [he] at hr; cases hr
    | fail => rw [ha] at hr; simp only [R0.ok.injEq] at hr; obtain ⟨rfl, _⟩ := hr; omega
    | oof => rw [ha] at hr; cases hr
    | stuck => rw [ha] at hr; cases hr

theorem nullableAll_append (a b : List Expr) :
    nullableAll N (a ++ b) = (nullableAll N a && nullableAll N b) := by
  induction a with
  | nil => simp [nullableAll]
  | cons x xs ih => simp [nullableAll, ih, Bool.and_assoc]

theorem nullableAll_replicate {n : Nat} {e : Expr} (h : nullableAll N (List.replicate n e) = true) :
    n = 0 ∨ nullable N e = true := by
  cases n with
  | zero => exact Or.inl rfl
  | succ n =>
    simp only [List.replicate_succ, nullableAll, Bool.and_eq_true] at h
    exact Or.inr h.1

theorem step_prog {rec : Sem0} (hN : NClosed g N) (k : Nat) (h : Prog inp N rec) :
    Prog inp N (L0.step g inp k rec) := by
  intro e s s' ps hs hr
  cases e with
  | str x =>
    simp only [L0.step] at hr
    by_cases hm : startsWithAt inp x s.pos = true
    · simp only [hm, ↓reduceIte, R0.ok.injEq] at hr
      obtain ⟨rfl, _⟩ := hr
      have := startsWithAt_le x s.pos hm
      refine ⟨by simp [L0.adv], by simp [L0.adv]; omega, fun he => ?_⟩
      simp only [L0.adv] at he
      have : x.length = 0 := by omega
      simp [nullable, List.length_eq_zero_iff.1 this]
    · simp only [hm, Bool.false_eq_true, ↓reduceIte] at hr; cases hr
  | ci x =>
    simp only [L0.step] at hr
    by_cases hm : startsWithAtCI inp x s.pos = true
    · simp only [hm, ↓reduceIte, R0.ok.injEq] at hr
      obtain ⟨rfl, _⟩ := hr
      have := startsWithAtCI_le x s.pos hm
      refine ⟨by simp [L0.adv], by simp [L0.adv]; omega, fun he => ?_⟩
      simp only [L0.adv] at he
      have : x.length = 0 := by omega
      simp [nullable, List.length_eq_zero_iff.1 this]
    · simp only [hm, Bool.false_eq_true, ↓reduceIte] at hr; cases hr
  | range a b =>
    simp only [L0.step] at hr
    cases hg : inp[s.pos]? with
    | none => rw [hg] at hr; cases hr
    | some c =>
      rw [hg] at hr; simp only [] at hr
      have := getElem?_lt hg
      by_cases hm : (decide (a ≤ c) && decide (c ≤ b)) = true
      · simp only [hm, ↓reduceIte, R0.ok.injEq] at hr
        obtain ⟨rfl, _⟩ := hr
        refine ⟨by simp [L0.adv], by simp [L0.adv]; omega, fun he => ?_⟩
        simp only [L0.adv] at he; omega
      · simp only [hm, Bool.false_eq_true, ↓reduceIte] at hr; cases hr
  | ident name tag =>
    simp only [L0.step] at hr
    have := callRule_prog hN h hs hr
    exact ⟨this.1, this.2.1, fun he => by simpa [nullable] using this.2.2 he⟩
  | rule name mod sm body =>
    simp only [L0.step] at hr
    have := ruleApply_prog h hs hr
    exact ⟨this.1, this.2.1, fun he => by simpa [nullable] using this.2.2 he⟩
  | seq es =>
    simp only [L0.step] at hr
    have := seqL_prog h k es s [] s' ps hs hr
    exact ⟨this.1, this.2.1, fun he => by simpa [nullable] using this.2.2 he⟩
  | choice es =>
    simp only [L0.step] at hr
    have := choiceL_prog h es s s' ps hs hr
    exact ⟨this.1, this.2.1, fun he => by simpa [nullable] using this.2.2 he⟩
  | opt e =>
    simp only [L0.step] at hr
    cases he : rec e s with
    | ok s1 ps1 =>
      rw [he] at hr; simp only [R0.ok.injEq] at hr; obtain ⟨rfl, _⟩ := hr
      have := h e s s1 ps1 hs he
      exact ⟨this.1, this.2.1, fun _ => by simp [nullable]⟩
    | fail =>
      rw [he] at hr; simp only [R0.ok.injEq] at hr; obtain ⟨rfl, _⟩ := hr
      exact ⟨Nat.le_refl _, hs, fun _ => by simp [nullable]⟩
    | oof => rw [he] at hr; cases hr
    | stuck => rw [he] at hr; cases hr
  | rep e =>
    simp only [L0.step] at hr
    have := repLoop_prog h e k k true s [] s' ps hs hr
    exact ⟨this.1, this.2, fun _ => by simp [nullable]⟩
  | rep1 e =>
    simp only [L0.step] at hr
    have := seqL_prog h k _ s [] s' ps hs hr
    refine ⟨this.1, this.2.1, fun he => ?_⟩
    have := this.2.2 he
    simp only [nullableAll, Bool.and_eq_true] at this
    simpa [nullable] using this.1
  | repExact e n =>
    simp only [L0.step] at hr
    have := seqL_prog h k _ s [] s' ps hs hr
    refine ⟨this.1, this.2.1, fun he => ?_⟩
    rcases nullableAll_replicate (this.2.2 he) with h0 | h0 <;> simp [nullable, h0]
  | repMin e n =>
    simp only [L0.step] at hr
    have := seqL_prog h k _ s [] s' ps hs hr
    refine ⟨this.1, this.2.1, fun he => ?_⟩
    have := this.2.2 he
    rw [nullableAll_append, Bool.and_eq_true] at this
    rcases nullableAll_replicate this.1 with h0 | h0 <;> simp [nullable, h0]
  | repMax e n =>
    simp only [L0.step] at hr
    have := seqL_prog h k _ s [] s' ps hs hr
    exact ⟨this.1, this.2.1, fun _ => by simp [nullable]⟩
  | repMinMax e m n =>
    simp only [L0.step] at hr
    have := seqL_prog h k _ s [] s' ps hs hr
    refine ⟨this.1, this.2.1, fun he => ?_⟩
    have := this.2.2 he
    rw [nullableAll_append, Bool.and_eq_true] at this
    rcases nullableAll_replicate this.1 with h0 | h0 <;> simp [nullable, h0]
  | andP e =>
    simp only [L0.step] at hr
    cases he : rec e s with
    | ok s1 ps1 =>
      rw [he] at hr; simp only [R0.ok.injEq] at hr; obtain ⟨rfl, _⟩ := hr
      exact ⟨Nat.le_refl _, hs, fun _ => by simp [nullable]⟩
    | fail => rw [he] at hr; cases hr
    | oof => rw [he] at hr; cases hr
    | stuck => rw [he] at hr; cases hr
  | notP e =>
    simp only [L0.step] at hr
    cases he : rec e s with
    | ok s1 ps1 => rw [he] at hr; cases hr
    | fail =>
      rw [he] at hr; simp only [R0.ok.injEq] at hr; obtain ⟨rfl, _⟩ := hr
      exact ⟨Nat.le_refl _, hs, fun _ => by simp [nullable]⟩
    | oof => rw [he] at hr; cases hr
    | stuck => rw [he] at hr; cases hr
  | group e tag =>
    simp only [L0.step] at hr
    have := h e s s' ps hs hr
    exact ⟨this.1, this.2.1, fun he => by simpa [nullable] using this.2.2 he⟩
  | push e =>
    simp only [L0.step] at hr
    cases he : rec e s with
    | ok s1 ps1 =>
      rw [he] at hr; simp only [R0.ok.injEq] at hr; obtain ⟨rfl, _⟩ := hr
      have := h e s s1 ps1 hs he
      exact ⟨this.1, this.2.1, fun he' => by simpa [nullable] using this.2.2 he'⟩
    | fail => rw [he] at hr; cases hr
    | oof => rw [he] at hr; cases hr
    | stuck => rw [he] at hr; cases hr
  | pushLit x =>
    simp only [L0.step, R0.ok.injEq] at hr; obtain ⟨rfl, _⟩ := hr
    exact ⟨Nat.le_refl _, hs, fun _ => by simp [nullable]⟩
  | peek =>
    simp only [L0.step] at hr
    cases hst : s.stk with
    | nil => rw [hst] at hr; cases hr
    | cons t r =>
      rw [hst] at hr; simp only [] at hr
      by_cases hm : startsWithAt inp t s.pos = true
      · simp only [hm, ↓reduceIte, R0.ok.injEq] at hr
        obtain ⟨rfl, _⟩ := hr
        have := startsWithAt_le t s.pos hm
        exact ⟨by simp [L0.adv], by simp [L0.adv]; omega, fun _ => by simp [nullable]⟩
      · simp only [hm, Bool.false_eq_true, ↓reduceIte] at hr; cases hr
  | pop =>
    simp only [L0.step] at hr
    cases hst : s.stk with
    | nil => rw [hst] at hr; cases hr
    | cons t r =>
      rw [hst] at hr; simp only [] at hr
      by_cases hm : startsWithAt inp t s.pos = true
      · simp only [hm, ↓reduceIte, R0.ok.injEq] at hr
        obtain ⟨rfl, _⟩ := hr
        have := startsWithAt_le t s.pos hm
        exact ⟨by simp [L0.adv], by simp [L0.adv]; omega, fun _ => by simp [nullable]⟩
      · simp only [hm, Bool.false_eq_true, ↓reduceIte] at hr; cases hr
  | drop =>
    simp only [L0.step] at hr
    cases hst : s.stk with
    | nil => rw [hst] at hr; cases hr
    | cons t r =>
      rw [hst] at hr; simp only [R0.ok.injEq] at hr; obtain ⟨rfl, _⟩ := hr
      exact ⟨Nat.le_refl _, hs, fun _ => by simp [nullable]⟩
  | peekAll =>
    simp only [L0.step, L0.matchLits] at hr
    cases hm : L1.matchAll inp s.stk s.pos with
    | none => rw [hm] at hr; cases hr
    | some q =>
      rw [hm] at hr; simp only [R0.ok.injEq] at hr; obtain ⟨rfl, _⟩ := hr
      have := matchAll_le _ _ _ hs hm
      exact ⟨this.1, this.2, fun _ => by simp [nullable]⟩
  | popAll =>
    simp only [L0.step, L0.matchLits] at hr
    cases hm : L1.matchAll inp s.stk s.pos with
    | none => rw [hm] at hr; cases hr
    | some q =>
      rw [hm] at hr; simp only [R0.ok.injEq] at hr; obtain ⟨rfl, _⟩ := hr
      have := matchAll_le _ _ _ hs hm
      exact ⟨this.1, this.2, fun _ => by simp [nullable]⟩
  | peekSlice a b =>
    simp only [L0.step, L0.matchLits] at hr
    cases hm : L1.matchAll inp (pySlice s.stk.reverse a b) s.pos with
    | none => rw [hm] at hr; cases hr
    | some q =>
      rw [hm] at hr; simp only [R0.ok.injEq] at hr; obtain ⟨rfl, _⟩ := hr
      have := matchAll_le _ _ _ hs hm
      exact ⟨this.1, this.2, fun _ => by simp [nullable]⟩
  | anyB =>
    simp only [L0.step] at hr
    by_cases hm : s.pos < inp.size
    · simp only [hm, ↓reduceIte, R0.ok.injEq] at hr
      obtain ⟨rfl, _⟩ := hr
      refine ⟨by simp [L0.adv], by simp [L0.adv]; omega, fun he => ?_⟩
      simp only [L0.adv] at he; omega
    · simp only [hm, ↓reduceIte] at hr; cases hr
  | soiB =>
    simp only [L0.step] at hr
    by_cases hm : (s.pos == 0) = true
    · simp only [hm, ↓reduceIte, R0.ok.injEq] at hr; obtain ⟨rfl, _⟩ := hr
      exact ⟨Nat.le_refl _, hs, fun _ => by simp [nullable]⟩
    · simp only [hm, Bool.false_eq_true, ↓reduceIte] at hr; cases hr
  | eoiB =>
    simp only [L0.step] at hr
    by_cases hm : (s.pos == inp.size) = true
    · simp only [hm, ↓reduceIte, R0.ok.injEq] at hr; obtain ⟨rfl, _⟩ := hr
      exact ⟨Nat.le_refl _, hs, fun _ => by simp [nullable]⟩
    · simp only [hm, Bool.false_eq_true, ↓reduceIte] at hr; cases hr
  | uprop n =>
    simp only [L0.step] at hr
    cases hg : inp[s.pos]? with
    | none => rw [hg] at hr; cases hr
    | some c =>
      rw [hg] at hr; simp only [] at hr
      have := getElem?_lt hg
      by_cases hm : g.uprop n c = true
      · simp only [hm, ↓reduceIte, R0.ok.injEq] at hr
        obtain ⟨rfl, _⟩ := hr
        refine ⟨by simp [L0.adv], by simp [L0.adv]; omega, fun he => ?_⟩
        simp only [L0.adv] at he; omega
      · simp only [hm, Bool.false_eq_true, ↓reduceIte] at hr; cases hr
  | skipUntil subs =>
    simp only [L0.step, R0.ok.injEq] at hr; obtain ⟨rfl, _⟩ := hr
    have := skipUntilPos_le subs s.pos hs
    exact ⟨this.1, this.2, fun _ => by simp [nullable]⟩
  | optChoice alts star =>
    simp only [L0.step] at hr
    cases hm : L1.optMatch g inp alts star s.pos with
    | none => rw [hm] at hr; cases hr
    | some q =>
      rw [hm] at hr; simp only [R0.ok.injEq] at hr; obtain ⟨rfl, _⟩ := hr
      have := optMatch_le g alts star s.pos q hs hm
      exact ⟨this.1, this.2, fun _ => by simp [nullable]⟩

theorem run_prog (hN : NClosed g N) : ∀ n, Prog inp N (L0.run g inp n) := by
  intro n
  induction n with
  | zero => intro e s s' ps _ hr; cases hr
  | succ n ih => exact step_prog hN n ih

end prog

/-! ### Part 2: convergence -/

mutual
/-- a size under which the unrolled forms of the bounded repetitions are smaller than the node -/
def esize : Expr → Nat
  | .rule _ _ _ b => esize b + 1
  | .seq es => esizeL es + 1
  | .choice es => esizeL es + 1
  | .opt e => esize e + 1
  | .rep e => esize e + 1
  | .rep1 e => esize e + 2
  | .repExact e _ => esize e + 1
  | .repMin e _ => esize e + 2
  | .repMax e _ => esize e + 2
  | .repMinMax e _ _ => esize e + 2
  | .andP e => esize e + 1
  | .notP e => esize e + 1
  | .group e _ => esize e + 1
  | .push e => esize e + 1
  | .str _ => 1
  | .ci _ => 1
  | .range _ _ => 1
  | .ident _ _ => 1
  | .pushLit _ => 1
  | .peek => 1
  | .pop => 1
  | .drop => 1
  | .peekAll => 1
  | .popAll => 1
  | .peekSlice _ _ => 1
  | .anyB => 1
  | .soiB => 1
  | .eoiB => 1
  | .uprop _ => 1
  | .skipUntil _ => 1
  | .optChoice _ _ => 1
def esizeL : List Expr → Nat
  | [] => 0
  | e :: es => esize e + esizeL es
end

theorem esize_mem {e : Expr} {es : List Expr} (h : e ∈ es) : esize e ≤ esizeL es := by
  induction es with
  | nil => cases h
  | cons x xs ih =>
    simp only [esizeL]
    rcases List.mem_cons.1 h with rfl | h'
    · omega
    · have := ih h'; omega

section conv
variable (g : Grammar) (inp : Input)

/-- `e` converges from `s`: some amount of fuel gives an answer -/
def T (e : Expr) (s : S0) : Prop := ∃ n, L0.run g inp n e s ≠ .oof

/-- `F (run M)` is eventually constant and not out-of-fuel -/
def Stable (F : Nat → R0) : Prop := ∃ n x, x ≠ R0.oof ∧ ∀ M, n ≤ M → F M = x

variable {g inp}

theorem T.stable {e : Expr} {s : S0} (h : T g inp e s) : Stable fun M => L0.run g inp M e s := by
  obtain ⟨n, hn⟩ := h
  refine ⟨n, L0.run g inp n e s, hn, fun M hM => ?_⟩
  exact L0.run_mono g inp hM e s hn

theorem T.of_step {e : Expr} {s : S0} (h : Stable fun M => L0.step g inp M (L0.run g inp M) e s) :
    T g inp e s := by
  obtain ⟨n, x, hx, hst⟩ := h
  refine ⟨n + 1, ?_⟩
  show L0.step g inp n (L0.run g inp n) e s ≠ .oof
  rw [hst n (Nat.le_refl _)]; exact hx

theorem ruleWrap_ne_oof (name : String) (mod : Nat) (s s1 : S0) (ps : List Pair) :
    L0.ruleWrap name mod s s1 ps ≠ .oof := by
  unfold L0.ruleWrap
  by_cases hS : hasBit mod SILENT = true <;> simp [hS]

theorem ruleApply_stable {name : String} {mod : Nat} {body : Expr} {s : S0}
    (h : T g inp body { s with atomic := L0.ruleAtomic name mod s.atomic }) :
    Stable fun M => L0.ruleApply (L0.run g inp M) name mod body s := by
  obtain ⟨n, x, hx, hst⟩ := h.stable
  cases x with
  | oof => exact absurd rfl hx
  | ok s1 ps1 =>
    refine ⟨n, L0.ruleWrap name mod s s1 ps1, ruleWrap_ne_oof _ _ _ _ _, fun M hM => ?_⟩
    have := hst M hM
    simp only [L0.ruleApply] at this ⊢
    rw [this]
  | fail =>
    refine ⟨n, .fail, by simp, fun M hM => ?_⟩
    have := hst M hM
    simp only [L0.ruleApply] at this ⊢
    rw [this]
  | stuck =>
    refine ⟨n, .stuck, by simp, fun M hM => ?_⟩
    have := hst M hM
    simp only [L0.ruleApply] at this ⊢
    rw [this]

/-- `trySkip` is eventually constant, and not "out of fuel" -/
theorem trySkip_stable {ro : Option Rule} {s : S0}
    (h : ∀ r, ro = some r → T g inp r.body { s with atomic := L0.ruleAtomic r.name r.mod s.atomic }) :
    ∃ n t, (∀ x, t = L0.Try0.stop x → x ≠ .oof) ∧ ∀ M, n ≤ M → L0.trySkip (L0.run g inp M) ro s = t := by
  cases ro with
  | none => exact ⟨0, .no, by intro x hx; cases hx, fun M _ => rfl⟩
  | some r =>
    obtain ⟨n, x, hx, hst⟩ := ruleApply_stable (h r rfl)
    cases x with
    | oof => exact absurd rfl hx
    | ok s1 ps1 =>
      refine ⟨n, .matched s1 ps1, by intro x hx; cases hx, fun M hM => ?_⟩
      have := hst M hM
      simp only [L0.trySkip] at this ⊢
      rw [this]
    | fail =>
      refine ⟨n, .no, by intro x hx; cases hx, fun M hM => ?_⟩
      have := hst M hM
      simp only [L0.trySkip] at this ⊢
      rw [this]
    | stuck =>
      refine ⟨n, .stop .stuck, by intro x hx; cases hx; simp, fun M hM => ?_⟩
      have := hst M hM
      simp only [L0.trySkip] at this ⊢
      rw [this]

end conv

end Term
end Pest
