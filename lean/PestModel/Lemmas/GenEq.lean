/-
  Lemmas/GenEq.lean — the generated-code model LG is observationally equal to the
  interpreter model L1, with equal fuel.

  `SRel cg c1`   the two parser states agree on everything a later step can observe:
                 position, user stack (contents and everything any pending snapshot would
                 restore — the delta encodings themselves may differ: POP_ALL pops one by one
                 in the interpreter and calls `clear()` in generated code), atomic depth,
                 position history, tag stack and tag history, negative-predicate depth, suppress flag and the
                 furthest failure *position*.  Not related: the rule stack and the keys of the
                 failure record (generated code inlines built-in rules instead of pushing a
                 frame for them, so the key under which a label is recorded differs).
  `GenRel`       same verdict, related end states, and on success the caller's list is the
                 old content followed by exactly the interpreter's new pairs (on failure its
                 content is garbage on the generated side).
-/
import PestModel.Gen
import PestModel.Lemmas.Refine
import PestModel.Lemmas.TagHist

namespace Pest
open DStack

structure SRel (cg c1 : PState) : Prop where
  pos : cg.pos = c1.pos
  ui : cg.ustack.items = c1.ustack.items
  usn : snapsOf cg.ustack = snapsOf c1.ustack
  uinv : Inv cg.ustack
  ad : cg.adepth = c1.adepth
  ph : cg.posHist = c1.posHist
  tg : cg.tagStack = c1.tagStack ∧ cg.tagHist = c1.tagHist
  nd : cg.negDepth = c1.negDepth
  sp : cg.suppress = c1.suppress
  fp : cg.fpos = c1.fpos

/-- generated side: the rule stack is well-formed and we are inside some rule -/
structure PreG (cg : PState) : Prop where
  ir : Inv cg.rstack
  rne : cg.rstack.items ≠ []

/-- generated side: the rule stack is balanced and its snapshots are untouched -/
structure FrameR (cg cg' : PState) : Prop where
  ri : cg'.rstack.items = cg.rstack.items
  rs : snapsOf cg'.rstack = snapsOf cg.rstack
  ir : Inv cg'.rstack

namespace FrameR
theorem refl {c : PState} (p : PreG c) : FrameR c c := ⟨rfl, rfl, p.ir⟩
theorem trans {a b c : PState} (h1 : FrameR a b) (h2 : FrameR b c) : FrameR a c :=
  ⟨h2.ri.trans h1.ri, h2.rs.trans h1.rs, h2.ir⟩
theorem pre {c c' : PState} (h : FrameR c c') (p : PreG c) : PreG c' :=
  ⟨h.ir, by rw [h.ri]; exact p.rne⟩
theorem of_same {c c' : PState} (p : PreG c) (h : c'.rstack = c.rstack) : FrameR c c' :=
  ⟨by rw [h], by rw [h], by rw [h]; exact p.ir⟩
end FrameR

theorem preG_checkpoint {c : PState} (p : PreG c) : PreG c.checkpoint :=
  ⟨inv_snapshot _ p.ir, p.rne⟩

theorem frameR_ok_after {c c1 : PState} (f : FrameR c.checkpoint c1) : FrameR c c1.ok := by
  refine ⟨?_, ?_, inv_dropSnap _ f.ir⟩
  · simp [PState.ok, dropSnap_items, f.ri, PState.checkpoint, snapshot_items]
  · simp only [PState.ok]
    rw [snapsOf_dropSnap _ f.ir, f.rs]; simp [PState.checkpoint, snapsOf_snapshot]

theorem frameR_restore_after {c c1 : PState} (f : FrameR c.checkpoint c1) : FrameR c c1.restore := by
  have hr : snapsOf c1.rstack = c.rstack.items :: snapsOf c.rstack := by
    rw [f.rs]; simp [PState.checkpoint, snapsOf_snapshot]
  have hrl := lengths_ne_of_snaps hr
  rw [snapsOf_cons _ hrl] at hr
  simp only [List.cons.injEq] at hr
  exact ⟨by simp [PState.restore, hr.1], by simp [PState.restore, hr.2], inv_restore _ f.ir⟩

/-! ### the state relation is preserved by checkpoint / ok / restore -/

theorem srel_checkpoint {cg c1 : PState} (s : SRel cg c1) : SRel cg.checkpoint c1.checkpoint :=
  ⟨by simp [PState.checkpoint, s.pos], by simp [PState.checkpoint, snapshot_items, s.ui],
   by simp [PState.checkpoint, snapsOf_snapshot, s.ui, s.usn], inv_snapshot _ s.uinv,
   by simp [PState.checkpoint, s.ad], by simp [PState.checkpoint, s.pos, s.ph],
   ⟨s.tg.1, by simp [s.tg.1, s.tg.2]⟩, s.nd, s.sp, s.fp⟩

theorem srel_ok {cg c1 : PState} (s : SRel cg c1) (i1 : Inv c1.ustack) : SRel cg.ok c1.ok :=
  ⟨s.pos, by simp [PState.ok, dropSnap_items, s.ui],
   by simp only [PState.ok]; rw [snapsOf_dropSnap _ s.uinv, snapsOf_dropSnap _ i1, s.usn],
   inv_dropSnap _ s.uinv, by simp [PState.ok, s.ad], by simp [PState.ok, s.ph],
   ⟨s.tg.1, by simp [s.tg.2]⟩, s.nd, s.sp, s.fp⟩

theorem abs_eq {α} {d d' : DStack α} (h1 : d.items = d'.items) (h2 : snapsOf d = snapsOf d') :
    DStack.abs d = DStack.abs d' := by simp [DStack.abs, h1, h2]

theorem srel_restore {cg c1 : PState} (s : SRel cg c1) : SRel cg.restore c1.restore := by
  have ha : DStack.abs cg.ustack.restore = DStack.abs c1.ustack.restore := by
    rw [abs_restore, abs_restore, abs_eq s.ui s.usn]
  simp only [DStack.abs, RStack.mk.injEq] at ha
  exact ⟨by simp [PState.restore, s.pos, s.ph], by simp [PState.restore, ha.1],
    by simp [PState.restore, ha.2], inv_restore _ s.uinv, by simp [PState.restore, s.ad],
    by simp [PState.restore, s.ph], ⟨by simp [s.tg.1, s.tg.2], by simp [s.tg.2]⟩, s.nd, s.sp, s.fp⟩

/-! ### `fail()` -/

theorem failRecord_fpos (c : PState) (name : String) (p : Nat) :
    (c.failRecord name p).fpos = if (p : Int) > c.fpos then (p : Int) else c.fpos := by
  unfold PState.failRecord
  by_cases h1 : (p : Int) > c.fpos
  · simp [h1]
  · by_cases h2 : (p : Int) = c.fpos
    · by_cases h3 : (c.negDepth % 2 == 1) = true <;> simp [h1, h2, h3]
    · simp [h1, h2]

theorem srel_fail {cg c1 cg' c1' : PState} {rn rn' : Option String} {force : Bool}
    (s : SRel cg c1) (hg : cg.fail rn force = some cg') (h1 : c1.fail rn' force = some c1') :
    SRel cg' c1' ∧ cg'.rstack = cg.rstack := by
  obtain ⟨g0, g1, g2, g3, g4, g5, g6, g7⟩ := fail_same hg
  obtain ⟨l0, l1, l2, l3, l4, l5, l6, l7⟩ := fail_same h1
  refine ⟨⟨by rw [g0, l0, s.pos], by rw [g2, l2, s.ui], by rw [g2, l2, s.usn], by rw [g2]; exact s.uinv,
    by rw [g4, l4, s.ad], by rw [g1, l1, s.ph],
    ⟨by rw [g6, l6, s.tg.1], by rw [fail_tagHist hg, fail_tagHist h1, s.tg.2]⟩, by rw [g5, l5, s.nd],
    by rw [g7, l7, s.sp], ?_⟩, g3⟩
  unfold PState.fail at hg h1
  rw [s.nd, s.sp] at hg
  by_cases hs : ((c1.negDepth > 0 && !force) || c1.suppress) = true
  · simp only [hs, ↓reduceIte, Option.some.injEq] at hg h1
    subst hg h1; exact s.fp
  · simp only [hs] at hg h1
    cases hn : cg.failName rn with
    | none => simp [hn] at hg
    | some nm =>
      cases hn' : c1.failName rn' with
      | none => simp [hn'] at h1
      | some nm' =>
        simp [hn] at hg
        simp [hn'] at h1
        subst hg h1
        rw [failRecord_fpos, failRecord_fpos]
        simp [PState.failPos, s.pos, s.fp]

/-! ### the result relation -/

def benign : PyExc → Bool
  | .other | .nameError => true
  | _ => false

def GenRel (cg : PState) (ps0 : List Pair) : RG → R1 → Prop
  | .oof, r1 => r1 = .oof
  | .exc k, _ => benign k = true
  | .done m cg' psg, r1 =>
    ∃ c1' ps1, r1 = .done m c1' ps1 ∧ SRel cg' c1' ∧ FrameR cg cg' ∧ (m = true → psg = ps0 ++ ps1)

structure GoodG (rG : SemG) (r1 : Sem1) : Prop where
  rel : ∀ e cg c1 ps0, SRel cg c1 → PreG cg → Pre c1 → GenRel cg ps0 (rG e cg ps0) (r1 e c1)

theorem GenRel.mono_start {cg dg : PState} {ps0 : List Pair} {rg : RG} {r1 : R1}
    (f : FrameR cg dg) (h : GenRel dg ps0 rg r1) : GenRel cg ps0 rg r1 := by
  cases rg with
  | oof => exact h
  | exc k => exact h
  | done m cg' psg =>
    obtain ⟨c1', ps1, e, s, fr, hp⟩ := h
    exact ⟨c1', ps1, e, s, f.trans fr, hp⟩

/-- the interpreter side of a call leaves its frame intact (from the refinement proof) -/
theorem l1_frame {r1 : Sem1} {r0 : Sem0} (h : Good r1 r0) {e : Expr} {c c' : PState} {m : Bool}
    {ps : List Pair} (p : Pre c) (hr : r1 e c = .done m c' ps) : Frame c c' := by
  have := h.rel e c p
  rw [hr] at this
  cases m with
  | true => exact this.2
  | false => exact this.2.2

variable (g : Grammar) (inp : Input)

/-! ### terminals that fail through `state.fail` -/

theorem failT_gen {cg c1 : PState} (ps0 : List Pair) (s : SRel cg c1) (pg : PreG cg) (p1 : Pre c1) :
    GenRel cg ps0 (LG.failT cg ps0) (L1.failT c1) := by
  obtain ⟨cg', hg⟩ := fail_isSome pg.rne none false
  obtain ⟨c1', h1⟩ := fail_isSome p1.rne none false
  unfold LG.failT L1.failT
  rw [hg, h1]
  obtain ⟨sr, hr⟩ := srel_fail s hg h1
  exact ⟨c1', [], rfl, sr, FrameR.of_same pg hr, by simp⟩

/-! ### rules -/

theorem pop_pushed {d d2 : DStack String} {name : String} (hi : d2.items = name :: d.items)
    (hs : snapsOf d2 = snapsOf d) (i2 : Inv d2) :
    ∃ rs, d2.pop = some (name, rs) ∧ rs.items = d.items ∧ snapsOf rs = snapsOf d ∧ Inv rs := by
  cases hp : d2.pop with
  | none => have := pop_none_items hp; rw [hi] at this; cases this
  | some q =>
    obtain ⟨x, rs⟩ := q
    have h1 := pop_some_items hp
    rw [hi] at h1
    simp only [List.cons.injEq] at h1
    obtain ⟨s1, _⟩ := snapsOf_pop _ i2 x rs hp
    exact ⟨rs, by rw [h1.1], h1.2.symm, by rw [s1, hs], inv_pop _ i2 x rs hp⟩

theorem srel_enter {cg c1 : PState} (name : String) (mod : Nat) (s : SRel cg c1) :
    SRel (L1.ruleEnter name mod { cg with rstack := cg.rstack.push name })
         (L1.ruleEnter name mod { c1 with rstack := c1.rstack.push name }) := by
  unfold L1.ruleEnter
  by_cases hA : (hasBit mod ATOMIC || hasBit mod COMPOUND || L1.isTriviaName name) = true
  · simp only [hA, ↓reduceIte]
    exact ⟨s.pos, s.ui, s.usn, s.uinv, by simp [s.ad], s.ph, s.tg, s.nd, s.sp, s.fp⟩
  · by_cases hN : hasBit mod NONATOMIC = true
    · simp only [hA, hN, Bool.false_eq_true, ↓reduceIte]
      exact ⟨s.pos, s.ui, s.usn, s.uinv, by simp [s.ad], s.ph, s.tg, s.nd, s.sp, s.fp⟩
    · simp only [hA, hN, Bool.false_eq_true, ↓reduceIte]
      exact ⟨s.pos, s.ui, s.usn, s.uinv, s.ad, s.ph, s.tg, s.nd, s.sp, s.fp⟩

theorem enter_rstack (name : String) (mod : Nat) (c : PState) :
    (L1.ruleEnter name mod { c with rstack := c.rstack.push name }).rstack = c.rstack.push name := by
  unfold L1.ruleEnter
  by_cases hA : (hasBit mod ATOMIC || hasBit mod COMPOUND || L1.isTriviaName name) = true
  · simp [hA]
  · by_cases hN : hasBit mod NONATOMIC = true <;> simp [hA, hN]

theorem rule_gen {rG : SemG} {r1 : Sem1} {r0 : Sem0} (hG : GoodG rG r1) (h1 : Good r1 r0)
    (name : String) (mod : Nat) (body : Expr) (cg c1 : PState) (ps0 : List Pair)
    (s : SRel cg c1) (pgi : Inv cg.rstack) (p1 : PreW c1) :
    GenRel cg ps0 (LG.ruleG rG name mod body cg ps0) (L1.ruleParse r1 name mod body c1) := by
  unfold LG.ruleG L1.ruleParse
  have he := rule_enter name mod c1 p1
  have se := srel_enter name mod s
  have rg := enter_rstack name mod cg
  generalize L1.ruleEnter name mod { cg with rstack := cg.rstack.push name } = eng at se rg
  generalize L1.ruleEnter name mod { c1 with rstack := c1.rstack.push name } = en1 at se he
  have peng : PreG eng := ⟨by rw [rg]; exact inv_push _ _ pgi, by rw [rg]; simp [push_items]⟩
  have hb := hG.rel body eng en1 [] se peng he.pre
  revert hb
  cases rG body eng [] with
  | oof => intro hb; simp only [GenRel] at hb; simp [hb, GenRel]
  | exc k => intro hb; exact hb
  | done m cg2 chg =>
    intro hb
    obtain ⟨c12, ch1, e1, s2, fr2, hch⟩ := hb
    simp only [e1]
    have f12 : Frame en1 c12 := l1_frame h1 he.pre e1
    -- both sides leave the `with` block …
    unfold LG.ruleExitG L1.ruleExit
    generalize hcg3 : (if L1.ruleScoped name mod then ({ cg2 with adepth := cg2.adepth.restore } : PState) else cg2) = cg3
    generalize hc13 : (if L1.ruleScoped name mod then ({ c12 with adepth := c12.adepth.restore } : PState) else c12) = c13
    have s3 : SRel cg3 c13 ∧ cg3.rstack = cg2.rstack ∧ c13.rstack = c12.rstack := by
      by_cases hsc : L1.ruleScoped name mod = true
      · simp only [hsc, ↓reduceIte] at hcg3 hc13
        subst hcg3 hc13
        exact ⟨⟨s2.pos, s2.ui, s2.usn, s2.uinv, by simp [s2.ad], s2.ph, s2.tg, s2.nd, s2.sp, s2.fp⟩, rfl, rfl⟩
      · simp only [hsc, Bool.false_eq_true, ↓reduceIte] at hcg3 hc13
        subst hcg3 hc13
        exact ⟨s2, rfl, rfl⟩
    obtain ⟨s3, hg3, h13⟩ := s3
    -- … and pop the frame they pushed
    obtain ⟨rsg, hpg, hgi, hgs, hginv⟩ : ∃ rs, cg3.rstack.pop = some (name, rs) ∧
        rs.items = cg.rstack.items ∧ snapsOf rs = snapsOf cg.rstack ∧ Inv rs := by
      rw [hg3]
      exact pop_pushed (by rw [fr2.ri, rg]; simp [push_items])
        (by rw [fr2.rs, rg, snapsOf_push _ _ pgi]) fr2.ir
    obtain ⟨rs1, hp1, _, _, _⟩ : ∃ rs, c13.rstack.pop = some (name, rs) ∧
        rs.items = c1.rstack.items ∧ snapsOf rs = snapsOf c1.rstack ∧ Inv rs := by
      rw [h13]
      exact pop_pushed (by rw [f12.ri, he.rs]; simp [push_items])
        (by rw [f12.rs, he.rs, snapsOf_push _ _ p1.ir]) f12.ir
    simp only [hpg, hp1]
    have s4 : SRel ({ cg3 with rstack := rsg } : PState) ({ c13 with rstack := rs1 } : PState) :=
      ⟨s3.pos, s3.ui, s3.usn, s3.uinv, s3.ad, s3.ph, s3.tg, s3.nd, s3.sp, s3.fp⟩
    have fr4 : FrameR cg ({ cg3 with rstack := rsg } : PState) := ⟨hgi, hgs, hginv⟩
    cases m with
    | false => exact ⟨_, [], rfl, s4, fr4, by simp⟩
    | true =>
      have hch' : chg = ch1 := by simpa using hch rfl
      subst hch'
      simp only [Bool.not_true, Bool.false_eq_true, ↓reduceIte]
      by_cases hS : hasBit mod SILENT = true
      · simp only [hS, ↓reduceIte]
        exact ⟨_, chg, rfl, s4, fr4, fun _ => rfl⟩
      · simp only [hS, Bool.false_eq_true, ↓reduceIte]
        have htg : cg3.tagStack = c13.tagStack := s3.tg.1
        rw [htg]
        cases c13.tagStack with
        | nil =>
          simp only []
          refine ⟨_, _, rfl, ?_, ?_, fun _ => ?_⟩
          · exact ⟨s3.pos, s3.ui, s3.usn, s3.uinv, s3.ad, s3.ph, ⟨rfl, s3.tg.2⟩, s3.nd, s3.sp, s3.fp⟩
          · exact ⟨hgi, hgs, hginv⟩
          · simp [s.pos, s3.pos]
        | cons t ts =>
          simp only []
          refine ⟨_, _, rfl, ?_, ?_, fun _ => ?_⟩
          · exact ⟨s3.pos, s3.ui, s3.usn, s3.uinv, s3.ad, s3.ph, ⟨rfl, s3.tg.2⟩, s3.nd, s3.sp, s3.fp⟩
          · exact ⟨hgi, hgs, hginv⟩
          · simp [s.pos, s3.pos]

/-- a failed rule function leaves the caller's list as it was -/
theorem ruleG_fail_ps {rG : SemG} {name : String} {mod : Nat} {body : Expr} {cg cg' : PState}
    {ps0 psg : List Pair} (h : LG.ruleG rG name mod body cg ps0 = .done false cg' psg) : psg = ps0 := by
  unfold LG.ruleG at h
  cases hb : rG body (L1.ruleEnter name mod { cg with rstack := cg.rstack.push name }) [] with
  | oof => rw [hb] at h; cases h
  | exc k => rw [hb] at h; cases h
  | done m c2 ch =>
    rw [hb] at h
    simp only [LG.ruleExitG] at h
    split at h
    · cases h
    · cases m with
      | false => simp only [Bool.not_false, ↓reduceIte, RG.done.injEq, true_and] at h; exact h.2.symm
      | true =>
        simp only [Bool.not_true, Bool.false_eq_true, ↓reduceIte] at h
        split at h <;> cases h

theorem callRuleG_fail_ps {rG : SemG} {name : String} {cg cg' : PState}
    {ps0 psg : List Pair} (h : LG.callRuleG g rG name cg ps0 = .done false cg' psg) : psg = ps0 := by
  unfold LG.callRuleG at h
  split at h
  · cases h
  · split at h
    · cases h
    · exact ruleG_fail_ps h

theorem callRule_gen {rG : SemG} {r1 : Sem1} {r0 : Sem0} (hG : GoodG rG r1) (h1 : Good r1 r0)
    (name : String) (cg c1 : PState) (ps0 : List Pair) (s : SRel cg c1) (pg : PreG cg) (p1 : Pre c1) :
    GenRel cg ps0 (LG.callRuleG g rG name cg ps0) (L1.callRule g r1 name c1) := by
  unfold LG.callRuleG L1.callRule
  cases g.lookup name with
  | none => simp [GenRel, benign]
  | some r =>
    simp only []
    by_cases hb : (r.kind == RuleKind.builtin && r.name != "EOI") = true
    · simp [hb, GenRel, benign]
    · simp only [hb, Bool.false_eq_true, ↓reduceIte]
      exact rule_gen hG h1 r.name r.mod r.body cg c1 ps0 s pg.ir p1.weak

theorem withTag_gen (tag : Option String) (cg c1 : PState) (ps0 : List Pair) (s : SRel cg c1)
    (pg : PreG cg) (p1 : Pre c1) (bodyG : PState → RG) (body1 : PState → R1)
    (hbody : ∀ dg d1, SRel dg d1 → PreG dg → Pre d1 → FrameR cg dg → GenRel dg ps0 (bodyG dg) (body1 d1)) :
    GenRel cg ps0 (LG.withTagG tag cg bodyG) (L1.withTag tag c1 body1) := by
  unfold LG.withTagG L1.withTag
  cases tag with
  | none => exact hbody cg c1 s pg p1 (FrameR.refl pg)
  | some t =>
    simp only []
    have s' : SRel { cg with tagStack := t :: cg.tagStack } { c1 with tagStack := t :: c1.tagStack } :=
      ⟨s.pos, s.ui, s.usn, s.uinv, s.ad, s.ph, by simp [s.tg], s.nd, s.sp, s.fp⟩
    have pg' : PreG { cg with tagStack := t :: cg.tagStack } := ⟨pg.ir, pg.rne⟩
    have p1' : Pre { c1 with tagStack := t :: c1.tagStack } := ⟨p1.iu, p1.ir, p1.rne, p1.anon⟩
    have hb := hbody _ _ s' pg' p1' ⟨rfl, rfl, pg.ir⟩
    revert hb
    cases bodyG { cg with tagStack := t :: cg.tagStack } with
    | oof => intro hb; simp only [GenRel] at hb; simp [hb, GenRel]
    | exc k => intro hb; exact hb
    | done m cg' psg =>
      intro hb
      obtain ⟨c1', ps1, e1, sr, fr, hp⟩ := hb
      simp only [e1]
      exact ⟨_, ps1, rfl,
        ⟨sr.pos, sr.ui, sr.usn, sr.uinv, sr.ad, sr.ph, by simp [sr.tg], sr.nd, sr.sp, sr.fp⟩,
        ⟨fr.ri, fr.rs, fr.ir⟩, hp⟩

/-! ### implicit trivia -/

/-- like `GenRel`, for `parse_trivia`, whose Boolean result nobody reads -/
def GenRelT (cg : PState) (ps0 : List Pair) : RG → R1 → Prop
  | .oof, r1 => r1 = .oof
  | .exc k, _ => benign k = true
  | .done _ cg' psg, r1 =>
    ∃ m1 c1' ps1, r1 = .done m1 c1' ps1 ∧ SRel cg' c1' ∧ FrameR cg cg' ∧ psg = ps0 ++ ps1

def TryRelG (cg : PState) (ps0 : List Pair) : LG.TryG → L1.TryR → Prop
  | .matched cg' psg, t1 => ∃ c1' ps1, t1 = .matched c1' ps1 ∧ SRel cg' c1' ∧ FrameR cg cg' ∧ psg = ps0 ++ ps1
  | .no cg' psg, t1 => ∃ c1', t1 = .no c1' ∧ SRel cg' c1' ∧ FrameR cg cg' ∧ psg = ps0
  | .stop rg, t1 => (rg = .oof ∧ t1 = .stop .oof) ∨ (∃ k, rg = .exc k ∧ benign k = true)

theorem tryTrivia_gen {rG : SemG} {r1 : Sem1} {r0 : Sem0} (hG : GoodG rG r1) (h1 : Good r1 r0)
    (name : String) (cg c1 : PState) (ps0 : List Pair) (s : SRel cg c1) (pg : PreG cg) (p1 : Pre c1) :
    TryRelG cg ps0 (LG.tryTriviaG g rG (g.lookup name).isSome name cg ps0)
      (L1.tryTrivia r1 (g.lookup name) c1) := by
  unfold LG.tryTriviaG L1.tryTrivia
  cases hl : g.lookup name with
  | none => exact ⟨c1, rfl, s, FrameR.refl pg, rfl⟩
  | some r =>
    simp only [Option.isSome_some, Bool.not_true, Bool.false_eq_true, ↓reduceIte]
    have hc := callRule_gen g hG h1 name cg.checkpoint c1.checkpoint ps0 (srel_checkpoint s)
      (preG_checkpoint pg) (pre_checkpoint p1)
    have hfp := fun cg' psg => @callRuleG_fail_ps g rG name cg.checkpoint cg' ps0 psg
    have e1 : L1.callRule g r1 name c1.checkpoint = L1.ruleParse r1 r.name r.mod r.body c1.checkpoint := by
      simp [L1.callRule, hl]
    rw [e1] at hc
    revert hc hfp
    cases LG.callRuleG g rG name cg.checkpoint ps0 with
    | oof => intro hc _; simp only [GenRel] at hc; simp [hc, TryRelG]
    | exc k => intro hc _; exact Or.inr ⟨k, rfl, hc⟩
    | done m cg' psg =>
      intro hc hfp
      obtain ⟨c1', ps1, e2, sr, fr, hp⟩ := hc
      simp only [e2]
      have f1 := (ruleParse_rel h1 r.name r.mod r.body c1.checkpoint (pre_checkpoint p1))
      rw [e2] at f1
      cases m with
      | true =>
        exact ⟨c1'.ok, ps1, rfl, srel_ok sr f1.2.iu, frameR_ok_after fr, hp rfl⟩
      | false =>
        exact ⟨c1'.restore, rfl, srel_restore sr, frameR_restore_after fr, hfp _ _ rfl⟩

theorem triviaLoop_gen {rG : SemG} {r1 : Sem1} {r0 : Sem0} (hG : GoodG rG r1) (h1 : Good r1 r0) :
    ∀ (k : Nat) (cg c1 : PState) (ps0 ps acc : List Pair), ps = ps0 ++ acc → SRel cg c1 → PreG cg → Pre c1 →
      GenRelT cg ps0
        (LG.triviaLoopG g rG (g.lookup "WHITESPACE").isSome (g.lookup "COMMENT").isSome k cg ps)
        (L1.triviaLoop r1 (g.lookup "WHITESPACE") (g.lookup "COMMENT") k c1 acc) := by
  intro k
  induction k with
  | zero => intro cg c1 ps0 ps acc _ _ _ _; simp [LG.triviaLoopG, L1.triviaLoop, GenRelT]
  | succ k ih =>
    intro cg c1 ps0 ps acc hps s pg p1
    subst hps
    simp only [LG.triviaLoopG, L1.triviaLoop]
    have t1 := tryTrivia_gen g hG h1 "WHITESPACE" cg c1 (ps0 ++ acc) s pg p1
    revert t1
    cases LG.tryTriviaG g rG (g.lookup "WHITESPACE").isSome "WHITESPACE" cg (ps0 ++ acc) with
    | matched cg' psg =>
      intro t1
      obtain ⟨c1', ps1, e1, sr, fr, hp⟩ := t1
      simp only [e1]
      have f1 : Frame c1 c1' := by
        have := tryTrivia_rel h1 (g.lookup "WHITESPACE") c1 p1
        rw [e1] at this; exact this.2
      have := ih cg' c1' ps0 psg (acc ++ ps1) (by rw [hp, List.append_assoc]) sr (fr.pre pg) (f1.pre p1)
      revert this
      cases LG.triviaLoopG g rG (g.lookup "WHITESPACE").isSome (g.lookup "COMMENT").isSome k cg' psg with
      | oof => exact id
      | exc kx => exact id
      | done m cg2 ps2 =>
        intro hh
        obtain ⟨m1, c2, ps2', e2, sr2, fr2, hp2⟩ := hh
        exact ⟨m1, c2, ps2', e2, sr2, fr.trans fr2, hp2⟩
    | stop rg =>
      intro t1
      rcases t1 with ⟨rfl, e1⟩ | ⟨kx, rfl, hb⟩
      · simp [e1, GenRelT]
      · exact hb
    | no cg1 psg1 =>
      intro t1
      obtain ⟨c11, e1, sr1, fr1, hp1⟩ := t1
      simp only [e1]
      subst hp1
      have f1 : Frame c1 c11 := by
        have := tryTrivia_rel h1 (g.lookup "WHITESPACE") c1 p1
        rw [e1] at this; exact this.2.1
      have t2 := tryTrivia_gen g hG h1 "COMMENT" cg1 c11 (ps0 ++ acc) sr1 (fr1.pre pg) (f1.pre p1)
      revert t2
      cases LG.tryTriviaG g rG (g.lookup "COMMENT").isSome "COMMENT" cg1 (ps0 ++ acc) with
      | matched cg' psg =>
        intro t2
        obtain ⟨c1', ps1, e2, sr, fr, hp⟩ := t2
        simp only [e2]
        have f2 : Frame c11 c1' := by
          have := tryTrivia_rel h1 (g.lookup "COMMENT") c11 (f1.pre p1)
          rw [e2] at this; exact this.2
        have := ih cg' c1' ps0 psg (acc ++ ps1) (by rw [hp, List.append_assoc]) sr
          (fr.pre (fr1.pre pg)) (f2.pre (f1.pre p1))
        revert this
        cases LG.triviaLoopG g rG (g.lookup "WHITESPACE").isSome (g.lookup "COMMENT").isSome k cg' psg with
        | oof => exact id
        | exc kx => exact id
        | done m cg2 ps2 =>
          intro hh
          obtain ⟨m1, c2, ps2', e3, sr2, fr2, hp2⟩ := hh
          exact ⟨m1, c2, ps2', e3, sr2, (fr1.trans fr).trans fr2, hp2⟩
      | stop rg =>
        intro t2
        rcases t2 with ⟨rfl, e2⟩ | ⟨kx, rfl, hb⟩
        · simp [e2, GenRelT]
        · exact hb
      | no cg2 psg2 =>
        intro t2
        obtain ⟨c12, e2, sr2, fr2, hp2⟩ := t2
        simp only [e2]
        subst hp2
        exact ⟨true, c12, acc, rfl, sr2, fr1.trans fr2, rfl⟩

theorem fusedSkip_lookup {r : Rule} (h : g.fusedSkip = some r) : g.lookup "SKIP" = some r := by
  unfold Grammar.fusedSkip at h
  cases hl : g.lookup "SKIP" with
  | none => rw [hl] at h; cases h
  | some q =>
    rw [hl] at h
    simp only [] at h
    split at h
    · cases h; rfl
    · cases h

theorem fusedSkip_none_or (h : g.fusedSkip = none) :
    g.lookup "SKIP" = none ∨ ∃ q, g.lookup "SKIP" = some q := by
  cases g.lookup "SKIP" with
  | none => exact Or.inl rfl
  | some q => exact Or.inr ⟨q, rfl⟩

theorem parseTrivia_gen {rG : SemG} {r1 : Sem1} {r0 : Sem0} (hG : GoodG rG r1) (h1 : Good r1 r0)
    (k : Nat) (cg c1 : PState) (ps0 : List Pair) (s : SRel cg c1) (pg : PreG cg) (p1 : Pre c1) :
    GenRelT cg ps0 (LG.parseTriviaG g rG k cg ps0) (L1.parseTrivia g r1 k c1) := by
  unfold LG.parseTriviaG L1.parseTrivia
  have same : GenRelT cg ps0 (RG.done true cg ps0) (R1.done false c1 []) :=
    ⟨false, c1, [], rfl, s, FrameR.refl pg, by simp⟩
  simp only [Grammar.defines]
  have hcond : (cg.adepth.val > 0) = (c1.adepth.val > 0) := by rw [s.ad]
  simp only [hcond]
  by_cases ha : c1.adepth.val > 0
  · simp only [ha, ↓reduceIte]
    by_cases hn : (!(g.fusedSkip.isSome || (g.lookup "WHITESPACE").isSome || (g.lookup "COMMENT").isSome)) = true
    · simp only [hn, ↓reduceIte]; exact same
    · simp only [hn, Bool.false_eq_true, ↓reduceIte]; exact same
  · simp only [ha, ↓reduceIte]
    cases hsk : g.fusedSkip with
    | some skip =>
      simp only [Option.isSome_some, Bool.true_or, Bool.not_true, Bool.false_eq_true, ↓reduceIte]
      have hc := callRule_gen g hG h1 "SKIP" cg c1 ps0 s pg p1
      have e1 : L1.callRule g r1 "SKIP" c1 = L1.ruleParse r1 skip.name skip.mod skip.body c1 := by
        simp [L1.callRule, fusedSkip_lookup g hsk]
      rw [e1] at hc
      have hfp := fun cg' psg => @callRuleG_fail_ps g rG "SKIP" cg cg' ps0 psg
      revert hc hfp
      cases LG.callRuleG g rG "SKIP" cg ps0 with
      | oof => intro hc _; exact hc
      | exc kx => intro hc _; exact hc
      | done m cg' psg =>
        intro hc hfp
        obtain ⟨c1', ps1, e2, sr, fr, hp⟩ := hc
        cases m with
        | true => exact ⟨true, c1', ps1, e2, sr, fr, hp rfl⟩
        | false =>
          have f1 := ruleParse_rel h1 skip.name skip.mod skip.body c1 p1
          rw [e2] at f1
          exact ⟨false, c1', ps1, e2, sr, fr, by rw [hfp _ _ rfl, f1.2.1]; simp⟩
    | none =>
      simp only [Option.isSome_none, Bool.false_or]
      by_cases hn : ((g.lookup "WHITESPACE").isNone && (g.lookup "COMMENT").isNone) = true
      · have hn' : (!((g.lookup "WHITESPACE").isSome || (g.lookup "COMMENT").isSome)) = true := by
          cases hw : g.lookup "WHITESPACE" <;> cases hc : g.lookup "COMMENT" <;> simp_all
        simp only [hn, hn', ↓reduceIte]; exact same
      · have hn' : (!((g.lookup "WHITESPACE").isSome || (g.lookup "COMMENT").isSome)) = false := by
          cases hw : g.lookup "WHITESPACE" <;> cases hc : g.lookup "COMMENT" <;> simp_all
        simp only [hn, hn', Bool.false_eq_true, ↓reduceIte]
        have s' : SRel { cg with suppress := true } { c1 with suppress := true } :=
          ⟨s.pos, s.ui, s.usn, s.uinv, s.ad, s.ph, s.tg, s.nd, rfl, s.fp⟩
        have hl := triviaLoop_gen g hG h1 k { cg with suppress := true } { c1 with suppress := true }
          ps0 ps0 [] (by simp) s' ⟨pg.ir, pg.rne⟩ ⟨p1.iu, p1.ir, p1.rne, p1.anon⟩
        revert hl
        cases LG.triviaLoopG g rG (g.lookup "WHITESPACE").isSome (g.lookup "COMMENT").isSome k
          { cg with suppress := true } ps0 with
        | oof => intro hl; simp only [GenRelT] at hl; simp [hl, GenRelT]
        | exc kx => intro hl; exact hl
        | done m cg' psg =>
          intro hl
          obtain ⟨m1, c1', ps1, e2, sr, fr, hp⟩ := hl
          simp only [e2]
          exact ⟨m1, _, ps1, rfl,
            ⟨sr.pos, sr.ui, sr.usn, sr.uinv, sr.ad, sr.ph, sr.tg, sr.nd, rfl, sr.fp⟩,
            ⟨fr.ri, fr.rs, fr.ir⟩, hp⟩

/-! ### Sequence, Choice, Repeat -/

theorem seq_gen {rG : SemG} {r1 : Sem1} {r0 : Sem0} (hG : GoodG rG r1) (h1 : Good r1 r0)
    (hs : SkipTotal g) (k : Nat) :
    ∀ (es : List Expr) (cg c1 : PState) (ps0 acc : List Pair), SRel cg c1 → PreG cg → Pre c1 →
      GenRel cg ps0 (LG.seqG g rG k es cg (ps0 ++ acc)) (L1.seqParse g r1 k es c1 acc) := by
  intro es
  induction es with
  | nil => intro cg c1 ps0 acc s pg _; exact ⟨c1, acc, rfl, s, FrameR.refl pg, fun _ => rfl⟩
  | cons e rest ih =>
    intro cg c1 ps0 acc s pg p1
    simp only [LG.seqG, L1.seqParse]
    have he := hG.rel e cg c1 (ps0 ++ acc) s pg p1
    revert he
    cases rG e cg (ps0 ++ acc) with
    | oof => intro he; simp only [GenRel] at he; simp [he, GenRel]
    | exc kx => intro he; exact he
    | done m cg1 psg =>
      intro he
      obtain ⟨c11, ps1, e1, sr, fr, hp⟩ := he
      simp only [e1]
      cases m with
      | false => exact ⟨c11, [], rfl, sr, fr, by simp⟩
      | true =>
        have hp' := hp rfl
        have f1 : Frame c1 c11 := l1_frame h1 p1 e1
        by_cases hr : rest.isEmpty = true
        · simp only [hr, ↓reduceIte]
          exact ⟨c11, acc ++ ps1, rfl, sr, fr, fun _ => by rw [hp', List.append_assoc]⟩
        · simp only [hr, Bool.false_eq_true, ↓reduceIte]
          have ht := parseTrivia_gen g hG h1 k cg1 c11 psg sr (fr.pre pg) (f1.pre p1)
          have ft := parseTrivia_rel g h1 hs k c11 (f1.pre p1)
          revert ht ft
          cases LG.parseTriviaG g rG k cg1 psg with
          | oof => intro ht _; simp only [GenRelT] at ht; simp [ht, GenRel]
          | exc kx => intro ht _; exact ht
          | done m2 cg2 psg2 =>
            intro ht ft
            obtain ⟨m1, c12, tps, e2, sr2, fr2, hp2⟩ := ht
            rw [e2] at ft
            simp only [e2]
            have := ih cg2 c12 ps0 (acc ++ ps1 ++ tps) sr2 (fr2.pre (fr.pre pg)) (ft.2.pre (f1.pre p1))
            have e3 : ps0 ++ (acc ++ ps1 ++ tps) = psg2 := by
              rw [hp2, hp']; simp [List.append_assoc]
            rw [e3] at this
            exact this.mono_start (fr.trans fr2)

theorem choice_gen {rG : SemG} {r1 : Sem1} {r0 : Sem0} (hG : GoodG rG r1) (h1 : Good r1 r0) :
    ∀ (es : List Expr) (cg c1 : PState) (ps0 : List Pair), SRel cg c1 → PreG cg → Pre c1 →
      GenRel cg ps0 (LG.choiceG rG es cg ps0) (L1.choiceParse r1 es c1) := by
  intro es
  induction es with
  | nil => intro cg c1 ps0 s pg _; exact ⟨c1, [], rfl, s, FrameR.refl pg, by simp⟩
  | cons e rest ih =>
    intro cg c1 ps0 s pg p1
    simp only [LG.choiceG, L1.choiceParse]
    have he := hG.rel e cg.checkpoint c1.checkpoint [] (srel_checkpoint s) (preG_checkpoint pg)
      (pre_checkpoint p1)
    revert he
    cases rG e cg.checkpoint [] with
    | oof => intro he; simp only [GenRel] at he; simp [he, GenRel]
    | exc kx => intro he; exact he
    | done m cg1 tmp =>
      intro he
      obtain ⟨c11, ps1, e1, sr, fr, hp⟩ := he
      simp only [e1]
      have f1 : Frame c1.checkpoint c11 := l1_frame h1 (pre_checkpoint p1) e1
      cases m with
      | true =>
        exact ⟨c11.ok, ps1, rfl, srel_ok sr f1.iu, frameR_ok_after fr, fun _ => by simp [hp rfl]⟩
      | false =>
        have := ih cg1.restore c11.restore ps0 (srel_restore sr) ((frameR_restore_after fr).pre pg)
          ((restore_after f1).1.pre p1)
        exact this.mono_start (frameR_restore_after fr)

theorem repLoop_gen {rG : SemG} {r1 : Sem1} {r0 : Sem0} (hG : GoodG rG r1) (h1 : Good r1 r0)
    (hs : SkipTotal g) (e : Expr) (kk : Nat) :
    ∀ (k : Nat) (first : Bool) (cg c1 : PState) (ps0 acc : List Pair), SRel cg c1 → PreG cg → Pre c1 →
      GenRel cg ps0 (LG.repLoopG g rG e k kk first cg (ps0 ++ acc)) (L1.repLoop g r1 e k kk first c1 acc) := by
  intro k
  induction k with
  | zero => intro first cg c1 ps0 acc _ _ _; simp [LG.repLoopG, L1.repLoop, GenRel]
  | succ k ih =>
    intro first cg c1 ps0 acc s pg p1
    simp only [LG.repLoopG, L1.repLoop]
    have sc := srel_checkpoint s
    have pgc := preG_checkpoint pg
    have p1c := pre_checkpoint p1
    -- trivia unless first
    have hT : GenRelT cg.checkpoint []
        (if first = true then RG.done true cg.checkpoint [] else LG.parseTriviaG g rG kk cg.checkpoint [])
        (if first = true then R1.done true c1.checkpoint [] else L1.parseTrivia g r1 kk c1.checkpoint) := by
      by_cases hf : first = true
      · simp only [hf, ↓reduceIte]; exact ⟨true, _, [], rfl, sc, FrameR.refl pgc, rfl⟩
      · simp only [hf, Bool.false_eq_true, ↓reduceIte]
        exact parseTrivia_gen g hG h1 kk cg.checkpoint c1.checkpoint [] sc pgc p1c
    have fT : RelT c1.checkpoint
        (if first = true then R1.done true c1.checkpoint [] else L1.parseTrivia g r1 kk c1.checkpoint)
        (if first = true then R0.ok (abs0 c1) [] else L0.skip g r0 kk (abs0 c1)) := by
      by_cases hf : first = true
      · simp [hf, RelT, Frame.refl p1c, abs0_checkpoint, eraseTagsL]
      · simp only [hf, Bool.false_eq_true, ↓reduceIte]
        have := parseTrivia_rel g h1 hs kk c1.checkpoint p1c
        rwa [abs0_checkpoint] at this
    revert hT fT
    cases (if first = true then RG.done true cg.checkpoint [] else LG.parseTriviaG g rG kk cg.checkpoint []) with
    | oof => intro hT _; simp only [GenRelT] at hT; simp [hT, GenRel]
    | exc kx => intro hT _; exact hT
    | done m cgt tmp =>
      intro hT fT
      obtain ⟨m1, c1t, tps, e1, srt, frt, hpt⟩ := hT
      rw [e1] at fT
      simp only [e1]
      simp only [List.nil_append] at hpt
      subst hpt
      have he := hG.rel e cgt c1t tmp srt (frt.pre pgc) (fT.2.pre p1c)
      revert he
      cases rG e cgt tmp with
      | oof => intro he; simp only [GenRel] at he; simp [he, GenRel]
      | exc kx => intro he; exact he
      | done m2 cg2 tmp2 =>
        intro he
        obtain ⟨c12, ps1, e2, sr2, fr2, hp2⟩ := he
        simp only [e2]
        have f2 : Frame c1t c12 := l1_frame h1 (fT.2.pre p1c) e2
        have f02 : Frame c1.checkpoint c12 := fT.2.trans f2
        cases m2 with
        | true =>
          have := ih false cg2.ok c12.ok ps0 (acc ++ tmp ++ ps1) (srel_ok sr2 f02.iu)
            ((frameR_ok_after (frt.trans fr2)).pre pg) ((ok_after f02).1.pre p1)
          have e3 : ps0 ++ (acc ++ tmp ++ ps1) = ps0 ++ acc ++ tmp2 := by
            rw [hp2 rfl]; simp [List.append_assoc]
          rw [e3] at this
          exact this.mono_start (frameR_ok_after (frt.trans fr2))
        | false =>
          exact ⟨c12.restore, acc, rfl, srel_restore sr2, frameR_restore_after (frt.trans fr2), fun _ => rfl⟩

/-! ### POP_ALL: `clear()` in generated code, pop by pop under a checkpoint in the interpreter -/

structure Other (x y : PState) : Prop where
  tg : y.tagStack = x.tagStack ∧ y.tagHist = x.tagHist
  nd : y.negDepth = x.negDepth
  sp : y.suppress = x.suppress
  fp : y.fpos = x.fpos

/-- `y` runs under a checkpoint taken at `x`: the saved copy of `x`'s tags is on top of the
    tag history, and nothing else that `Other` tracks has moved -/
structure OtherC (x y : PState) : Prop where
  tg : y.tagStack = x.tagStack ∧ y.tagHist = x.tagStack :: x.tagHist
  nd : y.negDepth = x.negDepth
  sp : y.suppress = x.suppress
  fp : y.fpos = x.fpos

theorem snapInt_ext {a b : SnapInt} (h1 : a.val = b.val) (h2 : a.snaps = b.snaps) : a = b := by
  cases a; cases b; simp_all

theorem popAllLoop_full (c : PState) (p : Pre c) :
    ∀ (k : Nat) (d : PState) (pos : Nat), Frame c.checkpoint d → OtherC c d → d.ustack.items.length < k →
      match L1.popAllLoop inp k d pos with
      | .done true c' ps =>
        L1.matchAll inp d.ustack.items pos = some c'.pos ∧ c'.ustack.items = [] ∧ ps = [] ∧
          Frame c c' ∧ Other c c'
      | .done false c' ps =>
        L1.matchAll inp d.ustack.items pos = none ∧
          ∃ cr, L1.failT cr = .done false c' ps ∧ Frame c cr ∧ abs0 cr = abs0 c ∧ Other c cr
      | _ => False := by
  intro k
  induction k with
  | zero => intro d pos _ _ hl; omega
  | succ k ih =>
    intro d pos f o hl
    simp only [L1.popAllLoop]
    cases hp : d.ustack.pop with
    | none =>
      have hi := pop_none_items hp
      obtain ⟨f', _⟩ := ok_after f
      have f2 : Frame c { d.ok with pos := pos } := f'.trans (Frame.of_same (f'.pre p) rfl rfl rfl rfl)
      have hu : ({ d.ok with pos := pos } : PState).ustack.items = [] := by
        simp [PState.ok, dropSnap_items, hi]
      simp only [hi, L1.matchAll]
      exact ⟨trivial, hu, trivial, f2, ⟨⟨o.tg.1, by simp [o.tg.2]⟩, o.nd, o.sp, o.fp⟩⟩
    | some q =>
      obtain ⟨lit, us⟩ := q
      simp only []
      obtain ⟨s1, _⟩ := snapsOf_pop _ f.iu lit us hp
      have hitems : d.ustack.items = lit :: us.items := pop_some_items hp
      have f1 : Frame c.checkpoint { d with ustack := us } :=
        ⟨f.ph, by simp [s1, f.us], f.rs, f.as, f.av, f.ri, inv_pop _ f.iu lit us hp, f.ir⟩
      have o1 : OtherC c { d with ustack := us } := ⟨o.tg, o.nd, o.sp, o.fp⟩
      by_cases hm : startsWithAt inp lit pos = true
      · simp only [hm, ↓reduceIte]
        have hl' : ({ d with ustack := us } : PState).ustack.items.length < k := by
          simp only; rw [hitems] at hl; simp at hl; omega
        have := ih { d with ustack := us } (pos + lit.length) f1 o1 hl'
        simp only [hitems, L1.matchAll, hm, ↓reduceIte]
        exact this
      · simp only [hm, Bool.false_eq_true, ↓reduceIte]
        obtain ⟨f', a'⟩ := restore_after f1
        obtain ⟨c3, h3⟩ := fail_isSome (f'.pre p).rne none false
        have hft : L1.failT ({ d with ustack := us } : PState).restore = .done false c3 [] := by
          simp [L1.failT, h3]
        simp only [hft, hitems, L1.matchAll, hm, Bool.false_eq_true, ↓reduceIte]
        exact ⟨trivial, _, hft, f', a', ⟨⟨by simp [o.tg.2], by simp [o.tg.2]⟩, o1.nd, o1.sp, o1.fp⟩⟩

/-! ### one node -/

theorem step_gen {rG : SemG} {r1 : Sem1} {r0 : Sem0} (hs : SkipTotal g) (k : Nat)
    (hG : GoodG rG r1) (h1 : Good r1 r0) : GoodG (LG.step g inp k rG) (L1.step g inp k r1) := by
  constructor
  intro e cg c1 ps0 s pg p1
  have setp : ∀ q : Nat, SRel { cg with pos := q } { c1 with pos := q } := fun q =>
    ⟨rfl, s.ui, s.usn, s.uinv, s.ad, s.ph, s.tg, s.nd, s.sp, s.fp⟩
  have frp : ∀ q : Nat, FrameR cg { cg with pos := q } := fun q => ⟨rfl, rfl, pg.ir⟩
  have hpos := s.pos
  cases e with
  | str x =>
    simp only [LG.step, L1.step]
    rw [← hpos]
    by_cases hm : startsWithAt inp x cg.pos = true
    · simp only [hm, ↓reduceIte]
      exact ⟨_, [], rfl, setp _, frp _, by simp⟩
    · simp only [hm, Bool.false_eq_true, ↓reduceIte]; exact failT_gen ps0 s pg p1
  | ci x =>
    simp only [LG.step, L1.step]
    rw [← hpos]
    by_cases hm : startsWithAtCI inp x cg.pos = true
    · simp only [hm, ↓reduceIte]
      exact ⟨_, [], rfl, setp _, frp _, by simp⟩
    · simp only [hm, Bool.false_eq_true, ↓reduceIte]; exact failT_gen ps0 s pg p1
  | range a b =>
    simp only [LG.step, L1.step]
    rw [← hpos]
    cases inp[cg.pos]? with
    | none => exact failT_gen ps0 s pg p1
    | some x =>
      simp only []
      by_cases hm : L1.inRange a b x = true
      · simp only [hm, ↓reduceIte]
        exact ⟨_, [], rfl, setp _, frp _, by simp⟩
      · simp only [hm, Bool.false_eq_true, ↓reduceIte]; exact failT_gen ps0 s pg p1
  | ident name tag =>
    simp only [LG.step, L1.step]
    apply withTag_gen tag cg c1 ps0 s pg p1
    intro dg d1 sd pd p1d _
    exact callRule_gen g hG h1 name dg d1 ps0 sd pd p1d
  | rule name mod sm body =>
    simp only [LG.step, L1.step]
    by_cases hE : (name == "EOI" || !hasBit mod SILENT || L1.ruleScoped name mod) = true
    · simp [hE, GenRel, benign]
    · simp only [hE, Bool.false_eq_true, ↓reduceIte]
      have hS : hasBit mod SILENT = true := by
        cases h : hasBit mod SILENT <;> simp_all
      have hsc : L1.ruleScoped name mod = false := by
        cases h : L1.ruleScoped name mod <;> simp_all
      -- generated code inlines the body; the interpreter pushes a frame around it
      unfold L1.ruleParse
      have he := rule_enter name mod c1 p1.weak
      have hen : L1.ruleEnter name mod { c1 with rstack := c1.rstack.push name }
          = { c1 with rstack := c1.rstack.push name } := by
        unfold L1.ruleEnter
        unfold L1.ruleScoped at hsc
        by_cases hA : (hasBit mod ATOMIC || hasBit mod COMPOUND || L1.isTriviaName name) = true
        · simp [hA] at hsc
        · by_cases hN : hasBit mod NONATOMIC = true
          · simp [hN] at hsc
          · simp [hA, hN]
      rw [hen] at he ⊢
      have se : SRel cg { c1 with rstack := c1.rstack.push name } :=
        ⟨s.pos, s.ui, s.usn, s.uinv, s.ad, s.ph, s.tg, s.nd, s.sp, s.fp⟩
      have hb := hG.rel body cg _ ps0 se pg he.pre
      revert hb
      cases rG body cg ps0 with
      | oof => intro hb; simp only [GenRel] at hb; simp [hb, GenRel]
      | exc kx => intro hb; exact hb
      | done m cg2 psg =>
        intro hb
        obtain ⟨c12, ch1, e1, s2, fr2, hch⟩ := hb
        simp only [e1]
        have f12 := l1_frame h1 he.pre e1
        unfold L1.ruleExit
        simp only [hsc, Bool.false_eq_true, ↓reduceIte]
        obtain ⟨rs1, hp1, _, _, _⟩ : ∃ rs, c12.rstack.pop = some (name, rs) ∧
            rs.items = c1.rstack.items ∧ snapsOf rs = snapsOf c1.rstack ∧ Inv rs :=
          pop_pushed (by rw [f12.ri]; simp [push_items])
            (by rw [f12.rs]; simp [snapsOf_push _ _ p1.ir]) f12.ir
        simp only [hp1]
        have s4 : SRel cg2 ({ c12 with rstack := rs1 } : PState) :=
          ⟨s2.pos, s2.ui, s2.usn, s2.uinv, s2.ad, s2.ph, s2.tg, s2.nd, s2.sp, s2.fp⟩
        cases m with
        | false => exact ⟨_, [], rfl, s4, fr2, by simp⟩
        | true => simp only [Bool.not_true, Bool.false_eq_true, ↓reduceIte, hS]; exact ⟨_, ch1, rfl, s4, fr2, hch⟩
  | seq es =>
    have := seq_gen g hG h1 hs k es cg c1 ps0 [] s pg p1
    simpa [LG.step, L1.step] using this
  | choice es => exact choice_gen hG h1 es cg c1 ps0 s pg p1
  | opt e =>
    simp only [LG.step, L1.step]
    have he := hG.rel e cg.checkpoint c1.checkpoint [] (srel_checkpoint s) (preG_checkpoint pg)
      (pre_checkpoint p1)
    revert he
    cases rG e cg.checkpoint [] with
    | oof => intro he; simp only [GenRel] at he; simp [he, GenRel]
    | exc kx => intro he; exact he
    | done m cg1 tmp =>
      intro he
      obtain ⟨c11, ps1, e1, sr, fr, hp⟩ := he
      simp only [e1]
      have f1 : Frame c1.checkpoint c11 := l1_frame h1 (pre_checkpoint p1) e1
      cases m with
      | true => exact ⟨c11.ok, ps1, rfl, srel_ok sr f1.iu, frameR_ok_after fr, fun _ => by simp [hp rfl]⟩
      | false => exact ⟨c11.restore, [], rfl, srel_restore sr, frameR_restore_after fr, fun _ => by simp⟩
  | rep e =>
    have := repLoop_gen g hG h1 hs e k k true cg c1 ps0 [] s pg p1
    simpa [LG.step, L1.step] using this
  | rep1 e =>
    have := seq_gen g hG h1 hs k [e, .rep e] cg c1 ps0 [] s pg p1
    simpa [LG.step, L1.step] using this
  | repExact e n =>
    have := seq_gen g hG h1 hs k (List.replicate n e) cg c1 ps0 [] s pg p1
    simpa [LG.step, L1.step] using this
  | repMin e n =>
    have := seq_gen g hG h1 hs k (List.replicate n e ++ [.rep e]) cg c1 ps0 [] s pg p1
    simpa [LG.step, L1.step] using this
  | repMax e n =>
    have := seq_gen g hG h1 hs k (List.replicate n (.opt e)) cg c1 ps0 [] s pg p1
    simpa [LG.step, L1.step] using this
  | repMinMax e m n =>
    have := seq_gen g hG h1 hs k (List.replicate m e ++ List.replicate (n - m) (.opt e)) cg c1 ps0 [] s pg p1
    simpa [LG.step, L1.step] using this
  | andP e =>
    simp only [LG.step, L1.step]
    have he := hG.rel e cg.checkpoint c1.checkpoint [] (srel_checkpoint s) (preG_checkpoint pg)
      (pre_checkpoint p1)
    revert he
    cases rG e cg.checkpoint [] with
    | oof => intro he; simp only [GenRel] at he; simp [he, GenRel]
    | exc kx => intro he; exact he
    | done m cg1 tmp =>
      intro he
      obtain ⟨c11, ps1, e1, sr, fr, _⟩ := he
      simp only [e1]
      exact ⟨c11.restore, [], rfl, srel_restore sr, frameR_restore_after fr, fun _ => by simp⟩
  | notP e =>
    simp only [LG.step, L1.step]
    have sc : SRel { cg.checkpoint with negDepth := cg.checkpoint.negDepth + 1 }
        { c1.checkpoint with negDepth := c1.checkpoint.negDepth + 1 } := by
      have := srel_checkpoint s
      exact ⟨this.pos, this.ui, this.usn, this.uinv, this.ad, this.ph, this.tg, by simp [this.nd],
        this.sp, this.fp⟩
    have pgc : PreG { cg.checkpoint with negDepth := cg.checkpoint.negDepth + 1 } :=
      ⟨(preG_checkpoint pg).ir, (preG_checkpoint pg).rne⟩
    have p1c : Pre { c1.checkpoint with negDepth := c1.checkpoint.negDepth + 1 } :=
      ⟨(pre_checkpoint p1).iu, (pre_checkpoint p1).ir, (pre_checkpoint p1).rne, (pre_checkpoint p1).anon⟩
    have he := hG.rel e _ _ [] sc pgc p1c
    revert he
    cases rG e { cg.checkpoint with negDepth := cg.checkpoint.negDepth + 1 } [] with
    | oof => intro he; simp only [GenRel] at he; simp only [he, GenRel]
    | exc kx => intro he; exact he
    | done m cg1 tmp =>
      intro he
      obtain ⟨c11, ps1, e1, sr, fr, _⟩ := he
      simp only [e1]
      have fr0 : FrameR cg.checkpoint cg1 := ⟨fr.ri, fr.rs, fr.ir⟩
      have f1' := l1_frame h1 p1c e1
      have f1 : Frame c1.checkpoint c11 :=
        ⟨f1'.ph, f1'.us, f1'.rs, f1'.as, f1'.av, f1'.ri, f1'.iu, f1'.ir⟩
      have srr := srel_restore sr
      have frr := frameR_restore_after fr0
      have f1r := (restore_after f1).1
      cases m with
      | false =>
        simp only [Bool.false_eq_true, ↓reduceIte]
        exact ⟨_, [], rfl,
          ⟨srr.pos, srr.ui, srr.usn, srr.uinv, srr.ad, srr.ph, srr.tg, by simp [srr.nd], srr.sp, srr.fp⟩,
          ⟨frr.ri, frr.rs, frr.ir⟩, fun _ => by simp⟩
      | true =>
        simp only [↓reduceIte]
        have hallg : ∀ fn, ∃ c3, cg1.restore.fail fn true = some c3 :=
          fun fn => fail_isSome (frr.pre pg).rne fn true
        have hall1 : ∀ fn, ∃ c3, c11.restore.fail fn true = some c3 :=
          fun fn => fail_isSome (f1r.pre p1).rne fn true
        obtain ⟨cg3, hg3⟩ := hallg (L1.failedName e)
        obtain ⟨c13, h13⟩ := hall1 (L1.failedName e)
        simp only [hg3, h13]
        obtain ⟨s3, hr3⟩ := srel_fail srr hg3 h13
        exact ⟨_, [], rfl,
          ⟨s3.pos, s3.ui, s3.usn, s3.uinv, s3.ad, s3.ph, s3.tg, by simp [s3.nd], s3.sp, s3.fp⟩,
          ⟨by simp [hr3, frr.ri], by simp [hr3, frr.rs], by simp [hr3]; exact frr.ir⟩, fun h => by cases h⟩
  | group e tag =>
    simp only [LG.step, L1.step]
    apply withTag_gen tag cg c1 ps0 s pg p1
    intro dg d1 sd pd p1d _
    exact hG.rel e dg d1 ps0 sd pd p1d
  | push e =>
    simp only [LG.step, L1.step]
    have he := hG.rel e cg c1 ps0 s pg p1
    revert he
    cases rG e cg ps0 with
    | oof => intro he; simp only [GenRel] at he; simp [he, GenRel]
    | exc kx => intro he; exact he
    | done m cg1 psg =>
      intro he
      obtain ⟨c11, ps1, e1, sr, fr, hp⟩ := he
      simp only [e1]
      have f1 : Frame c1 c11 := l1_frame h1 p1 e1
      cases m with
      | false => exact ⟨c11, [], rfl, sr, fr, by simp⟩
      | true =>
        refine ⟨_, ps1, rfl, ?_, ⟨fr.ri, fr.rs, fr.ir⟩, hp⟩
        exact ⟨sr.pos, by simp [push_items, sr.ui, s.pos, sr.pos],
          by simp [snapsOf_push _ _ sr.uinv, snapsOf_push _ _ f1.iu, sr.usn], inv_push _ _ sr.uinv,
          sr.ad, sr.ph, sr.tg, sr.nd, sr.sp, sr.fp⟩
  | pushLit x =>
    simp only [LG.step, L1.step]
    refine ⟨_, [], rfl, ?_, ⟨rfl, rfl, pg.ir⟩, by simp⟩
    exact ⟨s.pos, by simp [push_items, s.ui],
      by simp [snapsOf_push _ _ s.uinv, snapsOf_push _ _ p1.iu, s.usn], inv_push _ _ s.uinv,
      s.ad, s.ph, s.tg, s.nd, s.sp, s.fp⟩
  | peekSlice a b =>
    simp only [LG.step, L1.step, LG.matchAllG]
    rw [← hpos, s.ui]
    cases L1.matchAll inp (pySlice c1.ustack.items.reverse a b) cg.pos with
    | none => exact failT_gen ps0 s pg p1
    | some q => exact ⟨_, [], rfl, setp _, frp _, by simp⟩
  | peek =>
    simp only [LG.step, L1.step, DStack.peek]
    rw [← hpos, s.ui]
    cases c1.ustack.items.head? with
    | none => exact ⟨c1, [], rfl, s, FrameR.refl pg, by simp⟩
    | some v =>
      simp only []
      by_cases hm : startsWithAt inp v cg.pos = true
      · simp only [hm, ↓reduceIte]
        exact ⟨_, [], rfl, setp _, frp _, by simp⟩
      · simp only [hm, Bool.false_eq_true, ↓reduceIte]; exact failT_gen ps0 s pg p1
  | peekAll =>
    simp only [LG.step, L1.step, LG.matchAllG]
    rw [← hpos, s.ui]
    cases L1.matchAll inp c1.ustack.items cg.pos with
    | none => exact failT_gen ps0 s pg p1
    | some q => exact ⟨_, [], rfl, setp _, frp _, by simp⟩
  | pop =>
    simp only [LG.step, L1.step, DStack.peek]
    rw [← hpos, s.ui]
    cases hh : c1.ustack.items.head? with
    | none => exact ⟨c1, [], rfl, s, FrameR.refl pg, by simp⟩
    | some v =>
      simp only []
      by_cases hm : startsWithAt inp v cg.pos = true
      · simp only [hm, ↓reduceIte]
        have hne1 : c1.ustack.items ≠ [] := by intro e; rw [e] at hh; cases hh
        cases hpg : cg.ustack.pop with
        | none => have := pop_none_items hpg; rw [s.ui] at this; exact absurd this hne1
        | some qg =>
          cases hp1 : c1.ustack.pop with
          | none => exact absurd (pop_none_items hp1) hne1
          | some q1 =>
            obtain ⟨xg, usg⟩ := qg
            obtain ⟨x1, us1⟩ := q1
            simp only []
            have ig := pop_some_items hpg
            have i1 := pop_some_items hp1
            rw [s.ui, i1] at ig
            simp only [List.cons.injEq] at ig
            obtain ⟨sg, _⟩ := snapsOf_pop _ s.uinv xg usg hpg
            obtain ⟨s1', _⟩ := snapsOf_pop _ p1.iu x1 us1 hp1
            refine ⟨_, [], rfl, ?_, ⟨rfl, rfl, pg.ir⟩, by simp⟩
            exact ⟨rfl, ig.2.symm, by rw [sg, s1', s.usn], inv_pop _ s.uinv xg usg hpg,
              s.ad, s.ph, s.tg, s.nd, s.sp, s.fp⟩
      · simp only [hm, Bool.false_eq_true, ↓reduceIte]; exact failT_gen ps0 s pg p1
  | popAll =>
    simp only [LG.step, L1.step, LG.matchAllG]
    have hx := popAllLoop_full inp c1 p1 (c1.ustack.items.length + 1) c1.checkpoint c1.pos
      (Frame.refl (pre_checkpoint p1)) ⟨⟨rfl, rfl⟩, rfl, rfl, rfl⟩ (by simp [PState.checkpoint, snapshot_items])
    have hci : c1.checkpoint.ustack.items = c1.ustack.items := rfl
    rw [hci] at hx
    rw [hpos, s.ui]
    revert hx
    cases L1.popAllLoop inp (c1.ustack.items.length + 1) c1.checkpoint c1.pos with
    | oof => simp
    | exc kx => simp
    | done m c1' ps1 =>
      intro hx
      cases m with
      | true =>
        obtain ⟨hm, hu, hps, f, o⟩ := hx
        simp only [hm]
        obtain ⟨sc, ic⟩ := snapsOf_clear _ s.uinv
        refine ⟨c1', ps1, rfl, ?_, ⟨rfl, rfl, pg.ir⟩, fun _ => by simp [hps]⟩
        exact ⟨rfl, by simp [ic, hu], by simp [sc, s.usn, f.us], inv_clear _ s.uinv,
          by rw [s.ad]; exact (snapInt_ext f.av f.as).symm, by simp [s.ph, f.ph], by simp [s.tg, o.tg],
          by simp [s.nd, o.nd], by simp [s.sp, o.sp], by simp [s.fp, o.fp]⟩
      | false =>
        obtain ⟨hm, cr, hft, f, a, o⟩ := hx
        simp only [hm]
        have scr : SRel cg cr := by
          simp only [abs0, S0.mk.injEq] at a
          exact ⟨by rw [s.pos, a.1], by rw [s.ui, a.2.1], by rw [s.usn, f.us], s.uinv,
            by rw [s.ad]; exact (snapInt_ext f.av f.as).symm, by rw [s.ph, f.ph],
            ⟨by rw [s.tg.1, o.tg.1], by rw [s.tg.2, o.tg.2]⟩,
            by rw [s.nd, o.nd], by rw [s.sp, o.sp], by rw [s.fp, o.fp]⟩
        have := failT_gen ps0 scr pg (f.pre p1)
        rw [hft] at this
        exact this
  | drop =>
    simp only [LG.step, L1.step]
    cases hpg : cg.ustack.pop with
    | none =>
      have ig := pop_none_items hpg
      have : c1.ustack.pop = none := by
        cases hp1 : c1.ustack.pop with
        | none => rfl
        | some q => have := pop_some_items hp1; rw [← s.ui, ig] at this; cases this
      simp only [this]
      exact failT_gen ps0 s pg p1
    | some qg =>
      obtain ⟨xg, usg⟩ := qg
      cases hp1 : c1.ustack.pop with
      | none =>
        have := pop_none_items hp1
        have ig := pop_some_items hpg
        rw [s.ui, this] at ig; cases ig
      | some q1 =>
        obtain ⟨x1, us1⟩ := q1
        simp only []
        have ig := pop_some_items hpg
        have i1 := pop_some_items hp1
        rw [s.ui, i1] at ig
        simp only [List.cons.injEq] at ig
        obtain ⟨sg, _⟩ := snapsOf_pop _ s.uinv xg usg hpg
        obtain ⟨s1', _⟩ := snapsOf_pop _ p1.iu x1 us1 hp1
        refine ⟨_, [], rfl, ?_, ⟨rfl, rfl, pg.ir⟩, by simp⟩
        exact ⟨s.pos, ig.2.symm, by rw [sg, s1', s.usn], inv_pop _ s.uinv xg usg hpg,
          s.ad, s.ph, s.tg, s.nd, s.sp, s.fp⟩
  | anyB =>
    simp only [LG.step, L1.step]
    rw [← hpos]
    by_cases hm : cg.pos < inp.size
    · simp only [hm, ↓reduceIte]; exact ⟨_, [], rfl, setp _, frp _, by simp⟩
    · simp only [hm, ↓reduceIte]; exact ⟨c1, [], rfl, s, FrameR.refl pg, by simp⟩
  | soiB =>
    simp only [LG.step, L1.step]
    rw [← hpos]
    exact ⟨c1, [], rfl, s, FrameR.refl pg, by simp⟩
  | eoiB =>
    simp only [LG.step, L1.step]
    rw [← hpos]
    exact ⟨c1, [], rfl, s, FrameR.refl pg, by simp⟩
  | uprop n =>
    simp only [LG.step, L1.step]
    rw [← hpos]
    cases inp[cg.pos]? with
    | none => exact ⟨c1, [], rfl, s, FrameR.refl pg, by simp⟩
    | some x =>
      simp only []
      by_cases hm : g.uprop n x = true
      · simp only [hm, ↓reduceIte]; exact ⟨_, [], rfl, setp _, frp _, by simp⟩
      · simp only [hm, Bool.false_eq_true, ↓reduceIte]; exact ⟨c1, [], rfl, s, FrameR.refl pg, by simp⟩
  | skipUntil subs =>
    simp only [LG.step, L1.step]
    rw [← hpos]
    exact ⟨_, [], rfl, setp _, frp _, by simp⟩
  | optChoice alts star =>
    simp only [LG.step, L1.step]
    rw [← hpos]
    cases L1.optMatch g inp alts star cg.pos with
    | none => exact ⟨c1, [], rfl, s, FrameR.refl pg, by simp⟩
    | some q => exact ⟨_, [], rfl, setp _, frp _, by simp⟩

/-! ### all fuel -/

theorem run_gen (hs : SkipTotal g) : ∀ n, GoodG (LG.run g inp n) (L1.run g inp n) := by
  intro n
  induction n with
  | zero => exact ⟨fun _ _ _ _ _ _ _ => rfl⟩
  | succ n ih => exact step_gen g inp hs n ih (run_good g inp hs n)

end Pest
