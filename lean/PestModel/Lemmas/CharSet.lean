/-
  Lemmas/CharSet.lean — helper lemmas about `CharSet.lean` (sorting, merging, dedup).
  The property-level statements are in Props/C12.lean.
-/
import PestModel.CharSet

namespace Pest
namespace CharSet

theorem inIv_iff {r : Iv} {c : Nat} : inIv r c = true ↔ r.1 ≤ c ∧ c ≤ r.2 := by
  simp [inIv]

theorem ivMem_nil (c : Nat) : ivMem [] c = false := rfl

theorem ivMem_cons (r : Iv) (rs : List Iv) (c : Nat) : ivMem (r :: rs) c = (inIv r c || ivMem rs c) := by
  simp [ivMem]

theorem ivMem_iff {ivs : List Iv} {c : Nat} : ivMem ivs c = true ↔ ∃ r ∈ ivs, r.1 ≤ c ∧ c ≤ r.2 := by
  simp [ivMem, inIv]

theorem ivMem_append (xs ys : List Iv) (c : Nat) : ivMem (xs ++ ys) c = (ivMem xs c || ivMem ys c) := by
  simp [ivMem]

/-! ### normalisation -/

theorem inIv_normRange (r : Iv) (c : Nat) :
    inIv (normRange r) c = true ↔ min r.1 r.2 ≤ c ∧ c ≤ max r.1 r.2 := by
  unfold normRange
  by_cases h : r.1 > r.2
  · simp only [h, if_true, inIv_iff]; omega
  · simp only [h, if_false, inIv_iff]; omega

theorem normRange_valid (r : Iv) : (normRange r).1 ≤ (normRange r).2 := by
  unfold normRange
  by_cases h : r.1 > r.2
  · simp only [h, if_true]; omega
  · simp only [h, if_false]; omega

theorem ivMem_map_normRange (rs : List Iv) (c : Nat) :
    ivMem (rs.map normRange) c = true ↔ ∃ r ∈ rs, min r.1 r.2 ≤ c ∧ c ≤ max r.1 r.2 := by
  induction rs with
  | nil => simp [ivMem]
  | cons r rs ih =>
    rw [List.map_cons, ivMem_cons, Bool.or_eq_true, ih, inIv_normRange]
    simp

/-! ### sorting -/

theorem ivMem_insertIv (r : Iv) (xs : List Iv) (c : Nat) :
    ivMem (insertIv r xs) c = (inIv r c || ivMem xs c) := by
  induction xs with
  | nil => simp [insertIv, ivMem]
  | cons x xs ih =>
    unfold insertIv
    by_cases h : ivLe r x = true
    · rw [if_pos h]; simp [ivMem_cons]
    · rw [if_neg h, ivMem_cons, ih, ivMem_cons]
      cases inIv r c <;> cases inIv x c <;> simp

theorem ivMem_sortIvs (xs : List Iv) (c : Nat) : ivMem (sortIvs xs) c = ivMem xs c := by
  induction xs with
  | nil => rfl
  | cons x xs ih => simp [sortIvs, ivMem_insertIv, ivMem_cons, ih]

theorem mem_insertIv {r y : Iv} {xs : List Iv} : y ∈ insertIv r xs ↔ y = r ∨ y ∈ xs := by
  induction xs with
  | nil => simp [insertIv]
  | cons x xs ih =>
    unfold insertIv
    by_cases h : ivLe r x = true
    · rw [if_pos h]; simp
    · rw [if_neg h, List.mem_cons, ih, List.mem_cons]
      constructor
      · rintro (h1 | h1 | h1)
        · exact Or.inr (Or.inl h1)
        · exact Or.inl h1
        · exact Or.inr (Or.inr h1)
      · rintro (h1 | h1 | h1)
        · exact Or.inr (Or.inl h1)
        · exact Or.inl h1
        · exact Or.inr (Or.inr h1)

theorem mem_sortIvs {y : Iv} {xs : List Iv} : y ∈ sortIvs xs ↔ y ∈ xs := by
  induction xs with
  | nil => simp [sortIvs]
  | cons x xs ih => simp [sortIvs, mem_insertIv, ih]

/-- sorted by first component (what the merge loop relies on) -/
def Sorted1 : List Iv → Prop
  | [] => True
  | x :: xs => (∀ y ∈ xs, x.1 ≤ y.1) ∧ Sorted1 xs

theorem ivLe_fst {x y : Iv} (h : ivLe x y = true) : x.1 ≤ y.1 := by
  simp [ivLe] at h; omega

theorem ivLe_total {x y : Iv} (h : ¬ ivLe x y = true) : y.1 ≤ x.1 := by
  simp [ivLe] at h; omega

theorem sorted1_insertIv (r : Iv) {xs : List Iv} (h : Sorted1 xs) : Sorted1 (insertIv r xs) := by
  induction xs with
  | nil => simp [insertIv, Sorted1]
  | cons x xs ih =>
    unfold insertIv
    by_cases hle : ivLe r x = true
    · rw [if_pos hle]
      refine ⟨?_, h⟩
      intro y hy
      have hrx := ivLe_fst hle
      rcases List.mem_cons.mp hy with rfl | hy
      · exact hrx
      · exact Nat.le_trans hrx (h.1 y hy)
    · rw [if_neg hle]
      refine ⟨?_, ih h.2⟩
      intro y hy
      rcases mem_insertIv.mp hy with rfl | hy
      · exact ivLe_total hle
      · exact h.1 y hy

theorem sorted1_sortIvs (xs : List Iv) : Sorted1 (sortIvs xs) := by
  induction xs with
  | nil => trivial
  | cons x xs ih => exact sorted1_insertIv x ih

/-- lexicographically sorted, the full post-condition of `list.sort()` -/
def SortedLex : List Iv → Prop
  | [] => True
  | x :: xs => (∀ y ∈ xs, ivLe x y = true) ∧ SortedLex xs

theorem ivLe_trans {x y z : Iv} (h1 : ivLe x y = true) (h2 : ivLe y z = true) : ivLe x z = true := by
  simp [ivLe] at *; omega

theorem ivLe_total' {x y : Iv} (h : ¬ ivLe x y = true) : ivLe y x = true := by
  simp [ivLe] at *; omega

theorem sortedLex_insertIv (r : Iv) {xs : List Iv} (h : SortedLex xs) : SortedLex (insertIv r xs) := by
  induction xs with
  | nil => simp [insertIv, SortedLex]
  | cons x xs ih =>
    unfold insertIv
    by_cases hle : ivLe r x = true
    · rw [if_pos hle]
      refine ⟨?_, h⟩
      intro y hy
      rcases List.mem_cons.mp hy with rfl | hy
      · exact hle
      · exact ivLe_trans hle (h.1 y hy)
    · rw [if_neg hle]
      refine ⟨?_, ih h.2⟩
      intro y hy
      rcases mem_insertIv.mp hy with rfl | hy
      · exact ivLe_total' hle
      · exact h.1 y hy

theorem sortedLex_sortIvs (xs : List Iv) : SortedLex (sortIvs xs) := by
  induction xs with
  | nil => trivial
  | cons x xs ih => exact sortedLex_insertIv x ih

/-! ### merging -/

/-- the loop keeps the set: this is where `s > last.hi + 1` must be exactly right -/
theorem ivMem_mergeGo (cur : Iv) (rest : List Iv) (c : Nat) (hs : Sorted1 (cur :: rest)) :
    ivMem (mergeGo cur rest) c = (inIv cur c || ivMem rest c) := by
  induction rest generalizing cur with
  | nil => simp [mergeGo, ivMem]
  | cons r rest ih =>
    unfold mergeGo
    have hcr : cur.1 ≤ r.1 := hs.1 r (List.mem_cons_self ..)
    by_cases hgap : r.1 > cur.2 + 1
    · rw [if_pos hgap, ivMem_cons, ivMem_cons, ih r hs.2]
    · rw [if_neg hgap]
      have hs' : Sorted1 ((cur.1, max cur.2 r.2) :: rest) := by
        refine ⟨?_, hs.2.2⟩
        intro y hy
        exact hs.1 y (List.mem_cons_of_mem _ hy)
      rw [ih _ hs', ivMem_cons, ← Bool.or_assoc]
      congr 1
      rw [Bool.eq_iff_iff]
      simp only [Bool.or_eq_true, inIv_iff]
      omega

theorem ivMem_mergeSorted (xs : List Iv) (c : Nat) (hs : Sorted1 xs) :
    ivMem (mergeSorted xs) c = ivMem xs c := by
  cases xs with
  | nil => rfl
  | cons x xs => simp only [mergeSorted]; rw [ivMem_mergeGo x xs c hs, ivMem_cons]

theorem ivMem_mergeRanges (ranges : List Iv) (c : Nat) :
    ivMem (mergeRanges ranges) c = ivMem (ranges.map normRange) c := by
  unfold mergeRanges
  rw [ivMem_mergeSorted _ _ (sorted1_sortIvs _), ivMem_sortIvs]

/-- every output interval of the loop starts at or after `cur` -/
theorem mergeGo_lb (cur : Iv) (rest : List Iv) (hs : Sorted1 (cur :: rest)) :
    ∀ y ∈ mergeGo cur rest, cur.1 ≤ y.1 := by
  induction rest generalizing cur with
  | nil => intro y hy; simp [mergeGo] at hy; subst hy; exact Nat.le_refl _
  | cons r rest ih =>
    unfold mergeGo
    have hcr : cur.1 ≤ r.1 := hs.1 r (List.mem_cons_self ..)
    by_cases hgap : r.1 > cur.2 + 1
    · rw [if_pos hgap]
      intro y hy
      rcases List.mem_cons.mp hy with rfl | hy
      · exact Nat.le_refl _
      · exact Nat.le_trans hcr (ih r hs.2 y hy)
    · rw [if_neg hgap]
      have hs' : Sorted1 ((cur.1, max cur.2 r.2) :: rest) :=
        ⟨fun y hy => hs.1 y (List.mem_cons_of_mem _ hy), hs.2.2⟩
      exact ih _ hs'

/-- the head of the loop's output starts where `cur` starts -/
theorem mergeGo_head (cur : Iv) (rest : List Iv) :
    ∃ hd tl, mergeGo cur rest = hd :: tl ∧ hd.1 = cur.1 ∧ cur.2 ≤ hd.2 := by
  induction rest generalizing cur with
  | nil => exact ⟨cur, [], rfl, rfl, Nat.le_refl _⟩
  | cons r rest ih =>
    unfold mergeGo
    by_cases hgap : r.1 > cur.2 + 1
    · rw [if_pos hgap]; exact ⟨cur, _, rfl, rfl, Nat.le_refl _⟩
    · rw [if_neg hgap]
      obtain ⟨hd, tl, h1, h2, h3⟩ := ih (cur.1, max cur.2 r.2)
      exact ⟨hd, tl, h1, h2, by simp at h3; omega⟩

theorem separated_cons {a : Iv} {l : List Iv} (ha : a.1 ≤ a.2) (hl : Separated l)
    (hsep : ∀ hd tl, l = hd :: tl → a.2 + 1 < hd.1) : Separated (a :: l) := by
  cases l with
  | nil => exact ha
  | cons b rest => exact ⟨ha, hsep b rest rfl, hl⟩

theorem separated_mergeGo (cur : Iv) (rest : List Iv) (hv : ∀ y ∈ cur :: rest, y.1 ≤ y.2) :
    Separated (mergeGo cur rest) := by
  induction rest generalizing cur with
  | nil => simpa [mergeGo, Separated] using hv
  | cons r rest ih =>
    unfold mergeGo
    have hcur : cur.1 ≤ cur.2 := hv cur (List.mem_cons_self ..)
    have hr : r.1 ≤ r.2 := hv r (List.mem_cons_of_mem _ (List.mem_cons_self ..))
    have hrest : ∀ y ∈ rest, y.1 ≤ y.2 := fun y hy =>
      hv y (List.mem_cons_of_mem _ (List.mem_cons_of_mem _ hy))
    by_cases hgap : r.1 > cur.2 + 1
    · rw [if_pos hgap]
      have hsepTail : Separated (mergeGo r rest) := ih r (by
        intro y hy
        rcases List.mem_cons.mp hy with rfl | hy
        · exact hr
        · exact hrest y hy)
      refine separated_cons hcur hsepTail ?_
      intro hd tl he
      obtain ⟨hd', tl', h1, h2, _⟩ := mergeGo_head r rest
      rw [h1] at he
      cases he
      omega
    · rw [if_neg hgap]
      apply ih
      intro y hy
      rcases List.mem_cons.mp hy with rfl | hy
      · simp; omega
      · exact hrest y hy

theorem separated_mergeRanges (ranges : List Iv) : Separated (mergeRanges ranges) := by
  unfold mergeRanges
  have hv : ∀ y ∈ sortIvs (ranges.map normRange), y.1 ≤ y.2 := by
    intro y hy
    rw [mem_sortIvs] at hy
    obtain ⟨r, _, rfl⟩ := List.mem_map.mp hy
    exact normRange_valid r
  cases h : sortIvs (ranges.map normRange) with
  | nil => trivial
  | cons x xs => rw [h] at hv; exact separated_mergeGo x xs hv

/-- `Separated` as a statement about all pairs -/
theorem separated_pairwise {l : List Iv} (h : Separated l) :
    (∀ x ∈ l, x.1 ≤ x.2) ∧ l.Pairwise (fun x y => x.2 + 1 < y.1) := by
  induction l with
  | nil => exact ⟨by simp, List.Pairwise.nil⟩
  | cons a l ih =>
    cases l with
    | nil => exact ⟨by simpa [Separated] using h, by simp⟩
    | cons b rest =>
      obtain ⟨ha, hab, hrest⟩ := h
      obtain ⟨hv, hp⟩ := ih hrest
      refine ⟨?_, ?_⟩
      · intro x hx
        rcases List.mem_cons.mp hx with rfl | hx
        · exact ha
        · exact hv x hx
      · refine List.Pairwise.cons ?_ hp
        intro y hy
        rcases List.mem_cons.mp hy with rfl | hy
        · exact hab
        · have h1 := (List.pairwise_cons.mp hp).1 y hy
          have h2 := hv b (List.mem_cons_self ..)
          omega

/-! ### singles -/

theorem mem_insertDedup {c y : Nat} {xs : List Nat} : y ∈ insertDedup c xs ↔ y = c ∨ y ∈ xs := by
  induction xs with
  | nil => simp [insertDedup]
  | cons x xs ih =>
    unfold insertDedup
    by_cases h1 : c < x
    · rw [if_pos h1]; simp
    · rw [if_neg h1]
      by_cases h2 : c = x
      · rw [if_pos h2]; subst h2; simp
      · rw [if_neg h2, List.mem_cons, ih, List.mem_cons]
        constructor
        · rintro (h | h | h)
          · exact Or.inr (Or.inl h)
          · exact Or.inl h
          · exact Or.inr (Or.inr h)
        · rintro (h | h | h)
          · exact Or.inr (Or.inl h)
          · exact Or.inl h
          · exact Or.inr (Or.inr h)

theorem mem_sortDedup {y : Nat} {xs : List Nat} : y ∈ sortDedup xs ↔ y ∈ xs := by
  induction xs with
  | nil => simp [sortDedup]
  | cons x xs ih => simp [sortDedup, mem_insertDedup, ih]

theorem pairwise_insertDedup (c : Nat) {xs : List Nat} (h : xs.Pairwise (· < ·)) :
    (insertDedup c xs).Pairwise (· < ·) := by
  induction xs with
  | nil => simp [insertDedup]
  | cons x xs ih =>
    unfold insertDedup
    obtain ⟨hx, hxs⟩ := List.pairwise_cons.mp h
    by_cases h1 : c < x
    · rw [if_pos h1]
      refine List.Pairwise.cons ?_ h
      intro y hy
      rcases List.mem_cons.mp hy with rfl | hy
      · exact h1
      · exact Nat.lt_trans h1 (hx y hy)
    · rw [if_neg h1]
      by_cases h2 : c = x
      · rw [if_pos h2]; exact h
      · rw [if_neg h2]
        refine List.Pairwise.cons ?_ (ih hxs)
        intro y hy
        rcases mem_insertDedup.mp hy with rfl | hy
        · omega
        · exact hx y hy

theorem pairwise_sortDedup (xs : List Nat) : (sortDedup xs).Pairwise (· < ·) := by
  induction xs with
  | nil => simp [sortDedup]
  | cons x xs ih => exact pairwise_insertDedup x ih

/-! ### pieces -/

theorem any_single (ss : List Nat) (c : Nat) :
    (ss.map Piece.single).any (·.mem c) = ss.contains c := by
  induction ss with
  | nil => rfl
  | cons x xs ih =>
    rw [List.map_cons, List.any_cons, ih, List.contains_cons]
    congr 1
    simp only [Piece.mem]
    rw [Bool.eq_iff_iff, beq_iff_eq, beq_iff_eq]; exact eq_comm

theorem any_rangePiece (rs : List Iv) (hv : ∀ r ∈ rs, r.1 ≤ r.2) (c : Nat) :
    (rs.map fun r => if r.1 = r.2 then Piece.single r.1 else Piece.range r.1 r.2).any (·.mem c)
      = ivMem rs c := by
  induction rs with
  | nil => rfl
  | cons r rs ih =>
    rw [List.map_cons, List.any_cons, ih (fun y hy => hv y (List.mem_cons_of_mem _ hy)), ivMem_cons]
    congr 1
    have := hv r (List.mem_cons_self ..)
    by_cases he : r.1 = r.2
    · rw [if_pos he]
      simp only [Piece.mem, inIv]
      rw [Bool.eq_iff_iff]; simp; omega
    · rw [if_neg he]; rfl

theorem piecesMem_pieces (cls : List Nat × List Iv) (hv : ∀ r ∈ cls.2, r.1 ≤ r.2) (c : Nat) :
    piecesMem (pieces cls) c = classMem cls c := by
  obtain ⟨ss, rs⟩ := cls
  simp only [piecesMem, pieces, classMem, List.any_append]
  rw [any_single, any_rangePiece rs hv]

end CharSet
end Pest
