/-
  Lemmas/JsonDoc.lean — values and documents of examples/json/json.pest under the
  specification L0 (stage 2/3 of C17's JSON half; helper lemmas for Props/C17.lean).
-/
import PestModel.Lemmas.Json

namespace Pest
namespace Json
open L0

variable {g : Grammar} {inp : Input}

/-! ### implicit whitespace in a non-atomic context -/

def wsBody : Expr := .choice [(.str [32]), (.str [9]), (.str [13]), (.str [10])]

/-- the grammar's trivia is the rule `WHITESPACE = _{ " " | "\t" | "\r" | "\n" }` and nothing else -/
structure WsRules (g : Grammar) : Prop where
  ws : ∃ k, g.lookup "WHITESPACE" = some { name := "WHITESPACE", mod := 2, body := wsBody, kind := k }
  nocomment : g.lookup "COMMENT" = none
  nofused : g.fusedSkip = none

def IsWs (c : CP) : Prop := c = 32 ∨ c = 9 ∨ c = 13 ∨ c = 10

def wsChars : List CP := [32, 9, 13, 10]

theorem wsCh_mem (c : WsCh) : c.cp ∈ wsChars := by cases c <;> decide

theorem not_mem_wsChars {c : CP} (h : ¬ IsWs c) : c ∉ wsChars := by
  unfold IsWs at h
  simp only [wsChars, List.mem_cons, List.not_mem_nil, or_false]
  exact h

/-- the trivia loop, for all large fuel and budget -/
theorem skipLoop_ws (wsRule : Rule) (hname : wsRule.name = "WHITESPACE") (hmod : wsRule.mod = 2)
    (hbody : wsRule.body = wsBody) :
    ∀ (w : Ws) (s : S0) (r : Str), s.atomic = false → RestAt inp s.pos (wsText w ++ r) →
      HeadIs (fun c => ¬ IsWs c) r →
      ∃ N, ∀ n k acc, N ≤ n → w.length < k →
        skipLoop (L0.run g inp n) (some wsRule) none k s acc = .ok (adv s w.length) acc
  | [], s, r, hna, hr, hf => by
    have hr' : RestAt inp s.pos r := by simpa [wsText] using hr
    have hfail : Ev g inp wsBody { s with atomic := true } .fail :=
      ev_choice_strs_fail (s := { s with atomic := true }) hr' wsChars (hf.mono fun c hc => not_mem_wsChars hc)
    obtain ⟨N, hN⟩ := hfail
    refine ⟨N, fun n k acc hn hk => ?_⟩
    cases k with
    | zero => simp at hk
    | succ k =>
      have hra : ruleAtomic "WHITESPACE" 2 s.atomic = true := by simp [ruleAtomic, L1.isTriviaName]
      simp [skipLoop, trySkip, ruleApply, hname, hmod, hbody, hra, hN n hn, adv_zero]
  | c :: w, s, r, hna, hr, hf => by
    have hr' : RestAt inp s.pos (c.cp :: (wsText w ++ r)) := by simpa [wsText] using hr
    have hok : Ev g inp wsBody { s with atomic := true } (.ok (adv { s with atomic := true } 1) []) :=
      ev_choice_strs_ok (s := { s with atomic := true }) hr' wsChars (wsCh_mem c)
    obtain ⟨N, hN⟩ := hok
    obtain ⟨N', ih⟩ := skipLoop_ws wsRule hname hmod hbody w (adv s 1) r (by simpa using hna)
      (by simpa using hr'.tail) hf
    refine ⟨max N N', fun n k acc hn hk => ?_⟩
    cases k with
    | zero => simp at hk
    | succ k =>
      have hra : ruleAtomic "WHITESPACE" 2 s.atomic = true := by simp [ruleAtomic, L1.isTriviaName]
      have hw : ({ adv { s with atomic := true } 1 with atomic := s.atomic } : S0) = adv s 1 := by
        cases s; simp [adv]
      have := ih n k acc (by omega) (by simp only [List.length_cons] at hk; omega)
      simp only [skipLoop, trySkip, ruleApply, hname, hmod, hbody, hra, hN n (by omega), silent_wrap, hw,
        List.append_nil]
      rw [this, adv_adv]
      simp [Nat.add_comm]

/-- **implicit whitespace**: between two elements of a sequence in a non-atomic context, exactly
    the run of whitespace is skipped, and it leaves no pairs -/
theorem evSkip_ws (hg : WsRules g) {s : S0} (hna : s.atomic = false) (w : Ws) {r : Str}
    (hr : RestAt inp s.pos (wsText w ++ r)) (hf : HeadIs (fun c => ¬ IsWs c) r) :
    EvSkip g inp s (adv s w.length) [] := by
  obtain ⟨k, hl⟩ := hg.ws
  obtain ⟨N, h⟩ := skipLoop_ws (g := g)
    { name := "WHITESPACE", mod := 2, body := wsBody, kind := k } rfl rfl rfl w s r hna hr hf
  refine ⟨max N (w.length + 1), fun n hn => ?_⟩
  simp only [skip, hna, Bool.false_eq_true, if_false, hg.nofused, hl, hg.nocomment]
  simpa using h n n [] (by omega) (by omega)

/-! ### the rules of examples/json/json.pest above the tokens -/

def commaValue : Expr := .group (.seq [(.str [44]), (.ident "value" none)]) none
def commaPair : Expr := .group (.seq [(.str [44]), (.ident "pair" none)]) none
def exArrayBody : Expr :=
  .choice [(.seq [(.str [91]), (.str [93])]),
    (.seq [(.str [91]), (.ident "value" none), (.rep commaValue), (.str [93])])]
def exObjectBody : Expr :=
  .choice [(.seq [(.str [123]), (.str [125])]),
    (.seq [(.str [123]), (.ident "pair" none), (.rep commaPair), (.str [125])])]
def exPairBody : Expr := .seq [(.ident "string" none), (.str [58]), (.ident "value" none)]
def exValueBody : Expr :=
  .choice [(.ident "object" none), (.ident "array" none), (.ident "string" none), (.ident "number" none),
    (.ident "boolean" none), (.ident "null" none)]
def exBooleanBody : Expr := .choice [(.str [116, 114, 117, 101]), (.str [102, 97, 108, 115, 101])]
def exNullBody : Expr := .str [110, 117, 108, 108]
def exJsonBody : Expr :=
  .seq [(.rule "SOI" 2 true .soiB), (.group (.choice [(.ident "object" none), (.ident "array" none)]) none),
    (.ident "EOI" none)]

/-- the whole rule table of examples/json/json.pest (Props/C17.lean: the regenerated table) -/
structure ExDocRules (g : Grammar) : Prop where
  ws : WsRules g
  strs : ExStringRules g
  number : g.lookup "number" = some { name := "number", mod := 4, body := exNumberBody, kind := .grammar }
  object : g.lookup "object" = some { name := "object", mod := 0, body := exObjectBody, kind := .grammar }
  array : g.lookup "array" = some { name := "array", mod := 0, body := exArrayBody, kind := .grammar }
  pair : g.lookup "pair" = some { name := "pair", mod := 0, body := exPairBody, kind := .grammar }
  value : g.lookup "value" = some { name := "value", mod := 2, body := exValueBody, kind := .grammar }
  boolean : g.lookup "boolean" = some { name := "boolean", mod := 0, body := exBooleanBody, kind := .grammar }
  null : g.lookup "null" = some { name := "null", mod := 0, body := exNullBody, kind := .grammar }
  json : g.lookup "json" = some { name := "json", mod := 2, body := exJsonBody, kind := .grammar }
  eoi : g.lookup "EOI" = some { name := "EOI", mod := 0, body := .eoiB, kind := .builtin }

/-! ### rules without atomicity modifier -/

theorem inherit_enter (name : String) (mod : Nat) (hm : mod = 0 ∨ mod = 2)
    (hn : L1.isTriviaName name = false) (b : Bool) : ruleAtomic name mod b = b := by
  rcases hm with rfl | rfl <;> simp [ruleAtomic, hasBit, ATOMIC, COMPOUND, NONATOMIC, hn]

theorem plain_wrap (name : String) (s s' : S0) (ps : List Pair) (hat : s'.atomic = s.atomic) :
    ruleWrap name 0 s s' ps = .ok s' [.mk name 0 s.pos s'.pos ps none] := by
  have : ({ s' with atomic := s.atomic } : S0) = s' := by cases s'; simp_all
  simp [ruleWrap, hasBit, SILENT, ATOMIC, this]

theorem same_state (s : S0) : ({ s with atomic := s.atomic } : S0) = s := by cases s; rfl

/-- a normal rule `name = { body }` -/
theorem ev_plain_ok {name : String} {body : Expr} {k : RuleKind} {s s' : S0} {ps : List Pair}
    (hl : g.lookup name = some { name := name, mod := 0, body := body, kind := k })
    (hn : L1.isTriviaName name = false) (hb : Ev g inp body s (.ok s' ps)) (hat : s'.atomic = s.atomic) :
    Ev g inp (.ident name none) s (.ok s' [.mk name 0 s.pos s'.pos ps none]) := by
  have := ev_ident_ok (tag := none) (s := s) hl
    (by rw [inherit_enter name 0 (Or.inl rfl) hn]; exact hb)
  simpa [plain_wrap _ _ _ _ hat] using this

theorem ev_plain_fail {name : String} {body : Expr} {k : RuleKind} {mod : Nat} {s : S0}
    (hl : g.lookup name = some { name := name, mod := mod, body := body, kind := k })
    (hm : mod = 0 ∨ mod = 2) (hn : L1.isTriviaName name = false) (hb : Ev g inp body s .fail) :
    Ev g inp (.ident name none) s .fail :=
  ev_ident_fail (tag := none) (s := s) hl (by rw [inherit_enter name mod hm hn]; exact hb)

/-- a silent rule `name = _{ body }` -/
theorem ev_silent_ok {name : String} {body : Expr} {k : RuleKind} {s s' : S0} {ps : List Pair}
    (hl : g.lookup name = some { name := name, mod := 2, body := body, kind := k })
    (hn : L1.isTriviaName name = false) (hb : Ev g inp body s (.ok s' ps)) (hat : s'.atomic = s.atomic) :
    Ev g inp (.ident name none) s (.ok s' ps) := by
  have := ev_ident_ok (tag := none) (s := s) hl
    (by rw [inherit_enter name 2 (Or.inr rfl) hn]; exact hb)
  have e : ({ s' with atomic := s.atomic } : S0) = s' := by cases s'; simp_all
  simpa [silent_wrap, e] using this

/-! ### how a value starts, and what may follow it -/

def ValStart (c : CP) : Prop :=
  c = 123 ∨ c = 91 ∨ c = 34 ∨ c = 45 ∨ IsDigit c ∨ c = 116 ∨ c = 102 ∨ c = 110

/-- in a document a value is followed by whitespace, `,`, `]`, `}` or the end -/
def ValFollow (c : CP) : Prop := IsWs c ∨ c = 44 ∨ c = 93 ∨ c = 125

theorem ValFollow.num {c : CP} (h : ValFollow c) : NumFollow c := by
  unfold ValFollow IsWs at h
  unfold NumFollow IsDigit
  rcases h with (h | h | h | h) | h | h | h <;> subst h <;> (unfold CP; decide)

theorem intText_head (i : IntPart) : ∃ c t, intText i = c :: t ∧ IsDigit c := by
  cases i with
  | zero => exact ⟨48, [], rfl, by unfold IsDigit; decide⟩
  | nonzero d ds => exact ⟨49 + d.val, _, rfl, by have := d.isLt; unfold IsDigit; cp_omega⟩

theorem numText_head (n : Num) : ∃ c t, numText n = c :: t ∧ (c = 45 ∨ IsDigit c) := by
  rw [numText_eq]
  cases hn : n.neg with
  | true => exact ⟨45, intText n.int ++ (fracText n.frac ++ expOptText n.exp), by simp [signText], Or.inl rfl⟩
  | false =>
    obtain ⟨c, t, h1, h2⟩ := intText_head n.int
    exact ⟨c, t ++ (fracText n.frac ++ expOptText n.exp), by simp [signText, h1], Or.inr h2⟩

theorem val_text_start (v : Val) : ∃ c t, v.text = c :: t ∧ ValStart c := by
  unfold ValStart
  cases v with
  | null => exact ⟨110, _, rfl, by simp⟩
  | tt => exact ⟨116, _, rfl, by simp⟩
  | ff => exact ⟨102, _, rfl, by simp⟩
  | num n =>
    obtain ⟨c, t, h1, h2⟩ := numText_head n
    refine ⟨c, t, by simpa [Val.text] using h1, ?_⟩
    rcases h2 with h | h
    · simp [h]
    · simp [h]
  | str s => exact ⟨34, _, rfl, by simp⟩
  | arr0 w => exact ⟨91, _, rfl, by simp⟩
  | arr es => exact ⟨91, _, rfl, by simp⟩
  | obj0 w => exact ⟨123, _, rfl, by simp⟩
  | obj ms => exact ⟨123, _, rfl, by simp⟩

theorem ValStart.not_ws {c : CP} (h : ValStart c) : ¬ IsWs c := by
  unfold ValStart IsDigit at h
  unfold IsWs
  rcases h with h | h | h | h | h | h | h | h <;> cp_omega

/-! ### a literal of several characters -/

theorem ev_lit_ok {s : S0} {x r : Str} (hx : x ≠ []) (h : RestAt inp s.pos (x ++ r)) :
    Ev g inp (.str x) s (.ok (adv s x.length) []) :=
  ev_str_ok (startsWithAt_of_rest (RestAt.le h (by simp [hx])) h)

theorem ev_lit_fail {s : S0} {c d : CP} {x r : Str} (h : RestAt inp s.pos (c :: r)) (hne : c ≠ d) :
    Ev g inp (.str (d :: x)) s .fail :=
  ev_str_fail (startsWithAt_head_ne h hne)

/-! ### alternatives of `value` that do not apply fail on the first character -/

section alts
variable (hg : ExDocRules g) {s : S0} {c : CP} {r : Str} (h : RestAt inp s.pos (c :: r))
include hg h

theorem ev_object_fail (hc : c ≠ 123) : Ev g inp (.ident "object" none) s .fail :=
  ev_plain_fail hg.object (Or.inl rfl) (by decide)
    (ev_choice_next (ev_seq (evSeq_fail (ev_lit_fail h hc)))
      (ev_choice_next (ev_seq (evSeq_fail (ev_lit_fail h hc))) ev_choice_nil))

theorem ev_array_fail (hc : c ≠ 91) : Ev g inp (.ident "array" none) s .fail :=
  ev_plain_fail hg.array (Or.inl rfl) (by decide)
    (ev_choice_next (ev_seq (evSeq_fail (ev_lit_fail h hc)))
      (ev_choice_next (ev_seq (evSeq_fail (ev_lit_fail h hc))) ev_choice_nil))

theorem ev_string_fail (hc : c ≠ 34) : Ev g inp (.ident "string" none) s .fail := by
  obtain ⟨k, hl⟩ := hg.strs.string
  exact ev_ident_fail (tag := none) hl (ev_seq (evSeq_fail (ev_lit_fail (s := { s with atomic := _ }) h hc)))

theorem ev_number_fail (hc : c ≠ 45 ∧ ¬ IsDigit c) : Ev g inp (.ident "number" none) s .fail := by
  apply ev_ident_fail (tag := none) hg.number
  have hat : ruleAtomic "number" 4 s.atomic = true := atomic_enter _ _
  let sa : S0 := { s with atomic := ruleAtomic "number" 4 s.atomic }
  have h' : RestAt inp sa.pos (c :: r) := h
  have h1 : Ev g inp (.opt (.str [45])) sa (.ok sa []) := ev_opt_none (ev_lit_fail h' hc.1)
  have h48 : c ≠ 48 := fun e => hc.2 (by subst e; unfold IsDigit; decide)
  have hnz : Ev g inp NZDIGIT sa .fail :=
    ev_silent_range_fail h' (show ¬ (49 ≤ c ∧ c ≤ 57) from fun e => hc.2 (by unfold IsDigit; cp_omega))
  have h2 : Ev g inp exIntExpr sa .fail :=
    ev_group (ev_choice_next (ev_lit_fail h' h48) (ev_choice_next (ev_seq (evSeq_fail hnz)) ev_choice_nil))
  exact ev_seq (evSeq_cons h1 (evSkip_atomic hat) (evSeq_fail h2))

theorem ev_boolean_fail (hc : c ≠ 116 ∧ c ≠ 102) : Ev g inp (.ident "boolean" none) s .fail :=
  ev_plain_fail hg.boolean (Or.inl rfl) (by decide)
    (ev_choice_next (ev_lit_fail h hc.1) (ev_choice_next (ev_lit_fail h hc.2) ev_choice_nil))

end alts

/-- `value` is silent and inherits the context: it is the first alternative that matches -/
theorem ev_value_of_body (hg : ExDocRules g) {s s' : S0} {ps : List Pair}
    (hb : Ev g inp exValueBody s (.ok s' ps)) (hat : s'.atomic = s.atomic) :
    Ev g inp (.ident "value" none) s (.ok s' ps) :=
  ev_silent_ok hg.value (by decide) hb hat

theorem not_digit_of_eq {c d : CP} (h : c = d) (hd : ¬ IsDigit d) : ¬ IsDigit c := h ▸ hd

/-! ### scalar values -/

/-- what `value` yields for `v` when it starts at `p` (the mirror of examples/json/json.pest) -/
abbrev exPair (v : Val) (p : Nat) : Pair := v.mirror .examples p

theorem ev_value_null (hg : ExDocRules g) {s : S0} {r : Str}
    (h : RestAt inp s.pos (Val.null.text ++ r)) :
    Ev g inp (.ident "value" none) s (.ok (adv s Val.null.text.length) [exPair .null s.pos]) := by
  have h' : RestAt inp s.pos (110 :: ([117, 108, 108] ++ r)) := h
  have hn := ev_plain_ok (s := s) hg.null (by decide) (ev_lit_ok (x := [110, 117, 108, 108]) (by simp) h) (by simp)
  have nd : ¬ IsDigit 110 := by unfold IsDigit; cp_omega
  refine ev_value_of_body hg ?_ (by simp)
  exact ev_choice_next (ev_object_fail hg h' (by decide)) (ev_choice_next (ev_array_fail hg h' (by decide))
    (ev_choice_next (ev_string_fail hg h' (by decide)) (ev_choice_next (ev_number_fail hg h' ⟨by decide, nd⟩)
      (ev_choice_next (ev_boolean_fail hg h' ⟨by decide, by decide⟩) (ev_choice_ok hn)))))

theorem ev_value_true (hg : ExDocRules g) {s : S0} {r : Str}
    (h : RestAt inp s.pos (Val.tt.text ++ r)) :
    Ev g inp (.ident "value" none) s (.ok (adv s Val.tt.text.length) [exPair .tt s.pos]) := by
  have h' : RestAt inp s.pos (116 :: ([114, 117, 101] ++ r)) := h
  have hb : Ev g inp exBooleanBody s (.ok (adv s 4) []) :=
    ev_choice_ok (ev_lit_ok (x := [116, 114, 117, 101]) (by simp) h)
  have hn := ev_plain_ok (s := s) hg.boolean (by decide) hb (by simp)
  have nd : ¬ IsDigit 116 := by unfold IsDigit; cp_omega
  refine ev_value_of_body hg ?_ (by simp)
  exact ev_choice_next (ev_object_fail hg h' (by decide)) (ev_choice_next (ev_array_fail hg h' (by decide))
    (ev_choice_next (ev_string_fail hg h' (by decide)) (ev_choice_next (ev_number_fail hg h' ⟨by decide, nd⟩)
      (ev_choice_ok hn))))

theorem ev_value_false (hg : ExDocRules g) {s : S0} {r : Str}
    (h : RestAt inp s.pos (Val.ff.text ++ r)) :
    Ev g inp (.ident "value" none) s (.ok (adv s Val.ff.text.length) [exPair .ff s.pos]) := by
  have h' : RestAt inp s.pos (102 :: ([97, 108, 115, 101] ++ r)) := h
  have hb : Ev g inp exBooleanBody s (.ok (adv s 5) []) :=
    ev_choice_next (ev_lit_fail h' (by decide)) (ev_choice_ok (ev_lit_ok (x := [102, 97, 108, 115, 101]) (by simp) h))
  have hn := ev_plain_ok (s := s) hg.boolean (by decide) hb (by simp)
  have nd : ¬ IsDigit 102 := by unfold IsDigit; cp_omega
  refine ev_value_of_body hg ?_ (by simp)
  exact ev_choice_next (ev_object_fail hg h' (by decide)) (ev_choice_next (ev_array_fail hg h' (by decide))
    (ev_choice_next (ev_string_fail hg h' (by decide)) (ev_choice_next (ev_number_fail hg h' ⟨by decide, nd⟩)
      (ev_choice_ok hn))))

theorem ev_value_num (hg : ExDocRules g) {s : S0} (n : Num) {r : Str}
    (h : RestAt inp s.pos ((Val.num n).text ++ r)) (hf : HeadIs ValFollow r) :
    Ev g inp (.ident "value" none) s (.ok (adv s (Val.num n).text.length) [exPair (.num n) s.pos]) := by
  obtain ⟨c, t, hc, hs⟩ := numText_head n
  have h0 : RestAt inp s.pos (numText n ++ r) := h
  have h' : RestAt inp s.pos (c :: (t ++ r)) := by rw [hc] at h0; exact h0
  have hn := ev_exNumber (g := g) hg.number s n h0 (hf.mono fun c h => h.num)
  have c1 : c ≠ 123 ∧ c ≠ 91 ∧ c ≠ 34 := by
    unfold IsDigit at hs
    rcases hs with hs | hs
    · subst hs; decide
    · refine ⟨?_, ?_, ?_⟩ <;> cp_omega
  refine ev_value_of_body hg ?_ (by simp)
  exact ev_choice_next (ev_object_fail hg h' c1.1) (ev_choice_next (ev_array_fail hg h' c1.2.1)
    (ev_choice_next (ev_string_fail hg h' c1.2.2) (ev_choice_ok hn)))

theorem ev_value_str (hg : ExDocRules g) {s : S0} (cs : SStr) {r : Str}
    (h : RestAt inp s.pos ((Val.str cs).text ++ r)) :
    Ev g inp (.ident "value" none) s (.ok (adv s (Val.str cs).text.length) [exPair (.str cs) s.pos]) := by
  have h0 : RestAt inp s.pos (strText cs ++ r) := h
  have h' : RestAt inp s.pos (34 :: (sstrText cs ++ [34] ++ r)) := by simpa [strText] using h0
  have hn := ev_exString (g := g) hg.strs s cs h0
  refine ev_value_of_body hg ?_ (by simp)
  exact ev_choice_next (ev_object_fail hg h' (by decide)) (ev_choice_next (ev_array_fail hg h' (by decide))
    (ev_choice_ok hn))

/-! ### elements of an array -/

/-- the text of the elements without the whitespace after the last one -/
def Elems.coreText : Elems → Str
  | .one w1 v _ => wsText w1 ++ v.text
  | .cons w1 v w2 rest => wsText w1 ++ v.text ++ wsText w2 ++ 44 :: rest.coreText

def Elems.lastW : Elems → Ws
  | .one _ _ w2 => w2
  | .cons _ _ _ rest => rest.lastW

theorem Elems.text_split : ∀ es : Elems, es.text = es.coreText ++ wsText es.lastW
  | .one w1 v w2 => by simp [Elems.text, Elems.coreText, Elems.lastW]
  | .cons w1 v w2 rest => by
    simp [Elems.text, Elems.coreText, Elems.lastW, Elems.text_split rest, List.append_assoc]

@[simp] theorem wsText_length (w : Ws) : (wsText w).length = w.length := by simp [wsText]

theorem wsText_head (w : Ws) : HeadIs IsWs (wsText w) := by
  cases w with
  | nil => trivial
  | cons c w => cases c <;> simp [wsText, HeadIs, WsCh.cp, IsWs]

theorem adv_congr (s : S0) {a b : Nat} (h : a = b) : adv s a = adv s b := by rw [h]

/-- what follows an element inside an array or object is whitespace or a structural character -/
theorem follow_ws_then {w : Ws} {c : CP} {r : Str} (hc : c = 44 ∨ c = 93 ∨ c = 125) :
    HeadIs ValFollow (wsText w ++ c :: r) :=
  headIs_append (fun _ => (wsText_head w).mono fun _ h => Or.inl h)
    (fun _ => by unfold ValFollow; rcases hc with h | h | h <;> simp [HeadIs, h])

theorem not_ws_struct {c : CP} (hc : c = 44 ∨ c = 93 ∨ c = 125 ∨ c = 58) : ¬ IsWs c := by
  unfold IsWs; rcases hc with h | h | h | h <;> subst h <;> decide

/-- what `value` yields for `v` when it starts at `p` -/
abbrev vPair (fl : Flavour) (v : Val) (p : Nat) : Pair := v.mirror fl p

/-- what the container lemmas need from a grammar: its trivia, the rule
    `pair = { string ~ ":" ~ value }`, and the behaviour of `string` (stage 1) -/
structure CoreRules (g : Grammar) (inp : Input) (fl : Flavour) : Prop where
  ws : WsRules g
  pair : g.lookup "pair" = some { name := "pair", mod := 0, body := exPairBody, kind := .grammar }
  str : ∀ (s : S0) (cs : SStr) (r : Str), RestAt inp s.pos (strText cs ++ r) →
    Ev g inp (.ident "string" none) s (.ok (adv s (strText cs).length) [mirrorStr fl s.pos cs])
  strFail : ∀ (s : S0) (c : CP) (r : Str), RestAt inp s.pos (c :: r) → c ≠ 34 →
    Ev g inp (.ident "string" none) s .fail

/-- examples/json/json.pest provides them -/
theorem exCore (hg : ExDocRules g) : CoreRules g inp .examples :=
  ⟨hg.ws, hg.pair, fun s cs _ h => ev_exString hg.strs s cs h, fun _ _ _ h hc => ev_string_fail hg h hc⟩

/-- the statement about one value, for every context it can stand in -/
def ValOk (g : Grammar) (inp : Input) (fl : Flavour) (v : Val) : Prop :=
  ∀ (s : S0) (r : Str), s.atomic = false → RestAt inp s.pos (v.text ++ r) → HeadIs ValFollow r →
    Ev g inp (.ident "value" none) s (.ok (adv s v.text.length) [vPair fl v s.pos])

/-- `"," ~ value` -/
theorem ev_commaValue {fl : Flavour} (hk : CoreRules g inp fl) {v : Val} (hv : ValOk g inp fl v) {s : S0} (hna : s.atomic = false)
    (w1 : Ws) {r : Str} (h : RestAt inp s.pos (44 :: (wsText w1 ++ (v.text ++ r)))) (hf : HeadIs ValFollow r) :
    Ev g inp commaValue s
      (.ok (adv s (1 + w1.length + v.text.length)) [vPair fl v (s.pos + 1 + w1.length)]) := by
  obtain ⟨c, t, hc, hst⟩ := val_text_start v
  have h1 := ev_str1_ok (g := g) h
  have hsk := evSkip_ws hk.ws (s := adv s 1) (by simpa using hna) w1 (by simpa using h.tail)
    (by rw [hc]; exact hst.not_ws)
  have hr2 : RestAt inp (adv (adv s 1) w1.length).pos (v.text ++ r) := by
    have := (h.tail).advance
    simpa [Nat.add_assoc] using this
  have h2 := hv (adv (adv s 1) w1.length) r (by simpa using hna) hr2 hf
  have := ev_group (t := none) (ev_seq (evSeq_cons h1 hsk (evSeq_last h2)))
  simpa [commaValue, adv_adv, Nat.add_assoc] using this

theorem ev_commaValue_fail {s : S0} {c : CP} {r : Str} (h : RestAt inp s.pos (c :: r)) (hc : c ≠ 44) :
    Ev g inp commaValue s .fail :=
  ev_group (ev_seq (evSeq_fail (ev_lit_fail h hc)))

/-- the loop `("," ~ value)*` over the elements `es` that follow a comma; it is entered either at
    the comma (`first`) or right after the previous value, `wprev` before the comma -/
def RepOkE (g : Grammar) (inp : Input) (fl : Flavour) (es : Elems) : Prop :=
  ∀ (first : Bool) (s : S0) (wprev : Ws) (acc : List Pair) (r : Str),
    s.atomic = false → (first = true → wprev = []) →
    RestAt inp s.pos (wsText wprev ++ 44 :: (es.text ++ 93 :: r)) →
    EvRep g inp commaValue first s acc
      (.ok (adv s (wprev.length + 1 + es.coreText.length))
        (acc ++ es.mirror fl (s.pos + wprev.length + 1)))

/-- one more element, then whatever the rest of the loop does -/
theorem repE_step {fl : Flavour} (hk : CoreRules g inp fl) {v : Val} (hv : ValOk g inp fl v) (w1 : Ws)
    (first : Bool) (s : S0) (wprev : Ws) (acc : List Pair) (r' : Str) (res : R0)
    (hna : s.atomic = false) (hfirst : first = true → wprev = [])
    (h : RestAt inp s.pos (wsText wprev ++ 44 :: (wsText w1 ++ (v.text ++ r')))) (hf : HeadIs ValFollow r')
    (hrest : EvRep g inp commaValue false (adv s (wprev.length + 1 + w1.length + v.text.length))
      (acc ++ [vPair fl v (s.pos + wprev.length + 1 + w1.length)]) res) :
    EvRep g inp commaValue first s acc res := by
  have hsk := evSkip_ws hk.ws hna wprev h (show ¬ IsWs 44 from not_ws_struct (Or.inl rfl))
  have hr1 : RestAt inp (adv s wprev.length).pos (44 :: (wsText w1 ++ (v.text ++ r'))) := by
    simpa using h.advance
  have hit := ev_commaValue hk hv (s := adv s wprev.length) (by simpa using hna) w1 hr1 hf
  have hrest' : EvRep g inp commaValue false (adv (adv s wprev.length) (1 + w1.length + v.text.length))
      (acc ++ [] ++ [vPair fl v ((adv s wprev.length).pos + 1 + w1.length)]) res := by
    have e : adv (adv s wprev.length) (1 + w1.length + v.text.length)
        = adv s (wprev.length + 1 + w1.length + v.text.length) := by
      rw [adv_adv]; exact adv_congr s (by omega)
    rw [e]
    simpa [Nat.add_assoc] using hrest
  cases first with
  | false => exact evRep_more hsk hit hrest'
  | true =>
    have hw := hfirst rfl
    subst hw
    have hit0 : Ev g inp commaValue s
        (.ok (adv (adv s ([] : Ws).length) (1 + w1.length + v.text.length))
          [vPair fl v ((adv s ([] : Ws).length).pos + 1 + w1.length)]) := by
      simpa [adv_zero] using hit
    exact evRep_first_more hit0 (by simpa using hrest')

theorem repOk_one {fl : Flavour} (hk : CoreRules g inp fl) {v : Val} (hv : ValOk g inp fl v) (w1 w2 : Ws) :
    RepOkE g inp fl (.one w1 v w2) := by
  intro first s wprev acc r hna hfirst h
  have h' : RestAt inp s.pos (wsText wprev ++ 44 :: (wsText w1 ++ (v.text ++ (wsText w2 ++ 93 :: r)))) := by
    simpa [Elems.text, List.append_assoc] using h
  have hf : HeadIs ValFollow (wsText w2 ++ 93 :: r) := follow_ws_then (Or.inr (Or.inl rfl))
  -- after the value: whitespace, then `]` where a comma would have to be
  have hend : RestAt inp (adv s (wprev.length + 1 + w1.length + v.text.length)).pos (wsText w2 ++ 93 :: r) := by
    have := ((h'.advance).tail.advance).advance
    simpa [Nat.add_assoc] using this
  have hstop : EvRep g inp commaValue false (adv s (wprev.length + 1 + w1.length + v.text.length))
      (acc ++ [vPair fl v (s.pos + wprev.length + 1 + w1.length)])
      (.ok (adv s (wprev.length + 1 + w1.length + v.text.length))
        (acc ++ [vPair fl v (s.pos + wprev.length + 1 + w1.length)])) :=
    evRep_stop (evSkip_ws hk.ws (by simpa using hna) w2 hend (show ¬ IsWs 93 from not_ws_struct (Or.inr (Or.inl rfl))))
      (ev_commaValue_fail (by simpa using hend.advance) (by decide))
  have := repE_step hk hv w1 first s wprev acc _ _ hna hfirst h' hf hstop
  have e : adv s (wprev.length + 1 + (Elems.one w1 v w2).coreText.length)
      = adv s (wprev.length + 1 + w1.length + v.text.length) :=
    adv_congr s (by simp [Elems.coreText]; omega)
  rw [e]
  simpa [Elems.mirror, vPair, Nat.add_assoc] using this

theorem repOk_cons {fl : Flavour} (hk : CoreRules g inp fl) {v : Val} (hv : ValOk g inp fl v) (w1 w2 : Ws) {rest : Elems}
    (hrest : RepOkE g inp fl rest) : RepOkE g inp fl (.cons w1 v w2 rest) := by
  intro first s wprev acc r hna hfirst h
  have h' : RestAt inp s.pos
      (wsText wprev ++ 44 :: (wsText w1 ++ (v.text ++ (wsText w2 ++ 44 :: (rest.text ++ 93 :: r))))) := by
    simpa [Elems.text, List.append_assoc] using h
  have hf : HeadIs ValFollow (wsText w2 ++ 44 :: (rest.text ++ 93 :: r)) := follow_ws_then (Or.inl rfl)
  have hend : RestAt inp (adv s (wprev.length + 1 + w1.length + v.text.length)).pos
      (wsText w2 ++ 44 :: (rest.text ++ 93 :: r)) := by
    have := ((h'.advance).tail.advance).advance
    simpa [Nat.add_assoc] using this
  have hr := hrest false (adv s (wprev.length + 1 + w1.length + v.text.length)) w2
    (acc ++ [vPair fl v (s.pos + wprev.length + 1 + w1.length)]) r (by simpa using hna) (by simp) hend
  have := repE_step hk hv w1 first s wprev acc _ _ hna hfirst h' hf hr
  have e : adv s (wprev.length + 1 + (Elems.cons w1 v w2 rest).coreText.length)
      = adv (adv s (wprev.length + 1 + w1.length + v.text.length)) (w2.length + 1 + rest.coreText.length) := by
    rw [adv_adv]; exact adv_congr s (by simp [Elems.coreText]; omega)
  rw [e]
  simpa [Elems.mirror, vPair, Nat.add_assoc, List.append_assoc] using this

/-! ### arrays -/

/-- the second alternative of `array` on a non-empty array -/
def ElemsOk (g : Grammar) (inp : Input) (fl : Flavour) (es : Elems) : Prop :=
  ∀ (s : S0) (r : Str), s.atomic = false → RestAt inp s.pos (91 :: (es.text ++ 93 :: r)) →
    Ev g inp (.seq [(.str [91]), (.ident "value" none), (.rep commaValue), (.str [93])]) s
      (.ok (adv s (es.text.length + 2)) (es.mirror fl (s.pos + 1)))

theorem elemsOk_one {fl : Flavour} (hk : CoreRules g inp fl) {v : Val} (hv : ValOk g inp fl v) (w1 w2 : Ws) :
    ElemsOk g inp fl (.one w1 v w2) := by
  intro s r hna h
  obtain ⟨c, t, hc, hst⟩ := val_text_start v
  have h' : RestAt inp s.pos (91 :: (wsText w1 ++ (v.text ++ (wsText w2 ++ 93 :: r)))) := by
    simpa [Elems.text, List.append_assoc] using h
  have h1 := ev_str1_ok (g := g) h'
  have hsk1 := evSkip_ws hk.ws (s := adv s 1) (by simpa using hna) w1 (by simpa using h'.tail)
    (by rw [hc]; exact hst.not_ws)
  have hr2 : RestAt inp (adv (adv s 1) w1.length).pos (v.text ++ (wsText w2 ++ 93 :: r)) := by
    have := (h'.tail).advance; simpa [Nat.add_assoc] using this
  have h2 := hv _ _ (by simpa using hna) hr2 (follow_ws_then (Or.inr (Or.inl rfl)))
  have hr3 : RestAt inp (adv (adv (adv s 1) w1.length) v.text.length).pos (wsText w2 ++ 93 :: r) := by
    have := hr2.advance; simpa [Nat.add_assoc] using this
  have hsk2 := evSkip_ws hk.ws (by simpa using hna) w2 hr3 (show ¬ IsWs 93 from not_ws_struct (Or.inr (Or.inl rfl)))
  have hr4 : RestAt inp (adv (adv (adv (adv s 1) w1.length) v.text.length) w2.length).pos (93 :: r) := by
    have := hr3.advance; simpa [Nat.add_assoc] using this
  have h3 : Ev g inp (.rep commaValue) (adv (adv (adv (adv s 1) w1.length) v.text.length) w2.length)
      (.ok (adv (adv (adv (adv s 1) w1.length) v.text.length) w2.length) []) :=
    ev_rep (evRep_first_stop (ev_commaValue_fail hr4 (by decide)))
  have hsk3 : EvSkip g inp (adv (adv (adv (adv s 1) w1.length) v.text.length) w2.length)
      (adv (adv (adv (adv s 1) w1.length) v.text.length) w2.length) [] := by
    have := evSkip_ws hk.ws (s := adv (adv (adv (adv s 1) w1.length) v.text.length) w2.length)
      (by simpa using hna) [] (r := 93 :: r) (by simpa [wsText] using hr4)
      (show ¬ IsWs 93 from not_ws_struct (Or.inr (Or.inl rfl)))
    simpa [adv_zero] using this
  have h4 := ev_str1_ok (g := g) hr4
  have := ev_seq (evSeq_cons h1 hsk1 (evSeq_cons h2 hsk2 (evSeq_cons h3 hsk3 (evSeq_last h4))))
  have e : adv s ((Elems.one w1 v w2).text.length + 2)
      = adv (adv (adv (adv (adv s 1) w1.length) v.text.length) w2.length) 1 := by
    simp only [adv_adv]; exact adv_congr s (by simp [Elems.text]; omega)
  rw [e]
  simpa [Elems.mirror, vPair, Nat.add_assoc] using this

theorem elemsOk_cons {fl : Flavour} (hk : CoreRules g inp fl) {v : Val} (hv : ValOk g inp fl v) (w1 w2 : Ws) {rest : Elems}
    (hrest : RepOkE g inp fl rest) : ElemsOk g inp fl (.cons w1 v w2 rest) := by
  intro s r hna h
  obtain ⟨c, t, hc, hst⟩ := val_text_start v
  have h' : RestAt inp s.pos
      (91 :: (wsText w1 ++ (v.text ++ (wsText w2 ++ 44 :: (rest.text ++ 93 :: r))))) := by
    simpa [Elems.text, List.append_assoc] using h
  have h1 := ev_str1_ok (g := g) h'
  have hsk1 := evSkip_ws hk.ws (s := adv s 1) (by simpa using hna) w1 (by simpa using h'.tail)
    (by rw [hc]; exact hst.not_ws)
  have hr2 : RestAt inp (adv (adv s 1) w1.length).pos (v.text ++ (wsText w2 ++ 44 :: (rest.text ++ 93 :: r))) := by
    have := (h'.tail).advance; simpa [Nat.add_assoc] using this
  have h2 := hv _ _ (by simpa using hna) hr2 (follow_ws_then (Or.inl rfl))
  have hr3 : RestAt inp (adv (adv (adv s 1) w1.length) v.text.length).pos
      (wsText w2 ++ 44 :: (rest.text ++ 93 :: r)) := by
    have := hr2.advance; simpa [Nat.add_assoc] using this
  have hsk2 := evSkip_ws hk.ws (by simpa using hna) w2 hr3 (show ¬ IsWs 44 from not_ws_struct (Or.inl rfl))
  -- the loop, entered at the comma
  let s4 := adv (adv (adv (adv s 1) w1.length) v.text.length) w2.length
  have hr4 : RestAt inp s4.pos (wsText ([] : Ws) ++ 44 :: (rest.text ++ 93 :: r)) := by
    have := hr3.advance; simpa [s4, wsText, Nat.add_assoc] using this
  have h3 := ev_rep (hrest true s4 [] [] r (by simpa [s4] using hna) (fun _ => rfl) hr4)
  -- after the last value: its trailing whitespace, then `]`
  let s5 := adv s4 (([] : Ws).length + 1 + rest.coreText.length)
  have hr5 : RestAt inp s5.pos (wsText rest.lastW ++ 93 :: r) := by
    have h44 : RestAt inp s4.pos (44 :: (rest.coreText ++ (wsText rest.lastW ++ 93 :: r))) := by
      have := hr4
      rw [Elems.text_split rest] at this
      simpa [wsText, List.append_assoc] using this
    have := (h44.tail).advance
    simpa [s5, Nat.add_assoc, Nat.add_comm 1] using this
  have hsk3 := evSkip_ws hk.ws (s := s5) (by simpa [s5, s4] using hna) rest.lastW hr5
    (show ¬ IsWs 93 from not_ws_struct (Or.inr (Or.inl rfl)))
  have hr6 : RestAt inp (adv s5 rest.lastW.length).pos (93 :: r) := by
    have := hr5.advance; simpa using this
  have h4 := ev_str1_ok (g := g) hr6
  have := ev_seq (evSeq_cons h1 hsk1 (evSeq_cons h2 hsk2 (evSeq_cons h3 hsk3 (evSeq_last h4))))
  have e : adv s ((Elems.cons w1 v w2 rest).text.length + 2) = adv (adv s5 rest.lastW.length) 1 := by
    simp only [s5, s4, adv_adv]
    exact adv_congr s (by
      have := congrArg List.length (Elems.text_split rest)
      simp [Elems.text] at this ⊢; omega)
  rw [e]
  simpa [Elems.mirror, vPair, s4, s5, Nat.add_assoc] using this

/-- `array` on a non-empty array, given its elements -/
theorem ev_array_nonempty (hg : ExDocRules g) {es : Elems} (hes : ElemsOk g inp .examples es) {s : S0} {r : Str}
    (hna : s.atomic = false) (h : RestAt inp s.pos ((Val.arr es).text ++ r)) :
    Ev g inp (.ident "array" none) s (.ok (adv s (Val.arr es).text.length) [exPair (.arr es) s.pos]) := by
  have h' : RestAt inp s.pos (91 :: (es.text ++ 93 :: r)) := by simpa [Val.text, List.append_assoc] using h
  -- the first alternative `"[" ~ "]"` fails: after the whitespace comes a value, not `]`
  have hfirst : ∃ w1 c t, es.text = wsText w1 ++ c :: t ∧ ValStart c := by
    cases es with
    | one w1 v w2 =>
      obtain ⟨c, t, hc, hst⟩ := val_text_start v
      exact ⟨w1, c, t ++ wsText w2, by simp [Elems.text, hc], hst⟩
    | cons w1 v w2 rest =>
      obtain ⟨c, t, hc, hst⟩ := val_text_start v
      exact ⟨w1, c, t ++ wsText w2 ++ 44 :: rest.text, by simp [Elems.text, hc], hst⟩
  obtain ⟨w1, c, t, hes1, hst⟩ := hfirst
  have ha : RestAt inp s.pos (91 :: (wsText w1 ++ c :: (t ++ 93 :: r))) := by
    rw [hes1] at h'; simpa [List.append_assoc] using h'
  have h1 := ev_str1_ok (g := g) ha
  have hsk := evSkip_ws hg.ws (s := adv s 1) (by simpa using hna) w1 (r := c :: (t ++ 93 :: r))
    (by simpa using ha.tail) hst.not_ws
  have hc93 : c ≠ 93 := by
    intro e; subst e
    unfold ValStart IsDigit at hst
    rcases hst with h | h | h | h | h | h | h | h <;> revert h <;> (unfold CP; decide)
  have hr2 : RestAt inp (adv (adv s 1) w1.length).pos (c :: (t ++ 93 :: r)) := by
    have := (ha.tail).advance; simpa [Nat.add_assoc] using this
  have alt1 : Ev g inp (.seq [(.str [91]), (.str [93])]) s .fail :=
    ev_seq (evSeq_cons h1 hsk (evSeq_fail (ev_lit_fail hr2 hc93)))
  have hb : Ev g inp exArrayBody s (.ok (adv s (es.text.length + 2)) (es.mirror .examples (s.pos + 1))) :=
    ev_choice_next alt1 (ev_choice_ok (hes s r hna h'))
  have := ev_plain_ok (s := s) hg.array (by decide) hb (by simpa using rfl)
  have e : (Val.arr es).text.length = es.text.length + 2 := by simp [Val.text]
  rw [e]
  simpa [exPair, Val.mirror, wrapValue, mkPair, Nat.add_assoc] using this

theorem ev_array_empty (hg : ExDocRules g) (w : Ws) {s : S0} {r : Str}
    (hna : s.atomic = false) (h : RestAt inp s.pos ((Val.arr0 w).text ++ r)) :
    Ev g inp (.ident "array" none) s (.ok (adv s (Val.arr0 w).text.length) [exPair (.arr0 w) s.pos]) := by
  have h' : RestAt inp s.pos (91 :: (wsText w ++ 93 :: r)) := by simpa [Val.text, List.append_assoc] using h
  have h1 := ev_str1_ok (g := g) h'
  have hsk := evSkip_ws hg.ws (s := adv s 1) (by simpa using hna) w (r := 93 :: r) (by simpa using h'.tail)
    (show ¬ IsWs 93 from not_ws_struct (Or.inr (Or.inl rfl)))
  have hr2 : RestAt inp (adv (adv s 1) w.length).pos (93 :: r) := by
    have := (h'.tail).advance; simpa [Nat.add_assoc] using this
  have h2 := ev_str1_ok (g := g) hr2
  have hb : Ev g inp exArrayBody s (.ok (adv (adv (adv s 1) w.length) 1) []) :=
    ev_choice_ok (by simpa using ev_seq (evSeq_cons h1 hsk (evSeq_last h2)))
  have := ev_plain_ok (s := s) hg.array (by decide) hb (by simp)
  have e : adv s (Val.arr0 w).text.length = adv (adv (adv s 1) w.length) 1 := by
    simp only [adv_adv]; exact adv_congr s (by simp [Val.text]; omega)
  rw [e]
  simpa [exPair, Val.mirror, wrapValue, mkPair, Nat.add_assoc, Nat.add_comm 1] using this

/-- an array as a `value`: `object` fails on `[` -/
theorem ev_value_of_array (hg : ExDocRules g) {s s' : S0} {ps : List Pair} {r : Str}
    (h : RestAt inp s.pos (91 :: r)) (ha : Ev g inp (.ident "array" none) s (.ok s' ps))
    (hat : s'.atomic = s.atomic) : Ev g inp (.ident "value" none) s (.ok s' ps) :=
  ev_value_of_body hg (ev_choice_next (ev_object_fail hg h (by decide)) (ev_choice_ok ha)) hat

/-! ### members of an object -/

/-- the text of one member after its leading whitespace: `string ws ":" ws value` -/
def memberText (k : SStr) (w2 w3 : Ws) (v : Val) : Str :=
  strText k ++ (wsText w2 ++ 58 :: (wsText w3 ++ v.text))

/-- the pair of a member whose name starts at `p` -/
def memberPair (fl : Flavour) (p : Nat) (k : SStr) (w2 w3 : Ws) (v : Val) : Pair :=
  mkPair "pair" 0 p (p + (memberText k w2 w3 v).length)
    [mirrorStr fl p k, vPair fl v (p + (strText k).length + w2.length + 1 + w3.length)]

theorem memberText_length (k : SStr) (w2 w3 : Ws) (v : Val) :
    (memberText k w2 w3 v).length = (strText k).length + w2.length + 1 + w3.length + v.text.length := by
  simp [memberText]; omega

/-- `pair = { string ~ ":" ~ value }` -/
theorem ev_pair {fl : Flavour} (hk : CoreRules g inp fl) {v : Val} (hv : ValOk g inp fl v) (k : SStr) (w2 w3 : Ws) {s : S0}
    (hna : s.atomic = false) {r : Str} (h : RestAt inp s.pos (memberText k w2 w3 v ++ r))
    (hf : HeadIs ValFollow r) :
    Ev g inp (.ident "pair" none) s
      (.ok (adv s (memberText k w2 w3 v).length) [memberPair fl s.pos k w2 w3 v]) := by
  obtain ⟨c, t, hc, hst⟩ := val_text_start v
  have h' : RestAt inp s.pos (strText k ++ (wsText w2 ++ 58 :: (wsText w3 ++ (v.text ++ r)))) := by
    simpa [memberText, List.append_assoc] using h
  have h1 := hk.str s k _ h'
  have hr1 : RestAt inp (adv s (strText k).length).pos (wsText w2 ++ 58 :: (wsText w3 ++ (v.text ++ r))) := by
    simpa using h'.advance
  have hsk1 := evSkip_ws hk.ws (s := adv s (strText k).length) (by simpa using hna) w2 hr1
    (show ¬ IsWs 58 from not_ws_struct (Or.inr (Or.inr (Or.inr rfl))))
  have hr2 : RestAt inp (adv (adv s (strText k).length) w2.length).pos (58 :: (wsText w3 ++ (v.text ++ r))) := by
    have := hr1.advance; simpa using this
  have h2 := ev_str1_ok (g := g) hr2
  have hsk2 := evSkip_ws hk.ws (s := adv (adv (adv s (strText k).length) w2.length) 1) (by simpa using hna) w3
    (r := v.text ++ r) (by simpa using hr2.tail) (by rw [hc]; exact hst.not_ws)
  have hr3 : RestAt inp (adv (adv (adv (adv s (strText k).length) w2.length) 1) w3.length).pos (v.text ++ r) := by
    have := (hr2.tail).advance; simpa [Nat.add_assoc] using this
  have h3 := hv _ _ (by simpa using hna) hr3 hf
  have hb := ev_seq (evSeq_cons h1 hsk1 (evSeq_cons h2 hsk2 (evSeq_last h3)))
  have := ev_plain_ok (s := s) hk.pair (by decide) hb (by simp)
  have e : adv s (memberText k w2 w3 v).length
      = adv (adv (adv (adv (adv s (strText k).length) w2.length) 1) w3.length) v.text.length := by
    simp only [adv_adv]; exact adv_congr s (by rw [memberText_length])
  rw [e]
  simpa [memberPair, mkPair, memberText_length, vPair, Nat.add_assoc] using this

theorem ev_pair_fail {fl : Flavour} (hk : CoreRules g inp fl) {s : S0} {c : CP} {r : Str} (h : RestAt inp s.pos (c :: r))
    (hc : c ≠ 34) : Ev g inp (.ident "pair" none) s .fail :=
  ev_plain_fail hk.pair (Or.inl rfl) (by decide) (ev_seq (evSeq_fail (hk.strFail _ _ _ h hc)))

/-- `"," ~ pair` -/
theorem ev_commaPair {fl : Flavour} (hk : CoreRules g inp fl) {v : Val} (hv : ValOk g inp fl v) (w1 : Ws) (k : SStr) (w2 w3 : Ws)
    {s : S0} (hna : s.atomic = false) {r : Str}
    (h : RestAt inp s.pos (44 :: (wsText w1 ++ (memberText k w2 w3 v ++ r)))) (hf : HeadIs ValFollow r) :
    Ev g inp commaPair s
      (.ok (adv s (1 + w1.length + (memberText k w2 w3 v).length))
        [memberPair fl (s.pos + 1 + w1.length) k w2 w3 v]) := by
  have h1 := ev_str1_ok (g := g) h
  have hsk := evSkip_ws hk.ws (s := adv s 1) (by simpa using hna) w1
    (r := memberText k w2 w3 v ++ r) (by simpa using h.tail)
    (show ¬ IsWs 34 by unfold IsWs; decide)
  have hr2 : RestAt inp (adv (adv s 1) w1.length).pos (memberText k w2 w3 v ++ r) := by
    have := (h.tail).advance; simpa [Nat.add_assoc] using this
  have h2 := ev_pair hk hv k w2 w3 (s := adv (adv s 1) w1.length) (by simpa using hna) hr2 hf
  have := ev_group (t := none) (ev_seq (evSeq_cons h1 hsk (evSeq_last h2)))
  simpa [commaPair, adv_adv, Nat.add_assoc] using this

theorem ev_commaPair_fail {s : S0} {c : CP} {r : Str} (h : RestAt inp s.pos (c :: r)) (hc : c ≠ 44) :
    Ev g inp commaPair s .fail :=
  ev_group (ev_seq (evSeq_fail (ev_lit_fail h hc)))

def Members.coreText : Members → Str
  | .one w1 k w2 w3 v _ => wsText w1 ++ memberText k w2 w3 v
  | .cons w1 k w2 w3 v w4 rest => wsText w1 ++ memberText k w2 w3 v ++ wsText w4 ++ 44 :: rest.coreText

def Members.lastW : Members → Ws
  | .one _ _ _ _ _ w4 => w4
  | .cons _ _ _ _ _ _ rest => rest.lastW

theorem Members.text_one (w1 : Ws) (k : SStr) (w2 w3 : Ws) (v : Val) (w4 : Ws) :
    (Members.one w1 k w2 w3 v w4).text = wsText w1 ++ (memberText k w2 w3 v ++ wsText w4) := by
  simp [Members.text, memberText, List.append_assoc]

theorem Members.text_cons (w1 : Ws) (k : SStr) (w2 w3 : Ws) (v : Val) (w4 : Ws) (rest : Members) :
    (Members.cons w1 k w2 w3 v w4 rest).text
      = wsText w1 ++ (memberText k w2 w3 v ++ (wsText w4 ++ 44 :: rest.text)) := by
  simp [Members.text, memberText, List.append_assoc]

theorem Members.text_split : ∀ ms : Members, ms.text = ms.coreText ++ wsText ms.lastW
  | .one w1 k w2 w3 v w4 => by simp [Members.text_one, Members.coreText, Members.lastW, List.append_assoc]
  | .cons w1 k w2 w3 v w4 rest => by
    simp [Members.text_cons, Members.coreText, Members.lastW, Members.text_split rest, List.append_assoc]

theorem Members.mirror_one (fl : Flavour) (p : Nat) (w1 : Ws) (k : SStr) (w2 w3 : Ws) (v : Val) (w4 : Ws) :
    (Members.one w1 k w2 w3 v w4).mirror fl p = [memberPair fl (p + w1.length) k w2 w3 v] := by
  simp [Members.mirror, memberPair, memberText_length, vPair, Nat.add_assoc]

theorem Members.mirror_cons (fl : Flavour) (p : Nat) (w1 : Ws) (k : SStr) (w2 w3 : Ws) (v : Val) (w4 : Ws) (rest : Members) :
    (Members.cons w1 k w2 w3 v w4 rest).mirror fl p
      = memberPair fl (p + w1.length) k w2 w3 v
        :: rest.mirror fl (p + w1.length + (memberText k w2 w3 v).length + w4.length + 1) := by
  simp [Members.mirror, memberPair, memberText_length, vPair, Nat.add_assoc]

/-- the loop `("," ~ pair)*` over the members `ms` that follow a comma -/
def RepOkM (g : Grammar) (inp : Input) (fl : Flavour) (ms : Members) : Prop :=
  ∀ (first : Bool) (s : S0) (wprev : Ws) (acc : List Pair) (r : Str),
    s.atomic = false → (first = true → wprev = []) →
    RestAt inp s.pos (wsText wprev ++ 44 :: (ms.text ++ 125 :: r)) →
    EvRep g inp commaPair first s acc
      (.ok (adv s (wprev.length + 1 + ms.coreText.length))
        (acc ++ ms.mirror fl (s.pos + wprev.length + 1)))

theorem repM_step {fl : Flavour} (hk : CoreRules g inp fl) {v : Val} (hv : ValOk g inp fl v) (w1 : Ws) (k : SStr) (w2 w3 : Ws)
    (first : Bool) (s : S0) (wprev : Ws) (acc : List Pair) (r' : Str) (res : R0)
    (hna : s.atomic = false) (hfirst : first = true → wprev = [])
    (h : RestAt inp s.pos (wsText wprev ++ 44 :: (wsText w1 ++ (memberText k w2 w3 v ++ r'))))
    (hf : HeadIs ValFollow r')
    (hrest : EvRep g inp commaPair false (adv s (wprev.length + 1 + w1.length + (memberText k w2 w3 v).length))
      (acc ++ [memberPair fl (s.pos + wprev.length + 1 + w1.length) k w2 w3 v]) res) :
    EvRep g inp commaPair first s acc res := by
  have hsk := evSkip_ws hk.ws hna wprev h (show ¬ IsWs 44 from not_ws_struct (Or.inl rfl))
  have hr1 : RestAt inp (adv s wprev.length).pos (44 :: (wsText w1 ++ (memberText k w2 w3 v ++ r'))) := by
    simpa using h.advance
  have hit := ev_commaPair hk hv w1 k w2 w3 (s := adv s wprev.length) (by simpa using hna) hr1 hf
  have hrest' : EvRep g inp commaPair false
      (adv (adv s wprev.length) (1 + w1.length + (memberText k w2 w3 v).length))
      (acc ++ [] ++ [memberPair fl ((adv s wprev.length).pos + 1 + w1.length) k w2 w3 v]) res := by
    have e : adv (adv s wprev.length) (1 + w1.length + (memberText k w2 w3 v).length)
        = adv s (wprev.length + 1 + w1.length + (memberText k w2 w3 v).length) := by
      rw [adv_adv]; exact adv_congr s (by omega)
    rw [e]
    simpa [Nat.add_assoc] using hrest
  cases first with
  | false => exact evRep_more hsk hit hrest'
  | true =>
    have hw := hfirst rfl
    subst hw
    have hit0 : Ev g inp commaPair s
        (.ok (adv (adv s ([] : Ws).length) (1 + w1.length + (memberText k w2 w3 v).length))
          [memberPair fl ((adv s ([] : Ws).length).pos + 1 + w1.length) k w2 w3 v]) := by
      simpa [adv_zero] using hit
    exact evRep_first_more hit0 (by simpa using hrest')

theorem repOkM_one {fl : Flavour} (hk : CoreRules g inp fl) {v : Val} (hv : ValOk g inp fl v) (w1 : Ws) (k : SStr) (w2 w3 w4 : Ws) :
    RepOkM g inp fl (.one w1 k w2 w3 v w4) := by
  intro first s wprev acc r hna hfirst h
  have h' : RestAt inp s.pos
      (wsText wprev ++ 44 :: (wsText w1 ++ (memberText k w2 w3 v ++ (wsText w4 ++ 125 :: r)))) := by
    simpa [Members.text_one, List.append_assoc] using h
  have hf : HeadIs ValFollow (wsText w4 ++ 125 :: r) := follow_ws_then (Or.inr (Or.inr rfl))
  have hend : RestAt inp (adv s (wprev.length + 1 + w1.length + (memberText k w2 w3 v).length)).pos
      (wsText w4 ++ 125 :: r) := by
    have := ((h'.advance).tail.advance).advance
    simpa [Nat.add_assoc] using this
  have hstop : EvRep g inp commaPair false (adv s (wprev.length + 1 + w1.length + (memberText k w2 w3 v).length))
      (acc ++ [memberPair fl (s.pos + wprev.length + 1 + w1.length) k w2 w3 v])
      (.ok (adv s (wprev.length + 1 + w1.length + (memberText k w2 w3 v).length))
        (acc ++ [memberPair fl (s.pos + wprev.length + 1 + w1.length) k w2 w3 v])) :=
    evRep_stop (evSkip_ws hk.ws (by simpa using hna) w4 hend
        (show ¬ IsWs 125 from not_ws_struct (Or.inr (Or.inr (Or.inl rfl)))))
      (ev_commaPair_fail (by simpa using hend.advance) (by decide))
  have := repM_step hk hv w1 k w2 w3 first s wprev acc _ _ hna hfirst h' hf hstop
  have e : adv s (wprev.length + 1 + (Members.one w1 k w2 w3 v w4).coreText.length)
      = adv s (wprev.length + 1 + w1.length + (memberText k w2 w3 v).length) :=
    adv_congr s (by simp [Members.coreText]; omega)
  rw [e, Members.mirror_one]
  simpa [Nat.add_assoc] using this

theorem repOkM_cons {fl : Flavour} (hk : CoreRules g inp fl) {v : Val} (hv : ValOk g inp fl v) (w1 : Ws) (k : SStr) (w2 w3 w4 : Ws)
    {rest : Members} (hrest : RepOkM g inp fl rest) : RepOkM g inp fl (.cons w1 k w2 w3 v w4 rest) := by
  intro first s wprev acc r hna hfirst h
  have h' : RestAt inp s.pos (wsText wprev ++ 44 :: (wsText w1 ++ (memberText k w2 w3 v ++
      (wsText w4 ++ 44 :: (rest.text ++ 125 :: r))))) := by
    simpa [Members.text_cons, List.append_assoc] using h
  have hf : HeadIs ValFollow (wsText w4 ++ 44 :: (rest.text ++ 125 :: r)) := follow_ws_then (Or.inl rfl)
  have hend : RestAt inp (adv s (wprev.length + 1 + w1.length + (memberText k w2 w3 v).length)).pos
      (wsText w4 ++ 44 :: (rest.text ++ 125 :: r)) := by
    have := ((h'.advance).tail.advance).advance
    simpa [Nat.add_assoc] using this
  have hr := hrest false (adv s (wprev.length + 1 + w1.length + (memberText k w2 w3 v).length)) w4
    (acc ++ [memberPair fl (s.pos + wprev.length + 1 + w1.length) k w2 w3 v]) r (by simpa using hna) (by simp) hend
  have := repM_step hk hv w1 k w2 w3 first s wprev acc _ _ hna hfirst h' hf hr
  have e : adv s (wprev.length + 1 + (Members.cons w1 k w2 w3 v w4 rest).coreText.length)
      = adv (adv s (wprev.length + 1 + w1.length + (memberText k w2 w3 v).length))
          (w4.length + 1 + rest.coreText.length) := by
    rw [adv_adv]; exact adv_congr s (by simp [Members.coreText]; omega)
  rw [e, Members.mirror_cons]
  simpa [Nat.add_assoc, List.append_assoc] using this

/-! ### objects -/

/-- the second alternative of `object` on a non-empty object -/
def MembersOk (g : Grammar) (inp : Input) (fl : Flavour) (ms : Members) : Prop :=
  ∀ (s : S0) (r : Str), s.atomic = false → RestAt inp s.pos (123 :: (ms.text ++ 125 :: r)) →
    Ev g inp (.seq [(.str [123]), (.ident "pair" none), (.rep commaPair), (.str [125])]) s
      (.ok (adv s (ms.text.length + 2)) (ms.mirror fl (s.pos + 1)))

theorem membersOk_one {fl : Flavour} (hk : CoreRules g inp fl) {v : Val} (hv : ValOk g inp fl v) (w1 : Ws) (k : SStr) (w2 w3 w4 : Ws) :
    MembersOk g inp fl (.one w1 k w2 w3 v w4) := by
  intro s r hna h
  have h' : RestAt inp s.pos (123 :: (wsText w1 ++ (memberText k w2 w3 v ++ (wsText w4 ++ 125 :: r)))) := by
    simpa [Members.text_one, List.append_assoc] using h
  have h1 := ev_str1_ok (g := g) h'
  have hsk1 := evSkip_ws hk.ws (s := adv s 1) (by simpa using hna) w1
    (r := memberText k w2 w3 v ++ (wsText w4 ++ 125 :: r)) (by simpa using h'.tail)
    (show ¬ IsWs 34 by unfold IsWs; decide)
  have hr2 : RestAt inp (adv (adv s 1) w1.length).pos (memberText k w2 w3 v ++ (wsText w4 ++ 125 :: r)) := by
    have := (h'.tail).advance; simpa [Nat.add_assoc] using this
  have h2 := ev_pair hk hv k w2 w3 (by simpa using hna) hr2 (follow_ws_then (Or.inr (Or.inr rfl)))
  have hr3 : RestAt inp (adv (adv (adv s 1) w1.length) (memberText k w2 w3 v).length).pos
      (wsText w4 ++ 125 :: r) := by
    have := hr2.advance; simpa [Nat.add_assoc] using this
  have hsk2 := evSkip_ws hk.ws (by simpa using hna) w4 hr3
    (show ¬ IsWs 125 from not_ws_struct (Or.inr (Or.inr (Or.inl rfl))))
  let s4 := adv (adv (adv (adv s 1) w1.length) (memberText k w2 w3 v).length) w4.length
  have hr4 : RestAt inp s4.pos (125 :: r) := by
    have := hr3.advance; simpa [s4, Nat.add_assoc] using this
  have h3 : Ev g inp (.rep commaPair) s4 (.ok s4 []) :=
    ev_rep (evRep_first_stop (ev_commaPair_fail hr4 (by decide)))
  have hsk3 : EvSkip g inp s4 s4 [] := by
    have := evSkip_ws hk.ws (s := s4) (by simpa [s4] using hna) [] (r := 125 :: r) (by simpa [wsText] using hr4)
      (show ¬ IsWs 125 from not_ws_struct (Or.inr (Or.inr (Or.inl rfl))))
    simpa [adv_zero] using this
  have h4 := ev_str1_ok (g := g) hr4
  have := ev_seq (evSeq_cons h1 hsk1 (evSeq_cons h2 hsk2 (evSeq_cons h3 hsk3 (evSeq_last h4))))
  have e : adv s ((Members.one w1 k w2 w3 v w4).text.length + 2) = adv s4 1 := by
    simp only [s4, adv_adv]; exact adv_congr s (by simp [Members.text_one]; omega)
  rw [e, Members.mirror_one]
  simpa [s4, Nat.add_assoc] using this

theorem membersOk_cons {fl : Flavour} (hk : CoreRules g inp fl) {v : Val} (hv : ValOk g inp fl v) (w1 : Ws) (k : SStr) (w2 w3 w4 : Ws)
    {rest : Members} (hrest : RepOkM g inp fl rest) : MembersOk g inp fl (.cons w1 k w2 w3 v w4 rest) := by
  intro s r hna h
  have h' : RestAt inp s.pos (123 :: (wsText w1 ++ (memberText k w2 w3 v ++
      (wsText w4 ++ 44 :: (rest.text ++ 125 :: r))))) := by
    simpa [Members.text_cons, List.append_assoc] using h
  have h1 := ev_str1_ok (g := g) h'
  have hsk1 := evSkip_ws hk.ws (s := adv s 1) (by simpa using hna) w1
    (r := memberText k w2 w3 v ++ (wsText w4 ++ 44 :: (rest.text ++ 125 :: r))) (by simpa using h'.tail)
    (show ¬ IsWs 34 by unfold IsWs; decide)
  have hr2 : RestAt inp (adv (adv s 1) w1.length).pos
      (memberText k w2 w3 v ++ (wsText w4 ++ 44 :: (rest.text ++ 125 :: r))) := by
    have := (h'.tail).advance; simpa [Nat.add_assoc] using this
  have h2 := ev_pair hk hv k w2 w3 (by simpa using hna) hr2 (follow_ws_then (Or.inl rfl))
  have hr3 : RestAt inp (adv (adv (adv s 1) w1.length) (memberText k w2 w3 v).length).pos
      (wsText w4 ++ 44 :: (rest.text ++ 125 :: r)) := by
    have := hr2.advance; simpa [Nat.add_assoc] using this
  have hsk2 := evSkip_ws hk.ws (by simpa using hna) w4 hr3 (show ¬ IsWs 44 from not_ws_struct (Or.inl rfl))
  let s4 := adv (adv (adv (adv s 1) w1.length) (memberText k w2 w3 v).length) w4.length
  have hr4 : RestAt inp s4.pos (wsText ([] : Ws) ++ 44 :: (rest.text ++ 125 :: r)) := by
    have := hr3.advance; simpa [s4, wsText, Nat.add_assoc] using this
  have h3 := ev_rep (hrest true s4 [] [] r (by simpa [s4] using hna) (fun _ => rfl) hr4)
  let s5 := adv s4 (([] : Ws).length + 1 + rest.coreText.length)
  have hr5 : RestAt inp s5.pos (wsText rest.lastW ++ 125 :: r) := by
    have h44 : RestAt inp s4.pos (44 :: (rest.coreText ++ (wsText rest.lastW ++ 125 :: r))) := by
      have := hr4
      rw [Members.text_split rest] at this
      simpa [wsText, List.append_assoc] using this
    have := (h44.tail).advance
    simpa [s5, Nat.add_assoc, Nat.add_comm 1] using this
  have hsk3 := evSkip_ws hk.ws (s := s5) (by simpa [s5, s4] using hna) rest.lastW hr5
    (show ¬ IsWs 125 from not_ws_struct (Or.inr (Or.inr (Or.inl rfl))))
  have hr6 : RestAt inp (adv s5 rest.lastW.length).pos (125 :: r) := by
    have := hr5.advance; simpa using this
  have h4 := ev_str1_ok (g := g) hr6
  have := ev_seq (evSeq_cons h1 hsk1 (evSeq_cons h2 hsk2 (evSeq_cons h3 hsk3 (evSeq_last h4))))
  have e : adv s ((Members.cons w1 k w2 w3 v w4 rest).text.length + 2) = adv (adv s5 rest.lastW.length) 1 := by
    simp only [s5, s4, adv_adv]
    exact adv_congr s (by
      have := congrArg List.length (Members.text_split rest)
      simp [Members.text_cons] at this ⊢; omega)
  rw [e, Members.mirror_cons]
  simpa [s4, s5, Nat.add_assoc] using this

theorem Members.text_start (ms : Members) : ∃ w1 t, ms.text = wsText w1 ++ 34 :: t := by
  cases ms with
  | one w1 k w2 w3 v w4 => exact ⟨w1, _, by simp [Members.text_one, memberText, strText]; rfl⟩
  | cons w1 k w2 w3 v w4 rest => exact ⟨w1, _, by simp [Members.text_cons, memberText, strText]; rfl⟩

/-- `object` on a non-empty object, given its members -/
theorem ev_object_nonempty (hg : ExDocRules g) {ms : Members} (hms : MembersOk g inp .examples ms) {s : S0} {r : Str}
    (hna : s.atomic = false) (h : RestAt inp s.pos ((Val.obj ms).text ++ r)) :
    Ev g inp (.ident "object" none) s (.ok (adv s (Val.obj ms).text.length) [exPair (.obj ms) s.pos]) := by
  have h' : RestAt inp s.pos (123 :: (ms.text ++ 125 :: r)) := by simpa [Val.text, List.append_assoc] using h
  obtain ⟨w1, t, hms1⟩ := Members.text_start ms
  have ha : RestAt inp s.pos (123 :: (wsText w1 ++ 34 :: (t ++ 125 :: r))) := by
    rw [hms1] at h'; simpa [List.append_assoc] using h'
  have h1 := ev_str1_ok (g := g) ha
  have hsk := evSkip_ws hg.ws (s := adv s 1) (by simpa using hna) w1 (r := 34 :: (t ++ 125 :: r))
    (by simpa using ha.tail) (show ¬ IsWs 34 by unfold IsWs; decide)
  have hr2 : RestAt inp (adv (adv s 1) w1.length).pos (34 :: (t ++ 125 :: r)) := by
    have := (ha.tail).advance; simpa [Nat.add_assoc] using this
  have alt1 : Ev g inp (.seq [(.str [123]), (.str [125])]) s .fail :=
    ev_seq (evSeq_cons h1 hsk (evSeq_fail (ev_lit_fail hr2 (by decide))))
  have hb : Ev g inp exObjectBody s (.ok (adv s (ms.text.length + 2)) (ms.mirror .examples (s.pos + 1))) :=
    ev_choice_next alt1 (ev_choice_ok (hms s r hna h'))
  have := ev_plain_ok (s := s) hg.object (by decide) hb (by simpa using rfl)
  have e : (Val.obj ms).text.length = ms.text.length + 2 := by simp [Val.text]
  rw [e]
  simpa [exPair, Val.mirror, wrapValue, mkPair, Nat.add_assoc] using this

theorem ev_object_empty (hg : ExDocRules g) (w : Ws) {s : S0} {r : Str}
    (hna : s.atomic = false) (h : RestAt inp s.pos ((Val.obj0 w).text ++ r)) :
    Ev g inp (.ident "object" none) s (.ok (adv s (Val.obj0 w).text.length) [exPair (.obj0 w) s.pos]) := by
  have h' : RestAt inp s.pos (123 :: (wsText w ++ 125 :: r)) := by simpa [Val.text, List.append_assoc] using h
  have h1 := ev_str1_ok (g := g) h'
  have hsk := evSkip_ws hg.ws (s := adv s 1) (by simpa using hna) w (r := 125 :: r) (by simpa using h'.tail)
    (show ¬ IsWs 125 from not_ws_struct (Or.inr (Or.inr (Or.inl rfl))))
  have hr2 : RestAt inp (adv (adv s 1) w.length).pos (125 :: r) := by
    have := (h'.tail).advance; simpa [Nat.add_assoc] using this
  have h2 := ev_str1_ok (g := g) hr2
  have hb : Ev g inp exObjectBody s (.ok (adv (adv (adv s 1) w.length) 1) []) :=
    ev_choice_ok (by simpa using ev_seq (evSeq_cons h1 hsk (evSeq_last h2)))
  have := ev_plain_ok (s := s) hg.object (by decide) hb (by simp)
  have e : adv s (Val.obj0 w).text.length = adv (adv (adv s 1) w.length) 1 := by
    simp only [adv_adv]; exact adv_congr s (by simp [Val.text]; omega)
  rw [e]
  simpa [exPair, Val.mirror, wrapValue, mkPair, Nat.add_assoc, Nat.add_comm 1] using this

/-! ### every value -/

mutual
/-- **stage 2**: every RFC 8259 value, as written, is accepted by `value` and yields its mirror -/
theorem val_ok (hg : ExDocRules g) : ∀ v : Val, ValOk g inp .examples v
  | .null => fun s r _ h _ => ev_value_null hg h
  | .tt => fun s r _ h _ => ev_value_true hg h
  | .ff => fun s r _ h _ => ev_value_false hg h
  | .num n => fun s r _ h hf => ev_value_num hg n h hf
  | .str cs => fun s r _ h _ => ev_value_str hg cs h
  | .arr0 w => fun s r hna h _ =>
    ev_value_of_array hg (r := wsText w ++ [93] ++ r) (by simpa [Val.text] using h) (ev_array_empty hg w hna h) (by simp)
  | .arr es => fun s r hna h _ =>
    ev_value_of_array hg (r := es.text ++ [93] ++ r) (by simpa [Val.text] using h)
      (ev_array_nonempty hg (elems_ok hg es).1 hna h) (by simp)
  | .obj0 w => fun s r hna h _ =>
    ev_value_of_body hg (ev_choice_ok (ev_object_empty hg w hna h)) (by simp)
  | .obj ms => fun s r hna h _ =>
    ev_value_of_body hg (ev_choice_ok (ev_object_nonempty hg (members_ok hg ms).1 hna h)) (by simp)
theorem elems_ok (hg : ExDocRules g) : ∀ es : Elems, ElemsOk g inp .examples es ∧ RepOkE g inp .examples es
  | .one w1 v w2 => ⟨elemsOk_one (exCore hg) (val_ok hg v) w1 w2, repOk_one (exCore hg) (val_ok hg v) w1 w2⟩
  | .cons w1 v w2 rest =>
    ⟨elemsOk_cons (exCore hg) (val_ok hg v) w1 w2 (elems_ok hg rest).2, repOk_cons (exCore hg) (val_ok hg v) w1 w2 (elems_ok hg rest).2⟩
theorem members_ok (hg : ExDocRules g) : ∀ ms : Members, MembersOk g inp .examples ms ∧ RepOkM g inp .examples ms
  | .one w1 k w2 w3 v w4 =>
    ⟨membersOk_one (exCore hg) (val_ok hg v) w1 k w2 w3 w4, repOkM_one (exCore hg) (val_ok hg v) w1 k w2 w3 w4⟩
  | .cons w1 k w2 w3 v w4 rest =>
    ⟨membersOk_cons (exCore hg) (val_ok hg v) w1 k w2 w3 w4 (members_ok hg rest).2,
      repOkM_cons (exCore hg) (val_ok hg v) w1 k w2 w3 w4 (members_ok hg rest).2⟩
end

/-! ### documents -/

theorem restAt_zero (t : Str) : RestAt t.toArray 0 t := by simp [RestAt]

/-- the body of `json = _{ SOI ~ (object | array) ~ EOI }` on a whole document -/
theorem ev_jsonBody (hg : ExDocRules g) (d : Doc) (hc : d.topLevelIsContainer) (hinp : inp = (render d).toArray) :
    Ev g inp exJsonBody ⟨0, [], false⟩ (.ok ⟨(render d).length, [], false⟩ (mirror .examples d)) := by
  subst hinp
  let s0 : S0 := ⟨0, [], false⟩
  have hr0 : RestAt (render d).toArray s0.pos (wsText d.w1 ++ (d.v.text ++ (wsText d.w2 ++ []))) := by
    have := restAt_zero (render d)
    simpa [render, s0, List.append_assoc] using this
  obtain ⟨c, t, hcv, hst⟩ := val_text_start d.v
  -- SOI
  have hsoi : Ev g (render d).toArray (.rule "SOI" 2 true .soiB) s0 (.ok s0 []) := by
    have := ev_rule_ok (g := g) (inp := (render d).toArray) (name := "SOI") (mod := 2) (sm := true) (body := .soiB)
      (s := s0) (ev_soi (s := { s0 with atomic := ruleAtomic "SOI" 2 s0.atomic }) rfl)
    simpa [silent_wrap, ruleAtomic, hasBit, ATOMIC, COMPOUND, NONATOMIC, L1.isTriviaName, s0] using this
  have hsk1 := evSkip_ws hg.ws (s := s0) rfl d.w1 hr0 (by rw [hcv]; exact hst.not_ws)
  have hr1 : RestAt (render d).toArray (adv s0 d.w1.length).pos (d.v.text ++ (wsText d.w2 ++ [])) := by
    simpa using hr0.advance
  -- the container
  have hval : Ev g (render d).toArray (.group (.choice [(.ident "object" none), (.ident "array" none)]) none)
      (adv s0 d.w1.length) (.ok (adv (adv s0 d.w1.length) d.v.text.length) [exPair d.v (adv s0 d.w1.length).pos]) := by
    apply ev_group
    have hna : (adv s0 d.w1.length).atomic = false := rfl
    cases hv : d.v with
    | null => simp [Doc.topLevelIsContainer, hv, Val.isContainer] at hc
    | tt => simp [Doc.topLevelIsContainer, hv, Val.isContainer] at hc
    | ff => simp [Doc.topLevelIsContainer, hv, Val.isContainer] at hc
    | num n => simp [Doc.topLevelIsContainer, hv, Val.isContainer] at hc
    | str cs => simp [Doc.topLevelIsContainer, hv, Val.isContainer] at hc
    | arr0 w =>
      rw [hv] at hr1
      have h91 : RestAt (render d).toArray (adv s0 d.w1.length).pos (91 :: (wsText w ++ [93] ++ (wsText d.w2 ++ []))) := by
        simpa [Val.text] using hr1
      exact ev_choice_next (ev_object_fail hg h91 (by decide)) (ev_choice_ok (ev_array_empty hg w hna hr1))
    | arr es =>
      rw [hv] at hr1
      have h91 : RestAt (render d).toArray (adv s0 d.w1.length).pos (91 :: (es.text ++ [93] ++ (wsText d.w2 ++ []))) := by
        simpa [Val.text] using hr1
      exact ev_choice_next (ev_object_fail hg h91 (by decide))
        (ev_choice_ok (ev_array_nonempty hg (elems_ok hg es).1 hna hr1))
    | obj0 w =>
      rw [hv] at hr1
      exact ev_choice_ok (ev_object_empty hg w hna hr1)
    | obj ms =>
      rw [hv] at hr1
      exact ev_choice_ok (ev_object_nonempty hg (members_ok hg ms).1 hna hr1)
  have hr2 : RestAt (render d).toArray (adv (adv s0 d.w1.length) d.v.text.length).pos (wsText d.w2 ++ []) := by
    have := hr1.advance; simpa using this
  have hsk2 := evSkip_ws hg.ws (s := adv (adv s0 d.w1.length) d.v.text.length) rfl d.w2 hr2 trivial
  -- EOI
  let s3 := adv (adv (adv s0 d.w1.length) d.v.text.length) d.w2.length
  have hpos : s3.pos = (render d).toArray.size := by
    simp [s3, s0, render]; omega
  have heoi := ev_plain_ok (s := s3) hg.eoi (by decide) (ev_eoi (g := g) hpos) rfl
  have := ev_seq (evSeq_cons hsoi hsk1 (evSeq_cons hval hsk2 (evSeq_last heoi)))
  have e : (⟨(render d).length, [], false⟩ : S0) = s3 := by
    simp [s3, s0, adv, render]; omega
  rw [e]
  have hrl : (render d).length = d.w1.length + d.v.text.length + d.w2.length := by
    simp [render]; omega
  simpa [exJsonBody, mirror, mkPair, exPair, hrl, s0, s3] using this

/-- **stage 3 (examples/json/json.pest)**: the specification run of `json` on a whole document -/
theorem parse_json_doc (hg : ExDocRules g) (d : Doc) (hc : d.topLevelIsContainer) :
    ∃ N, ∀ n, N ≤ n →
      L0.parse g (render d).toArray n "json" 0 = .ok ⟨(render d).length, [], false⟩ (mirror .examples d) := by
  obtain ⟨N, h⟩ := ev_jsonBody (g := g) hg d hc rfl
  refine ⟨N, fun n hn => ?_⟩
  have hra : ruleAtomic "json" 2 false = false := by
    simp [ruleAtomic, hasBit, ATOMIC, COMPOUND, NONATOMIC, L1.isTriviaName]
  simp [L0.parse, hg.json, ruleApply, hra, h n hn, silent_wrap]

end Json
end Pest
