/-
  Lemmas/OptSoundPass.lean — the passes of `Opt.lean` compute `TR`-related bodies.

  * `NodeOK`: the node-local well-formedness the rewrites rely on (true of every tree the front
    end builds); `Inv`: the invariant of the rule table during optimization.
  * `TR.allN`: rewriting preserves `NodeOK`.
  * `bottomUp_TR` / `topDown_TR`: the two traversals, for any node function with a sound root step.
  * `unroll_TR`, `inlineBuiltin_TR`, `inlineSilent_TR`.
-/
import PestModel.Lemmas.OptSoundSim
import PestModel.Lemmas.Refine
import PestModel.OptHyps

set_option linter.unusedVariables false

namespace Pest
namespace OptS

open L0

/-! ### well-formedness of nodes -/

/-- the body of an embedded rule object is not itself a rule object or a reference -/
def rootOK : Expr → Prop
  | .rule _ _ _ _ => False
  | .ident _ _ => False
  | _ => True

/-- node-local well-formedness, relative to the signature `sg` of the rule table.
    Embedded rule nodes are the built-in objects: they are silent (except `EOI`) and never atomic /
    non-atomic, their body is not directly another rule object or a reference; `ANY`'s body is
    `_Any`; a Unicode property rule carries its own name.  References: never to `ANY` by name (the
    front end embeds the built-in object); a reference to a silent rule is a reference to a rule
    whose modifier is `_` alone (the front end gives a rule one modifier; the fused `SKIP`, silent
    *and* atomic, is therefore never referenced).  A `Choice` has at least one alternative.  A
    range is not reversed (`Range.__init__` compiles `[a-b]`, which raises for `a > b`).  An
    `OptimizedChoice` (only the optimizer makes them) is not empty and not the repeating kind
    (that one is the body of `SKIP`). -/
def NodeOK (sg : String → Option (String × Nat)) : Expr → Prop
  | .rule n m sm b =>
    rootOK b ∧ hasBit m ATOMIC = false ∧ hasBit m COMPOUND = false ∧ hasBit m NONATOMIC = false ∧
    L1.isTriviaName n = false ∧ (n ≠ "EOI" → hasBit m SILENT = true) ∧ (n = "EOI" → b = .eoiB) ∧
    (∀ pn, b = .uprop pn → pn = n) ∧ (n = "ANY" → b = .anyB)
  | .ident n t =>
    n ≠ "ANY" ∧ (∀ nm md, sg n = some (nm, md) → hasBit md SILENT = true → plainSilent md)
  | .choice es => es ≠ []
  | .range a b => a ≤ b
  | .optChoice alts star => star = false ∧ alts ≠ [] ∧ ∀ a ∈ alts, AltOK a
  | _ => True

theorem AllNL.replicate {P : Expr → Prop} {e : Expr} (h : AllN P e) : ∀ n, AllNL P (List.replicate n e)
  | 0 => trivial
  | n + 1 => ⟨h, AllNL.replicate h n⟩

theorem AllNL.append {P : Expr → Prop} : ∀ {es es' : List Expr}, AllNL P es → AllNL P es' → AllNL P (es ++ es')
  | [], _, _, h => h
  | e :: es, _, h1, h2 => ⟨h1.1, AllNL.append h1.2 h2⟩

theorem AllNL.transfer {P Q : Expr → Prop} {es es' : List Expr} (hl : es.length = es'.length)
    (h : AllNL P es) (f : ∀ i (h1 : i < es.length) (h2 : i < es'.length), AllN P es[i] → AllN Q es'[i]) :
    AllNL Q es' :=
  AllNL.of_index fun i hi => f i (by omega) hi (AllNL.index h i (by omega))

variable {F : Feat} {G : Grammar} {sg : String → Option (String × Nat)}

/-- what a rewrite can do to the body of an embedded rule object -/
theorem TR.root_facts {a : Bool} {b b' : Expr} (h : TR F G a b b') (hr : rootOK b) :
    rootOK b' ∧ (∀ pn, b' = .uprop pn → b = .uprop pn) ∧ (b = .eoiB → b' = .eoiB) ∧ (b = .anyB → b' = .anyB) := by
  cases h with
  | term _ => exact ⟨hr, fun _ h => h, id, id⟩
  | ident => exact absurd hr id
  | rule => exact absurd hr id
  | ruleC _ _ => exact absurd hr id
  | inlB _ _ _ => exact absurd hr id
  | inlS _ _ _ _ => exact absurd hr id
  | skip _ hpat =>
    obtain ⟨_, _, _, _, _, he, _⟩ := hpat
    subst he
    exact ⟨trivial, (fun _ h => by cases h), (fun h => by cases h), (fun h => by cases h)⟩
  | _ => exact ⟨trivial, (fun _ h => by cases h), (fun h => by cases h), (fun h => by cases h)⟩

/-- rewriting preserves node well-formedness -/
theorem TR.allN {a : Bool} {e e' : Expr} (h : TR F G a e e')
    (hsig : ∀ n, sigOf G n = sg n)
    (hG : ∀ n r, G.lookup n = some r → hasBit r.mod ATOMIC = false → AllN (NodeOK sg) r.body) :
    AllN (NodeOK sg) e → AllN (NodeOK sg) e' := by
  induction h with
  | term _ => exact id
  | ident => exact id
  | rule => exact id
  | @ruleC n m sm b b' hra h1 ih =>
    intro h
    have hn : NodeOK sg (.rule n m sm b) := h.1
    simp only [NodeOK] at hn
    obtain ⟨h0, h2, h3, h4, h5, h6, h7, h8, h9⟩ := hn
    obtain ⟨r1, r2, r3, r4⟩ := h1.root_facts h0
    refine ⟨?_, ih h.2⟩
    show NodeOK sg (.rule n m sm b')
    simp only [NodeOK]
    exact ⟨r1, h2, h3, h4, h5, h6, fun hn => r3 (h7 hn), fun pn hb => h8 pn (r2 pn hb), fun hn => r4 (h9 hn)⟩
  | @seq es es' hl hh ih =>
    intro h
    simp only [AllN] at h ⊢
    exact ⟨trivial, AllNL.transfer hl h.2 ih⟩
  | @choice es es' hl hh ih =>
    intro h
    simp only [AllN] at h ⊢
    refine ⟨?_, AllNL.transfer hl h.2 ih⟩
    have := h.1
    simp only [NodeOK] at this ⊢
    intro h0; apply this; cases es <;> simp_all
  | opt _ ih => intro h; simp only [AllN] at h ⊢; exact ⟨trivial, ih h.2⟩
  | rep _ ih => intro h; simp only [AllN] at h ⊢; exact ⟨trivial, ih h.2⟩
  | rep1 _ ih => intro h; simp only [AllN] at h ⊢; exact ⟨trivial, ih h.2⟩
  | repExact _ ih => intro h; simp only [AllN] at h ⊢; exact ⟨trivial, ih h.2⟩
  | repMin _ ih => intro h; simp only [AllN] at h ⊢; exact ⟨trivial, ih h.2⟩
  | repMax _ ih => intro h; simp only [AllN] at h ⊢; exact ⟨trivial, ih h.2⟩
  | repMinMax _ ih => intro h; simp only [AllN] at h ⊢; exact ⟨trivial, ih h.2⟩
  | andP _ ih => intro h; simp only [AllN] at h ⊢; exact ⟨trivial, ih h.2⟩
  | notP _ ih => intro h; simp only [AllN] at h ⊢; exact ⟨trivial, ih h.2⟩
  | group _ ih => intro h; simp only [AllN] at h ⊢; exact ⟨trivial, ih h.2⟩
  | push _ ih => intro h; simp only [AllN] at h ⊢; exact ⟨trivial, ih h.2⟩
  | unroll1 _ ih =>
    intro h; simp only [AllN] at h
    have := ih h.2
    simp only [AllN, AllNL]
    exact ⟨trivial, this, ⟨trivial, this⟩, trivial⟩
  | unroll1g _ ih =>
    intro h; simp only [AllN] at h
    have := ih h.2
    simp only [AllN] at this
    simp only [AllN, AllNL]
    exact ⟨trivial, this.2, ⟨trivial, trivial, this.2⟩, trivial⟩
  | unrollExact _ ih =>
    intro h; simp only [AllN] at h
    exact ⟨trivial, AllNL.replicate (ih h.2) _⟩
  | unrollMin _ ih =>
    intro h; simp only [AllN] at h
    have := ih h.2
    exact ⟨trivial, AllNL.append (AllNL.replicate this _) ⟨⟨trivial, this⟩, trivial⟩⟩
  | unrollMax _ ih =>
    intro h; simp only [AllN] at h
    have := ih h.2
    exact ⟨trivial, AllNL.replicate (show AllN (NodeOK sg) (.opt _) from ⟨trivial, this⟩) _⟩
  | unrollMinMax _ ih =>
    intro h; simp only [AllN] at h
    have := ih h.2
    exact ⟨trivial, AllNL.append (AllNL.replicate this _)
      (AllNL.replicate (show AllN (NodeOK sg) (.opt _) from ⟨trivial, this⟩) _)⟩
  | inlB _ _ _ ih => intro h; simp only [AllN] at h; exact ih h.2
  | @inlS n r b' hl hsil _ _ ih =>
    intro h
    apply ih
    have hsg : sg n = some (r.name, r.mod) := by
      rw [← hsig n]; simp only [sigOf, hl, Option.map_some]
    have hpl := (h : NodeOK sg (.ident n none)).2 _ _ hsg hsil
    exact hG _ _ hl hpl.2.1
  | squash _ _ _ hpat _ =>
    intro _
    obtain ⟨k, hk, hne, _, hall⟩ := hpat
    exact ⟨rfl, hne, squash_altOK k _ [] _ hk hall (fun a ha => by simp at ha)⟩
  | skip _ _ => intro _; trivial

/-- rewriting keeps a body that cannot fail a body that cannot fail -/
theorem TR.totalBody {a : Bool} {e e' : Expr} (h : TR F G a e e') (ht : totalBody e = true) :
    totalBody e' = true := by
  cases h <;> first | exact ht | rfl | (simp [Pest.totalBody] at ht)

/-! ### same root, related children -/

inductive Cong1 (a : Bool) (R : Expr → Expr → Prop) : Expr → Expr → Prop
  | term {e} : isTerm e = true → Cong1 a R e e
  | ident {n t} : Cong1 a R (.ident n t) (.ident n t)
  | rule {n m sm b} : Cong1 a R (.rule n m sm b) (.rule n m sm b)
  | ruleC {n m sm b b'} : ruleAtomic n m a = a → R b b' → Cong1 a R (.rule n m sm b) (.rule n m sm b')
  | seq {es es'} : es.length = es'.length →
      (∀ i (h1 : i < es.length) (h2 : i < es'.length), R es[i] es'[i]) → Cong1 a R (.seq es) (.seq es')
  | choice {es es'} : es.length = es'.length →
      (∀ i (h1 : i < es.length) (h2 : i < es'.length), R es[i] es'[i]) → Cong1 a R (.choice es) (.choice es')
  | opt {e e'} : R e e' → Cong1 a R (.opt e) (.opt e')
  | rep {e e'} : R e e' → Cong1 a R (.rep e) (.rep e')
  | rep1 {e e'} : R e e' → Cong1 a R (.rep1 e) (.rep1 e')
  | repExact {e e' n} : R e e' → Cong1 a R (.repExact e n) (.repExact e' n)
  | repMin {e e' n} : R e e' → Cong1 a R (.repMin e n) (.repMin e' n)
  | repMax {e e' n} : R e e' → Cong1 a R (.repMax e n) (.repMax e' n)
  | repMinMax {e e' m n} : R e e' → Cong1 a R (.repMinMax e m n) (.repMinMax e' m n)
  | andP {e e'} : R e e' → Cong1 a R (.andP e) (.andP e')
  | notP {e e'} : R e e' → Cong1 a R (.notP e) (.notP e')
  | group {e e' t} : R e e' → Cong1 a R (.group e t) (.group e' t)
  | push {e e'} : R e e' → Cong1 a R (.push e) (.push e')

theorem TR.of_cong1 {a : Bool} {e x : Expr} (h : Cong1 a (TR F G a) e x) : TR F G a e x := by
  cases h with
  | term ht => exact .term ht
  | ident => exact .ident
  | rule => exact .rule
  | ruleC hra h => exact .ruleC hra h
  | seq hl hh => exact .seq hl hh
  | choice hl hh => exact .choice hl hh
  | opt h => exact .opt h
  | rep h => exact .rep h
  | rep1 h => exact .rep1 h
  | repExact h => exact .repExact h
  | repMin h => exact .repMin h
  | repMax h => exact .repMax h
  | repMinMax h => exact .repMinMax h
  | andP h => exact .andP h
  | notP h => exact .notP h
  | group h => exact .group h
  | push h => exact .push h

theorem nodeOK_ra {n : String} {m : Nat} {sm : Bool} {b : Expr} (h : NodeOK sg (.rule n m sm b))
    (a : Bool) : ruleAtomic n m a = a := by
  simp only [NodeOK] at h
  obtain ⟨_, h2, h3, h4, h5, _⟩ := h
  simp [ruleAtomic, h2, h3, h4, h5]

/-! ### bottom-up traversal -/

theorem mapBottomUpL_eq (f : Expr → Expr) : ∀ es, Opt.mapBottomUpL f es = es.map (Opt.mapBottomUp f)
  | [] => by simp [Opt.mapBottomUpL]
  | e :: es => by simp [Opt.mapBottomUpL, mapBottomUpL_eq f es]

mutual
theorem bottomUp_TR (f : Expr → Expr) (a : Bool)
    (hroot : ∀ e x, AllN (NodeOK sg) e → Cong1 a (TR F G a) e x → TR F G a e (f x)) :
    ∀ (e : Expr), AllN (NodeOK sg) e → TR F G a e (Opt.mapBottomUp f e)
  | .rule n m sm b, h => by
    cases sm with
    | true =>
      simp only [Opt.mapBottomUp, ↓reduceIte]
      exact hroot _ _ h .rule
    | false =>
      simp only [Opt.mapBottomUp, Bool.false_eq_true, ↓reduceIte]
      exact hroot _ _ h (.ruleC (nodeOK_ra h.1 a) (bottomUp_TR f a hroot b h.2))
  | .seq es, h => by
    simp only [Opt.mapBottomUp, mapBottomUpL_eq]
    exact hroot _ _ h (.seq (by simp) fun i h1 h2 => by
      simp only [List.getElem_map]; exact bottomUp_TRL f a hroot es h.2 i h1)
  | .choice es, h => by
    simp only [Opt.mapBottomUp, mapBottomUpL_eq]
    exact hroot _ _ h (.choice (by simp) fun i h1 h2 => by
      simp only [List.getElem_map]; exact bottomUp_TRL f a hroot es h.2 i h1)
  | .opt e, h => by simp only [Opt.mapBottomUp]; exact hroot _ _ h (.opt (bottomUp_TR f a hroot e h.2))
  | .rep e, h => by simp only [Opt.mapBottomUp]; exact hroot _ _ h (.rep (bottomUp_TR f a hroot e h.2))
  | .rep1 e, h => by simp only [Opt.mapBottomUp]; exact hroot _ _ h (.rep1 (bottomUp_TR f a hroot e h.2))
  | .repExact e n, h => by
    simp only [Opt.mapBottomUp]; exact hroot _ _ h (.repExact (bottomUp_TR f a hroot e h.2))
  | .repMin e n, h => by
    simp only [Opt.mapBottomUp]; exact hroot _ _ h (.repMin (bottomUp_TR f a hroot e h.2))
  | .repMax e n, h => by
    simp only [Opt.mapBottomUp]; exact hroot _ _ h (.repMax (bottomUp_TR f a hroot e h.2))
  | .repMinMax e m n, h => by
    simp only [Opt.mapBottomUp]; exact hroot _ _ h (.repMinMax (bottomUp_TR f a hroot e h.2))
  | .andP e, h => by simp only [Opt.mapBottomUp]; exact hroot _ _ h (.andP (bottomUp_TR f a hroot e h.2))
  | .notP e, h => by simp only [Opt.mapBottomUp]; exact hroot _ _ h (.notP (bottomUp_TR f a hroot e h.2))
  | .group e t, h => by simp only [Opt.mapBottomUp]; exact hroot _ _ h (.group (bottomUp_TR f a hroot e h.2))
  | .push e, h => by simp only [Opt.mapBottomUp]; exact hroot _ _ h (.push (bottomUp_TR f a hroot e h.2))
  | .ident n t, h => by simp only [Opt.mapBottomUp]; exact hroot _ _ h .ident
  | .str _, h => by simp only [Opt.mapBottomUp]; exact hroot _ _ h (.term rfl)
  | .ci _, h => by simp only [Opt.mapBottomUp]; exact hroot _ _ h (.term rfl)
  | .range _ _, h => by simp only [Opt.mapBottomUp]; exact hroot _ _ h (.term rfl)
  | .pushLit _, h => by simp only [Opt.mapBottomUp]; exact hroot _ _ h (.term rfl)
  | .peek, h => by simp only [Opt.mapBottomUp]; exact hroot _ _ h (.term rfl)
  | .pop, h => by simp only [Opt.mapBottomUp]; exact hroot _ _ h (.term rfl)
  | .drop, h => by simp only [Opt.mapBottomUp]; exact hroot _ _ h (.term rfl)
  | .peekAll, h => by simp only [Opt.mapBottomUp]; exact hroot _ _ h (.term rfl)
  | .popAll, h => by simp only [Opt.mapBottomUp]; exact hroot _ _ h (.term rfl)
  | .peekSlice _ _, h => by simp only [Opt.mapBottomUp]; exact hroot _ _ h (.term rfl)
  | .anyB, h => by simp only [Opt.mapBottomUp]; exact hroot _ _ h (.term rfl)
  | .soiB, h => by simp only [Opt.mapBottomUp]; exact hroot _ _ h (.term rfl)
  | .eoiB, h => by simp only [Opt.mapBottomUp]; exact hroot _ _ h (.term rfl)
  | .uprop _, h => by simp only [Opt.mapBottomUp]; exact hroot _ _ h (.term rfl)
  | .skipUntil _, h => by simp only [Opt.mapBottomUp]; exact hroot _ _ h (.term rfl)
  | .optChoice _ _, h => by simp only [Opt.mapBottomUp]; exact hroot _ _ h (.term rfl)
theorem bottomUp_TRL (f : Expr → Expr) (a : Bool)
    (hroot : ∀ e x, AllN (NodeOK sg) e → Cong1 a (TR F G a) e x → TR F G a e (f x)) :
    ∀ (es : List Expr), AllNL (NodeOK sg) es → ∀ i (h : i < es.length),
      TR F G a es[i] (Opt.mapBottomUp f es[i])
  | [], _, i, h => by simp at h
  | e :: es, hh, 0, _ => bottomUp_TR f a hroot e hh.1
  | e :: es, hh, i + 1, h => by simpa using bottomUp_TRL f a hroot es hh.2 i (by simpa using h)
end

/-! ### top-down traversal -/

theorem AllNL.mem {P : Expr → Prop} : ∀ {es : List Expr}, AllNL P es → ∀ c ∈ es, AllN P c
  | [], _, c, h => by simp at h
  | e :: es, hh, c, h => by
    cases h with
    | head => exact hh.1
    | tail _ h' => exact AllNL.mem hh.2 c h'

theorem AllN.children {P : Expr → Prop} {x : Expr} (h : AllN P x) : ∀ c ∈ Opt.children x, AllN P c := by
  intro c hc
  cases x <;> simp only [Opt.children, List.mem_singleton, List.not_mem_nil] at hc
  case rule => subst hc; exact h.2
  case seq => exact AllNL.mem h.2 c hc
  case choice => exact AllNL.mem h.2 c hc
  all_goals (subst hc; exact h.2)

theorem withChildren_cong1 {a : Bool} {R : Expr → Expr → Prop} (T : Expr → Expr) (x : Expr)
    (hsm : ∀ n m sm b, x = .rule n m sm b → ruleAtomic n m a = a) (h : ∀ c ∈ Opt.children x, R c (T c)) :
    Cong1 a R x (Opt.withChildren x ((Opt.children x).map T)) := by
  cases x with
  | rule n m sm b =>
    have hra := hsm n m sm b rfl
    cases sm with
    | true =>
      simp only [Opt.withChildren, ↓reduceIte]
      exact .rule
    | false =>
      simp only [Opt.withChildren, Bool.false_eq_true, ↓reduceIte, Opt.children, List.map_cons, List.map_nil,
        List.headD_cons]
      exact .ruleC hra (h b (by simp [Opt.children]))
  | seq es =>
    simp only [Opt.withChildren, Opt.children]
    exact .seq (by simp) fun i h1 h2 => by
      simp only [List.getElem_map]; exact h _ (by simp [Opt.children])
  | choice es =>
    simp only [Opt.withChildren, Opt.children]
    exact .choice (by simp) fun i h1 h2 => by
      simp only [List.getElem_map]; exact h _ (by simp [Opt.children])
  | opt e => exact .opt (h e (by simp [Opt.children]))
  | rep e => exact .rep (h e (by simp [Opt.children]))
  | rep1 e => exact .rep1 (h e (by simp [Opt.children]))
  | repExact e n => exact .repExact (h e (by simp [Opt.children]))
  | repMin e n => exact .repMin (h e (by simp [Opt.children]))
  | repMax e n => exact .repMax (h e (by simp [Opt.children]))
  | repMinMax e m n => exact .repMinMax (h e (by simp [Opt.children]))
  | andP e => exact .andP (h e (by simp [Opt.children]))
  | notP e => exact .notP (h e (by simp [Opt.children]))
  | group e t => exact .group (h e (by simp [Opt.children]))
  | push e => exact .push (h e (by simp [Opt.children]))
  | ident n t => exact .ident
  | _ => exact .term rfl

theorem topDown_TR (f : Expr → Expr) (a : Bool) (I : Expr → Prop)
    (hI_f : ∀ e, I e → I (f e)) (hI_ch : ∀ x, I x → ∀ c ∈ Opt.children x, I c)
    (hI_sm : ∀ n m sm b, I (.rule n m sm b) → ruleAtomic n m a = a)
    (hpre : ∀ e x', I e → TR F G a (f e) x' → TR F G a e x') :
    ∀ k e, I e → TR F G a e (Opt.mapTopDown f k e) := by
  intro k
  induction k with
  | zero => intro e _; exact TR.refl F G e a
  | succ k ih =>
    intro e he
    simp only [Opt.mapTopDown]
    apply hpre e _ he
    apply TR.of_cong1
    have hfe := hI_f e he
    apply withChildren_cong1 (Opt.mapTopDown f k) (f e)
    · intro n m sm b hx
      rw [hx] at hfe
      exact hI_sm n m sm b hfe
    · intro c hc
      exact ih c (hI_ch _ hfe c hc)

/-! ### the invariant of the rule table -/

structure Inv (F : Feat) (sg : String → Option (String × Nat)) (G : Grammar) : Prop where
  sig : ∀ n, sigOf G n = sg n
  /-- every body is well-formed; the fused rule of the WHITESPACE case (an atomic rule whose body is
      an `OptimizedChoiceRepeat` leaf) is the one exception -/
  nodes : ∀ r ∈ G.rules, AllN (NodeOK sg) r.body ∨
    (hasBit r.mod ATOMIC = true ∧ ∃ alts, r.body = .optChoice alts true)
  /-- the fused trivia rule exists only where a trivia rule is defined -/
  fusedTrivia : G.fusedSkip ≠ none → ¬(G.lookup "WHITESPACE" = none ∧ G.lookup "COMMENT" = none)
  /-- the fused trivia rule cannot fail -/
  total : ∀ r, G.fusedSkip = some r → totalBody r.body = true

theorem lookup_mem {G : Grammar} {n : String} {r : Rule} (h : G.lookup n = some r) : r ∈ G.rules :=
  List.mem_of_find?_eq_some h

theorem lookup_name {G : Grammar} {n : String} {r : Rule} (h : G.lookup n = some r) : r.name = n := by
  have := List.find?_some h
  simpa using this

theorem Inv.lookup_nodes (h : Inv F sg G) (n : String) (r : Rule) (hl : G.lookup n = some r)
    (ha : hasBit r.mod ATOMIC = false) : AllN (NodeOK sg) r.body := by
  rcases h.nodes r (lookup_mem hl) with h1 | ⟨h1, _⟩
  · exact h1
  · rw [ha] at h1; exact absurd h1 (by simp)

/-! ### unroll -/

theorem unroll_term {x : Expr} (ht : isTerm x = true) : Opt.unroll x = x := by
  cases x <;> simp [isTerm] at ht <;> rfl

theorem unroll_root {a : Bool} {e x : Expr} (h : Cong1 a (TR F G a) e x) : TR F G a e (Opt.unroll x) := by
  cases h with
  | term ht => rw [unroll_term ht]; exact .term ht
  | ident => exact .ident
  | rule => exact .rule
  | ruleC hra h => exact .ruleC hra h
  | seq hl hh => exact .seq hl hh
  | choice hl hh => exact .choice hl hh
  | opt h => exact .opt h
  | rep h => exact .rep h
  | @rep1 e0 e' h =>
    simp only [Opt.unroll]
    split
    · exact .unroll1g h
    · exact .unroll1 h
  | repExact h => exact .unrollExact h
  | repMin h => exact .unrollMin h
  | repMax h => exact .unrollMax h
  | repMinMax h => exact .unrollMinMax h
  | andP h => exact .andP h
  | notP h => exact .notP h
  | group h => exact .group h
  | push h => exact .push h

theorem unroll_TR (a : Bool) (e : Expr) (he : AllN (NodeOK sg) e) :
    TR F G a e (Opt.mapBottomUp Opt.unroll e) :=
  bottomUp_TR Opt.unroll a (fun _ _ _ h => unroll_root h) e he

/-! ### inline_silent_rules -/

theorem inlineSilent_root (hsig : ∀ n, sigOf G n = sg n) {a : Bool}
    {e x : Expr} (he : AllN (NodeOK sg) e)
    (h : Cong1 a (TR F G a) e x) :
    TR F G a e ((Opt.inlineSilent G.rules x).getD (.ident "!KeyError" none)) := by
  cases h with
  | @ident n t =>
    simp only [Opt.inlineSilent]
    cases hl : G.rules.find? (·.name == n) with
    | none => exact .ident
    | some r =>
      dsimp only
      by_cases hc : (hasBit r.mod SILENT && t.isNone && !(r.name == "WHITESPACE" || r.name == "COMMENT")) = true
      · rw [if_pos hc]
        simp only [Bool.and_eq_true, Option.isNone_iff_eq_none, Bool.not_eq_true', Bool.or_eq_false_iff,
          beq_eq_false_iff_ne] at hc
        obtain ⟨⟨hs, ht⟩, hw, hcm⟩ := hc
        subst ht
        have hn := he.root
        simp only [NodeOK] at hn
        have hsg : sg n = some (r.name, r.mod) := by
          rw [← hsig n]; simp only [sigOf, Grammar.lookup, hl, Option.map_some]
        have htriv : L1.isTriviaName r.name = false := by
          simp [L1.isTriviaName, hw, hcm]
        exact .inlS hl hs (plain_ruleAtomic (hn.2 _ _ hsg hs) htriv a) (TR.refl F G _ _)
      · rw [if_neg hc]
        exact .ident
  | term ht => cases e <;> simp [isTerm] at ht <;> exact .term rfl
  | rule => exact .rule
  | ruleC hra h => exact .ruleC hra h
  | seq hl hh => exact .seq hl hh
  | choice hl hh => exact .choice hl hh
  | opt h => exact .opt h
  | rep h => exact .rep h
  | rep1 h => exact .rep1 h
  | repExact h => exact .repExact h
  | repMin h => exact .repMin h
  | repMax h => exact .repMax h
  | repMinMax h => exact .repMinMax h
  | andP h => exact .andP h
  | notP h => exact .notP h
  | group h => exact .group h
  | push h => exact .push h

theorem inlineSilent_TR (hsig : ∀ n, sigOf G n = sg n) (a : Bool)
    (e : Expr) (he : AllN (NodeOK sg) e) :
    TR F G a e (Opt.mapBottomUp (fun x => (Opt.inlineSilent G.rules x).getD (.ident "!KeyError" none)) e) :=
  bottomUp_TR _ a (fun _ _ he h => inlineSilent_root hsig he h) e he

/-! ### inline_builtin -/

theorem inlineBuiltin_TR (a : Bool) (k : Nat) (e : Expr) (he : AllN (NodeOK sg) e) :
    TR F G a e (Opt.mapTopDown Opt.inlineBuiltin k e) := by
  refine topDown_TR Opt.inlineBuiltin a (AllN (NodeOK sg)) ?_ (fun x hx => AllN.children hx) ?_ ?_ k e he
  · intro e he
    cases e with
    | rule n m sm b =>
      simp only [Opt.inlineBuiltin]
      split
      · exact he.2
      · exact he
    | _ => exact he
  · intro n m sm b h
    exact nodeOK_ra h.1 a
  · intro e x' he h
    cases e with
    | rule n m sm b =>
      simp only [Opt.inlineBuiltin] at h
      split at h
      · rename_i hne
        have hn := he.1
        simp only [NodeOK] at hn
        have hne' : n ≠ "EOI" := by simpa using hne
        exact .inlB ⟨hn.2.2.2.2.2.1 hne', hn.2.1, hn.2.2.1, hn.2.2.2.1⟩ hn.2.2.2.2.1 h
      · exact h
    | _ => exact h

end OptS
end Pest
