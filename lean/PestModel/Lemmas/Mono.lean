/-
  Lemmas/Mono.lean — fuel monotonicity of the specification L0, and convergence.

  `Ext r r'`  : `r'` extends `r` — wherever `r` gives an answer (anything but out-of-fuel), `r'`
                gives the same answer.
  `step_ext`  : more loop budget and an extended `rec` extend the step.
  `run_mono`  : `n ≤ m → Ext (run n) (run m)`.
  `Conv`      : the fuel-independent meaning: "with enough fuel the answer is `r`".
  These are what theorems relating two *different* expressions or grammars (optimizer passes,
  C08's rewrites) are stated with, since e.g. inlining removes a level of recursion.
-/
import PestModel.Spec

namespace Pest
namespace L0

variable (g : Grammar) (inp : Input)

def Ext (r r' : Sem0) : Prop := ∀ e s, r e s ≠ .oof → r' e s = r e s

theorem Ext.refl (r : Sem0) : Ext r r := fun _ _ _ => rfl

theorem Ext.trans {a b c : Sem0} (h1 : Ext a b) (h2 : Ext b c) : Ext a c := by
  intro e s hne
  have hb := h1 e s hne
  rw [h2 e s (by rw [hb]; exact hne), hb]

theorem ruleApply_ext {r r' : Sem0} (h : Ext r r') (name : String) (mod : Nat) (body : Expr) (s : S0)
    (hne : ruleApply r name mod body s ≠ .oof) :
    ruleApply r' name mod body s = ruleApply r name mod body s := by
  unfold ruleApply at hne ⊢
  cases hb : r body { s with atomic := ruleAtomic name mod s.atomic } with
  | oof => rw [hb] at hne; exact absurd rfl hne
  | ok s' ps => rw [h _ _ (by rw [hb]; simp), hb]
  | fail => rw [h _ _ (by rw [hb]; simp), hb]
  | stuck => rw [h _ _ (by rw [hb]; simp), hb]

theorem callRule_ext {r r' : Sem0} (h : Ext r r') (name : String) (s : S0)
    (hne : callRule g r name s ≠ .oof) : callRule g r' name s = callRule g r name s := by
  unfold callRule at hne ⊢
  cases hl : g.lookup name with
  | none => rfl
  | some rl => rw [hl] at hne; exact ruleApply_ext h _ _ _ _ hne

theorem trySkip_ext {r r' : Sem0} (h : Ext r r') (rl : Option Rule) (s : S0)
    (hne : trySkip r rl s ≠ .stop .oof) : trySkip r' rl s = trySkip r rl s := by
  unfold trySkip at hne ⊢
  cases rl with
  | none => rfl
  | some rl =>
    simp only [] at hne ⊢
    have : ruleApply r rl.name rl.mod rl.body s ≠ .oof := by
      intro e; rw [e] at hne; exact hne rfl
    rw [ruleApply_ext h _ _ _ _ this]

theorem skipLoop_ext {r r' : Sem0} (h : Ext r r') (ws cm : Option Rule) :
    ∀ (k k' : Nat) (s : S0) (acc : List Pair), k ≤ k' → skipLoop r ws cm k s acc ≠ .oof →
      skipLoop r' ws cm k' s acc = skipLoop r ws cm k s acc := by
  intro k
  induction k with
  | zero => intro k' s acc _ hne; exact absurd rfl hne
  | succ k ih =>
    intro k' s acc hk hne
    cases k' with
    | zero => omega
    | succ k' =>
      simp only [skipLoop] at hne ⊢
      have h1 : trySkip r ws s ≠ .stop .oof := by
        intro e; rw [e] at hne; exact hne rfl
      rw [trySkip_ext h ws s h1]
      cases ht : trySkip r ws s with
      | matched s' ps => rw [ht] at hne; exact ih k' s' _ (by omega) hne
      | stop x => rfl
      | no =>
        rw [ht] at hne
        simp only [] at hne ⊢
        have h2 : trySkip r cm s ≠ .stop .oof := by
          intro e; rw [e] at hne; exact hne rfl
        rw [trySkip_ext h cm s h2]
        cases ht2 : trySkip r cm s with
        | matched s' ps => rw [ht2] at hne; exact ih k' s' _ (by omega) hne
        | stop x => rfl
        | no => rfl

theorem skip_ext {r r' : Sem0} (h : Ext r r') (k k' : Nat) (hk : k ≤ k') (s : S0)
    (hne : skip g r k s ≠ .oof) : skip g r' k' s = skip g r k s := by
  unfold skip at hne ⊢
  by_cases ha : s.atomic = true
  · simp [ha]
  · simp only [ha, Bool.false_eq_true, ↓reduceIte] at hne ⊢
    cases hf : g.fusedSkip with
    | some rl => rw [hf] at hne; exact ruleApply_ext h _ _ _ _ hne
    | none =>
      rw [hf] at hne
      simp only [] at hne ⊢
      by_cases hn : ((g.lookup "WHITESPACE").isNone && (g.lookup "COMMENT").isNone) = true
      · simp [hn]
      · simp only [hn, Bool.false_eq_true, ↓reduceIte] at hne ⊢
        exact skipLoop_ext h _ _ k k' s [] hk hne

theorem seqL_ext {r r' : Sem0} (h : Ext r r') (k k' : Nat) (hk : k ≤ k') :
    ∀ (es : List Expr) (s : S0) (acc : List Pair), seqL g r k es s acc ≠ .oof →
      seqL g r' k' es s acc = seqL g r k es s acc := by
  intro es
  induction es with
  | nil => intro s acc _; rfl
  | cons e rest ih =>
    intro s acc hne
    simp only [seqL] at hne ⊢
    cases he : r e s with
    | oof => rw [he] at hne; exact absurd rfl hne
    | fail => rw [h _ _ (by rw [he]; simp), he]
    | stuck => rw [h _ _ (by rw [he]; simp), he]
    | ok s1 ps =>
      rw [h _ _ (by rw [he]; simp), he]
      rw [he] at hne
      simp only [] at hne ⊢
      by_cases hr : rest.isEmpty = true
      · simp [hr]
      · simp only [hr, Bool.false_eq_true, ↓reduceIte] at hne ⊢
        have hs : skip g r k s1 ≠ .oof := by
          intro e; rw [e] at hne; exact hne rfl
        rw [skip_ext g h k k' hk s1 hs]
        cases hsk : skip g r k s1 with
        | oof => exact absurd hsk hs
        | ok s2 tps => rw [hsk] at hne; exact ih s2 _ hne
        | fail => rw [hsk] at hne; exact ih s1 _ hne
        | stuck => rfl

theorem choiceL_ext {r r' : Sem0} (h : Ext r r') :
    ∀ (es : List Expr) (s : S0), choiceL r es s ≠ .oof → choiceL r' es s = choiceL r es s := by
  intro es
  induction es with
  | nil => intro s _; rfl
  | cons e rest ih =>
    intro s hne
    simp only [choiceL] at hne ⊢
    cases he : r e s with
    | oof => rw [he] at hne; exact absurd rfl hne
    | fail => rw [h _ _ (by rw [he]; simp), he]; rw [he] at hne; exact ih s hne
    | stuck => rw [h _ _ (by rw [he]; simp), he]
    | ok s1 ps => rw [h _ _ (by rw [he]; simp), he]

theorem repLoop_ext {r r' : Sem0} (h : Ext r r') (e : Expr) (kk kk' : Nat) (hkk : kk ≤ kk') :
    ∀ (k k' : Nat) (first : Bool) (s : S0) (acc : List Pair), k ≤ k' →
      repLoop g r e k kk first s acc ≠ .oof →
      repLoop g r' e k' kk' first s acc = repLoop g r e k kk first s acc := by
  intro k
  induction k with
  | zero => intro k' first s acc _ hne; exact absurd rfl hne
  | succ k ih =>
    intro k' first s acc hk hne
    cases k' with
    | zero => omega
    | succ k' =>
      simp only [repLoop] at hne ⊢
      have hsk : (if first = true then R0.ok s [] else skip g r' kk' s)
          = (if first = true then R0.ok s [] else skip g r kk s) := by
        by_cases hf : first = true
        · simp [hf]
        · simp only [hf, Bool.false_eq_true, ↓reduceIte] at hne ⊢
          have : skip g r kk s ≠ .oof := by
            intro e; rw [e] at hne; exact hne rfl
          exact skip_ext g h kk kk' hkk s this
      rw [hsk]
      cases ha : (if first = true then R0.ok s [] else skip g r kk s) with
      | oof => simp [ha] at hne
      | fail => rfl
      | stuck => rfl
      | ok s1 tps =>
        rw [ha] at hne
        simp only [] at hne ⊢
        cases he : r e s1 with
        | oof => rw [he] at hne; exact absurd rfl hne
        | fail => rw [h _ _ (by rw [he]; simp), he]
        | stuck => rw [h _ _ (by rw [he]; simp), he]
        | ok s2 ps =>
          rw [h _ _ (by rw [he]; simp), he]
          rw [he] at hne
          exact ih k' false s2 _ (by omega) hne

/-- one node: more loop budget and an extended `rec` extend the step -/
theorem step_ext {r r' : Sem0} (h : Ext r r') (k k' : Nat) (hk : k ≤ k') :
    Ext (step g inp k r) (step g inp k' r') := by
  intro e s hne
  cases e with
  | ident name tag => exact callRule_ext g h name s hne
  | rule name mod sm body => exact ruleApply_ext h name mod body s hne
  | seq es => exact seqL_ext g h k k' hk es s [] hne
  | choice es => exact choiceL_ext h es s hne
  | opt e =>
    simp only [step] at hne ⊢
    cases he : r e s with
    | oof => rw [he] at hne; exact absurd rfl hne
    | _ => rw [h _ _ (by rw [he]; simp), he]
  | rep e => exact repLoop_ext g h e k k' hk k k' true s [] hk hne
  | rep1 e => exact seqL_ext g h k k' hk _ s [] hne
  | repExact e n => exact seqL_ext g h k k' hk _ s [] hne
  | repMin e n => exact seqL_ext g h k k' hk _ s [] hne
  | repMax e n => exact seqL_ext g h k k' hk _ s [] hne
  | repMinMax e m n => exact seqL_ext g h k k' hk _ s [] hne
  | andP e =>
    simp only [step] at hne ⊢
    cases he : r e s with
    | oof => rw [he] at hne; exact absurd rfl hne
    | _ => rw [h _ _ (by rw [he]; simp), he]
  | notP e =>
    simp only [step] at hne ⊢
    cases he : r e s with
    | oof => rw [he] at hne; exact absurd rfl hne
    | _ => rw [h _ _ (by rw [he]; simp), he]
  | group e tag =>
    simp only [step] at hne ⊢
    exact h e s hne
  | push e =>
    simp only [step] at hne ⊢
    cases he : r e s with
    | oof => rw [he] at hne; exact absurd rfl hne
    | _ => rw [h _ _ (by rw [he]; simp), he]
  | _ => rfl

theorem run_succ_ext (n : Nat) : Ext (run g inp n) (run g inp (n + 1)) := by
  induction n with
  | zero => intro e s hne; exact absurd rfl hne
  | succ n ih => exact step_ext g inp ih n (n + 1) (by omega)

/-- **fuel monotonicity**: an answer obtained with fuel `n` is the answer for every `m ≥ n` -/
theorem run_mono {n m : Nat} (hnm : n ≤ m) : Ext (run g inp n) (run g inp m) := by
  induction m with
  | zero => have : n = 0 := by omega
            subst this; exact Ext.refl _
  | succ m ih =>
    by_cases hm : n = m + 1
    · subst hm; exact Ext.refl _
    · exact (ih (by omega)).trans (run_succ_ext g inp m)

/-- the fuel-independent meaning of an expression: with enough fuel the answer is `r` -/
def Conv (e : Expr) (s : S0) (r : R0) : Prop := ∃ n, run g inp n e s = r ∧ r ≠ .oof

theorem Conv.mono {e : Expr} {s : S0} {r : R0} {n : Nat} (h : run g inp n e s = r) (hr : r ≠ .oof)
    {m : Nat} (hnm : n ≤ m) : run g inp m e s = r := by
  rw [run_mono g inp hnm e s (by rw [h]; exact hr), h]

/-- the meaning is unique -/
theorem Conv.det {e : Expr} {s : S0} {r r' : R0} (h : Conv g inp e s r) (h' : Conv g inp e s r') :
    r = r' := by
  obtain ⟨n, hn, hr⟩ := h
  obtain ⟨m, hm, hr'⟩ := h'
  have a := Conv.mono g inp hn hr (Nat.le_max_left n m)
  have b := Conv.mono g inp hm hr' (Nat.le_max_right n m)
  rw [← a, ← b]

/-- two expressions (possibly of two grammars) with the same meaning on every input and state -/
def EquivE (g' : Grammar) (e e' : Expr) : Prop :=
  ∀ (inp : Input) (s : S0) (r : R0), Conv g inp e s r ↔ Conv g' inp e' s r

end L0
end Pest
