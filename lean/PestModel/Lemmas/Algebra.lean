/-
  Lemmas/Algebra.lean — the algebra of L0 (for property C08).

  Part 1  big-step reading of L0: the fuel-independent meaning (`Conv`) of a node in terms of
          the meanings of its parts (`SeqC`, `ChoiceC`, `SkipC`, `RuleC`, `RepC`, …).  All fuel
          bookkeeping (monotonicity, taking maxima) is done once, here.
  Part 2  the laws: groups are transparent, sequences and choices re-associate, `e | e = e`,
          `(e ~ NEVER) | e = e`, `(!e ~ NEVER) | e = e`, a silent rule is its body.
  Part 3  rule applications preserve atomicity (needed for "a silent rule is its body").
  Part 4  simulation: a relation `Q` on expressions that is preserved by one step of the
          semantics (up to the grammar's rule table) is preserved by the meaning; two grammars.
  Part 5  consequences: congruence (`Cong`, one-hole contexts `Ctx`), rewriting inside rule
          bodies (`cong_grammar`, `GEquiv`), extraction of a sub-expression into a fresh silent
          rule (`addRule_away`, `extract_silent`, `extract_silent_grammar`), the rewrites of C08
          as one relation (`Rewrite`, `rewrites_preserve_parse`), and when implicit trivia is
          total (`triviaTotal_of_progress`).
-/
import PestModel.Lemmas.Mono

namespace Pest
namespace L0

/-! ## Part 1 — big-step reading -/

section defs
variable (g : Grammar) (inp : Input)

/-- the meaning of implicit trivia at `s` -/
def SkipC (s : S0) (r : R0) : Prop := ∃ n, skip g (run g inp n) n s = r ∧ r ≠ .oof
/-- the meaning of the tail `es` of a sequence, `acc` = pairs so far -/
def SeqC (es : List Expr) (s : S0) (acc : List Pair) (r : R0) : Prop :=
  ∃ n, seqL g (run g inp n) n es s acc = r ∧ r ≠ .oof
def ChoiceC (es : List Expr) (s : S0) (r : R0) : Prop := ∃ n, choiceL (run g inp n) es s = r ∧ r ≠ .oof
def RepC (e : Expr) (first : Bool) (s : S0) (acc : List Pair) (r : R0) : Prop :=
  ∃ n, repLoop g (run g inp n) e n n first s acc = r ∧ r ≠ .oof
def RuleC (name : String) (mod : Nat) (body : Expr) (s : S0) (r : R0) : Prop :=
  ∃ n, ruleApply (run g inp n) name mod body s = r ∧ r ≠ .oof
def CallC (name : String) (s : S0) (r : R0) : Prop := ∃ n, callRule g (run g inp n) name s = r ∧ r ≠ .oof
def TryC (rl : Option Rule) (s : S0) (t : Try0) : Prop :=
  ∃ n, trySkip (run g inp n) rl s = t ∧ ∀ x, t = .stop x → x ≠ .oof
def SkipLoopC (ws cm : Option Rule) (s : S0) (acc : List Pair) (r : R0) : Prop :=
  ∃ n, skipLoop (run g inp n) ws cm n s acc = r ∧ r ≠ .oof

end defs

variable {g : Grammar} {inp : Input}

/-! ### every answer is stable under more fuel -/

theorem Conv.ev {e : Expr} {s : S0} {r : R0} (h : Conv g inp e s r) :
    ∃ n, ∀ m, n ≤ m → run g inp m e s = r := by
  obtain ⟨n, hn, hr⟩ := h
  exact ⟨n, fun m hm => Conv.mono g inp hn hr hm⟩

theorem Conv.ne {e : Expr} {s : S0} {r : R0} (h : Conv g inp e s r) : r ≠ .oof := by
  obtain ⟨_, _, hr⟩ := h; exact hr

theorem SkipC.ne {s : S0} {r : R0} (h : SkipC g inp s r) : r ≠ .oof := by
  obtain ⟨_, _, hr⟩ := h; exact hr

theorem SeqC.ne {es : List Expr} {s : S0} {acc : List Pair} {r : R0} (h : SeqC g inp es s acc r) :
    r ≠ .oof := by
  obtain ⟨_, _, hr⟩ := h; exact hr

theorem ChoiceC.ne {es : List Expr} {s : S0} {r : R0} (h : ChoiceC g inp es s r) : r ≠ .oof := by
  obtain ⟨_, _, hr⟩ := h; exact hr

theorem SkipC.ev {s : S0} {r : R0} (h : SkipC g inp s r) :
    ∃ n, ∀ m, n ≤ m → skip g (run g inp m) m s = r := by
  obtain ⟨n, hn, hr⟩ := h
  refine ⟨n, fun m hm => ?_⟩
  rw [skip_ext g (run_mono g inp hm) n m hm s (by rw [hn]; exact hr), hn]

theorem SeqC.ev {es : List Expr} {s : S0} {acc : List Pair} {r : R0} (h : SeqC g inp es s acc r) :
    ∃ n, ∀ m, n ≤ m → seqL g (run g inp m) m es s acc = r := by
  obtain ⟨n, hn, hr⟩ := h
  refine ⟨n, fun m hm => ?_⟩
  rw [seqL_ext g (run_mono g inp hm) n m hm es s acc (by rw [hn]; exact hr), hn]

theorem ChoiceC.ev {es : List Expr} {s : S0} {r : R0} (h : ChoiceC g inp es s r) :
    ∃ n, ∀ m, n ≤ m → choiceL (run g inp m) es s = r := by
  obtain ⟨n, hn, hr⟩ := h
  refine ⟨n, fun m hm => ?_⟩
  rw [choiceL_ext (run_mono g inp hm) es s (by rw [hn]; exact hr), hn]

theorem RepC.ev {e : Expr} {first : Bool} {s : S0} {acc : List Pair} {r : R0}
    (h : RepC g inp e first s acc r) :
    ∃ n, ∀ m, n ≤ m → ∀ k, n ≤ k → repLoop g (run g inp m) e k m first s acc = r := by
  obtain ⟨n, hn, hr⟩ := h
  refine ⟨n, fun m hm k hk => ?_⟩
  rw [repLoop_ext g (run_mono g inp hm) e n m hm n k first s acc hk (by rw [hn]; exact hr), hn]

theorem RuleC.ev {name : String} {mod : Nat} {body : Expr} {s : S0} {r : R0}
    (h : RuleC g inp name mod body s r) :
    ∃ n, ∀ m, n ≤ m → ruleApply (run g inp m) name mod body s = r := by
  obtain ⟨n, hn, hr⟩ := h
  refine ⟨n, fun m hm => ?_⟩
  rw [ruleApply_ext (run_mono g inp hm) name mod body s (by rw [hn]; exact hr), hn]

theorem TryC.ev {rl : Option Rule} {s : S0} {t : Try0} (h : TryC g inp rl s t) :
    ∃ n, ∀ m, n ≤ m → trySkip (run g inp m) rl s = t := by
  obtain ⟨n, hn, hr⟩ := h
  refine ⟨n, fun m hm => ?_⟩
  rw [trySkip_ext (run_mono g inp hm) rl s (by rw [hn]; intro e; exact hr _ e rfl), hn]

theorem SkipLoopC.ev {ws cm : Option Rule} {s : S0} {acc : List Pair} {r : R0}
    (h : SkipLoopC g inp ws cm s acc r) :
    ∃ n, ∀ m, n ≤ m → ∀ k, n ≤ k → skipLoop (run g inp m) ws cm k s acc = r := by
  obtain ⟨n, hn, hr⟩ := h
  refine ⟨n, fun m hm k hk => ?_⟩
  rw [skipLoop_ext (run_mono g inp hm) ws cm n k s acc hk (by rw [hn]; exact hr), hn]

/-! ### determinism -/

theorem SkipC.det {s : S0} {r r' : R0} (h : SkipC g inp s r) (h' : SkipC g inp s r') : r = r' := by
  obtain ⟨n, hn⟩ := h.ev
  obtain ⟨m, hm⟩ := h'.ev
  rw [← hn (max n m) (Nat.le_max_left n m), ← hm (max n m) (Nat.le_max_right n m)]

theorem SeqC.det {es : List Expr} {s : S0} {acc : List Pair} {r r' : R0}
    (h : SeqC g inp es s acc r) (h' : SeqC g inp es s acc r') : r = r' := by
  obtain ⟨n, hn⟩ := h.ev
  obtain ⟨m, hm⟩ := h'.ev
  rw [← hn (max n m) (Nat.le_max_left n m), ← hm (max n m) (Nat.le_max_right n m)]

theorem ChoiceC.det {es : List Expr} {s : S0} {r r' : R0}
    (h : ChoiceC g inp es s r) (h' : ChoiceC g inp es s r') : r = r' := by
  obtain ⟨n, hn⟩ := h.ev
  obtain ⟨m, hm⟩ := h'.ev
  rw [← hn (max n m) (Nat.le_max_left n m), ← hm (max n m) (Nat.le_max_right n m)]

/-! ### one node in terms of its parts -/

/-- a meaning is always obtained with at least one unit of fuel -/
theorem conv_succ {e : Expr} {s : S0} {r : R0} :
    Conv g inp e s r ↔ ∃ n, step g inp n (run g inp n) e s = r ∧ r ≠ .oof := by
  constructor
  · rintro ⟨n, h, hr⟩
    cases n with
    | zero => exact absurd h.symm hr
    | succ n => exact ⟨n, h, hr⟩
  · rintro ⟨n, h, hr⟩
    exact ⟨n + 1, h, hr⟩

theorem conv_seq {es : List Expr} {s : S0} {r : R0} :
    Conv g inp (.seq es) s r ↔ SeqC g inp es s [] r := conv_succ

theorem conv_choice {es : List Expr} {s : S0} {r : R0} :
    Conv g inp (.choice es) s r ↔ ChoiceC g inp es s r := conv_succ

theorem conv_rep {e : Expr} {s : S0} {r : R0} :
    Conv g inp (.rep e) s r ↔ RepC g inp e true s [] r := conv_succ

theorem conv_ident {name : String} {t : Option String} {s : S0} {r : R0} :
    Conv g inp (.ident name t) s r ↔ CallC g inp name s r := conv_succ

theorem conv_rule {name : String} {mod : Nat} {sm : Bool} {body : Expr} {s : S0} {r : R0} :
    Conv g inp (.rule name mod sm body) s r ↔ RuleC g inp name mod body s r := conv_succ

theorem conv_rep1 {e : Expr} {s : S0} {r : R0} :
    Conv g inp (.rep1 e) s r ↔ SeqC g inp [e, .rep e] s [] r := conv_succ
theorem conv_repExact {e : Expr} {n : Nat} {s : S0} {r : R0} :
    Conv g inp (.repExact e n) s r ↔ SeqC g inp (List.replicate n e) s [] r := conv_succ
theorem conv_repMin {e : Expr} {n : Nat} {s : S0} {r : R0} :
    Conv g inp (.repMin e n) s r ↔ SeqC g inp (List.replicate n e ++ [.rep e]) s [] r := conv_succ
theorem conv_repMax {e : Expr} {n : Nat} {s : S0} {r : R0} :
    Conv g inp (.repMax e n) s r ↔ SeqC g inp (List.replicate n (.opt e)) s [] r := conv_succ
theorem conv_repMinMax {e : Expr} {m n : Nat} {s : S0} {r : R0} :
    Conv g inp (.repMinMax e m n) s r ↔
      SeqC g inp (List.replicate m e ++ List.replicate (n - m) (.opt e)) s [] r := conv_succ

/-- a node that post-processes the answer of one sub-expression -/
theorem conv_unary {x e : Expr} {s s1 : S0} {r : R0} (f : R0 → R0)
    (hf : ∀ r, f r = .oof ↔ r = .oof)
    (hx : ∀ k (rec : Sem0), step g inp k rec x s = f (rec e s1)) :
    Conv g inp x s r ↔ ∃ r1, Conv g inp e s1 r1 ∧ r = f r1 := by
  rw [conv_succ]
  constructor
  · rintro ⟨n, h, hr⟩
    rw [hx] at h
    refine ⟨run g inp n e s1, ⟨n, rfl, ?_⟩, h.symm⟩
    intro e0; rw [e0, (hf _).2 rfl] at h; exact hr h.symm
  · rintro ⟨r1, ⟨n, h, hr1⟩, rfl⟩
    refine ⟨n, by rw [hx, h], ?_⟩
    intro e0; exact hr1 ((hf _).1 e0)

/-- **a group is transparent** (whatever its tag: L0 has no tags) -/
theorem conv_group {e : Expr} {t : Option String} {s : S0} {r : R0} :
    Conv g inp (.group e t) s r ↔ Conv g inp e s r := by
  rw [conv_unary (x := .group e t) (e := e) (s1 := s) id (fun _ => Iff.rfl) (fun _ _ => rfl)]
  constructor
  · rintro ⟨r1, h, rfl⟩; exact h
  · intro h; exact ⟨r, h, rfl⟩

def optK (s : S0) : R0 → R0 | .fail => .ok s [] | r => r
def andK (s : S0) : R0 → R0 | .ok _ _ => .ok s [] | r => r
def notK (s : S0) : R0 → R0 | .ok _ _ => .fail | .fail => .ok s [] | r => r
def pushK (inp : Input) (s : S0) : R0 → R0
  | .ok s' ps => .ok { s' with stk := slice inp s.pos s'.pos :: s'.stk } ps | r => r

theorem conv_opt {e : Expr} {s : S0} {r : R0} :
    Conv g inp (.opt e) s r ↔ ∃ r1, Conv g inp e s r1 ∧ r = optK s r1 := by
  apply conv_unary (optK s)
  · intro r; cases r <;> simp [optK]
  · intro k rec; simp only [step, optK]; cases rec e s <;> rfl

theorem conv_andP {e : Expr} {s : S0} {r : R0} :
    Conv g inp (.andP e) s r ↔ ∃ r1, Conv g inp e s r1 ∧ r = andK s r1 := by
  apply conv_unary (andK s)
  · intro r; cases r <;> simp [andK]
  · intro k rec; simp only [step, andK]; cases rec e s <;> rfl

theorem conv_notP {e : Expr} {s : S0} {r : R0} :
    Conv g inp (.notP e) s r ↔ ∃ r1, Conv g inp e s r1 ∧ r = notK s r1 := by
  apply conv_unary (notK s)
  · intro r; cases r <;> simp [notK]
  · intro k rec; simp only [step, notK]; cases rec e s <;> rfl

theorem conv_push {e : Expr} {s : S0} {r : R0} :
    Conv g inp (.push e) s r ↔ ∃ r1, Conv g inp e s r1 ∧ r = pushK inp s r1 := by
  apply conv_unary (pushK inp s)
  · intro r; cases r <;> simp [pushK]
  · intro k rec; simp only [step, pushK]; cases rec e s <;> rfl

/-- a node that calls nothing -/
theorem conv_leaf {x : Expr} {s : S0} {r : R0} (v : R0) (hv : v ≠ .oof)
    (hx : ∀ k (rec : Sem0), step g inp k rec x s = v) : Conv g inp x s r ↔ r = v := by
  rw [conv_succ]
  constructor
  · rintro ⟨n, h, _⟩; rw [hx] at h; exact h.symm
  · rintro rfl; exact ⟨0, hx _ _, hv⟩

theorem conv_str {x : Str} {s : S0} {r : R0} :
    Conv g inp (.str x) s r ↔
      r = (if startsWithAt inp x s.pos then .ok (adv s x.length) [] else .fail) := by
  apply conv_leaf
  · by_cases h : startsWithAt inp x s.pos = true <;> simp [h]
  · intro k rec; rfl

/-! ### rule application -/

def wrapK (name : String) (mod : Nat) (s : S0) : R0 → R0
  | .ok s' ps => ruleWrap name mod s s' ps
  | r => r

theorem ruleWrap_ne_oof (name : String) (mod : Nat) (s s' : S0) (ps : List Pair) :
    ruleWrap name mod s s' ps ≠ .oof := by
  unfold ruleWrap
  by_cases h : hasBit mod SILENT = true <;> simp [h]

theorem wrapK_oof (name : String) (mod : Nat) (s : S0) (r : R0) : wrapK name mod s r = .oof ↔ r = .oof := by
  cases r with
  | ok s' ps => simp [wrapK, ruleWrap_ne_oof]
  | _ => simp [wrapK]

theorem ruleApply_eq (rec : Sem0) (name : String) (mod : Nat) (body : Expr) (s : S0) :
    ruleApply rec name mod body s =
      wrapK name mod s (rec body { s with atomic := ruleAtomic name mod s.atomic }) := by
  unfold ruleApply wrapK
  cases rec body { s with atomic := ruleAtomic name mod s.atomic } <;> rfl

theorem ruleC_iff {name : String} {mod : Nat} {body : Expr} {s : S0} {r : R0} :
    RuleC g inp name mod body s r ↔
      ∃ r1, Conv g inp body { s with atomic := ruleAtomic name mod s.atomic } r1 ∧ r = wrapK name mod s r1 := by
  constructor
  · rintro ⟨n, h, hr⟩
    rw [ruleApply_eq] at h
    refine ⟨_, ⟨n, rfl, ?_⟩, h.symm⟩
    intro e0; rw [e0] at h; exact hr h.symm
  · rintro ⟨r1, ⟨n, h, hr1⟩, rfl⟩
    refine ⟨n, by rw [ruleApply_eq, h], ?_⟩
    intro e0; exact hr1 ((wrapK_oof _ _ _ _).1 e0)

theorem callC_iff {name : String} {s : S0} {r : R0} :
    CallC g inp name s r ↔
      (match g.lookup name with
       | none => r = .stuck
       | some rl => RuleC g inp rl.name rl.mod rl.body s r) := by
  unfold CallC callRule
  cases g.lookup name with
  | none =>
    simp only []
    constructor
    · rintro ⟨_, h, _⟩; exact h.symm
    · rintro rfl; exact ⟨0, rfl, by simp⟩
  | some rl => exact Iff.rfl

/-! ### sequences -/

/-- what follows the first element of a sequence, given that element's answer `r1` -/
def SeqK (g : Grammar) (inp : Input) (rest : List Expr) (acc : List Pair) (r1 r : R0) : Prop :=
  match r1 with
  | .ok s1 ps =>
    if rest.isEmpty then r = .ok s1 (acc ++ ps)
    else ∃ r2, SkipC g inp s1 r2 ∧
      (match r2 with
       | .ok s2 tps => SeqC g inp rest s2 (acc ++ ps ++ tps) r
       | .fail => SeqC g inp rest s1 (acc ++ ps) r
       | _ => r = r2)
  | _ => r = r1

theorem seqC_nil {s : S0} {acc : List Pair} {r : R0} : SeqC g inp [] s acc r ↔ r = .ok s acc := by
  constructor
  · rintro ⟨_, h, _⟩; exact h.symm
  · rintro rfl; exact ⟨0, rfl, by simp⟩

theorem seqC_cons {e : Expr} {rest : List Expr} {s : S0} {acc : List Pair} {r : R0} :
    SeqC g inp (e :: rest) s acc r ↔ ∃ r1, Conv g inp e s r1 ∧ SeqK g inp rest acc r1 r := by
  constructor
  · rintro ⟨n, h, hr⟩
    simp only [seqL] at h
    cases he : run g inp n e s with
    | oof => rw [he] at h; exact absurd h.symm hr
    | fail => rw [he] at h; exact ⟨.fail, ⟨n, he, by simp⟩, h.symm⟩
    | stuck => rw [he] at h; exact ⟨.stuck, ⟨n, he, by simp⟩, h.symm⟩
    | ok s1 ps =>
      rw [he] at h
      refine ⟨.ok s1 ps, ⟨n, he, by simp⟩, ?_⟩
      simp only [SeqK]
      by_cases hre : rest.isEmpty = true
      · simp only [hre, ↓reduceIte] at h ⊢; exact h.symm
      · simp only [hre, Bool.false_eq_true, ↓reduceIte] at h ⊢
        cases hs : skip g (run g inp n) n s1 with
        | oof => rw [hs] at h; exact absurd h.symm hr
        | fail => rw [hs] at h; exact ⟨.fail, ⟨n, hs, by simp⟩, ⟨n, h, hr⟩⟩
        | stuck => rw [hs] at h; exact ⟨.stuck, ⟨n, hs, by simp⟩, h.symm⟩
        | ok s2 tps => rw [hs] at h; exact ⟨.ok s2 tps, ⟨n, hs, by simp⟩, ⟨n, h, hr⟩⟩
  · rintro ⟨r1, h1, hk⟩
    have hr1 := h1.ne
    obtain ⟨n1, e1⟩ := h1.ev
    cases r1 with
    | oof => exact absurd rfl hr1
    | fail =>
      simp only [SeqK] at hk; subst hk
      exact ⟨n1, by simp only [seqL, e1 n1 (Nat.le_refl _)], by simp⟩
    | stuck =>
      simp only [SeqK] at hk; subst hk
      exact ⟨n1, by simp only [seqL, e1 n1 (Nat.le_refl _)], by simp⟩
    | ok s1 ps =>
      simp only [SeqK] at hk
      by_cases hre : rest.isEmpty = true
      · simp only [hre, ↓reduceIte] at hk; subst hk
        exact ⟨n1, by simp only [seqL, e1 n1 (Nat.le_refl _), hre, ↓reduceIte], by simp⟩
      · simp only [hre, Bool.false_eq_true, ↓reduceIte] at hk
        obtain ⟨r2, h2, hk⟩ := hk
        have hr2 := h2.ne
        obtain ⟨n2, e2⟩ := h2.ev
        cases r2 with
        | oof => exact absurd rfl hr2
        | stuck =>
          simp only [] at hk; subst hk
          refine ⟨max n1 n2, ?_, by simp⟩
          simp only [seqL, e1 _ (Nat.le_max_left n1 n2), hre, Bool.false_eq_true, ↓reduceIte,
            e2 _ (Nat.le_max_right n1 n2)]
        | fail =>
          simp only [] at hk
          have hr := hk.ne
          obtain ⟨n3, e3⟩ := hk.ev
          refine ⟨max n1 (max n2 n3), ?_, hr⟩
          simp only [seqL, e1 _ (Nat.le_max_left _ _), hre, Bool.false_eq_true, ↓reduceIte,
            e2 (max n1 (max n2 n3)) (by omega), e3 (max n1 (max n2 n3)) (by omega)]
        | ok s2 tps =>
          simp only [] at hk
          have hr := hk.ne
          obtain ⟨n3, e3⟩ := hk.ev
          refine ⟨max n1 (max n2 n3), ?_, hr⟩
          simp only [seqL, e1 _ (Nat.le_max_left _ _), hre, Bool.false_eq_true, ↓reduceIte,
            e2 (max n1 (max n2 n3)) (by omega), e3 (max n1 (max n2 n3)) (by omega)]

theorem seqC_single {e : Expr} {s : S0} {r : R0} : SeqC g inp [e] s [] r ↔ Conv g inp e s r := by
  rw [seqC_cons]
  constructor
  · rintro ⟨r1, h1, hk⟩
    cases r1 <;> simp [SeqK] at hk <;> subst hk <;> exact h1
  · intro h
    refine ⟨r, h, ?_⟩
    cases r <;> simp [SeqK]

/-- pairs already collected are simply prepended -/
def prepend (acc : List Pair) : R0 → R0
  | .ok s ps => .ok s (acc ++ ps)
  | r => r

theorem prepend_prepend (a b : List Pair) (r : R0) : prepend a (prepend b r) = prepend (a ++ b) r := by
  cases r <;> simp [prepend]

theorem prepend_oof (a : List Pair) (r : R0) : prepend a r = .oof ↔ r = .oof := by
  cases r <;> simp [prepend]

theorem seqL_acc (rec : Sem0) (k : Nat) :
    ∀ (es : List Expr) (s : S0) (acc : List Pair),
      seqL g rec k es s acc = prepend acc (seqL g rec k es s []) := by
  intro es
  induction es with
  | nil => intro s acc; simp [seqL, prepend]
  | cons e rest ih =>
    intro s acc
    simp only [seqL]
    cases rec e s with
    | ok s1 ps =>
      simp only []
      by_cases hre : rest.isEmpty = true
      · simp [hre, prepend]
      · simp only [hre, Bool.false_eq_true, ↓reduceIte]
        cases skip g rec k s1 with
        | ok s2 tps =>
          simp only []
          rw [ih s2 (acc ++ ps ++ tps), ih s2 ([] ++ ps ++ tps), prepend_prepend]
          simp [List.append_assoc]
        | fail =>
          simp only []
          rw [ih s1 (acc ++ ps), ih s1 ([] ++ ps), prepend_prepend]
          simp
        | oof => rfl
        | stuck => rfl
    | fail => rfl
    | oof => rfl
    | stuck => rfl

theorem seqC_acc {es : List Expr} {s : S0} {acc : List Pair} {r : R0} :
    SeqC g inp es s acc r ↔ ∃ r0, SeqC g inp es s [] r0 ∧ r = prepend acc r0 := by
  constructor
  · rintro ⟨n, h, hr⟩
    rw [seqL_acc] at h
    refine ⟨_, ⟨n, rfl, ?_⟩, h.symm⟩
    intro e0; rw [e0] at h; exact hr h.symm
  · rintro ⟨r0, ⟨n, h, hr0⟩, rfl⟩
    refine ⟨n, by rw [seqL_acc, h], ?_⟩
    intro e0; exact hr0 ((prepend_oof _ _).1 e0)

theorem seqK_prepend {cs : List Expr} {acc P : List Pair} {rb r : R0} :
    SeqK g inp cs acc (prepend P rb) r ↔ SeqK g inp cs (acc ++ P) rb r := by
  cases rb <;> simp only [SeqK, prepend, List.append_assoc]

theorem seqK_congr {A B : List Expr} (hE : A.isEmpty = B.isEmpty)
    (h : ∀ s acc r, SeqC g inp A s acc r ↔ SeqC g inp B s acc r) {acc : List Pair} {r1 r : R0} :
    SeqK g inp A acc r1 r ↔ SeqK g inp B acc r1 r := by
  cases r1 with
  | ok s1 ps =>
    simp only [SeqK, hE]
    by_cases hb : B.isEmpty = true
    · simp only [hb, ↓reduceIte]
    · simp only [hb, Bool.false_eq_true, ↓reduceIte]
      apply exists_congr
      intro r2
      cases r2 <;> simp only [h]
  | _ => simp only [SeqK]

/-- a non-empty block `bs` inside a sequence behaves like one element whose answer is the
    block's answer -/
theorem seqC_block (b : Expr) (bs cs : List Expr) :
    ∀ (s : S0) (acc : List Pair) (r : R0),
      SeqC g inp ((b :: bs) ++ cs) s acc r ↔
        ∃ rb, SeqC g inp (b :: bs) s [] rb ∧ SeqK g inp cs acc rb r := by
  induction bs generalizing b with
  | nil =>
    intro s acc r
    simp only [List.cons_append, List.nil_append, seqC_single]
    exact seqC_cons
  | cons b2 bs ih =>
    intro s acc r
    have hne : ((b2 :: bs) ++ cs).isEmpty = false := by simp
    have hne' : (b2 :: bs).isEmpty = false := by simp
    rw [List.cons_append, seqC_cons]
    constructor
    · rintro ⟨r1, h1, hk⟩
      cases r1 with
      | ok s1 ps =>
        simp only [SeqK, hne, Bool.false_eq_true, ↓reduceIte] at hk
        obtain ⟨r2, h2, hk⟩ := hk
        cases r2 with
        | ok s2 tps =>
          simp only [] at hk
          obtain ⟨rb', hb', hk'⟩ := (ih b2 s2 _ r).1 hk
          refine ⟨prepend ([] ++ ps ++ tps) rb', ?_, ?_⟩
          · rw [seqC_cons]
            refine ⟨.ok s1 ps, h1, ?_⟩
            simp only [SeqK, hne', Bool.false_eq_true, ↓reduceIte]
            exact ⟨.ok s2 tps, h2, seqC_acc.2 ⟨rb', hb', rfl⟩⟩
          · rw [seqK_prepend]; simpa [List.append_assoc] using hk'
        | fail =>
          simp only [] at hk
          obtain ⟨rb', hb', hk'⟩ := (ih b2 s1 _ r).1 hk
          refine ⟨prepend ([] ++ ps) rb', ?_, ?_⟩
          · rw [seqC_cons]
            refine ⟨.ok s1 ps, h1, ?_⟩
            simp only [SeqK, hne', Bool.false_eq_true, ↓reduceIte]
            exact ⟨.fail, h2, seqC_acc.2 ⟨rb', hb', rfl⟩⟩
          · rw [seqK_prepend]; simpa using hk'
        | stuck =>
          simp only [] at hk; subst hk
          refine ⟨.stuck, ?_, by simp [SeqK]⟩
          rw [seqC_cons]
          refine ⟨.ok s1 ps, h1, ?_⟩
          simp only [SeqK, hne', Bool.false_eq_true, ↓reduceIte]
          exact ⟨.stuck, h2, rfl⟩
        | oof => exact absurd rfl h2.ne
      | fail =>
        simp only [SeqK] at hk; subst hk
        exact ⟨.fail, seqC_cons.2 ⟨.fail, h1, by simp [SeqK]⟩, by simp [SeqK]⟩
      | stuck =>
        simp only [SeqK] at hk; subst hk
        exact ⟨.stuck, seqC_cons.2 ⟨.stuck, h1, by simp [SeqK]⟩, by simp [SeqK]⟩
      | oof => exact absurd rfl h1.ne
    · rintro ⟨rb, hb, hk⟩
      rw [seqC_cons] at hb
      obtain ⟨r1, h1, hk1⟩ := hb
      refine ⟨r1, h1, ?_⟩
      cases r1 with
      | ok s1 ps =>
        simp only [SeqK, hne', Bool.false_eq_true, ↓reduceIte] at hk1
        simp only [SeqK, hne, Bool.false_eq_true, ↓reduceIte]
        obtain ⟨r2, h2, hk1⟩ := hk1
        refine ⟨r2, h2, ?_⟩
        cases r2 with
        | ok s2 tps =>
          simp only [] at hk1 ⊢
          obtain ⟨rb', hb', rfl⟩ := seqC_acc.1 hk1
          rw [seqK_prepend] at hk
          refine (ih b2 s2 _ r).2 ⟨rb', hb', ?_⟩
          simpa [List.append_assoc] using hk
        | fail =>
          simp only [] at hk1 ⊢
          obtain ⟨rb', hb', rfl⟩ := seqC_acc.1 hk1
          rw [seqK_prepend] at hk
          refine (ih b2 s1 _ r).2 ⟨rb', hb', ?_⟩
          simpa using hk
        | stuck =>
          simp only [] at hk1 ⊢; subst hk1
          simpa [SeqK] using hk
        | oof => exact absurd rfl h2.ne
      | fail => simp only [SeqK] at hk1 ⊢; subst hk1; simpa [SeqK] using hk
      | stuck => simp only [SeqK] at hk1 ⊢; subst hk1; simpa [SeqK] using hk
      | oof => exact absurd rfl h1.ne

/-- a parenthesised non-empty sequence as an element of a sequence -/
theorem seqC_group_block {b : Expr} {bs cs : List Expr} {t : Option String} {s : S0}
    {acc : List Pair} {r : R0} :
    SeqC g inp (.group (.seq (b :: bs)) t :: cs) s acc r ↔ SeqC g inp ((b :: bs) ++ cs) s acc r := by
  rw [seqC_cons, seqC_block]
  simp only [conv_group, conv_seq]

/-- … and a directly nested one (no `Group` node in between) -/
theorem seqC_seq_block {b : Expr} {bs cs : List Expr} {s : S0} {acc : List Pair} {r : R0} :
    SeqC g inp (.seq (b :: bs) :: cs) s acc r ↔ SeqC g inp ((b :: bs) ++ cs) s acc r := by
  rw [seqC_cons, seqC_block]
  simp only [conv_seq]

theorem seqC_congr_right {X Y : List Expr} (hE : X.isEmpty = Y.isEmpty)
    (h : ∀ s acc r, SeqC g inp X s acc r ↔ SeqC g inp Y s acc r) :
    ∀ (as : List Expr) (s : S0) (acc : List Pair) (r : R0),
      SeqC g inp (as ++ X) s acc r ↔ SeqC g inp (as ++ Y) s acc r := by
  intro as
  induction as with
  | nil => intro s acc r; exact h s acc r
  | cons a as ih =>
    intro s acc r
    simp only [List.cons_append, seqC_cons]
    apply exists_congr
    intro r1
    apply and_congr_right
    intro _
    apply seqK_congr
    · cases as <;> simp [hE]
    · exact ih

/-! ### choices -/

def ChoiceK (g : Grammar) (inp : Input) (rest : List Expr) (s : S0) (r1 r : R0) : Prop :=
  match r1 with
  | .fail => ChoiceC g inp rest s r
  | _ => r = r1

theorem choiceC_nil {s : S0} {r : R0} : ChoiceC g inp [] s r ↔ r = .fail := by
  constructor
  · rintro ⟨_, h, _⟩; exact h.symm
  · rintro rfl; exact ⟨0, rfl, by simp⟩

theorem choiceC_cons {e : Expr} {rest : List Expr} {s : S0} {r : R0} :
    ChoiceC g inp (e :: rest) s r ↔ ∃ r1, Conv g inp e s r1 ∧ ChoiceK g inp rest s r1 r := by
  constructor
  · rintro ⟨n, h, hr⟩
    simp only [choiceL] at h
    cases he : run g inp n e s with
    | oof => rw [he] at h; exact absurd h.symm hr
    | fail => rw [he] at h; exact ⟨.fail, ⟨n, he, by simp⟩, ⟨n, h, hr⟩⟩
    | stuck => rw [he] at h; exact ⟨.stuck, ⟨n, he, by simp⟩, h.symm⟩
    | ok s1 ps => rw [he] at h; exact ⟨.ok s1 ps, ⟨n, he, by simp⟩, h.symm⟩
  · rintro ⟨r1, h1, hk⟩
    have hr1 := h1.ne
    obtain ⟨n1, e1⟩ := h1.ev
    cases r1 with
    | oof => exact absurd rfl hr1
    | fail =>
      simp only [ChoiceK] at hk
      have hr := hk.ne
      obtain ⟨n2, e2⟩ := hk.ev
      refine ⟨max n1 n2, ?_, hr⟩
      simp only [choiceL, e1 _ (Nat.le_max_left n1 n2), e2 _ (Nat.le_max_right n1 n2)]
    | stuck =>
      simp only [ChoiceK] at hk; subst hk
      exact ⟨n1, by simp only [choiceL, e1 n1 (Nat.le_refl _)], by simp⟩
    | ok s1 ps =>
      simp only [ChoiceK] at hk; subst hk
      exact ⟨n1, by simp only [choiceL, e1 n1 (Nat.le_refl _)], by simp⟩

theorem choiceC_single {e : Expr} {s : S0} {r : R0} : ChoiceC g inp [e] s r ↔ Conv g inp e s r := by
  rw [choiceC_cons]
  constructor
  · rintro ⟨r1, h1, hk⟩
    cases r1 <;> simp [ChoiceK, choiceC_nil] at hk <;> subst hk <;> exact h1
  · intro h
    refine ⟨r, h, ?_⟩
    cases r <;> simp [ChoiceK, choiceC_nil]

theorem choiceK_congr {A B : List Expr} {s : S0} (h : ∀ r, ChoiceC g inp A s r ↔ ChoiceC g inp B s r)
    {r1 r : R0} : ChoiceK g inp A s r1 r ↔ ChoiceK g inp B s r1 r := by
  cases r1 <;> simp only [ChoiceK, h]

theorem choiceC_append {as bs : List Expr} {s : S0} :
    ∀ {r : R0}, ChoiceC g inp (as ++ bs) s r ↔ ∃ r1, ChoiceC g inp as s r1 ∧ ChoiceK g inp bs s r1 r := by
  induction as with
  | nil =>
    intro r
    simp only [List.nil_append, choiceC_nil]
    constructor
    · intro h; exact ⟨.fail, rfl, h⟩
    · rintro ⟨r1, rfl, h⟩; exact h
  | cons a as ih =>
    intro r
    simp only [List.cons_append, choiceC_cons]
    constructor
    · rintro ⟨ra, ha, hk⟩
      cases ra with
      | fail =>
        simp only [ChoiceK] at hk
        obtain ⟨r1, h1, hk1⟩ := ih.1 hk
        exact ⟨r1, ⟨.fail, ha, h1⟩, hk1⟩
      | ok s1 ps => simp only [ChoiceK] at hk; subst hk; exact ⟨_, ⟨_, ha, rfl⟩, rfl⟩
      | stuck => simp only [ChoiceK] at hk; subst hk; exact ⟨_, ⟨_, ha, rfl⟩, rfl⟩
      | oof => exact absurd rfl ha.ne
    · rintro ⟨r1, ⟨ra, ha, hk1⟩, hk⟩
      refine ⟨ra, ha, ?_⟩
      cases ra with
      | fail => simp only [ChoiceK] at hk1 ⊢; exact ih.2 ⟨r1, hk1, hk⟩
      | ok s1 ps => simp only [ChoiceK] at hk1 ⊢; subst hk1; simpa [ChoiceK] using hk
      | stuck => simp only [ChoiceK] at hk1 ⊢; subst hk1; simpa [ChoiceK] using hk
      | oof => exact absurd rfl ha.ne

theorem choiceC_group_block {bs cs : List Expr} {t : Option String} {s : S0} {r : R0} :
    ChoiceC g inp (.group (.choice bs) t :: cs) s r ↔ ChoiceC g inp (bs ++ cs) s r := by
  rw [choiceC_cons, choiceC_append]
  simp only [conv_group, conv_choice]

theorem choiceC_choice_block {bs cs : List Expr} {s : S0} {r : R0} :
    ChoiceC g inp (.choice bs :: cs) s r ↔ ChoiceC g inp (bs ++ cs) s r := by
  rw [choiceC_cons, choiceC_append]
  simp only [conv_choice]

theorem choiceC_congr_right {X Y as : List Expr} {s : S0} (h : ∀ r, ChoiceC g inp X s r ↔ ChoiceC g inp Y s r)
    {r : R0} : ChoiceC g inp (as ++ X) s r ↔ ChoiceC g inp (as ++ Y) s r := by
  rw [choiceC_append, choiceC_append]
  apply exists_congr
  intro r1
  apply and_congr_right
  intro _
  exact choiceK_congr h

/-! ## Part 2 — the laws -/

/-- `Conv`-equivalence of two expressions of one grammar on one input (all states) -/
def EquivAt (g : Grammar) (inp : Input) (e e' : Expr) : Prop :=
  ∀ (s : S0) (r : R0), Conv g inp e s r ↔ Conv g inp e' s r

theorem EquivAt.refl (e : Expr) : EquivAt g inp e e := fun _ _ => Iff.rfl
theorem EquivAt.symm {e e' : Expr} (h : EquivAt g inp e e') : EquivAt g inp e' e := fun s r => (h s r).symm
theorem EquivAt.trans {a b c : Expr} (h1 : EquivAt g inp a b) (h2 : EquivAt g inp b c) :
    EquivAt g inp a c := fun s r => (h1 s r).trans (h2 s r)

theorem EquivE.refl (g : Grammar) (e : Expr) : EquivE g g e e := fun _ _ _ => Iff.rfl
theorem EquivE.symm {g g' : Grammar} {e e' : Expr} (h : EquivE g g' e e') : EquivE g' g e' e :=
  fun inp s r => (h inp s r).symm
theorem EquivE.trans {g1 g2 g3 : Grammar} {a b c : Expr} (h1 : EquivE g1 g2 a b) (h2 : EquivE g2 g3 b c) :
    EquivE g1 g3 a c := fun inp s r => (h1 inp s r).trans (h2 inp s r)
theorem EquivE.at {g : Grammar} {e e' : Expr} (h : EquivE g g e e') (inp : Input) : EquivAt g inp e e' :=
  h inp

/-- (1) redundant parentheses -/
theorem group_id (e : Expr) (t : Option String) : EquivAt g inp (.group e t) e := fun _ _ => conv_group

/-- (2) a parenthesised **non-empty** sequence inside a sequence can be flattened (and back) -/
theorem seq_assoc (as : List Expr) (b : Expr) (bs cs : List Expr) (t : Option String) :
    EquivAt g inp (.seq (as ++ [.group (.seq (b :: bs)) t] ++ cs)) (.seq (as ++ (b :: bs) ++ cs)) := by
  intro s r
  rw [conv_seq, conv_seq, List.append_assoc, List.append_assoc]
  apply seqC_congr_right (by simp)
  intro s acc r
  exact seqC_group_block

/-- (2) the same for a directly nested sequence -/
theorem seq_flatten (as : List Expr) (b : Expr) (bs cs : List Expr) :
    EquivAt g inp (.seq (as ++ [.seq (b :: bs)] ++ cs)) (.seq (as ++ (b :: bs) ++ cs)) := by
  intro s r
  rw [conv_seq, conv_seq, List.append_assoc, List.append_assoc]
  apply seqC_congr_right (by simp)
  intro s acc r
  exact seqC_seq_block

theorem seq_assoc_right (a b c : Expr) (t : Option String) :
    EquivAt g inp (.seq [a, .group (.seq [b, c]) t]) (.seq [a, b, c]) :=
  seq_assoc [a] b [c] [] t

theorem seq_assoc_left (a b c : Expr) (t : Option String) :
    EquivAt g inp (.seq [.group (.seq [a, b]) t, c]) (.seq [a, b, c]) :=
  seq_assoc [] a [b] [c] t

/-- (2') a parenthesised choice inside a choice can be flattened (also when it is empty) -/
theorem choice_assoc (as bs cs : List Expr) (t : Option String) :
    EquivAt g inp (.choice (as ++ [.group (.choice bs) t] ++ cs)) (.choice (as ++ bs ++ cs)) := by
  intro s r
  rw [conv_choice, conv_choice, List.append_assoc, List.append_assoc]
  apply choiceC_congr_right
  intro r
  exact choiceC_group_block

theorem choice_flatten (as bs cs : List Expr) :
    EquivAt g inp (.choice (as ++ [.choice bs] ++ cs)) (.choice (as ++ bs ++ cs)) := by
  intro s r
  rw [conv_choice, conv_choice, List.append_assoc, List.append_assoc]
  apply choiceC_congr_right
  intro r
  exact choiceC_choice_block

theorem choice_assoc_right (a b c : Expr) (t : Option String) :
    EquivAt g inp (.choice [a, .group (.choice [b, c]) t]) (.choice [a, b, c]) :=
  choice_assoc [a] [b, c] [] t

theorem choice_assoc_left (a b c : Expr) (t : Option String) :
    EquivAt g inp (.choice [.group (.choice [a, b]) t, c]) (.choice [a, b, c]) :=
  choice_assoc [] [a, b] [c] t

/-- (3) `(e | e) = e` -/
theorem dup_choice (e : Expr) (t : Option String) : EquivAt g inp (.group (.choice [e, e]) t) e := by
  intro s r
  rw [conv_group, conv_choice, choiceC_cons]
  constructor
  · rintro ⟨r1, h1, hk⟩
    cases r1 with
    | fail => simp only [ChoiceK] at hk; exact choiceC_single.1 hk
    | ok s1 ps => simp only [ChoiceK] at hk; subst hk; exact h1
    | stuck => simp only [ChoiceK] at hk; subst hk; exact h1
    | oof => exact absurd rfl h1.ne
  · intro h
    refine ⟨r, h, ?_⟩
    cases r with
    | fail => simp only [ChoiceK]; exact choiceC_single.2 h
    | _ => simp only [ChoiceK]

/-! ### guards that can never succeed -/

/-- the literal `x` occurs nowhere in the input (so `.str x` fails at every position) -/
def NeverAt (inp : Input) (x : Str) : Prop := ∀ p, startsWithAt inp x p = false

/-- … e.g. because its first character does not occur in the input -/
theorem neverAt_of_head {c : CP} {rest : Str} (h : ∀ i : Nat, inp[i]? ≠ some c) : NeverAt inp (c :: rest) := by
  intro p
  simp only [startsWithAt]
  cases hp : inp[p]? with
  | none => simp
  | some d =>
    by_cases hd : d = c
    · subst hd; exact absurd hp (h p)
    · simp [hd]

/-- the syntactic condition of the property text: the first character of `x` does not occur
    in `inp` -/
def NeverIn (x : Str) (inp : Input) : Prop := ∃ c rest, x = c :: rest ∧ ∀ i : Nat, inp[i]? ≠ some c

theorem NeverIn.neverAt {x : Str} (h : NeverIn x inp) : NeverAt inp x := by
  obtain ⟨c, rest, rfl, hc⟩ := h
  exact neverAt_of_head hc

theorem conv_never {x : Str} (hx : NeverAt inp x) {s : S0} {r : R0} :
    Conv g inp (.str x) s r ↔ r = .fail := by
  rw [conv_str, hx s.pos]; simp

/-- the answer of `… ~ NEVER` once trivia after `…` answered `r2` -/
def failOr : R0 → R0
  | .ok _ _ => .fail
  | r => r

theorem seqC_never {x : Str} (hx : NeverAt inp x) {s : S0} {A : List Pair} {r : R0} :
    SeqC g inp [.str x] s A r ↔ r = .fail := by
  rw [seqC_cons]
  constructor
  · rintro ⟨r1, h1, hk⟩
    rw [conv_never hx] at h1; subst h1
    simpa [SeqK] using hk
  · rintro rfl
    exact ⟨.fail, (conv_never hx).2 rfl, by simp [SeqK]⟩

theorem seqK_never {x : Str} (hx : NeverAt inp x) {acc : List Pair} {s1 : S0} {ps : List Pair} {r1 : R0} :
    SeqK g inp [.str x] acc (.ok s1 ps) r1 ↔ ∃ r2, SkipC g inp s1 r2 ∧ r1 = failOr r2 := by
  simp only [SeqK, List.isEmpty_cons, Bool.false_eq_true, ↓reduceIte]
  apply exists_congr
  intro r2
  cases r2 <;> simp only [seqC_never hx, failOr]

/-- `(a ~ NEVER) | e`, with redundant parentheses as the rewrite writes them -/
theorem conv_guard {a e : Expr} {x : Str} {t1 t2 : Option String} {s : S0} {r : R0} :
    Conv g inp (.group (.choice [.group (.seq [a, .str x]) t1, e]) t2) s r ↔
      ∃ r1, (∃ ra, Conv g inp a s ra ∧ SeqK g inp [.str x] [] ra r1) ∧
        (match r1 with | .fail => Conv g inp e s r | _ => r = r1) := by
  rw [conv_group, conv_choice, choiceC_cons]
  apply exists_congr
  intro r1
  rw [conv_group, conv_seq, seqC_cons]
  apply and_congr_right
  intro _
  cases r1 <;> simp only [ChoiceK, choiceC_single]

/-- implicit trivia at `s` answers (does not diverge) and does not hit an undefined rule -/
def SkipOK (g : Grammar) (inp : Input) (s : S0) : Prop := ∃ r2, SkipC g inp s r2 ∧ r2 ≠ .stuck

/-- implicit trivia answers from every state.  True of every grammar whose WHITESPACE / COMMENT
    rules (a) reference only defined rules, (b) cannot match the empty string in a loop and
    (c) are not left-recursive — what pest's own validator demands of trivia rules. -/
def TriviaTotal (g : Grammar) (inp : Input) : Prop := ∀ s, SkipOK g inp s

theorem skipOK_of_atomic {s : S0} (h : s.atomic = true) : SkipOK g inp s :=
  ⟨.ok s [], ⟨0, by simp [skip, h], by simp⟩, by simp⟩

/-- a grammar without trivia rules has total trivia -/
theorem triviaTotal_of_none (h1 : g.fusedSkip = none) (h2 : g.lookup "WHITESPACE" = none)
    (h3 : g.lookup "COMMENT" = none) : TriviaTotal g inp := by
  intro s
  refine ⟨.ok s [], ⟨0, ?_, by simp⟩, by simp⟩
  unfold skip
  by_cases ha : s.atomic = true
  · simp [ha]
  · simp [ha, h1, h2, h3]

/-- (4), exact form: what `(e ~ NEVER) | e` means in terms of `e` and the trivia after it -/
theorem never_seq_fwd {e : Expr} {x : Str} (hx : NeverAt inp x) {t1 t2 : Option String} {s : S0} {r : R0}
    (h : Conv g inp (.group (.choice [.group (.seq [e, .str x]) t1, e]) t2) s r) :
    Conv g inp e s r ∨
      (r = .stuck ∧ ∃ s1 ps, Conv g inp e s (.ok s1 ps) ∧ SkipC g inp s1 .stuck) := by
  obtain ⟨r1, ⟨ra, ha, hka⟩, hk⟩ := conv_guard.1 h
  cases ra with
  | ok s1 ps =>
    obtain ⟨r2, h2, rfl⟩ := (seqK_never hx).1 hka
    cases r2 with
    | ok s2 tps => exact Or.inl hk
    | fail => exact Or.inl hk
    | stuck => exact Or.inr ⟨hk, s1, ps, ha, h2⟩
    | oof => exact absurd rfl h2.ne
  | fail => simp only [SeqK] at hka; subst hka; exact Or.inl hk
  | stuck => simp only [SeqK] at hka; subst hka; simp only [] at hk; subst hk; exact Or.inl ha
  | oof => exact absurd rfl ha.ne

theorem never_seq_bwd {e : Expr} {x : Str} (hx : NeverAt inp x) (t1 t2 : Option String) {s : S0} {r : R0}
    (h : Conv g inp e s r) (hs : ∀ s1 ps, r = .ok s1 ps → SkipOK g inp s1) :
    Conv g inp (.group (.choice [.group (.seq [e, .str x]) t1, e]) t2) s r := by
  rw [conv_guard]
  cases r with
  | ok s1 ps =>
    obtain ⟨r2, h2, hne⟩ := hs s1 ps rfl
    refine ⟨.fail, ⟨_, h, (seqK_never hx).2 ⟨r2, h2, ?_⟩⟩, h⟩
    cases r2 with
    | stuck => exact absurd rfl hne
    | oof => exact absurd rfl h2.ne
    | _ => rfl
  | fail => exact ⟨.fail, ⟨_, h, by simp [SeqK]⟩, h⟩
  | stuck => exact ⟨.stuck, ⟨_, h, by simp [SeqK]⟩, rfl⟩
  | oof => exact absurd rfl h.ne

/-- (4) `(e ~ NEVER) | e = e` when implicit trivia is total -/
theorem never_seq (e : Expr) {x : Str} (hx : NeverAt inp x) (ht : TriviaTotal g inp) (t1 t2 : Option String) :
    EquivAt g inp (.group (.choice [.group (.seq [e, .str x]) t1, e]) t2) e := by
  intro s r
  constructor
  · intro h
    rcases never_seq_fwd hx h with h' | ⟨_, s1, _, _, h2⟩
    · exact h'
    · obtain ⟨r2, h2', hne⟩ := ht s1
      exact absurd (h2.det h2').symm hne
  · intro h; exact never_seq_bwd hx t1 t2 h (fun s1 _ _ => ht s1)

/-- (5), exact form -/
theorem never_notpred_fwd {e : Expr} {x : Str} (hx : NeverAt inp x) {t1 t2 : Option String} {s : S0} {r : R0}
    (h : Conv g inp (.group (.choice [.group (.seq [.notP e, .str x]) t1, e]) t2) s r) :
    Conv g inp e s r ∨ (r = .stuck ∧ Conv g inp e s .fail ∧ SkipC g inp s .stuck) := by
  obtain ⟨r1, ⟨ra, ha, hka⟩, hk⟩ := conv_guard.1 h
  obtain ⟨r0, h0, rfl⟩ := conv_notP.1 ha
  cases r0 with
  | ok s1 ps => simp only [notK, SeqK] at hka; subst hka; exact Or.inl hk
  | fail =>
    simp only [notK] at hka
    obtain ⟨r2, h2, rfl⟩ := (seqK_never hx).1 hka
    cases r2 with
    | ok s2 tps => exact Or.inl hk
    | fail => exact Or.inl hk
    | stuck => exact Or.inr ⟨hk, h0, h2⟩
    | oof => exact absurd rfl h2.ne
  | stuck => simp only [notK, SeqK] at hka; subst hka; simp only [] at hk; subst hk; exact Or.inl h0
  | oof => exact absurd rfl h0.ne

theorem never_notpred_bwd {e : Expr} {x : Str} (hx : NeverAt inp x) (t1 t2 : Option String) {s : S0} {r : R0}
    (h : Conv g inp e s r) (hs : r = .fail → SkipOK g inp s) :
    Conv g inp (.group (.choice [.group (.seq [.notP e, .str x]) t1, e]) t2) s r := by
  rw [conv_guard]
  cases r with
  | ok s1 ps =>
    exact ⟨.fail, ⟨_, conv_notP.2 ⟨_, h, rfl⟩, by simp [notK, SeqK]⟩, h⟩
  | fail =>
    obtain ⟨r2, h2, hne⟩ := hs rfl
    refine ⟨.fail, ⟨_, conv_notP.2 ⟨_, h, rfl⟩, ?_⟩, h⟩
    simp only [notK]
    refine (seqK_never hx).2 ⟨r2, h2, ?_⟩
    cases r2 with
    | stuck => exact absurd rfl hne
    | oof => exact absurd rfl h2.ne
    | _ => rfl
  | stuck => exact ⟨.stuck, ⟨_, conv_notP.2 ⟨_, h, rfl⟩, by simp [notK, SeqK]⟩, rfl⟩
  | oof => exact absurd rfl h.ne

/-- (5) `(!e ~ NEVER) | e = e` when implicit trivia is total -/
theorem never_notpred (e : Expr) {x : Str} (hx : NeverAt inp x) (ht : TriviaTotal g inp)
    (t1 t2 : Option String) :
    EquivAt g inp (.group (.choice [.group (.seq [.notP e, .str x]) t1, e]) t2) e := by
  intro s r
  constructor
  · intro h
    rcases never_notpred_fwd hx h with h' | ⟨_, _, h2⟩
    · exact h'
    · obtain ⟨r2, h2', hne⟩ := ht s
      exact absurd (h2.det h2').symm hne
  · intro h; exact never_notpred_bwd hx t1 t2 h (fun _ => ht s)

/-! ## Part 3 — atomicity is preserved by every expression -/

def AtomKeep (rec : Sem0) : Prop := ∀ e s s' ps, rec e s = .ok s' ps → s'.atomic = s.atomic

theorem ruleWrap_atomic {name : String} {mod : Nat} {s s' out : S0} {ps qs : List Pair}
    (h : ruleWrap name mod s s' ps = .ok out qs) : out.atomic = s.atomic := by
  unfold ruleWrap at h
  by_cases hS : hasBit mod SILENT = true
  · simp only [hS, ↓reduceIte, R0.ok.injEq] at h; rw [← h.1]
  · simp only [hS, Bool.false_eq_true, ↓reduceIte, R0.ok.injEq] at h; rw [← h.1]

theorem ruleApply_atomic {rec : Sem0} {name : String} {mod : Nat} {body : Expr} {s s' : S0} {ps : List Pair}
    (h : ruleApply rec name mod body s = .ok s' ps) : s'.atomic = s.atomic := by
  rw [ruleApply_eq] at h
  cases hb : rec body { s with atomic := ruleAtomic name mod s.atomic } with
  | ok s1 ps1 => rw [hb] at h; exact ruleWrap_atomic h
  | _ => rw [hb] at h; cases h

theorem callRule_atomic {rec : Sem0} {name : String} {s s' : S0} {ps : List Pair}
    (h : callRule g rec name s = .ok s' ps) : s'.atomic = s.atomic := by
  unfold callRule at h
  cases hl : g.lookup name with
  | none => rw [hl] at h; cases h
  | some rl => rw [hl] at h; exact ruleApply_atomic h

theorem trySkip_atomic {rec : Sem0} {rl : Option Rule} {s s' : S0} {ps : List Pair}
    (h : trySkip rec rl s = .matched s' ps) : s'.atomic = s.atomic := by
  unfold trySkip at h
  cases rl with
  | none => cases h
  | some rl =>
    simp only [] at h
    cases hb : ruleApply rec rl.name rl.mod rl.body s with
    | ok s1 ps1 =>
      rw [hb] at h
      simp only [Try0.matched.injEq] at h
      rw [← h.1]; exact ruleApply_atomic hb
    | _ => rw [hb] at h; cases h

theorem skipLoop_atomic {rec : Sem0} {ws cm : Option Rule} :
    ∀ (k : Nat) (s : S0) (acc : List Pair) (s' : S0) (ps : List Pair),
      skipLoop rec ws cm k s acc = .ok s' ps → s'.atomic = s.atomic := by
  intro k
  induction k with
  | zero => intro s acc s' ps h; cases h
  | succ k ih =>
    intro s acc s' ps h
    simp only [skipLoop] at h
    cases h1 : trySkip rec ws s with
    | matched s1 ps1 => rw [h1] at h; rw [ih _ _ _ _ h, trySkip_atomic h1]
    | stop x => rw [h1] at h; simp only [] at h; subst h; exact absurd h1 (by
        intro h1; unfold trySkip at h1
        cases ws with
        | none => cases h1
        | some rl =>
          simp only [] at h1
          cases hb : ruleApply rec rl.name rl.mod rl.body s <;> rw [hb] at h1 <;> cases h1)
    | no =>
      rw [h1] at h
      simp only [] at h
      cases h2 : trySkip rec cm s with
      | matched s1 ps1 => rw [h2] at h; rw [ih _ _ _ _ h, trySkip_atomic h2]
      | stop x => rw [h2] at h; simp only [] at h; subst h; exact absurd h2 (by
          intro h2; unfold trySkip at h2
          cases cm with
          | none => cases h2
          | some rl =>
            simp only [] at h2
            cases hb : ruleApply rec rl.name rl.mod rl.body s <;> rw [hb] at h2 <;> cases h2)
      | no => rw [h2] at h; simp only [R0.ok.injEq] at h; rw [← h.1]

theorem skip_atomic {rec : Sem0} {k : Nat} {s s' : S0} {ps : List Pair}
    (h : skip g rec k s = .ok s' ps) : s'.atomic = s.atomic := by
  unfold skip at h
  by_cases ha : s.atomic = true
  · simp only [ha, ↓reduceIte, R0.ok.injEq] at h; rw [← h.1]
  · simp only [ha, Bool.false_eq_true, ↓reduceIte] at h
    cases hf : g.fusedSkip with
    | some rl => rw [hf] at h; exact ruleApply_atomic h
    | none =>
      rw [hf] at h
      simp only [] at h
      by_cases hn : ((g.lookup "WHITESPACE").isNone && (g.lookup "COMMENT").isNone) = true
      · simp only [hn, ↓reduceIte, R0.ok.injEq] at h; rw [← h.1]
      · simp only [hn, Bool.false_eq_true, ↓reduceIte] at h
        exact skipLoop_atomic _ _ _ _ _ h

theorem seqL_atomic {rec : Sem0} (hr : AtomKeep rec) {k : Nat} :
    ∀ (es : List Expr) (s : S0) (acc : List Pair) (s' : S0) (ps : List Pair),
      seqL g rec k es s acc = .ok s' ps → s'.atomic = s.atomic := by
  intro es
  induction es with
  | nil => intro s acc s' ps h; simp only [seqL, R0.ok.injEq] at h; rw [← h.1]
  | cons e rest ih =>
    intro s acc s' ps h
    simp only [seqL] at h
    cases he : rec e s with
    | ok s1 ps1 =>
      rw [he] at h
      simp only [] at h
      have a1 := hr _ _ _ _ he
      by_cases hre : rest.isEmpty = true
      · simp only [hre, ↓reduceIte, R0.ok.injEq] at h; rw [← h.1, a1]
      · simp only [hre, Bool.false_eq_true, ↓reduceIte] at h
        cases hs : skip g rec k s1 with
        | ok s2 tps => rw [hs] at h; rw [ih _ _ _ _ h, skip_atomic hs, a1]
        | fail => rw [hs] at h; rw [ih _ _ _ _ h, a1]
        | oof => rw [hs] at h; cases h
        | stuck => rw [hs] at h; cases h
    | _ => rw [he] at h; cases h

theorem choiceL_atomic {rec : Sem0} (hr : AtomKeep rec) :
    ∀ (es : List Expr) (s : S0) (s' : S0) (ps : List Pair),
      choiceL rec es s = .ok s' ps → s'.atomic = s.atomic := by
  intro es
  induction es with
  | nil => intro s s' ps h; cases h
  | cons e rest ih =>
    intro s s' ps h
    simp only [choiceL] at h
    cases he : rec e s with
    | ok s1 ps1 => rw [he] at h; simp only [R0.ok.injEq] at h; rw [← h.1]; exact hr _ _ _ _ he
    | fail => rw [he] at h; exact ih _ _ _ h
    | oof => rw [he] at h; cases h
    | stuck => rw [he] at h; cases h

theorem repLoop_atomic {rec : Sem0} (hr : AtomKeep rec) {e : Expr} {kk : Nat} :
    ∀ (k : Nat) (first : Bool) (s : S0) (acc : List Pair) (s' : S0) (ps : List Pair),
      repLoop g rec e k kk first s acc = .ok s' ps → s'.atomic = s.atomic := by
  intro k
  induction k with
  | zero => intro first s acc s' ps h; cases h
  | succ k ih =>
    intro first s acc s' ps h
    simp only [repLoop] at h
    cases ha : (if first = true then R0.ok s [] else skip g rec kk s) with
    | ok s1 tps =>
      rw [ha] at h
      simp only [] at h
      have a1 : s1.atomic = s.atomic := by
        by_cases hf : first = true
        · simp only [hf, ↓reduceIte, R0.ok.injEq] at ha; rw [← ha.1]
        · simp only [hf, Bool.false_eq_true, ↓reduceIte] at ha; exact skip_atomic ha
      cases he : rec e s1 with
      | ok s2 ps2 => rw [he] at h; rw [ih _ _ _ _ _ h, hr _ _ _ _ he, a1]
      | fail => rw [he] at h; simp only [R0.ok.injEq] at h; rw [← h.1]
      | oof => rw [he] at h; cases h
      | stuck => rw [he] at h; cases h
    | fail => rw [ha] at h; simp only [R0.ok.injEq] at h; rw [← h.1]
    | oof => rw [ha] at h; cases h
    | stuck => rw [ha] at h; cases h

theorem step_atomic {rec : Sem0} (hr : AtomKeep rec) (k : Nat) : AtomKeep (step g inp k rec) := by
  intro e s s' ps h
  cases e with
  | ident name tag => exact callRule_atomic h
  | rule name mod sm body => exact ruleApply_atomic h
  | seq es => exact seqL_atomic hr _ _ _ _ _ h
  | choice es => exact choiceL_atomic hr _ _ _ _ h
  | rep e => exact repLoop_atomic hr _ _ _ _ _ _ h
  | rep1 e => exact seqL_atomic hr _ _ _ _ _ h
  | repExact e n => exact seqL_atomic hr _ _ _ _ _ h
  | repMin e n => exact seqL_atomic hr _ _ _ _ _ h
  | repMax e n => exact seqL_atomic hr _ _ _ _ _ h
  | repMinMax e m n => exact seqL_atomic hr _ _ _ _ _ h
  | group e tag => exact hr _ _ _ _ h
  | opt e =>
    simp only [step] at h
    cases he : rec e s with
    | ok s1 ps1 => rw [he] at h; simp only [R0.ok.injEq] at h; rw [← h.1]; exact hr _ _ _ _ he
    | fail => rw [he] at h; simp only [R0.ok.injEq] at h; rw [← h.1]
    | oof => rw [he] at h; cases h
    | stuck => rw [he] at h; cases h
  | andP e =>
    simp only [step] at h
    cases he : rec e s with
    | ok s1 ps1 => rw [he] at h; simp only [R0.ok.injEq] at h; rw [← h.1]
    | _ => rw [he] at h; cases h
  | notP e =>
    simp only [step] at h
    cases he : rec e s with
    | fail => rw [he] at h; simp only [R0.ok.injEq] at h; rw [← h.1]
    | _ => rw [he] at h; cases h
  | push e =>
    simp only [step] at h
    cases he : rec e s with
    | ok s1 ps1 =>
      rw [he] at h; simp only [R0.ok.injEq] at h; rw [← h.1]
      exact (hr _ _ _ _ he : s1.atomic = s.atomic)
    | _ => rw [he] at h; cases h
  | _ =>
    simp only [step, matchLits] at h
    (repeat' split at h) <;> simp only [R0.ok.injEq, reduceCtorEq] at h <;>
      (try (rw [← h.1]; try rfl))

theorem run_atomic : ∀ n, AtomKeep (run g inp n) := by
  intro n
  induction n with
  | zero => intro e s s' ps h; cases h
  | succ n ih => exact step_atomic ih n

theorem Conv.atomic {e : Expr} {s s' : S0} {ps : List Pair} (h : Conv g inp e s (.ok s' ps)) :
    s'.atomic = s.atomic := by
  obtain ⟨n, hn, _⟩ := h
  exact run_atomic n _ _ _ _ hn

/-- **a silent rule that does not touch atomicity is its body** -/
theorem silent_rule_inline {nm : String} {rl : Rule} (hl : g.lookup nm = some rl)
    (hS : hasBit rl.mod SILENT = true) (hA : hasBit rl.mod ATOMIC = false)
    (hC : hasBit rl.mod COMPOUND = false) (hN : hasBit rl.mod NONATOMIC = false)
    (hT : L1.isTriviaName rl.name = false) (t : Option String) :
    EquivAt g inp (.ident nm t) rl.body := by
  intro s r
  rw [conv_ident, callC_iff, hl]
  simp only []
  rw [ruleC_iff]
  have ha : ruleAtomic rl.name rl.mod s.atomic = s.atomic := by simp [ruleAtomic, hA, hC, hN, hT]
  rw [ha]
  constructor
  · rintro ⟨r1, h1, rfl⟩
    cases r1 with
    | ok s1 ps =>
      have : s1.atomic = s.atomic := h1.atomic
      simp only [wrapK, ruleWrap, hS, ↓reduceIte, ← this]
      exact h1
    | _ => exact h1
  · intro h
    refine ⟨r, h, ?_⟩
    cases r with
    | ok s1 ps =>
      have : s1.atomic = s.atomic := h.atomic
      simp only [wrapK, ruleWrap, hS, ↓reduceIte, ← this]
    | _ => rfl

/-! ## Part 4 — simulation between two grammars -/

/-- pointwise relation of two lists -/
inductive ListRel2 {α β : Type} (R : α → β → Prop) : List α → List β → Prop
  | nil : ListRel2 R [] []
  | cons {a b as bs} : R a b → ListRel2 R as bs → ListRel2 R (a :: as) (b :: bs)

theorem ListRel2.isEmpty_eq {α β : Type} {R : α → β → Prop} {as : List α} {bs : List β} (h : ListRel2 R as bs) :
    as.isEmpty = bs.isEmpty := by
  cases h <;> rfl

theorem ListRel2.of_forall {α : Type} {R : α → α → Prop} : ∀ {as : List α}, (∀ a, a ∈ as → R a a) → ListRel2 R as as
  | [], _ => .nil
  | a :: as, h => .cons (h a (by simp)) (ListRel2.of_forall fun b hb => h b (by simp [hb]))

theorem ListRel2.append {α β : Type} {R : α → β → Prop} {as as' : List α} {bs bs' : List β}
    (h : ListRel2 R as bs) (h' : ListRel2 R as' bs') : ListRel2 R (as ++ as') (bs ++ bs') := by
  induction h with
  | nil => exact h'
  | cons hab _ ih => exact .cons hab ih

theorem ListRel2.flip {α β : Type} {R : α → β → Prop} {as : List α} {bs : List β} (h : ListRel2 R as bs) :
    ListRel2 (fun b a => R a b) bs as := by
  induction h with
  | nil => exact .nil
  | cons hab _ ih => exact .cons hab ih

theorem ListRel2.mono {α β : Type} {R R' : α → β → Prop} (hR : ∀ a b, R a b → R' a b) {as : List α} {bs : List β}
    (h : ListRel2 R as bs) : ListRel2 R' as bs := by
  induction h with
  | nil => exact .nil
  | cons hab _ ih => exact .cons (hR _ _ hab) ih

theorem ListRel2.replicate {α β : Type} {R : α → β → Prop} {a : α} {b : β} (h : R a b) (n : Nat) :
    ListRel2 R (List.replicate n a) (List.replicate n b) := by
  induction n with
  | zero => exact .nil
  | succ n ih => exact .cons h ih

/-- two rule-table entries: both absent, or same name and modifier and related bodies -/
def RuleRel (Q : Expr → Expr → Prop) : Option Rule → Option Rule → Prop
  | none, none => True
  | some r, some r' => r.name = r'.name ∧ r.mod = r'.mod ∧ Q r.body r'.body
  | _, _ => False

theorem RuleRel.isNone_eq {Q : Expr → Expr → Prop} {a b : Option Rule} (h : RuleRel Q a b) :
    a.isNone = b.isNone := by
  cases a <;> cases b <;> simp_all [RuleRel]

/-- nodes that call no sub-expression and no rule -/
def isLeaf : Expr → Bool
  | .str _ | .ci _ | .range _ _ | .pushLit _ | .peek | .pop | .drop | .peekAll | .popAll
  | .peekSlice _ _ | .anyB | .soiB | .eoiB | .uprop _ | .skipUntil _ | .optChoice _ _ => true
  | _ => false

/-- `x` (run in `g`) and `x'` (run in `g'`) have the same top node, and everything one step of
    the semantics hands to the recursive call is related by `Q` -/
inductive Struct (g g' : Grammar) (Q : Expr → Expr → Prop) : Expr → Expr → Prop
  | leaf {x} : isLeaf x = true → Struct g g' Q x x
  | ident {n n' t t'} : RuleRel Q (g.lookup n) (g'.lookup n') → Struct g g' Q (.ident n t) (.ident n' t')
  | rule {n m sm sm' b b'} : Q b b' → Struct g g' Q (.rule n m sm b) (.rule n m sm' b')
  | seq {es es'} : ListRel2 Q es es' → Struct g g' Q (.seq es) (.seq es')
  | choice {es es'} : ListRel2 Q es es' → Struct g g' Q (.choice es) (.choice es')
  | opt {e e'} : Q e e' → Struct g g' Q (.opt e) (.opt e')
  | rep {e e'} : Q e e' → Struct g g' Q (.rep e) (.rep e')
  | rep1 {e e'} : Q e e' → Q (.rep e) (.rep e') → Struct g g' Q (.rep1 e) (.rep1 e')
  | repExact {e e' n} : Q e e' → Struct g g' Q (.repExact e n) (.repExact e' n)
  | repMin {e e' n} : Q e e' → Q (.rep e) (.rep e') → Struct g g' Q (.repMin e n) (.repMin e' n)
  | repMax {e e' n} : Q (.opt e) (.opt e') → Struct g g' Q (.repMax e n) (.repMax e' n)
  | repMinMax {e e' m n} : Q e e' → Q (.opt e) (.opt e') →
      Struct g g' Q (.repMinMax e m n) (.repMinMax e' m n)
  | andP {e e'} : Q e e' → Struct g g' Q (.andP e) (.andP e')
  | notP {e e'} : Q e e' → Struct g g' Q (.notP e) (.notP e')
  | group {e e' t t'} : Q e e' → Struct g g' Q (.group e t) (.group e' t')
  | push {e e'} : Q e e' → Struct g g' Q (.push e) (.push e')

/-- the hypotheses of the simulation theorem.  `step`: a related pair is either known to be
    simulated (first disjunct), or is simulated structurally up to an implication that holds
    inside the target grammar (second disjunct). -/
structure Sim (g g' : Grammar) (inp : Input) (Q : Expr → Expr → Prop) : Prop where
  usets : g'.usets = g.usets
  fused : RuleRel Q g.fusedSkip g'.fusedSkip
  ws : RuleRel Q (g.lookup "WHITESPACE") (g'.lookup "WHITESPACE")
  cm : RuleRel Q (g.lookup "COMMENT") (g'.lookup "COMMENT")
  step : ∀ x x'', Q x x'' →
    (∀ s r, Conv g inp x s r → Conv g' inp x'' s r) ∨
    (∃ x', Struct g g' Q x x' ∧ ∀ s r, Conv g' inp x' s r → Conv g' inp x'' s r)

/-- what is known of the recursive call in the induction on fuel -/
def RecSim (g' : Grammar) (inp : Input) (Q : Expr → Expr → Prop) (rec : Sem0) : Prop :=
  ∀ x x', Q x x' → ∀ s r, rec x s = r → r ≠ .oof → Conv g' inp x' s r

/-! ### leaves depend on the grammar only through its Unicode tables -/

theorem uprop_eq {g g' : Grammar} (hu : g'.usets = g.usets) : g'.uprop = g.uprop := by
  funext n c; simp [Grammar.uprop, hu]

theorem optMatchOnce_eq {g g' : Grammar} (hu : g'.usets = g.usets) (alts : List Alt) (pos : Nat) :
    L1.optMatchOnce g' inp alts pos = L1.optMatchOnce g inp alts pos := by
  simp only [L1.optMatchOnce, uprop_eq hu]

theorem optMatchStar_eq {g g' : Grammar} (hu : g'.usets = g.usets) (alts : List Alt) :
    ∀ (k pos : Nat), L1.optMatchStar g' inp alts k pos = L1.optMatchStar g inp alts k pos := by
  intro k
  induction k with
  | zero => intro pos; rfl
  | succ k ih => intro pos; simp only [L1.optMatchStar, optMatchOnce_eq hu, ih]

theorem optMatch_eq {g g' : Grammar} (hu : g'.usets = g.usets) (alts : List Alt) (star : Bool) (pos : Nat) :
    L1.optMatch g' inp alts star pos = L1.optMatch g inp alts star pos := by
  simp only [L1.optMatch, optMatchOnce_eq hu, optMatchStar_eq hu]

theorem leaf_step_eq {g g' : Grammar} (hu : g'.usets = g.usets) {x : Expr} (hx : isLeaf x = true)
    (k k' : Nat) (rec rec' : Sem0) (s : S0) : step g inp k rec x s = step g' inp k' rec' x s := by
  cases x with
  | uprop n => simp only [step, uprop_eq hu]
  | optChoice alts star => simp only [step, optMatch_eq hu]
  | str _ | ci _ | range _ _ | pushLit _ | peek | pop | drop | peekAll | popAll | peekSlice _ _
  | anyB | soiB | eoiB | skipUntil _ => rfl
  | _ => simp [isLeaf] at hx

/-! ### assembling answers in the target grammar -/

theorem skipLoopC_intro {ws cm : Option Rule} {s : S0} {acc : List Pair} {r : R0}
    (h : ∃ t1, TryC g inp ws s t1 ∧
      (match t1 with
       | .matched s' ps => SkipLoopC g inp ws cm s' (acc ++ ps) r
       | .stop x => r = x
       | .no => ∃ t2, TryC g inp cm s t2 ∧
          (match t2 with
           | .matched s' ps => SkipLoopC g inp ws cm s' (acc ++ ps) r
           | .stop x => r = x
           | .no => r = .ok s acc))) :
    SkipLoopC g inp ws cm s acc r := by
  obtain ⟨t1, h1, hk⟩ := h
  obtain ⟨n1, e1⟩ := h1.ev
  obtain ⟨_, _, hne1⟩ := h1
  cases t1 with
  | matched s' ps =>
    simp only [] at hk
    obtain ⟨n2, e2⟩ := hk.ev
    obtain ⟨_, _, hr⟩ := hk
    refine ⟨max n1 n2 + 1, ?_, hr⟩
    simp only [skipLoop, e1 (max n1 n2 + 1) (by omega)]
    exact e2 _ (by omega) _ (by omega)
  | stop x =>
    simp only [] at hk; subst hk
    refine ⟨n1 + 1, ?_, hne1 _ rfl⟩
    simp only [skipLoop, e1 (n1 + 1) (by omega)]
  | no =>
    simp only [] at hk
    obtain ⟨t2, h2, hk⟩ := hk
    obtain ⟨n2, e2⟩ := h2.ev
    obtain ⟨_, _, hne2⟩ := h2
    cases t2 with
    | matched s' ps =>
      simp only [] at hk
      obtain ⟨n3, e3⟩ := hk.ev
      obtain ⟨_, _, hr⟩ := hk
      refine ⟨max n1 (max n2 n3) + 1, ?_, hr⟩
      simp only [skipLoop, e1 (max n1 (max n2 n3) + 1) (by omega), e2 (max n1 (max n2 n3) + 1) (by omega)]
      exact e3 _ (by omega) _ (by omega)
    | stop x =>
      simp only [] at hk; subst hk
      refine ⟨max n1 n2 + 1, ?_, hne2 _ rfl⟩
      simp only [skipLoop, e1 (max n1 n2 + 1) (by omega), e2 (max n1 n2 + 1) (by omega)]
    | no =>
      simp only [] at hk; subst hk
      refine ⟨max n1 n2 + 1, ?_, by simp⟩
      simp only [skipLoop, e1 (max n1 n2 + 1) (by omega), e2 (max n1 n2 + 1) (by omega)]

theorem repC_intro {e : Expr} {first : Bool} {s : S0} {acc : List Pair} {r : R0}
    (h : ∃ ra, (if first = true then ra = .ok s [] else SkipC g inp s ra) ∧
      (match ra with
       | .ok s1 tps => ∃ re, Conv g inp e s1 re ∧
          (match re with
           | .ok s2 ps => RepC g inp e false s2 (acc ++ tps ++ ps) r
           | .fail => r = .ok s acc
           | _ => r = re)
       | .fail => r = .ok s acc
       | _ => r = ra)) :
    RepC g inp e first s acc r := by
  obtain ⟨ra, h1, hk⟩ := h
  have hra : ra ≠ .oof := by
    by_cases hf : first = true
    · simp only [hf, ↓reduceIte] at h1; subst h1; simp
    · simp only [hf, Bool.false_eq_true, ↓reduceIte] at h1; exact h1.ne
  obtain ⟨n1, e1⟩ : ∃ n, ∀ m, n ≤ m → (if first = true then R0.ok s [] else skip g (run g inp m) m s) = ra := by
    by_cases hf : first = true
    · simp only [hf, ↓reduceIte] at h1 ⊢; exact ⟨0, fun _ _ => h1.symm⟩
    · simp only [hf, Bool.false_eq_true, ↓reduceIte] at h1 ⊢; exact h1.ev
  cases ra with
  | oof => exact absurd rfl hra
  | fail =>
    simp only [] at hk; subst hk
    refine ⟨n1 + 1, ?_, by simp⟩
    simp only [repLoop, e1 (n1 + 1) (by omega)]
  | stuck =>
    simp only [] at hk; subst hk
    refine ⟨n1 + 1, ?_, by simp⟩
    simp only [repLoop, e1 (n1 + 1) (by omega)]
  | ok s1 tps =>
    simp only [] at hk
    obtain ⟨re, h2, hk⟩ := hk
    obtain ⟨n2, e2⟩ := h2.ev
    have hre := h2.ne
    cases re with
    | oof => exact absurd rfl hre
    | fail =>
      simp only [] at hk; subst hk
      refine ⟨max n1 n2 + 1, ?_, by simp⟩
      simp only [repLoop, e1 (max n1 n2 + 1) (by omega), e2 (max n1 n2 + 1) (by omega)]
    | stuck =>
      simp only [] at hk; subst hk
      refine ⟨max n1 n2 + 1, ?_, by simp⟩
      simp only [repLoop, e1 (max n1 n2 + 1) (by omega), e2 (max n1 n2 + 1) (by omega)]
    | ok s2 ps =>
      simp only [] at hk
      obtain ⟨n3, e3⟩ := hk.ev
      obtain ⟨_, _, hr⟩ := hk
      refine ⟨max n1 (max n2 n3) + 1, ?_, hr⟩
      simp only [repLoop, e1 (max n1 (max n2 n3) + 1) (by omega), e2 (max n1 (max n2 n3) + 1) (by omega)]
      exact e3 _ (by omega) _ (by omega)

/-! ### one step is simulated -/

section sim
variable {g' : Grammar} {Q : Expr → Expr → Prop} {rec : Sem0}

theorem ruleApply_sim (hr : RecSim g' inp Q rec) {body body' : Expr} (hq : Q body body')
    {name : String} {mod : Nat} {s : S0} {r : R0}
    (h : ruleApply rec name mod body s = r) (hne : r ≠ .oof) : RuleC g' inp name mod body' s r := by
  rw [ruleApply_eq] at h
  refine ruleC_iff.2 ⟨_, hr _ _ hq _ _ rfl ?_, h.symm⟩
  intro e0; rw [e0] at h; exact hne h.symm

theorem callRule_sim (hr : RecSim g' inp Q rec) {n n' : String} (hrel : RuleRel Q (g.lookup n) (g'.lookup n'))
    {s : S0} {r : R0} (h : callRule g rec n s = r) (hne : r ≠ .oof) : CallC g' inp n' s r := by
  unfold callRule at h
  rw [callC_iff]
  cases hl : g.lookup n with
  | none =>
    cases hl' : g'.lookup n' with
    | none => rw [hl] at h; exact h.symm
    | some rl' => rw [hl, hl'] at hrel; exact hrel.elim
  | some rl =>
    cases hl' : g'.lookup n' with
    | none => rw [hl, hl'] at hrel; exact hrel.elim
    | some rl' =>
      rw [hl, hl'] at hrel
      obtain ⟨hn, hm, hq⟩ := hrel
      rw [hl] at h
      simp only [] at h ⊢
      rw [← hn, ← hm]
      exact ruleApply_sim hr hq h hne

theorem trySkip_sim (hr : RecSim g' inp Q rec) {rl rl' : Option Rule} (hrel : RuleRel Q rl rl')
    {s : S0} {t : Try0} (h : trySkip rec rl s = t) (ht : ∀ x, t = .stop x → x ≠ .oof) :
    TryC g' inp rl' s t := by
  cases rl with
  | none =>
    cases rl' with
    | none => exact ⟨0, h, ht⟩
    | some rl' => exact hrel.elim
  | some rl =>
    cases rl' with
    | none => exact hrel.elim
    | some rl' =>
      obtain ⟨hn, hm, hq⟩ := hrel
      simp only [trySkip] at h
      have hne : ruleApply rec rl.name rl.mod rl.body s ≠ .oof := by
        intro e0; rw [e0] at h; exact ht _ h.symm rfl
      obtain ⟨n, hn', _⟩ := ruleApply_sim hr hq rfl hne
      refine ⟨n, ?_, ht⟩
      simp only [trySkip, ← hn, ← hm, hn']
      exact h

theorem skipLoop_sim (hr : RecSim g' inp Q rec) {ws ws' cm cm' : Option Rule}
    (hws : RuleRel Q ws ws') (hcm : RuleRel Q cm cm') :
    ∀ (k : Nat) (s : S0) (acc : List Pair) (r : R0),
      skipLoop rec ws cm k s acc = r → r ≠ .oof → SkipLoopC g' inp ws' cm' s acc r := by
  intro k
  induction k with
  | zero => intro s acc r h hne; exact absurd h.symm hne
  | succ k ih =>
    intro s acc r h hne
    simp only [skipLoop] at h
    apply skipLoopC_intro
    cases h1 : trySkip rec ws s with
    | matched s1 ps =>
      rw [h1] at h
      exact ⟨_, trySkip_sim hr hws h1 (by simp), ih _ _ _ h hne⟩
    | stop x =>
      rw [h1] at h
      simp only [] at h; subst h
      exact ⟨_, trySkip_sim hr hws h1 (by intro y hy; cases hy; exact hne), rfl⟩
    | no =>
      rw [h1] at h
      simp only [] at h
      refine ⟨_, trySkip_sim hr hws h1 (by simp), ?_⟩
      simp only []
      cases h2 : trySkip rec cm s with
      | matched s1 ps =>
        rw [h2] at h
        exact ⟨_, trySkip_sim hr hcm h2 (by simp), ih _ _ _ h hne⟩
      | stop x =>
        rw [h2] at h
        simp only [] at h; subst h
        exact ⟨_, trySkip_sim hr hcm h2 (by intro y hy; cases hy; exact hne), rfl⟩
      | no =>
        rw [h2] at h
        exact ⟨_, trySkip_sim hr hcm h2 (by simp), h.symm⟩

/-- the trivia-related part of `Sim` -/
structure SkipRel (g g' : Grammar) (Q : Expr → Expr → Prop) : Prop where
  fused : RuleRel Q g.fusedSkip g'.fusedSkip
  ws : RuleRel Q (g.lookup "WHITESPACE") (g'.lookup "WHITESPACE")
  cm : RuleRel Q (g.lookup "COMMENT") (g'.lookup "COMMENT")

theorem skip_sim (hr : RecSim g' inp Q rec) (hsk : SkipRel g g' Q) {k : Nat} {s : S0} {r : R0}
    (h : skip g rec k s = r) (hne : r ≠ .oof) : SkipC g' inp s r := by
  unfold skip at h
  by_cases ha : s.atomic = true
  · simp only [ha, ↓reduceIte] at h; subst h
    exact ⟨0, by simp [skip, ha], by simp⟩
  · simp only [ha, Bool.false_eq_true, ↓reduceIte] at h
    have hf := hsk.fused
    cases hfs : g.fusedSkip with
    | some rl =>
      cases hfs' : g'.fusedSkip with
      | none => rw [hfs, hfs'] at hf; exact hf.elim
      | some rl' =>
        rw [hfs, hfs'] at hf
        obtain ⟨hn, hm, hq⟩ := hf
        rw [hfs] at h
        simp only [] at h
        obtain ⟨n, hn', _⟩ := ruleApply_sim hr hq h hne
        refine ⟨n, ?_, hne⟩
        simp only [skip, ha, Bool.false_eq_true, ↓reduceIte, hfs', ← hn, ← hm]
        exact hn'
    | none =>
      cases hfs' : g'.fusedSkip with
      | some rl' => rw [hfs, hfs'] at hf; exact hf.elim
      | none =>
        rw [hfs] at h
        simp only [] at h
        have e1 := hsk.ws.isNone_eq
        have e2 := hsk.cm.isNone_eq
        by_cases hn : ((g.lookup "WHITESPACE").isNone && (g.lookup "COMMENT").isNone) = true
        · simp only [hn, ↓reduceIte] at h; subst h
          refine ⟨0, ?_, by simp⟩
          rw [e1, e2] at hn
          simp only [skip, ha, Bool.false_eq_true, ↓reduceIte, hfs', hn]
        · simp only [hn, Bool.false_eq_true, ↓reduceIte] at h
          obtain ⟨n, hn', _⟩ := skipLoop_sim hr hsk.ws hsk.cm _ _ _ _ h hne
          refine ⟨n, ?_, hne⟩
          rw [e1, e2] at hn
          simp only [skip, ha, Bool.false_eq_true, ↓reduceIte, hfs', hn]
          exact hn'

theorem seqL_sim (hr : RecSim g' inp Q rec) (hsk : SkipRel g g' Q) {k : Nat} {es es' : List Expr}
    (hes : ListRel2 Q es es') :
    ∀ (s : S0) (acc : List Pair) (r : R0),
      seqL g rec k es s acc = r → r ≠ .oof → SeqC g' inp es' s acc r := by
  induction hes with
  | nil => intro s acc r h _; exact seqC_nil.2 h.symm
  | @cons e e' rest rest' hq hrest ih =>
    intro s acc r h hne
    simp only [seqL] at h
    rw [seqC_cons]
    cases he : rec e s with
    | oof => rw [he] at h; exact absurd h.symm hne
    | fail => rw [he] at h; exact ⟨.fail, hr _ _ hq _ _ he (by simp), h.symm⟩
    | stuck => rw [he] at h; exact ⟨.stuck, hr _ _ hq _ _ he (by simp), h.symm⟩
    | ok s1 ps =>
      rw [he] at h
      refine ⟨.ok s1 ps, hr _ _ hq _ _ he (by simp), ?_⟩
      simp only [SeqK, ← hrest.isEmpty_eq]
      by_cases hre : rest.isEmpty = true
      · simp only [hre, ↓reduceIte] at h ⊢; exact h.symm
      · simp only [hre, Bool.false_eq_true, ↓reduceIte] at h ⊢
        cases hs : skip g rec k s1 with
        | oof => rw [hs] at h; exact absurd h.symm hne
        | fail => rw [hs] at h; exact ⟨.fail, skip_sim hr hsk hs (by simp), ih _ _ _ h hne⟩
        | stuck => rw [hs] at h; exact ⟨.stuck, skip_sim hr hsk hs (by simp), h.symm⟩
        | ok s2 tps => rw [hs] at h; exact ⟨.ok s2 tps, skip_sim hr hsk hs (by simp), ih _ _ _ h hne⟩

theorem choiceL_sim (hr : RecSim g' inp Q rec) {es es' : List Expr} (hes : ListRel2 Q es es') :
    ∀ (s : S0) (r : R0), choiceL rec es s = r → r ≠ .oof → ChoiceC g' inp es' s r := by
  induction hes with
  | nil => intro s r h _; exact choiceC_nil.2 h.symm
  | @cons e e' rest rest' hq hrest ih =>
    intro s r h hne
    simp only [choiceL] at h
    rw [choiceC_cons]
    cases he : rec e s with
    | oof => rw [he] at h; exact absurd h.symm hne
    | fail => rw [he] at h; exact ⟨.fail, hr _ _ hq _ _ he (by simp), ih _ _ h hne⟩
    | stuck => rw [he] at h; exact ⟨.stuck, hr _ _ hq _ _ he (by simp), h.symm⟩
    | ok s1 ps => rw [he] at h; exact ⟨.ok s1 ps, hr _ _ hq _ _ he (by simp), h.symm⟩

theorem repLoop_sim (hr : RecSim g' inp Q rec) (hsk : SkipRel g g' Q) {e e' : Expr} (hq : Q e e')
    {kk : Nat} :
    ∀ (k : Nat) (first : Bool) (s : S0) (acc : List Pair) (r : R0),
      repLoop g rec e k kk first s acc = r → r ≠ .oof → RepC g' inp e' first s acc r := by
  intro k
  induction k with
  | zero => intro first s acc r h hne; exact absurd h.symm hne
  | succ k ih =>
    intro first s acc r h hne
    simp only [repLoop] at h
    apply repC_intro
    cases ha : (if first = true then R0.ok s [] else skip g rec kk s) with
    | oof => rw [ha] at h; exact absurd h.symm hne
    | ok s1 tps =>
      rw [ha] at h
      simp only [] at h
      refine ⟨.ok s1 tps, ?_, ?_⟩
      · by_cases hf : first = true
        · simp only [hf, ↓reduceIte] at ha ⊢; exact ha.symm
        · simp only [hf, Bool.false_eq_true, ↓reduceIte] at ha ⊢; exact skip_sim hr hsk ha (by simp)
      · simp only []
        cases he : rec e s1 with
        | oof => rw [he] at h; exact absurd h.symm hne
        | fail => rw [he] at h; exact ⟨.fail, hr _ _ hq _ _ he (by simp), h.symm⟩
        | stuck => rw [he] at h; exact ⟨.stuck, hr _ _ hq _ _ he (by simp), h.symm⟩
        | ok s2 ps => rw [he] at h; exact ⟨.ok s2 ps, hr _ _ hq _ _ he (by simp), ih _ _ _ _ h hne⟩
    | fail =>
      rw [ha] at h
      refine ⟨.fail, ?_, h.symm⟩
      by_cases hf : first = true
      · simp only [hf, ↓reduceIte] at ha; cases ha
      · simp only [hf, Bool.false_eq_true, ↓reduceIte] at ha ⊢; exact skip_sim hr hsk ha (by simp)
    | stuck =>
      rw [ha] at h
      refine ⟨.stuck, ?_, h.symm⟩
      by_cases hf : first = true
      · simp only [hf, ↓reduceIte] at ha; cases ha
      · simp only [hf, Bool.false_eq_true, ↓reduceIte] at ha ⊢; exact skip_sim hr hsk ha (by simp)

theorem step_sim (hu : g'.usets = g.usets) (hr : RecSim g' inp Q rec) (hsk : SkipRel g g' Q) {k : Nat}
    {x x' : Expr} (hx : Struct g g' Q x x') {s : S0} {r : R0}
    (h : step g inp k rec x s = r) (hne : r ≠ .oof) : Conv g' inp x' s r := by
  cases hx with
  | leaf hl =>
    rw [leaf_step_eq hu hl k 0 rec (run g' inp 0)] at h
    exact ⟨1, h, hne⟩
  | ident hrel => exact conv_ident.2 (callRule_sim hr hrel h hne)
  | rule hq => exact conv_rule.2 (ruleApply_sim hr hq h hne)
  | seq hes => exact conv_seq.2 (seqL_sim hr hsk hes _ _ _ h hne)
  | choice hes => exact conv_choice.2 (choiceL_sim hr hes _ _ h hne)
  | rep hq => exact conv_rep.2 (repLoop_sim hr hsk hq _ _ _ _ _ h hne)
  | rep1 hq hq' => exact conv_rep1.2 (seqL_sim hr hsk (.cons hq (.cons hq' .nil)) _ _ _ h hne)
  | repExact hq => exact conv_repExact.2 (seqL_sim hr hsk (ListRel2.replicate hq _) _ _ _ h hne)
  | repMin hq hq' =>
    exact conv_repMin.2 (seqL_sim hr hsk ((ListRel2.replicate hq _).append (.cons hq' .nil)) _ _ _ h hne)
  | repMax hq => exact conv_repMax.2 (seqL_sim hr hsk (ListRel2.replicate hq _) _ _ _ h hne)
  | repMinMax hq hq' =>
    exact conv_repMinMax.2
      (seqL_sim hr hsk ((ListRel2.replicate hq _).append (ListRel2.replicate hq' _)) _ _ _ h hne)
  | group hq => exact conv_group.2 (hr _ _ hq _ _ h hne)
  | @opt e e' hq =>
    have h' : optK s (rec e s) = r := by rw [← h]; simp only [step, optK]; cases rec e s <;> rfl
    refine conv_opt.2 ⟨rec e s, hr _ _ hq _ _ rfl ?_, h'.symm⟩
    intro e0; rw [e0] at h'; exact hne h'.symm
  | @andP e e' hq =>
    have h' : andK s (rec e s) = r := by rw [← h]; simp only [step, andK]; cases rec e s <;> rfl
    refine conv_andP.2 ⟨rec e s, hr _ _ hq _ _ rfl ?_, h'.symm⟩
    intro e0; rw [e0] at h'; exact hne h'.symm
  | @notP e e' hq =>
    have h' : notK s (rec e s) = r := by rw [← h]; simp only [step, notK]; cases rec e s <;> rfl
    refine conv_notP.2 ⟨rec e s, hr _ _ hq _ _ rfl ?_, h'.symm⟩
    intro e0; rw [e0] at h'; exact hne h'.symm
  | @push e e' hq =>
    have h' : pushK inp s (rec e s) = r := by rw [← h]; simp only [step, pushK]; cases rec e s <;> rfl
    refine conv_push.2 ⟨rec e s, hr _ _ hq _ _ rfl ?_, h'.symm⟩
    intro e0; rw [e0] at h'; exact hne h'.symm

end sim

/-- **Simulation.**  Under `Sim g g' inp Q`, `Q`-related expressions have the same meaning:
    whatever `x` answers in `g`, `x'` answers in `g'`. -/
theorem Sim.conv {g' : Grammar} {Q : Expr → Expr → Prop} (hS : Sim g g' inp Q) :
    ∀ {x x' : Expr}, Q x x' → ∀ {s : S0} {r : R0}, Conv g inp x s r → Conv g' inp x' s r := by
  have key : ∀ n, RecSim g' inp Q (run g inp n) := by
    intro n
    induction n with
    | zero => intro x x' _ s r h hne; exact absurd h.symm hne
    | succ n ih =>
      intro x x'' hq s r h hne
      rcases hS.step x x'' hq with hb | ⟨x', hst, himp⟩
      · exact hb s r ⟨n + 1, h, hne⟩
      · exact himp s r (step_sim hS.usets ih ⟨hS.fused, hS.ws, hS.cm⟩ hst h hne)
  intro x x' hq s r ⟨n, h, hne⟩
  exact key n x x' hq s r h hne

/-! ## Part 5 — congruence, rewriting inside rule bodies, extraction of a silent rule -/

/-- `Sub x c`: one step of the semantics on `x` may hand `c` to the recursive call (the
    syntactic children, and the `e*` / `e?` that the bounded repetitions unroll to) -/
inductive Sub : Expr → Expr → Prop
  | rule {n m sm b} : Sub (.rule n m sm b) b
  | seq {es c} : c ∈ es → Sub (.seq es) c
  | choice {es c} : c ∈ es → Sub (.choice es) c
  | opt {e} : Sub (.opt e) e
  | rep {e} : Sub (.rep e) e
  | rep1 {e} : Sub (.rep1 e) e
  | rep1' {e} : Sub (.rep1 e) (.rep e)
  | repExact {e n} : Sub (.repExact e n) e
  | repMin {e n} : Sub (.repMin e n) e
  | repMin' {e n} : Sub (.repMin e n) (.rep e)
  | repMax {e n} : Sub (.repMax e n) (.opt e)
  | repMinMax {e m n} : Sub (.repMinMax e m n) e
  | repMinMax' {e m n} : Sub (.repMinMax e m n) (.opt e)
  | andP {e} : Sub (.andP e) e
  | notP {e} : Sub (.notP e) e
  | group {e t} : Sub (.group e t) e
  | push {e} : Sub (.push e) e

/-- an expression is structurally related to itself as soon as its children are related to
    themselves and the rules it names are related -/
theorem Struct.of_refl {g g' : Grammar} {Q : Expr → Expr → Prop} (x : Expr) (hc : ∀ c, Sub x c → Q c c)
    (hi : ∀ n t, x = .ident n t → RuleRel Q (g.lookup n) (g'.lookup n)) : Struct g g' Q x x := by
  cases x with
  | ident n t => exact .ident (hi n t rfl)
  | rule n m sm b => exact .rule (hc _ .rule)
  | seq es => exact .seq (ListRel2.of_forall fun c h => hc c (.seq h))
  | choice es => exact .choice (ListRel2.of_forall fun c h => hc c (.choice h))
  | opt e => exact .opt (hc _ .opt)
  | rep e => exact .rep (hc _ .rep)
  | rep1 e => exact .rep1 (hc _ .rep1) (hc _ .rep1')
  | repExact e n => exact .repExact (hc _ .repExact)
  | repMin e n => exact .repMin (hc _ .repMin) (hc _ .repMin')
  | repMax e n => exact .repMax (hc _ .repMax)
  | repMinMax e m n => exact .repMinMax (hc _ .repMinMax) (hc _ .repMinMax')
  | andP e => exact .andP (hc _ .andP)
  | notP e => exact .notP (hc _ .notP)
  | group e t => exact .group (hc _ .group)
  | push e => exact .push (hc _ .push)
  | str _ | ci _ | range _ _ | pushLit _ | peek | pop | drop | peekAll | popAll | peekSlice _ _
  | anyB | soiB | eoiB | uprop _ | skipUntil _ | optChoice _ _ => exact .leaf rfl

theorem RuleRel.flip {Q : Expr → Expr → Prop} {a b : Option Rule} (h : RuleRel Q a b) :
    RuleRel (fun x y => Q y x) b a := by
  cases a <;> cases b <;> simp_all [RuleRel]

theorem Struct.flip {g g' : Grammar} {Q : Expr → Expr → Prop} {x x' : Expr} (h : Struct g g' Q x x') :
    Struct g' g (fun a b => Q b a) x' x := by
  cases h with
  | leaf hl => exact .leaf hl
  | ident hrel => exact .ident hrel.flip
  | rule hq => exact .rule hq
  | seq hes => exact .seq hes.flip
  | choice hes => exact .choice hes.flip
  | opt hq => exact .opt hq
  | rep hq => exact .rep hq
  | rep1 hq hq' => exact .rep1 hq hq'
  | repExact hq => exact .repExact hq
  | repMin hq hq' => exact .repMin hq hq'
  | repMax hq => exact .repMax hq
  | repMinMax hq hq' => exact .repMinMax hq hq'
  | andP hq => exact .andP hq
  | notP hq => exact .notP hq
  | group hq => exact .group hq
  | push hq => exact .push hq

/-- the fused trivia rule is determined by the entry `SKIP` -/
theorem fusedSkip_rel {g g' : Grammar} {Q : Expr → Expr → Prop}
    (h : RuleRel Q (g.lookup "SKIP") (g'.lookup "SKIP")) : RuleRel Q g.fusedSkip g'.fusedSkip := by
  unfold Grammar.fusedSkip
  cases hl : g.lookup "SKIP" with
  | none =>
    cases hl' : g'.lookup "SKIP" with
    | none => trivial
    | some r' => rw [hl, hl'] at h; exact h.elim
  | some r =>
    cases hl' : g'.lookup "SKIP" with
    | none => rw [hl, hl'] at h; exact h.elim
    | some r' =>
      rw [hl, hl'] at h
      obtain ⟨hn, hm, hq⟩ := h
      simp only [← hm]
      by_cases hmod : (r.mod == SILENT + ATOMIC) = true
      · simp only [hmod, ↓reduceIte]; exact ⟨hn, hm, hq⟩
      · simp only [hmod, Bool.false_eq_true, ↓reduceIte]; trivial

/-! ### congruence closure of a base relation -/

/-- `Cong B x x'`: `x'` is `x` with any number of sub-expressions, at any depth, replaced
    along `B` (simultaneously, not nested) -/
inductive Cong (B : Expr → Expr → Prop) : Expr → Expr → Prop
  | base {x x'} : B x x' → Cong B x x'
  | refl (x) : Cong B x x
  | rule {n m sm b b'} : Cong B b b' → Cong B (.rule n m sm b) (.rule n m sm b')
  | seq {es es'} : ListRel2 (Cong B) es es' → Cong B (.seq es) (.seq es')
  | choice {es es'} : ListRel2 (Cong B) es es' → Cong B (.choice es) (.choice es')
  | opt {e e'} : Cong B e e' → Cong B (.opt e) (.opt e')
  | rep {e e'} : Cong B e e' → Cong B (.rep e) (.rep e')
  | rep1 {e e'} : Cong B e e' → Cong B (.rep1 e) (.rep1 e')
  | repExact {e e' n} : Cong B e e' → Cong B (.repExact e n) (.repExact e' n)
  | repMin {e e' n} : Cong B e e' → Cong B (.repMin e n) (.repMin e' n)
  | repMax {e e' n} : Cong B e e' → Cong B (.repMax e n) (.repMax e' n)
  | repMinMax {e e' m n} : Cong B e e' → Cong B (.repMinMax e m n) (.repMinMax e' m n)
  | andP {e e'} : Cong B e e' → Cong B (.andP e) (.andP e')
  | notP {e e'} : Cong B e e' → Cong B (.notP e) (.notP e')
  | group {e e' t} : Cong B e e' → Cong B (.group e t) (.group e' t)
  | push {e e'} : Cong B e e' → Cong B (.push e) (.push e')

theorem Cong.struct {g g' : Grammar} {B : Expr → Expr → Prop}
    (hg : ∀ n, RuleRel (Cong B) (g.lookup n) (g'.lookup n)) {x x' : Expr} (h : Cong B x x') :
    B x x' ∨ Struct g g' (Cong B) x x' := by
  cases h with
  | base hb => exact Or.inl hb
  | refl => exact Or.inr (Struct.of_refl x (fun c _ => .refl c) (fun n _ _ => hg n))
  | rule h => exact Or.inr (.rule h)
  | seq h => exact Or.inr (.seq h)
  | choice h => exact Or.inr (.choice h)
  | opt h => exact Or.inr (.opt h)
  | rep h => exact Or.inr (.rep h)
  | rep1 h => exact Or.inr (.rep1 h (.rep h))
  | repExact h => exact Or.inr (.repExact h)
  | repMin h => exact Or.inr (.repMin h (.rep h))
  | repMax h => exact Or.inr (.repMax (.opt h))
  | repMinMax h => exact Or.inr (.repMinMax h (.opt h))
  | andP h => exact Or.inr (.andP h)
  | notP h => exact Or.inr (.notP h)
  | group h => exact Or.inr (.group h)
  | push h => exact Or.inr (.push h)

/-- two grammars with the same rule names and modifiers whose bodies are related by `Cong B` -/
structure GrammarRel (B : Expr → Expr → Prop) (g g' : Grammar) : Prop where
  usets : g'.usets = g.usets
  rules : ∀ n, RuleRel (Cong B) (g.lookup n) (g'.lookup n)

theorem GrammarRel.refl (B : Expr → Expr → Prop) (g : Grammar) : GrammarRel B g g := by
  refine ⟨rfl, fun n => ?_⟩
  cases g.lookup n with
  | none => trivial
  | some r => exact ⟨rfl, rfl, .refl _⟩

/-- **Rewriting inside expressions and rule bodies, one direction.**  The grammars differ
    only by `B`-rewrites inside rule bodies, and every `B`-pair `(a, b)` satisfies "what `a`
    answers, `b` answers" *in the target grammar*: then what `x` answers in `g`, its rewritten
    form answers in `g'`. -/
theorem cong_grammar_fwd {g' : Grammar} {B : Expr → Expr → Prop} (hG : GrammarRel B g g')
    (hB' : ∀ x x', B x x' → ∀ s r, Conv g' inp x s r → Conv g' inp x' s r)
    {x x' : Expr} (h : Cong B x x') {s : S0} {r : R0} (hc : Conv g inp x s r) : Conv g' inp x' s r := by
  have hS : Sim g g' inp (Cong B) := by
    refine ⟨hG.usets, fusedSkip_rel (hG.rules _), hG.rules _, hG.rules _, ?_⟩
    intro a b hab
    rcases Cong.struct hG.rules hab with hb | hst
    · exact Or.inr ⟨a, Struct.of_refl a (fun c _ => .refl c) (fun n _ _ => hG.rules n), hB' a b hb⟩
    · exact Or.inr ⟨b, hst, fun _ _ h => h⟩
  exact hS.conv h hc

/-- … and the other direction: if every `B`-pair `(a, b)` satisfies "what `b` answers, `a`
    answers" *in the original grammar*, then what the rewritten form answers in the rewritten
    grammar, the original answers in the original grammar.  (Rewriting rule bodies along
    equivalences of the original grammar can lose termination — `a = _{ "x" }` ↦ `a = _{ a }` —
    but it cannot change an answer.) -/
theorem cong_grammar_bwd {g' : Grammar} {B : Expr → Expr → Prop} (hG : GrammarRel B g g')
    (hB : ∀ x x', B x x' → ∀ s r, Conv g inp x' s r → Conv g inp x s r)
    {x x' : Expr} (h : Cong B x x') {s : S0} {r : R0} (hc : Conv g' inp x' s r) : Conv g inp x s r := by
  have hS : Sim g' g inp (fun a b => Cong B b a) := by
    refine ⟨hG.usets.symm, fusedSkip_rel (hG.rules _).flip, (hG.rules _).flip, (hG.rules _).flip, ?_⟩
    intro a b hab
    rcases Cong.struct hG.rules hab with hb | hst
    · exact Or.inr ⟨a, Struct.of_refl a (fun c _ => .refl c) (fun n _ _ => (hG.rules n).flip),
        hB b a hb⟩
    · exact Or.inr ⟨b, hst.flip, fun _ _ h => h⟩
  exact hS.conv (Q := fun a b => Cong B b a) h hc

/-- **Rewriting inside expressions and rule bodies.**  If every `B`-pair is an equivalence in
    both grammars, and the grammars differ only by `B`-rewrites inside rule bodies, then
    expressions that differ only by `B`-rewrites have the same meaning in the two grammars. -/
theorem cong_grammar {g' : Grammar} {B : Expr → Expr → Prop} (hG : GrammarRel B g g')
    (hB : ∀ x x', B x x' → EquivAt g inp x x') (hB' : ∀ x x', B x x' → EquivAt g' inp x x')
    {x x' : Expr} (h : Cong B x x') (s : S0) (r : R0) : Conv g inp x s r ↔ Conv g' inp x' s r :=
  ⟨cong_grammar_fwd hG (fun a b hb s r => (hB' a b hb s r).1) h,
   cong_grammar_bwd hG (fun a b hb s r => (hB a b hb s r).2) h⟩

/-- (7) **congruence** within one grammar: equivalent parts give equivalent wholes -/
theorem cong_equiv {B : Expr → Expr → Prop} (hB : ∀ x x', B x x' → EquivAt g inp x x')
    {x x' : Expr} (h : Cong B x x') : EquivAt g inp x x' :=
  fun s r => cong_grammar (GrammarRel.refl B g) hB hB h s r

/-! ### one-hole contexts -/

inductive Ctx where
  | hole
  | rule (n : String) (m : Nat) (sm : Bool) (C : Ctx)
  | seq (pre : List Expr) (C : Ctx) (post : List Expr)
  | choice (pre : List Expr) (C : Ctx) (post : List Expr)
  | opt (C : Ctx) | rep (C : Ctx) | rep1 (C : Ctx)
  | repExact (C : Ctx) (n : Nat) | repMin (C : Ctx) (n : Nat) | repMax (C : Ctx) (n : Nat)
  | repMinMax (C : Ctx) (m n : Nat)
  | andP (C : Ctx) | notP (C : Ctx) | group (C : Ctx) (t : Option String) | push (C : Ctx)

def Ctx.fill : Ctx → Expr → Expr
  | .hole, e => e
  | .rule n m sm C, e => .rule n m sm (C.fill e)
  | .seq pre C post, e => .seq (pre ++ [C.fill e] ++ post)
  | .choice pre C post, e => .choice (pre ++ [C.fill e] ++ post)
  | .opt C, e => .opt (C.fill e)
  | .rep C, e => .rep (C.fill e)
  | .rep1 C, e => .rep1 (C.fill e)
  | .repExact C n, e => .repExact (C.fill e) n
  | .repMin C n, e => .repMin (C.fill e) n
  | .repMax C n, e => .repMax (C.fill e) n
  | .repMinMax C m n, e => .repMinMax (C.fill e) m n
  | .andP C, e => .andP (C.fill e)
  | .notP C, e => .notP (C.fill e)
  | .group C t, e => .group (C.fill e) t
  | .push C, e => .push (C.fill e)

theorem Ctx.cong {B : Expr → Expr → Prop} {e e' : Expr} (h : B e e') (C : Ctx) :
    Cong B (C.fill e) (C.fill e') := by
  have hrefl : ∀ l : List Expr, ListRel2 (Cong B) l l := fun l => ListRel2.of_forall fun c _ => .refl c
  induction C with
  | hole => exact .base h
  | rule n m sm C ih => exact .rule ih
  | seq pre C post ih => exact .seq (((hrefl pre).append (.cons ih .nil)).append (hrefl post))
  | choice pre C post ih => exact .choice (((hrefl pre).append (.cons ih .nil)).append (hrefl post))
  | opt C ih => exact .opt ih
  | rep C ih => exact .rep ih
  | rep1 C ih => exact .rep1 ih
  | repExact C n ih => exact .repExact ih
  | repMin C n ih => exact .repMin ih
  | repMax C n ih => exact .repMax ih
  | repMinMax C m n ih => exact .repMinMax ih
  | andP C ih => exact .andP ih
  | notP C ih => exact .notP ih
  | group C t ih => exact .group ih
  | push C ih => exact .push ih

/-- (7) an equivalence may be used under any one-hole context -/
theorem equiv_in_ctx {e e' : Expr} (h : EquivAt g inp e e') (C : Ctx) :
    EquivAt g inp (C.fill e) (C.fill e') := by
  apply cong_equiv (B := fun a b => a = e ∧ b = e')
  · rintro x x' ⟨rfl, rfl⟩; exact h
  · exact C.cong ⟨rfl, rfl⟩

/-! ### whole parses -/

/-- the fuel-independent answer of `Parser.parse(start, input, k)` -/
def ParseC (g : Grammar) (inp : Input) (start : String) (k : Nat) (r : R0) : Prop :=
  ∃ fuel, parse g inp fuel start k = r ∧ r ≠ .oof

theorem parse_eq_callRule (fuel : Nat) (start : String) (k : Nat) :
    parse g inp fuel start k = callRule g (run g inp fuel) start ⟨k, [], false⟩ := by
  unfold parse callRule
  cases g.lookup start <;> rfl

theorem parseC_iff {start : String} {k : Nat} {r : R0} (t : Option String) :
    ParseC g inp start k r ↔ Conv g inp (.ident start t) ⟨k, [], false⟩ r := by
  rw [conv_ident]
  unfold ParseC CallC
  simp only [parse_eq_callRule]

/-- two grammars with the same parse results for every start rule and start position -/
def GEquiv (g g' : Grammar) (inp : Input) : Prop :=
  ∀ start k r, ParseC g inp start k r ↔ ParseC g' inp start k r

/-- (7, grammar level) rewriting rule bodies along equivalences that hold in both grammars
    leaves every parse result unchanged -/
theorem cong_grammar_parse {g' : Grammar} {B : Expr → Expr → Prop} (hG : GrammarRel B g g')
    (hB : ∀ x x', B x x' → EquivAt g inp x x') (hB' : ∀ x x', B x x' → EquivAt g' inp x x') :
    GEquiv g g' inp := by
  intro start k r
  rw [parseC_iff none, parseC_iff none]
  exact cong_grammar hG hB hB' (.refl _) _ _

/-! ### (6) extracting a sub-expression into a fresh silent rule -/

mutual
/-- does `x` refer to the rule `nm` by name? -/
def mentions (nm : String) : Expr → Bool
  | .ident n _ => n == nm
  | .rule _ _ _ b => mentions nm b
  | .seq es => mentionsL nm es
  | .choice es => mentionsL nm es
  | .opt e => mentions nm e
  | .rep e => mentions nm e
  | .rep1 e => mentions nm e
  | .repExact e _ => mentions nm e
  | .repMin e _ => mentions nm e
  | .repMax e _ => mentions nm e
  | .repMinMax e _ _ => mentions nm e
  | .andP e => mentions nm e
  | .notP e => mentions nm e
  | .group e _ => mentions nm e
  | .push e => mentions nm e
  | _ => false
def mentionsL (nm : String) : List Expr → Bool
  | [] => false
  | e :: es => mentions nm e || mentionsL nm es
end

theorem mentionsL_mem {nm : String} : ∀ {es : List Expr}, mentionsL nm es = false →
    ∀ c, c ∈ es → mentions nm c = false
  | [], _, c, hc => by cases hc
  | e :: es, h, c, hc => by
    simp only [mentionsL, Bool.or_eq_false_iff] at h
    rcases List.mem_cons.1 hc with rfl | hc
    · exact h.1
    · exact mentionsL_mem h.2 c hc

theorem mentions_sub {nm : String} {x c : Expr} (hs : Sub x c) (h : mentions nm x = false) :
    mentions nm c = false := by
  cases hs with
  | seq hc => simp only [mentions] at h; exact mentionsL_mem h _ hc
  | choice hc => simp only [mentions] at h; exact mentionsL_mem h _ hc
  | _ => simpa [mentions] using h

/-- `g` with one more rule at the end of the table -/
def addRule (g : Grammar) (rl : Rule) : Grammar := { g with rules := g.rules ++ [rl] }

theorem lookup_addRule_ne {rl : Rule} {n : String} (h : rl.name ≠ n) :
    (addRule g rl).lookup n = g.lookup n := by
  simp [addRule, Grammar.lookup, List.find?_append, h]

theorem lookup_addRule_self {rl : Rule} (h : g.lookup rl.name = none) :
    (addRule g rl).lookup rl.name = some rl := by
  unfold Grammar.lookup at h
  simp [addRule, Grammar.lookup, List.find?_append, h]

theorem lookup_mem {n : String} {rl : Rule} (h : g.lookup n = some rl) : rl ∈ g.rules :=
  List.mem_of_find?_eq_some h

/-- the rule `nm` is referenced nowhere in `g` -/
def Unreferenced (g : Grammar) (nm : String) : Prop := ∀ rl, rl ∈ g.rules → mentions nm rl.body = false

/-- … decidably -/
theorem unreferenced_of_all {g : Grammar} {nm : String}
    (h : g.rules.all (fun rl => !mentions nm rl.body) = true) : Unreferenced g nm := by
  intro rl hrl
  have := List.all_eq_true.1 h rl hrl
  simpa using this

/-- expressions that do not mention `nm`, related to themselves -/
def Away (nm : String) (x x' : Expr) : Prop := x = x' ∧ mentions nm x = false

theorem away_rule_self {nm : String} (hu : Unreferenced g nm) (n : String) :
    RuleRel (Away nm) (g.lookup n) (g.lookup n) := by
  cases hl : g.lookup n with
  | none => trivial
  | some rl => exact ⟨rfl, rfl, rfl, hu rl (lookup_mem hl)⟩

theorem away_struct {nm : String} {g1 g2 : Grammar}
    (hl : ∀ n, n ≠ nm → RuleRel (Away nm) (g1.lookup n) (g2.lookup n)) {x : Expr}
    (hx : mentions nm x = false) : Struct g1 g2 (Away nm) x x := by
  apply Struct.of_refl
  · intro c hc; exact ⟨rfl, mentions_sub hc hx⟩
  · rintro n t rfl
    apply hl
    intro e; subst e; simp [mentions] at hx

theorem RuleRel.flip_away {nm : String} {a b : Option Rule} (h : RuleRel (Away nm) a b) :
    RuleRel (Away nm) b a := by
  cases a with
  | none => cases b <;> simp_all [RuleRel]
  | some ra =>
    cases b with
    | none => exact h.elim
    | some rb =>
      obtain ⟨h1, h2, h3, h4⟩ := h
      exact ⟨h1.symm, h2.symm, h3.symm, by rw [← h3]; exact h4⟩

/-- (6a) adding a rule that nobody references changes nothing for expressions that do not
    mention it -/
theorem addRule_away {rl : Rule} (hu : Unreferenced g rl.name)
    (h1 : rl.name ≠ "WHITESPACE") (h2 : rl.name ≠ "COMMENT") (h3 : rl.name ≠ "SKIP")
    {x : Expr} (hx : mentions rl.name x = false) (s : S0) (r : R0) :
    Conv (addRule g rl) inp x s r ↔ Conv g inp x s r := by
  have hl : ∀ n, n ≠ rl.name → RuleRel (Away rl.name) (g.lookup n) ((addRule g rl).lookup n) := by
    intro n hn
    rw [lookup_addRule_ne (fun e => hn e.symm)]
    exact away_rule_self hu n
  constructor
  · have hS : Sim (addRule g rl) g inp (Away rl.name) := by
      refine ⟨rfl, fusedSkip_rel (hl _ (Ne.symm h3)).flip_away, (hl _ (Ne.symm h1)).flip_away,
        (hl _ (Ne.symm h2)).flip_away, ?_⟩
      rintro a b ⟨rfl, ha⟩
      exact Or.inr ⟨a, away_struct (fun n hn => (hl n hn).flip_away) ha, fun _ _ h => h⟩
    exact hS.conv ⟨rfl, hx⟩
  · have hS : Sim g (addRule g rl) inp (Away rl.name) := by
      refine ⟨rfl, fusedSkip_rel (hl _ (Ne.symm h3)), hl _ (Ne.symm h1), hl _ (Ne.symm h2), ?_⟩
      rintro a b ⟨rfl, ha⟩
      exact Or.inr ⟨a, away_struct hl ha, fun _ _ h => h⟩
    exact hS.conv ⟨rfl, hx⟩

theorem silent_bits : hasBit SILENT SILENT = true ∧ hasBit SILENT ATOMIC = false ∧
    hasBit SILENT COMPOUND = false ∧ hasBit SILENT NONATOMIC = false := by decide

/-- (6b) **the fresh silent rule means what the extracted expression meant** -/
theorem extract_silent {nm : String} {e : Expr} {kind : RuleKind}
    (hfresh : g.lookup nm = none) (hu : Unreferenced g nm) (he : mentions nm e = false)
    (h1 : nm ≠ "WHITESPACE") (h2 : nm ≠ "COMMENT") (h3 : nm ≠ "SKIP") (t : Option String)
    (s : S0) (r : R0) :
    Conv (addRule g ⟨nm, SILENT, e, kind⟩) inp (.ident nm t) s r ↔ Conv g inp e s r := by
  have hl : (addRule g ⟨nm, SILENT, e, kind⟩).lookup nm = some ⟨nm, SILENT, e, kind⟩ :=
    lookup_addRule_self (rl := ⟨nm, SILENT, e, kind⟩) hfresh
  have hT : L1.isTriviaName nm = false := by simp [L1.isTriviaName, h1, h2]
  rw [silent_rule_inline hl silent_bits.1 silent_bits.2.1 silent_bits.2.2.1 silent_bits.2.2.2 hT t s r]
  exact addRule_away (rl := ⟨nm, SILENT, e, kind⟩) hu h1 h2 h3 he s r

/-- (6a, whole parses) the other start rules parse as before -/
theorem addRule_parse {rl : Rule} (hu : Unreferenced g rl.name)
    (h1 : rl.name ≠ "WHITESPACE") (h2 : rl.name ≠ "COMMENT") (h3 : rl.name ≠ "SKIP")
    {start : String} (hs : start ≠ rl.name) (k : Nat) (r : R0) :
    ParseC (addRule g rl) inp start k r ↔ ParseC g inp start k r := by
  rw [parseC_iff none, parseC_iff none]
  exact addRule_away hu h1 h2 h3 (by simp [mentions, hs]) _ _

/-- the rewrite "replace `e` by a reference to the silent rule `nm`" -/
def RefTo (nm : String) (e : Expr) (x x' : Expr) : Prop := x = e ∧ ∃ t, x' = .ident nm t

/-- (6, complete) **extraction**: add the fresh silent rule `nm = _{ e }` and replace any
    occurrences of `e` in rule bodies (not in `nm`'s own body) by `nm`: every other start rule
    parses as before. -/
theorem extract_silent_grammar {nm : String} {e : Expr} {kind : RuleKind} {g2 : Grammar}
    (hfresh : g.lookup nm = none) (hu : Unreferenced g nm)
    (h1 : nm ≠ "WHITESPACE") (h2 : nm ≠ "COMMENT") (h3 : nm ≠ "SKIP")
    (hG : GrammarRel (RefTo nm e) (addRule g ⟨nm, SILENT, e, kind⟩) g2)
    (hnm : g2.lookup nm = some ⟨nm, SILENT, e, kind⟩)
    {start : String} (hs : start ≠ nm) (k : Nat) (r : R0) :
    ParseC g inp start k r ↔ ParseC g2 inp start k r := by
  have hT : L1.isTriviaName nm = false := by simp [L1.isTriviaName, h1, h2]
  have hl : (addRule g ⟨nm, SILENT, e, kind⟩).lookup nm = some ⟨nm, SILENT, e, kind⟩ :=
    lookup_addRule_self (rl := ⟨nm, SILENT, e, kind⟩) hfresh
  rw [← addRule_parse (rl := ⟨nm, SILENT, e, kind⟩) hu h1 h2 h3 hs k r]
  apply cong_grammar_parse hG
  · rintro x x' ⟨rfl, t, rfl⟩
    exact (silent_rule_inline hl silent_bits.1 silent_bits.2.1 silent_bits.2.2.1 silent_bits.2.2.2 hT t).symm
  · rintro x x' ⟨rfl, t, rfl⟩
    exact (silent_rule_inline hnm silent_bits.1 silent_bits.2.1 silent_bits.2.2.1 silent_bits.2.2.2 hT t).symm

/-- (6, expressions) `⟦C[e]⟧` in `g` is `⟦C[nm]⟧` in the extended grammar, for every context
    `C` (indeed for any number of replaced occurrences) that does not mention `nm` -/
theorem extract_silent_expr {nm : String} {e : Expr} {kind : RuleKind} {g2 : Grammar}
    (hfresh : g.lookup nm = none) (hu : Unreferenced g nm)
    (h1 : nm ≠ "WHITESPACE") (h2 : nm ≠ "COMMENT") (h3 : nm ≠ "SKIP")
    (hG : GrammarRel (RefTo nm e) (addRule g ⟨nm, SILENT, e, kind⟩) g2)
    (hnm : g2.lookup nm = some ⟨nm, SILENT, e, kind⟩)
    {x x' : Expr} (hx : mentions nm x = false) (hxx : Cong (RefTo nm e) x x') (s : S0) (r : R0) :
    Conv g inp x s r ↔ Conv g2 inp x' s r := by
  have hT : L1.isTriviaName nm = false := by simp [L1.isTriviaName, h1, h2]
  have hl : (addRule g ⟨nm, SILENT, e, kind⟩).lookup nm = some ⟨nm, SILENT, e, kind⟩ :=
    lookup_addRule_self (rl := ⟨nm, SILENT, e, kind⟩) hfresh
  rw [← addRule_away (rl := ⟨nm, SILENT, e, kind⟩) hu h1 h2 h3 hx s r]
  apply cong_grammar hG _ _ hxx
  · rintro x x' ⟨rfl, t, rfl⟩
    exact (silent_rule_inline hl silent_bits.1 silent_bits.2.1 silent_bits.2.2.1 silent_bits.2.2.2 hT t).symm
  · rintro x x' ⟨rfl, t, rfl⟩
    exact (silent_rule_inline hnm silent_bits.1 silent_bits.2.1 silent_bits.2.2.1 silent_bits.2.2.2 hT t).symm

/-! ### the rewrites of property C08 as one relation -/

/-- the meaning-preserving rewrites, in both directions -/
inductive Rewrite (inp : Input) : Expr → Expr → Prop
  | paren (e : Expr) (t : Option String) : Rewrite inp e (.group e t)
  | seqAssoc (as : List Expr) (b : Expr) (bs cs : List Expr) (t : Option String) :
      Rewrite inp (.seq (as ++ (b :: bs) ++ cs)) (.seq (as ++ [.group (.seq (b :: bs)) t] ++ cs))
  | choiceAssoc (as bs cs : List Expr) (t : Option String) :
      Rewrite inp (.choice (as ++ bs ++ cs)) (.choice (as ++ [.group (.choice bs) t] ++ cs))
  | seqFlat (as : List Expr) (b : Expr) (bs cs : List Expr) :
      Rewrite inp (.seq (as ++ (b :: bs) ++ cs)) (.seq (as ++ [.seq (b :: bs)] ++ cs))
  | choiceFlat (as bs cs : List Expr) :
      Rewrite inp (.choice (as ++ bs ++ cs)) (.choice (as ++ [.choice bs] ++ cs))
  | dup (e : Expr) (t : Option String) : Rewrite inp e (.group (.choice [e, e]) t)
  | neverSeq (e : Expr) (x : Str) (t1 t2 : Option String) : NeverAt inp x →
      Rewrite inp e (.group (.choice [.group (.seq [e, .str x]) t1, e]) t2)
  | neverNot (e : Expr) (x : Str) (t1 t2 : Option String) : NeverAt inp x →
      Rewrite inp e (.group (.choice [.group (.seq [.notP e, .str x]) t1, e]) t2)
  | symm {x x' : Expr} : Rewrite inp x x' → Rewrite inp x' x

theorem Rewrite.sound (ht : TriviaTotal g inp) {x x' : Expr} (h : Rewrite inp x x') : EquivAt g inp x x' := by
  induction h with
  | paren e t => exact (group_id e t).symm
  | seqAssoc as b bs cs t => exact (seq_assoc as b bs cs t).symm
  | choiceAssoc as bs cs t => exact (choice_assoc as bs cs t).symm
  | seqFlat as b bs cs => exact (seq_flatten as b bs cs).symm
  | choiceFlat as bs cs => exact (choice_flatten as bs cs).symm
  | dup e t => exact (dup_choice e t).symm
  | neverSeq e x t1 t2 hx => exact (never_seq e hx ht t1 t2).symm
  | neverNot e x t1 t2 hx => exact (never_notpred e hx ht t1 t2).symm
  | symm _ ih => exact ih.symm

/-- any number of simultaneous rewrites at any depth of one expression -/
theorem rewrites_preserve_expr (ht : TriviaTotal g inp) {x x' : Expr} (h : Cong (Rewrite inp) x x') :
    EquivAt g inp x x' :=
  cong_equiv (fun _ _ hb => hb.sound ht) h

/-- any number of simultaneous rewrites at any depth of any rule bodies -/
theorem rewrites_preserve_parse {g' : Grammar} (hG : GrammarRel (Rewrite inp) g g')
    (ht : TriviaTotal g inp) (ht' : TriviaTotal g' inp) : GEquiv g g' inp :=
  cong_grammar_parse hG (fun _ _ hb => hb.sound ht) (fun _ _ hb => hb.sound ht')

/-- with total trivia in the *original* grammar only: whatever the rewritten grammar answers,
    the original answers (the rewritten one might not answer at all) -/
theorem rewrites_preserve_parse_partial {g' : Grammar} (hG : GrammarRel (Rewrite inp) g g')
    (ht : TriviaTotal g inp) {start : String} {k : Nat} {r : R0} (h : ParseC g' inp start k r) :
    ParseC g inp start k r := by
  rw [parseC_iff none] at h ⊢
  exact cong_grammar_bwd hG (fun a b hb s r => (hb.sound ht s r).2) (.refl _) h

theorem GEquiv.refl (g : Grammar) (inp : Input) : GEquiv g g inp := fun _ _ _ => Iff.rfl
theorem GEquiv.symm {g g' : Grammar} (h : GEquiv g g' inp) : GEquiv g' g inp := fun a b c => (h a b c).symm
theorem GEquiv.trans {g1 g2 g3 : Grammar} (h1 : GEquiv g1 g2 inp) (h2 : GEquiv g2 g3 inp) :
    GEquiv g1 g3 inp := fun a b c => (h1 a b c).trans (h2 a b c)

/-! ### when is implicit trivia total? -/

/-- one attempt at the trivia rule `rl` answers from every state, and a successful attempt
    consumes at least one character of the input -/
def TryProgress (g : Grammar) (inp : Input) (rl : Option Rule) : Prop :=
  ∀ s, ∃ t, TryC g inp rl s t ∧
    (match t with
     | .matched s' _ => s.pos < s'.pos ∧ s'.pos ≤ inp.size
     | .no => True
     | .stop _ => False)

theorem skipLoop_total {ws cm : Option Rule} (hws : TryProgress g inp ws) (hcm : TryProgress g inp cm) :
    ∀ (d : Nat) (s : S0) (acc : List Pair), inp.size + 1 - s.pos ≤ d →
      ∃ s' ps, SkipLoopC g inp ws cm s acc (.ok s' ps) := by
  intro d
  induction d with
  | zero =>
    intro s acc hd
    obtain ⟨t1, h1, p1⟩ := hws s
    cases t1 with
    | matched s' ps => simp only [] at p1; omega
    | stop x => exact p1.elim
    | no =>
      obtain ⟨t2, h2, p2⟩ := hcm s
      cases t2 with
      | matched s' ps => simp only [] at p2; omega
      | stop x => exact p2.elim
      | no => exact ⟨s, acc, skipLoopC_intro ⟨_, h1, _, h2, rfl⟩⟩
  | succ d ih =>
    intro s acc hd
    obtain ⟨t1, h1, p1⟩ := hws s
    cases t1 with
    | matched s' ps =>
      simp only [] at p1
      obtain ⟨s'', ps'', hl⟩ := ih s' (acc ++ ps) (by omega)
      exact ⟨s'', ps'', skipLoopC_intro ⟨_, h1, hl⟩⟩
    | stop x => exact p1.elim
    | no =>
      obtain ⟨t2, h2, p2⟩ := hcm s
      cases t2 with
      | matched s' ps =>
        simp only [] at p2
        obtain ⟨s'', ps'', hl⟩ := ih s' (acc ++ ps) (by omega)
        exact ⟨s'', ps'', skipLoopC_intro ⟨_, h1, _, h2, hl⟩⟩
      | stop x => exact p2.elim
      | no => exact ⟨s, acc, skipLoopC_intro ⟨_, h1, _, h2, rfl⟩⟩

/-- **implicit trivia is total** in a grammar without a fused SKIP rule whose WHITESPACE and
    COMMENT rules always answer and consume input when they match -/
theorem triviaTotal_of_progress (hf : g.fusedSkip = none)
    (hws : TryProgress g inp (g.lookup "WHITESPACE")) (hcm : TryProgress g inp (g.lookup "COMMENT")) :
    TriviaTotal g inp := by
  intro s
  by_cases ha : s.atomic = true
  · exact skipOK_of_atomic ha
  · by_cases hn : ((g.lookup "WHITESPACE").isNone && (g.lookup "COMMENT").isNone) = true
    · refine ⟨.ok s [], ⟨0, ?_, by simp⟩, by simp⟩
      simp [skip, ha, hf, hn]
    · obtain ⟨s', ps, n, hl, _⟩ := skipLoop_total hws hcm _ s [] (Nat.le_refl _)
      refine ⟨.ok s' ps, ⟨n, ?_, by simp⟩, by simp⟩
      simp only [skip, ha, Bool.false_eq_true, ↓reduceIte, hf, hn]
      exact hl

/-! ### helpers for concrete instances -/

/-- a decidable sufficient condition for `NeverAt` -/
theorem neverAt_of_all {c : CP} {rest : Str} (h : inp.toList.all (fun d => d != c) = true) :
    NeverAt inp (c :: rest) := by
  apply neverAt_of_head
  intro i hi
  obtain ⟨hlt, he⟩ := Array.getElem?_eq_some_iff.1 hi
  have hm : c ∈ inp.toList := by rw [← he]; exact Array.mem_toList_iff.2 (Array.getElem_mem hlt)
  have := List.all_eq_true.1 h c hm
  simp at this

/-- grammars given rule by rule -/
theorem find_rel {Q : Expr → Expr → Prop} {rs rs' : List Rule} (n : String)
    (h : ListRel2 (fun r r' : Rule => r.name = r'.name ∧ r.mod = r'.mod ∧ Q r.body r'.body) rs rs') :
    RuleRel Q (rs.find? (·.name == n)) (rs'.find? (·.name == n)) := by
  induction h with
  | nil => trivial
  | @cons r r' rs rs' hr _ ih =>
    simp only [List.find?_cons, ← hr.1]
    cases (r.name == n) with
    | true => exact hr
    | false => exact ih

theorem GrammarRel.of_rules {B : Expr → Expr → Prop} {g g' : Grammar} (hu : g'.usets = g.usets)
    (h : ListRel2 (fun r r' : Rule => r.name = r'.name ∧ r.mod = r'.mod ∧ Cong B r.body r'.body) g.rules g'.rules) :
    GrammarRel B g g' :=
  ⟨hu, fun n => find_rel n h⟩

theorem startsWithAt_bound : ∀ (x : Str) (p : Nat), startsWithAt inp x p = true → p + x.length ≤ inp.size
  | [], p, h => by simpa [startsWithAt] using h
  | c :: rest, p, h => by
    simp only [startsWithAt, Bool.and_eq_true] at h
    have := startsWithAt_bound rest (p + 1) h.2
    simp only [List.length_cons]; omega

theorem tryProgress_none : TryProgress g inp none :=
  fun _ => ⟨.no, ⟨0, rfl, by simp⟩, trivial⟩

/-- a trivia rule whose body is a non-empty literal makes progress -/
theorem tryProgress_str (rl : Rule) (c : CP) (cs : Str) (hb : rl.body = .str (c :: cs)) :
    TryProgress g inp (some rl) := by
  intro s
  by_cases hm : startsWithAt inp (c :: cs) s.pos = true
  · have hw : ∃ out ps, ruleWrap rl.name rl.mod s
        (adv { s with atomic := ruleAtomic rl.name rl.mod s.atomic } (c :: cs).length) [] = .ok out ps ∧
        out.pos = s.pos + (c :: cs).length := by
      unfold ruleWrap
      by_cases hS : hasBit rl.mod SILENT = true
      · exact ⟨_, _, if_pos hS, rfl⟩
      · exact ⟨_, _, if_neg hS, rfl⟩
    obtain ⟨out, ps, hw, hp⟩ := hw
    refine ⟨.matched out ps, ⟨1, ?_, by simp⟩, ?_⟩
    · show trySkip (step g inp 0 (run g inp 0)) (some rl) s = _
      simp only [trySkip, ruleApply, hb, step, hm, ↓reduceIte, hw]
    · have := startsWithAt_bound (c :: cs) s.pos hm
      simp only [List.length_cons] at this hp
      simp only [hp]; omega
  · refine ⟨.no, ⟨1, ?_, by simp⟩, trivial⟩
    show trySkip (step g inp 0 (run g inp 0)) (some rl) s = _
    simp only [trySkip, ruleApply, hb, step, hm, Bool.false_eq_true, ↓reduceIte]

end L0
end Pest
