/-
  Lemmas/OptSoundFinal.lean — all passes together, and the link with the executable hypotheses.

  * `buildersAll`: the matcher passes provided (OptSoundSquash, OptSoundSkip).
  * `optimize_sound`: C02 for every pass list drawn from the default passes.
  * `wfCheck_sound`: `OptS.wfCheck` (OptHyps.lean) decides a sufficient condition for `WF`.
  * `optimize_sig`: `optimize` keeps names and modifiers and adds at most the rule `SKIP`.
  * `soi_kept`, `optimize_soiFree`: `optimize` keeps SOI-freeness.
-/
import PestModel.Lemmas.OptSoundFusionWS
import PestModel.Lemmas.OptSoundSkip
import PestModel.Hyps

set_option linter.unusedVariables false

namespace Pest
namespace OptS

open L0

def Fall : Feat := ⟨true, true⟩

theorem buildersAll (sg : String → Option (String × Nat)) (g : Grammar) : Builders Fall sg g where
  sqSem := fun _ => squashSem
  skSem := fun _ G => skipSem G
  sqB := fun hF G hu hinv a e he => squashChoice_TR G hu hF hinv a e he
  skB := fun hF G hinv a k e hflag he => skipPass_TR G hF hflag k e he

theorem allowedAll {passes : List Opt.Pass} (hp : ∀ p ∈ passes, p ∈ Opt.defaultPasses) :
    ∀ p ∈ passes, Allowed Fall p :=
  fun p hpm => ⟨hp p hpm, fun _ => rfl, fun _ => rfl⟩

/-- **`Opt.optimize` preserves the meaning of every expression** (that does not mention `SKIP`, when
    the grammar does not define it), and any property of rule bodies that the rewrites keep -/
theorem optimize_sound {g g' : Grammar} (hwf : WF g) (passes : List Opt.Pass)
    (hp : ∀ p ∈ passes, p ∈ Opt.defaultPasses)
    {P : Expr → Prop} (hP : Kept Fall P) (hrep : ∀ e, P e → P (.rep e)) (hopt : ∀ alts, P (.optChoice alts true))
    (hpr : ∀ r ∈ g.rules, P r.body) (h : Opt.optimize g passes = some g') :
    (∀ inp e s r, (g.lookup "SKIP" = none → NSR e) → s.pos ≤ inp.size →
      (Conv g inp e s r ↔ Conv g' inp e s r)) ∧ SkipTotal g' ∧ (∀ r ∈ g'.rules, P r.body) :=
  optimize_sound_of hwf (fusionWS hwf hwf.wsProgress) (fun sg => buildersAll sg g) passes
    (allowedAll hp) hP hrep hopt hpr h

theorem kept_true (F : Feat) : Kept F (fun _ => True) := fun _ _ _ _ _ _ _ => trivial

/-! ### the executable hypotheses (OptHyps.lean) are sound -/

mutual
theorem allNb_sound {p : Expr → Bool} : ∀ (e : Expr), allNb p e = true → AllN (fun x => p x = true) e
  | .rule n m sm b, h => by
    simp only [allNb, Bool.and_eq_true] at h; exact ⟨h.1, allNb_sound b h.2⟩
  | .seq es, h => by simp only [allNb, Bool.and_eq_true] at h; exact ⟨h.1, allNbL_sound es h.2⟩
  | .choice es, h => by simp only [allNb, Bool.and_eq_true] at h; exact ⟨h.1, allNbL_sound es h.2⟩
  | .opt e, h => by simp only [allNb, Bool.and_eq_true] at h; exact ⟨h.1, allNb_sound e h.2⟩
  | .rep e, h => by simp only [allNb, Bool.and_eq_true] at h; exact ⟨h.1, allNb_sound e h.2⟩
  | .rep1 e, h => by simp only [allNb, Bool.and_eq_true] at h; exact ⟨h.1, allNb_sound e h.2⟩
  | .repExact e n, h => by simp only [allNb, Bool.and_eq_true] at h; exact ⟨h.1, allNb_sound e h.2⟩
  | .repMin e n, h => by simp only [allNb, Bool.and_eq_true] at h; exact ⟨h.1, allNb_sound e h.2⟩
  | .repMax e n, h => by simp only [allNb, Bool.and_eq_true] at h; exact ⟨h.1, allNb_sound e h.2⟩
  | .repMinMax e m n, h => by simp only [allNb, Bool.and_eq_true] at h; exact ⟨h.1, allNb_sound e h.2⟩
  | .andP e, h => by simp only [allNb, Bool.and_eq_true] at h; exact ⟨h.1, allNb_sound e h.2⟩
  | .notP e, h => by simp only [allNb, Bool.and_eq_true] at h; exact ⟨h.1, allNb_sound e h.2⟩
  | .group e t, h => by simp only [allNb, Bool.and_eq_true] at h; exact ⟨h.1, allNb_sound e h.2⟩
  | .push e, h => by simp only [allNb, Bool.and_eq_true] at h; exact ⟨h.1, allNb_sound e h.2⟩
  | .ident n t, h => by simp only [allNb] at h; exact h
  | .str _, h => by simp only [allNb] at h; exact h
  | .ci _, h => by simp only [allNb] at h; exact h
  | .range _ _, h => by simp only [allNb] at h; exact h
  | .pushLit _, h => by simp only [allNb] at h; exact h
  | .peek, h => by simp only [allNb] at h; exact h
  | .pop, h => by simp only [allNb] at h; exact h
  | .drop, h => by simp only [allNb] at h; exact h
  | .peekAll, h => by simp only [allNb] at h; exact h
  | .popAll, h => by simp only [allNb] at h; exact h
  | .peekSlice _ _, h => by simp only [allNb] at h; exact h
  | .anyB, h => by simp only [allNb] at h; exact h
  | .soiB, h => by simp only [allNb] at h; exact h
  | .eoiB, h => by simp only [allNb] at h; exact h
  | .uprop _, h => by simp only [allNb] at h; exact h
  | .skipUntil _, h => by simp only [allNb] at h; exact h
  | .optChoice _ _, h => by simp only [allNb] at h; exact h
theorem allNbL_sound {p : Expr → Bool} : ∀ (es : List Expr), allNbL p es = true →
    AllNL (fun x => p x = true) es
  | [], _ => trivial
  | e :: es, h => by
    simp only [allNbL, Bool.and_eq_true] at h; exact ⟨allNb_sound e h.1, allNbL_sound es h.2⟩
end

theorem plainSilentB_sound {m : Nat} (h : plainSilentB m = true) : plainSilent m := by
  simp only [plainSilentB, Bool.and_eq_true, Bool.not_eq_true'] at h
  exact ⟨h.1.1.1, h.1.1.2, h.1.2, h.2⟩

theorem nodeOKb_sound (g : Grammar) (x : Expr) (h : nodeOKb g x = true) : NodeOK (sigOf g) x := by
  cases x with
  | rule n m sm b =>
    simp only [nodeOKb, Bool.and_eq_true, Bool.not_eq_true', Bool.or_eq_true, beq_iff_eq, bne_iff_ne] at h
    obtain ⟨⟨⟨⟨⟨⟨⟨⟨h1, h2⟩, h3⟩, h4⟩, h5⟩, h6⟩, h7⟩, h8⟩, h9⟩ := h
    refine ⟨?_, h2, h3, h4, h5, ?_, ?_, ?_, ?_⟩
    · cases b <;> simp_all [rootOK]
    · intro hn; rcases h6 with h | h
      · exact absurd h hn
      · exact h
    · intro hn
      rcases h7 with h | h
      · exact absurd hn h
      · cases b <;> simp_all
    · intro pn hb; subst hb; simpa using h8.symm
    · intro hn
      rcases h9 with h | h
      · exact absurd hn h
      · cases b <;> simp_all
  | ident n t =>
    simp only [nodeOKb, Bool.and_eq_true, bne_iff_ne] at h
    refine ⟨h.1, ?_⟩
    intro nm md hsg hs
    have h3 := h.2
    rw [hsg] at h3
    simp only [hs, Bool.not_true, Bool.false_or] at h3
    exact plainSilentB_sound h3
  | choice es =>
    simp only [nodeOKb, Bool.not_eq_true', List.isEmpty_eq_false_iff] at h
    exact h
  | range a b => simp only [nodeOKb, decide_eq_true_eq] at h; exact h
  | optChoice alts star =>
    simp only [nodeOKb, Bool.and_eq_true, Bool.not_eq_true', List.isEmpty_eq_false_iff, List.all_eq_true] at h
    refine ⟨h.1.1, h.1.2, fun a ha => ?_⟩
    have := h.2 a ha
    cases a with
    | range lo hi => simp only [altOKb, decide_eq_true_eq] at this; exact this
    | _ => trivial
  | _ => trivial

theorem nskB_sound (x : Expr) (h : nskB x = true) : NSK x := by
  cases x with
  | ident n t => simp only [nskB, bne_iff_ne] at h; exact h
  | _ => trivial

theorem wfCheck_sound {g : Grammar} (h : wfCheck g = true) : WF g := by
  simp only [wfCheck, Bool.and_eq_true, List.all_eq_true, Option.isNone_iff_eq_none, Bool.or_eq_true] at h
  obtain ⟨⟨⟨h1, h2⟩, h3⟩, h4⟩ := h
  refine ⟨fun r hr => ?_, h2, fun hns r hr => ?_, ?_⟩
  · exact AllN.imp (nodeOKb_sound g) (allNb_sound _ (h1 r hr))
  · rcases h3 with h3 | h3
    · rw [hns] at h3; exact absurd h3 (by simp)
    · exact AllN.imp nskB_sound (allNb_sound _ (h3 r hr))
  · intro wr es alts hc hw hb hq s ci hmem
    unfold wsProgressB at h4
    rw [hc, hw] at h4
    simp only [hb, hq, List.all_eq_true] at h4
    have := h4 _ hmem
    intro hs
    subst hs
    simp at this

/-! ### `optimize` keeps names and modifiers and adds at most the rule `SKIP` -/

theorem runStep_sig {g : Grammar} {p : Opt.Pass} :
    ∀ (d i : Nat) (rules rules' : List Rule), rules.length - i = d → Opt.runStep g p i rules = some rules' →
      ∀ n, sigOf { g with rules := rules' } n = sigOf { g with rules := rules } n := by
  intro d
  induction d with
  | zero =>
    intro i rules rules' hd h n
    rw [Opt.runStep] at h
    have : ¬ i < rules.length := by omega
    simp only [this, ↓reduceDIte, Option.some.injEq] at h
    subst h; rfl
  | succ d ih =>
    intro i rules rules' hd h n
    rw [Opt.runStep] at h
    have hi : i < rules.length := by omega
    simp only [hi, ↓reduceDIte] at h
    by_cases hskip : (rules[i].kind == RuleKind.builtin ||
        (p.atomicOnly && !Opt.isAtomicRule rules rules[i])) = true
    · rw [if_pos hskip] at h
      exact ih (i + 1) rules rules' (by omega) h n
    · rw [if_neg hskip] at h
      cases hro : Opt.runOnce g rules p rules[i].body with
      | none => rw [hro] at h; exact absurd h (by simp)
      | some b =>
        rw [hro] at h
        simp only [] at h
        rw [ih (i + 1) _ rules' (by simp; omega) h n]
        exact sigOf_setBody { g with rules := rules } i hi b n

theorem fold_sig {g : Grammar} : ∀ (passes : List Opt.Pass) (rules rules' : List Rule),
    passes.foldl (fun acc p => acc.bind fun rs => Opt.runStep g p 0 rs) (some rules) = some rules' →
    ∀ n, sigOf { g with rules := rules' } n = sigOf { g with rules := rules } n := by
  intro passes
  induction passes with
  | nil =>
    intro rules rules' h n
    simp only [List.foldl_nil, Option.some.injEq] at h
    subst h; rfl
  | cons p rest ih =>
    intro rules rules' h n
    simp only [List.foldl_cons, Option.bind_some] at h
    cases h1 : Opt.runStep g p 0 rules with
    | none =>
      rw [h1] at h
      have : ∀ (l : List Opt.Pass),
          l.foldl (fun acc p => acc.bind fun rs => Opt.runStep g p 0 rs) (none : Option (List Rule)) = none := by
        intro l; induction l with
        | nil => rfl
        | cons _ _ ih => simpa using ih
      rw [this] at h
      exact absurd h (by simp)
    | some rules1 =>
      rw [h1] at h
      rw [ih rules1 rules' h n]
      exact runStep_sig _ 0 rules rules1 rfl h1 n

theorem optSkip_sig (g : Grammar) (n : String) (hn : n ≠ "SKIP") :
    sigOf { g with rules := Opt.optimizeSkipRule g g.rules } n = sigOf g n := by
  rcases optSkip_cases g g.rules with h | ⟨_, cr, _, _, _, h⟩ | ⟨_, wr, es, alts, _, _, _, _, _, _, h⟩
  · rw [h]
  · rw [h]; unfold sigOf; rw [← lookup_ext_ne g (.rep cr.body) n hn]; rfl
  · rw [h]; unfold sigOf; rw [← lookup_ext_ne g (.optChoice alts true) n hn]; rfl

/-- **names and modifiers are kept**: for every name but `SKIP`, the optimized table defines it iff
    the original does, with the same name and modifier (no hypothesis on the grammar) -/
theorem optimize_sig {g g' : Grammar} {passes : List Opt.Pass} (h : Opt.optimize g passes = some g')
    (n : String) (hn : n ≠ "SKIP") :
    (g'.lookup n).map (fun r => (r.name, r.mod)) = (g.lookup n).map (fun r => (r.name, r.mod)) := by
  unfold Opt.optimize at h
  simp only [Option.map_eq_some_iff] at h
  obtain ⟨rs, hfold, rfl⟩ := h
  have := fold_sig passes _ rs hfold n
  unfold sigOf at this
  rw [this]
  exact optSkip_sig g n hn

/-! ### `optimize` keeps SOI-freeness -/

theorem soiFreeL_index : ∀ (es : List Expr), soiFreeL es = true ↔ ∀ i (h : i < es.length), soiFree es[i] = true
  | [] => by simp [soiFreeL]
  | e :: es => by
    simp only [soiFreeL, Bool.and_eq_true, soiFreeL_index es]
    constructor
    · rintro ⟨h1, h2⟩ i hi
      cases i with
      | zero => exact h1
      | succ i => simpa using h2 i (by simpa using hi)
    · intro h
      exact ⟨h 0 (by simp), fun i hi => by
        have := h (i + 1) (by simp; omega)
        simpa using this⟩

theorem soiFreeL_replicate {e : Expr} (h : soiFree e = true) : ∀ n, soiFreeL (List.replicate n e) = true
  | 0 => rfl
  | n + 1 => by simp [List.replicate, soiFreeL, h, soiFreeL_replicate h n]

theorem soiFreeL_append : ∀ {l1 l2 : List Expr}, soiFreeL l1 = true → soiFreeL l2 = true →
    soiFreeL (l1 ++ l2) = true
  | [], _, _, h => h
  | e :: l1, l2, h1, h2 => by
    simp only [soiFreeL, Bool.and_eq_true, List.cons_append] at h1 ⊢
    exact ⟨h1.1, soiFreeL_append h1.2 h2⟩

theorem soi_kept (F : Feat) : Kept F (fun e => soiFree e = true) := by
  intro G a e e' h hG
  induction h with
  | term _ => exact id
  | ident => exact id
  | rule => exact id
  | ruleC _ _ ih => intro h; simp only [soiFree] at h ⊢; exact ih h
  | @seq es es' hl hh ih =>
    intro h
    simp only [soiFree, soiFreeL_index] at h ⊢
    exact fun i hi => ih i (by omega) hi (h i (by omega))
  | @choice es es' hl hh ih =>
    intro h
    simp only [soiFree, soiFreeL_index] at h ⊢
    exact fun i hi => ih i (by omega) hi (h i (by omega))
  | opt _ ih => intro h; simp only [soiFree] at h ⊢; exact ih h
  | rep _ ih => intro h; simp only [soiFree] at h ⊢; exact ih h
  | rep1 _ ih => intro h; simp only [soiFree] at h ⊢; exact ih h
  | repExact _ ih => intro h; simp only [soiFree] at h ⊢; exact ih h
  | repMin _ ih => intro h; simp only [soiFree] at h ⊢; exact ih h
  | repMax _ ih => intro h; simp only [soiFree] at h ⊢; exact ih h
  | repMinMax _ ih => intro h; simp only [soiFree] at h ⊢; exact ih h
  | andP _ ih => intro h; simp only [soiFree] at h ⊢; exact ih h
  | notP _ ih => intro h; simp only [soiFree] at h ⊢; exact ih h
  | group _ ih => intro h; simp only [soiFree] at h ⊢; exact ih h
  | push _ ih => intro h; simp only [soiFree] at h ⊢; exact ih h
  | unroll1 _ ih =>
    intro h; simp only [soiFree] at h
    simp [soiFree, soiFreeL, ih h]
  | unroll1g _ ih =>
    intro h; simp only [soiFree] at h
    have := ih h
    simp only [soiFree] at this
    simp [soiFree, soiFreeL, this]
  | unrollExact _ ih =>
    intro h; simp only [soiFree] at h ⊢
    exact soiFreeL_replicate (ih h) _
  | unrollMin _ ih =>
    intro h; simp only [soiFree] at h ⊢
    exact soiFreeL_append (soiFreeL_replicate (ih h) _) (by simp [soiFreeL, soiFree, ih h])
  | unrollMax _ ih =>
    intro h; simp only [soiFree] at h ⊢
    exact soiFreeL_replicate (by simp [soiFree, ih h]) _
  | unrollMinMax _ ih =>
    intro h; simp only [soiFree] at h ⊢
    exact soiFreeL_append (soiFreeL_replicate (ih h) _) (soiFreeL_replicate (by simp [soiFree, ih h]) _)
  | inlB _ _ _ ih => intro h; simp only [soiFree] at h; exact ih h
  | inlS hl _ _ _ ih => intro _; exact ih (hG _ _ hl)
  | squash _ _ _ _ _ => intro _; rfl
  | skip _ _ => intro _; rfl

/-- **SOI-freeness is kept** (note: `soiFree` looks through embedded rule objects, so a grammar that
    uses the built-in `SOI` is not SOI-free before `inline_builtin` either) -/
theorem optimize_soiFree {g g' : Grammar} (hwf : WF g) {passes : List Opt.Pass}
    (hp : ∀ p ∈ passes, p ∈ Opt.defaultPasses) (h : Opt.optimize g passes = some g')
    (hs : soiFreeG g = true) : soiFreeG g' = true := by
  simp only [soiFreeG, List.all_eq_true] at hs ⊢
  exact (optimize_sound hwf passes hp (soi_kept Fall) (fun e he => by simpa [soiFree] using he)
    (fun _ => rfl) hs h).2.2

end OptS
end Pest
