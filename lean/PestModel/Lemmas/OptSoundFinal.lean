/-
  Lemmas/OptSoundFinal.lean — all passes together, and an executable check of the hypotheses.

  * `buildersAll`: the matcher passes provided (OptSoundSquash, OptSoundSkip).
  * `optimize_sound`: C02 for every pass list drawn from the default passes.
  * `wfCheck`: a Boolean function deciding (a sufficient condition for) `WF`, so that the
    hypotheses can be evaluated on concrete grammars (`decide +kernel`, or from the driver).
-/
import PestModel.Lemmas.OptSoundFusionWS
import PestModel.Lemmas.OptSoundSkip

set_option linter.unusedVariables false

namespace Pest
namespace OptS

open L0

def Fall : Feat := ⟨true, true⟩

theorem buildersAll (sg : String → Option (String × Nat)) (g : Grammar) : Builders Fall sg g where
  sqSem := fun _ => squashSem
  skSem := fun _ G => skipSem G
  sqB := fun hF G hu hinv fa a e he => squashChoice_TR (sg := ⟨sg, fa⟩) G hu hF hinv a e he
  skB := fun hF G hinv fa a k e hflag he hk => skipPass_TR G hF hflag k e he hk
  npB := fun hF G i h b' hinv htr => npB_proof hF G i h b' hinv htr

/-- **`Opt.optimize` preserves the meaning of every expression that does not mention `SKIP`** -/
theorem optimize_sound {g g' : Grammar} (hwf : WF Fall g) (passes : List Opt.Pass)
    (hp : ∀ p ∈ passes, p ∈ Opt.defaultPasses) (h : Opt.optimize g passes = some g') :
    (∀ inp e s r, NSR e → s.pos ≤ inp.size → (Conv g inp e s r ↔ Conv g' inp e s r)) ∧ SkipTotal g' :=
  optimize_sound_of hwf (fusionWS hwf hwf.wsProgress) (npExt_proof hwf) (fun sg => buildersAll sg g) passes
    (fun p hpm => ⟨hp p hpm, fun _ => rfl, fun _ => rfl⟩) h

/-! ### the hypotheses, executable -/

mutual
def allNb (p : Expr → Bool) : Expr → Bool
  | .rule n m sm b => p (.rule n m sm b) && allNb p b
  | .seq es => p (.seq es) && allNbL p es
  | .choice es => p (.choice es) && allNbL p es
  | .opt e => p (.opt e) && allNb p e
  | .rep e => p (.rep e) && allNb p e
  | .rep1 e => p (.rep1 e) && allNb p e
  | .repExact e n => p (.repExact e n) && allNb p e
  | .repMin e n => p (.repMin e n) && allNb p e
  | .repMax e n => p (.repMax e n) && allNb p e
  | .repMinMax e m n => p (.repMinMax e m n) && allNb p e
  | .andP e => p (.andP e) && allNb p e
  | .notP e => p (.notP e) && allNb p e
  | .group e t => p (.group e t) && allNb p e
  | .push e => p (.push e) && allNb p e
  | e => p e
def allNbL (p : Expr → Bool) : List Expr → Bool
  | [] => true
  | e :: es => allNb p e && allNbL p es
end

mutual
theorem allNb_sound {p : Expr → Bool} : ∀ (e : Expr), allNb p e = true → AllN (fun x => p x = true) e
  | .rule n m sm b, h => by
    simp only [allNb, Bool.and_eq_true] at h; exact ⟨h.1, allNb_sound b h.2⟩
  | .seq es, h => by simp only [allNb, Bool.and_eq_true] at h; exact ⟨h.1, allNbL_sound es h.2⟩
  | .choice es, h => by simp only [allNb, Bool.and_eq_true] at h; exact ⟨h.1, allNbL_sound es h.2⟩
  | .opt e, h => by simp only [allNb, Bool.and_eq_true] at h; exact ⟨h.1, allNb_sound e h.2⟩
  | .rep e, h => by simp only [allNb, Bool.and_eq_true] at h; exact ⟨h.1, allNb_sound e h.2⟩
  | .rep1 e, h => by simp only [allNb, Bool.and_eq_true] at h; exact ⟨h.1, allNb_sound e h.2⟩
  | .repExact e n, h => by simp only [allNb, Bool.and_eq_true] at h; exact ⟨h.1, allNb_sound e h.2⟩
  | .repMin e n, h => by simp only [allNb, Bool.and_eq_true] at h; exact ⟨h.1, allNb_sound e h.2⟩
  | .repMax e n, h => by simp only [allNb, Bool.and_eq_true] at h; exact ⟨h.1, allNb_sound e h.2⟩
  | .repMinMax e m n, h => by simp only [allNb, Bool.and_eq_true] at h; exact ⟨h.1, allNb_sound e h.2⟩
  | .andP e, h => by simp only [allNb, Bool.and_eq_true] at h; exact ⟨h.1, allNb_sound e h.2⟩
  | .notP e, h => by simp only [allNb, Bool.and_eq_true] at h; exact ⟨h.1, allNb_sound e h.2⟩
  | .group e t, h => by simp only [allNb, Bool.and_eq_true] at h; exact ⟨h.1, allNb_sound e h.2⟩
  | .push e, h => by simp only [allNb, Bool.and_eq_true] at h; exact ⟨h.1, allNb_sound e h.2⟩
  | .ident n t, h => by simp only [allNb] at h; exact h
  | .str _, h => by simp only [allNb] at h; exact h
  | .ci _, h => by simp only [allNb] at h; exact h
  | .range _ _, h => by simp only [allNb] at h; exact h
  | .pushLit _, h => by simp only [allNb] at h; exact h
  | .peek, h => by simp only [allNb] at h; exact h
  | .pop, h => by simp only [allNb] at h; exact h
  | .drop, h => by simp only [allNb] at h; exact h
  | .peekAll, h => by simp only [allNb] at h; exact h
  | .popAll, h => by simp only [allNb] at h; exact h
  | .peekSlice _ _, h => by simp only [allNb] at h; exact h
  | .anyB, h => by simp only [allNb] at h; exact h
  | .soiB, h => by simp only [allNb] at h; exact h
  | .eoiB, h => by simp only [allNb] at h; exact h
  | .uprop _, h => by simp only [allNb] at h; exact h
  | .skipUntil _, h => by simp only [allNb] at h; exact h
  | .optChoice _ _, h => by simp only [allNb] at h; exact h
theorem allNbL_sound {p : Expr → Bool} : ∀ (es : List Expr), allNbL p es = true →
    AllNL (fun x => p x = true) es
  | [], _ => trivial
  | e :: es, h => by
    simp only [allNbL, Bool.and_eq_true] at h; exact ⟨allNb_sound e h.1, allNbL_sound es h.2⟩
end

def altOKb : Alt → Bool
  | .range lo hi => decide (lo ≤ hi)
  | _ => true

/-- `NodeOK`, as a Boolean -/
def nodeOKb (g : Grammar) (fa : Bool) : Expr → Bool
  | .rule n m sm b =>
    (match b with | .rule _ _ _ _ => false | .ident _ _ => false | _ => true) && !hasBit m ATOMIC && !hasBit m COMPOUND && !hasBit m NONATOMIC && !L1.isTriviaName n &&
    (n == "EOI" || hasBit m SILENT) &&
    (n != "EOI" || (match b with | .eoiB => true | _ => false)) &&
    (match b with | .uprop pn => pn == n | _ => true) &&
    (n != "ANY" || (match b with | .anyB => true | _ => false))
  | .ident n t =>
    n != "ANY" && n != "SKIP" &&
    (match t, sigOf g n with
     | none, some (nm, md) => !hasBit md SILENT || (ruleAtomic nm md true && (fa || !ruleAtomic nm md false))
     | _, _ => true)
  | .choice es => !es.isEmpty
  | .range a b => decide (a ≤ b)
  | .optChoice alts star => !star && !alts.isEmpty && alts.all altOKb
  | _ => true

theorem nodeOKb_sound (g : Grammar) (fa : Bool) (x : Expr) (h : nodeOKb g fa x = true) :
    NodeOK ⟨sigOf g, fa⟩ x := by
  cases x with
  | rule n m sm b =>
    simp only [nodeOKb, Bool.and_eq_true, Bool.not_eq_true', Bool.or_eq_true, beq_iff_eq, bne_iff_ne] at h
    obtain ⟨⟨⟨⟨⟨⟨⟨⟨h1, h2⟩, h3⟩, h4⟩, h5⟩, h6⟩, h7⟩, h8⟩, h9⟩ := h
    refine ⟨?_, h2, h3, h4, h5, ?_, ?_, ?_, ?_⟩
    · cases b <;> simp_all [rootOK]
    · intro hn; rcases h6 with h | h
      · exact absurd h hn
      · exact h
    · intro hn
      rcases h7 with h | h
      · exact absurd hn h
      · cases b <;> simp_all
    · intro pn hb; subst hb; simpa using h8.symm
    · intro hn
      rcases h9 with h | h
      · exact absurd hn h
      · cases b <;> simp_all
  | ident n t =>
    simp only [nodeOKb, Bool.and_eq_true, bne_iff_ne] at h
    refine ⟨h.1.1, h.1.2, ?_⟩
    intro ht nm md hsg hs a hfa
    subst ht
    have h3 := h.2
    simp only [] at hsg
    rw [hsg] at h3
    simp only [hs, Bool.not_true, Bool.false_or, Bool.and_eq_true, Bool.or_eq_true, Bool.not_eq_true'] at h3
    cases a
    · rcases h3.2 with h4 | h4
      · exact absurd (hfa h4) (by simp)
      · exact h4
    · exact h3.1
  | choice es =>
    simp only [nodeOKb, Bool.not_eq_true', List.isEmpty_eq_false_iff] at h
    exact h
  | range a b => simp only [nodeOKb, decide_eq_true_eq] at h; exact h
  | optChoice alts star =>
    simp only [nodeOKb, Bool.and_eq_true, Bool.not_eq_true', List.isEmpty_eq_false_iff, List.all_eq_true] at h
    refine ⟨h.1.1, h.1.2, fun a ha => ?_⟩
    have := h.2 a ha
    cases a with
    | range lo hi => simp only [altOKb, decide_eq_true_eq] at this; exact this
    | _ => trivial
  | _ => trivial

def notPOKb (g : Grammar) : Expr → Bool
  | .notP x => regG g 100 x
  | _ => true

theorem notPOKb_sound (g : Grammar) (x : Expr) (h : notPOKb g x = true) : NotPOK g x := by
  cases x with
  | notP y => exact h
  | _ => trivial

/-- no empty-string alternative in a `WHITESPACE` that will be fused -/
def wsProgressB (g : Grammar) : Bool :=
  match g.lookup "COMMENT", g.lookup "WHITESPACE" with
  | none, some wr =>
    match wr.body with
    | .choice es =>
      match Opt.squash 1000 es [] with
      | some alts => alts.all fun | .lit [] _ => false | _ => true
      | none => true
    | _ => true
  | _, _ => true

/-- the executable form of `WF Fall` -/
def wfCheck (g : Grammar) : Bool :=
  g.rules.all (fun r => allNb (nodeOKb g (forced r)) r.body) &&
  g.rules.all (fun r => r.name != "SKIP") &&
  g.rules.all (fun r => allNb (notPOKb g) r.body) &&
  wsProgressB g

theorem wfCheck_sound {g : Grammar} (h : wfCheck g = true) : WF Fall g := by
  simp only [wfCheck, Bool.and_eq_true, List.all_eq_true, bne_iff_ne] at h
  obtain ⟨⟨⟨h1, h2⟩, h3⟩, h4⟩ := h
  refine ⟨fun r hr => ?_, h2, fun _ r hr => ?_, ?_⟩
  · exact AllN.imp (nodeOKb_sound g (forced r)) (allNb_sound _ (h1 r hr))
  · exact AllN.imp (notPOKb_sound g) (allNb_sound _ (h3 r hr))
  · intro wr es alts hc hw hb hq s ci hmem
    unfold wsProgressB at h4
    rw [hc, hw] at h4
    simp only [hb, hq, List.all_eq_true] at h4
    have := h4 _ hmem
    intro hs
    subst hs
    simp at this

end OptS
end Pest
