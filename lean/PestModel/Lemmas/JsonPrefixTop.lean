/-
  Lemmas/JsonPrefixTop.lean — stage 4 of C17's JSON half: the two bundled grammars provide
  `TruncIface`, and every proper prefix of a rendered document is rejected.
-/
import PestModel.Lemmas.JsonPrefixDoc

namespace Pest
namespace Json
open L0

variable {g : Grammar} {inp : Input}

/-- the first character, if any, is none of those a value can start with -/
def NoStart (c : CP) : Prop :=
  c ≠ 123 ∧ c ≠ 91 ∧ c ≠ 34 ∧ c ≠ 45 ∧ ¬ IsDigit c ∧ c ≠ 116 ∧ c ≠ 102 ∧ c ≠ 110

/-! ### examples/json/json.pest -/

section examples
variable (hg : ExDocRules g)
include hg

theorem ex_object_fail_head {s : S0} {r : Str} (h : RestAt inp s.pos r) (hh : HeadIs (fun c => c ≠ 123) r) :
    Ev g inp (.ident "object" none) s .fail :=
  ev_plain_fail hg.object (Or.inl rfl) (by decide)
    (ev_choice_next (ev_seq (evSeq_fail (ev_lit_fail_head h hh)))
      (ev_choice_next (ev_seq (evSeq_fail (ev_lit_fail_head h hh))) ev_choice_nil))

theorem ex_array_fail_head {s : S0} {r : Str} (h : RestAt inp s.pos r) (hh : HeadIs (fun c => c ≠ 91) r) :
    Ev g inp (.ident "array" none) s .fail :=
  ev_plain_fail hg.array (Or.inl rfl) (by decide)
    (ev_choice_next (ev_seq (evSeq_fail (ev_lit_fail_head h hh)))
      (ev_choice_next (ev_seq (evSeq_fail (ev_lit_fail_head h hh))) ev_choice_nil))

theorem ex_string_fail_head {s : S0} {r : Str} (h : RestAt inp s.pos r) (hh : HeadIs (fun c => c ≠ 34) r) :
    Ev g inp (.ident "string" none) s .fail := by
  obtain ⟨k, hl⟩ := hg.strs.string
  exact ev_ident_fail (tag := none) hl (ev_seq (evSeq_fail (ev_lit_fail_head (s := { s with atomic := _ }) h hh)))

theorem ex_number_fail_head {s : S0} {r : Str} (h : RestAt inp s.pos r)
    (hh : HeadIs (fun c => c ≠ 45 ∧ ¬ IsDigit c) r) : Ev g inp (.ident "number" none) s .fail := by
  apply ev_ident_fail (tag := none) hg.number
  have hat : ruleAtomic "number" 4 s.atomic = true := atomic_enter _ _
  let sa : S0 := { s with atomic := ruleAtomic "number" 4 s.atomic }
  have h' : RestAt inp sa.pos r := h
  have h1 : Ev g inp (.opt (.str [45])) sa (.ok sa []) :=
    ev_opt_none (ev_lit_fail_head h' (hh.mono fun _ hc => hc.1))
  have h48 : HeadIs (fun c => c ≠ 48) r :=
    hh.mono fun c hc e => hc.2 (by subst e; unfold IsDigit; decide)
  have hnz : Ev g inp NZDIGIT sa .fail :=
    ev_silent_range_fail h' (hh.mono fun c hc e => hc.2 (by unfold IsDigit; cp_omega))
  have h2 : Ev g inp exIntExpr sa .fail :=
    ev_group (ev_choice_next (ev_lit_fail_head h' h48) (ev_choice_next (ev_seq (evSeq_fail hnz)) ev_choice_nil))
  exact ev_seq (evSeq_cons h1 (evSkip_atomic hat) (evSeq_fail h2))

theorem ex_null_fail_head {s : S0} {r : Str} (h : RestAt inp s.pos r) (hh : HeadIs (fun c => c ≠ 110) r) :
    Ev g inp (.ident "null" none) s .fail :=
  ev_plain_fail hg.null (Or.inl rfl) (by decide) (ev_lit_fail_head h hh)

theorem ex_boolean_fail_head {s : S0} {r : Str} (h : RestAt inp s.pos r)
    (hh : HeadIs (fun c => c ≠ 116 ∧ c ≠ 102) r) : Ev g inp (.ident "boolean" none) s .fail :=
  ev_plain_fail hg.boolean (Or.inl rfl) (by decide)
    (ev_choice_next (ev_lit_fail_head h (hh.mono fun _ hc => hc.1))
      (ev_choice_next (ev_lit_fail_head h (hh.mono fun _ hc => hc.2)) ev_choice_nil))

/-- `value` fails when each of its six alternatives does -/
theorem ex_value_fail_of {s : S0} (ho : Ev g inp (.ident "object" none) s .fail)
    (ha : Ev g inp (.ident "array" none) s .fail) (hs : Ev g inp (.ident "string" none) s .fail)
    (hn : Ev g inp (.ident "number" none) s .fail) (hb : Ev g inp (.ident "boolean" none) s .fail)
    (hnl : Ev g inp (.ident "null" none) s .fail) : Ev g inp valueE s .fail :=
  ev_plain_fail hg.value (Or.inr rfl) (by decide)
    (ev_choice_next ho (ev_choice_next ha (ev_choice_next hs (ev_choice_next hn (ev_choice_next hb
      (ev_choice_next hnl ev_choice_nil))))))

/-- the alternatives other than the literals fail on a character no structure or number starts with -/
theorem ex_value_fail_lit {s : S0} {r : Str} (h : RestAt inp s.pos r)
    (hh : HeadIs (fun c => c ≠ 123 ∧ c ≠ 91 ∧ c ≠ 34 ∧ c ≠ 45 ∧ ¬ IsDigit c) r)
    (hb : Ev g inp (.ident "boolean" none) s .fail) (hnl : Ev g inp (.ident "null" none) s .fail) :
    Ev g inp valueE s .fail :=
  ex_value_fail_of hg (ex_object_fail_head hg h (hh.mono fun _ x => x.1))
    (ex_array_fail_head hg h (hh.mono fun _ x => x.2.1)) (ex_string_fail_head hg h (hh.mono fun _ x => x.2.2.1))
    (ex_number_fail_head hg h (hh.mono fun _ x => ⟨x.2.2.2.1, x.2.2.2.2⟩)) hb hnl

theorem ex_value_nil (s : S0) (h : RestAt inp s.pos []) : Ev g inp valueE s .fail :=
  ex_value_fail_lit hg h trivial (ex_boolean_fail_head hg h trivial) (ex_null_fail_head hg h trivial)

/-- a proper prefix of `true`, `false` or `null` -/
theorem ex_litTrunc (v : Val) (hv : v = .null ∨ v = .tt ∨ v = .ff) : TruncVal g inp v := by
  intro s rem hna hp hne hr
  refine Or.inl ?_
  have nd : ∀ c : CP, (c = 110 ∨ c = 116 ∨ c = 102) →
      c ≠ 123 ∧ c ≠ 91 ∧ c ≠ 34 ∧ c ≠ 45 ∧ ¬ IsDigit c := by
    intro c hc; unfold IsDigit; rcases hc with rfl | rfl | rfl <;> refine ⟨?_, ?_, ?_, ?_, ?_⟩ <;> cp_omega
  rcases hv with rfl | rfl | rfl
  · have hh : HeadIs (fun c => c = 110) rem := headIs_cons_prefix (T := [117, 108, 108]) hp rfl
    exact ex_value_fail_lit hg hr (hh.mono fun c hc => nd c (Or.inl hc))
      (ex_boolean_fail_head hg hr (hh.mono fun c hc => by subst hc; decide))
      (ev_plain_fail hg.null (Or.inl rfl) (by decide) (ev_lit_short hr hp hne))
  · have hh : HeadIs (fun c => c = 116) rem := headIs_cons_prefix (T := [114, 117, 101]) hp rfl
    exact ex_value_fail_lit hg hr (hh.mono fun c hc => nd c (Or.inr (Or.inl hc)))
      (ev_plain_fail hg.boolean (Or.inl rfl) (by decide)
        (ev_choice_next (ev_lit_short hr hp hne)
          (ev_choice_next (ev_lit_fail_head hr (hh.mono fun c hc => by subst hc; decide)) ev_choice_nil)))
      (ex_null_fail_head hg hr (hh.mono fun c hc => by subst hc; decide))
  · have hh : HeadIs (fun c => c = 102) rem := headIs_cons_prefix (T := [97, 108, 115, 101]) hp rfl
    exact ex_value_fail_lit hg hr (hh.mono fun c hc => nd c (Or.inr (Or.inr hc)))
      (ev_plain_fail hg.boolean (Or.inl rfl) (by decide)
        (ev_choice_next (ev_lit_fail_head hr (hh.mono fun c hc => by subst hc; decide))
          (ev_choice_next (ev_lit_short hr hp hne) ev_choice_nil)))
      (ex_null_fail_head hg hr (hh.mono fun c hc => by subst hc; decide))

theorem ex_numTrunc (n : Num) : TruncVal g inp (.num n) := by
  intro s rem hna hp hne hr
  cases rem with
  | nil => exact Or.inl (ex_value_nil hg s hr)
  | cons c r =>
    obtain ⟨c', t, hc', hs'⟩ := numText_head n
    have hp' : c :: r <+: c' :: t := by rw [← hc']; exact hp
    obtain ⟨hcc, _⟩ := List.cons_prefix_cons.mp hp'
    subst hcc
    have c1 : c ≠ 123 ∧ c ≠ 91 ∧ c ≠ 34 ∧ c ≠ 116 ∧ c ≠ 102 ∧ c ≠ 110 := by
      unfold IsDigit at hs'
      rcases hs' with hs' | hs'
      · subst hs'; decide
      · refine ⟨?_, ?_, ?_, ?_, ?_, ?_⟩ <;> cp_omega
    have ho := ev_object_fail hg hr c1.1
    have ha := ev_array_fail hg hr c1.2.1
    have hst := ev_string_fail hg hr c1.2.2.1
    rcases num_trunc (ex_numTotal hg.number) n hr (by simp) hp with hF | ⟨k, p, hS, hJ⟩
    · exact Or.inl (ex_value_fail_of hg ho ha hst hF (ev_boolean_fail hg hr ⟨c1.2.2.2.1, c1.2.2.2.2.1⟩)
        (ex_null_fail_head hg hr (show c ≠ 110 from c1.2.2.2.2.2)))
    · exact Or.inr ⟨adv s k, [p], ev_value_of_body hg
        (ev_choice_next ho (ev_choice_next ha (ev_choice_next hst (ev_choice_ok hS)))) (by simp),
        by simpa using hna, hJ⟩

theorem ex_strValTrunc (cs : SStr) : TruncVal g inp (.str cs) := by
  intro s rem hna hp hne hr
  refine Or.inl ?_
  have hstr := ex_string_trunc hg.strs cs (show rem <+: strText cs from hp) hne hr
  have hh : HeadIs (fun c => c = 34) rem := headIs_cons_prefix (T := sstrText cs ++ [34]) hp rfl
  have nd : ¬ IsDigit 34 := by unfold IsDigit; cp_omega
  exact ex_value_fail_of hg (ex_object_fail_head hg hr (hh.mono fun c hc => by subst hc; decide))
    (ex_array_fail_head hg hr (hh.mono fun c hc => by subst hc; decide)) hstr
    (ex_number_fail_head hg hr (hh.mono fun c hc => by subst hc; exact ⟨by decide, nd⟩))
    (ex_boolean_fail_head hg hr (hh.mono fun c hc => by subst hc; decide))
    (ex_null_fail_head hg hr (hh.mono fun c hc => by subst hc; decide))

/-- examples/json/json.pest provides the interface -/
theorem exIface : TruncIface g inp .examples where
  core := exCore hg
  valOk := val_ok hg
  strTrunc := fun cs s p hp hne hr => ex_string_trunc hg.strs cs hp hne hr
  valNil := ex_value_nil hg
  litTrunc := ex_litTrunc hg
  numTrunc := ex_numTrunc hg
  strValTrunc := ex_strValTrunc hg
  arrRule := fun s he hf =>
    ev_plain_fail hg.array (Or.inl rfl) (by decide) (ev_choice_next he (ev_choice_next hf ev_choice_nil))
  objRule := fun s he hf =>
    ev_plain_fail hg.object (Or.inl rfl) (by decide) (ev_choice_next he (ev_choice_next hf ev_choice_nil))
  valOfArr := fun s r hr ha => by
    have nd : ¬ IsDigit 91 := by unfold IsDigit; cp_omega
    exact ex_value_fail_of hg (ev_object_fail hg hr (by decide)) ha (ev_string_fail hg hr (by decide))
      (ev_number_fail hg hr ⟨by decide, nd⟩) (ev_boolean_fail hg hr ⟨by decide, by decide⟩)
      (ex_null_fail_head hg hr (show (91 : CP) ≠ 110 by decide))
  valOfObj := fun s r hr ho => by
    have nd : ¬ IsDigit 123 := by unfold IsDigit; cp_omega
    exact ex_value_fail_of hg ho (ev_array_fail hg hr (by decide)) (ev_string_fail hg hr (by decide))
      (ev_number_fail hg hr ⟨by decide, nd⟩) (ev_boolean_fail hg hr ⟨by decide, by decide⟩)
      (ex_null_fail_head hg hr (show (123 : CP) ≠ 110 by decide))

end examples

/-- the start of every run: the whole (truncated) input is still to come -/
theorem restAt_start (q : Str) : RestAt q.toArray (⟨0, [], false⟩ : S0).pos q := restAt_zero q

theorem soi_ok (s0 : S0) (h0 : s0 = ⟨0, [], false⟩) : Ev g inp (.rule "SOI" 2 true .soiB) s0 (.ok s0 []) := by
  subst h0
  have := ev_rule_ok (g := g) (inp := inp) (name := "SOI") (mod := 2) (sm := true) (body := .soiB)
    (s := ⟨0, [], false⟩) (ev_soi (s := { (⟨0, [], false⟩ : S0) with atomic := ruleAtomic "SOI" 2 false }) rfl)
  simpa [silent_wrap, ruleAtomic, hasBit, ATOMIC, COMPOUND, NONATOMIC, L1.isTriviaName] using this

/-- a proper prefix of `w1 ++ text`, after the whitespace: a proper prefix of `text` -/
theorem doc_prefix_split (d : Doc) (hw : d.w2 = []) {q : Str} (hq : q <+: render d) (hne : q ≠ render d) :
    q <+: wsText d.w1 ++ d.v.text ∧ q.length < d.w1.length + d.v.text.length := by
  have hrd : render d = wsText d.w1 ++ d.v.text := by simp [render, hw, wsText]
  rw [hrd] at hq hne
  exact ⟨hq, by have := proper_prefix_length hq hne; simpa using this⟩

/-- **stage 4 (examples/json/json.pest)**: every proper prefix of a rendered document (container
    at top level, no trailing whitespace) is rejected -/
theorem ex_parse_prefix_fail (hg : ExDocRules g) (d : Doc) (hc : d.topLevelIsContainer) (hw : d.w2 = [])
    (q : Str) (hq : q <+: render d) (hne : q ≠ render d) :
    ∃ N, ∀ n, N ≤ n → L0.parse g q.toArray n "json" 0 = .fail := by
  obtain ⟨hq', hlen⟩ := doc_prefix_split d hw hq hne
  let s0 : S0 := ⟨0, [], false⟩
  have hi : TruncIface g q.toArray .examples := exIface hg
  obtain ⟨c, t, hcv, hst⟩ := val_text_start d.v
  obtain ⟨k, rem1, hk, hsk, hr1, hp1, hkfull, hl1⟩ :=
    skip_prefix hg.ws (s := s0) rfl d.w1 (T := d.v.text) (by rw [hcv]; exact hst.not_ws) (restAt_start q) hq'
  have hne1 : rem1 ≠ d.v.text := by
    intro e; rw [e] at hl1
    have : k = d.w1.length := hkfull (by rw [e, hcv]; simp)
    omega
  have hna : (adv s0 k).atomic = false := rfl
  have hr1' : RestAt q.toArray (adv s0 k).pos rem1 := by simpa [s0] using hr1
  -- neither `object` nor `array` matches
  have hnil : rem1 = [] → Ev g q.toArray (.ident "object" none) (adv s0 k) .fail ∧
      Ev g q.toArray (.ident "array" none) (adv s0 k) .fail := fun h => by
    rw [h] at hr1'
    exact ⟨ex_object_fail_head hg hr1' trivial, ex_array_fail_head hg hr1' trivial⟩
  have hboth : Ev g q.toArray (.ident "object" none) (adv s0 k) .fail ∧
      Ev g q.toArray (.ident "array" none) (adv s0 k) .fail := by
    cases hv : d.v with
    | null => simp [Doc.topLevelIsContainer, hv, Val.isContainer] at hc
    | tt => simp [Doc.topLevelIsContainer, hv, Val.isContainer] at hc
    | ff => simp [Doc.topLevelIsContainer, hv, Val.isContainer] at hc
    | num n => simp [Doc.topLevelIsContainer, hv, Val.isContainer] at hc
    | str cs => simp [Doc.topLevelIsContainer, hv, Val.isContainer] at hc
    | arr0 w =>
      rw [hv] at hp1 hne1
      rcases container_cases (body := wsText w) (by simpa [Val.text] using hp1) (by simpa [Val.text] using hne1) with
        h | ⟨rem3, h, hp3⟩
      · exact hnil h
      · rw [h] at hr1'
        exact ⟨ev_object_fail hg hr1' (by decide), arr0_rule_fail hi w hna hr1' hp3⟩
    | arr es =>
      rw [hv] at hp1 hne1
      rcases container_cases (body := es.text) (by simpa [Val.text] using hp1) (by simpa [Val.text] using hne1) with
        h | ⟨rem3, h, hp3⟩
      · exact hnil h
      · rw [h] at hr1'
        exact ⟨ev_object_fail hg hr1' (by decide), arr_rule_fail hi es (elems_good hi es) hna hr1' hp3⟩
    | obj0 w =>
      rw [hv] at hp1 hne1
      rcases container_cases (body := wsText w) (by simpa [Val.text] using hp1) (by simpa [Val.text] using hne1) with
        h | ⟨rem3, h, hp3⟩
      · exact hnil h
      · rw [h] at hr1'
        exact ⟨obj0_rule_fail hi w hna hr1' hp3, ev_array_fail hg hr1' (by decide)⟩
    | obj ms =>
      rw [hv] at hp1 hne1
      rcases container_cases (body := ms.text) (by simpa [Val.text] using hp1) (by simpa [Val.text] using hne1) with
        h | ⟨rem3, h, hp3⟩
      · exact hnil h
      · rw [h] at hr1'
        exact ⟨obj_rule_fail hi ms (members_good hi ms) hna hr1' hp3, ev_array_fail hg hr1' (by decide)⟩
  have hgrp : Ev g q.toArray (.group (.choice [(.ident "object" none), (.ident "array" none)]) none)
      (adv s0 k) .fail :=
    ev_group (ev_choice_next hboth.1 (ev_choice_next hboth.2 ev_choice_nil))
  have hbody : Ev g q.toArray exJsonBody s0 .fail :=
    ev_seq (evSeq_cons (soi_ok s0 rfl) hsk (evSeq_fail hgrp))
  obtain ⟨N, h⟩ := hbody
  refine ⟨N, fun n hn => ?_⟩
  have hra : ruleAtomic "json" 2 false = false := by
    simp [ruleAtomic, hasBit, ATOMIC, COMPOUND, NONATOMIC, L1.isTriviaName]
  simp [L0.parse, hg.json, ruleApply, hra, h n hn, s0]

/-- a truncated *container* makes `value` fail (no "shorter success": that is for numbers) -/
theorem container_val_fail {fl : Flavour} (hi : TruncIface g inp fl) (v : Val) (hc : v.isContainer = true)
    {s : S0} (hna : s.atomic = false) {rem : Str} (hp : rem <+: v.text) (hne : rem ≠ v.text)
    (hr : RestAt inp s.pos rem) : Ev g inp valueE s .fail := by
  cases v with
  | null => simp [Val.isContainer] at hc
  | tt => simp [Val.isContainer] at hc
  | ff => simp [Val.isContainer] at hc
  | num n => simp [Val.isContainer] at hc
  | str cs => simp [Val.isContainer] at hc
  | arr0 w =>
    rcases container_cases (body := wsText w) (by simpa [Val.text] using hp) (by simpa [Val.text] using hne) with
      rfl | ⟨rem1, rfl, hp1⟩
    · exact hi.valNil s hr
    · exact hi.valOfArr s rem1 hr (arr0_rule_fail hi w hna hr hp1)
  | arr es =>
    rcases container_cases (body := es.text) (by simpa [Val.text] using hp) (by simpa [Val.text] using hne) with
      rfl | ⟨rem1, rfl, hp1⟩
    · exact hi.valNil s hr
    · exact hi.valOfArr s rem1 hr (arr_rule_fail hi es (elems_good hi es) hna hr hp1)
  | obj0 w =>
    rcases container_cases (body := wsText w) (by simpa [Val.text] using hp) (by simpa [Val.text] using hne) with
      rfl | ⟨rem1, rfl, hp1⟩
    · exact hi.valNil s hr
    · exact hi.valOfObj s rem1 hr (obj0_rule_fail hi w hna hr hp1)
  | obj ms =>
    rcases container_cases (body := ms.text) (by simpa [Val.text] using hp) (by simpa [Val.text] using hne) with
      rfl | ⟨rem1, rfl, hp1⟩
    · exact hi.valNil s hr
    · exact hi.valOfObj s rem1 hr (obj_rule_fail hi ms (members_good hi ms) hna hr hp1)

/-! ### tests/grammars/json.pest -/

section tests
variable (hg : TDocRules g)
include hg

theorem t_string_fail_head {s : S0} {r : Str} (h : RestAt inp s.pos r) (hh : HeadIs (fun c => c ≠ 34) r) :
    Ev g inp (.ident "string" none) s .fail := by
  obtain ⟨k, hl⟩ := hg.strs.string
  exact ev_ident_fail (tag := none) hl (ev_seq (evSeq_fail (ev_lit_fail_head (s := { s with atomic := _ }) h hh)))

theorem t_number_fail_head {s : S0} {r : Str} (h : RestAt inp s.pos r)
    (hh : HeadIs (fun c => c ≠ 45 ∧ ¬ IsDigit c) r) : Ev g inp (.ident "number" none) s .fail := by
  obtain ⟨k, hl⟩ := hg.nums.number
  obtain ⟨k', hli⟩ := hg.nums.int
  apply ev_ident_fail (tag := none) hl
  have hat : ruleAtomic "number" 4 s.atomic = true := atomic_enter _ _
  let sa : S0 := { s with atomic := ruleAtomic "number" 4 s.atomic }
  have h' : RestAt inp sa.pos r := h
  have h1 : Ev g inp (.opt (.str [45])) sa (.ok sa []) :=
    ev_opt_none (ev_lit_fail_head h' (hh.mono fun _ hc => hc.1))
  have h48 : HeadIs (fun c => c ≠ 48) r :=
    hh.mono fun c hc e => hc.2 (by subst e; unfold IsDigit; decide)
  have hnz : Ev g inp NZDIGIT { sa with atomic := ruleAtomic "int" 4 sa.atomic } .fail :=
    ev_silent_range_fail (s := { sa with atomic := _ }) h'
      (hh.mono fun c hc e => hc.2 (by unfold IsDigit; cp_omega))
  have h2 : Ev g inp (.ident "int" none) sa .fail :=
    ev_ident_fail (tag := none) hli
      (ev_choice_next (ev_lit_fail_head (s := { sa with atomic := _ }) h' h48)
        (ev_choice_next (ev_seq (evSeq_fail hnz)) ev_choice_nil))
  exact ev_seq (evSeq_cons h1 (evSkip_atomic hat) (evSeq_fail h2))

theorem t_object_fail_head {s : S0} {r : Str} (h : RestAt inp s.pos r) (hh : HeadIs (fun c => c ≠ 123) r) :
    Ev g inp (.ident "object" none) s .fail :=
  ev_plain_fail hg.object (Or.inl rfl) (by decide)
    (ev_choice_next (ev_seq (evSeq_fail (ev_lit_fail_head h hh)))
      (ev_choice_next (ev_seq (evSeq_fail (ev_lit_fail_head h hh))) ev_choice_nil))

theorem t_array_fail_head {s : S0} {r : Str} (h : RestAt inp s.pos r) (hh : HeadIs (fun c => c ≠ 91) r) :
    Ev g inp (.ident "array" none) s .fail :=
  ev_plain_fail hg.array (Or.inl rfl) (by decide)
    (ev_choice_next (ev_seq (evSeq_fail (ev_lit_fail_head h hh)))
      (ev_choice_next (ev_seq (evSeq_fail (ev_lit_fail_head h hh))) ev_choice_nil))

theorem t_bool_fail_head {s : S0} {r : Str} (h : RestAt inp s.pos r)
    (hh : HeadIs (fun c => c ≠ 116 ∧ c ≠ 102) r) : Ev g inp (.ident "bool" none) s .fail :=
  ev_plain_fail hg.bool (Or.inl rfl) (by decide)
    (ev_choice_next (ev_lit_fail_head h (hh.mono fun _ hc => hc.1))
      (ev_choice_next (ev_lit_fail_head h (hh.mono fun _ hc => hc.2)) ev_choice_nil))

theorem t_null_fail_head {s : S0} {r : Str} (h : RestAt inp s.pos r) (hh : HeadIs (fun c => c ≠ 110) r) :
    Ev g inp (.ident "null" none) s .fail :=
  ev_plain_fail hg.null (Or.inl rfl) (by decide) (ev_lit_fail_head h hh)

theorem t_value_fail_of {s : S0} (hs : Ev g inp (.ident "string" none) s .fail)
    (hn : Ev g inp (.ident "number" none) s .fail) (ho : Ev g inp (.ident "object" none) s .fail)
    (ha : Ev g inp (.ident "array" none) s .fail) (hb : Ev g inp (.ident "bool" none) s .fail)
    (hnl : Ev g inp (.ident "null" none) s .fail) : Ev g inp valueE s .fail :=
  ev_plain_fail hg.value (Or.inl rfl) (by decide)
    (ev_choice_next hs (ev_choice_next hn (ev_choice_next ho (ev_choice_next ha (ev_choice_next hb
      (ev_choice_next hnl ev_choice_nil))))))

theorem t_value_fail_lit {s : S0} {r : Str} (h : RestAt inp s.pos r)
    (hh : HeadIs (fun c => c ≠ 123 ∧ c ≠ 91 ∧ c ≠ 34 ∧ c ≠ 45 ∧ ¬ IsDigit c) r)
    (hb : Ev g inp (.ident "bool" none) s .fail) (hnl : Ev g inp (.ident "null" none) s .fail) :
    Ev g inp valueE s .fail :=
  t_value_fail_of hg (t_string_fail_head hg h (hh.mono fun _ x => x.2.2.1))
    (t_number_fail_head hg h (hh.mono fun _ x => ⟨x.2.2.2.1, x.2.2.2.2⟩))
    (t_object_fail_head hg h (hh.mono fun _ x => x.1)) (t_array_fail_head hg h (hh.mono fun _ x => x.2.1)) hb hnl

theorem t_value_nil (s : S0) (h : RestAt inp s.pos []) : Ev g inp valueE s .fail :=
  t_value_fail_lit hg h trivial (t_bool_fail_head hg h trivial) (t_null_fail_head hg h trivial)

theorem t_litTrunc (v : Val) (hv : v = .null ∨ v = .tt ∨ v = .ff) : TruncVal g inp v := by
  intro s rem hna hp hne hr
  refine Or.inl ?_
  have nd : ∀ c : CP, (c = 110 ∨ c = 116 ∨ c = 102) →
      c ≠ 123 ∧ c ≠ 91 ∧ c ≠ 34 ∧ c ≠ 45 ∧ ¬ IsDigit c := by
    intro c hc; unfold IsDigit; rcases hc with rfl | rfl | rfl <;> refine ⟨?_, ?_, ?_, ?_, ?_⟩ <;> cp_omega
  rcases hv with rfl | rfl | rfl
  · have hh : HeadIs (fun c => c = 110) rem := headIs_cons_prefix (T := [117, 108, 108]) hp rfl
    exact t_value_fail_lit hg hr (hh.mono fun c hc => nd c (Or.inl hc))
      (t_bool_fail_head hg hr (hh.mono fun c hc => by subst hc; decide))
      (ev_plain_fail hg.null (Or.inl rfl) (by decide) (ev_lit_short hr hp hne))
  · have hh : HeadIs (fun c => c = 116) rem := headIs_cons_prefix (T := [114, 117, 101]) hp rfl
    exact t_value_fail_lit hg hr (hh.mono fun c hc => nd c (Or.inr (Or.inl hc)))
      (ev_plain_fail hg.bool (Or.inl rfl) (by decide)
        (ev_choice_next (ev_lit_short hr hp hne)
          (ev_choice_next (ev_lit_fail_head hr (hh.mono fun c hc => by subst hc; decide)) ev_choice_nil)))
      (t_null_fail_head hg hr (hh.mono fun c hc => by subst hc; decide))
  · have hh : HeadIs (fun c => c = 102) rem := headIs_cons_prefix (T := [97, 108, 115, 101]) hp rfl
    exact t_value_fail_lit hg hr (hh.mono fun c hc => nd c (Or.inr (Or.inr hc)))
      (ev_plain_fail hg.bool (Or.inl rfl) (by decide)
        (ev_choice_next (ev_lit_fail_head hr (hh.mono fun c hc => by subst hc; decide))
          (ev_choice_next (ev_lit_short hr hp hne) ev_choice_nil)))
      (t_null_fail_head hg hr (hh.mono fun c hc => by subst hc; decide))

theorem t_numTrunc (n : Num) : TruncVal g inp (.num n) := by
  intro s rem hna hp hne hr
  cases rem with
  | nil => exact Or.inl (t_value_nil hg s hr)
  | cons c r =>
    obtain ⟨c', t, hc', hs'⟩ := numText_head n
    have hp' : c :: r <+: c' :: t := by rw [← hc']; exact hp
    obtain ⟨hcc, _⟩ := List.cons_prefix_cons.mp hp'
    subst hcc
    have c1 : c ≠ 123 ∧ c ≠ 91 ∧ c ≠ 34 ∧ c ≠ 116 ∧ c ≠ 102 ∧ c ≠ 110 := by
      unfold IsDigit at hs'
      rcases hs' with hs' | hs'
      · subst hs'; decide
      · refine ⟨?_, ?_, ?_, ?_, ?_, ?_⟩ <;> cp_omega
    have hst := ev_tString_fail hg hr c1.2.2.1
    rcases num_trunc (t_numTotal hg.nums) n hr (by simp) hp with hF | ⟨k, p, hS, hJ⟩
    · exact Or.inl (t_value_fail_of hg hst hF (ev_tObject_fail hg hr c1.1) (ev_tArray_fail hg hr c1.2.1)
        (ev_tBool_fail hg hr ⟨c1.2.2.2.1, c1.2.2.2.2.1⟩) (ev_tNull_fail hg hr c1.2.2.2.2.2))
    · exact Or.inr ⟨adv s k, _, ev_tValue_of_body hg (ev_choice_next hst (ev_choice_ok hS)) (by simp),
        by simpa using hna, hJ⟩

theorem t_strValTrunc (cs : SStr) : TruncVal g inp (.str cs) := by
  intro s rem hna hp hne hr
  refine Or.inl ?_
  have hstr := t_string_trunc hg.strs cs (show rem <+: strText cs from hp) hne hr
  have hh : HeadIs (fun c => c = 34) rem := headIs_cons_prefix (T := sstrText cs ++ [34]) hp rfl
  have nd : ¬ IsDigit 34 := by unfold IsDigit; cp_omega
  exact t_value_fail_of hg hstr
    (t_number_fail_head hg hr (hh.mono fun c hc => by subst hc; exact ⟨by decide, nd⟩))
    (t_object_fail_head hg hr (hh.mono fun c hc => by subst hc; decide))
    (t_array_fail_head hg hr (hh.mono fun c hc => by subst hc; decide))
    (t_bool_fail_head hg hr (hh.mono fun c hc => by subst hc; decide))
    (t_null_fail_head hg hr (hh.mono fun c hc => by subst hc; decide))

/-- tests/grammars/json.pest provides the interface -/
theorem tIface : TruncIface g inp .tests where
  core := tCore hg
  valOk := tval_ok hg
  strTrunc := fun cs s p hp hne hr => t_string_trunc hg.strs cs hp hne hr
  valNil := t_value_nil hg
  litTrunc := t_litTrunc hg
  numTrunc := t_numTrunc hg
  strValTrunc := t_strValTrunc hg
  arrRule := fun s he hf =>
    ev_plain_fail hg.array (Or.inl rfl) (by decide) (ev_choice_next hf (ev_choice_next he ev_choice_nil))
  objRule := fun s he hf =>
    ev_plain_fail hg.object (Or.inl rfl) (by decide) (ev_choice_next hf (ev_choice_next he ev_choice_nil))
  valOfArr := fun s r hr ha => by
    have nd : ¬ IsDigit 91 := by unfold IsDigit; cp_omega
    exact t_value_fail_of hg (ev_tString_fail hg hr (by decide)) (ev_tNumber_fail hg hr ⟨by decide, nd⟩)
      (ev_tObject_fail hg hr (by decide)) ha (ev_tBool_fail hg hr ⟨by decide, by decide⟩)
      (ev_tNull_fail hg hr (by decide))
  valOfObj := fun s r hr ho => by
    have nd : ¬ IsDigit 123 := by unfold IsDigit; cp_omega
    exact t_value_fail_of hg (ev_tString_fail hg hr (by decide)) (ev_tNumber_fail hg hr ⟨by decide, nd⟩)
      ho (ev_tArray_fail hg hr (by decide)) (ev_tBool_fail hg hr ⟨by decide, by decide⟩)
      (ev_tNull_fail hg hr (by decide))

end tests

/-- **stage 4 (tests/grammars/json.pest)**: every proper prefix of a rendered document (container
    at top level, no trailing whitespace) is rejected -/
theorem t_parse_prefix_fail (hg : TDocRules g) (d : Doc) (hc : d.topLevelIsContainer) (hw : d.w2 = [])
    (q : Str) (hq : q <+: render d) (hne : q ≠ render d) :
    ∃ N, ∀ n, N ≤ n → L0.parse g q.toArray n "json" 0 = .fail := by
  obtain ⟨hq', hlen⟩ := doc_prefix_split d hw hq hne
  let s0 : S0 := ⟨0, [], false⟩
  have hi : TruncIface g q.toArray .tests := tIface hg
  obtain ⟨c, t, hcv, hst⟩ := val_text_start d.v
  obtain ⟨k, rem1, hk, hsk, hr1, hp1, hkfull, hl1⟩ :=
    skip_prefix hg.ws (s := s0) rfl d.w1 (T := d.v.text) (by rw [hcv]; exact hst.not_ws) (restAt_start q) hq'
  have hne1 : rem1 ≠ d.v.text := by
    intro e; rw [e] at hl1
    have : k = d.w1.length := hkfull (by rw [e, hcv]; simp)
    omega
  have hr1' : RestAt q.toArray (adv s0 k).pos rem1 := by simpa [s0] using hr1
  have hval := container_val_fail hi d.v hc (s := adv s0 k) rfl hp1 hne1 hr1'
  have hbody : Ev g q.toArray tJsonBody s0 .fail :=
    ev_seq (evSeq_cons (soi_ok s0 rfl) hsk (evSeq_fail hval))
  obtain ⟨N, h⟩ := hbody
  refine ⟨N, fun n hn => ?_⟩
  have hra : ruleAtomic "json" 0 false = false := by
    simp [ruleAtomic, hasBit, ATOMIC, COMPOUND, NONATOMIC, L1.isTriviaName]
  simp [L0.parse, hg.json, ruleApply, hra, h n hn, s0]

end Json
end Pest
